(* C13 model.
   rdata/dnssec.rs      split_rtype, RtypeBitmapBuilder::{add,get_block,finalize},
                        RtypeBitmap::contains / read_window
   dnssec/sign/records.rs  RecordsIter::{skip_before,next}, OwnerRrsIter::next,
                        OwnerRrs::{is_zone_cut,is_in_zone}
   base/name/traits.rs  ToLabelIter::ends_with
   dnssec/sign/denial/nsec.rs   generate_nsecs
   dnssec/sign/denial/nsec3.rs  generate_nsec3s, mk_nsec3
   dnssec/common.rs     nsec3_hash (the digest is a parameter [H])

   A zone is the list of (owner name, rtype) of its records in the order of the
   SortedRecords vector (several records of one RRset = the pair repeated).
   Names are label lists without the root label (Base/Names.v); u16 record
   types are N below 65536.  Error classes: 1 SoaRecordCouldNotBeDetermined,
   2 Nsec3HashError::CollisionDetected, 3 Nsec3HashError::UnsupportedAlgorithm.
   Panic sites: 1/2 `nsec_ttl.unwrap()` (push inside the loop / after it),
   3 `read_window(data).unwrap()` in contains, 4 usize underflow in the label
   distance computations, 5 `nsec3s.first().unwrap()`, 6 `unreachable!()` in
   the NSEC3 linking loop. *)
From Coq Require Import NArith Arith List Bool Sorted.
From DV Require Import Base.Outcome Base.Bytes Base.Lex Base.Names C13.Gen C11.Sha.
Import ListNotations.
Local Open Scope N_scope.

(* ------------------------------------------------------------------ bitmap *)

(* one 34-octet block of the builder buffer: window number, length octet,
   the 32 bitmap octets *)
Definition block := (N * (N * list N))%type.

Definition bm_data_len : nat := N.to_nat (bm_block_size - bm_header).
Definition bm_zero_data : list N := repeat 0 bm_data_len.

(* fn split_rtype(rtype) -> (window, octet index, mask) *)
Definition split_rtype (t : N) : N * nat * N :=
  (N.shiftr t bm_window_shift,
   N.to_nat (N.shiftr (N.land t bm_low_mask) bm_octet_shift),
   N.shiftr bm_top_bit (N.land t bm_bit_mask)).

Fixpoint set_at (l : list N) (i : nat) (f : N -> N) : list N :=
  match l, i with
  | [], _ => []
  | x :: r, O => f x :: r
  | x :: r, S j => x :: set_at r j f
  end.

(* the body of add after get_block returned the block *)
Definition block_add (b : block) (octet : nat) (bit : N) : block :=
  let '(w, (len, data)) := b in
  (w, ((if len <? N.of_nat octet + bm_len_plus then N.of_nat octet + bm_len_plus else len),
       set_at data octet (fun x => N.lor x bit))).

(* get_block: scan the blocks in order; Equal -> this one, Greater -> insert a
   zeroed block before it, Less -> next; append at the end *)
Fixpoint bm_add_at (bs : list block) (w : N) (octet : nat) (bit : N) : list block :=
  match bs with
  | [] => [block_add (w, (0, bm_zero_data)) octet bit]
  | b :: r =>
      match fst b ?= w with
      | Eq => block_add b octet bit :: r
      | Gt => block_add (w, (0, bm_zero_data)) octet bit :: b :: r
      | Lt => b :: bm_add_at r w octet bit
      end
  end.

Definition bm_add (bs : list block) (t : N) : list block :=
  let '(w, o, m) := split_rtype t in bm_add_at bs w o m.

Definition bm_adds (bs : list block) (ts : list N) : list block := fold_left bm_add ts bs.

(* finalize: of every block keep the first (length octet) + 2 octets *)
Definition block_wire (b : block) : bytes :=
  let '(w, (len, data)) := b in
  w :: len :: firstn (N.to_nat (len + bm_chunk_plus - bm_header)) data.

Definition bm_finalize (bs : list block) : bytes := flat_map block_wire bs.

(* RtypeBitmap::contains over the finalized octets *)
Fixpoint bm_contains_aux (fuel : nat) (data : bytes) (w : N) (octet : nat) (mask : N)
  : outcome bool :=
  match fuel with
  | O => OutOfFuel
  | S fuel' =>
      match data with
      | [] => Ok false
      | n :: rest =>
          match rest with
          | [] => Panic 3
          | l :: rest2 =>
              if (length rest2 <? N.to_nat l)%nat then Panic 3
              else
                let window := firstn (N.to_nat l) rest2 in
                if n =? w then
                  Ok (negb ((length window <=? octet)%nat
                            || (N.land (nth octet window 0) mask =? 0)))
                else bm_contains_aux fuel' (skipn (N.to_nat l) rest2) w octet mask
          end
      end
  end.

Definition bm_contains (data : bytes) (t : N) : outcome bool :=
  let '(w, o, m) := split_rtype t in bm_contains_aux (S (length data)) data w o m.

(* RtypeBitmap::from_octets: error 10 ShortInput, 11 BadRtypeBitmap *)
Fixpoint bm_check (fuel : nat) (data : bytes) : outcome unit :=
  match fuel with
  | O => OutOfFuel
  | S fuel' =>
      match data with
      | [] => Ok tt
      | [_] => Err 10
      | _ :: l :: _ =>
          let len := l + bm_parse_header in
          if len =? bm_parse_empty_chunk then Err 11
          else if bm_parse_max_chunk <? len then Err 11
          else if (length data <? N.to_nat len)%nat then Err 10
          else bm_check fuel' (skipn (N.to_nat len) data)
      end
  end.
Definition bm_from_octets (data : bytes) : outcome unit := bm_check (S (length data)) data.

(* ------------------------------------------------- names, records, groups *)

Definition rec := (name * N)%type.
Definition group := (name * list N)%type.   (* owner as spelled by the first record, its rtypes *)

(* ToLabelIter::ends_with: walk both label iterators from the back *)
Fixpoint ends_with_rev (n b : list label) {struct b} : bool :=
  match b with
  | [] => true
  | bl :: b' =>
      match n with
      | [] => false
      | nl :: n' => if label_eqb nl bl then ends_with_rev n' b' else false
      end
  end.
Definition ends_with (n base : name) : bool := ends_with_rev (rev n) (rev base).

(* RecordsIter::skip_before *)
Fixpoint skip_before (apex : name) (l : list rec) : list rec :=
  match l with
  | [] => []
  | (n, t) :: l' =>
      if name_eqb apex n || ends_with n apex then l else skip_before apex l'
  end.

(* RecordsIter::next, iterated: records are grouped while their owner
   name_eq()s the owner of the first record of the group.  Returns the rtypes
   of the rest of the current group and the following groups. *)
Fixpoint groups_from (first : name) (l : list rec) : list N * list group :=
  match l with
  | [] => ([], [])
  | (n, t) :: l' =>
      if name_eqb n first then
        let '(ts, gs) := groups_from first l' in (t :: ts, gs)
      else
        let '(ts, gs) := groups_from n l' in ([], (n, t :: ts) :: gs)
  end.

Definition groups (l : list rec) : list group :=
  match l with
  | [] => []
  | (n, t) :: l' => let '(ts, gs) := groups_from n l' in (n, t :: ts) :: gs
  end.

(* OwnerRrsIter: runs of equal rtype, with their length *)
Fixpoint rrsets (ts : list N) : list (N * nat) :=
  match ts with
  | [] => []
  | t :: r =>
      match rrsets r with
      | (t', c) :: rs => if t' =? t then (t, S c) :: rs else (t, 1%nat) :: (t', c) :: rs
      | [] => [(t, 1%nat)]
      end
  end.

Definition is_zone_cut (apex : name) (g : group) : bool :=
  negb (name_eqb (fst g) apex) && existsb (fun t => t =? rt_NS) (snd g).
Definition is_in_zone (apex : name) (g : group) : bool := ends_with (fst g) apex.

Definition below_cut (cut : option name) (n : name) : bool :=
  match cut with Some c => ends_with n c | None => false end.

Definition memN (t : N) (l : list N) : bool := existsb (fun x => x =? t) l.

(* the `for rrset in owner_rrs.rrsets()` loop shared by both generators:
   visible types are added; a SOA RRset with more than one record is an error;
   a SOA RRset sets the TTL *)
Fixpoint rrset_loop (at_cut : bool) (cut_types : list N) (rs : list (N * nat))
  (bm : list block) (ttl : bool) : outcome (list block * bool) :=
  match rs with
  | [] => Ok (bm, ttl)
  | (t, c) :: rs' =>
      let bm' := if negb at_cut || memN t cut_types then bm_add bm t else bm in
      if t =? rt_SOA then
        if (soa_max_len <? c)%nat then Err 1
        else rrset_loop at_cut cut_types rs' bm' true
      else rrset_loop at_cut cut_types rs' bm' ttl
  end.

(* ------------------------------------------------------------------- NSEC *)

Record nsec := mk_nsec { n_owner : name; n_next : name; n_types : bytes }.

(* bitmap built for one visited owner *)
Definition nsec_visit (apex : name) (dnskey : bool) (at_cut : bool) (g : group) (ttl : bool)
  : outcome (bytes * bool) :=
  let bm := bm_add [] nsec_fixed_a in
  let bm := if dnskey && name_eqb (fst g) apex then bm_add bm nsec_apex_cfg else bm in
  let bm := bm_add bm nsec_fixed_b in
  do r <- rrset_loop at_cut nsec_cut_types (rrsets (snd g)) bm ttl;
  let '(bm, ttl') := r in
  if ttl' then Ok (bm_finalize bm, ttl') else Err 1.

Definition nsec_finish (apex : name) (prev : option (name * bytes)) (ttl : bool)
  (acc : list nsec) : outcome (list nsec) :=
  match prev with
  | Some (pn, bm) => if ttl then Ok (rev (mk_nsec pn apex bm :: acc)) else Panic 2
  | None => Ok (rev acc)
  end.

Fixpoint nsec_loop (apex : name) (dnskey : bool) (gs : list group)
  (cut : option name) (prev : option (name * bytes)) (ttl : bool) (acc : list nsec)
  : outcome (list nsec) :=
  match gs with
  | [] => nsec_finish apex prev ttl acc
  | g :: gs' =>
      if negb (is_in_zone apex g) then nsec_finish apex prev ttl acc
      else if below_cut cut (fst g) then nsec_loop apex dnskey gs' cut prev ttl acc
      else
        let nm := fst g in
        let at_cut := is_zone_cut apex g in
        let cut' := if at_cut then Some nm else None in
        do acc' <- match prev with
                   | Some (pn, bm) => if ttl then Ok (mk_nsec pn nm bm :: acc) else Panic 1
                   | None => Ok acc
                   end;
        do v <- nsec_visit apex dnskey at_cut g ttl;
        let '(bm, ttl') := v in
        nsec_loop apex dnskey gs' cut' (Some (nm, bm)) ttl' acc'
  end.

Definition generate_nsecs (apex : name) (dnskey : bool) (z : list rec) : outcome (list nsec) :=
  nsec_loop apex dnskey (groups (skip_before apex z)) None None false [].

(* ------------------------------------------------------------------ NSEC3 *)

Section Nsec3.
Variable H : bytes -> bytes.     (* the digest: SHA-1 in the instance below *)

(* nsec3_hash: canonical (lower-cased) wire owner, salt appended, then
   `iterations` further rounds over the previous digest and the salt *)
Fixpoint hash_rounds (salt : bytes) (k : nat) (h : bytes) : bytes :=
  match k with
  | O => h
  | S k' => hash_rounds salt k' (H (if hash_salt_after_data then h ++ salt else salt ++ h))
  end.

Definition nsec3_hash (n : name) (iterations : N) (salt : bytes) : bytes :=
  let canonical_owner := wire_abs (if hash_owner_lowercased then canon n else n) in
  hash_rounds salt (N.to_nat (iterations - hash_iter_from))
    (H (if hash_salt_after_data then canonical_owner ++ salt else salt ++ canonical_owner)).

Record n3cfg := mk_n3cfg {
  c_dnskey : bool;        (* assume_dnskeys_will_be_added *)
  c_alg : N;
  c_flags : N;
  c_iters : N;
  c_salt : bytes;
  c_excl : bool           (* opt_out_exclude_owner_names_of_unsigned_delegations *)
}.

Definition opt_out_flag (c : n3cfg) : bool :=
  N.land (c_flags c) opt_out_mask =? opt_out_mask.

(* NSEC3 before linking: original owner (kept as the placeholder next owner),
   hashed owner label, type bitmap *)
Record n3pre := mk_n3pre { p_name : name; p_hash : bytes; p_types : bytes }.
(* final NSEC3: hashed owner, next hashed owner, type bitmap *)
Record nsec3 := mk_nsec3 { h_owner : bytes; h_next : bytes; h_types : bytes }.

Definition mk_pre (c : n3cfg) (n : name) (bm : list block) : outcome n3pre :=
  if c_alg c =? nsec3_alg_sha1
  then Ok (mk_n3pre n (nsec3_hash n (c_iters c) (c_salt c)) (bm_finalize bm))
  else Err 3.

(* while let Some(x) = stack.pop() { if name.ends_with(x) { .. break } } *)
Fixpoint pop_until (n : name) (stack : list name) : option name * list name :=
  match stack with
  | [] => (None, [])
  | s :: r => if ends_with n s then (Some s, r) else pop_until n r
  end.

Definition label_dist (n apex : name) : outcome nat :=
  if (length n <? length apex)%nat then Panic 4 else Ok (length n - length apex)%nat.

(* ents.binary_search(&name) / insert(pos, name) on the vector kept in Name
   order: position of the first element that is not Less *)
Fixpoint ents_insert (ents : list name) (n : name) : list name :=
  match ents with
  | [] => [n]
  | e :: r =>
      match name_cmp e n with
      | Lt => e :: ents_insert r n
      | Eq => ents
      | Gt => n :: ents
      end
  end.

(* for n in (1..=distance-1).rev(): name.iter_labels().skip(n).take(dta - n) ++ apex *)
Fixpoint ent_loop (apex nm : name) (dta : nat) (k : nat) (ents : list name) : list name :=
  match k with
  | O => ents
  | S k' =>
      let ent := firstn (dta - k) (skipn k nm) ++ apex in
      ent_loop apex nm dta k' (ents_insert ents ent)
  end.

Definition nsec3_bitmap (c : n3cfg) (at_cut has_ds at_apex : bool) (ts : list N) (ttl : bool)
  : outcome (list block * bool) :=
  let bm := if negb at_cut || has_ds then bm_add [] nsec3_auth_type else [] in
  do r <- rrset_loop at_cut nsec3_cut_types (rrsets ts) bm ttl;
  let '(bm, ttl') := r in
  if ttl' then
    Ok (if at_apex
        then let bm := bm_add bm nsec3_apex_always in
             if c_dnskey c then bm_add bm nsec3_apex_cfg else bm
        else bm, ttl')
  else Err 1.

Fixpoint n3_loop (apex : name) (c : n3cfg) (excl : bool) (gs : list group)
  (cut : option name) (stack : list name) (ents : list name) (ttl : bool) (acc : list n3pre)
  : outcome (list n3pre * list name * bool) :=
  match gs with
  | [] => Ok (acc, ents, ttl)
  | g :: gs' =>
      if negb (is_in_zone apex g) then Ok (acc, ents, ttl)
      else if below_cut cut (fst g) then n3_loop apex c excl gs' cut stack ents ttl acc
      else
        let nm := fst g in
        let at_cut := is_zone_cut apex g in
        let cut' := if at_cut then Some nm else None in
        let has_ds := memN rt_DS (snd g) in
        if excl && at_cut && negb has_ds then n3_loop apex c excl gs' cut' stack ents ttl acc
        else
          let '(last_nent, stack') := pop_until nm stack in
          do last_dist <- match last_nent with
                          | Some s => label_dist s apex
                          | None => Ok O
                          end;
          do dta <- label_dist nm apex;
          let ents' := if (last_dist <? dta)%nat
                       then ent_loop apex nm dta (dta - last_dist - 1) ents
                       else ents in
          do r <- nsec3_bitmap c at_cut has_ds (dta =? 0)%nat (snd g) ttl;
          let '(bm, ttl') := r in
          do p <- mk_pre c nm bm;
          let stack'' := nm :: match last_nent with Some s => s :: stack' | None => stack' end in
          n3_loop apex c excl gs' cut' stack'' ents' ttl' (p :: acc)
  end.

(* Sort::sort_by(canonical_cmp): the owners are <base32hex(hash)>.<apex>, all
   of one length, so the order is the octet order of the hashes; stable *)
Fixpoint insert_by_hash (p : n3pre) (l : list n3pre) : list n3pre :=
  match l with
  | [] => [p]
  | q :: r =>
      match lex_cmp (p_hash p) (p_hash q) with
      | Gt => q :: insert_by_hash p r
      | _ => p :: l
      end
  end.
Definition sort_by_hash (l : list n3pre) : list n3pre := fold_right insert_by_hash [] l.

Definition bytes_eqb (a b : bytes) : bool := match lex_cmp a b with Eq => true | _ => false end.
Definition name_exact_eqb (a b : name) : bool := bytes_eqb (wire_rel a) (wire_rel b).
Definition pre_eqb (a b : n3pre) : bool :=
  bytes_eqb (p_hash a) (p_hash b) && name_exact_eqb (p_name a) (p_name b)
  && bytes_eqb (p_types a) (p_types b).

(* Vec::dedup *)
Fixpoint dedup (l : list n3pre) : list n3pre :=
  match l with
  | [] => []
  | a :: r =>
      match dedup r with
      | b :: r' => if pre_eqb a b then b :: r' else a :: b :: r'
      | [] => [a]
      end
  end.

(* the linking loop: each record against the next, the last against the first *)
Fixpoint link3 (only_one : bool) (first : n3pre) (l : list n3pre) : outcome (list nsec3) :=
  match l with
  | [] => Ok []
  | a :: r =>
      let nxt := match r with b :: _ => b | [] => first end in
      if negb only_one && bytes_eqb (p_hash a) (p_hash nxt) then
        if negb (name_exact_eqb (p_name a) (p_name nxt)) then Err 2 else Panic 6
      else
        do rest <- link3 only_one first r;
        Ok (mk_nsec3 (p_hash a) (p_hash nxt) (p_types a) :: rest)
  end.

Definition generate_nsec3s (apex : name) (c : n3cfg) (z : list rec) : outcome (list nsec3) :=
  let excl := opt_out_flag c && c_excl c in
  do r <- n3_loop apex c excl (groups (skip_before apex z)) None [] [] false [];
  let '(acc, ents, ttl) := r in
  if negb ttl then Err 1
  else
    do entrecs <- (fix go (es : list name) : outcome (list n3pre) :=
                     match es with
                     | [] => Ok []
                     | e :: es' => do p <- mk_pre c e []; do ps <- go es'; Ok (p :: ps)
                     end) ents;
    let all := dedup (sort_by_hash (rev acc ++ entrecs)) in
    match all with
    | [] => Panic 5
    | first :: _ => link3 (length all =? 1)%nat first all
    end.

End Nsec3.

(* ------------------------------------------------------ specification side *)

(* RFC 5155 section 5: IH(salt, x, 0) = H(x || salt),
   IH(salt, x, k) = H(IH(salt, x, k-1) || salt) *)
Fixpoint rfc5155_IH (H : bytes -> bytes) (salt x : bytes) (k : nat) : bytes :=
  match k with
  | O => H (x ++ salt)
  | S k' => H (rfc5155_IH H salt x k' ++ salt)
  end.

(* set-level description of a zone *)
Definition has_type (z : list rec) (n : name) (t : N) : Prop :=
  exists m, In (m, t) z /\ name_eqb m n = true.
Definition owner_in (z : list rec) (n : name) : Prop := exists t, has_type z n t.
Definition in_zone (apex n : name) : Prop := ends_with n apex = true.
Definition strictly_below (n c : name) : Prop := ends_with n c = true /\ name_eqb n c = false.
(* delegation point: NS at a name in the zone other than the apex *)
Definition deleg (apex : name) (z : list rec) (c : name) : Prop :=
  in_zone apex c /\ name_eqb c apex = false /\ has_type z c rt_NS.
(* glue and occluded names: strictly below a delegation point *)
Definition occluded (apex : name) (z : list rec) (n : name) : Prop :=
  exists c, deleg apex z c /\ strictly_below n c.
Definition auth_name (apex : name) (z : list rec) (n : name) : Prop :=
  owner_in z n /\ in_zone apex n /\ ~ occluded apex z n.

(* records in canonical owner order (the order of types within an owner is
   irrelevant for everything proved here) *)
Definition zone_sorted (z : list rec) : Prop :=
  StronglySorted (fun a b => name_cmp (fst a) (fst b) <> Gt) z.

(* RFC 4034 section 4.1.2 wire form of a type bitmap: windows in strictly
   ascending order, 1..32 bitmap octets, the last one non-zero *)
Inductive bm_wire_ok : option N -> bytes -> Prop :=
| bwo_nil prev : bm_wire_ok prev []
| bwo_window prev w len data rest :
    (match prev with Some p => p < w | None => True end) ->
    w < 256 -> 1 <= len <= 32 -> length data = N.to_nat len ->
    Forall (fun b => b < 256) data -> last data 0 <> 0 ->
    bm_wire_ok (Some w) rest ->
    bm_wire_ok prev (w :: len :: data ++ rest).

(* ------------------------------------------- SortedRecords::{from, extend} *)
(* After sorting, `self.records.dedup()` drops a record that == the previous
   retained one: Record::eq compares owner (name_eq), class and data.  A record
   is (owner, rtype, (is ZoneRecordData::Unknown, rdata octets)); two Unknown
   compare per UnknownRecordData::eq, two records of the same known variant by
   their data, anything else is different. *)
Definition srec := (name * N * (bool * bytes))%type.
Definition sr_name (r : srec) : name := fst (fst r).
Definition sr_type (r : srec) : N := snd (fst r).
Definition data_eqb (a b : srec) : bool :=
  let '(_, ta, (ua, da)) := a in
  let '(_, tb, (ub, db)) := b in
  if ua && ub then (if unknown_eq_checks_rtype then ta =? tb else true) && bytes_eqb da db
  else if ua || ub then false
  else (ta =? tb) && bytes_eqb da db.
Definition srec_eqb (a b : srec) : bool := name_eqb (sr_name a) (sr_name b) && data_eqb a b.
Fixpoint sr_dedup_from (prev : srec) (l : list srec) : list srec :=
  match l with
  | [] => []
  | x :: r => if srec_eqb x prev then sr_dedup_from prev r else x :: sr_dedup_from x r
  end.
Definition sr_dedup (l : list srec) : list srec :=
  match l with [] => [] | x :: r => x :: sr_dedup_from x r end.
Definition strip (l : list srec) : list rec := map fst l.

(* Sort::sort_by(&mut records, CanonicalOrd::canonical_cmp): Record's
   canonical_cmp is class (one class here), owner name_cmp, rtype, then the
   data's canonical_cmp -- octet order for two Unknown or two records of one
   known variant, Equal across variants.  slice::sort_by is stable: modelled
   as the stable insertion sort (which it equals whenever the comparison is a
   total preorder on the input, i.e. no owner/type holds both variants). *)
Definition data_cmp (a b : srec) : comparison :=
  let '(_, _, (ua, da)) := a in
  let '(_, _, (ub, db)) := b in
  if ua && ub then lex_cmp da db else if ua || ub then Eq else lex_cmp da db.
Definition sr_cmp (a b : srec) : comparison :=
  match name_cmp (sr_name a) (sr_name b) with
  | Eq => match sr_type a ?= sr_type b with Eq => data_cmp a b | c => c end
  | c => c
  end.
Fixpoint sr_insert (x : srec) (l : list srec) : list srec :=
  match l with
  | [] => [x]
  | y :: r => match sr_cmp x y with Gt => y :: sr_insert x r | _ => x :: l end
  end.
Definition sr_sort (l : list srec) : list srec := fold_right sr_insert [] l.
(* SortedRecords::from / extend *)
Definition sorted_records (l : list srec) : list srec := sr_dedup (sr_sort l).

(* the entry points of SortedRecords, one after the other on one collection:
   From<Vec> / from_iter (a fresh collection: sort + dedup), extend (push all,
   sort, dedup), insert (binary_search_by canonical_cmp: an equal record is
   refused, otherwise the record goes to the position found) *)
Inductive sr_op := OpVec (l : list srec) | OpExtend (l : list srec) | OpInsert (x : srec).
Definition sr_has_eq (x : srec) (v : list srec) : bool :=
  existsb (fun y => match sr_cmp y x with Eq => true | _ => false end) v.
Definition sr_add (v : list srec) (x : srec) : list srec := if sr_has_eq x v then v else sr_insert x v.
Definition sr_apply (v : list srec) (op : sr_op) : list srec :=
  match op with
  | OpVec l => sorted_records l
  | OpExtend l => sorted_records (v ++ l)
  | OpInsert x => sr_add v x
  end.
Definition sr_run (ops : list sr_op) : list srec := fold_left sr_apply ops [].
(* what was put into the collection since it was last created *)
Definition sr_input_step (acc : list srec) (op : sr_op) : list srec :=
  match op with OpVec l => l | OpExtend l => acc ++ l | OpInsert x => acc ++ [x] end.
Definition sr_input (ops : list sr_op) : list srec := fold_left sr_input_step ops [].

(* the same with the class, which Record::canonical_cmp compares first and
   Record::eq compares as well *)
Definition crec := (N * srec)%type.
Definition cr_cmp (a b : crec) : comparison :=
  if record_cmp_class_first
  then match fst a ?= fst b with Eq => sr_cmp (snd a) (snd b) | c => c end
  else match sr_cmp (snd a) (snd b) with Eq => fst a ?= fst b | c => c end.
Definition cr_eqb (a b : crec) : bool := (fst a =? fst b) && srec_eqb (snd a) (snd b).
Fixpoint cr_insert (x : crec) (l : list crec) : list crec :=
  match l with
  | [] => [x]
  | y :: r => match cr_cmp x y with Gt => y :: cr_insert x r | _ => x :: l end
  end.
Definition cr_sort (l : list crec) : list crec := fold_right cr_insert [] l.
Fixpoint cr_dedup_from (prev : crec) (l : list crec) : list crec :=
  match l with
  | [] => []
  | x :: r => if cr_eqb x prev then cr_dedup_from prev r else x :: cr_dedup_from x r
  end.
Definition cr_dedup (l : list crec) : list crec :=
  match l with [] => [] | x :: r => x :: cr_dedup_from x r end.
Definition sorted_records_c (l : list crec) : list crec := cr_dedup (cr_sort l).

(* ------------------------------------------ TTL, class and Rrset::new *)
(* The same generators over records that also carry class, TTL and (for a
   SOA) the MINIMUM field.  Rrset::new panics (`expect("TTLs should be the
   same")`, site 7) when the records of a non-RRSIG RRset differ in TTL; the
   NSEC TTL/class are taken at every SOA RRset seen: min(MINIMUM, TTL) and
   rrset.class(); NSEC3 and NSEC3PARAM records are always of class IN. *)
Record trec := mk_trec { t_name : name; t_type : N; t_class : N; t_ttl : N; t_min : N }.
Definition trec_strip (r : trec) : rec := (t_name r, t_type r).
Definition tgroup := (name * list trec)%type.
Definition tgroup_strip (g : tgroup) : group := (fst g, map t_type (snd g)).

Fixpoint tskip_before (apex : name) (l : list trec) : list trec :=
  match l with
  | [] => []
  | r :: l' => if name_eqb apex (t_name r) || ends_with (t_name r) apex then l else tskip_before apex l'
  end.

Fixpoint tgroups_from (first : name) (l : list trec) : list trec * list tgroup :=
  match l with
  | [] => ([], [])
  | r :: l' =>
      if name_eqb (t_name r) first then
        let '(ts, gs) := tgroups_from first l' in (r :: ts, gs)
      else
        let '(ts, gs) := tgroups_from (t_name r) l' in ([], (t_name r, r :: ts) :: gs)
  end.
Definition tgroups (l : list trec) : list tgroup :=
  match l with
  | [] => []
  | r :: l' => let '(ts, gs) := tgroups_from (t_name r) l' in (t_name r, r :: ts) :: gs
  end.

(* OwnerRrsIter: runs of equal rtype *)
Fixpoint truns (l : list trec) : list (list trec) :=
  match l with
  | [] => []
  | r :: l' =>
      match truns l' with
      | (r' :: run) :: rest => if t_type r' =? t_type r then (r :: r' :: run) :: rest
                               else [r] :: (r' :: run) :: rest
      | [] :: rest => [r] :: rest
      | [] => [[r]]
      end
  end.

(* Rrset::check_ttls *)
Definition ttls_ok (first : trec) (run : list trec) : bool :=
  (t_type first =? rrsig_ttl_exempt) || forallb (fun r => t_ttl r =? t_ttl first) run.

(* the expect() in Rrset::new *)
Definition ttl_check (first : trec) (run : list trec) : bool :=
  rrset_new_expects_ttls && negb (ttls_ok first run).

Definition is_some {A} (o : option A) : bool := match o with Some _ => true | None => false end.

(* state: Some (upd soa_record) once a SOA RRset was seen *)
Fixpoint trrset_loop {S : Type} (upd : trec -> S) (at_cut : bool) (cut_types : list N)
  (runs : list (list trec)) (bm : list block) (st : option S) : outcome (list block * option S) :=
  match runs with
  | [] => Ok (bm, st)
  | run :: runs' =>
      match run with
      | [] => trrset_loop upd at_cut cut_types runs' bm st
      | f :: _ =>
          if ttl_check f run then Panic 7
          else
            let t := t_type f in
            let bm' := if negb at_cut || memN t cut_types then bm_add bm t else bm in
            if t =? rt_SOA then
              if (soa_max_len <? length run)%nat then Err 1
              else trrset_loop upd at_cut cut_types runs' bm' (Some (upd f))
            else trrset_loop upd at_cut cut_types runs' bm' st
      end
  end.

Definition soa_ttl (f : trec) : N := if ttl_is_min then N.min (t_min f) (t_ttl f) else t_ttl f.
(* generate_nsecs: nsec_ttl and zone_class *)
Definition nsec_upd (f : trec) : N * N := (soa_ttl f, t_class f).

Record tnsec := mk_tnsec { tn_rec : nsec; tn_ttl : N; tn_class : N }.

Definition tnsec_visit (apex : name) (dnskey : bool) (at_cut : bool) (g : tgroup) (st : option (N * N))
  : outcome (bytes * option (N * N)) :=
  let bm := bm_add [] nsec_fixed_a in
  let bm := if dnskey && name_eqb (fst g) apex then bm_add bm nsec_apex_cfg else bm in
  let bm := bm_add bm nsec_fixed_b in
  do r <- trrset_loop nsec_upd at_cut nsec_cut_types (truns (snd g)) bm st;
  let '(bm, st') := r in
  if is_some st' then Ok (bm_finalize bm, st') else Err 1.

Definition tnsec_push (site : N) (prev : option (name * bytes)) (next : name) (st : option (N * N))
  (acc : list tnsec) : outcome (list tnsec) :=
  match prev with
  | Some (pn, bm) =>
      match st with
      | Some (ttl, cls) => Ok (mk_tnsec (mk_nsec pn next bm) ttl cls :: acc)
      | None => Panic site
      end
  | None => Ok acc
  end.

Fixpoint tnsec_loop (apex : name) (dnskey : bool) (gs : list tgroup)
  (cut : option name) (prev : option (name * bytes)) (st : option (N * N)) (acc : list tnsec)
  : outcome (list tnsec) :=
  match gs with
  | [] => do acc' <- tnsec_push 2 prev apex st acc; Ok (rev acc')
  | g :: gs' =>
      if negb (is_in_zone apex (tgroup_strip g)) then do acc' <- tnsec_push 2 prev apex st acc; Ok (rev acc')
      else if below_cut cut (fst g) then tnsec_loop apex dnskey gs' cut prev st acc
      else
        let nm := fst g in
        let at_cut := is_zone_cut apex (tgroup_strip g) in
        let cut' := if at_cut then Some nm else None in
        do acc' <- tnsec_push 1 prev nm st acc;
        do v <- tnsec_visit apex dnskey at_cut g st;
        let '(bm, st') := v in
        tnsec_loop apex dnskey gs' cut' (Some (nm, bm)) st' acc'
  end.

Definition generate_nsecs_t (apex : name) (dnskey : bool) (z : list trec) : outcome (list tnsec) :=
  tnsec_loop apex dnskey (tgroups (tskip_before apex z)) None None None [].

(* ------------------------------------------ generate_nsec3s with TTLs *)
(* nsec3_ttl and nsec3param_ttl are set at every SOA RRset seen; every NSEC3 is
   created with the nsec3_ttl current at that moment (the ENT records with the
   final one), class IN; the NSEC3PARAM record: apex, class IN, nsec3param_ttl. *)
Inductive pmode := PFixed (t : N) | PSoa | PSoaMin.
(* state: nsec3_ttl, (nsec3param_ttl, class of the SOA RRset) *)
Definition n3_upd (m : pmode) (f : trec) : N * (N * N) :=
  (soa_ttl f, (match m with PFixed t => t | PSoa => t_ttl f | PSoaMin => t_min f end, t_class f)).

Definition tnsec3_bitmap (c : n3cfg) (m : pmode) (at_cut has_ds at_apex : bool) (recs : list trec)
  (st : option (N * (N * N))) : outcome (list block * option (N * (N * N))) :=
  let bm := if negb at_cut || has_ds then bm_add [] nsec3_auth_type else [] in
  do r <- trrset_loop (n3_upd m) at_cut nsec3_cut_types (truns recs) bm st;
  let '(bm, st') := r in
  if is_some st' then
    Ok (if at_apex
        then let bm := bm_add bm nsec3_apex_always in
             if c_dnskey c then bm_add bm nsec3_apex_cfg else bm
        else bm, st')
  else Err 1.

Fixpoint n3_loop_t (H : bytes -> bytes) (apex : name) (c : n3cfg) (m : pmode) (excl : bool) (gs : list tgroup)
  (cut : option name) (stack : list name) (ents : list name) (st : option (N * (N * N))) (acc : list (n3pre * N))
  : outcome (list (n3pre * N) * list name * option (N * (N * N))) :=
  match gs with
  | [] => Ok (acc, ents, st)
  | g :: gs' =>
      if negb (is_in_zone apex (tgroup_strip g)) then Ok (acc, ents, st)
      else if below_cut cut (fst g) then n3_loop_t H apex c m excl gs' cut stack ents st acc
      else
        let nm := fst g in
        let at_cut := is_zone_cut apex (tgroup_strip g) in
        let cut' := if at_cut then Some nm else None in
        let has_ds := memN rt_DS (map t_type (snd g)) in
        if excl && at_cut && negb has_ds then n3_loop_t H apex c m excl gs' cut' stack ents st acc
        else
          let '(last_nent, stack') := pop_until nm stack in
          do last_dist <- match last_nent with
                          | Some s => label_dist s apex
                          | None => Ok O
                          end;
          do dta <- label_dist nm apex;
          let ents' := if (last_dist <? dta)%nat
                       then ent_loop apex nm dta (dta - last_dist - 1) ents
                       else ents in
          do r <- tnsec3_bitmap c m at_cut has_ds (dta =? 0)%nat (snd g) st;
          let '(bm, st') := r in
          do p <- mk_pre H c nm bm;
          do ttl <- match st' with Some (ttl, _) => Ok ttl | None => Panic 1 end;
          let stack'' := nm :: match last_nent with Some s => s :: stack' | None => stack' end in
          n3_loop_t H apex c m excl gs' cut' stack'' ents' st' ((p, ttl) :: acc)
  end.

(* sort / dedup / link over records that carry something along *)
Section Carry.
Variable A : Type.
Variable pr : A -> n3pre.
Fixpoint ginsert (p : A) (l : list A) : list A :=
  match l with
  | [] => [p]
  | q :: r => match lex_cmp (p_hash (pr p)) (p_hash (pr q)) with
              | Gt => q :: ginsert p r
              | _ => p :: l
              end
  end.
Definition gsort (l : list A) : list A := fold_right ginsert [] l.
Fixpoint gdedup (l : list A) : list A :=
  match l with
  | [] => []
  | a :: r => match gdedup r with
              | b :: r' => if pre_eqb (pr a) (pr b) then b :: r' else a :: b :: r'
              | [] => [a]
              end
  end.
Fixpoint glink (only_one : bool) (first : A) (l : list A) : outcome (list (nsec3 * A)) :=
  match l with
  | [] => Ok []
  | a :: r =>
      let nxt := match r with b :: _ => b | [] => first end in
      if negb only_one && bytes_eqb (p_hash (pr a)) (p_hash (pr nxt)) then
        if negb (name_exact_eqb (p_name (pr a)) (p_name (pr nxt))) then Err 2 else Panic 6
      else
        do rest <- glink only_one first r;
        Ok ((mk_nsec3 (p_hash (pr a)) (p_hash (pr nxt)) (p_types (pr a)), a) :: rest)
  end.
Definition gfinish (l : list A) : outcome (list (nsec3 * A)) :=
  let all := gdedup (gsort l) in
  match all with
  | [] => Panic 5
  | first :: _ => glink (length all =? 1)%nat first all
  end.
End Carry.

Fixpoint ent_recs_t (H : bytes -> bytes) (c : n3cfg) (ttl : N) (es : list name) : outcome (list (n3pre * N)) :=
  match es with
  | [] => Ok []
  | e :: es' => do p <- mk_pre H c e []; do ps <- ent_recs_t H c ttl es'; Ok ((p, ttl) :: ps)
  end.

Record n3out := mk_n3out { o_recs : list (nsec3 * N); o_class : N; o_param_ttl : N }.

Definition generate_nsec3s_t (H : bytes -> bytes) (apex : name) (c : n3cfg) (m : pmode) (z : list trec)
  : outcome n3out :=
  let excl := opt_out_flag c && c_excl c in
  do r <- n3_loop_t H apex c m excl (tgroups (tskip_before apex z)) None [] [] None [];
  let '(acc, ents, st) := r in
  match st with
  | None => Err 1
  | Some (ttl, (pttl, cls)) =>
      do entrecs <- ent_recs_t H c ttl ents;
      do out <- gfinish (n3pre * N) fst (rev acc ++ entrecs);
      Ok (mk_n3out (map (fun x => (fst x, snd (snd x))) out) (if nsec3_class_fixed then nsec3_class else cls) pttl)
  end.

(* ------------------------------------------------------- RtypeBitmapIter *)
(* data starts at the octets of the current window (and runs on into the
   following windows); an exhausted iterator has empty data.  Panic site 8:
   slice indexing in new / advance. *)
Record bmit := mk_bmit { i_data : bytes; i_block : N; i_len : nat; i_octet : nat; i_bit : N }.

Definition it_bit_set (s : bmit) : outcome bool :=
  match nth_error (i_data s) (i_octet s) with
  | Some b => Ok (negb (N.land b (N.shiftr bm_top_bit (i_bit s)) =? 0))
  | None => Panic 8
  end.

(* one turn of the `loop` in advance, up to the test of the bit *)
Definition it_step (s : bmit) : outcome bmit :=
  let bit := i_bit s + 1 in
  if bit =? 8 then
    let octet := S (i_octet s) in
    if (octet =? i_len s)%nat then
      if (length (i_data s) <? i_len s)%nat then Panic 8
      else
        match skipn (i_len s) (i_data s) with
        | [] => Ok (mk_bmit [] (i_block s) (i_len s) octet 0)
        | [_] => Panic 8
        | w :: l :: rest => Ok (mk_bmit rest (N.shiftl w 8) (N.to_nat l) 0 0)
        end
    else Ok (mk_bmit (i_data s) (i_block s) (i_len s) octet 0)
  else Ok (mk_bmit (i_data s) (i_block s) (i_len s) (i_octet s) bit).

Fixpoint it_advance (fuel : nat) (s : bmit) : outcome bmit :=
  match fuel with
  | O => OutOfFuel
  | S fuel' =>
      do s1 <- it_step s;
      match i_data s1 with
      | [] => Ok s1
      | _ => do b <- it_bit_set s1; if b then Ok s1 else it_advance fuel' s1
      end
  end.

Definition it_new (data : bytes) : outcome bmit :=
  match data with
  | [] => Ok (mk_bmit [] 0 0 0 0)
  | [_] => Panic 8
  | w :: l :: rest =>
      let res := mk_bmit rest (N.shiftl w 8) (N.to_nat l) 0 0 in
      match rest with
      | [] => Panic 8
      | b :: _ => if N.land b bm_top_bit =? 0 then it_advance (8 * length data) res else Ok res
      end
  end.

(* Iterator::next until None *)
Fixpoint it_collect (fuel : nat) (adv : nat) (s : bmit) : outcome (list N) :=
  match fuel with
  | O => OutOfFuel
  | S fuel' =>
      match i_data s with
      | [] => Ok []
      | _ =>
          let t := N.lor (N.lor (i_block s) (N.shiftl (N.of_nat (i_octet s)) 3)) (i_bit s) in
          do s' <- it_advance adv s; do rest <- it_collect fuel' adv s'; Ok (t :: rest)
      end
  end.

Definition bm_iter (data : bytes) : outcome (list N) :=
  do s <- it_new data; it_collect (S (8 * length data)) (8 * length data) s.

(* ------------------------------------------------ executable entry points *)
(* hash algorithm, flags, iterations, salt: every NSEC3 record gets the
   configured values (mk_nsec3's arguments), the NSEC3PARAM record is
   Record::new(apex_owner, IN, nsec3param_ttl, config.params.clone()) *)
Definition n3_params (c : n3cfg) : N * N * N * bytes := (c_alg c, c_flags c, c_iters c, c_salt c).
Definition nsec3param_record (apex : name) (c : n3cfg) (o : n3out) : name * N * N * (N * N * N * bytes) :=
  (apex, o_class o, o_param_ttl o, n3_params c).
Definition c13_nsec3_t (apex : name) (c : n3cfg) (m : pmode) (z : list trec)
  : outcome (n3out * (N * N * N * bytes) * (name * N * N * (N * N * N * bytes))) :=
  do o <- generate_nsec3s_t sha1 apex c m z; Ok (o, n3_params c, nsec3param_record apex c o).
Definition c13_bm_parse (data : bytes) : outcome unit := bm_from_octets data.
Definition c13_bm_iter (ts : list N) : outcome (list N) := bm_iter (bm_finalize (bm_adds [] ts)).
Definition c13_nsec_t (apex : name) (dnskey : bool) (z : list trec) : outcome (list tnsec) :=
  generate_nsecs_t apex dnskey z.
Definition c13_dedup (l : list srec) : list rec := strip (sr_dedup l).
Definition c13_sr_run (ops : list sr_op) : list srec := sr_run ops.
Definition c13_sorted_records (l : list crec) : list crec := sorted_records_c l.
Definition c13_bitmap (ts probes : list N) : bytes * list (outcome bool) :=
  let w := bm_finalize (bm_adds [] ts) in (w, map (bm_contains w) probes).
Definition c13_nsec (apex : name) (dnskey : bool) (z : list rec) : outcome (list nsec) :=
  generate_nsecs apex dnskey z.
Definition c13_nsec3 (apex : name) (c : n3cfg) (z : list rec) : outcome (list nsec3) :=
  generate_nsec3s sha1 apex c z.
Definition c13_hash (n : name) (iterations : N) (salt : bytes) : bytes :=
  nsec3_hash sha1 n iterations salt.
