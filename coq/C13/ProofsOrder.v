(* C13 proofs, part 18: Base32hex preserves order -- the canonical order of the
   hashed owner names <base32hex(hash)>.<apex> is the octet order of the
   hashes (for hashes of 5n octets, e.g. the 20 octets of SHA-1), which is why
   sorting the NSEC3 records by owner is modelled as sorting by hash. *)
From Coq Require Import NArith ZArith Arith List Bool Lia.
From Coq Require Import ZifyN ZifyBool ZifyNat.
From DV Require Import Base.Outcome Base.Bytes Base.Lex Base.Names C13.ModelLabel C13.ProofsBitmap.
From DV Require C18.Gen C18.Model.
Import ListNotations.
Local Open Scope N_scope.
Ltac Zify.zify_post_hook ::= Z.div_mod_to_equations.

Definition byte_range : list N := map N.of_nat (seq 0 256).

Ltac by_bytes2 A x y Hx Hy :=
  let P := fresh in pose proof A as P; rewrite forallb_forall in P;
  specialize (P x (in_bytes_range x Hx)); rewrite forallb_forall in P;
  specialize (P y (in_bytes_range y Hy)); apply N.eqb_eq in P; exact P.

(* ---- the eight characters of a 5-octet group, arithmetically *)
Lemma e1_all : forallb (fun x => forallb (fun y => C18.Gen.b32_e1 x y 0 0 0 =? (x mod 8) * 4 + y / 64) byte_range) byte_range = true.
Proof. vm_compute. reflexivity. Qed.
Lemma e3_all : forallb (fun x => forallb (fun y => C18.Gen.b32_e3 0 x y 0 0 =? (x mod 2) * 16 + y / 16) byte_range) byte_range = true.
Proof. vm_compute. reflexivity. Qed.
Lemma e4_all : forallb (fun x => forallb (fun y => C18.Gen.b32_e4 0 0 x y 0 =? (x mod 16) * 2 + y / 128) byte_range) byte_range = true.
Proof. vm_compute. reflexivity. Qed.
Lemma e6_all : forallb (fun x => forallb (fun y => C18.Gen.b32_e6 0 0 0 x y =? (x mod 4) * 8 + y / 32) byte_range) byte_range = true.
Proof. vm_compute. reflexivity. Qed.
Lemma e0257_all : forallb (fun x => (C18.Gen.b32_e0 x 0 0 0 0 =? x / 8) && (C18.Gen.b32_e2 0 x 0 0 0 =? (x mod 64) / 2)
                                 && (C18.Gen.b32_e5 0 0 0 x 0 =? (x mod 128) / 4) && (C18.Gen.b32_e7 0 0 0 0 x =? x mod 32)) byte_range = true.
Proof. vm_compute. reflexivity. Qed.

Section Chunk.
Variables b0 b1 b2 b3 b4 : N.
Hypotheses (H0 : b0 < 256) (H1 : b1 < 256) (H2 : b2 < 256) (H3 : b3 < 256) (H4 : b4 < 256).

Definition digits : list N :=
  [C18.Gen.b32_e0 b0 b1 b2 b3 b4; C18.Gen.b32_e1 b0 b1 b2 b3 b4; C18.Gen.b32_e2 b0 b1 b2 b3 b4; C18.Gen.b32_e3 b0 b1 b2 b3 b4;
   C18.Gen.b32_e4 b0 b1 b2 b3 b4; C18.Gen.b32_e5 b0 b1 b2 b3 b4; C18.Gen.b32_e6 b0 b1 b2 b3 b4; C18.Gen.b32_e7 b0 b1 b2 b3 b4].

Lemma digits_arith : digits =
  [b0 / 8; (b0 mod 8) * 4 + b1 / 64; (b1 mod 64) / 2; (b1 mod 2) * 16 + b2 / 16;
   (b2 mod 16) * 2 + b3 / 128; (b3 mod 128) / 4; (b3 mod 4) * 8 + b4 / 32; b4 mod 32].
Proof.
  unfold digits.
  assert (E1 : C18.Gen.b32_e1 b0 b1 b2 b3 b4 = (b0 mod 8) * 4 + b1 / 64) by (by_bytes2 e1_all b0 b1 H0 H1).
  assert (E3 : C18.Gen.b32_e3 b0 b1 b2 b3 b4 = (b1 mod 2) * 16 + b2 / 16) by (by_bytes2 e3_all b1 b2 H1 H2).
  assert (E4 : C18.Gen.b32_e4 b0 b1 b2 b3 b4 = (b2 mod 16) * 2 + b3 / 128) by (by_bytes2 e4_all b2 b3 H2 H3).
  assert (E6 : C18.Gen.b32_e6 b0 b1 b2 b3 b4 = (b3 mod 4) * 8 + b4 / 32) by (by_bytes2 e6_all b3 b4 H3 H4).
  pose proof e0257_all as A. rewrite forallb_forall in A.
  pose proof (A b0 (in_bytes_range b0 H0)) as A0. pose proof (A b1 (in_bytes_range b1 H1)) as A1.
  pose proof (A b3 (in_bytes_range b3 H3)) as A3. pose proof (A b4 (in_bytes_range b4 H4)) as A4.
  rewrite !andb_true_iff, !N.eqb_eq in A0, A1, A3, A4.
  destruct A0 as [[[A0 _] _] _]. destruct A1 as [[[_ A1] _] _]. destruct A3 as [[_ A3] _]. destruct A4 as [_ A4].
  change (C18.Gen.b32_e0 b0 b1 b2 b3 b4) with (C18.Gen.b32_e0 b0 0 0 0 0).
  change (C18.Gen.b32_e2 b0 b1 b2 b3 b4) with (C18.Gen.b32_e2 0 b1 0 0 0).
  change (C18.Gen.b32_e5 b0 b1 b2 b3 b4) with (C18.Gen.b32_e5 0 0 0 b3 0).
  change (C18.Gen.b32_e7 b0 b1 b2 b3 b4) with (C18.Gen.b32_e7 0 0 0 0 b4).
  rewrite A0, A1, A3, A4, E1, E3, E4, E6. reflexivity.
Qed.
End Chunk.

(* ---- lexicographic order of digit strings is numeric order *)
Fixpoint val (B : N) (l : list N) : N :=
  match l with [] => 0 | d :: r => d * B ^ N.of_nat (length r) + val B r end.

Lemma val_bound B l : 0 < B -> Forall (fun d => d < B) l -> val B l < B ^ N.of_nat (length l).
Proof.
  intros HB. induction 1 as [|d r Hd Hr IH]; cbn [val length]; [cbn; lia|].
  rewrite Nat2N.inj_succ, N.pow_succ_r'. nia.
Qed.

Lemma lex_val B : 0 < B -> forall l1 l2, length l1 = length l2 ->
  Forall (fun d => d < B) l1 -> Forall (fun d => d < B) l2 -> lex_cmp l1 l2 = (val B l1 ?= val B l2).
Proof.
  intros HB. induction l1 as [|d r IH]; intros [|d' r'] L F1 F2; try discriminate; [reflexivity|].
  cbn [lex_cmp val length] in *. injection L as L. inversion F1; inversion F2; subst.
  pose proof (val_bound B r HB ltac:(assumption)) as V1. pose proof (val_bound B r' HB ltac:(assumption)) as V2.
  rewrite <- L in *. set (P := B ^ N.of_nat (length r)) in *.
  destruct (N.compare_spec d d') as [E|Lt|Gt].
  - subst. rewrite IH by assumption.
    destruct (N.compare_spec (val B r) (val B r')); symmetry; [apply N.compare_eq_iff|apply N.compare_lt_iff|apply N.compare_gt_iff]; lia.
  - symmetry. apply N.compare_lt_iff. nia.
  - symmetry. apply N.compare_gt_iff. nia.
Qed.

Lemma chunk_value b0 b1 b2 b3 b4 : b0 < 256 -> b1 < 256 -> b2 < 256 -> b3 < 256 -> b4 < 256 ->
  val 32 (digits b0 b1 b2 b3 b4) = val 256 [b0; b1; b2; b3; b4] /\ Forall (fun d => d < 32) (digits b0 b1 b2 b3 b4).
Proof.
  intros H0 H1 H2 H3 H4. rewrite digits_arith by assumption. split.
  - cbn [val length]. change (N.of_nat 7) with 7. change (N.of_nat 6) with 6. change (N.of_nat 5) with 5.
    change (N.of_nat 4) with 4. change (N.of_nat 3) with 3. change (N.of_nat 2) with 2. change (N.of_nat 1) with 1. change (N.of_nat 0) with 0.
    change (32 ^ 7) with 34359738368. change (32 ^ 6) with 1073741824. change (32 ^ 5) with 33554432. change (32 ^ 4) with 1048576.
    change (32 ^ 3) with 32768. change (32 ^ 2) with 1024. change (32 ^ 1) with 32. change (32 ^ 0) with 1.
    change (256 ^ 4) with 4294967296. change (256 ^ 3) with 16777216. change (256 ^ 2) with 65536. change (256 ^ 1) with 256. change (256 ^ 0) with 1.
    lia.
  - repeat constructor; lia.
Qed.

(* ---- the characters *)
Definition ch (i : N) : N := lower (nth (N.to_nat i) C18.Gen.b32_encode_tab 0).

Lemma ch_mono_all : forallb (fun i => forallb (fun j =>
    match ch i ?= ch j, i ?= j with Eq, Eq | Lt, Lt | Gt, Gt => true | _, _ => false end)
    (map N.of_nat (seq 0 32))) (map N.of_nat (seq 0 32)) = true.
Proof. vm_compute. reflexivity. Qed.

Lemma in_range32 i : i < 32 -> In i (map N.of_nat (seq 0 32)).
Proof. intros H. apply in_map_iff. exists (N.to_nat i). split; [lia|]. apply in_seq. lia. Qed.

Lemma ch_mono i j : i < 32 -> j < 32 -> (ch i ?= ch j) = (i ?= j).
Proof.
  intros Hi Hj. pose proof ch_mono_all as A. rewrite forallb_forall in A.
  specialize (A i (in_range32 i Hi)). rewrite forallb_forall in A. specialize (A j (in_range32 j Hj)).
  destruct (ch i ?= ch j), (i ?= j); congruence.
Qed.

Lemma lex_map_ch l1 : forall l2, Forall (fun d => d < 32) l1 -> Forall (fun d => d < 32) l2 ->
  lex_cmp (map ch l1) (map ch l2) = lex_cmp l1 l2.
Proof.
  induction l1 as [|d r IH]; intros [|d' r'] F1 F2; try reflexivity.
  inversion F1; inversion F2; subst. cbn [map lex_cmp]. rewrite ch_mono by assumption.
  destruct (d ?= d'); try reflexivity. apply IH; assumption.
Qed.

(* ---- the encoder on whole groups *)
Lemma b32_ch_ok i : i < 32 -> C18.Model.b32_ch i = Ok (nth (N.to_nat i) C18.Gen.b32_encode_tab 0).
Proof.
  intros H. unfold C18.Model.b32_ch, C18.Model.tab_get.
  assert (L : (N.to_nat i < length C18.Gen.b32_encode_tab)%nat) by (cbn; lia).
  rewrite (nth_error_nth' _ 0 L). reflexivity.
Qed.

Fixpoint groups5 (n : nat) (h : list N) : Prop :=
  match n with
  | O => h = []
  | S n' => exists b0 b1 b2 b3 b4 rest, h = b0 :: b1 :: b2 :: b3 :: b4 :: rest /\
              b0 < 256 /\ b1 < 256 /\ b2 < 256 /\ b3 < 256 /\ b4 < 256 /\ groups5 n' rest
  end.

Lemma groups5_of n : forall h, length h = (5 * n)%nat -> Forall (fun b => b < 256) h -> groups5 n h.
Proof.
  induction n as [|n IH]; intros h L F; [destruct h; [reflexivity|discriminate]|].
  destruct h as [|b0 [|b1 [|b2 [|b3 [|b4 rest]]]]]; cbn [length] in L; try lia.
  repeat match goal with H : Forall _ (_ :: _) |- _ => inversion H; clear H; subst end.
  cbn [groups5]. exists b0, b1, b2, b3, b4, rest. repeat split; try assumption. apply IH; [lia|assumption].
Qed.

(* the digit string of a hash made of whole groups *)
Fixpoint all_digits (h : list N) : list N :=
  match h with
  | b0 :: b1 :: b2 :: b3 :: b4 :: rest => digits b0 b1 b2 b3 b4 ++ all_digits rest
  | _ => []
  end.

Lemma label_digits n : forall h, groups5 n h ->
  nsec3_owner_label h = Ok (map ch (all_digits h)) /\ Forall (fun d => d < 32) (all_digits h) /\
  length (all_digits h) = (8 * n)%nat.
Proof.
  induction n as [|n IH]; intros h G; cbn [groups5] in G.
  - subst h. repeat split; constructor.
  - destruct G as (b0 & b1 & b2 & b3 & b4 & rest & -> & H0 & H1 & H2 & H3 & H4 & G).
    destruct (IH rest G) as (E & F & L). destruct (chunk_value b0 b1 b2 b3 b4 H0 H1 H2 H3 H4) as [_ FD].
    cbn [all_digits]. split; [|split].
    + unfold nsec3_owner_label in *. cbn [C18.Model.b32_display].
      unfold digits in FD. repeat match goal with H : Forall _ (_ :: _) |- _ => inversion H; clear H; subst end.
      rewrite !b32_ch_ok by assumption. cbn [bind].
      destruct (C18.Model.b32_display rest) as [r| | |]; try discriminate. cbn [bind] in *. injection E as E.
      f_equal. unfold lowers in *. cbn [map app digits]. rewrite E. reflexivity.
    + apply Forall_app. split; assumption.
    + rewrite app_length, L. cbn [digits length]. lia.
Qed.

Lemma all_digits_order n : forall h1 h2, groups5 n h1 -> groups5 n h2 ->
  lex_cmp (all_digits h1) (all_digits h2) = lex_cmp h1 h2.
Proof.
  induction n as [|n IH]; intros h1 h2 G1 G2; cbn [groups5] in G1, G2.
  - subst. reflexivity.
  - destruct G1 as (a0 & a1 & a2 & a3 & a4 & r1 & -> & A0 & A1 & A2 & A3 & A4 & G1).
    destruct G2 as (c0 & c1 & c2 & c3 & c4 & r2 & -> & C0 & C1 & C2 & C3 & C4 & G2).
    cbn [all_digits].
    destruct (chunk_value a0 a1 a2 a3 a4 A0 A1 A2 A3 A4) as [VA FA].
    destruct (chunk_value c0 c1 c2 c3 c4 C0 C1 C2 C3 C4) as [VC FC].
    rewrite lex_cmp_app by reflexivity.
    rewrite (lex_val 32 ltac:(lia) (digits a0 a1 a2 a3 a4) (digits c0 c1 c2 c3 c4) eq_refl FA FC), VA, VC.
    change (a0 :: a1 :: a2 :: a3 :: a4 :: r1) with ([a0; a1; a2; a3; a4] ++ r1).
    change (c0 :: c1 :: c2 :: c3 :: c4 :: r2) with ([c0; c1; c2; c3; c4] ++ r2).
    rewrite (lex_cmp_app [a0; a1; a2; a3; a4] [c0; c1; c2; c3; c4]) by reflexivity.
    rewrite (lex_val 256 ltac:(lia) [a0; a1; a2; a3; a4] [c0; c1; c2; c3; c4] eq_refl) by (repeat constructor; assumption).
    rewrite (IH r1 r2 G1 G2). reflexivity.
Qed.

(* ---- names *)
Lemma labels_cmp_app_same p a b : labels_cmp (p ++ a) (p ++ b) = labels_cmp a b.
Proof.
  induction p as [|x p IH]; [reflexivity|]. cbn [app labels_cmp].
  assert (E : label_cmp x x = Eq) by (unfold label_cmp; apply lex_cmp_refl). rewrite E. exact IH.
Qed.

Lemma name_cmp_first_label l1 l2 apex : name_cmp (l1 :: apex) (l2 :: apex) = lex_cmp (lowers l1) (lowers l2).
Proof.
  unfold name_cmp. cbn [rev]. rewrite labels_cmp_app_same. cbn [labels_cmp]. unfold label_cmp.
  destruct (lex_cmp (lowers l1) (lowers l2)); reflexivity.
Qed.

Lemma lowers_map_ch ds : lowers (map ch ds) = map ch ds.
Proof. unfold lowers. rewrite map_map. apply map_ext. intros d. unfold ch. apply lower_idem. Qed.

Theorem nsec3_owner_order n h1 h2 apex : length h1 = (5 * n)%nat -> length h2 = (5 * n)%nat ->
  Forall (fun b => b < 256) h1 -> Forall (fun b => b < 256) h2 ->
  exists o1 o2, nsec3_owner_name h1 apex = Ok o1 /\ nsec3_owner_name h2 apex = Ok o2 /\
    name_cmp o1 o2 = lex_cmp h1 h2.
Proof.
  intros L1 L2 F1 F2. pose proof (groups5_of n h1 L1 F1) as G1. pose proof (groups5_of n h2 L2 F2) as G2.
  destruct (label_digits n h1 G1) as (E1 & D1 & N1). destruct (label_digits n h2 G2) as (E2 & D2 & N2).
  unfold nsec3_owner_name. rewrite E1, E2. cbn [bind]. eexists. eexists. split; [reflexivity|]. split; [reflexivity|].
  rewrite name_cmp_first_label, !lowers_map_ch, (lex_map_ch _ _ D1 D2). apply (all_digits_order n); assumption.
Qed.

(* ---- discharged for SHA-1 (C11): the hashes are 20 octets, so for any two
   names the canonical order of their NSEC3 owner names is the order of their
   hashes -- no premise left *)
From DV Require Import C11.Sha C13.Model C13.ProofsNames.

Lemma nb8 b0 b1 b2 b3 b4 b5 b6 b7 : nb b0 (nb b1 (nb b2 (nb b3 (nb b4 (nb b5 (nb b6 (nb b7 0))))))) < 256.
Proof. destruct b0, b1, b2, b3, b4, b5, b6, b7; vm_compute; reflexivity. Qed.

Lemma octets_of_w32_range x : Forall (fun b => b < 256) (octets_of_w32 x).
Proof. destruct x. unfold octets_of_w32. repeat constructor; apply nb8. Qed.

Lemma sha1_range m : Forall (fun b => b < 256) (sha1 m).
Proof. unfold sha1. repeat (apply Forall_app; split); apply octets_of_w32_range. Qed.

Lemma c13_hash_is_sha1 n i s : exists m, c13_hash n i s = sha1 m.
Proof.
  unfold c13_hash. rewrite nsec3_hash_rfc5155. destruct (N.to_nat i); cbn [rfc5155_IH]; eexists; reflexivity.
Qed.

Theorem nsec3_sha1_owner_order a b i s apex :
  exists o1 o2, nsec3_owner_name (c13_hash a i s) apex = Ok o1 /\ nsec3_owner_name (c13_hash b i s) apex = Ok o2 /\
    name_cmp o1 o2 = lex_cmp (c13_hash a i s) (c13_hash b i s).
Proof.
  destruct (c13_hash_is_sha1 a i s) as (ma & Ea). destruct (c13_hash_is_sha1 b i s) as (mb & Eb).
  rewrite Ea, Eb. apply (nsec3_owner_order 4); try apply sha1_length; apply sha1_range.
Qed.
