(* C13 proofs, part 17: generate_nsec3s with TTLs -- erasure to the plain
   model, and the TTL / class rule of the NSEC3 and NSEC3PARAM records. *)
From Coq Require Import NArith ZArith Arith List Bool Lia Sorted.
From DV Require Import Base.Outcome Base.Bytes Base.Lex Base.Names C13.Gen C13.Model
  C13.ProofsNames C13.ProofsGroups C13.ProofsN3a C13.ProofsN3c C13.ProofsTtl.
Import ListNotations.
Local Open Scope N_scope.

(* ---- sort / dedup / link carrying a value *)
Section CarryProofs.
Variable A : Type.
Variable pr : A -> n3pre.

Lemma ginsert_erase x l : map pr (ginsert A pr x l) = insert_by_hash (pr x) (map pr l).
Proof.
  induction l as [|q r IH]; [reflexivity|]. cbn [ginsert map insert_by_hash].
  destruct (lex_cmp (p_hash (pr x)) (p_hash (pr q))); cbn [map]; try reflexivity. rewrite IH. reflexivity.
Qed.

Lemma gsort_erase l : map pr (gsort A pr l) = sort_by_hash (map pr l).
Proof.
  unfold gsort, sort_by_hash. induction l as [|a l IH]; [reflexivity|]. cbn [fold_right map].
  rewrite ginsert_erase, IH. reflexivity.
Qed.

Lemma gdedup_erase l : map pr (gdedup A pr l) = dedup (map pr l).
Proof.
  induction l as [|a r IH]; [reflexivity|]. cbn [gdedup map dedup]. rewrite <- IH.
  destruct (gdedup A pr r) as [|b r']; [reflexivity|]. cbn [map].
  destruct (pre_eqb (pr a) (pr b)); reflexivity.
Qed.

Lemma glink_erase oo first : forall l,
  omap (map fst) (glink A pr oo first l) = link3 oo (pr first) (map pr l).
Proof.
  induction l as [|a r IH]; [reflexivity|]. cbn [glink map link3].
  assert (E : pr (match r with b :: _ => b | [] => first end) = match map pr r with b :: _ => b | [] => pr first end)
    by (destruct r; reflexivity).
  rewrite <- E.
  destruct (negb oo && bytes_eqb (p_hash (pr a)) (p_hash (pr (match r with b :: _ => b | [] => first end)))).
  - destruct (negb (name_exact_eqb (p_name (pr a)) (p_name (pr (match r with b :: _ => b | [] => first end))))); reflexivity.
  - rewrite <- IH. destruct (glink A pr oo first r); reflexivity.
Qed.

Lemma gfinish_erase l : omap (map fst) (gfinish A pr l) = finish3 (map pr l).
Proof.
  unfold gfinish, finish3. rewrite <- gsort_erase, <- gdedup_erase.
  destruct (gdedup A pr (gsort A pr l)) as [|first rest] eqn:E; [reflexivity|].
  rewrite glink_erase. cbn [map length]. rewrite map_length. reflexivity.
Qed.

Lemma ginsert_in x l y : In y (ginsert A pr x l) -> y = x \/ In y l.
Proof.
  induction l as [|q r IH]; cbn [ginsert]; [intros [<-|[]]; left; reflexivity|].
  destruct (lex_cmp (p_hash (pr x)) (p_hash (pr q))); cbn [In]; intuition.
Qed.
Lemma gsort_in l y : In y (gsort A pr l) -> In y l.
Proof.
  unfold gsort. induction l as [|a l IH]; cbn [fold_right]; [intros []|].
  intros H. apply ginsert_in in H as [->|H]; [left; reflexivity|right; apply IH; exact H].
Qed.
Lemma gdedup_in l y : In y (gdedup A pr l) -> In y l.
Proof.
  revert y; induction l as [|a r IH]; intros y; cbn [gdedup]; [intros []|].
  destruct (gdedup A pr r) as [|b r']; [intros [<-|[]]; left; reflexivity|].
  destruct (pre_eqb (pr a) (pr b)); [intros H; right; apply IH; exact H|].
  intros [<-|H]; [left; reflexivity|right; apply IH; exact H].
Qed.
Lemma glink_in oo first : forall l out x, glink A pr oo first l = Ok out -> In x out -> In (snd x) l.
Proof.
  induction l as [|a r IH]; intros out x E Hx; cbn [glink] in E; [injection E as <-; destruct Hx|].
  match type of E with (if ?c then _ else _) = _ => destruct c end.
  - match type of E with (if ?c then _ else _) = _ => destruct c end; discriminate.
  - apply bind_ok in E as (rest & Hr & E). injection E as <-.
    destruct Hx as [<-|Hx]; [left; reflexivity|right; eapply IH; eassumption].
Qed.
Lemma gfinish_in l out x : gfinish A pr l = Ok out -> In x out -> In (snd x) l.
Proof.
  unfold gfinish. destruct (gdedup A pr (gsort A pr l)) as [|first rest] eqn:E; [discriminate|].
  intros Hl Hx. apply gsort_in. apply gdedup_in. rewrite E. eapply glink_in; eassumption.
Qed.
End CarryProofs.

(* ---- erasure of the loop *)
Lemma tnsec3_bitmap_erase c m at_cut has_ds at_apex recs st :
  tnsec3_bitmap c m at_cut has_ds at_apex recs st = Panic 7 \/
  omap st_erase (tnsec3_bitmap c m at_cut has_ds at_apex recs st) =
    nsec3_bitmap c at_cut has_ds at_apex (map t_type recs) (is_some st).
Proof.
  unfold tnsec3_bitmap, nsec3_bitmap. destruct (truns_erase recs) as [E1 E2]. rewrite <- E1.
  match goal with |- context [trrset_loop ?u ?a ?b ?r ?bm ?s] =>
    destruct (trrset_loop_erase u a b r bm s E2) as [P|E] end.
  - left. rewrite P. reflexivity.
  - rewrite <- E. right.
    match goal with |- context [trrset_loop ?u ?a ?b ?r ?bm ?s] => destruct (trrset_loop u a b r bm s) as [[bm' st']| | |] end;
      cbn [omap bind st_erase fst snd]; try reflexivity.
    destruct (is_some st') eqn:Es; cbn [omap]; [|reflexivity]. unfold st_erase. cbn [fst snd]. rewrite Es. reflexivity.
Qed.

Lemma n3_loop_t_erase H apex c m excl : forall gs cut stack ents st acc acc' ents' st',
  n3_loop_t H apex c m excl gs cut stack ents st acc = Ok (acc', ents', st') ->
  n3_loop H apex c excl (map tgroup_strip gs) cut stack ents (is_some st) (map fst acc)
    = Ok (map fst acc', ents', is_some st').
Proof.
  induction gs as [|g gs IH]; intros cut stack ents st acc acc' ents' st' E; cbn [n3_loop_t map n3_loop] in *.
  - injection E as <- <- <-. reflexivity.
  - destruct (negb (is_in_zone apex (tgroup_strip g))); [injection E as <- <- <-; reflexivity|].
    change (fst (tgroup_strip g)) with (fst g). change (snd (tgroup_strip g)) with (map t_type (snd g)).
    destruct (below_cut cut (fst g)); [apply IH; exact E|].
    destruct (excl && is_zone_cut apex (tgroup_strip g) && negb (memN rt_DS (map t_type (snd g)))); [apply IH; exact E|].
    destruct (pop_until (fst g) stack) as [last stack'].
    apply bind_ok in E as (ld & Hld & E). rewrite Hld. cbn [bind].
    apply bind_ok in E as (dta & Hdta & E). rewrite Hdta. cbn [bind].
    apply bind_ok in E as ([bm st1] & Hbm & E).
    apply bind_ok in E as (p & Hp & E). apply bind_ok in E as (ttl & Httl & E).
    match type of Hbm with tnsec3_bitmap ?a ?b ?d ?e ?f ?g0 ?h = _ =>
      destruct (tnsec3_bitmap_erase a b d e f g0 h) as [P|Eb] end; [congruence|].
    rewrite Hbm in Eb. unfold st_erase in Eb. cbn [omap fst snd] in Eb. rewrite <- Eb. cbn [bind]. rewrite Hp. cbn [bind].
    apply IH in E. exact E.
Qed.

Lemma ent_recs_t_erase H c ttl : forall es l, ent_recs_t H c ttl es = Ok l ->
  ent_recs H c es = Ok (map fst l) /\ Forall (fun x => snd x = ttl) l.
Proof.
  induction es as [|e es IH]; intros l E; cbn [ent_recs_t ent_recs] in *.
  - injection E as <-. split; [reflexivity|constructor].
  - apply bind_ok in E as (p & Hp & E). apply bind_ok in E as (ps & Hps & E). injection E as <-.
    destruct (IH ps Hps) as [I1 I2]. rewrite Hp. cbn [bind]. rewrite I1. cbn [bind map fst]. split; [reflexivity|].
    constructor; [reflexivity|exact I2].
Qed.

Theorem nsec3_t_erasure H apex c m z o : generate_nsec3s_t H apex c m z = Ok o ->
  generate_nsec3s H apex c (map trec_strip z) = Ok (map fst (o_recs o)).
Proof.
  unfold generate_nsec3s_t. intros E.
  apply bind_ok in E as ([[acc ents] st] & Hloop & E).
  destruct st as [[ttl [pttl cls]]|]; [|discriminate].
  apply bind_ok in E as (er & Her & E). apply bind_ok in E as (out & Hout & E). injection E as <-.
  apply n3_loop_t_erase in Hloop. rewrite tgroups_erase, tskip_erase in Hloop.
  destruct (ent_recs_t_erase H c ttl ents er Her) as [Her' _].
  unfold generate_nsec3s. cbn [map is_some] in Hloop. rewrite Hloop. cbn [bind negb].
  change ((fix go (es : list name) : outcome (list n3pre) :=
             match es with
             | [] => Ok []
             | e :: es' => do p <- mk_pre H c e []; do ps <- go es'; Ok (p :: ps)
             end) ents) with (ent_recs H c ents).
  rewrite Her'. cbn [bind].
  change (finish3 (rev (map fst acc) ++ map fst er) = Ok (map fst (o_recs (mk_n3out (map (fun x => (fst x, snd (snd x))) out) (if nsec3_class_fixed then nsec3_class else cls) pttl)))).
  rewrite <- map_rev, <- map_app, <- (gfinish_erase (n3pre * N) fst), Hout. cbn [omap o_recs].
  rewrite map_map. reflexivity.
Qed.

(* ---- TTLs come from SOA records of the zone *)
Definition from_soa3 (m : pmode) (z : list trec) (st : option (N * (N * N))) : Prop :=
  match st with
  | Some (ttl, (pttl, cls)) => exists s, In s z /\ t_type s = 6 /\ ttl = N.min (t_min s) (t_ttl s) /\
      pttl = match m with PFixed t => t | PSoa => t_ttl s | PSoaMin => t_min s end /\ cls = t_class s
  | None => True
  end.

Lemma trrset_loop_from_soa3 m z at_cut cts : forall runs bm st bm' st',
  (forall run r, In run runs -> In r run -> In r z) ->
  from_soa3 m z st -> trrset_loop (n3_upd m) at_cut cts runs bm st = Ok (bm', st') -> from_soa3 m z st'.
Proof.
  induction runs as [|run runs IH]; intros bm st bm' st' Hin Hst E; cbn [trrset_loop] in E.
  - injection E as <- <-. exact Hst.
  - assert (Hin' : forall run0 r, In run0 runs -> In r run0 -> In r z) by (intros ? ? X Y; eapply Hin; [right; exact X|exact Y]).
    destruct run as [|f run]; [eapply IH; eassumption|].
    destruct (ttl_check f (f :: run)); [discriminate|].
    destruct (N.eqb_spec (t_type f) rt_SOA) as [Es|Es].
    + destruct (soa_max_len <? length (f :: run))%nat; [discriminate|].
      eapply IH; [exact Hin'| |exact E]. unfold n3_upd, soa_ttl. cbv [ttl_is_min]. cbn [from_soa3].
      exists f. split; [apply (Hin (f :: run) f); left; reflexivity|]. split; [exact Es|repeat split].
    + eapply IH; eassumption.
Qed.

Definition ttl_from_soa (z : list trec) (ttl : N) : Prop :=
  exists s, In s z /\ t_type s = 6 /\ ttl = N.min (t_min s) (t_ttl s).

Lemma from_soa3_ttl m z ttl pc : from_soa3 m z (Some (ttl, pc)) -> ttl_from_soa z ttl.
Proof. destruct pc as [pttl cls]. intros (s & A & B & C & _). exists s. repeat split; assumption. Qed.

Lemma n3_loop_t_from_soa H apex c m excl z : forall gs cut stack ents st acc acc' ents' st',
  (forall g r, In g gs -> In r (snd g) -> In r z) ->
  from_soa3 m z st -> Forall (fun x => ttl_from_soa z (snd x)) acc ->
  n3_loop_t H apex c m excl gs cut stack ents st acc = Ok (acc', ents', st') ->
  from_soa3 m z st' /\ Forall (fun x => ttl_from_soa z (snd x)) acc'.
Proof.
  induction gs as [|g gs IH]; intros cut stack ents st acc acc' ents' st' Hin Hst Hacc E; cbn [n3_loop_t] in E.
  - injection E as <- <- <-. split; assumption.
  - assert (Hin' : forall g0 r, In g0 gs -> In r (snd g0) -> In r z) by (intros ? ? X Y; eapply Hin; [right; exact X|exact Y]).
    destruct (negb (is_in_zone apex (tgroup_strip g))); [injection E as <- <- <-; split; assumption|].
    destruct (below_cut cut (fst g)); [eapply IH; eassumption|].
    destruct (excl && is_zone_cut apex (tgroup_strip g) && negb (memN rt_DS (map t_type (snd g)))); [eapply IH; eassumption|].
    destruct (pop_until (fst g) stack) as [last stack'].
    apply bind_ok in E as (ld & _ & E). apply bind_ok in E as (dta & _ & E).
    apply bind_ok in E as ([bm st1] & Hbm & E). apply bind_ok in E as (p & _ & E). apply bind_ok in E as (ttl & Httl & E).
    assert (Hst1 : from_soa3 m z st1).
    { unfold tnsec3_bitmap in Hbm. apply bind_ok in Hbm as ([bm1 st2] & Hr & Hbm).
      destruct (is_some st2); [|discriminate]. injection Hbm as _ <-.
      eapply trrset_loop_from_soa3; [|exact Hst|exact Hr].
      intros run r Hrun Hr0. apply (Hin g r (or_introl eq_refl)). eapply truns_in; eassumption. }
    eapply IH; [exact Hin'|exact Hst1| |exact E].
    constructor; [|exact Hacc]. cbn [snd]. destruct st1 as [[t1 p1]|]; [|discriminate].
    injection Httl as <-. eapply from_soa3_ttl. exact Hst1.
Qed.

Theorem nsec3_t_ttl_class H apex c m z o : generate_nsec3s_t H apex c m z = Ok o ->
  (forall x, In x (o_recs o) -> exists s, In s z /\ t_type s = 6 /\ snd x = N.min (t_min s) (t_ttl s)) /\
  (exists s, In s z /\ t_type s = 6 /\
     o_param_ttl o = match m with PFixed t => t | PSoa => t_ttl s | PSoaMin => t_min s end /\
     o_class o = if nsec3_class_fixed then 1 else t_class s).
Proof.
  unfold generate_nsec3s_t. intros E.
  apply bind_ok in E as ([[acc ents] st] & Hloop & E).
  destruct st as [[ttl [pttl cls]]|] eqn:Est; [|discriminate].
  apply bind_ok in E as (er & Her & E). apply bind_ok in E as (out & Hout & E). injection E as <-.
  cbn [o_class o_recs o_param_ttl].
  assert (HIN : forall g r, In g (tgroups (tskip_before apex z)) -> In r (snd g) -> In r z).
  { intros g r Hg Hr. apply (tskip_in apex). eapply tgroups_in; eassumption. }
  destruct (n3_loop_t_from_soa H apex c m _ z _ None [] [] None [] _ _ _ HIN I (Forall_nil _) Hloop) as [Hst Hacc].
  split.
  - intros x Hx. apply in_map_iff in Hx as ([r [p t]] & <- & Hin). cbn [fst snd].
    apply (gfinish_in _ _ _ _ _ Hout) in Hin. cbn [snd] in Hin.
    apply in_app_or in Hin as [Hin|Hin].
    + apply in_rev in Hin. rewrite Forall_forall in Hacc. apply (Hacc (p, t) Hin).
    + destruct (ent_recs_t_erase H c ttl ents er Her) as [_ Ht]. rewrite Forall_forall in Ht.
      pose proof (Ht (p, t) Hin) as Et. cbn [snd] in Et. subst t. eapply from_soa3_ttl. exact Hst.
  - destruct Hst as (s & A & B & _ & D & F). exists s. split; [exact A|]. split; [exact B|]. split; [exact D|].
    cbv [nsec3_class_fixed]; first [reflexivity | exact F].
Qed.

Example nsec3_t_example :
  match generate_nsec3s_t (fun x => x) [[101; 120]] (mk_n3cfg false 1 0 0 [] true) PSoaMin
          [ mk_trec [[101; 120]] 6 1 3600 300; mk_trec [[97]; [101; 120]] 1 1 5 0 ] with
  | Ok o => o_param_ttl o = 300 /\ map snd (o_recs o) = [300; 300]
  | _ => False
  end.
Proof. vm_compute. auto. Qed.

(* ---- no panic for the TTL model: under uniform RRset TTLs it is step for
   step the plain model, which does not panic on a sorted zone *)
From DV Require Import C13.ProofsDeny C13.ProofsN3f.

Definition runs_uniform (runs : list (list trec)) : Prop :=
  forall run f r, In run runs -> (exists tl, run = f :: tl) -> In r run -> t_type f <> 46 -> t_ttl r = t_ttl f.

Lemma uniform_runs apex z g : rrset_ttls_uniform z -> In g (tgroups (tskip_before apex z)) ->
  runs_uniform (truns (snd g)).
Proof.
  intros Hu Hg run f r Hrun (tl & ->) Hr Hf.
  assert (HG : forall x, In x (snd g) -> In x z /\ name_eqb (t_name x) (fst g) = true).
  { intros x Hx. destruct (tgroups_in _ g x Hg Hx) as [A B]. split; [apply (tskip_in apex); exact A|exact B]. }
  destruct (truns_in (snd g) _ r Hrun Hr) as [A B]. destruct (truns_in (snd g) _ f Hrun (or_introl eq_refl)) as [A' _].
  destruct (HG r A) as [Z1 N1]. destruct (HG f A') as [Z2 N2].
  symmetry. apply (Hu f r Z2 Z1); [|congruence|exact Hf].
  rewrite name_eqb_sym in N1. eapply name_eqb_trans; eassumption.
Qed.

Lemma tnsec3_bitmap_sim c m at_cut has_ds at_apex recs st : runs_uniform (truns recs) ->
  omap st_erase (tnsec3_bitmap c m at_cut has_ds at_apex recs st) =
    nsec3_bitmap c at_cut has_ds at_apex (map t_type recs) (is_some st).
Proof.
  intros Hu. destruct (tnsec3_bitmap_erase c m at_cut has_ds at_apex recs st) as [P|E]; [|exact E].
  exfalso. unfold tnsec3_bitmap in P.
  match type of P with context [trrset_loop ?u ?a ?b ?r ?bm ?s] =>
    destruct (trrset_loop_cases u a b r bm s Hu) as [(bm' & st' & E & _)|E]; rewrite E in P end; cbn [bind] in P.
  - destruct (is_some st'); discriminate.
  - discriminate.
Qed.

Lemma tnsec3_bitmap_some c m at_cut has_ds at_apex recs st bm st' :
  tnsec3_bitmap c m at_cut has_ds at_apex recs st = Ok (bm, st') -> is_some st' = true.
Proof.
  unfold tnsec3_bitmap. intros E. apply bind_ok in E as ([bm1 st1] & _ & E).
  destruct (is_some st1) eqn:Es; [|discriminate]. injection E as _ <-. exact Es.
Qed.

Definition e3 (r : list (n3pre * N) * list name * option (N * (N * N))) : list n3pre * list name * bool :=
  (map fst (fst (fst r)), snd (fst r), is_some (snd r)).

Lemma n3_loop_t_sim H apex c m excl : forall gs cut stack ents st acc,
  (forall g, In g gs -> runs_uniform (truns (snd g))) ->
  omap e3 (n3_loop_t H apex c m excl gs cut stack ents st acc) =
  n3_loop H apex c excl (map tgroup_strip gs) cut stack ents (is_some st) (map fst acc).
Proof.
  induction gs as [|g gs IH]; intros cut stack ents st acc Hu; cbn [n3_loop_t map n3_loop]; [reflexivity|].
  assert (Hu' : forall g0, In g0 gs -> runs_uniform (truns (snd g0))) by (intros g0 X; apply Hu; right; exact X).
  destruct (negb (is_in_zone apex (tgroup_strip g))); [reflexivity|].
  change (fst (tgroup_strip g)) with (fst g). change (snd (tgroup_strip g)) with (map t_type (snd g)).
  destruct (below_cut cut (fst g)); [apply IH; exact Hu'|].
  destruct (excl && is_zone_cut apex (tgroup_strip g) && negb (memN rt_DS (map t_type (snd g)))); [apply IH; exact Hu'|].
  destruct (pop_until (fst g) stack) as [last stack'].
  destruct (match last with Some s => label_dist s apex | None => Ok 0%nat end) as [ld| | |]; cbn [bind omap]; try reflexivity.
  destruct (label_dist (fst g) apex) as [dta| | |]; cbn [bind omap]; try reflexivity.
  rewrite <- (tnsec3_bitmap_sim c m _ _ _ (snd g) st (Hu g (or_introl eq_refl))).
  destruct (tnsec3_bitmap c m (is_zone_cut apex (tgroup_strip g)) (memN rt_DS (map t_type (snd g))) (dta =? 0)%nat (snd g) st)
    as [[bm st1]| | |] eqn:Eb; cbn [bind omap]; try reflexivity.
  unfold st_erase. cbn [fst snd bind].
  destruct (mk_pre H c (fst g) bm) as [p| | |]; cbn [bind omap]; try reflexivity.
  pose proof (tnsec3_bitmap_some _ _ _ _ _ _ _ _ _ Eb) as Es.
  destruct st1 as [[t1 p1]|]; [|discriminate]. cbn [bind].
  apply (IH _ _ _ (Some (t1, p1)) ((p, t1) :: acc) Hu').
Qed.

Lemma ent_recs_t_sim H c ttl es : omap (map fst) (ent_recs_t H c ttl es) = ent_recs H c es.
Proof.
  induction es as [|e es IH]; [reflexivity|]. cbn [ent_recs_t ent_recs].
  destruct (mk_pre H c e []); cbn [bind omap]; try reflexivity.
  rewrite <- IH. destruct (ent_recs_t H c ttl es); reflexivity.
Qed.

Lemma no_panic_omap {A B} (f : A -> B) o : no_panic (omap f o) <-> no_panic o.
Proof. destruct o; reflexivity. Qed.

Theorem nsec3_t_no_panic H apex c m z : zone_sorted (map trec_strip z) -> rrset_ttls_uniform z ->
  no_panic (generate_nsec3s_t H apex c m z).
Proof.
  intros Hs Hu.
  assert (Sim : omap (fun o => map fst (o_recs o)) (generate_nsec3s_t H apex c m z) =
                generate_nsec3s H apex c (map trec_strip z)).
  { unfold generate_nsec3s_t, generate_nsec3s.
    pose proof (n3_loop_t_sim H apex c m (opt_out_flag c && c_excl c) (tgroups (tskip_before apex z)) None [] [] None []
                  (fun g Hg => uniform_runs apex z g Hu Hg)) as L.
    rewrite tgroups_erase, tskip_erase in L. cbn [map is_some] in L. rewrite <- L.
    destruct (n3_loop_t H apex c m (opt_out_flag c && c_excl c) (tgroups (tskip_before apex z)) None [] [] None [])
      as [[[acc ents] st]| | |]; cbn [omap bind e3 fst snd]; try reflexivity.
    destruct st as [[ttl [pttl cls]]|]; cbn [is_some negb]; [|reflexivity].
    change ((fix go (es : list name) : outcome (list n3pre) :=
               match es with
               | [] => Ok []
               | e :: es' => do p <- mk_pre H c e []; do ps <- go es'; Ok (p :: ps)
               end) ents) with (ent_recs H c ents).
    rewrite <- (ent_recs_t_sim H c ttl ents).
    destruct (ent_recs_t H c ttl ents) as [er| | |]; cbn [omap bind]; try reflexivity.
    change (omap (fun o => map fst (o_recs o))
              (do out <- gfinish (n3pre * N) fst (rev acc ++ er);
               Ok (mk_n3out (map (fun x => (fst x, snd (snd x))) out) (if nsec3_class_fixed then nsec3_class else cls) pttl)) =
            finish3 (rev (map fst acc) ++ map fst er)).
    rewrite <- map_rev, <- map_app, <- (gfinish_erase (n3pre * N) fst).
    destruct (gfinish (n3pre * N) fst (rev acc ++ er)); cbn [omap bind o_recs]; try reflexivity.
    rewrite map_map. reflexivity. }
  apply (no_panic_omap (fun o => map fst (o_recs o))). rewrite Sim. apply nsec3_no_panic. exact Hs.
Qed.

Theorem nsec3param_record_spec H apex c m z o : generate_nsec3s_t H apex c m z = Ok o ->
  exists s, In s z /\ t_type s = 6 /\
    nsec3param_record apex c o =
      (apex, (if nsec3_class_fixed then 1 else t_class s),
       match m with PFixed t => t | PSoa => t_ttl s | PSoaMin => t_min s end,
       (c_alg c, c_flags c, c_iters c, c_salt c)).
Proof.
  intros E. destruct (nsec3_t_ttl_class H apex c m z o E) as (_ & s & Hs & Ht & Hp & Hc).
  exists s. split; [exact Hs|]. split; [exact Ht|]. unfold nsec3param_record, n3_params. rewrite Hc, Hp. reflexivity.
Qed.

(* pins of T1 items that only steer executable behaviour *)
Example alg_and_optout_pins :
  mk_pre (fun x => x) (mk_n3cfg true 2 0 0 [] true) [] [] = Err 3 /\
  is_ok (mk_pre (fun x => x) (mk_n3cfg true 1 0 0 [] true) [] []) = true /\
  opt_out_flag (mk_n3cfg true 1 1 0 [] true) = true /\ opt_out_flag (mk_n3cfg true 1 129 0 [] true) = true /\
  opt_out_flag (mk_n3cfg true 1 2 0 [] true) = false /\ nsec3_class = 1.
Proof. vm_compute. repeat split. Qed.
