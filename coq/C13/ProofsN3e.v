(* C13 proofs, part 11: the NSEC3 ring denies every absent (name, type);
   exported statements and examples. *)
From Coq Require Import NArith ZArith Arith List Bool Lia Sorted.
From DV Require Import Base.Outcome Base.Bytes Base.Lex Base.Names C11.Sha C13.Gen C13.Model
  C13.ProofsNames C13.ProofsBitmap C13.ProofsGroups C13.ProofsNsec C13.ProofsNsec2
  C13.ProofsDeny C13.ProofsN3a C13.ProofsN3b C13.ProofsN3c C13.ProofsN3d.
Import ListNotations.
Local Open Scope N_scope.

(* RFC 5155 8.3 / 7.2.8: the hash lies between owner and next, or the record
   is the last one of the ring *)
Definition h3_covers (r : nsec3) (h : bytes) : Prop :=
  (lex_cmp (h_owner r) (h_next r) = Lt /\ lex_cmp (h_owner r) h = Lt /\ lex_cmp h (h_next r) = Lt) \/
  (lex_cmp (h_owner r) (h_next r) <> Lt /\ (lex_cmp (h_owner r) h = Lt \/ lex_cmp h (h_next r) = Lt)).

Lemma h3_search h : forall out : list nsec3, StronglySorted h3lt out ->
  (match out with [] => False | f :: _ => lex_cmp (h_owner f) h <> Gt end) ->
  exists pre r post, out = pre ++ r :: post /\ lex_cmp (h_owner r) h <> Gt /\
    match post with [] => True | r' :: _ => lex_cmp h (h_owner r') = Lt end.
Proof.
  induction out as [|f t IH]; intros Hs Hh; [destruct Hh|].
  apply StronglySorted_inv in Hs as [Hs' _].
  destruct t as [|f' t'].
  - exists [], f, []. repeat split. exact Hh.
  - destruct (lex_cmp (h_owner f') h) eqn:E.
    + destruct (IH Hs' ltac:(discriminate)) as (pre & r & post & E1 & E2 & E3).
      exists (f :: pre), r, post. rewrite E1. repeat split; assumption.
    + destruct (IH Hs' ltac:(discriminate)) as (pre & r & post & E1 & E2 & E3).
      exists (f :: pre), r, post. rewrite E1. repeat split; assumption.
    + exists [], f, (f' :: t'). repeat split; [exact Hh|].
      rewrite lex_cmp_antisym, E. reflexivity.
Qed.

Lemma h3_next_of_split x : forall pre (out : list nsec3) r post,
  map h_next out = tl (map h_owner out) ++ [x] -> out = pre ++ r :: post ->
  h_next r = match post with [] => x | r' :: _ => h_owner r' end.
Proof.
  induction pre as [|p pre IH]; intros out r post Hm E; subst out.
  - cbn [app map tl] in Hm. destruct post as [|r' post]; cbn [map app] in Hm; congruence.
  - cbn [app] in Hm. destruct (pre ++ r :: post) as [|y rest] eqn:F; [destruct pre; discriminate|].
    apply (IH (y :: rest) r post); [|symmetry; exact F].
    cbn [map tl app] in *. injection Hm as _ Hm. exact Hm.
Qed.

Lemma ring_cover (out : list nsec3) h : StronglySorted h3lt out -> out <> [] ->
  map h_next out = tl (map h_owner out) ++ [hd [] (map h_owner out)] ->
  (forall r, In r out -> h_owner r <> h) -> exists r, In r out /\ h3_covers r h.
Proof.
  intros Hs Hne Hring Hno. destruct out as [|f rest]; [congruence|]. cbn [map hd] in Hring.
  (* every owner is not before the first *)
  assert (Hge : forall r, In r (f :: rest) -> lex_cmp (h_owner r) (h_owner f) <> Lt).
  { intros r [<-|Hr]; [rewrite lex_cmp_refl; discriminate|].
    apply StronglySorted_inv in Hs as [_ Hf]. rewrite Forall_forall in Hf. specialize (Hf r Hr).
    unfold h3lt in Hf. rewrite lex_cmp_antisym, Hf. discriminate. }
  destruct (lex_cmp (h_owner f) h) eqn:C.
  - apply lex_cmp_eq in C. exfalso. apply (Hno f); [left; reflexivity|exact C].
  - (* after the first: search *)
    destruct (h3_search h (f :: rest) Hs) as (pre & r & post & E & Hle & Hpost); [rewrite C; discriminate|].
    assert (Hr : In r (f :: rest)) by (rewrite E; apply in_or_app; right; left; reflexivity).
    exists r. split; [exact Hr|].
    assert (Hlt : lex_cmp (h_owner r) h = Lt).
    { destruct (lex_cmp (h_owner r) h) eqn:F; try congruence. apply lex_cmp_eq in F. exfalso. apply (Hno r Hr F). }
    pose proof (h3_next_of_split _ pre (f :: rest) r post Hring E) as Hn.
    destruct post as [|r' post].
    + right. rewrite Hn. split; [apply Hge; exact Hr|left; exact Hlt].
    + left. rewrite Hn. split; [|split; [exact Hlt|exact Hpost]].
      rewrite E in Hs. apply sorted_app_r in Hs. apply StronglySorted_inv in Hs as [_ Hs].
      apply Forall_inv in Hs. exact Hs.
  - (* before the first: the last record wraps around *)
    destruct (exists_last Hne) as (pre & rl & E).
    assert (Hr : In rl (f :: rest)) by (rewrite E; apply in_or_app; right; left; reflexivity).
    exists rl. split; [exact Hr|]. right.
    pose proof (h3_next_of_split _ pre (f :: rest) rl [] Hring E) as Hn. rewrite Hn.
    split; [apply Hge; exact Hr|]. right. rewrite lex_cmp_antisym, C. reflexivity.
Qed.

Lemma owner_dec (out : list nsec3) h :
  (exists r, In r out /\ h_owner r = h) \/ (forall r, In r out -> h_owner r <> h).
Proof.
  induction out as [|r0 out IH]; [right; intros r []|].
  destruct (bytes_eqb (h_owner r0) h) eqn:E.
  - left. exists r0. split; [left; reflexivity|apply bytes_eqb_eq; exact E].
  - destruct IH as [(r & Hr & Er)|Hn]; [left; exists r; split; [right; exact Hr|exact Er]|].
    right. intros r [<-|Hr]; [|apply Hn; exact Hr]. intros F. apply bytes_eqb_eq in F. congruence.
Qed.

Lemma bm_contains_empty t : bm_contains [] t = Ok false.
Proof. unfold bm_contains. destruct (split_rtype t) as [[w o] m]. reflexivity. Qed.

Theorem nsec3_denies H apex c z out :
  zone_sorted z -> types_ok z -> generate_nsec3s H apex c z = Ok out ->
  (* idealised hash: no collision between the probed name and the zone *)
  (forall a b, hashn H c a = hashn H c b -> name_eqb a b = true) ->
  forall n t, ~ has_type z n t -> t <> 46 ->
    ~ (name_eqb n apex = true /\ (t = 51 \/ (c_dnskey c = true /\ t = 48))) ->
    exists r, In r out /\
      ((h_owner r = hashn H c n /\ bm_contains (h_types r) t = Ok false) \/ h3_covers r (hashn H c n)).
Proof.
  intros Hs Ht Hout Hinj n t Hno H46 Hapex.
  destruct (nsec3_sorted_closed H apex c z out Hout) as (S1 & S2 & S3).
  destruct (owner_dec out (hashn H c n)) as [(r & Hr & Er)|Hnone].
  - exists r. split; [exact Hr|]. left. split; [exact Er|].
    destruct (nsec3_bitmap_exact H apex c z Hs out Hout Ht r Hr) as (m & Em & [[_ Hb]|[_ He]]).
    + assert (Emn : name_eqb m n = true) by (apply Hinj; congruence).
      destruct (Hb t) as (b & Hc & Hiff). rewrite Hc. f_equal. destruct b; [|reflexivity]. exfalso.
      destruct Hiff as [Hiff _]. destruct (Hiff eq_refl) as [[X _]|[[X1 X2]|[X _]]].
      * contradiction.
      * apply Hapex. split; [|exact X2]. rewrite name_eqb_sym in Emn. eapply name_eqb_trans; eassumption.
      * apply Hno. apply (has_type_eq_name z m n t Emn). exact X.
    + rewrite He. apply bm_contains_empty.
  - destruct (ring_cover out (hashn H c n) S1 S2 S3 Hnone) as (r & Hr & Hc).
    exists r. split; [exact Hr|right; exact Hc].
Qed.

(* ---- exported forms *)
Definition optout_excl (c : n3cfg) : bool := opt_out_flag c && c_excl c.

Theorem nsec3_sorted_closed' H apex c z out : generate_nsec3s H apex c z = Ok out ->
  StronglySorted (fun a b => lex_cmp (h_owner a) (h_owner b) = Lt) out /\ out <> [] /\
  map h_next out = tl (map h_owner out) ++ [hd [] (map h_owner out)].
Proof. exact (nsec3_sorted_closed H apex c z out). Qed.

Theorem nsec3_owners' H apex c z out : zone_sorted z -> generate_nsec3s H apex c z = Ok out ->
  forall x, (exists r, In r out /\ h_owner r = x) <->
    (exists n, (included apex z (optout_excl c) n \/ ent3 apex z (optout_excl c) n) /\
               x = nsec3_hash H n (c_iters c) (c_salt c)).
Proof. intros Hs Ho. exact (nsec3_owners H apex c z Hs out Ho). Qed.

Theorem nsec3_bitmap_exact' H apex c z out : zone_sorted z -> types_ok z ->
  generate_nsec3s H apex c z = Ok out -> forall r, In r out ->
  exists n, h_owner r = nsec3_hash H n (c_iters c) (c_salt c) /\
   ((included apex z (optout_excl c) n /\ forall t,
       exists b, bm_contains (h_types r) t = Ok b /\
         (b = true <->
          (t = 46 /\ (deleg apex z n -> has_type z n 43)) \/
          (name_eqb n apex = true /\ (t = 51 \/ (c_dnskey c = true /\ t = 48))) \/
          (has_type z n t /\ (deleg apex z n -> t = 2 \/ t = 43))))
    \/ (ent3 apex z (optout_excl c) n /\ h_types r = [])).
Proof. intros Hs Ht Ho. exact (nsec3_bitmap_exact H apex c z Hs out Ho Ht). Qed.

(* ---- non-vacuity: the example zone of ProofsDeny with opt-out: the insecure
   delegation z.ex. is left out, s.ex. (DS) stays, no ENT; and a zone with a
   shared ENT *)
Definition ex_cfg (flags : N) : n3cfg := mk_n3cfg true 1 flags 1 [171] true.

Example ex_zone_nsec3_optout :
  match generate_nsec3s sha1 ex_apex (ex_cfg 1) ex_zone, generate_nsec3s sha1 ex_apex (ex_cfg 0) ex_zone with
  | Ok a, Ok b => (length a, length b) = (3%nat, 4%nat)
  | _, _ => False
  end.
Proof. vm_compute. reflexivity. Qed.

Definition ent_zone : list rec :=
  [ ([[101; 120]], 6);                                        (* ex. SOA *)
    ([[97]; [69]; [101; 120]], 1);                            (* a.E.ex. A *)
    ([[98]; [120]; [101]; [101; 120]], 1) ].                  (* b.x.e.ex. A *)

Example ent_zone_nsec3 :
  (* apex, a.E.ex, b.x.e.ex and the ENTs e.ex (shared) and x.e.ex *)
  match generate_nsec3s sha1 ex_apex (ex_cfg 0) ent_zone with
  | Ok a => length a = 5%nat /\
            In (nsec3_hash sha1 [[101]; [101; 120]] 1 [171]) (map h_owner a) /\
            In (nsec3_hash sha1 [[120]; [101]; [101; 120]] 1 [171]) (map h_owner a)
  | _ => False
  end.
Proof. vm_compute. intuition. Qed.
