(* C13 proofs, part 6: the NSEC chain denies every absent (name, type);
   generate_nsecs never panics. *)
From Coq Require Import NArith ZArith Arith List Bool Lia Sorted.
From DV Require Import Base.Outcome Base.Bytes Base.Lex Base.Names C13.Gen C13.Model
  C13.ProofsNames C13.ProofsBitmap C13.ProofsGroups C13.ProofsNsec C13.ProofsNsec2.
Import ListNotations.
Local Open Scope N_scope.

(* RFC 4035 5.4 / 3.1.3.2: the NSEC's owner is before the name and its next
   name is after it, or the NSEC is the last one of the chain *)
Definition nsec_covers (r : nsec) (n : name) : Prop :=
  name_cmp (n_owner r) n = Lt /\
  (name_cmp n (n_next r) = Lt \/ name_cmp (n_next r) (n_owner r) <> Gt).

Lemma ends_with_both a b : ends_with a b = true -> ends_with b a = true -> name_eqb a b = true.
Proof.
  intros H1 H2. apply ends_with_le in H1. apply ends_with_le in H2.
  apply name_eqb_cmp. destruct (name_cmp a b) eqn:E; try congruence.
  rewrite name_cmp_antisym, E in H1. cbn in H1. congruence.
Qed.

Lemma cover_search n : forall out : list nsec,
  StronglySorted (fun a b => name_lt (n_owner a) (n_owner b)) out ->
  (match out with [] => False | h :: _ => name_cmp (n_owner h) n <> Gt end) ->
  exists pre r post, out = pre ++ r :: post /\ name_cmp (n_owner r) n <> Gt /\
    match post with [] => True | r' :: _ => name_cmp n (n_owner r') = Lt end.
Proof.
  induction out as [|h t IH]; intros Hs Hh; [destruct Hh|].
  apply StronglySorted_inv in Hs as [Hs' _].
  destruct t as [|h' t'].
  - exists [], h, []. repeat split. exact Hh.
  - destruct (name_cmp (n_owner h') n) eqn:E.
    + destruct (IH Hs' ltac:(discriminate)) as (pre & r & post & E1 & E2 & E3).
      exists (h :: pre), r, post. rewrite E1. repeat split; assumption.
    + destruct (IH Hs' ltac:(discriminate)) as (pre & r & post & E1 & E2 & E3).
      exists (h :: pre), r, post. rewrite E1. repeat split; assumption.
    + exists [], h, (h' :: t'). repeat split; [exact Hh|].
      rewrite name_cmp_antisym, E. reflexivity.
Qed.

Lemma next_of_split apex : forall pre (out : list nsec) r post,
  map n_next out = tl (map n_owner out) ++ [apex] -> out = pre ++ r :: post ->
  n_next r = match post with [] => apex | r' :: _ => n_owner r' end.
Proof.
  induction pre as [|p pre IH]; intros out r post H E; subst out.
  - cbn [app map tl] in H. destruct post as [|r' post]; cbn [map app] in H; congruence.
  - cbn [app] in H. destruct (pre ++ r :: post) as [|x rest] eqn:F; [destruct pre; discriminate|].
    apply (IH (x :: rest) r post); [|symmetry; exact F].
    cbn [map tl app] in *. injection H as _ H. exact H.
Qed.

Theorem nsec_denies apex z dk out :
  zone_sorted z -> types_ok z -> generate_nsecs apex dk z = Ok out -> owner_in z apex ->
  forall n t, in_zone apex n -> ~ has_type z n t -> t <> 46 -> t <> 47 ->
    ~ (dk = true /\ name_eqb n apex = true /\ t = 48) ->
    exists r, In r out /\
      ((name_eqb (n_owner r) n = true /\ bm_contains (n_types r) t = Ok false) \/ nsec_covers r n).
Proof.
  intros Hs Ht Hout Hapex n t Hz Hno H46 H47 H48.
  pose proof (nsec_sorted apex z Hs dk out Hout) as Hsorted.
  pose proof (nsec_owners apex z Hs dk out Hout) as Howners.
  (* every owner is at or after the apex *)
  assert (Hge : forall r, In r out -> name_cmp apex (n_owner r) <> Gt).
  { intros r Hr. apply ends_with_le.
    assert (A : auth_name apex z (n_owner r)) by (apply Howners; exists r; split; [exact Hr|apply name_eqb_refl]).
    apply A. }
  (* the apex has an NSEC *)
  assert (Hauth : auth_name apex z apex).
  { split; [exact Hapex|]. split; [apply ends_with_refl|].
    intros (c & (Hcz & Hcne & _) & [Hb _]).
    rewrite (ends_with_both c apex Hcz Hb) in Hcne. discriminate. }
  apply Howners in Hauth as (r0 & Hr0 & Er0).
  assert (Hn : name_cmp apex n <> Gt) by (apply ends_with_le; exact Hz).
  assert (Hhead : match out with [] => False | h :: _ => name_cmp (n_owner h) n <> Gt end).
  { destruct out as [|h tl]; [destruct Hr0|].
    destruct Hr0 as [<-|Hin].
    - rewrite (name_cmp_eq_l _ _ n Er0). exact Hn.
    - apply StronglySorted_inv in Hsorted as [_ Hh]. rewrite Forall_forall in Hh.
      specialize (Hh r0 Hin). unfold name_lt in Hh.
      rewrite (name_cmp_eq_r _ _ (n_owner h) Er0) in Hh.
      rewrite (name_cmp_lt_le_trans _ _ _ Hh Hn). discriminate. }
  destruct (cover_search n out Hsorted Hhead) as (pre & r & post & E & Hle & Hpost).
  assert (Hr : In r out) by (rewrite E; apply in_or_app; right; left; reflexivity).
  exists r. split; [exact Hr|].
  destruct (name_cmp (n_owner r) n) eqn:C; [| |congruence].
  - left. apply name_eqb_cmp in C. split; [exact C|].
    destruct (nsec_bitmap_exact apex z Hs dk out Hout Ht r Hr t) as (b & Hb & Hiff).
    rewrite Hb. f_equal. destruct b; [|reflexivity]. exfalso.
    destruct Hiff as [Hiff _]. destruct (Hiff eq_refl) as [H|[H|[(H1 & H2 & H3)|[H _]]]]; try contradiction.
    + apply H48. split; [exact H1|]. split; [|exact H3].
      rewrite name_eqb_sym in C. eapply name_eqb_trans; eassumption.
    + apply Hno. apply (has_type_eq_name z _ _ t C). exact H.
  - right. split; [exact C|].
    assert (Hne : out <> []) by (intros ->; destruct Hr).
    rewrite (next_of_split apex pre out r post (nsec_closed apex z dk out Hout Hne) E).
    destruct post as [|r' post]; [right; apply Hge; exact Hr|left; exact Hpost].
Qed.

(* ---- no panic *)
Lemma rrset_loop_cases at_cut cts : forall rs bm ttl,
  (exists bm' ttl', rrset_loop at_cut cts rs bm ttl = Ok (bm', ttl') /\ (ttl = true -> ttl' = true)) \/
  rrset_loop at_cut cts rs bm ttl = Err 1.
Proof.
  induction rs as [|[t c] rs IH]; intros bm ttl; cbn [rrset_loop].
  - left. eauto.
  - destruct (t =? rt_SOA).
    + destruct (soa_max_len <? c)%nat; [right; reflexivity|].
      destruct (IH (if negb at_cut || memN t cts then bm_add bm t else bm) true) as [(bm' & ttl' & E & Hm)|E];
        [left|right; exact E]. exists bm', ttl'. split; [exact E|]. intros _. apply Hm. reflexivity.
    + apply IH.
Qed.

Lemma nsec_visit_cases apex dk at_cut g ttl :
  (exists bm, nsec_visit apex dk at_cut g ttl = Ok (bm, true)) \/
  nsec_visit apex dk at_cut g ttl = Err 1.
Proof.
  unfold nsec_visit.
  match goal with |- context [rrset_loop ?a ?b ?c ?d ?e] =>
    destruct (rrset_loop_cases a b c d e) as [(bm' & ttl' & E & _)|E]; rewrite E end; cbn [bind].
  - destruct ttl'; [left; eauto|right; reflexivity].
  - right. reflexivity.
Qed.

Lemma nsec_loop_no_panic apex dk : forall gs cut prev ttl acc,
  (prev <> None -> ttl = true) -> no_panic (nsec_loop apex dk gs cut prev ttl acc).
Proof.
  assert (F : forall prev ttl acc, (prev <> None -> ttl = true) -> no_panic (nsec_finish apex prev ttl acc)).
  { intros prev ttl acc H. unfold nsec_finish. destruct prev as [[pn bm]|]; [|exact I].
    rewrite H by discriminate. exact I. }
  induction gs as [|g gs IH]; intros cut prev ttl acc H; cbn [nsec_loop]; [apply F; exact H|].
  destruct (negb (is_in_zone apex g)); [apply F; exact H|].
  destruct (below_cut cut (fst g)); [apply IH; exact H|].
  destruct prev as [[pn bm]|].
  - rewrite H by discriminate. cbn [bind].
    destruct (nsec_visit_cases apex dk (is_zone_cut apex g) g true) as [(bm' & E)|E]; rewrite E; cbn [bind];
      [apply IH; reflexivity|exact I].
  - cbn [bind].
    destruct (nsec_visit_cases apex dk (is_zone_cut apex g) g ttl) as [(bm' & E)|E]; rewrite E; cbn [bind];
      [apply IH; reflexivity|exact I].
Qed.

Theorem nsec_no_panic apex dk z : no_panic (generate_nsecs apex dk z).
Proof. unfold generate_nsecs. apply nsec_loop_no_panic. intros H. congruence. Qed.

(* ---- non-vacuity: a zone with a secure and an insecure delegation, glue
   after the last authoritative name, an occluded name, a name differing in
   case, and a record outside the zone *)
Definition ex_apex : name := [[101; 120]].                       (* ex. *)
Definition ex_zone : list rec :=
  [ ([[101; 120]], 2); ([[101; 120]], 6);                        (* ex. NS SOA *)
    ([[65]; [101; 120]], 1); ([[97]; [69; 88]], 16);             (* A.ex. A, a.EX. TXT *)
    ([[115]; [101; 120]], 2); ([[115]; [101; 120]], 43);         (* s.ex. NS DS *)
    ([[122]; [101; 120]], 1); ([[122]; [101; 120]], 2);          (* z.ex. A NS *)
    ([[103]; [122]; [101; 120]], 1);                             (* g.z.ex. A (glue) *)
    ([[122; 122]], 1) ].                                         (* zz. A (outside) *)

Example ex_zone_nsec :
  generate_nsecs ex_apex true ex_zone = Ok
    [ mk_nsec [[101; 120]] [[65]; [101; 120]] [0; 7; 34; 0; 0; 0; 0; 3; 128];
      mk_nsec [[65]; [101; 120]] [[115]; [101; 120]] [0; 6; 64; 0; 128; 0; 0; 3];
      mk_nsec [[115]; [101; 120]] [[122]; [101; 120]] [0; 6; 32; 0; 0; 0; 0; 19];
      mk_nsec [[122]; [101; 120]] [[101; 120]] [0; 6; 32; 0; 0; 0; 0; 3] ].
Proof. vm_compute. reflexivity. Qed.

Example ex_zone_sorted : zone_sorted ex_zone.
Proof. unfold zone_sorted, ex_zone. repeat (constructor; [|repeat (constructor; [vm_compute; discriminate|]); constructor]). constructor. Qed.

Example ex_zone_no_soa : generate_nsecs ex_apex true (tl (tl ex_zone)) = Err 1.
Proof. vm_compute. reflexivity. Qed.

(* ---- statements in the form exported by Props.v *)
Lemma sorted_weaken {A} (R S : A -> A -> Prop) (l : list A) :
  (forall a b, R a b -> S a b) -> StronglySorted R l -> StronglySorted S l.
Proof.
  intros H. induction 1 as [|a l _ IH F]; constructor; [exact IH|].
  eapply Forall_impl; [|exact F]. intros b. apply H.
Qed.

Theorem nsec_one_per_auth_name apex z dk out :
  zone_sorted z -> generate_nsecs apex dk z = Ok out ->
  (forall n, auth_name apex z n <-> exists r, In r out /\ name_eqb (n_owner r) n = true) /\
  StronglySorted (fun a b => name_eqb (n_owner a) (n_owner b) = false) out.
Proof.
  intros Hs Ho. split; [exact (nsec_owners apex z Hs dk out Ho)|].
  eapply sorted_weaken; [|exact (nsec_sorted apex z Hs dk out Ho)].
  intros a b Hab. apply lt_not_eqb. exact Hab.
Qed.

Theorem nsec_sorted_canonical apex z dk out :
  zone_sorted z -> generate_nsecs apex dk z = Ok out ->
  StronglySorted (fun a b => name_cmp (n_owner a) (n_owner b) = Lt) out.
Proof. intros Hs Ho. exact (nsec_sorted apex z Hs dk out Ho). Qed.

Theorem nsec_bitmap_exact' apex z dk out :
  zone_sorted z -> types_ok z -> generate_nsecs apex dk z = Ok out ->
  forall r, In r out -> forall t,
  exists b, bm_contains (n_types r) t = Ok b /\
    (b = true <->
     t = 46 \/ t = 47 \/ (dk = true /\ name_eqb (n_owner r) apex = true /\ t = 48) \/
     (has_type z (n_owner r) t /\ (deleg apex z (n_owner r) -> t = 2 \/ t = 43))).
Proof. intros Hs Ht Ho. exact (nsec_bitmap_exact apex z Hs dk out Ho Ht). Qed.

(* the example zone: its four NSECs are the four authoritative names, and
   the glue name g.z.ex. / type AAAA is covered by the last NSEC *)
Example ex_zone_denies :
  exists r, In r [ mk_nsec [[122]; [101; 120]] [[101; 120]] [0; 6; 32; 0; 0; 0; 0; 3] ] /\
            nsec_covers r [[103]; [122]; [101; 120]].
Proof. eexists. split; [left; reflexivity|]. split; [vm_compute; reflexivity|right; vm_compute; discriminate]. Qed.

From DV Require Import C11.Sha.
Theorem nsec3_hash_is_rfc5155 n iterations salt :
  c13_hash n iterations salt = rfc5155_IH sha1 salt (wire_abs (canon n)) (N.to_nat iterations) /\
  length (c13_hash n iterations salt) = 20%nat.
Proof.
  unfold c13_hash. rewrite nsec3_hash_rfc5155. split; [reflexivity|].
  destruct (N.to_nat iterations); apply sha1_length.
Qed.

(* ---- totality on well-formed zones: a SOA at the apex, no owner with two SOA records *)
Definition soa_ok (g : group) : Prop := (count_occ N.eq_dec (snd g) rt_SOA <= 1)%nat.

Lemma rrsets_count ts : forall t c, In (t, c) (rrsets ts) -> (c <= count_occ N.eq_dec ts t)%nat.
Proof.
  induction ts as [|x r IH]; intros t c Hin; cbn [rrsets] in Hin; [destruct Hin|].
  destruct (rrsets r) as [|[t' c'] rs] eqn:E.
  - destruct Hin as [Hin|[]]. injection Hin as <- <-. cbn [count_occ]. destruct (N.eq_dec x x); [lia|congruence].
  - destruct (N.eqb_spec t' x) as [->|Hne].
    + destruct Hin as [Hin|Hin].
      * injection Hin as <- <-. cbn [count_occ]. destruct (N.eq_dec x x); [|congruence].
        specialize (IH x c' (or_introl eq_refl)). lia.
      * specialize (IH t c (or_intror Hin)). cbn [count_occ]. destruct (N.eq_dec x t); lia.
    + destruct Hin as [Hin|Hin].
      * injection Hin as <- <-. cbn [count_occ]. destruct (N.eq_dec x x); [lia|congruence].
      * specialize (IH t c Hin). cbn [count_occ]. destruct (N.eq_dec x t); lia.
Qed.

Lemma rrset_loop_total at_cut cts : forall rs bm ttl,
  (forall c, In (rt_SOA, c) rs -> (c <= 1)%nat) ->
  exists bm' ttl', rrset_loop at_cut cts rs bm ttl = Ok (bm', ttl') /\
    (ttl = true \/ memN rt_SOA (map fst rs) = true -> ttl' = true).
Proof.
  induction rs as [|[t c] rs IH]; intros bm ttl Hc; cbn [rrset_loop].
  - exists bm, ttl. split; [reflexivity|]. intros [E|E]; [exact E|discriminate].
  - assert (Hc' : forall c0, In (rt_SOA, c0) rs -> (c0 <= 1)%nat) by (intros c0 H0; apply Hc; right; exact H0).
    destruct (N.eqb_spec t rt_SOA) as [->|Hne].
    + cbv [soa_max_len]. destruct (Nat.ltb_spec 1 c) as [Hgt|_].
      * specialize (Hc c (or_introl eq_refl)). lia.
      * destruct (IH (if negb at_cut || memN rt_SOA cts then bm_add bm rt_SOA else bm) true Hc') as (bm' & ttl' & E & Hm).
        exists bm', ttl'. split; [exact E|]. intros _. apply Hm. left. reflexivity.
    + destruct (IH (if negb at_cut || memN t cts then bm_add bm t else bm) ttl Hc') as (bm' & ttl' & E & Hm).
      exists bm', ttl'. split; [exact E|]. intros [X|X]; apply Hm; [left; exact X|right].
      cbn [map fst] in X. unfold memN in *. cbn [existsb] in X.
      destruct (N.eqb_spec t rt_SOA); [congruence|exact X].
Qed.

Lemma nsec_visit_total apex dk at_cut g ttl : soa_ok g -> (ttl = true \/ In rt_SOA (snd g)) ->
  exists bm, nsec_visit apex dk at_cut g ttl = Ok (bm, true).
Proof.
  intros Hs Ht. unfold nsec_visit.
  match goal with |- context [rrset_loop ?a ?b ?c ?d ?e] =>
    destruct (rrset_loop_total a b c d e) as (bm' & ttl' & E & Hm) end.
  - intros c Hc. apply rrsets_count in Hc. unfold soa_ok in Hs. lia.
  - rewrite E. cbn [bind]. rewrite Hm; [eauto|].
    destruct Ht as [X|X]; [left; exact X|right]. rewrite rrsets_fst. apply memN_In. exact X.
Qed.

Lemma nsec_loop_total apex dk : forall gs cut prev acc, Forall soa_ok gs ->
  exists out, nsec_loop apex dk gs cut prev true acc = Ok out.
Proof.
  induction gs as [|g gs IH]; intros cut prev acc Hs; cbn [nsec_loop].
  - unfold nsec_finish. destruct prev as [[pn bm]|]; eauto.
  - inversion Hs as [|? ? Hg Hs']; subst.
    destruct (negb (is_in_zone apex g)); [unfold nsec_finish; destruct prev as [[pn bm]|]; eauto|].
    destruct (below_cut cut (fst g)); [apply IH; exact Hs'|].
    destruct (nsec_visit_total apex dk (is_zone_cut apex g) g true Hg (or_introl eq_refl)) as (bm & E).
    destruct prev as [[pn pbm]|]; cbn [bind]; rewrite E; cbn [bind]; apply IH; exact Hs'.
Qed.

Theorem nsec_total apex dk z : zone_sorted z -> has_type z apex rt_SOA ->
  Forall soa_ok (groups (skip_before apex z)) ->
  exists out, generate_nsecs apex dk z = Ok out.
Proof.
  intros Hs Hsoa Hok. unfold generate_nsecs.
  assert (Hz : in_zone apex apex) by apply ends_with_refl.
  destruct (group_of_name apex z Hs apex rt_SOA Hsoa Hz) as (g0 & Hg0 & Eg0).
  pose proof (gs_sorted apex z Hs) as Hsorted. pose proof (gs_ge_apex apex z Hs) as Hge.
  destruct (groups (skip_before apex z)) as [|h gs] eqn:Egs; [destruct Hg0|].
  (* the head is the apex group *)
  assert (Eh : name_eqb (fst h) apex = true).
  { destruct Hg0 as [<-|Hin]; [exact Eg0|].
    apply StronglySorted_inv in Hsorted as [_ Hh]. rewrite Forall_forall in Hh. specialize (Hh g0 Hin).
    unfold owners_lt in Hh. rewrite (name_cmp_eq_r _ _ (fst h) Eg0) in Hh.
    exfalso. apply (Hge h (or_introl eq_refl)). rewrite name_cmp_antisym, Hh. reflexivity. }
  assert (Hzh : is_in_zone apex h = true) by (unfold is_in_zone; apply name_eqb_ends_with; exact Eh).
  assert (Hsoah : In rt_SOA (snd h)).
  { assert (Hh : In h (groups (skip_before apex z))) by (rewrite Egs; left; reflexivity).
    apply (group_types apex z Hs h Hh Hzh). apply (has_type_eq_name z apex (fst h) rt_SOA); [rewrite name_eqb_sym; exact Eh|exact Hsoa]. }
  inversion Hok as [|? ? Hh Hok']; subst.
  cbn [nsec_loop]. rewrite Hzh. cbn [negb below_cut bind].
  destruct (nsec_visit_total apex dk (is_zone_cut apex h) h false Hh (or_intror Hsoah)) as (bm & E).
  rewrite E. cbn [bind]. apply nsec_loop_total. exact Hok'.
Qed.

Example ex_zone_total : Forall soa_ok (groups (skip_before ex_apex ex_zone)) /\ has_type ex_zone ex_apex rt_SOA.
Proof.
  split.
  - vm_compute. repeat constructor.
  - exists [[101; 120]]. split; [right; left; reflexivity|reflexivity].
Qed.
