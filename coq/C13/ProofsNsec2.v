(* C13 proofs, part 5: the NSEC theorems over zones. *)
From Coq Require Import NArith ZArith Arith List Bool Lia Sorted.
From DV Require Import Base.Outcome Base.Bytes Base.Lex Base.Names C13.Gen C13.Model
  C13.ProofsNames C13.ProofsBitmap C13.ProofsGroups C13.ProofsNsec.
Import ListNotations.
Local Open Scope N_scope.

Definition types_ok (z : list rec) : Prop := Forall (fun r => snd r < 65536) z.
Definition name_lt (a b : name) : Prop := name_cmp a b = Lt.

(* ---- type sets *)
Lemma memN_In t l : memN t l = true <-> In t l.
Proof. apply existsb_eqb_In. Qed.

Lemma rrsets_fst ts t : memN t (map fst (rrsets ts)) = memN t ts.
Proof.
  induction ts as [|x r IH]; [reflexivity|]. cbn [rrsets].
  destruct (rrsets r) as [|[t' c] rs] eqn:E.
  - cbn [map fst]. unfold memN in *. cbn [existsb map] in *. rewrite <- IH. reflexivity.
  - unfold memN in *. cbn [map fst existsb] in IH.
    destruct (N.eqb_spec t' x) as [->|Hne]; cbn [map fst existsb].
    + rewrite <- IH. destruct (x =? t); reflexivity.
    + rewrite <- IH. reflexivity.
Qed.

Lemma rrsets_bound ts : Forall (fun t => t < 65536) ts -> Forall (fun t => t < 65536) (map fst (rrsets ts)).
Proof.
  intros H. apply Forall_forall. intros a Ha. apply memN_In in Ha. rewrite rrsets_fst in Ha.
  apply memN_In in Ha. rewrite Forall_forall in H. apply H. exact Ha.
Qed.

Lemma rrset_loop_spec at_cut cts : forall rs bm ttl bm' ttl',
  rrset_loop at_cut cts rs bm ttl = Ok (bm', ttl') -> bs_inv bm ->
  Forall (fun t => t < 65536) (map fst rs) ->
  bs_inv bm' /\
  forall t, bs_has_type bm' t = bs_has_type bm t || (memN t (map fst rs) && (negb at_cut || memN t cts)).
Proof.
  induction rs as [|[x c] rs IH]; intros bm ttl bm' ttl' H Hinv Hb; cbn [rrset_loop] in H.
  - injection H as <- <-. split; [exact Hinv|]. intros t. unfold memN. cbn [map existsb andb]. rewrite orb_false_r. reflexivity.
  - cbn [map fst] in Hb. inversion Hb as [|? ? Hx Hb']; subst.
    set (bm1 := if negb at_cut || memN x cts then bm_add bm x else bm) in *.
    assert (Hinv1 : bs_inv bm1) by (unfold bm1; destruct (negb at_cut || memN x cts); auto using bm_add_inv).
    assert (Hhas1 : forall t, bs_has_type bm1 t = bs_has_type bm t || ((x =? t) && (negb at_cut || memN x cts))).
    { intros t. unfold bm1. destruct (negb at_cut || memN x cts).
      - rewrite bs_has_type_add by exact Hinv. rewrite andb_true_r. reflexivity.
      - rewrite andb_false_r, orb_false_r. reflexivity. }
    assert (R : exists ttl1, rrset_loop at_cut cts rs bm1 ttl1 = Ok (bm', ttl')).
    { destruct (x =? rt_SOA); [|eauto]. destruct (soa_max_len <? c)%nat; [discriminate|eauto]. }
    destruct R as (ttl1 & R). destruct (IH _ _ _ _ R Hinv1 Hb') as (A & B). split; [exact A|].
    intros t. rewrite B, Hhas1. cbn [map fst].
    replace (memN t (x :: map fst rs)) with ((x =? t) || memN t (map fst rs)) by reflexivity.
    destruct (N.eqb_spec x t) as [->|Hne].
    + destruct (bs_has_type bm t), (negb at_cut || memN t cts), (memN t (map fst rs)); reflexivity.
    + destruct (bs_has_type bm t), (negb at_cut || memN x cts), (negb at_cut || memN t cts),
        (memN t (map fst rs)); reflexivity.
Qed.

Definition nsec_type_set (apex : name) (dk at_cut : bool) (g : group) (t : N) : bool :=
  (t =? 46) || (t =? 47) || (dk && name_eqb (fst g) apex && (t =? 48))
  || (memN t (snd g) && (negb at_cut || memN t [2; 43])).

Lemma eqb_sym_N a b : (a =? b) = (b =? a).
Proof. destruct (N.eqb_spec a b), (N.eqb_spec b a); congruence. Qed.

Lemma nsec_visit_spec apex dk at_cut g ttl bm ttl' :
  nsec_visit apex dk at_cut g ttl = Ok (bm, ttl') -> Forall (fun t => t < 65536) (snd g) ->
  forall t, bm_contains bm t = Ok (nsec_type_set apex dk at_cut g t).
Proof.
  unfold nsec_visit. intros H Hb t.
  apply bind_ok in H as ([bm1 ttl1] & Hr & H). destruct ttl1; [|discriminate]. injection H as <- <-.
  cbv [nsec_fixed_a nsec_apex_cfg nsec_fixed_b nsec_cut_types] in Hr.
  set (b0 := bm_add [] 46) in *.
  assert (I0 : bs_inv b0) by (apply bm_add_inv; [apply bs_inv_nil|reflexivity]).
  set (b1 := if dk && name_eqb (fst g) apex then bm_add b0 48 else b0) in *.
  assert (I1 : bs_inv b1) by (unfold b1; destruct (dk && name_eqb (fst g) apex); [apply bm_add_inv; [exact I0|reflexivity]|exact I0]).
  assert (I2 : bs_inv (bm_add b1 47)) by (apply bm_add_inv; [exact I1|reflexivity]).
  destruct (rrset_loop_spec _ _ _ _ _ _ _ Hr I2 (rrsets_bound _ Hb)) as (A & B).
  rewrite bm_contains_finalize by exact A. f_equal. rewrite B, rrsets_fst.
  rewrite bs_has_type_add by exact I1.
  assert (E1 : bs_has_type b1 t = (t =? 46) || (dk && name_eqb (fst g) apex && (t =? 48))).
  { unfold b1. destruct (dk && name_eqb (fst g) apex); cbn [andb].
    - rewrite bs_has_type_add by exact I0. unfold b0. rewrite bs_has_type_add by apply bs_inv_nil.
      rewrite bs_has_type_nil. cbn [orb]. rewrite (eqb_sym_N 46 t), (eqb_sym_N 48 t). reflexivity.
    - unfold b0. rewrite bs_has_type_add by apply bs_inv_nil. rewrite bs_has_type_nil. cbn [orb].
      rewrite orb_false_r. apply eqb_sym_N. }
  rewrite E1. unfold nsec_type_set. rewrite (eqb_sym_N 47 t).
  destruct (t =? 46), (t =? 47), (dk && name_eqb (fst g) apex && (t =? 48)); reflexivity.
Qed.

(* ---- structure of the result *)
Lemma nsec_structure apex dk z out : generate_nsecs apex dk z = Ok out ->
  exists l, Forall2 (visited apex dk) (select apex (groups (skip_before apex z)) None) l /\
            out = link apex l.
Proof.
  unfold generate_nsecs. intros H. apply nsec_loop_link in H as (l & Hl & Ho).
  exists l. split; [exact Hl|]. rewrite Ho. reflexivity.
Qed.

Lemma sorted_map_iff {A B} (R : B -> B -> Prop) (f : A -> B) l :
  StronglySorted (fun a b => R (f a) (f b)) l <-> StronglySorted R (map f l).
Proof.
  induction l as [|x l IH]; cbn [map]; split; intros H; try constructor;
    apply StronglySorted_inv in H as [H1 H2].
  - apply IH. exact H1.
  - rewrite Forall_forall in *. intros y Hy. apply in_map_iff in Hy as (a & <- & Ha). apply H2. exact Ha.
  - apply IH. exact H1.
  - rewrite Forall_forall in *. intros a Ha. apply H2. apply in_map. exact Ha.
Qed.

Lemma Forall2_in_l {A B} (R : A -> B -> Prop) s l a : Forall2 R s l -> In a s -> exists b, In b l /\ R a b.
Proof.
  induction 1 as [|a0 b0 s l H0 _ IH]; [intros []|].
  intros [<-|Hin]; [exists b0; split; [left; reflexivity|exact H0]|].
  destruct (IH Hin) as (b & Hb & Hr). exists b. split; [right; exact Hb|exact Hr].
Qed.

Lemma link_in_conv apex l n b : In (n, b) l -> exists r, In r (link apex l) /\ n_owner r = n /\ n_types r = b.
Proof.
  induction l as [|[n0 b0] l IH]; [intros []|]. cbn [link].
  intros [E|Hin].
  - injection E as <- <-. eexists. split; [left; reflexivity|split; reflexivity].
  - destruct (IH Hin) as (r & Hr & E1 & E2). exists r. split; [right; exact Hr|split; assumption].
Qed.

(* ---- from groups back to the zone *)
Lemma strictly_below_eq_l a a' c : name_eqb a a' = true -> strictly_below a c -> strictly_below a' c.
Proof.
  intros E [H1 H2]. split; [rewrite <- (ends_with_eq_l _ _ _ E); exact H1|].
  destruct (name_eqb a' c) eqn:F; [|reflexivity].
  rewrite (name_eqb_trans _ _ _ E F) in H2. discriminate.
Qed.
Lemma strictly_below_eq_r a c c' : name_eqb c c' = true -> strictly_below a c -> strictly_below a c'.
Proof.
  intros E [H1 H2]. split; [rewrite <- (ends_with_eq_r _ _ _ E); exact H1|].
  destruct (name_eqb a c') eqn:F; [|reflexivity].
  rewrite name_eqb_sym in E. rewrite (name_eqb_trans _ _ _ F E) in H2. discriminate.
Qed.

Section Zone.
Variable apex : name.
Variable z : list rec.
Hypothesis Hsorted : zone_sorted z.
Let z' := skip_before apex z.
Let gs := groups z'.

Lemma z'_sorted : zone_sorted z'.
Proof. apply skip_before_sorted. exact Hsorted. Qed.

Lemma gs_ok : Forall (group_ok z') gs.
Proof. apply groups_spec. exact z'_sorted. Qed.
Lemma gs_sorted : StronglySorted owners_lt gs.
Proof. apply groups_spec. exact z'_sorted. Qed.

Lemma gs_ge_apex : forall g, In g gs -> name_cmp apex (fst g) <> Gt.
Proof.
  pose proof (groups_spec z' z'_sorted) as (_ & S & _ & Hd).
  destruct (skip_before_spec apex z) as (pre & _ & _ & Hhd).
  unfold gs, z' in *. clear z' gs.
  destruct (skip_before apex z) as [|[n t] l].
  - cbn. intros g [].
  - destruct Hd as (ts & gs0 & Eg). cbn [fst] in Hhd. rewrite Eg in *.
    apply StronglySorted_inv in S as [_ S]. rewrite Forall_forall in S.
    intros g [<-|Hg]; cbn [fst].
    + apply ends_with_le. exact Hhd.
    + eapply name_cmp_le_trans; [apply ends_with_le; exact Hhd|]. pose proof (S g Hg) as L.
      unfold owners_lt in L. cbn [fst] in L. rewrite L. discriminate.
Qed.

Lemma group_types g : In g gs -> is_in_zone apex g = true ->
  forall t, In t (snd g) <-> has_type z (fst g) t.
Proof.
  intros Hg Hz t. pose proof gs_ok as A. rewrite Forall_forall in A. destruct (A g Hg) as [_ B].
  rewrite B. apply skip_before_has_type. exact Hz.
Qed.

Lemma group_of_name n t : has_type z n t -> in_zone apex n ->
  exists g, In g gs /\ name_eqb (fst g) n = true.
Proof.
  intros Ht Hz. apply (skip_before_has_type apex z n t Hz) in Ht. destruct Ht as (m & Hin & Hm).
  pose proof (groups_spec z' z'_sorted) as (_ & _ & C & _). destruct (C m t Hin) as (g & Hg & Eg).
  exists g. split; [exact Hg|]. rewrite name_eqb_sym in Eg. eapply name_eqb_trans; eassumption.
Qed.

Lemma gcut_deleg g : In g gs -> (gcut apex g <-> deleg apex z (fst g)).
Proof.
  intros Hg. unfold gcut, deleg, is_zone_cut, is_in_zone, in_zone. split.
  - intros [Hz Hc]. apply andb_true_iff in Hc as [Hne Hns]. apply negb_true_iff in Hne.
    split; [exact Hz|]. split; [exact Hne|].
    apply (group_types g Hg Hz). fold (memN rt_NS (snd g)) in Hns. apply memN_In. exact Hns.
  - intros (Hz & Hne & Hns). split; [exact Hz|]. apply andb_true_iff. split; [rewrite Hne; reflexivity|].
    fold (memN rt_NS (snd g)). apply memN_In. apply (group_types g Hg Hz). exact Hns.
Qed.

Lemma goccl_occluded n : goccl apex gs n <-> occluded apex z n.
Proof.
  unfold goccl, occluded. split.
  - intros (g & Hg & Hc & Hsb). exists (fst g). split; [apply gcut_deleg; assumption|exact Hsb].
  - intros (c & Hd & Hsb). destruct Hd as (Hz & Hne & Hns).
    destruct (group_of_name c rt_NS Hns Hz) as (g & Hg & Eg).
    exists g. split; [exact Hg|]. split.
    + apply gcut_deleg; [exact Hg|]. rewrite name_eqb_sym in Eg. split; [|split].
      * unfold in_zone in *. rewrite <- (ends_with_eq_l _ _ _ Eg). exact Hz.
      * destruct (name_eqb (fst g) apex) eqn:F; [|reflexivity].
        rewrite (name_eqb_trans _ _ _ Eg F) in Hne. discriminate.
      * apply (has_type_eq_name z c (fst g) rt_NS Eg). exact Hns.
    + apply strictly_below_eq_r with c; [rewrite name_eqb_sym; exact Eg|exact Hsb].
Qed.

Lemma select_auth g : In g gs ->
  (In (g, is_zone_cut apex g) (select apex gs None) <-> in_zone apex (fst g) /\ ~ occluded apex z (fst g)).
Proof.
  intros Hg.
  rewrite (select_spec apex gs [] None); cbn [app].
  - rewrite goccl_occluded. reflexivity.
  - exact gs_sorted.
  - exact gs_ge_apex.
  - intros c E. discriminate.
  - intros g0 x [].
  - exact Hg.
Qed.

Variable dk : bool.
Variable out : list nsec.
Hypothesis Hout : generate_nsecs apex dk z = Ok out.

Lemma out_record r : In r out ->
  exists g ttl ttl', In (g, is_zone_cut apex g) (select apex gs None) /\ In g gs /\
    is_in_zone apex g = true /\ n_owner r = fst g /\
    nsec_visit apex dk (is_zone_cut apex g) g ttl = Ok (n_types r, ttl').
Proof.
  intros Hr. destruct (nsec_structure _ _ _ _ Hout) as (l & Hl & ->). fold z' gs in Hl.
  apply link_in in Hr. destruct (Forall2_in_r _ _ _ _ Hl Hr) as ([g c] & Hin & Hv & ttl & ttl' & Hvis).
  cbn [fst snd] in *. destruct (select_in _ _ _ _ _ Hin) as (A & -> & C).
  exists g, ttl, ttl'. repeat split; assumption.
Qed.

Lemma out_of_group g : In (g, is_zone_cut apex g) (select apex gs None) ->
  exists r, In r out /\ n_owner r = fst g.
Proof.
  intros Hin. destruct (nsec_structure _ _ _ _ Hout) as (l & Hl & ->). fold z' gs in Hl.
  destruct (Forall2_in_l _ _ _ _ Hl Hin) as ([n b] & Hb & Hn & _). cbn [fst snd] in Hn. subst n.
  destruct (link_in_conv apex l _ _ Hb) as (r & Hr & E & _). exists r. split; assumption.
Qed.

Theorem nsec_sorted : StronglySorted (fun a b => name_lt (n_owner a) (n_owner b)) out.
Proof.
  destruct (nsec_structure _ _ _ _ Hout) as (l & Hl & ->). fold z' gs in Hl.
  apply sorted_map_iff. rewrite link_owner, (Forall2_visited_owner _ _ _ _ Hl).
  rewrite <- (map_map fst fst). apply (sorted_map_iff name_lt fst).
  apply (select_sorted apex gs None). exact gs_sorted.
Qed.

Theorem nsec_closed : out <> [] -> map n_next out = tl (map n_owner out) ++ [apex].
Proof.
  destruct (nsec_structure _ _ _ _ Hout) as (l & Hl & ->). intros Hne.
  rewrite link_owner. apply link_next. intros ->. apply Hne. reflexivity.
Qed.

Theorem nsec_owners n :
  auth_name apex z n <-> exists r, In r out /\ name_eqb (n_owner r) n = true.
Proof.
  split.
  - intros ((t & Ht) & Hz & Hno).
    destruct (group_of_name n t Ht Hz) as (g & Hg & Eg).
    assert (Hsel : In (g, is_zone_cut apex g) (select apex gs None)).
    { apply select_auth; [exact Hg|]. rewrite name_eqb_sym in Eg. split.
      - unfold in_zone in *. rewrite <- (ends_with_eq_l _ _ _ Eg). exact Hz.
      - intros (c & Hd & Hsb). apply Hno. exists c. split; [exact Hd|].
        apply strictly_below_eq_l with (fst g); [rewrite name_eqb_sym; exact Eg|exact Hsb]. }
    destruct (out_of_group g Hsel) as (r & Hr & E). exists r. split; [exact Hr|]. rewrite E. exact Eg.
  - intros (r & Hr & En).
    destruct (out_record r Hr) as (g & ttl & ttl' & Hsel & Hg & Hz & Eo & _). rewrite Eo in En.
    apply (select_auth g Hg) in Hsel as [Hz' Hno].
    pose proof gs_ok as A. rewrite Forall_forall in A. destruct (A g Hg) as [[t0 Ht0] _].
    split; [|split].
    + exists t0. exists (fst g). split; [|exact En].
      destruct (skip_before_spec apex z) as (pre & E & _). rewrite E. apply in_or_app. right. exact Ht0.
    + unfold in_zone in *. rewrite <- (ends_with_eq_l _ _ _ En). exact Hz'.
    + intros (c & Hd & Hsb). apply Hno. exists c. split; [exact Hd|].
      apply strictly_below_eq_l with n; [rewrite name_eqb_sym; exact En|exact Hsb].
Qed.

Hypothesis Htypes : types_ok z.

Lemma group_types_bound g : In g gs -> Forall (fun t => t < 65536) (snd g).
Proof.
  intros Hg. apply Forall_forall. intros t Ht.
  pose proof gs_ok as A. rewrite Forall_forall in A. destruct (A g Hg) as [_ B].
  apply B in Ht as (m & Hin & _).
  destruct (skip_before_spec apex z) as (pre & E & _).
  unfold types_ok in Htypes. rewrite Forall_forall in Htypes.
  apply (Htypes (m, t)). rewrite E. apply in_or_app. right. exact Hin.
Qed.

Theorem nsec_bitmap_exact r : In r out -> forall t,
  exists b, bm_contains (n_types r) t = Ok b /\
    (b = true <->
     t = 46 \/ t = 47 \/ (dk = true /\ name_eqb (n_owner r) apex = true /\ t = 48) \/
     (has_type z (n_owner r) t /\ (deleg apex z (n_owner r) -> t = 2 \/ t = 43))).
Proof.
  intros Hr t. destruct (out_record r Hr) as (g & ttl & ttl' & Hsel & Hg & Hz & Eo & Hv).
  rewrite Eo. eexists. split; [apply (nsec_visit_spec _ _ _ _ _ _ _ Hv (group_types_bound g Hg))|].
  unfold nsec_type_set.
  assert (D : is_zone_cut apex g = true <-> deleg apex z (fst g)).
  { rewrite <- (gcut_deleg g Hg). unfold gcut. intuition. }
  assert (M : memN t [2; 43] = true <-> t = 2 \/ t = 43).
  { rewrite memN_In. cbn [In]. intuition. }
  assert (T : memN t (snd g) = true <-> has_type z (fst g) t).
  { rewrite memN_In. apply (group_types g Hg Hz t). }
  repeat first [rewrite orb_true_iff | rewrite andb_true_iff].
  rewrite !N.eqb_eq, negb_true_iff, T, M.
  destruct (is_zone_cut apex g) eqn:Ec.
  - assert (Hd : deleg apex z (fst g)) by (apply D; reflexivity). intuition congruence.
  - assert (Hd : ~ deleg apex z (fst g)) by (intros X; apply D in X; congruence). intuition congruence.
Qed.

End Zone.
