(* C13 proofs, part 4: generate_nsecs. *)
From Coq Require Import NArith ZArith Arith List Bool Lia Sorted.
From DV Require Import Base.Outcome Base.Bytes Base.Lex Base.Names C13.Gen C13.Model
  C13.ProofsNames C13.ProofsBitmap C13.ProofsGroups.
Import ListNotations.
Local Open Scope N_scope.

(* ---- the loop as "select the visited groups, then link them" *)
Fixpoint select (apex : name) (gs : list group) (cut : option name) : list (group * bool) :=
  match gs with
  | [] => []
  | g :: gs' =>
      if negb (is_in_zone apex g) then []
      else if below_cut cut (fst g) then select apex gs' cut
      else let c := is_zone_cut apex g in
           (g, c) :: select apex gs' (if c then Some (fst g) else None)
  end.

Fixpoint link (apex : name) (l : list (name * bytes)) : list nsec :=
  match l with
  | [] => []
  | (n, b) :: r => mk_nsec n (match r with [] => apex | (n', _) :: _ => n' end) b :: link apex r
  end.

Definition visited (apex : name) (dk : bool) (gc : group * bool) (nb : name * bytes) : Prop :=
  fst nb = fst (fst gc) /\
  exists ttl ttl', nsec_visit apex dk (snd gc) (fst gc) ttl = Ok (snd nb, ttl').

Lemma nsec_finish_link apex prev ttl acc out : nsec_finish apex prev ttl acc = Ok out ->
  out = rev acc ++ link apex (match prev with Some p => [p] | None => [] end).
Proof.
  unfold nsec_finish. destruct prev as [[pn bm]|].
  - destruct ttl; [|discriminate]. intros E. injection E as <-. cbn [rev link]. reflexivity.
  - intros E. injection E as <-. cbn [link]. rewrite app_nil_r. reflexivity.
Qed.

Lemma nsec_loop_link apex dk : forall gs cut prev ttl acc out,
  nsec_loop apex dk gs cut prev ttl acc = Ok out ->
  exists l, Forall2 (visited apex dk) (select apex gs cut) l /\
    out = rev acc ++ link apex (match prev with Some p => [p] | None => [] end ++ l).
Proof.
  induction gs as [|g gs IH]; intros cut prev ttl acc out H; cbn [nsec_loop select] in *.
  - exists []. split; [constructor|]. rewrite app_nil_r. apply nsec_finish_link with ttl. exact H.
  - destruct (negb (is_in_zone apex g)).
    + exists []. split; [constructor|]. rewrite app_nil_r. apply nsec_finish_link with ttl. exact H.
    + destruct (below_cut cut (fst g)); [apply IH with ttl; exact H|].
      apply bind_ok in H as (acc' & Hacc & H).
      apply bind_ok in H as ([bm ttl'] & Hv & H).
      apply IH in H as (l & Hl & Hout).
      exists ((fst g, bm) :: l). split.
      * constructor; [|exact Hl]. split; [reflexivity|]. exists ttl, ttl'. exact Hv.
      * rewrite Hout. destruct prev as [[pn pbm]|].
        -- destruct ttl; [|discriminate]. injection Hacc as <-. cbn [rev app link].
           rewrite <- app_assoc. reflexivity.
        -- injection Hacc as <-. reflexivity.
Qed.

Lemma link_owner apex l : map n_owner (link apex l) = map fst l.
Proof. induction l as [|[n b] l IH]; cbn [link map]; [reflexivity|]. cbn [n_owner fst]. f_equal. exact IH. Qed.

Lemma link_next apex l : l <> [] -> map n_next (link apex l) = tl (map fst l) ++ [apex].
Proof.
  induction l as [|[n b] l IH]; intros H; [congruence|]. cbn [link map tl n_next fst].
  destruct l as [|[n' b'] l]; [reflexivity|].
  rewrite IH by discriminate. reflexivity.
Qed.

Lemma link_in apex l r : In r (link apex l) -> In (n_owner r, n_types r) l.
Proof.
  induction l as [|[n b] l IH]; cbn [link]; [intros []|].
  intros [<-|H]; [left; reflexivity|right; apply IH; exact H].
Qed.

Lemma Forall2_visited_owner apex dk s l : Forall2 (visited apex dk) s l ->
  map fst l = map (fun gc => fst (fst gc)) s.
Proof. induction 1 as [|gc nb s l [H _] _ IH]; cbn [map]; [reflexivity|]. rewrite H, IH. reflexivity. Qed.

Lemma Forall2_in_r {A B} (R : A -> B -> Prop) s l b : Forall2 R s l -> In b l -> exists a, In a s /\ R a b.
Proof.
  induction 1 as [|a0 b0 s l H0 _ IH]; [intros []|].
  intros [<-|Hin]; [exists a0; split; [left; reflexivity|exact H0]|].
  destruct (IH Hin) as (a & Ha & Hr). exists a. split; [right; exact Ha|exact Hr].
Qed.

(* ---- select *)
Lemma select_in apex gs : forall cut g c, In (g, c) (select apex gs cut) ->
  In g gs /\ c = is_zone_cut apex g /\ is_in_zone apex g = true.
Proof.
  induction gs as [|g0 gs IH]; intros cut g c H; cbn [select] in H; [destruct H|].
  destruct (is_in_zone apex g0) eqn:Ez; cbn [negb] in H; [|destruct H].
  destruct (below_cut cut (fst g0)).
  - destruct (IH _ _ _ H) as (A & B & C). split; [right; exact A|split; assumption].
  - destruct H as [E|H].
    + injection E as <- <-. split; [left; reflexivity|split; [reflexivity|exact Ez]].
    + destruct (IH _ _ _ H) as (A & B & C). split; [right; exact A|split; assumption].
Qed.

Lemma select_sorted apex gs : forall cut, StronglySorted owners_lt gs ->
  StronglySorted owners_lt (map fst (select apex gs cut)).
Proof.
  induction gs as [|g0 gs IH]; intros cut Hs; cbn [select]; [constructor|].
  apply StronglySorted_inv in Hs as [Hs' Hhd].
  destruct (negb (is_in_zone apex g0)); [constructor|].
  destruct (below_cut cut (fst g0)); [apply IH; exact Hs'|].
  cbn [map fst]. constructor; [apply IH; exact Hs'|].
  apply Forall_forall. intros x Hx. apply in_map_iff in Hx as ([g c] & <- & Hin).
  apply select_in in Hin as (Hin & _). rewrite Forall_forall in Hhd. apply Hhd. exact Hin.
Qed.

(* occlusion, at the level of groups *)
Definition gcut (apex : name) (g : group) : Prop :=
  is_in_zone apex g = true /\ is_zone_cut apex g = true.
Definition goccl (apex : name) (all : list group) (n : name) : Prop :=
  exists g, In g all /\ gcut apex g /\ strictly_below n (fst g).

Lemma lt_irrefl a : name_cmp a a <> Lt.
Proof. rewrite name_cmp_refl. discriminate. Qed.
Lemma lt_asym a b : name_cmp a b = Lt -> name_cmp b a = Lt -> False.
Proof. intros H1 H2. rewrite name_cmp_antisym, H1 in H2. discriminate. Qed.

Lemma sorted_app_inv (pre : list group) g0 gs : StronglySorted owners_lt (pre ++ g0 :: gs) ->
  (forall p, In p pre -> owners_lt p g0) /\ (forall y, In y gs -> owners_lt g0 y) /\
  (forall p y, In p pre -> In y gs -> owners_lt p y).
Proof.
  induction pre as [|p0 pre IH]; cbn [app]; intros H.
  - apply StronglySorted_inv in H as [_ H]. rewrite Forall_forall in H.
    split; [intros p []|]. split; [exact H|intros p y []].
  - apply StronglySorted_inv in H as [H Hp0]. rewrite Forall_forall in Hp0.
    destruct (IH H) as (A & B & C). split; [|split].
    + intros p [<-|Hp]; [apply Hp0; apply in_or_app; right; left; reflexivity|apply A; exact Hp].
    + exact B.
    + intros p y [<-|Hp] Hy; [apply Hp0; apply in_or_app; right; right; exact Hy|apply C; assumption].
Qed.

Lemma select_spec apex : forall gs pre cut,
  StronglySorted owners_lt (pre ++ gs) ->
  (forall g, In g gs -> name_cmp apex (fst g) <> Gt) ->
  (forall c, cut = Some c -> exists g, In g pre /\ fst g = c /\ gcut apex g) ->
  (forall g x, In g pre -> gcut apex g -> (forall p, In p pre -> name_cmp (fst p) x = Lt) ->
     strictly_below x (fst g) -> below_cut cut x = true) ->
  forall g, In g gs ->
    (In (g, is_zone_cut apex g) (select apex gs cut) <->
     is_in_zone apex g = true /\ ~ goccl apex (pre ++ gs) (fst g)).
Proof.
  induction gs as [|g0 gs IH]; intros pre cut Hs Hap I1 I2 g Hg; [destruct Hg|].
  destruct (sorted_app_inv _ _ _ Hs) as (Spre & Sgs & Spg).
  assert (Hs2 : StronglySorted owners_lt ((pre ++ [g0]) ++ gs)) by (rewrite <- app_assoc; exact Hs).
  assert (Hap' : forall g, In g gs -> name_cmp apex (fst g) <> Gt) by (intros y Hy; apply Hap; right; exact Hy).
  assert (Hnotin : ~ In g0 gs) by (intros Hin; apply (lt_irrefl (fst g0)); apply (Sgs g0 Hin)).
  cbn [select].
  destruct (is_in_zone apex g0) eqn:Ez; cbn [negb].
  2:{ (* break *)
    split; [intros []|]. intros [Hz _]. exfalso. destruct Hg as [<-|Hg]; [congruence|].
    unfold is_in_zone in *.
    assert (E : ends_with (fst g0) apex = true).
    { apply ends_with_between with (x := fst g); [apply Hap; left; reflexivity| |exact Hz].
      rewrite (Sgs g Hg). discriminate. }
    congruence. }
  destruct (below_cut cut (fst g0)) eqn:Eb.
  - (* skipped *)
    destruct cut as [c|]; [|discriminate]. cbn [below_cut] in Eb.
    destruct (I1 c eq_refl) as (gc & Hgc & <- & Hcut).
    assert (Hocc : goccl apex (pre ++ g0 :: gs) (fst g0)).
    { exists gc. split; [apply in_or_app; left; exact Hgc|]. split; [exact Hcut|].
      split; [exact Eb|]. apply lt_not_eqb'. apply Spre. exact Hgc. }
    assert (I2' : forall g x, In g (pre ++ [g0]) -> gcut apex g ->
               (forall p, In p (pre ++ [g0]) -> name_cmp (fst p) x = Lt) ->
               strictly_below x (fst g) -> below_cut (Some (fst gc)) x = true).
    { intros g' x Hg' Hc' Hx Hsb. apply in_app_or in Hg' as [Hg'|[<-|[]]].
      - apply (I2 g' x Hg' Hc'); [|exact Hsb]. intros p Hp. apply Hx. apply in_or_app. left. exact Hp.
      - cbn [below_cut]. destruct Hsb as [Hsb _]. eapply ends_with_trans; eassumption. }
    assert (I1' : forall c, Some (fst gc) = Some c -> exists g, In g (pre ++ [g0]) /\ fst g = c /\ gcut apex g).
    { intros c E. injection E as <-. exists gc. split; [apply in_or_app; left; exact Hgc|split; [reflexivity|exact Hcut]]. }
    destruct Hg as [<-|Hg].
    + split.
      * intros Hin. apply select_in in Hin as (Hin & _). contradiction.
      * intros [_ Hno]. contradiction.
    + rewrite (IH (pre ++ [g0]) (Some (fst gc)) Hs2 Hap' I1' I2' g Hg). rewrite <- app_assoc. reflexivity.
  - (* visited *)
    set (c0 := is_zone_cut apex g0). set (cut' := if c0 then Some (fst g0) else None).
    assert (I1' : forall c, cut' = Some c -> exists g, In g (pre ++ [g0]) /\ fst g = c /\ gcut apex g).
    { intros c E. unfold cut' in E. destruct c0 eqn:Ec0; [|discriminate]. injection E as <-.
      exists g0. split; [apply in_or_app; right; left; reflexivity|]. split; [reflexivity|]. split; assumption. }
    assert (I2' : forall g x, In g (pre ++ [g0]) -> gcut apex g ->
               (forall p, In p (pre ++ [g0]) -> name_cmp (fst p) x = Lt) ->
               strictly_below x (fst g) -> below_cut cut' x = true).
    { intros g' x Hg' Hc' Hx Hsb. apply in_app_or in Hg' as [Hg'|[<-|[]]].
      - exfalso.
        assert (Hb : below_cut cut x = true).
        { apply (I2 g' x Hg' Hc'); [|exact Hsb]. intros p Hp. apply Hx. apply in_or_app. left. exact Hp. }
        destruct cut as [c|]; [|discriminate]. cbn [below_cut] in Hb, Eb.
        destruct (I1 c eq_refl) as (gc & Hgc & <- & _).
        assert (E : ends_with (fst g0) (fst gc) = true).
        { apply ends_with_between with (x := x); [rewrite (Spre gc Hgc); discriminate| |exact Hb].
          rewrite (Hx g0); [discriminate|apply in_or_app; right; left; reflexivity]. }
        congruence.
      - destruct Hc' as [_ Hc']. unfold cut'. fold c0 in Hc'. rewrite Hc'. cbn [below_cut]. apply Hsb. }
    destruct Hg as [<-|Hg].
    + split; [|intros _; left; reflexivity]. intros _. split; [exact Ez|].
      intros (g' & Hg' & Hc' & Hsb). apply in_app_or in Hg' as [Hg'|[<-|Hg']].
      * assert (Hb : below_cut cut (fst g0) = true).
        { apply (I2 g' (fst g0) Hg' Hc'); [|exact Hsb]. intros p Hp. apply Spre. exact Hp. }
        congruence.
      * destruct Hsb as [_ Hsb]. rewrite name_eqb_refl in Hsb. discriminate.
      * apply strictly_below_lt in Hsb. apply (lt_asym _ _ Hsb). apply Sgs. exact Hg'.
    + pose proof (IH (pre ++ [g0]) cut' Hs2 Hap' I1' I2' g Hg) as R.
      rewrite <- app_assoc in R. cbn [app] in R. rewrite <- R. cbn [In]. split.
      * intros [E|H]; [|exact H]. injection E as E _. subst g. contradiction.
      * intros H. right. exact H.
Qed.
