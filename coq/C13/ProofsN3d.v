(* C13 proofs, part 10: the NSEC3 theorems over zones. *)
From Coq Require Import NArith ZArith Arith List Bool Lia Sorted.
From DV Require Import Base.Outcome Base.Bytes Base.Lex Base.Names C13.Gen C13.Model
  C13.ProofsNames C13.ProofsBitmap C13.ProofsGroups C13.ProofsNsec C13.ProofsNsec2
  C13.ProofsN3a C13.ProofsN3b C13.ProofsN3c.
Import ListNotations.
Local Open Scope N_scope.

(* ---- the specification respects name equality *)
Lemma in_zone_eq apex a b : name_eqb a b = true -> in_zone apex a -> in_zone apex b.
Proof. unfold in_zone. intros E Hz. rewrite <- (ends_with_eq_l _ _ _ E). exact Hz. Qed.

Lemma deleg_eq apex z a b : name_eqb a b = true -> deleg apex z a -> deleg apex z b.
Proof.
  intros E (H1 & H2 & H3). split; [eapply in_zone_eq; eassumption|]. split.
  - destruct (name_eqb b apex) eqn:F; [|reflexivity]. rewrite (name_eqb_trans _ _ _ E F) in H2. discriminate.
  - apply (has_type_eq_name z a b _ E). exact H3.
Qed.

Lemma occluded_eq apex z a b : name_eqb a b = true -> occluded apex z a -> occluded apex z b.
Proof. intros E (cn & Hd & Hs). exists cn. split; [exact Hd|eapply strictly_below_eq_l; eassumption]. Qed.

Lemma auth_eq apex z a b : name_eqb a b = true -> auth_name apex z a -> auth_name apex z b.
Proof.
  intros E ((t & Ht) & Hz & Hno). split; [exists t; apply (has_type_eq_name z a b t E); exact Ht|].
  split; [eapply in_zone_eq; eassumption|]. intros Ho. apply Hno.
  apply (occluded_eq apex z b a); [rewrite name_eqb_sym; exact E|exact Ho].
Qed.

Lemma strictly_below_trans a b cn : strictly_below a b -> strictly_below b cn -> strictly_below a cn.
Proof.
  intros H1 H2. pose proof (strictly_below_length _ _ H1). pose proof (strictly_below_length _ _ H2).
  destruct H1 as [H1 _], H2 as [H2 _]. apply shorter_strictly_below; [eapply ends_with_trans; eassumption|lia].
Qed.

Lemma sorted_map_filter {A B} (R : B -> B -> Prop) (f : A -> B) (p : A -> bool) l :
  StronglySorted R (map f l) -> StronglySorted R (map f (filter p l)).
Proof.
  induction l as [|x l IH]; cbn [map filter]; intros Hs; [constructor|].
  apply StronglySorted_inv in Hs as [Hs Hx]. destruct (p x); [|apply IH; exact Hs].
  cbn [map]. constructor; [apply IH; exact Hs|].
  rewrite Forall_forall in *. intros y Hy. apply Hx.
  apply in_map_iff in Hy as (a & <- & Ha). apply filter_In in Ha as [Ha _]. apply in_map. exact Ha.
Qed.

(* which names get an NSEC3 *)
Definition included (apex : name) (z : list rec) (excl : bool) (n : name) : Prop :=
  auth_name apex z n /\ ~ (excl = true /\ deleg apex z n /\ ~ has_type z n rt_DS).
(* empty non-terminals: no records, strictly below the apex, above an included name *)
Definition ent3 (apex : name) (z : list rec) (excl : bool) (e : name) : Prop :=
  ~ owner_in z e /\ strictly_below e apex /\ exists o, included apex z excl o /\ strictly_below o e.

Section Zone3.
Variable H : bytes -> bytes.
Variable apex : name.
Variable c : n3cfg.
Variable z : list rec.
Hypothesis Hsorted : zone_sorted z.
Let excl := opt_out_flag c && c_excl c.
Let gs := groups (skip_before apex z).
Let v3 := visited3 apex excl gs None.
Let names3 := map gname v3.

Lemma v3_in gc : In gc v3 ->
  In (fst gc) gs /\ snd gc = is_zone_cut apex (fst gc) /\ is_in_zone apex (fst gc) = true /\
  In (fst gc, is_zone_cut apex (fst gc)) (select apex gs None) /\ incl3 excl gc = true.
Proof.
  unfold v3, visited3. intros Hin. apply filter_In in Hin as [Hin Hi]. destruct gc as [g b]. cbn [fst snd].
  destruct (select_in _ _ _ _ _ Hin) as (A & -> & C). repeat split; assumption.
Qed.

Lemma names3_sorted : StronglySorted name_lt names3.
Proof.
  assert (E : names3 = map fst (map fst v3)) by (unfold names3; rewrite map_map; reflexivity).
  rewrite E. unfold v3, visited3. apply (sorted_map_iff name_lt fst).
  apply sorted_map_filter. apply (select_sorted apex gs None). apply gs_sorted. exact Hsorted.
Qed.

Lemma names3_in_zone n : In n names3 -> ends_with n apex = true.
Proof.
  unfold names3. intros Hn. apply in_map_iff in Hn as (gc & <- & Hgc).
  destruct (v3_in gc Hgc) as (_ & _ & Hz & _). exact Hz.
Qed.

Lemma ds_iff g : In g gs -> is_in_zone apex g = true ->
  (memN rt_DS (snd g) = true <-> has_type z (fst g) rt_DS).
Proof. intros Hg Hz. rewrite memN_In. apply (group_types apex z Hsorted g Hg Hz). Qed.

Lemma cut_iff g : In g gs -> is_in_zone apex g = true ->
  (is_zone_cut apex g = true <-> deleg apex z (fst g)).
Proof.
  intros Hg Hz. rewrite <- (gcut_deleg apex z Hsorted g Hg). unfold gcut. intuition.
Qed.

Lemma incl_iff n : included apex z excl n <-> exists x, In x names3 /\ name_eqb x n = true.
Proof.
  split.
  - intros [Hauth Hopt]. pose proof Hauth as ((t & Ht) & Hz & Hno).
    destruct (group_of_name apex z Hsorted n t Ht Hz) as (g & Hg & Eg).
    assert (Eg' : name_eqb n (fst g) = true) by (rewrite name_eqb_sym; exact Eg).
    assert (Hzg : is_in_zone apex g = true) by (apply (in_zone_eq apex n (fst g) Eg' Hz)).
    assert (Hsel : In (g, is_zone_cut apex g) (select apex gs None)).
    { apply (select_auth apex z Hsorted g Hg). split; [exact Hzg|].
      intros Ho. apply Hno. apply (occluded_eq apex z (fst g) n Eg Ho). }
    exists (fst g). split; [|exact Eg].
    unfold names3. apply in_map_iff. exists (g, is_zone_cut apex g). split; [reflexivity|].
    unfold v3, visited3. apply filter_In. split; [exact Hsel|].
    unfold incl3. cbn [fst snd]. apply negb_true_iff.
    destruct excl eqn:Ex; [|reflexivity]. destruct (is_zone_cut apex g) eqn:Ec; [|reflexivity].
    destruct (memN rt_DS (snd g)) eqn:Ed; [reflexivity|]. exfalso. apply Hopt.
    split; [reflexivity|]. split.
    + apply (deleg_eq apex z (fst g) n Eg). apply (cut_iff g Hg Hzg). exact Ec.
    + intros Hds. apply (has_type_eq_name z n (fst g) rt_DS Eg') in Hds.
      apply (ds_iff g Hg Hzg) in Hds. congruence.
  - intros (x & Hx & Ex). unfold names3 in Hx. apply in_map_iff in Hx as (gc & <- & Hgc).
    destruct (v3_in gc Hgc) as (Hg & Hc & Hz & Hsel & Hi). unfold gname in *.
    apply (select_auth apex z Hsorted (fst gc) Hg) in Hsel as [Hz' Hno].
    pose proof (gs_ok apex z Hsorted) as A. rewrite Forall_forall in A. destruct (A (fst gc) Hg) as [[t0 Ht0] _].
    split.
    + apply (auth_eq apex z (fst (fst gc)) n Ex). split; [|split; assumption].
      exists t0, (fst (fst gc)). split; [|apply name_eqb_refl].
      destruct (skip_before_spec apex z) as (pre & E & _). rewrite E. apply in_or_app. right. exact Ht0.
    + intros (Hex & Hd & Hnds). unfold incl3 in Hi. apply negb_true_iff in Hi.
      rewrite Hex, Hc in Hi. cbn [andb] in Hi.
      assert (Ex' : name_eqb n (fst (fst gc)) = true) by (rewrite name_eqb_sym; exact Ex).
      assert (Ec : is_zone_cut apex (fst gc) = true).
      { apply (cut_iff (fst gc) Hg Hz). apply (deleg_eq apex z n _ Ex' Hd). }
      rewrite Ec in Hi. cbn [andb] in Hi. apply negb_false_iff in Hi.
      apply (ds_iff (fst gc) Hg Hz) in Hi. apply Hnds.
      apply (has_type_eq_name z (fst (fst gc)) n rt_DS Ex). exact Hi.
Qed.

Lemma ent_iff e : ent_spec apex names3 e <-> ent3 apex z excl e.
Proof.
  split.
  - intros ((o & Ho & Hso) & Hea & Hno).
    assert (Hio : included apex z excl o) by (apply incl_iff; exists o; split; [exact Ho|apply name_eqb_refl]).
    split; [|split; [exact Hea|exists o; split; assumption]].
    intros Howner. apply Hno. apply incl_iff. destruct Hio as [((to & Hto) & Hzo & Hnoo) _].
    split.
    + split; [exact Howner|]. split; [apply Hea|].
      intros (cn & Hd & Hs). apply Hnoo. exists cn. split; [exact Hd|eapply strictly_below_trans; eassumption].
    + intros (_ & Hd & _). apply Hnoo. exists e. split; assumption.
  - intros (Hnown & Hea & o & Hio & Hso). apply incl_iff in Hio as (x & Hx & Ex).
    split; [exists x; split; [exact Hx|]|split; [exact Hea|]].
    + apply (strictly_below_eq_l o x e); [rewrite name_eqb_sym; exact Ex|exact Hso].
    + intros (y & Hy & Ey). apply Hnown.
      assert (Hiy : included apex z excl e) by (apply incl_iff; exists y; split; assumption).
      destruct Hiy as [(Ho & _) _]. exact Ho.
Qed.

Variable out : list nsec3.
Hypothesis Hout : generate_nsec3s H apex c z = Ok out.

Theorem nsec3_sorted_closed :
  StronglySorted (fun a b => lex_cmp (h_owner a) (h_owner b) = Lt) out /\ out <> [] /\
  map h_next out = tl (map h_owner out) ++ [hd [] (map h_owner out)].
Proof.
  destruct (generate_nsec3s_unfold H apex c z out Hout) as (l & er & _ & _ & Hf).
  destruct (finish3_spec _ _ Hf) as (A & B & C & _). repeat split; assumption.
Qed.

Theorem nsec3_owners x :
  (exists r, In r out /\ h_owner r = x) <->
  (exists n, (included apex z excl n \/ ent3 apex z excl n) /\ x = hashn H c n).
Proof.
  destruct (generate_nsec3s_unfold H apex c z out Hout) as (l & er & Hl & Her & Hf).
  fold excl gs v3 names3 in Hl, Her.
  destruct (finish3_spec _ _ Hf) as (_ & _ & _ & F1 & F2).
  pose proof (ent_fold_spec apex names3 names3_sorted names3_in_zone) as Hent.
  split.
  - intros (r & Hr & <-). destruct (F2 r Hr) as (p & Hp & E1 & _).
    apply in_app_or in Hp as [Hp|Hp].
    + destruct (Forall2_in_r _ _ _ _ Hl Hp) as (gc & Hgc & Hn & Hh & _).
      exists (gname gc). split; [left|congruence].
      apply incl_iff. exists (gname gc). split; [apply in_map; exact Hgc|apply name_eqb_refl].
    + destruct (Forall2_in_r _ _ _ _ Her Hp) as (e & He & Hh & _).
      exists e. split; [right|congruence]. apply ent_iff. apply Hent.
      exists e. split; [exact He|apply name_eqb_refl].
  - intros (n & [Hi|He] & ->).
    + apply incl_iff in Hi as (x & Hx & Ex). unfold names3 in Hx. apply in_map_iff in Hx as (gc & <- & Hgc).
      destruct (Forall2_in_l _ _ _ _ Hl Hgc) as (p & Hp & _ & Hh & _).
      destruct (F1 p (in_or_app _ _ _ (or_introl Hp))) as (r & Hr & E1 & _).
      exists r. split; [exact Hr|]. rewrite E1, Hh. apply hashn_eq. exact Ex.
    + apply ent_iff in He. apply Hent in He as (e & He & Ee).
      destruct (Forall2_in_l _ _ _ _ Her He) as (p & Hp & Hh & _).
      destruct (F1 p (in_or_app _ _ _ (or_intror Hp))) as (r & Hr & E1 & _).
      exists r. split; [exact Hr|]. rewrite E1, Hh. apply hashn_eq. exact Ee.
Qed.

Hypothesis Htypes : types_ok z.

(* every record is the NSEC3 of an included name with exactly its types, or of
   an empty non-terminal with an empty bitmap *)
Theorem nsec3_bitmap_exact r : In r out ->
  exists n, h_owner r = hashn H c n /\
   ((included apex z excl n /\ forall t,
       exists b, bm_contains (h_types r) t = Ok b /\
         (b = true <->
          (t = 46 /\ (deleg apex z n -> has_type z n rt_DS)) \/
          (name_eqb n apex = true /\ (t = 51 \/ (c_dnskey c = true /\ t = 48))) \/
          (has_type z n t /\ (deleg apex z n -> t = 2 \/ t = 43))))
    \/ (ent3 apex z excl n /\ h_types r = [])).
Proof.
  intros Hr.
  destruct (generate_nsec3s_unfold H apex c z out Hout) as (l & er & Hl & Her & Hf).
  fold excl gs v3 names3 in Hl, Her.
  destruct (finish3_spec _ _ Hf) as (_ & _ & _ & _ & F2).
  pose proof (ent_fold_spec apex names3 names3_sorted names3_in_zone) as Hent.
  destruct (F2 r Hr) as (p & Hp & E1 & E2). apply in_app_or in Hp as [Hp|Hp].
  - destruct (Forall2_in_r _ _ _ _ Hl Hp) as (gc & Hgc & Hn & Hh & bm & ttl & ttl' & Hbm & Ht).
    destruct (v3_in gc Hgc) as (Hg & Hc & Hz & _ & _).
    exists (gname gc). split; [congruence|]. left. split.
    + apply incl_iff. exists (gname gc). split; [apply in_map; exact Hgc|apply name_eqb_refl].
    + intros t. rewrite E2, Ht. eexists. split.
      * apply (nsec3_bitmap_spec c _ _ _ _ _ _ _ Hbm). apply (group_types_bound apex z Hsorted Htypes _ Hg).
      * unfold n3_type_set, gname in *. rewrite Hc.
        assert (D : is_zone_cut apex (fst gc) = true <-> deleg apex z (fst (fst gc))) by (apply cut_iff; assumption).
        assert (S : memN rt_DS (snd (fst gc)) = true <-> has_type z (fst (fst gc)) rt_DS) by (apply ds_iff; assumption).
        assert (T : memN t (snd (fst gc)) = true <-> has_type z (fst (fst gc)) t).
        { rewrite memN_In. apply (group_types apex z Hsorted _ Hg Hz). }
        assert (M : memN t [2; 43] = true <-> t = 2 \/ t = 43) by (rewrite memN_In; cbn [In]; intuition).
        assert (A : (length (fst (fst gc)) - length apex =? 0)%nat = true <-> name_eqb (fst (fst gc)) apex = true).
        { rewrite Nat.eqb_eq. split.
          - intros L. apply ends_with_same_length; [exact Hz|]. pose proof (ends_with_length _ _ Hz). lia.
          - intros E. apply name_eqb_length in E. lia. }
        repeat first [rewrite orb_true_iff | rewrite andb_true_iff].
        rewrite !N.eqb_eq, negb_true_iff, T, M, A, S.
        destruct (is_zone_cut apex (fst gc)) eqn:Ec.
        -- assert (Hd : deleg apex z (fst (fst gc))) by (apply D; reflexivity). intuition congruence.
        -- assert (Hd : ~ deleg apex z (fst (fst gc))) by (intros X; apply D in X; congruence). intuition congruence.
  - destruct (Forall2_in_r _ _ _ _ Her Hp) as (e & He & Hh & Ht).
    exists e. split; [congruence|]. right. split; [|congruence].
    apply ent_iff. apply Hent. exists e. split; [exact He|apply name_eqb_refl].
Qed.

End Zone3.
