(* C13 proofs, part 19: every type bitmap the generators emit -- built from
   RtypeBitmap::builder()'s empty state -- has the RFC 4034 wire layout and is
   accepted by RtypeBitmap::from_octets; the NSEC3 of an empty non-terminal
   carries the empty bitmap. *)
From Coq Require Import NArith ZArith Arith List Bool Lia Sorted.
From DV Require Import Base.Outcome Base.Bytes Base.Lex Base.Names C13.Gen C13.Model
  C13.ProofsNames C13.ProofsBitmap C13.ProofsGroups C13.ProofsNsec C13.ProofsNsec2
  C13.ProofsN3a C13.ProofsN3b C13.ProofsN3c C13.ProofsN3d.
Import ListNotations.
Local Open Scope N_scope.

Lemma wire_ok_reparses w : bm_wire_ok None w -> bm_from_octets w = Ok tt.
Proof. intros H. unfold bm_from_octets. eapply bm_check_wire_ok; [exact H|lia]. Qed.

Lemma builder_empty : bm_finalize [] = [] /\ bm_wire_ok None [] /\ bm_from_octets [] = Ok tt /\ bs_inv [].
Proof. repeat split; try constructor. Qed.

Lemma nsec_visit_wire apex dk at_cut g ttl bm ttl' :
  nsec_visit apex dk at_cut g ttl = Ok (bm, ttl') -> Forall (fun t => t < 65536) (snd g) -> bm_wire_ok None bm.
Proof.
  unfold nsec_visit. intros H Hb.
  apply bind_ok in H as ([bm1 ttl1] & Hr & H). destruct ttl1; [|discriminate]. injection H as <- <-.
  cbv [nsec_fixed_a nsec_apex_cfg nsec_fixed_b] in Hr.
  assert (I0 : bs_inv (bm_add [] 46)) by (apply bm_add_inv; [apply bs_inv_nil|reflexivity]).
  assert (I1 : bs_inv (if dk && name_eqb (fst g) apex then bm_add (bm_add [] 46) 48 else bm_add [] 46))
    by (destruct (dk && name_eqb (fst g) apex); [apply bm_add_inv; [exact I0|reflexivity]|exact I0]).
  assert (I2 : bs_inv (bm_add (if dk && name_eqb (fst g) apex then bm_add (bm_add [] 46) 48 else bm_add [] 46) 47))
    by (apply bm_add_inv; [exact I1|reflexivity]).
  destruct (rrset_loop_spec _ _ _ _ _ _ _ Hr I2 (rrsets_bound _ Hb)) as (A & _).
  apply finalize_wire_ok; [exact A|exact I].
Qed.

Theorem nsec_types_reparse apex z dk out : zone_sorted z -> types_ok z -> generate_nsecs apex dk z = Ok out ->
  forall r, In r out -> bm_wire_ok None (n_types r) /\ bm_from_octets (n_types r) = Ok tt.
Proof.
  intros Hs Ht Ho r Hr. destruct (out_record apex z dk out Ho r Hr) as (g & ttl & ttl' & _ & Hg & _ & _ & Hv).
  assert (W : bm_wire_ok None (n_types r)).
  { eapply nsec_visit_wire; [exact Hv|]. apply (group_types_bound apex z Hs Ht g Hg). }
  split; [exact W|apply wire_ok_reparses; exact W].
Qed.

Lemma nsec3_bitmap_inv c at_cut has_ds at_apex ts ttl bm ttl' :
  nsec3_bitmap c at_cut has_ds at_apex ts ttl = Ok (bm, ttl') -> Forall (fun t => t < 65536) ts -> bs_inv bm.
Proof.
  unfold nsec3_bitmap. intros E Hb.
  apply bind_ok in E as ([bm1 ttl1] & Hr & E). destruct ttl1; [|discriminate]. injection E as <- <-.
  cbv [nsec3_auth_type nsec3_apex_always nsec3_apex_cfg] in *.
  assert (I0 : bs_inv (if negb at_cut || has_ds then bm_add [] 46 else []))
    by (destruct (negb at_cut || has_ds); [apply bm_add_inv; [apply bs_inv_nil|reflexivity]|apply bs_inv_nil]).
  destruct (rrset_loop_spec _ _ _ _ _ _ _ Hr I0 (rrsets_bound _ Hb)) as (A & _).
  destruct at_apex; [|exact A]. destruct (c_dnskey c).
  - apply bm_add_inv; [apply bm_add_inv; [exact A|reflexivity]|reflexivity].
  - apply bm_add_inv; [exact A|reflexivity].
Qed.

Theorem nsec3_types_reparse H apex c z out : zone_sorted z -> types_ok z -> generate_nsec3s H apex c z = Ok out ->
  forall r, In r out -> bm_wire_ok None (h_types r) /\ bm_from_octets (h_types r) = Ok tt.
Proof.
  intros Hs Ht Ho r Hr.
  destruct (generate_nsec3s_unfold H apex c z out Ho) as (l & er & Hl & Her & Hf).
  destruct (finish3_spec _ _ Hf) as (_ & _ & _ & _ & F2).
  destruct (F2 r Hr) as (p & Hp & _ & E2).
  assert (W : bm_wire_ok None (h_types r)).
  { rewrite E2. apply in_app_or in Hp as [Hp|Hp].
    - destruct (Forall2_in_r _ _ _ _ Hl Hp) as (gc & Hgc & _ & _ & bm & ttl & ttl' & Hbm & Et).
      rewrite Et. apply finalize_wire_ok; [|exact I]. eapply nsec3_bitmap_inv; [exact Hbm|].
      destruct (v3_in apex c z gc Hgc) as (Hg & _). apply (group_types_bound apex z Hs Ht _ Hg).
    - destruct (Forall2_in_r _ _ _ _ Her Hp) as (e & _ & _ & Et). rewrite Et. constructor. }
  split; [exact W|apply wire_ok_reparses; exact W].
Qed.

Theorem generated_bitmaps_reparse H apex c dk z : zone_sorted z -> types_ok z ->
  (forall out, generate_nsecs apex dk z = Ok out -> forall r, In r out ->
     bm_wire_ok None (n_types r) /\ bm_from_octets (n_types r) = Ok tt) /\
  (forall out, generate_nsec3s H apex c z = Ok out -> forall r, In r out ->
     bm_wire_ok None (h_types r) /\ bm_from_octets (h_types r) = Ok tt) /\
  bm_finalize [] = [].
Proof.
  intros Hs Ht. split; [|split; [|reflexivity]].
  - intros out Ho. exact (nsec_types_reparse apex z dk out Hs Ht Ho).
  - intros out Ho. exact (nsec3_types_reparse H apex c z out Hs Ht Ho).
Qed.
