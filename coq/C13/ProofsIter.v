(* C13 proofs, part 16: RtypeBitmapIter over a finalized bitmap yields exactly
   the types that were added, in ascending order. *)
From Coq Require Import NArith ZArith Arith List Bool Lia Sorted.
From Coq Require Import ZifyN ZifyBool ZifyNat.
From DV Require Import Base.Outcome Base.Bytes Base.Lex Base.Names C13.Gen C13.Model C13.ProofsBitmap.
Import ListNotations.
Local Open Scope N_scope.
Ltac Zify.zify_post_hook ::= Z.div_mod_to_equations.

(* ---- all positions of a bitmap, in order *)
Definition bitset (win : list N) (k : nat) : bool :=
  negb (N.land (nth (k / 8) win 0) (N.shiftr 128 (N.of_nat (k mod 8))) =? 0).
Definition blk_len (b : block) : nat := N.to_nat (fst (snd b)).
Definition blk_win (b : block) : list N := firstn (blk_len b) (snd (snd b)).
Definition pos_at (b : block) (k : nat) : N * bool := (fst b * 256 + N.of_nat k, bitset (blk_win b) k).
Definition pos_list (b : block) : list (N * bool) := map (pos_at b) (seq 0 (8 * blk_len b)).
Definition all_pos (bs : list block) : list (N * bool) := flat_map pos_list bs.

Definition st (b : block) (k : nat) (rest : list block) : bmit :=
  mk_bmit (blk_win b ++ bm_finalize rest) (N.shiftl (fst b) 8) (blk_len b) (k / 8) (N.of_nat (k mod 8)).

Definition wfb (b : block) : Prop := blk_wf b /\ blk_ne b.

Lemma wfb_facts b : wfb b -> (1 <= blk_len b <= 32)%nat /\ length (blk_win b) = blk_len b /\ fst b < 256.
Proof.
  destruct b as [w [len data]]. intros [(Hw & Hl & Hlen & _) Hne]. unfold blk_ne in Hne.
  unfold blk_len, blk_win. cbn [fst snd] in *. repeat split; try lia.
  rewrite firstn_length. unfold blk_len. cbn [fst snd]. lia.
Qed.

Lemma finalize_cons b rest : bm_finalize (b :: rest) = fst b :: fst (snd b) :: blk_win b ++ bm_finalize rest.
Proof. unfold bm_finalize. cbn [flat_map]. rewrite block_wire_eq. reflexivity. Qed.

Lemma skipn_map_seq {A} (f : nat -> A) : forall n k s, (k < n)%nat ->
  skipn k (map f (seq s n)) = f (s + k)%nat :: skipn (S k) (map f (seq s n)).
Proof.
  induction n as [|n IH]; intros k s Hk; [lia|]. cbn [seq map]. destruct k as [|k].
  - cbn [skipn]. rewrite Nat.add_0_r. reflexivity.
  - cbn [skipn]. rewrite (IH k (S s)) by lia. replace (S s + k)%nat with (s + S k)%nat by lia. reflexivity.
Qed.

Lemma pos_list_length b : length (pos_list b) = (8 * blk_len b)%nat.
Proof. unfold pos_list. rewrite map_length, seq_length. reflexivity. Qed.

Lemma skipn_pos b k : (k < 8 * blk_len b)%nat -> skipn k (pos_list b) = pos_at b k :: skipn (S k) (pos_list b).
Proof. intros H. unfold pos_list. rewrite (skipn_map_seq _ _ k 0 H). reflexivity. Qed.

(* ---- the representation of an iterator state by a suffix of the positions *)
Inductive Rep : bmit -> list (N * bool) -> Prop :=
| rep_nil s : i_data s = [] -> Rep s []
| rep_pos b k rest : wfb b -> Forall wfb rest -> (k < 8 * blk_len b)%nat ->
    Rep (st b k rest) (skipn k (pos_list b) ++ all_pos rest).

Lemma rep_cons_inv s p q : Rep s (p :: q) ->
  exists b k rest, wfb b /\ Forall wfb rest /\ (k < 8 * blk_len b)%nat /\ s = st b k rest /\
    p = pos_at b k /\ q = skipn (S k) (pos_list b) ++ all_pos rest.
Proof.
  intros H. remember (p :: q) as pq eqn:E. destruct H as [s Hd|b k rest Hb Hr Hk]; [discriminate|].
  rewrite skipn_pos in E by exact Hk. cbn [app] in E. injection E as E1 E2. subst p q.
  exists b, k, rest. split; [exact Hb|]. split; [exact Hr|]. split; [exact Hk|]. repeat split.
Qed.

Lemma rep_start b rest : wfb b -> Forall wfb rest -> Rep (st b 0 rest) (all_pos (b :: rest)).
Proof.
  intros Hb Hr. unfold all_pos. cbn [flat_map]. change (pos_list b) with (skipn 0 (pos_list b)) at 1.
  apply rep_pos; [exact Hb|exact Hr|]. destruct (wfb_facts b Hb) as [? _]. lia.
Qed.

Lemma step_sim s p q : Rep s (p :: q) -> exists s1, it_step s = Ok s1 /\ Rep s1 q.
Proof.
  intros H. destruct (rep_cons_inv _ _ _ H) as (b & k & rest & Hb & Hr & Hk & -> & _ & ->).
  destruct (wfb_facts b Hb) as (Hlen & Hwl & _).
  unfold it_step, st. cbn [i_bit i_octet i_len i_data i_block].
  destruct (N.eqb_spec (N.of_nat (k mod 8) + 1) 8) as [E8|E8].
  - destruct (Nat.eqb_spec (S (k / 8)) (blk_len b)) as [El|El].
    + (* end of the window *)
      assert (Hend : S k = (8 * blk_len b)%nat) by lia.
      rewrite app_length, Hwl.
      destruct (Nat.ltb_spec (blk_len b + length (bm_finalize rest)) (blk_len b)); [lia|].
      assert (Sk : skipn (blk_len b) (blk_win b ++ bm_finalize rest) = bm_finalize rest)
        by (rewrite <- Hwl; apply (drop_app_length (blk_win b) (bm_finalize rest))).
      rewrite Sk.
      rewrite skipn_all2 by (rewrite pos_list_length; lia). cbn [app].
      destruct rest as [|b' rest'].
      * cbn. eexists. split; [reflexivity|]. apply rep_nil. reflexivity.
      * rewrite finalize_cons. inversion Hr as [|? ? Hb' Hr']; subst.
        eexists. split; [reflexivity|]. apply (rep_start b' rest' Hb' Hr').
    + eexists. split; [reflexivity|].
      replace (mk_bmit (blk_win b ++ bm_finalize rest) (N.shiftl (fst b) 8) (blk_len b) (S (k / 8)) 0)
        with (st b (S k) rest).
      * apply rep_pos; [exact Hb|exact Hr|lia].
      * unfold st. f_equal; [|f_equal]; lia.
  - eexists. split; [reflexivity|].
    replace (mk_bmit (blk_win b ++ bm_finalize rest) (N.shiftl (fst b) 8) (blk_len b) (k / 8) (N.of_nat (k mod 8) + 1))
      with (st b (S k) rest).
    + apply rep_pos; [exact Hb|exact Hr|lia].
    + unfold st. f_equal; [|f_equal]; lia.
Qed.

Lemma lor_type_all :
  forallb (fun w => forallb (fun k => N.lor (N.lor (N.shiftl w 8) (N.shiftl (N.of_nat (k / 8)) 3)) (N.of_nat (k mod 8))
                                      =? w * 256 + N.of_nat k) (seq 0 256))
          (map N.of_nat (seq 0 256)) = true.
Proof. vm_compute. reflexivity. Qed.

Lemma lor_type w k : w < 256 -> (k < 256)%nat ->
  N.lor (N.lor (N.shiftl w 8) (N.shiftl (N.of_nat (k / 8)) 3)) (N.of_nat (k mod 8)) = w * 256 + N.of_nat k.
Proof.
  intros Hw Hk. pose proof lor_type_all as A. rewrite forallb_forall in A.
  specialize (A w (in_bytes_range w Hw)). rewrite forallb_forall in A.
  specialize (A k ltac:(apply in_seq; lia)). apply N.eqb_eq. exact A.
Qed.

Definition it_type (s : bmit) : N :=
  N.lor (N.lor (i_block s) (N.shiftl (N.of_nat (i_octet s)) 3)) (i_bit s).

Lemma bit_sim s p q : Rep s (p :: q) -> i_data s <> [] /\ it_bit_set s = Ok (snd p) /\ it_type s = fst p.
Proof.
  intros H. destruct (rep_cons_inv _ _ _ H) as (b & k & rest & Hb & Hr & Hk & -> & -> & _).
  destruct (wfb_facts b Hb) as (Hlen & Hwl & Hw).
  unfold st, it_bit_set, it_type, pos_at. cbn [i_data i_octet i_bit i_block fst snd].
  split; [|split].
  - destruct (blk_win b) as [|x l]; [cbn in Hwl; lia|discriminate].
  - assert (Ho : (k / 8 < length (blk_win b))%nat) by lia.
    rewrite nth_error_app1 by exact Ho. rewrite (nth_error_nth' _ 0 Ho). reflexivity.
  - apply lor_type; [exact Hw|lia].
Qed.

Fixpoint dropnot (q : list (N * bool)) : list (N * bool) :=
  match q with [] => [] | p :: r => if snd p then q else dropnot r end.

Lemma dropnot_filter q : filter snd (dropnot q) = filter snd q.
Proof. induction q as [|p r IH]; [reflexivity|]. cbn [dropnot filter]. destruct (snd p) eqn:E; [cbn [filter]; rewrite E; reflexivity|exact IH]. Qed.
Lemma dropnot_length q : (length (dropnot q) <= length q)%nat.
Proof. induction q as [|p r IH]; cbn [dropnot length]; [lia|]. destruct (snd p); cbn [length]; lia. Qed.
Lemma dropnot_head q : match dropnot q with [] => True | p :: _ => snd p = true end.
Proof. induction q as [|p r IH]; cbn [dropnot]; [exact I|]. destruct (snd p) eqn:E; [exact E|exact IH]. Qed.

Lemma advance_sim : forall q s p fuel, Rep s (p :: q) -> (length q < fuel)%nat ->
  exists s', it_advance fuel s = Ok s' /\ Rep s' (dropnot q).
Proof.
  induction q as [|p' q' IH]; intros s p fuel HR Hf; (destruct fuel as [|fuel]; [lia|]); cbn [it_advance];
    destruct (step_sim _ _ _ HR) as (s1 & E1 & R1); rewrite E1; cbn [bind].
  - inversion R1 as [? Hd|]; subst.
    + rewrite Hd. exists s1. split; [reflexivity|exact R1].
    + exfalso. destruct (skipn k (pos_list b)) eqn:F; [|discriminate].
      assert (L : length (skipn k (pos_list b)) = (8 * blk_len b - k)%nat) by (rewrite skipn_length, pos_list_length; reflexivity).
      rewrite F in L. cbn in L. lia.
  - destruct (bit_sim _ _ _ R1) as (Hne & Hb & _).
    destruct (i_data s1) eqn:Ed; [congruence|]. rewrite Hb. cbn [bind dropnot].
    destruct (snd p'); [exists s1; split; [reflexivity|exact R1]|].
    apply (IH s1 p' fuel R1). cbn [length] in Hf. lia.
Qed.

Lemma collect_sim : forall fuel suf s adv, Rep s suf ->
  (match suf with [] => True | p :: _ => snd p = true end) ->
  (length suf < fuel)%nat -> (length suf <= adv)%nat ->
  it_collect fuel adv s = Ok (map fst (filter snd suf)).
Proof.
  induction fuel as [|fuel IH]; intros suf s adv HR Hh Hf Ha; [lia|]. cbn [it_collect].
  destruct suf as [|p q].
  - inversion HR as [? Hd|]; subst.
    + rewrite Hd. reflexivity.
    + exfalso. destruct (skipn k (pos_list b)) eqn:F; [|discriminate].
      assert (L : length (skipn k (pos_list b)) = (8 * blk_len b - k)%nat) by (rewrite skipn_length, pos_list_length; reflexivity).
      rewrite F in L. cbn in L. lia.
  - destruct (bit_sim _ _ _ HR) as (Hne & _ & Ht).
    destruct (i_data s) eqn:Ed; [congruence|].
    cbn [length] in Hf, Ha.
    destruct (advance_sim q s p adv HR ltac:(lia)) as (s' & Ea & Ra). rewrite Ea. cbn [bind].
    rewrite (IH (dropnot q) s' adv Ra (dropnot_head q)); [|pose proof (dropnot_length q); lia|pose proof (dropnot_length q); lia].
    cbn [bind filter]. rewrite Hh. cbn [map]. rewrite dropnot_filter. unfold it_type in Ht. rewrite Ht. reflexivity.
Qed.

Lemma all_pos_length bs : Forall wfb bs -> (length (all_pos bs) <= 8 * length (bm_finalize bs))%nat.
Proof.
  induction 1 as [|b r Hb Hr IH]; [cbn; lia|].
  unfold all_pos in *. cbn [flat_map]. rewrite app_length, pos_list_length, finalize_cons.
  cbn [length]. rewrite app_length. destruct (wfb_facts b Hb) as (_ & Hwl & _). lia.
Qed.

Theorem bm_iter_positions bs : bs_inv bs ->
  bm_iter (bm_finalize bs) = Ok (map fst (filter snd (all_pos bs))).
Proof.
  intros [Hall _]. assert (Hw : Forall wfb bs) by exact Hall.
  pose proof (all_pos_length bs Hw) as HL.
  unfold bm_iter. destruct bs as [|b rest].
  - cbn. reflexivity.
  - inversion Hw as [|? ? Hb Hr]; subst. destruct (wfb_facts b Hb) as (Hlen & Hwl & _).
    rewrite finalize_cons in *. cbn [it_new].
    destruct (blk_win b ++ bm_finalize rest) as [|b0 tl0] eqn:Ed.
    { exfalso. destruct (blk_win b); [cbn in Hwl; lia|discriminate]. }
    rewrite <- Ed in HL |- *.
    assert (R0 : Rep (st b 0 rest) (all_pos (b :: rest))) by (apply rep_start; assumption).
    assert (Est : mk_bmit (blk_win b ++ bm_finalize rest) (N.shiftl (fst b) 8) (N.to_nat (fst (snd b))) 0 0 = st b 0 rest) by reflexivity.
    rewrite Est.
    assert (Hhd : all_pos (b :: rest) = pos_at b 0 :: skipn 1 (pos_list b) ++ all_pos rest).
    { unfold all_pos. cbn [flat_map]. change (pos_list b) with (skipn 0 (pos_list b)) at 1.
      rewrite skipn_pos by lia. reflexivity. }
    assert (Hb0 : snd (pos_at b 0) = negb (N.land b0 bm_top_bit =? 0)).
    { unfold pos_at, bitset. cbn [snd]. cbv [bm_top_bit]. change (0 / 8)%nat with 0%nat. change (0 mod 8)%nat with 0%nat.
      change (N.shiftr 128 (N.of_nat 0)) with 128.
      destruct (blk_win b) as [|x l] eqn:Ew; [cbn in Hwl; lia|]. cbn [app] in Ed. injection Ed as -> _. reflexivity. }
    set (n := (8 * length (fst b :: fst (snd b) :: blk_win b ++ bm_finalize rest))%nat) in *.
    rewrite Hhd in R0, HL.
    destruct (N.land b0 bm_top_bit =? 0) eqn:E0.
    + cbn [negb] in Hb0.
      destruct (advance_sim _ _ _ n R0) as (s' & Ea & Ra); [cbn [length] in HL; lia|].
      rewrite Ea. cbn [bind].
      rewrite (collect_sim (S n) _ s' n Ra (dropnot_head _)).
      * rewrite dropnot_filter, Hhd. cbn [filter]. rewrite Hb0. reflexivity.
      * pose proof (dropnot_length (skipn 1 (pos_list b) ++ all_pos rest)). cbn [length] in HL. lia.
      * pose proof (dropnot_length (skipn 1 (pos_list b) ++ all_pos rest)). cbn [length] in HL. lia.
    + cbn [negb] in Hb0. cbn [bind].
      rewrite (collect_sim (S n) _ _ n R0); [rewrite Hhd; reflexivity|exact Hb0|lia|lia].
Qed.

(* ---- the positions against the set of types *)
Lemma bitset_testbit win k : bitset win k = N.testbit (nth (k / 8) win 0) (7 - N.of_nat (k mod 8)).
Proof.
  unfold bitset. rewrite N.shiftr_div_pow2, shr128 by lia. rewrite land_pow2_testbit, negb_involutive. reflexivity.
Qed.

Lemma pos_has b k : wfb b -> (k < 8 * blk_len b)%nat ->
  snd (pos_at b k) = N.testbit (nth (toct (fst (pos_at b k))) (snd (snd b)) 0) (tbit (fst (pos_at b k))) /\
  twin (fst (pos_at b k)) = fst b.
Proof.
  intros Hb Hk. destruct (wfb_facts b Hb) as (Hlen & Hwl & Hw).
  unfold pos_at. cbn [fst snd]. rewrite bitset_testbit.
  assert (Hk' : (k < 256)%nat) by lia.
  assert (T1 : twin (fst b * 256 + N.of_nat k) = fst b) by (unfold twin; lia).
  assert (T2 : toct (fst b * 256 + N.of_nat k) = (k / 8)%nat) by (unfold toct; lia).
  assert (T3 : tbit (fst b * 256 + N.of_nat k) = 7 - N.of_nat (k mod 8)) by (unfold tbit; lia).
  rewrite T1, T2, T3. split; [|reflexivity]. f_equal.
  unfold blk_win. rewrite <- (firstn_skipn (blk_len b) (snd (snd b))) at 2.
  rewrite app_nth1 by (fold (blk_win b); lia). reflexivity.
Qed.

Lemma in_all_pos bs p : In p (all_pos bs) <-> exists b k, In b bs /\ (k < 8 * blk_len b)%nat /\ p = pos_at b k.
Proof.
  unfold all_pos. rewrite in_flat_map. split.
  - intros (b & Hb & Hp). unfold pos_list in Hp. apply in_map_iff in Hp as (k & <- & Hk). apply in_seq in Hk.
    exists b, k. repeat split; [exact Hb|lia].
  - intros (b & k & Hb & Hk & ->). exists b. split; [exact Hb|]. unfold pos_list. apply in_map. apply in_seq. lia.
Qed.

Lemma bs_has_in bs w o j : StronglySorted (fun a b => fst a < fst b) bs ->
  (bs_has bs w o j = true <-> exists b, In b bs /\ fst b = w /\ N.testbit (nth o (snd (snd b)) 0) j = true).
Proof.
  induction 1 as [|b r Hs IH Hb]; cbn [bs_has]; [split; [discriminate|intros (b & [] & _)]|].
  destruct (N.eqb_spec (fst b) w) as [E|E].
  - split; [intros H; exists b; repeat split; [left; reflexivity|exact E|exact H]|].
    intros (b' & [<-|Hin] & E' & H'); [exact H'|]. rewrite Forall_forall in Hb. specialize (Hb b' Hin). lia.
  - rewrite IH. split; intros (b' & Hin & E' & H').
    + exists b'. repeat split; [right; exact Hin|exact E'|exact H'].
    + destruct Hin as [<-|Hin]; [congruence|]. exists b'. repeat split; assumption.
Qed.

Theorem all_pos_types bs t : bs_inv bs -> t < 65536 ->
  (In t (map fst (filter snd (all_pos bs))) <-> bs_has_type bs t = true).
Proof.
  intros [Hall Hs] Ht. unfold bs_has_type. rewrite (bs_has_in bs _ _ _ Hs). rewrite in_map_iff. split.
  - intros ([t' s] & Et & Hin). cbn [fst] in Et. subst t'. apply filter_In in Hin as [Hin Hset]. cbn [snd] in Hset. subst s.
    apply in_all_pos in Hin as (b & k & Hb & Hk & E). rewrite Forall_forall in Hall.
    destruct (pos_has b k (Hall b Hb) Hk) as [P1 P2]. rewrite <- E in P1, P2. cbn [fst snd] in P1, P2.
    exists b. repeat split; [exact Hb|symmetry; exact P2|symmetry; exact P1].
  - intros (b & Hb & Ew & Hbit). rewrite Forall_forall in Hall. pose proof (Hall b Hb) as Hwf.
    destruct (wfb_facts b Hwf) as (Hlen & Hwl & Hw).
    set (k := N.to_nat (t mod 256)).
    assert (Ho : (toct t < blk_len b)%nat).
    { destruct (Nat.lt_ge_cases (toct t) (blk_len b)) as [L|L]; [exact L|exfalso].
      destruct b as [w [len data]]. destruct Hwf as [(_ & _ & _ & _ & Hz & _) _]. unfold blk_len in L. cbn [fst snd] in *.
      rewrite (Hz (toct t) L), N.bits_0 in Hbit. discriminate. }
    assert (Hk : (k < 8 * blk_len b)%nat) by (unfold k, toct in *; lia).
    assert (Et : fst (pos_at b k) = t) by (unfold pos_at, twin, k in *; cbn [fst]; lia).
    exists (pos_at b k). split; [exact Et|]. apply filter_In. split; [apply in_all_pos; exists b, k; repeat split; assumption|].
    destruct (pos_has b k Hwf Hk) as [P1 _]. rewrite Et in P1. rewrite P1. exact Hbit.
Qed.

Lemma all_pos_sorted bs : bs_inv bs -> StronglySorted N.lt (map fst (all_pos bs)).
Proof.
  intros [Hall Hs]. induction Hs as [|b r Hs IH Hb]; [constructor|].
  inversion Hall as [|? ? Hwf Hall']; subst. specialize (IH Hall').
  destruct (wfb_facts b Hwf) as (Hlen & _ & _).
  unfold all_pos in *. cbn [flat_map]. rewrite map_app.
  assert (Hlow : forall x, In x (map fst (flat_map pos_list r)) -> (fst b + 1) * 256 <= x).
  { intros x Hx. apply in_map_iff in Hx as (p & <- & Hp). apply (in_all_pos r p) in Hp as (b' & k & Hb' & _ & ->).
    rewrite Forall_forall in Hb. specialize (Hb b' Hb'). unfold pos_at. cbn [fst]. lia. }
  unfold pos_list. rewrite map_map. cbn [pos_at fst].
  assert (G : forall n s, (s + n <= 256)%nat ->
            StronglySorted N.lt (map (fun k => fst b * 256 + N.of_nat k) (seq s n) ++ map fst (flat_map pos_list r))).
  { induction n as [|n IHn]; intros s Hsn; cbn [seq map app]; [exact IH|].
    constructor; [apply IHn; lia|]. apply Forall_forall. intros x Hx. apply in_app_or in Hx as [Hx|Hx].
    - apply in_map_iff in Hx as (k & <- & Hk). apply in_seq in Hk. lia.
    - specialize (Hlow x Hx). lia. }
  apply G. lia.
Qed.

Lemma sorted_filter_map (l : list (N * bool)) : StronglySorted N.lt (map fst l) ->
  StronglySorted N.lt (map fst (filter snd l)).
Proof.
  induction l as [|p l IH]; cbn [map filter]; intros Hs; [constructor|].
  apply StronglySorted_inv in Hs as [Hs Hp]. destruct (snd p); [|apply IH; exact Hs].
  cbn [map]. constructor; [apply IH; exact Hs|]. rewrite Forall_forall in *. intros x Hx. apply Hp.
  apply in_map_iff in Hx as (q & <- & Hq). apply filter_In in Hq as [Hq _]. apply in_map. exact Hq.
Qed.

Theorem bitmap_iter_exact ts : Forall (fun x => x < 65536) ts ->
  exists l, bm_iter (bm_finalize (bm_adds [] ts)) = Ok l /\ StronglySorted N.lt l /\
    forall t, t < 65536 -> (In t l <-> In t ts).
Proof.
  intros Hts. assert (Hinv : bs_inv (bm_adds [] ts)) by (apply bm_adds_inv; [apply bs_inv_nil|exact Hts]).
  eexists. split; [apply bm_iter_positions; exact Hinv|]. split.
  - apply sorted_filter_map. apply all_pos_sorted. exact Hinv.
  - intros t Ht. rewrite (all_pos_types _ t Hinv Ht). rewrite bm_adds_has by (auto using bs_inv_nil).
    rewrite bs_has_type_nil. cbn [orb]. apply existsb_eqb_In.
Qed.

Example bitmap_iter_example : c13_bm_iter [46; 47; 1; 257; 65535; 0; 255; 256] = Ok [0; 1; 46; 47; 255; 256; 257; 65535].
Proof. vm_compute. reflexivity. Qed.
