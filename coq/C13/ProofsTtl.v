(* C13 proofs, part 14: the generators over records with class and TTL --
   erasure to the plain model, the TTL/class rule, and Rrset::new's expect. *)
From Coq Require Import NArith ZArith Arith List Bool Lia Sorted.
From DV Require Import Base.Outcome Base.Bytes Base.Lex Base.Names C13.Gen C13.Model
  C13.ProofsNames C13.ProofsGroups C13.ProofsNsec C13.ProofsNsec2 C13.ProofsDeny.
Import ListNotations.
Local Open Scope N_scope.

Definition omap {A B} (f : A -> B) (o : outcome A) : outcome B :=
  match o with Ok a => Ok (f a) | Err e => Err e | Panic s => Panic s | OutOfFuel => OutOfFuel end.

(* ---- erasure of the record plumbing *)
Lemma tskip_erase apex l : map trec_strip (tskip_before apex l) = skip_before apex (map trec_strip l).
Proof.
  induction l as [|r l IH]; [reflexivity|]. cbn [tskip_before map skip_before]. unfold trec_strip at 2.
  destruct (name_eqb apex (t_name r) || ends_with (t_name r) apex); [reflexivity|exact IH].
Qed.

Lemma tgroups_from_erase l : forall first,
  groups_from first (map trec_strip l) =
  (map t_type (fst (tgroups_from first l)), map tgroup_strip (snd (tgroups_from first l))).
Proof.
  induction l as [|r l IH]; intros first; [reflexivity|].
  cbn [map tgroups_from groups_from]. unfold trec_strip at 1.
  destruct (name_eqb (t_name r) first).
  - rewrite IH. destruct (tgroups_from first l) as [ts gs]. reflexivity.
  - rewrite IH. destruct (tgroups_from (t_name r) l) as [ts gs]. reflexivity.
Qed.

Lemma tgroups_erase l : map tgroup_strip (tgroups l) = groups (map trec_strip l).
Proof.
  destruct l as [|r l]; [reflexivity|]. cbn [tgroups map groups]. unfold trec_strip at 1.
  rewrite tgroups_from_erase. destruct (tgroups_from (t_name r) l) as [ts gs]. reflexivity.
Qed.

Definition run_erase (run : list trec) : N * nat :=
  (match run with f :: _ => t_type f | [] => 0 end, length run).

Lemma truns_erase l : map run_erase (truns l) = rrsets (map t_type l) /\ Forall (fun run => run <> []) (truns l).
Proof.
  induction l as [|r l [IH1 IH2]]; [split; [reflexivity|constructor]|].
  cbn [truns map rrsets]. rewrite <- IH1.
  destruct (truns l) as [|[|r' run] rest]; cbn [map run_erase].
  - split; [reflexivity|repeat constructor; discriminate].
  - exfalso. inversion IH2 as [|? ? X]; subst. congruence.
  - unfold run_erase at 1. cbn [length].
    destruct (t_type r' =? t_type r); (split; [reflexivity|]); inversion IH2; subst;
      repeat constructor; try discriminate; assumption.
Qed.

Definition st_erase {S} (r : list block * option S) : list block * bool := (fst r, is_some (snd r)).

Lemma trrset_loop_erase {S} (upd : trec -> S) at_cut cts : forall runs bm st,
  Forall (fun run => run <> []) runs ->
  trrset_loop upd at_cut cts runs bm st = Panic 7 \/
  omap st_erase (trrset_loop upd at_cut cts runs bm st) =
    rrset_loop at_cut cts (map run_erase runs) bm (is_some st).
Proof.
  induction runs as [|run runs IH]; intros bm st Hne; [right; reflexivity|].
  inversion Hne as [|? ? Hr Hne']; subst. destruct run as [|f run]; [congruence|].
  cbn [trrset_loop map run_erase rrset_loop].
  destruct (ttl_check f (f :: run)); [left; reflexivity|].
  destruct (t_type f =? rt_SOA).
  - destruct (soa_max_len <? length (f :: run))%nat; [right; reflexivity|].
    apply (IH _ (Some (upd f)) Hne').
  - apply IH. exact Hne'.
Qed.

Lemma tnsec_visit_erase apex dk at_cut g st :
  tnsec_visit apex dk at_cut g st = Panic 7 \/
  omap (fun r => (fst r, is_some (snd r))) (tnsec_visit apex dk at_cut g st) =
    nsec_visit apex dk at_cut (tgroup_strip g) (is_some st).
Proof.
  unfold tnsec_visit, nsec_visit. cbn [tgroup_strip fst snd].
  destruct (truns_erase (snd g)) as [E1 E2]. rewrite <- E1.
  match goal with |- context [trrset_loop ?u ?a ?b ?r ?bm ?s] =>
    destruct (trrset_loop_erase u a b r bm s E2) as [P|E] end.
  - left. rewrite P. reflexivity.
  - rewrite <- E. right.
    match goal with |- context [trrset_loop ?u ?a ?b ?r ?bm ?s] => destruct (trrset_loop u a b r bm s) as [[bm' st']| | |] end;
      cbn [omap bind st_erase fst snd]; try reflexivity.
    destruct (is_some st') eqn:Es; cbn [omap fst snd]; rewrite ?Es; reflexivity.
Qed.

Definition acc_erase (acc : list tnsec) : list nsec := map tn_rec acc.

Lemma tnsec_push_erase site prev next st acc acc' :
  tnsec_push site prev next st acc = Ok acc' ->
  match prev with
  | Some (pn, bm) => is_some st = true /\ acc_erase acc' = mk_nsec pn next bm :: acc_erase acc
  | None => acc' = acc
  end.
Proof.
  unfold tnsec_push. destruct prev as [[pn bm]|]; [|intros E; injection E as <-; reflexivity].
  destruct st as [[ttl cls]|]; [|discriminate]. intros E. injection E as <-. split; reflexivity.
Qed.

Lemma tnsec_finish_erase apex prev st acc out :
  (do acc' <- tnsec_push 2 prev apex st acc; Ok (rev acc')) = Ok out ->
  nsec_finish apex prev (is_some st) (acc_erase acc) = Ok (acc_erase out).
Proof.
  intros E. apply bind_ok in E as (acc' & Hp & E). injection E as <-.
  apply tnsec_push_erase in Hp. unfold nsec_finish, acc_erase in *.
  destruct prev as [[pn bm]|].
  - destruct Hp as [-> Hp]. rewrite map_rev, Hp. reflexivity.
  - subst acc'. rewrite map_rev. reflexivity.
Qed.

Lemma tnsec_loop_erase apex dk : forall gs cut prev st acc out,
  tnsec_loop apex dk gs cut prev st acc = Ok out ->
  nsec_loop apex dk (map tgroup_strip gs) cut prev (is_some st) (acc_erase acc) = Ok (acc_erase out).
Proof.
  induction gs as [|g gs IH]; intros cut prev st acc out E; cbn [tnsec_loop map nsec_loop] in *.
  - apply tnsec_finish_erase. exact E.
  - destruct (negb (is_in_zone apex (tgroup_strip g))); [apply tnsec_finish_erase; exact E|].
    change (fst (tgroup_strip g)) with (fst g).
    destruct (below_cut cut (fst g)); [apply IH; exact E|].
    apply bind_ok in E as (acc' & Hp & E). apply bind_ok in E as ([bm st'] & Hv & E).
    apply IH in E. apply tnsec_push_erase in Hp.
    destruct (tnsec_visit_erase apex dk (is_zone_cut apex (tgroup_strip g)) g st) as [P|Ev]; [congruence|].
    rewrite Hv in Ev. cbn [omap fst snd] in Ev. rewrite <- Ev. cbn [bind].
    destruct prev as [[pn pbm]|].
    + destruct Hp as [-> Hp]. cbn [bind]. rewrite <- Hp. exact E.
    + subst acc'. cbn [bind]. exact E.
Qed.

Theorem nsec_t_erasure apex dk z out : generate_nsecs_t apex dk z = Ok out ->
  generate_nsecs apex dk (map trec_strip z) = Ok (map tn_rec out).
Proof.
  unfold generate_nsecs_t, generate_nsecs. intros E. apply tnsec_loop_erase in E.
  rewrite tgroups_erase, tskip_erase in E. exact E.
Qed.

(* ---- where the records of groups and runs come from *)
Lemma tskip_in apex l r : In r (tskip_before apex l) -> In r l.
Proof.
  induction l as [|x l IH]; cbn [tskip_before]; [intros []|].
  destruct (name_eqb apex (t_name x) || ends_with (t_name x) apex); [intros H; exact H|].
  intros H. right. apply IH. exact H.
Qed.

Lemma tgroups_from_in l : forall first,
  (forall r, In r (fst (tgroups_from first l)) -> In r l /\ name_eqb (t_name r) first = true) /\
  (forall g r, In g (snd (tgroups_from first l)) -> In r (snd g) -> In r l /\ name_eqb (t_name r) (fst g) = true).
Proof.
  induction l as [|x l IH]; intros first; cbn [tgroups_from]; [split; [intros r []|intros g r []]|].
  destruct (name_eqb (t_name x) first) eqn:E.
  - destruct (IH first) as [A B]. destruct (tgroups_from first l) as [ts gs]. cbn [fst snd] in *. split.
    + intros r [<-|Hr]; [split; [left; reflexivity|exact E]|]. destruct (A r Hr). split; [right|]; assumption.
    + intros g r Hg Hr. destruct (B g r Hg Hr). split; [right|]; assumption.
  - destruct (IH (t_name x)) as [A B]. destruct (tgroups_from (t_name x) l) as [ts gs]. cbn [fst snd] in *. split.
    + intros r [].
    + intros g r [<-|Hg] Hr.
      * cbn [fst snd] in *. destruct Hr as [<-|Hr]; [split; [left; reflexivity|apply name_eqb_refl]|].
        destruct (A r Hr). split; [right|]; assumption.
      * destruct (B g r Hg Hr). split; [right|]; assumption.
Qed.

Lemma tgroups_in l g r : In g (tgroups l) -> In r (snd g) -> In r l /\ name_eqb (t_name r) (fst g) = true.
Proof.
  destruct l as [|x l]; [intros []|]. cbn [tgroups].
  destruct (tgroups_from_in l (t_name x)) as [A B]. destruct (tgroups_from (t_name x) l) as [ts gs]. cbn [fst snd] in *.
  intros [<-|Hg] Hr.
  - cbn [fst snd] in *. destruct Hr as [<-|Hr]; [split; [left; reflexivity|apply name_eqb_refl]|].
    destruct (A r Hr). split; [right|]; assumption.
  - destruct (B g r Hg Hr). split; [right|]; assumption.
Qed.

Lemma truns_in l : forall run r, In run (truns l) -> In r run ->
  In r l /\ (match run with f :: _ => t_type r = t_type f | [] => True end).
Proof.
  induction l as [|x l IH]; cbn [truns]; [intros run r []|].
  intros run r Hrun Hr.
  destruct (truns l) as [|[|r' run'] rest] eqn:E.
  - destruct Hrun as [<-|[]]. destruct Hr as [<-|[]]. split; [left; reflexivity|reflexivity].
  - destruct Hrun as [<-|Hrun].
    + destruct Hr as [<-|[]]. split; [left; reflexivity|reflexivity].
    + destruct (IH run r (or_intror Hrun) Hr) as [A B]. split; [right; exact A|exact B].
  - destruct (N.eqb_spec (t_type r') (t_type x)) as [Et|Et].
    + destruct Hrun as [<-|Hrun].
      * destruct Hr as [<-|Hr]; [split; [left; reflexivity|reflexivity]|].
        destruct (IH (r' :: run') r (or_introl eq_refl) Hr) as [A B]. split; [right; exact A|congruence].
      * destruct (IH run r (or_intror Hrun) Hr) as [A B]. split; [right; exact A|exact B].
    + destruct Hrun as [<-|Hrun].
      * destruct Hr as [<-|[]]. split; [left; reflexivity|reflexivity].
      * destruct (IH run r Hrun Hr) as [A B]. split; [right; exact A|exact B].
Qed.

(* ---- the TTL and class of every NSEC come from a SOA record of the zone *)
Definition from_soa (z : list trec) (st : option (N * N)) : Prop :=
  match st with
  | Some (ttl, cls) => exists s, In s z /\ t_type s = 6 /\ ttl = N.min (t_min s) (t_ttl s) /\ cls = t_class s
  | None => True
  end.

Lemma trrset_loop_from_soa z at_cut cts : forall runs bm st bm' st',
  (forall run r, In run runs -> In r run -> In r z) ->
  from_soa z st -> trrset_loop nsec_upd at_cut cts runs bm st = Ok (bm', st') -> from_soa z st'.
Proof.
  induction runs as [|run runs IH]; intros bm st bm' st' Hin Hst E; cbn [trrset_loop] in E.
  - injection E as <- <-. exact Hst.
  - assert (Hin' : forall run0 r, In run0 runs -> In r run0 -> In r z) by (intros ? ? X Y; eapply Hin; [right; exact X|exact Y]).
    destruct run as [|f run]; [eapply IH; eassumption|].
    destruct (ttl_check f (f :: run)); [discriminate|].
    destruct (N.eqb_spec (t_type f) rt_SOA) as [Es|Es].
    + destruct (soa_max_len <? length (f :: run))%nat; [discriminate|].
      eapply IH; [exact Hin'| |exact E]. unfold nsec_upd, soa_ttl. cbv [ttl_is_min]. cbn [from_soa].
      exists f. split; [apply (Hin (f :: run) f); left; reflexivity|]. split; [exact Es|split; reflexivity].
    + eapply IH; eassumption.
Qed.

Lemma tnsec_loop_from_soa apex dk z : forall gs cut prev st acc out,
  (forall g r, In g gs -> In r (snd g) -> In r z) ->
  from_soa z st -> (forall x, In x acc -> from_soa z (Some (tn_ttl x, tn_class x))) ->
  tnsec_loop apex dk gs cut prev st acc = Ok out ->
  forall x, In x out -> from_soa z (Some (tn_ttl x, tn_class x)).
Proof.
  assert (Push : forall site prev next st acc acc', from_soa z st ->
            (forall x, In x acc -> from_soa z (Some (tn_ttl x, tn_class x))) ->
            tnsec_push site prev next st acc = Ok acc' ->
            forall x, In x acc' -> from_soa z (Some (tn_ttl x, tn_class x))).
  { intros site prev next st acc acc' Hst Hacc E. unfold tnsec_push in E.
    destruct prev as [[pn bm]|]; [|injection E as <-; exact Hacc].
    destruct st as [[ttl cls]|]; [|discriminate]. injection E as <-.
    intros x [<-|Hx]; [exact Hst|apply Hacc; exact Hx]. }
  assert (Fin : forall prev st acc out, from_soa z st ->
            (forall x, In x acc -> from_soa z (Some (tn_ttl x, tn_class x))) ->
            (do acc' <- tnsec_push 2 prev apex st acc; Ok (rev acc')) = Ok out ->
            forall x, In x out -> from_soa z (Some (tn_ttl x, tn_class x))).
  { intros prev st acc out Hst Hacc E. apply bind_ok in E as (acc' & Hp & E). injection E as <-.
    intros x Hx. apply in_rev in Hx. eapply Push; eassumption. }
  induction gs as [|g gs IH]; intros cut prev st acc out Hin Hst Hacc E; cbn [tnsec_loop] in E.
  - eapply Fin; eassumption.
  - assert (Hin' : forall g0 r, In g0 gs -> In r (snd g0) -> In r z) by (intros ? ? X Y; eapply Hin; [right; exact X|exact Y]).
    destruct (negb (is_in_zone apex (tgroup_strip g))); [eapply Fin; eassumption|].
    destruct (below_cut cut (fst g)); [eapply IH; eassumption|].
    apply bind_ok in E as (acc' & Hp & E). apply bind_ok in E as ([bm st'] & Hv & E).
    eapply IH; [exact Hin'| |eapply Push; eassumption|exact E].
    unfold tnsec_visit in Hv. apply bind_ok in Hv as ([bm1 st1] & Hr & Hv).
    destruct (is_some st1); [|discriminate]. injection Hv as _ <-.
    eapply trrset_loop_from_soa; [|exact Hst|exact Hr].
    intros run r Hrun Hr0. apply (Hin g r (or_introl eq_refl)). eapply truns_in; eassumption.
Qed.

Theorem nsec_t_ttl_class apex dk z out : generate_nsecs_t apex dk z = Ok out ->
  forall x, In x out ->
  exists s, In s z /\ t_type s = 6 /\ tn_ttl x = N.min (t_min s) (t_ttl s) /\ tn_class x = t_class s.
Proof.
  unfold generate_nsecs_t. intros E x Hx.
  apply (tnsec_loop_from_soa apex dk z _ _ _ _ _ _ ) with (x := x) in E; [exact E| |exact I|intros ? []|exact Hx].
  intros g r Hg Hr. apply (tskip_in apex). eapply tgroups_in; eassumption.
Qed.

(* ---- Rrset::new's expect: reachable exactly through an RRset with mixed TTLs *)
Definition rrset_ttls_uniform (z : list trec) : Prop :=
  forall a b, In a z -> In b z -> name_eqb (t_name a) (t_name b) = true -> t_type a = t_type b ->
    t_type a <> 46 -> t_ttl a = t_ttl b.

Lemma trrset_loop_cases {S} (upd : trec -> S) at_cut cts : forall runs bm st,
  (forall run f r, In run runs -> (exists tl, run = f :: tl) -> In r run -> t_type f <> 46 -> t_ttl r = t_ttl f) ->
  (exists bm' st', trrset_loop upd at_cut cts runs bm st = Ok (bm', st') /\ (is_some st = true -> is_some st' = true)) \/
  trrset_loop upd at_cut cts runs bm st = Err 1.
Proof.
  induction runs as [|run runs IH]; intros bm st Hu; cbn [trrset_loop]; [left; eauto|].
  assert (Hu' : forall run0 f r, In run0 runs -> (exists tl, run0 = f :: tl) -> In r run0 -> t_type f <> 46 -> t_ttl r = t_ttl f)
    by (intros ? ? ? X; apply Hu; right; exact X).
  destruct run as [|f run]; [apply IH; exact Hu'|].
  assert (Hok : ttls_ok f (f :: run) = true).
  { unfold ttls_ok. cbv [rrsig_ttl_exempt]. destruct (N.eqb_spec (t_type f) 46) as [E|E]; [reflexivity|].
    cbn [orb]. apply forallb_forall. intros r Hr. apply N.eqb_eq.
    apply (Hu (f :: run) f r); [left; reflexivity|eauto|exact Hr|exact E]. }
  unfold ttl_check. rewrite Hok. cbn [negb]. rewrite andb_false_r.
  destruct (t_type f =? rt_SOA).
  - destruct (soa_max_len <? length (f :: run))%nat; [right; reflexivity|].
    destruct (IH (if negb at_cut || memN (t_type f) cts then bm_add bm (t_type f) else bm) (Some (upd f)) Hu')
      as [(bm' & st' & E & Hm)|E]; [left|right; exact E].
    exists bm', st'. split; [exact E|]. intros _. apply Hm. reflexivity.
  - apply IH. exact Hu'.
Qed.

Theorem nsec_t_no_panic apex dk z : rrset_ttls_uniform z -> no_panic (generate_nsecs_t apex dk z).
Proof.
  intros Hu. unfold generate_nsecs_t.
  assert (Hg : forall g r, In g (tgroups (tskip_before apex z)) -> In r (snd g) ->
            In r z /\ name_eqb (t_name r) (fst g) = true).
  { intros g r Hg Hr. destruct (tgroups_in _ g r Hg Hr) as [A B]. split; [apply (tskip_in apex); exact A|exact B]. }
  revert Hg. generalize (tgroups (tskip_before apex z)) as gs.
  assert (Gen : forall gs cut prev st acc,
            (forall g r, In g gs -> In r (snd g) -> In r z /\ name_eqb (t_name r) (fst g) = true) ->
            (prev <> None -> is_some st = true) -> no_panic (tnsec_loop apex dk gs cut prev st acc)).
  { assert (F : forall prev st acc, (prev <> None -> is_some st = true) ->
              no_panic (do acc' <- tnsec_push 2 prev apex st acc; Ok (rev acc'))).
    { intros prev st acc H. unfold tnsec_push. destruct prev as [[pn bm]|]; [|exact I].
      destruct st as [[ttl cls]|]; [exact I|]. specialize (H ltac:(discriminate)). discriminate. }
    induction gs as [|g gs IH]; intros cut prev st acc Hg H; cbn [tnsec_loop]; [apply F; exact H|].
    assert (Hg' : forall g0 r, In g0 gs -> In r (snd g0) -> In r z /\ name_eqb (t_name r) (fst g0) = true)
      by (intros ? ? X; apply Hg; right; exact X).
    destruct (negb (is_in_zone apex (tgroup_strip g))); [apply F; exact H|].
    destruct (below_cut cut (fst g)); [apply IH; assumption|].
    assert (Hpush : exists acc', tnsec_push 1 prev (fst g) st acc = Ok acc').
    { unfold tnsec_push. destruct prev as [[pn bm]|]; [|eauto].
      destruct st as [[ttl cls]|]; [eauto|]. specialize (H ltac:(discriminate)). discriminate. }
    destruct Hpush as (acc' & ->). cbn [bind].
    unfold tnsec_visit.
    match goal with |- context [trrset_loop ?u ?a ?b ?r ?bm ?s] =>
      destruct (trrset_loop_cases u a b r bm s) as [(bm' & st' & E & _)|E] end.
    - intros run f r Hrun (tl & ->) Hr Hf.
      destruct (truns_in (snd g) _ r Hrun Hr) as [A B]. destruct (truns_in (snd g) _ f Hrun (or_introl eq_refl)) as [A' _].
      destruct (Hg g r (or_introl eq_refl) A) as [Z1 N1]. destruct (Hg g f (or_introl eq_refl) A') as [Z2 N2].
      symmetry. apply (Hu f r Z2 Z1); [|congruence|exact Hf].
      rewrite name_eqb_sym in N1. eapply name_eqb_trans; eassumption.
    - rewrite E. cbn [bind]. destruct (is_some st') eqn:Es; cbn [bind]; [|exact I].
      apply IH; [exact Hg'|intros _; exact Es].
    - rewrite E. exact I. }
  intros gs Hg. apply Gen; [exact Hg|intros X; congruence].
Qed.

(* the witness: an A RRset with two TTLs at the apex *)
Definition mixed_ttl_zone : list trec :=
  [ mk_trec [[101; 120]] 1 1 300 0; mk_trec [[101; 120]] 1 1 600 0; mk_trec [[101; 120]] 6 1 3600 300 ].

Lemma nsec_mixed_ttl_panics : rrset_new_expects_ttls = true ->
  generate_nsecs_t [[101; 120]] true mixed_ttl_zone = Panic 7.
Proof.
  intros U. unfold generate_nsecs_t, mixed_ttl_zone.
  cbn [tskip_before tgroups tgroups_from t_name name_eqb]. vm_compute tskip_before.
  first [ discriminate U | vm_compute; reflexivity ].
Qed.

Example nsec_t_example :
  generate_nsecs_t [[101; 120]] false
    [ mk_trec [[101; 120]] 6 3 3600 300; mk_trec [[97]; [101; 120]] 46 3 1 0; mk_trec [[97]; [101; 120]] 46 3 2 0 ]
  = Ok [ mk_tnsec (mk_nsec [[101; 120]] [[97]; [101; 120]] [0; 6; 2; 0; 0; 0; 0; 3]) 300 3;
         mk_tnsec (mk_nsec [[97]; [101; 120]] [[101; 120]] [0; 6; 0; 0; 0; 0; 0; 3]) 300 3 ].
Proof. vm_compute. reflexivity. Qed.

Theorem nsec_mixed_ttl_rrset_panics : rrset_new_expects_ttls = true ->
  exists apex dk z, zone_sorted (map trec_strip z) /\ ~ rrset_ttls_uniform z /\ generate_nsecs_t apex dk z = Panic 7.
Proof.
  intros U. exists [[101; 120]], true, mixed_ttl_zone.
  split; [|split; [|exact (nsec_mixed_ttl_panics U)]].
  - unfold zone_sorted, mixed_ttl_zone. cbn [map trec_strip t_name t_type].
    repeat (constructor; [|repeat (constructor; [vm_compute; discriminate|]); constructor]). constructor.
  - intros Hu. specialize (Hu (mk_trec [[101; 120]] 1 1 300 0) (mk_trec [[101; 120]] 1 1 600 0)).
    cbn [t_name t_type t_ttl] in Hu. assert (X : 300 = 600); [|discriminate X].
    apply Hu; [left; reflexivity|right; left; reflexivity|reflexivity|reflexivity|discriminate].
Qed.
