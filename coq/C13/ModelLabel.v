(* C13 model, continued: the owner name of an NSEC3 record to the octet.
   mk_base32hex_label_for_name: base32::encode_string_hex(hash).to_ascii_lowercase();
   append_origin: that label in front of the apex; the linking loop gets the
   next hashed owner back with base32::decode_hex(first label).  The Base32hex
   codec is the C18 model. *)
From Coq Require Import NArith List.
From DV Require Import Base.Outcome Base.Bytes Base.Names.
From DV Require C18.Model.
Import ListNotations.

Definition nsec3_owner_label (hash : bytes) : outcome bytes :=
  do t <- C18.Model.b32_display hash; Ok (lowers t).

Definition nsec3_owner_name (hash : bytes) (apex : name) : outcome name :=
  do l <- nsec3_owner_label hash; Ok (l :: apex).

(* the first label of an owner name, decoded *)
Definition nsec3_hash_of_owner (owner : name) : outcome bytes :=
  match owner with
  | l :: _ => C18.Model.b32_decode l
  | [] => Panic 9
  end.

Definition c13_label (hash : bytes) (apex : name) : outcome (name * bytes) :=
  do o <- nsec3_owner_name hash apex; do h <- nsec3_hash_of_owner o; Ok (o, h).
