(* C13 proofs, part 12: generate_nsec3s does not panic on a sorted zone, for
   any digest function: the usize subtractions do not underflow, the NSEC3
   vector is not empty when a SOA was seen, and the `unreachable!()` of the
   linking loop is unreachable (two records with the same original owner name
   never meet). *)
From Coq Require Import NArith ZArith Arith List Bool Lia Sorted Permutation.
From DV Require Import Base.Outcome Base.Bytes Base.Lex Base.Names C13.Gen C13.Model
  C13.ProofsNames C13.ProofsBitmap C13.ProofsGroups C13.ProofsNsec C13.ProofsNsec2
  C13.ProofsDeny C13.ProofsN3a C13.ProofsN3b C13.ProofsN3c C13.ProofsN3d.
Import ListNotations.
Local Open Scope N_scope.

(* ---- keys: names up to case *)
Definition key (p : n3pre) : name := canon (p_name p).

Lemma canon_eq_iff a b : canon a = canon b <-> name_eqb a b = true.
Proof. symmetry. apply name_eqb_spec. Qed.

Lemma app_same_length {A} (a : list A) : forall b x y, length a = length b -> a ++ x = b ++ y -> a = b /\ x = y.
Proof.
  induction a as [|h a IH]; intros [|k b] x y L E; cbn [length app] in *; try discriminate.
  - split; [reflexivity|exact E].
  - injection E as -> E. destruct (IH b x y ltac:(lia) E) as [-> ->]. split; reflexivity.
Qed.

Lemma wire_rel_inj a : forall b, wire_rel a = wire_rel b -> a = b.
Proof.
  unfold wire_rel. induction a as [|la a IH]; intros [|lb b] E; cbn [map concat] in E; try reflexivity.
  - unfold wire_label in E. discriminate.
  - unfold wire_label in E. discriminate.
  - unfold wire_label in E. cbn [app] in E. injection E as E1 E2.
    assert (L : length la = length lb) by lia.
    destruct (app_same_length la lb _ _ L E2) as [-> E3]. f_equal. apply IH. exact E3.
Qed.

Lemma exact_eq_key a b : name_exact_eqb (p_name a) (p_name b) = true -> key a = key b.
Proof.
  unfold name_exact_eqb. intros E. apply bytes_eqb_eq in E. apply wire_rel_inj in E.
  unfold key. rewrite E. reflexivity.
Qed.

(* ---- sort and dedup keep the keys distinct *)
Lemma insert_perm p l : Permutation (insert_by_hash p l) (p :: l).
Proof.
  induction l as [|q r IH]; cbn [insert_by_hash]; [apply Permutation_refl|].
  destruct (lex_cmp (p_hash p) (p_hash q)); try apply Permutation_refl.
  eapply Permutation_trans; [apply perm_skip; exact IH|apply perm_swap].
Qed.

Lemma sort_perm l : Permutation (sort_by_hash l) l.
Proof.
  unfold sort_by_hash. induction l as [|a l IH]; cbn [fold_right]; [apply Permutation_refl|].
  eapply Permutation_trans; [apply insert_perm|apply perm_skip; exact IH].
Qed.

Lemma dedup_nodup l : NoDup (map key l) -> NoDup (map key (dedup l)).
Proof.
  induction l as [|a r IH]; cbn [dedup map]; intros Hn; [constructor|].
  inversion Hn as [|? ? Ha Hr]; subst. specialize (IH Hr).
  destruct (dedup r) as [|b r'] eqn:E; [cbn [map]; constructor; [intros []|constructor]|].
  destruct (pre_eqb a b); [exact IH|].
  cbn [map]. constructor; [|exact IH]. intros Hin. apply Ha.
  change (key b :: map key r') with (map key (b :: r')) in Hin.
  apply in_map_iff in Hin as (x & Ex & Hx). apply in_map_iff. exists x. split; [exact Ex|].
  apply dedup_in. rewrite E. exact Hx.
Qed.

(* ---- the linking loop *)
Lemma link3_np_tail oo first : forall l, NoDup (map key l) -> ~ In (key first) (map key l) ->
  no_panic (link3 oo first l).
Proof.
  induction l as [|a r IH]; intros Hn Hf; cbn [link3]; [exact I|].
  cbn [map] in Hn, Hf. inversion Hn as [|? ? Ha Hr]; subst.
  set (nxt := match r with b :: _ => b | [] => first end).
  assert (Hk : key a <> key nxt).
  { unfold nxt. destruct r as [|b r']; [intros E; apply Hf; left; exact E|].
    intros E. apply Ha. left. symmetry. exact E. }
  assert (Hrec : no_panic (link3 oo first r)) by (apply IH; [exact Hr|intros X; apply Hf; right; exact X]).
  destruct (negb oo && bytes_eqb (p_hash a) (p_hash nxt)).
  - destruct (name_exact_eqb (p_name a) (p_name nxt)) eqn:E; [|exact I].
    exfalso. apply Hk. apply exact_eq_key. exact E.
  - destruct (link3 oo first r); cbn [bind]; try exact I; exact Hrec.
Qed.

Lemma link3_np first rest : NoDup (map key (first :: rest)) ->
  no_panic (link3 (length (first :: rest) =? 1)%nat first (first :: rest)).
Proof.
  intros Hn. cbn [map] in Hn. inversion Hn as [|? ? Ha Hr]; subst.
  destruct rest as [|b r].
  - cbn. exact I.
  - replace (length (first :: b :: r) =? 1)%nat with false by reflexivity.
    pose proof (link3_np_tail false first (b :: r) Hr Ha) as Hrec.
    remember (b :: r) as tl eqn:Etl.
    cbn [link3 negb andb].
    replace (match tl with [] => first | b0 :: _ => b0 end) with b by (rewrite Etl; reflexivity).
    destruct (bytes_eqb (p_hash first) (p_hash b)).
    + destruct (name_exact_eqb (p_name first) (p_name b)) eqn:E; [|exact I].
      exfalso. apply Ha. rewrite Etl. left. symmetry. apply exact_eq_key. exact E.
    + destruct (link3 false first tl); cbn [bind]; try exact I; exact Hrec.
Qed.

Lemma finish3_no_panic l : l <> [] -> NoDup (map key l) -> no_panic (finish3 l).
Proof.
  intros Hne Hn. unfold finish3.
  assert (Hn' : NoDup (map key (dedup (sort_by_hash l)))).
  { apply dedup_nodup. eapply Permutation_NoDup; [|exact Hn].
    apply Permutation_map. apply Permutation_sym. apply sort_perm. }
  destruct (dedup (sort_by_hash l)) as [|first rest] eqn:E.
  - exfalso. destruct l as [|x l]; [congruence|].
    assert (Hx : In x (sort_by_hash (x :: l))) by (apply sort_in; left; reflexivity).
    apply dedup_complete in Hx as (y & Hy & _). rewrite E in Hy. destruct Hy.
  - apply link3_np. exact Hn'.
Qed.

(* ---- the ENT vector stays strictly sorted *)
Lemma ents_insert_sorted ents n : StronglySorted name_lt ents -> StronglySorted name_lt (ents_insert ents n).
Proof.
  induction 1 as [|x r Hs IH Hx]; cbn [ents_insert]; [repeat constructor|].
  destruct (name_cmp x n) eqn:C.
  - constructor; assumption.
  - constructor; [exact IH|]. rewrite Forall_forall in *. intros y Hy.
    assert (Hy' : ent_mem y (ents_insert r n)) by (exists y; split; [exact Hy|apply name_eqb_refl]).
    apply ents_insert_mem in Hy' as [(y' & Hy' & E)|E].
    + unfold name_lt. rewrite <- (name_cmp_eq_r _ _ x E). apply Hx. exact Hy'.
    + unfold name_lt. rewrite <- (name_cmp_eq_r _ _ x E). exact C.
  - constructor; [constructor; assumption|]. constructor.
    + unfold name_lt. rewrite name_cmp_antisym, C. reflexivity.
    + rewrite Forall_forall in *. intros y Hy. unfold name_lt in *.
      eapply name_cmp_trans; [|apply Hx; exact Hy]. rewrite name_cmp_antisym, C. reflexivity.
Qed.

Lemma ent_loop_sorted apex nm dta : forall k ents, StronglySorted name_lt ents ->
  StronglySorted name_lt (ent_loop apex nm dta k ents).
Proof. induction k as [|k IH]; intros ents Hs; cbn [ent_loop]; [exact Hs|]. apply IH. apply ents_insert_sorted. exact Hs. Qed.

Lemma ent_step_sorted apex st nm : StronglySorted name_lt (snd st) ->
  StronglySorted name_lt (snd (ent_step apex st nm)).
Proof.
  destruct st as [stack ents]. unfold ent_step. destruct (pop_until nm stack) as [last stack'].
  cbn [snd]. intros Hs. match goal with |- context [if ?b then _ else _] => destruct b end;
    [apply ent_loop_sorted; exact Hs|exact Hs].
Qed.

Lemma ent_fold_sorted apex names : forall st, StronglySorted name_lt (snd st) ->
  StronglySorted name_lt (snd (fold_left (ent_step apex) names st)).
Proof.
  induction names as [|n names IH]; intros st Hs; cbn [fold_left]; [exact Hs|].
  apply IH. apply ent_step_sorted. exact Hs.
Qed.

Lemma sorted_nodup_canon (l : list name) : StronglySorted name_lt l -> NoDup (map canon l).
Proof.
  induction 1 as [|x r Hs IH Hx]; cbn [map]; constructor; [|exact IH].
  intros Hin. apply in_map_iff in Hin as (y & Ey & Hy). rewrite Forall_forall in Hx.
  specialize (Hx y Hy). apply lt_not_eqb in Hx. symmetry in Ey. apply canon_eq_iff in Ey. congruence.
Qed.

Lemma nodup_app {A} (a b : list A) : NoDup a -> NoDup b -> (forall x, In x a -> In x b -> False) ->
  NoDup (a ++ b).
Proof.
  induction a as [|x a IH]; cbn [app]; intros Ha Hb Hd; [exact Hb|].
  inversion Ha as [|? ? Hx Ha']; subst. constructor.
  - intros Hin. apply in_app_or in Hin as [Hin|Hin]; [contradiction|]. apply (Hd x); [left; reflexivity|exact Hin].
  - apply IH; [exact Ha'|exact Hb|]. intros y Hy1 Hy2. apply (Hd y); [right; exact Hy1|exact Hy2].
Qed.

(* ---- the loop itself *)
Section NP.
Variable H : bytes -> bytes.
Variable apex : name.
Variable c : n3cfg.

Lemma nsec3_bitmap_np at_cut has_ds at_apex ts ttl : no_panic (nsec3_bitmap c at_cut has_ds at_apex ts ttl).
Proof.
  unfold nsec3_bitmap.
  match goal with |- context [rrset_loop ?a ?b ?d ?e ?f] =>
    destruct (rrset_loop_cases a b d e f) as [(bm' & ttl' & E & _)|E]; rewrite E end; cbn [bind]; [|exact I].
  destruct ttl'; exact I.
Qed.

Lemma mk_pre_np n bm : no_panic (mk_pre H c n bm).
Proof. unfold mk_pre. destruct (c_alg c =? nsec3_alg_sha1); exact I. Qed.

Lemma pop_until_sub nm stack : forall s,
  In s (match fst (pop_until nm stack) with Some x => x :: snd (pop_until nm stack) | None => snd (pop_until nm stack) end) ->
  In s stack.
Proof.
  induction stack as [|x r IH]; cbn [pop_until]; [intros s []|].
  destruct (ends_with nm x); cbn [fst snd]; [intros s Hs; exact Hs|].
  intros s Hs. right. apply IH. exact Hs.
Qed.

Lemma n3_loop_np excl : forall gs cut stack ents ttl acc,
  Forall (fun s => (length apex <= length s)%nat) stack ->
  no_panic (n3_loop H apex c excl gs cut stack ents ttl acc).
Proof.
  induction gs as [|g gs IH]; intros cut stack ents ttl acc Hst; cbn [n3_loop]; [exact I|].
  destruct (is_in_zone apex g) eqn:Ez; cbn [negb]; [|exact I].
  destruct (below_cut cut (fst g)); [apply IH; exact Hst|].
  destruct (excl && is_zone_cut apex g && negb (memN rt_DS (snd g))); [apply IH; exact Hst|].
  pose proof (pop_until_sub (fst g) stack) as Hsub.
  destruct (pop_until (fst g) stack) as [last stack']. cbn [fst snd] in Hsub.
  assert (Hnm : (length apex <= length (fst g))%nat) by (apply ends_with_length; exact Ez).
  rewrite Forall_forall in Hst.
  assert (Hld : exists d, match last with Some s => label_dist s apex | None => Ok 0%nat end = Ok d).
  { destruct last as [s|]; [|eauto]. unfold label_dist.
    assert (L : (length apex <= length s)%nat) by (apply Hst; apply Hsub; left; reflexivity).
    destruct (Nat.ltb_spec (length s) (length apex)); [lia|eauto]. }
  destruct Hld as (d & Hd). rewrite Hd. cbn [bind].
  unfold label_dist at 1. destruct (Nat.ltb_spec (length (fst g)) (length apex)); [lia|]. cbn [bind].
  match goal with |- context [nsec3_bitmap ?a ?b ?d0 ?e ?f ?g0] =>
    pose proof (nsec3_bitmap_np b d0 e f g0) as Hb; destruct (nsec3_bitmap a b d0 e f g0) as [[bm ttl1]| | |] end;
    cbn [bind]; try exact I; try exact Hb.
  pose proof (mk_pre_np (fst g) bm) as Hp. destruct (mk_pre H c (fst g) bm); cbn [bind]; try exact I; try exact Hp.
  apply IH. apply Forall_forall. intros s [<-|Hs]; [exact Hnm|]. apply Hst. apply Hsub.
  destruct last as [x|]; [exact Hs|exact Hs].
Qed.

Lemma n3_loop_ttl excl : forall gs cut stack ents ttl acc acc' ents' ttl',
  n3_loop H apex c excl gs cut stack ents ttl acc = Ok (acc', ents', ttl') ->
  ttl' = true -> ttl = true \/ acc' <> [].
Proof.
  induction gs as [|g gs IH]; intros cut stack ents ttl acc acc' ents' ttl' E Ht; cbn [n3_loop] in E.
  - injection E as <- <- <-. left. exact Ht.
  - destruct (negb (is_in_zone apex g)); [injection E as <- <- <-; left; exact Ht|].
    destruct (below_cut cut (fst g)); [eapply IH; eassumption|].
    destruct (excl && is_zone_cut apex g && negb (memN rt_DS (snd g))); [eapply IH; eassumption|].
    destruct (pop_until (fst g) stack) as [last stack'].
    apply bind_ok in E as (ld & _ & E). apply bind_ok in E as (dta & _ & E).
    apply bind_ok in E as ([bm ttl1] & _ & E). apply bind_ok in E as (p & _ & E).
    right. apply n3_loop_spec in E as (l & _ & -> & _). destruct (rev l); discriminate.
Qed.

Lemma ent_recs_np es : no_panic (ent_recs H c es).
Proof.
  induction es as [|e es IH]; cbn [ent_recs]; [exact I|].
  pose proof (mk_pre_np e []) as Hp. destruct (mk_pre H c e []); cbn [bind]; try exact I; try exact Hp.
  destruct (ent_recs H c es); cbn [bind]; try exact I; exact IH.
Qed.

Lemma ent_recs_names es : forall ps, ent_recs H c es = Ok ps -> map p_name ps = es.
Proof.
  induction es as [|e es IH]; intros ps E; cbn [ent_recs] in E.
  - injection E as <-. reflexivity.
  - apply bind_ok in E as (p & Hp & E). apply bind_ok in E as (ps' & Hps & E). injection E as <-.
    apply mk_pre_ok in Hp as (P1 & _). cbn [map]. rewrite P1, (IH _ Hps). reflexivity.
Qed.

Theorem nsec3_no_panic z : zone_sorted z -> no_panic (generate_nsec3s H apex c z).
Proof.
  intros Hs. unfold generate_nsec3s.
  set (excl := opt_out_flag c && c_excl c). set (gs := groups (skip_before apex z)).
  pose proof (n3_loop_np excl gs None [] [] false [] (Forall_nil _)) as Hnp.
  revert Hnp.
  destruct (n3_loop H apex c excl gs None [] [] false []) as [[[acc ents] ttl]| | |] eqn:E; intros Hnp; cbn [bind];
    try exact I; try exact Hnp; try exact (eq_ind _ (fun o => no_panic o) Hnp _ E).
  destruct ttl; cbn [negb]; [|exact I].
  pose proof (n3_loop_ttl _ _ _ _ _ _ _ _ _ _ E eq_refl) as [X|Hacc]; [discriminate|].
  pose proof E as E'. apply n3_loop_spec in E' as (l & Hl & Hacc' & Hents). rewrite app_nil_r in Hacc'.
  change ((fix go (es : list name) : outcome (list n3pre) :=
             match es with
             | [] => Ok []
             | e :: es' => do p <- mk_pre H c e []; do ps <- go es'; Ok (p :: ps)
             end) ents) with (ent_recs H c ents).
  pose proof (ent_recs_np ents) as Hnp2.
  revert Hnp2.
  destruct (ent_recs H c ents) as [er| | |] eqn:Eer; intros Hnp2; cbn [bind]; try exact I; try exact Hnp2.
  change (no_panic (finish3 (rev acc ++ er))).
  rewrite Hacc', rev_involutive.
  assert (Hl0 : l <> []) by (intros ->; apply Hacc; rewrite Hacc'; reflexivity).
  apply finish3_no_panic; [destruct l; [congruence|discriminate]|].
  (* distinct names *)
  fold excl gs in Hl.
  set (v3 := visited3 apex excl gs None) in *. set (names3 := map gname v3) in *.
  assert (Nl : map p_name l = names3).
  { unfold names3. clear -Hl. induction Hl as [|gc p v l [Hn _] _ IH]; cbn [map]; [reflexivity|]. rewrite Hn, IH. reflexivity. }
  pose proof (ent_recs_names _ _ Eer) as Ner.
  pose proof (names3_sorted apex c z Hs) as S3. fold excl gs v3 names3 in S3.
  pose proof (names3_in_zone apex c z) as Z3. fold excl gs v3 names3 in Z3.
  assert (Sents : StronglySorted name_lt ents).
  { rewrite Hents. apply ent_fold_sorted. constructor. }
  pose proof (ent_fold_spec apex names3 S3 Z3) as Hspec.
  unfold key. rewrite map_app, <- !(map_map p_name canon), Nl, Ner.
  apply nodup_app; [apply sorted_nodup_canon; exact S3|apply sorted_nodup_canon; exact Sents|].
  intros k Ha Hb. apply in_map_iff in Ha as (x & Ex & Hx). apply in_map_iff in Hb as (e & Ee & He).
  assert (Exe : name_eqb x e = true) by (apply canon_eq_iff; congruence).
  assert (Hm : ent_mem e (snd (fold_left (ent_step apex) names3 ([], [])))).
  { exists e. split; [rewrite <- Hents; exact He|apply name_eqb_refl]. }
  apply Hspec in Hm as (_ & _ & Hno). apply Hno. exists x. split; assumption.
Qed.

End NP.
