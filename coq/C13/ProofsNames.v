(* C13 proofs, part 2: ends_with against the canonical order, record grouping,
   the NSEC3 hash recurrence. *)
From Coq Require Import NArith ZArith Arith List Bool Lia Sorted.
From Coq Require Import ZifyN ZifyBool ZifyNat.
From DV Require Import Base.Outcome Base.Bytes Base.Lex Base.Names C13.Gen C13.Model.
Import ListNotations.
Local Open Scope N_scope.

(* ---- label equality is an equivalence compatible with label_cmp *)
Lemma label_eqb_refl a : label_eqb a a = true.
Proof. apply label_eqb_spec. reflexivity. Qed.
Lemma label_eqb_sym a b : label_eqb a b = label_eqb b a.
Proof.
  destruct (label_eqb a b) eqn:E1, (label_eqb b a) eqn:E2; auto.
  - apply label_eqb_spec in E1. symmetry in E1. apply label_eqb_spec in E1. congruence.
  - apply label_eqb_spec in E2. symmetry in E2. apply label_eqb_spec in E2. congruence.
Qed.
Lemma label_eqb_trans a b c : label_eqb a b = true -> label_eqb b c = true -> label_eqb a c = true.
Proof. rewrite !label_eqb_spec. congruence. Qed.
Lemma label_eqb_cmp a b : label_eqb a b = true <-> label_cmp a b = Eq.
Proof. symmetry. apply label_cmp_eq. Qed.

(* ---- prefix relation on reversed names *)
Lemma ewr_refl n : ends_with_rev n n = true.
Proof. induction n as [|x n IH]; cbn [ends_with_rev]; [reflexivity|]. rewrite label_eqb_refl. exact IH. Qed.

Lemma ewr_trans a b c : ends_with_rev a b = true -> ends_with_rev b c = true -> ends_with_rev a c = true.
Proof.
  revert a b; induction c as [|z c IH]; intros a b H1 H2; cbn [ends_with_rev]; [reflexivity|].
  destruct b as [|y b]; cbn [ends_with_rev] in H2; [discriminate|].
  destruct (label_eqb y z) eqn:Eyz; [|discriminate].
  destruct a as [|x a]; cbn [ends_with_rev] in H1; [discriminate|].
  destruct (label_eqb x y) eqn:Exy; [|discriminate].
  rewrite (label_eqb_trans _ _ _ Exy Eyz). eapply IH; eassumption.
Qed.

(* prefix and not equal => strictly smaller *)
Lemma ewr_cmp a b : ends_with_rev a b = true -> labels_cmp b a <> Gt.
Proof.
  revert a; induction b as [|y b IH]; intros a H; destruct a as [|x a]; cbn [labels_cmp]; try discriminate.
  cbn [ends_with_rev] in H. destruct (label_eqb x y) eqn:E; [|discriminate].
  rewrite label_eqb_sym in E. apply label_eqb_cmp in E. rewrite E. apply IH. exact H.
Qed.

Lemma ewr_eq_len a b : ends_with_rev a b = true -> labels_cmp b a = Eq -> ends_with_rev b a = true.
Proof.
  revert a; induction b as [|y b IH]; intros a H C; destruct a as [|x a]; cbn [labels_cmp] in C;
    try discriminate; [reflexivity|].
  cbn [ends_with_rev] in *. destruct (label_eqb x y) eqn:E; [|discriminate].
  rewrite label_eqb_sym in E. rewrite E. apply label_eqb_cmp in E. rewrite E in C. apply IH; assumption.
Qed.

(* contiguity: b <= g <= x and b prefix of x  =>  b prefix of g *)
Lemma ewr_between b : forall g x, labels_cmp b g <> Gt -> labels_cmp g x <> Gt ->
  ends_with_rev x b = true -> ends_with_rev g b = true.
Proof.
  induction b as [|y b IH]; intros g x H1 H2 H3; cbn [ends_with_rev]; [reflexivity|].
  destruct x as [|x0 x]; cbn [ends_with_rev] in H3; [discriminate|].
  destruct (label_eqb x0 y) eqn:Exy; [|discriminate].
  destruct g as [|g0 g]; cbn [labels_cmp] in H1; [congruence|].
  cbn [labels_cmp] in H2.
  destruct (label_cmp y g0) eqn:C1; try congruence.
  - (* y ~ g0 *)
    apply label_eqb_cmp in C1. rewrite label_eqb_sym in C1. rewrite C1.
    destruct (label_cmp g0 x0) eqn:C2; try congruence.
    + eapply IH; eassumption.
    + (* g0 < x0 but g0 ~ y ~ x0 *)
      exfalso. rewrite label_eqb_sym in Exy.
      assert (E : label_eqb g0 x0 = true) by (eapply label_eqb_trans; [exact C1|exact Exy]).
      apply label_eqb_cmp in E. congruence.
  - (* y < g0: then g0 <= x0 ~ y contradiction *)
    exfalso. apply label_eqb_cmp in Exy.
    (* label_cmp g0 x0 = label_cmp g0 y by Exy *)
    rewrite (label_cmp_eq_subst_r g0 x0 y Exy) in H2.
    rewrite (label_cmp_antisym y g0), C1 in H2. cbn [CompOpp] in H2.
    apply H2. reflexivity.
Qed.

(* ---- the same for names *)
Lemma ends_with_refl n : ends_with n n = true.
Proof. apply ewr_refl. Qed.
Lemma ends_with_trans a b c : ends_with a b = true -> ends_with b c = true -> ends_with a c = true.
Proof. apply ewr_trans. Qed.
Lemma ends_with_le n b : ends_with n b = true -> name_cmp b n <> Gt.
Proof. apply ewr_cmp. Qed.
Lemma ends_with_between b g x : name_cmp b g <> Gt -> name_cmp g x <> Gt ->
  ends_with x b = true -> ends_with g b = true.
Proof. apply ewr_between. Qed.

Lemma name_eqb_cmp a b : name_eqb a b = true <-> name_cmp a b = Eq.
Proof. symmetry. apply name_cmp_eq_iff. Qed.
Lemma name_eqb_refl a : name_eqb a a = true.
Proof. apply name_eqb_cmp. apply name_cmp_refl. Qed.
Lemma name_eqb_sym a b : name_eqb a b = name_eqb b a.
Proof.
  destruct (name_eqb a b) eqn:E1, (name_eqb b a) eqn:E2; auto.
  - apply name_eqb_spec in E1. symmetry in E1. apply name_eqb_spec in E1. congruence.
  - apply name_eqb_spec in E2. symmetry in E2. apply name_eqb_spec in E2. congruence.
Qed.
Lemma name_eqb_trans a b c : name_eqb a b = true -> name_eqb b c = true -> name_eqb a c = true.
Proof. rewrite !name_eqb_spec. congruence. Qed.

Lemma name_cmp_eq_l a b c : name_eqb a b = true -> name_cmp a c = name_cmp b c.
Proof.
  intros H. apply name_eqb_cmp in H.
  destruct (name_cmp b c) eqn:E.
  - eapply name_cmp_trans; eassumption.
  - destruct (name_cmp a c) eqn:F; auto.
    + (* a = c, a = b => b = c *)
      assert (G : name_cmp b a = Eq) by (rewrite name_cmp_antisym, H; reflexivity).
      rewrite (name_cmp_trans _ _ _ _ G F) in E. discriminate.
    + assert (G : name_cmp c a = Lt) by (rewrite name_cmp_antisym, F; reflexivity).
      assert (G2 : name_cmp b a = Lt) by (eapply name_cmp_trans; eassumption).
      rewrite name_cmp_antisym, H in G2. discriminate.
  - destruct (name_cmp a c) eqn:F; auto.
    + assert (G : name_cmp b a = Eq) by (rewrite name_cmp_antisym, H; reflexivity).
      rewrite (name_cmp_trans _ _ _ _ G F) in E. discriminate.
    + assert (G : name_cmp c b = Lt) by (rewrite name_cmp_antisym, E; reflexivity).
      assert (G2 : name_cmp a b = Lt) by (eapply name_cmp_trans; eassumption).
      congruence.
Qed.
Lemma name_cmp_eq_r a b c : name_eqb a b = true -> name_cmp c a = name_cmp c b.
Proof.
  intros H. rewrite (name_cmp_antisym a c), (name_cmp_antisym b c).
  rewrite (name_cmp_eq_l a b c H). reflexivity.
Qed.

Lemma name_cmp_le_trans a b c : name_cmp a b <> Gt -> name_cmp b c <> Gt -> name_cmp a c <> Gt.
Proof.
  intros H1 H2 H3.
  destruct (name_cmp a b) eqn:E1; try congruence.
  - apply name_eqb_cmp in E1. rewrite (name_cmp_eq_l _ _ _ E1) in H3. congruence.
  - destruct (name_cmp b c) eqn:E2; try congruence.
    + apply name_eqb_cmp in E2. rewrite <- (name_cmp_eq_r _ _ a E2) in H3. congruence.
    + rewrite (name_cmp_trans _ _ _ _ E1 E2) in H3. discriminate.
Qed.
Lemma name_cmp_lt_le_trans a b c : name_cmp a b = Lt -> name_cmp b c <> Gt -> name_cmp a c = Lt.
Proof.
  intros H1 H2. destruct (name_cmp b c) eqn:E2; try congruence.
  - apply name_eqb_cmp in E2. rewrite <- (name_cmp_eq_r _ _ a E2). exact H1.
  - eapply name_cmp_trans; eassumption.
Qed.
Lemma name_cmp_le_lt_trans a b c : name_cmp a b <> Gt -> name_cmp b c = Lt -> name_cmp a c = Lt.
Proof.
  intros H1 H2. destruct (name_cmp a b) eqn:E1; try congruence.
  - apply name_eqb_cmp in E1. rewrite (name_cmp_eq_l _ _ _ E1). exact H2.
  - eapply name_cmp_trans; eassumption.
Qed.
Lemma name_cmp_lt_gt a b : name_cmp a b = Lt -> name_cmp b a = Gt.
Proof. intros H. rewrite name_cmp_antisym, H. reflexivity. Qed.

(* ends_with respects name equality on both sides *)
Lemma ewr_eq_l a a' b : labels_cmp a a' = Eq -> ends_with_rev a b = ends_with_rev a' b.
Proof.
  revert a a'; induction b as [|y b IH]; intros a a' H; cbn [ends_with_rev]; [reflexivity|].
  destruct a as [|x a], a' as [|x' a']; cbn [labels_cmp] in H; try discriminate; [reflexivity|].
  destruct (label_cmp x x') eqn:C; try discriminate.
  apply label_eqb_cmp in C.
  destruct (label_eqb x y) eqn:E1, (label_eqb x' y) eqn:E2; auto.
  - rewrite label_eqb_sym in C. rewrite (label_eqb_trans _ _ _ C E1) in E2. discriminate.
  - rewrite (label_eqb_trans _ _ _ C E2) in E1. discriminate.
Qed.
Lemma ewr_eq_r a b b' : labels_cmp b b' = Eq -> ends_with_rev a b = ends_with_rev a b'.
Proof.
  revert a b'; induction b as [|y b IH]; intros a b' H; destruct b' as [|y' b']; cbn [labels_cmp] in H;
    try discriminate; [reflexivity|].
  destruct (label_cmp y y') eqn:C; try discriminate. apply label_eqb_cmp in C.
  cbn [ends_with_rev]. destruct a as [|x a]; [reflexivity|].
  destruct (label_eqb x y) eqn:E1, (label_eqb x y') eqn:E2; auto.
  - rewrite (label_eqb_trans _ _ _ E1 C) in E2. discriminate.
  - rewrite label_eqb_sym in C. rewrite (label_eqb_trans _ _ _ E2 C) in E1. discriminate.
Qed.
Lemma ends_with_eq_l a a' b : name_eqb a a' = true -> ends_with a b = ends_with a' b.
Proof. intros H. apply ewr_eq_l. apply name_eqb_cmp in H. exact H. Qed.
Lemma ends_with_eq_r a b b' : name_eqb b b' = true -> ends_with a b = ends_with a b'.
Proof. intros H. apply ewr_eq_r. apply name_eqb_cmp in H. exact H. Qed.
Lemma name_eqb_ends_with a b : name_eqb a b = true -> ends_with a b = true.
Proof. intros H. rewrite (ends_with_eq_l _ _ _ H). apply ends_with_refl. Qed.

(* strictly below => strictly greater *)
Lemma strictly_below_lt n c : strictly_below n c -> name_cmp c n = Lt.
Proof.
  intros [H1 H2]. pose proof (ends_with_le _ _ H1) as L.
  destruct (name_cmp c n) eqn:E; try congruence.
  apply name_eqb_cmp in E. rewrite name_eqb_sym in E. congruence.
Qed.

(* ---- NSEC3 hash: the loop is the RFC 5155 recurrence *)
Lemma hash_rounds_IH H salt x k m :
  hash_rounds H salt k (rfc5155_IH H salt x m) = rfc5155_IH H salt x (k + m).
Proof.
  revert m; induction k as [|k IHk]; intros m; cbn [hash_rounds]; [reflexivity|].
  cbv [hash_salt_after_data].
  change (H (rfc5155_IH H salt x m ++ salt)) with (rfc5155_IH H salt x (S m)).
  rewrite IHk. f_equal. lia.
Qed.

Theorem nsec3_hash_rfc5155 H n iterations salt :
  nsec3_hash H n iterations salt = rfc5155_IH H salt (wire_abs (canon n)) (N.to_nat iterations).
Proof.
  unfold nsec3_hash. cbv [hash_salt_after_data hash_iter_from hash_owner_lowercased].
  change (H (wire_abs (canon n) ++ salt)) with (rfc5155_IH H salt (wire_abs (canon n)) 0).
  rewrite hash_rounds_IH. f_equal. lia.
Qed.

Example nsec3_hash_example :
  (* RFC 5155 appendix A: H(example) with salt aabbccdd and 12 iterations =
     0p9mhaveqvm6t7vbl5lop2u3t2rp3tom *)
  c13_hash [[101;120;97;109;112;108;101]] 12 [170;187;204;221] =
  [6;83;104;171;238;215;236;110;159;235;169;107;140;139;195;232;183;145;247;22].
Proof. vm_compute. reflexivity. Qed.

(* the hash takes the canonical (lower-cased) owner: names that differ in case
   only hash alike, whatever representation they come in *)
Lemma canon_idem n : canon (canon n) = canon n.
Proof. unfold canon. rewrite map_map. apply map_ext. apply lowers_idem. Qed.

Theorem nsec3_hash_canonical H n iterations salt :
  nsec3_hash H n iterations salt = nsec3_hash H (canon n) iterations salt.
Proof. rewrite !nsec3_hash_rfc5155, canon_idem. reflexivity. Qed.

Theorem nsec3_hash_case_insensitive H a b iterations salt : name_eqb a b = true ->
  nsec3_hash H a iterations salt = nsec3_hash H b iterations salt.
Proof. intros E. apply name_eqb_spec in E. rewrite !nsec3_hash_rfc5155, E. reflexivity. Qed.

Theorem nsec3_hash_canonical_both H a b iterations salt :
  nsec3_hash H a iterations salt = nsec3_hash H (canon a) iterations salt /\
  (name_eqb a b = true -> nsec3_hash H a iterations salt = nsec3_hash H b iterations salt).
Proof. split; [apply nsec3_hash_canonical|apply nsec3_hash_case_insensitive]. Qed.
