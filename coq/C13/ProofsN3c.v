(* C13 proofs, part 9: generate_nsec3s -- which names get an NSEC3, the type
   bitmaps, sortedness, ring closure, denial. *)
From Coq Require Import NArith ZArith Arith List Bool Lia Sorted.
From DV Require Import Base.Outcome Base.Bytes Base.Lex Base.Names C13.Gen C13.Model
  C13.ProofsNames C13.ProofsBitmap C13.ProofsGroups C13.ProofsNsec C13.ProofsNsec2
  C13.ProofsN3a C13.ProofsN3b.
Import ListNotations.
Local Open Scope N_scope.

Section N3.
Variable H : bytes -> bytes.
Variable apex : name.
Variable c : n3cfg.

Definition hashn (n : name) : bytes := nsec3_hash H n (c_iters c) (c_salt c).

Lemma hashn_eq a b : name_eqb a b = true -> hashn a = hashn b.
Proof. intros E. unfold hashn. apply nsec3_hash_case_insensitive. exact E. Qed.

Definition incl3 (excl : bool) (gc : group * bool) : bool :=
  negb (excl && snd gc && negb (memN rt_DS (snd (fst gc)))).
Definition visited3 (excl : bool) (gs : list group) (cut : option name) : list (group * bool) :=
  filter (incl3 excl) (select apex gs cut).
Definition gname (gc : group * bool) : name := fst (fst gc).

Definition pre_of (gc : group * bool) (p : n3pre) : Prop :=
  p_name p = gname gc /\ p_hash p = hashn (gname gc) /\
  exists bm ttl ttl',
    nsec3_bitmap c (snd gc) (memN rt_DS (snd (fst gc)))
      (length (gname gc) - length apex =? 0)%nat (snd (fst gc)) ttl = Ok (bm, ttl') /\
    p_types p = bm_finalize bm.

Lemma label_dist_ok n d : label_dist n apex = Ok d -> d = (length n - length apex)%nat.
Proof. unfold label_dist. destruct (length n <? length apex)%nat; [discriminate|]. intros E. injection E as <-. reflexivity. Qed.

Lemma mk_pre_ok n bm p : mk_pre H c n bm = Ok p ->
  p_name p = n /\ p_hash p = hashn n /\ p_types p = bm_finalize bm.
Proof. unfold mk_pre. destruct (c_alg c =? nsec3_alg_sha1); [|discriminate]. intros E. injection E as <-. repeat split. Qed.

Lemma n3_loop_spec excl : forall gs cut stack ents ttl acc acc' ents' ttl',
  n3_loop H apex c excl gs cut stack ents ttl acc = Ok (acc', ents', ttl') ->
  exists l, Forall2 pre_of (visited3 excl gs cut) l /\ acc' = rev l ++ acc /\
    ents' = snd (fold_left (ent_step apex) (map gname (visited3 excl gs cut)) (stack, ents)).
Proof.
  unfold visited3.
  induction gs as [|g gs IH]; intros cut stack ents ttl acc acc' ents' ttl' E; cbn [n3_loop select] in *.
  - injection E as <- <- <-. exists []. repeat split. constructor.
  - destruct (negb (is_in_zone apex g)).
    + injection E as <- <- <-. exists []. repeat split. constructor.
    + destruct (below_cut cut (fst g)); [eapply IH; exact E|].
      cbn [filter].
      assert (Ei : incl3 excl (g, is_zone_cut apex g) = negb (excl && is_zone_cut apex g && negb (memN rt_DS (snd g)))) by reflexivity.
      rewrite Ei. clear Ei.
      destruct (excl && is_zone_cut apex g && negb (memN rt_DS (snd g))) eqn:X; cbn [negb].
      * eapply IH. exact E.
      * destruct (pop_until (fst g) stack) as [last stack'] eqn:P.
        apply bind_ok in E as (last_dist & Hld & E).
        apply bind_ok in E as (dta & Hdta & E). apply label_dist_ok in Hdta.
        apply bind_ok in E as ([bm ttl1] & Hbm & E).
        apply bind_ok in E as (p & Hp & E).
        apply IH in E as (l & Hl & Hacc & Hents).
        exists (p :: l). split; [|split].
        -- constructor; [|exact Hl]. apply mk_pre_ok in Hp as (P1 & P2 & P3).
           unfold pre_of, gname. cbn [fst snd]. split; [exact P1|]. split; [exact P2|].
           exists bm, ttl, ttl1. split; [|exact P3]. rewrite <- Hdta. exact Hbm.
        -- rewrite Hacc. cbn [rev]. rewrite <- app_assoc. reflexivity.
        -- rewrite Hents. cbn [map fold_left]. f_equal. f_equal.
           unfold ent_step, gname. cbn [fst snd]. rewrite P.
           assert (Eld : last_dist = match last with Some s => (length s - length apex)%nat | None => O end).
           { destruct last as [s|]; [apply label_dist_ok; exact Hld|injection Hld as <-; reflexivity]. }
           rewrite <- Eld, <- Hdta. reflexivity.
Qed.

(* ENT records *)
Fixpoint ent_recs (es : list name) : outcome (list n3pre) :=
  match es with
  | [] => Ok []
  | e :: es' => do p <- mk_pre H c e []; do ps <- ent_recs es'; Ok (p :: ps)
  end.

Lemma ent_recs_spec es : forall ps, ent_recs es = Ok ps ->
  Forall2 (fun e p => p_hash p = hashn e /\ p_types p = []) es ps.
Proof.
  induction es as [|e es IH]; intros ps E; cbn [ent_recs] in E.
  - injection E as <-. constructor.
  - apply bind_ok in E as (p & Hp & E). apply bind_ok in E as (ps' & Hps & E). injection E as <-.
    constructor; [|apply IH; exact Hps]. apply mk_pre_ok in Hp as (_ & P2 & P3). split; [exact P2|exact P3].
Qed.

Lemma generate_nsec3s_unfold z out : generate_nsec3s H apex c z = Ok out ->
  let excl := opt_out_flag c && c_excl c in
  let gs := groups (skip_before apex z) in
  exists l entrecs,
    Forall2 pre_of (visited3 excl gs None) l /\
    Forall2 (fun e p => p_hash p = hashn e /\ p_types p = [])
      (snd (fold_left (ent_step apex) (map gname (visited3 excl gs None)) ([], []))) entrecs /\
    finish3 (l ++ entrecs) = Ok out.
Proof.
  unfold generate_nsec3s. intros E. cbn zeta.
  apply bind_ok in E as ([[acc ents] ttl] & Hloop & E).
  destruct (negb ttl); [discriminate|].
  apply bind_ok in E as (entrecs & Hent & E).
  apply n3_loop_spec in Hloop as (l & Hl & Hacc & Hents).
  exists l, entrecs. split; [exact Hl|]. split.
  - rewrite <- Hents. apply ent_recs_spec. exact Hent.
  - rewrite Hacc, app_nil_r, rev_involutive in E. exact E.
Qed.

(* ---- type bitmap of a visited name *)
Definition n3_type_set (at_cut has_ds at_apex : bool) (ts : list N) (t : N) : bool :=
  ((negb at_cut || has_ds) && (t =? 46))
  || (memN t ts && (negb at_cut || memN t [2; 43]))
  || (at_apex && ((t =? 51) || (c_dnskey c && (t =? 48)))).

Lemma nsec3_bitmap_spec at_cut has_ds at_apex ts ttl bm ttl' :
  nsec3_bitmap c at_cut has_ds at_apex ts ttl = Ok (bm, ttl') -> Forall (fun t => t < 65536) ts ->
  forall t, bm_contains (bm_finalize bm) t = Ok (n3_type_set at_cut has_ds at_apex ts t).
Proof.
  unfold nsec3_bitmap. intros E Hb t.
  apply bind_ok in E as ([bm1 ttl1] & Hr & E). destruct ttl1; [|discriminate]. injection E as <- <-.
  cbv [nsec3_auth_type nsec3_cut_types nsec3_apex_always nsec3_apex_cfg] in *.
  set (b0 := if negb at_cut || has_ds then bm_add [] 46 else []) in *.
  assert (I0 : bs_inv b0) by (unfold b0; destruct (negb at_cut || has_ds); [apply bm_add_inv; [apply bs_inv_nil|reflexivity]|apply bs_inv_nil]).
  destruct (rrset_loop_spec _ _ _ _ _ _ _ Hr I0 (rrsets_bound _ Hb)) as (A & B).
  assert (E0 : bs_has_type b0 t = (negb at_cut || has_ds) && (t =? 46)).
  { unfold b0. destruct (negb at_cut || has_ds); cbn [andb]; [|reflexivity].
    rewrite bs_has_type_add by apply bs_inv_nil. rewrite bs_has_type_nil. cbn [orb]. apply eqb_sym_N. }
  unfold n3_type_set. destruct at_apex; cbn [andb].
  - destruct (c_dnskey c); cbn [andb].
    + rewrite bm_contains_finalize by (apply bm_add_inv; [apply bm_add_inv; [exact A|reflexivity]|reflexivity]).
      f_equal. rewrite bs_has_type_add by (apply bm_add_inv; [exact A|reflexivity]).
      rewrite bs_has_type_add by exact A. rewrite B, rrsets_fst, E0.
      rewrite (eqb_sym_N 51 t), (eqb_sym_N 48 t). rewrite <- !orb_assoc. reflexivity.
    + rewrite bm_contains_finalize by (apply bm_add_inv; [exact A|reflexivity]).
      f_equal. rewrite bs_has_type_add by exact A. rewrite B, rrsets_fst, E0.
      rewrite (eqb_sym_N 51 t). rewrite orb_false_r. reflexivity.
  - rewrite bm_contains_finalize by exact A. f_equal. rewrite B, rrsets_fst, E0.
    rewrite orb_false_r. reflexivity.
Qed.

End N3.
