(* C13 -- property theorems only.  Proofs live in C13/Proofs*.v. *)
From Coq Require Import NArith List Sorted.
From DV Require Import Base.Outcome Base.Bytes Base.Lex Base.Names C11.Sha C13.Gen C13.Model
  C13.ProofsBitmap C13.ProofsNames.
Import ListNotations.
Local Open Scope N_scope.

Theorem C13_bitmap_roundtrip : forall ts t, Forall (fun x => x < 65536) ts ->
  exists b, bm_contains (bm_finalize (bm_adds [] ts)) t = Ok b /\ (b = true <-> In t ts).
Proof. exact bitmap_roundtrip. Qed.
Print Assumptions C13_bitmap_roundtrip.

Theorem C13_bitmap_wire_layout : forall ts, Forall (fun x => x < 65536) ts ->
  bm_wire_ok None (bm_finalize (bm_adds [] ts)).
Proof. exact bitmap_wire_layout. Qed.
Print Assumptions C13_bitmap_wire_layout.

Theorem C13_nsec3_hash_is_rfc5155 : forall n iterations salt,
  c13_hash n iterations salt = rfc5155_IH sha1 salt (wire_abs (canon n)) (N.to_nat iterations) /\
  length (c13_hash n iterations salt) = 20%nat.
Proof.
  intros n iterations salt. unfold c13_hash. rewrite nsec3_hash_rfc5155. split; [reflexivity|].
  destruct (N.to_nat iterations); apply sha1_length.
Qed.
Print Assumptions C13_nsec3_hash_is_rfc5155.
