(* C13 -- property theorems only.  Proofs live in C13/Proofs*.v. *)
From Coq Require Import NArith List Sorted.
From DV Require Import Base.Outcome Base.Bytes Base.Lex Base.Names C11.Sha C13.Gen C13.Model
  C13.ProofsBitmap C13.ProofsNames C13.ProofsNsec2 C13.ProofsDeny C13.ProofsGroups C13.ProofsN3c C13.ProofsN3d C13.ProofsN3e C13.ProofsN3f C13.ProofsDedup C13.ProofsTtl C13.ModelLabel C13.ProofsLabel C13.ProofsIter C13.ProofsTtl3 C13.ProofsOrder C13.ProofsReparse C13.ProofsW.
Import ListNotations.
Local Open Scope N_scope.

Theorem C13_bitmap_roundtrip : forall ts t, Forall (fun x => x < 65536) ts ->
  exists b, bm_contains (bm_finalize (bm_adds [] ts)) t = Ok b /\ (b = true <-> In t ts).
Proof. exact bitmap_roundtrip. Qed.
Print Assumptions C13_bitmap_roundtrip.

Theorem C13_bitmap_wire_layout : forall ts, Forall (fun x => x < 65536) ts ->
  bm_wire_ok None (bm_finalize (bm_adds [] ts)).
Proof. exact bitmap_wire_layout. Qed.
Print Assumptions C13_bitmap_wire_layout.

Theorem C13_nsec_one_per_auth_name : forall apex z dk out,
  zone_sorted z -> generate_nsecs apex dk z = Ok out ->
  (forall n, auth_name apex z n <-> exists r, In r out /\ name_eqb (n_owner r) n = true) /\
  StronglySorted (fun a b => name_eqb (n_owner a) (n_owner b) = false) out.
Proof. exact nsec_one_per_auth_name. Qed.
Print Assumptions C13_nsec_one_per_auth_name.

Theorem C13_nsec_sorted_canonical : forall apex z dk out,
  zone_sorted z -> generate_nsecs apex dk z = Ok out ->
  StronglySorted (fun a b => name_cmp (n_owner a) (n_owner b) = Lt) out.
Proof. exact nsec_sorted_canonical. Qed.
Print Assumptions C13_nsec_sorted_canonical.

Theorem C13_nsec_closed : forall apex z dk out,
  generate_nsecs apex dk z = Ok out -> out <> [] ->
  map n_next out = tl (map n_owner out) ++ [apex].
Proof. exact nsec_closed. Qed.
Print Assumptions C13_nsec_closed.

Theorem C13_nsec_bitmap_exact : forall apex z dk out,
  zone_sorted z -> types_ok z -> generate_nsecs apex dk z = Ok out ->
  forall r, In r out -> forall t,
  exists b, bm_contains (n_types r) t = Ok b /\
    (b = true <->
     t = 46 \/ t = 47 \/ (dk = true /\ name_eqb (n_owner r) apex = true /\ t = 48) \/
     (has_type z (n_owner r) t /\ (deleg apex z (n_owner r) -> t = 2 \/ t = 43))).
Proof. exact nsec_bitmap_exact'. Qed.
Print Assumptions C13_nsec_bitmap_exact.

Theorem C13_nsec_denies : forall apex z dk out,
  zone_sorted z -> types_ok z -> generate_nsecs apex dk z = Ok out -> owner_in z apex ->
  forall n t, in_zone apex n -> ~ has_type z n t -> t <> 46 -> t <> 47 ->
    ~ (dk = true /\ name_eqb n apex = true /\ t = 48) ->
    exists r, In r out /\
      ((name_eqb (n_owner r) n = true /\ bm_contains (n_types r) t = Ok false) \/ nsec_covers r n).
Proof. exact nsec_denies. Qed.
Print Assumptions C13_nsec_denies.

Theorem C13_nsec_no_panic : forall apex dk z, no_panic (generate_nsecs apex dk z).
Proof. exact nsec_no_panic. Qed.
Print Assumptions C13_nsec_no_panic.

Theorem C13_nsec_total : forall apex dk z, zone_sorted z -> has_type z apex 6 ->
  Forall soa_ok (groups (skip_before apex z)) -> exists out, generate_nsecs apex dk z = Ok out.
Proof. exact nsec_total. Qed.
Print Assumptions C13_nsec_total.

Theorem C13_nsec3_no_panic : forall H apex c z, zone_sorted z -> no_panic (generate_nsec3s H apex c z).
Proof. exact nsec3_no_panic. Qed.
Print Assumptions C13_nsec3_no_panic.

Theorem C13_nsec3_hash_is_rfc5155 : forall n iterations salt,
  c13_hash n iterations salt = rfc5155_IH sha1 salt (wire_abs (canon n)) (N.to_nat iterations) /\
  length (c13_hash n iterations salt) = 20%nat.
Proof. exact nsec3_hash_is_rfc5155. Qed.
Print Assumptions C13_nsec3_hash_is_rfc5155.

Theorem C13_nsec3_sorted_closed_ring : forall H apex c z out,
  generate_nsec3s H apex c z = Ok out ->
  StronglySorted (fun a b => lex_cmp (h_owner a) (h_owner b) = Lt) out /\ out <> [] /\
  map h_next out = tl (map h_owner out) ++ [hd [] (map h_owner out)].
Proof. exact nsec3_sorted_closed'. Qed.
Print Assumptions C13_nsec3_sorted_closed_ring.

Theorem C13_nsec3_one_per_auth_name_and_ent : forall H apex c z out,
  zone_sorted z -> generate_nsec3s H apex c z = Ok out ->
  forall x, (exists r, In r out /\ h_owner r = x) <->
    (exists n, (included apex z (optout_excl c) n \/ ent3 apex z (optout_excl c) n) /\
               x = nsec3_hash H n (c_iters c) (c_salt c)).
Proof. exact nsec3_owners'. Qed.
Print Assumptions C13_nsec3_one_per_auth_name_and_ent.

Theorem C13_nsec3_bitmap_exact : forall H apex c z out, zone_sorted z -> types_ok z ->
  generate_nsec3s H apex c z = Ok out -> forall r, In r out ->
  exists n, h_owner r = nsec3_hash H n (c_iters c) (c_salt c) /\
   ((included apex z (optout_excl c) n /\ forall t,
       exists b, bm_contains (h_types r) t = Ok b /\
         (b = true <->
          (t = 46 /\ (deleg apex z n -> has_type z n 43)) \/
          (name_eqb n apex = true /\ (t = 51 \/ (c_dnskey c = true /\ t = 48))) \/
          (has_type z n t /\ (deleg apex z n -> t = 2 \/ t = 43))))
    \/ (ent3 apex z (optout_excl c) n /\ h_types r = [])).
Proof. exact nsec3_bitmap_exact'. Qed.
Print Assumptions C13_nsec3_bitmap_exact.

Theorem C13_nsec3_denies : forall H apex c z out,
  zone_sorted z -> types_ok z -> generate_nsec3s H apex c z = Ok out ->
  (forall a b, hashn H c a = hashn H c b -> name_eqb a b = true) ->
  forall n t, ~ has_type z n t -> t <> 46 ->
    ~ (name_eqb n apex = true /\ (t = 51 \/ (c_dnskey c = true /\ t = 48))) ->
    exists r, In r out /\
      ((h_owner r = hashn H c n /\ bm_contains (h_types r) t = Ok false) \/ h3_covers r (hashn H c n)).
Proof. exact nsec3_denies. Qed.
Print Assumptions C13_nsec3_denies.

Theorem C13_sorted_records_keep_types : forall l o x,
  has_type (strip (sr_dedup l)) o x <-> has_type (strip l) o x.
Proof. exact sorted_records_keep_types. Qed.
Print Assumptions C13_sorted_records_keep_types.

Theorem C13_nsec_ttl_class_erasure : forall apex dk z out, generate_nsecs_t apex dk z = Ok out ->
  generate_nsecs apex dk (map trec_strip z) = Ok (map tn_rec out).
Proof. exact nsec_t_erasure. Qed.
Print Assumptions C13_nsec_ttl_class_erasure.

Theorem C13_nsec_ttl_class_from_soa : forall apex dk z out, generate_nsecs_t apex dk z = Ok out ->
  forall x, In x out ->
  exists s, In s z /\ t_type s = 6 /\ tn_ttl x = N.min (t_min s) (t_ttl s) /\ tn_class x = t_class s.
Proof. exact nsec_t_ttl_class. Qed.
Print Assumptions C13_nsec_ttl_class_from_soa.

Theorem C13_nsec_no_panic_uniform_ttl : forall apex dk z,
  rrset_ttls_uniform z -> no_panic (generate_nsecs_t apex dk z).
Proof. exact nsec_t_no_panic. Qed.
Print Assumptions C13_nsec_no_panic_uniform_ttl.

Theorem C13_nsec_mixed_ttl_rrset_panics_refuted : rrset_new_expects_ttls = true ->
  exists apex dk z, zone_sorted (map trec_strip z) /\ ~ rrset_ttls_uniform z /\ generate_nsecs_t apex dk z = Panic 7.
Proof. exact nsec_mixed_ttl_rrset_panics. Qed.
Print Assumptions C13_nsec_mixed_ttl_rrset_panics_refuted.

Theorem C13_sorted_records_sorted_and_complete : forall l,
  zone_sorted (strip (sorted_records l)) /\
  forall o x, has_type (strip (sorted_records l)) o x <-> has_type (strip l) o x.
Proof. exact sorted_records_sorted_and_complete. Qed.
Print Assumptions C13_sorted_records_sorted_and_complete.

Theorem C13_sorted_records_nsec_end_to_end : forall l apex dk out,
  generate_nsecs apex dk (strip (sorted_records l)) = Ok out ->
  (forall n, auth_name apex (strip l) n <-> exists r, In r out /\ name_eqb (n_owner r) n = true) /\
  StronglySorted (fun a b => name_cmp (n_owner a) (n_owner b) = Lt) out /\
  (out <> [] -> map n_next out = tl (map n_owner out) ++ [apex]).
Proof. exact sorted_records_nsec_owners. Qed.
Print Assumptions C13_sorted_records_nsec_end_to_end.

Theorem C13_nsec3_owner_label_roundtrip : forall h apex, Forall (fun b => b < 256) h ->
  exists l, nsec3_owner_label h = Ok l /\ c13_label h apex = Ok (l :: apex, h).
Proof. exact nsec3_label_roundtrip. Qed.
Print Assumptions C13_nsec3_owner_label_roundtrip.

Theorem C13_bitmap_iter_exact : forall ts, Forall (fun x => x < 65536) ts ->
  exists l, bm_iter (bm_finalize (bm_adds [] ts)) = Ok l /\ StronglySorted N.lt l /\
    forall t, t < 65536 -> (In t l <-> In t ts).
Proof. exact bitmap_iter_exact. Qed.
Print Assumptions C13_bitmap_iter_exact.

Theorem C13_nsec3_ttl_class_erasure : forall H apex c m z o, generate_nsec3s_t H apex c m z = Ok o ->
  generate_nsec3s H apex c (map trec_strip z) = Ok (map fst (o_recs o)).
Proof. exact nsec3_t_erasure. Qed.
Print Assumptions C13_nsec3_ttl_class_erasure.

Theorem C13_nsec3_ttl_class_from_soa : forall H apex c m z o, generate_nsec3s_t H apex c m z = Ok o ->
  (forall x, In x (o_recs o) -> exists s, In s z /\ t_type s = 6 /\ snd x = N.min (t_min s) (t_ttl s)) /\
  (exists s, In s z /\ t_type s = 6 /\
     o_param_ttl o = match m with PFixed t => t | PSoa => t_ttl s | PSoaMin => t_min s end /\
     o_class o = if nsec3_class_fixed then 1 else t_class s).
Proof. exact nsec3_t_ttl_class. Qed.
Print Assumptions C13_nsec3_ttl_class_from_soa.

Theorem C13_nsec3_ttl_model_no_panic : forall H apex c m z,
  zone_sorted (map trec_strip z) -> rrset_ttls_uniform z -> no_panic (generate_nsec3s_t H apex c m z).
Proof. exact nsec3_t_no_panic. Qed.
Print Assumptions C13_nsec3_ttl_model_no_panic.

Theorem C13_nsec3param_record : forall H apex c m z o, generate_nsec3s_t H apex c m z = Ok o ->
  exists s, In s z /\ t_type s = 6 /\
    nsec3param_record apex c o =
      (apex, (if nsec3_class_fixed then 1 else t_class s),
       match m with PFixed t => t | PSoa => t_ttl s | PSoaMin => t_min s end,
       (c_alg c, c_flags c, c_iters c, c_salt c)).
Proof. exact nsec3param_record_spec. Qed.
Print Assumptions C13_nsec3param_record.

Theorem C13_bitmap_reparses : forall ts, Forall (fun x => x < 65536) ts ->
  bm_from_octets (bm_finalize (bm_adds [] ts)) = Ok tt.
Proof. exact bitmap_reparses. Qed.
Print Assumptions C13_bitmap_reparses.

Theorem C13_sorted_records_class : forall l,
  StronglySorted (fun a b => fst a <= fst b) (cr_sort l) /\
  (forall k, Forall (fun x => fst x = k) l -> map snd (sorted_records_c l) = sorted_records (map snd l)).
Proof. exact sorted_records_class. Qed.
Print Assumptions C13_sorted_records_class.

Theorem C13_nsec3_owner_order : forall n h1 h2 apex, length h1 = (5 * n)%nat -> length h2 = (5 * n)%nat ->
  Forall (fun b => b < 256) h1 -> Forall (fun b => b < 256) h2 ->
  exists o1 o2, nsec3_owner_name h1 apex = Ok o1 /\ nsec3_owner_name h2 apex = Ok o2 /\
    name_cmp o1 o2 = lex_cmp h1 h2.
Proof. exact nsec3_owner_order. Qed.
Print Assumptions C13_nsec3_owner_order.

Theorem C13_sorted_records_entry_points : forall ops,
  zone_sorted (strip (sr_run ops)) /\
  forall o t, has_type (strip (sr_run ops)) o t <-> has_type (strip (sr_input ops)) o t.
Proof. exact sorted_records_entry_points. Qed.
Print Assumptions C13_sorted_records_entry_points.

Theorem C13_any_sort : forall l v, Permutation.Permutation v l -> cmp_sorted v ->
  zone_sorted (strip (sr_dedup v)) /\
  (unknown_eq_checks_rtype = true -> forall o x, has_type (strip (sr_dedup v)) o x <-> has_type (strip l) o x).
Proof. exact any_sort_spec. Qed.
Print Assumptions C13_any_sort.

Theorem C13_any_sort_nsec_end_to_end : forall l v apex dk out, Permutation.Permutation v l -> cmp_sorted v ->
  generate_nsecs apex dk (strip (sr_dedup v)) = Ok out ->
  (forall n, auth_name apex (strip l) n <-> exists r, In r out /\ name_eqb (n_owner r) n = true) /\
  StronglySorted (fun a b => name_cmp (n_owner a) (n_owner b) = Lt) out.
Proof. exact any_sort_nsec_end_to_end. Qed.
Print Assumptions C13_any_sort_nsec_end_to_end.

Theorem C13_nsec3_hash_canonical : forall H a b iterations salt,
  nsec3_hash H a iterations salt = nsec3_hash H (canon a) iterations salt /\
  (name_eqb a b = true -> nsec3_hash H a iterations salt = nsec3_hash H b iterations salt).
Proof. exact nsec3_hash_canonical_both. Qed.
Print Assumptions C13_nsec3_hash_canonical.

Theorem C13_generated_bitmaps_reparse : forall H apex c dk z,
  zone_sorted z -> types_ok z ->
  (forall out, generate_nsecs apex dk z = Ok out -> forall r, In r out ->
     bm_wire_ok None (n_types r) /\ bm_from_octets (n_types r) = Ok tt) /\
  (forall out, generate_nsec3s H apex c z = Ok out -> forall r, In r out ->
     bm_wire_ok None (h_types r) /\ bm_from_octets (h_types r) = Ok tt) /\
  bm_finalize [] = [].
Proof. exact generated_bitmaps_reparse. Qed.
Print Assumptions C13_generated_bitmaps_reparse.

Theorem C13_nsec3_sha1_owner_order : forall a b i s apex,
  exists o1 o2, nsec3_owner_name (c13_hash a i s) apex = Ok o1 /\ nsec3_owner_name (c13_hash b i s) apex = Ok o2 /\
    name_cmp o1 o2 = lex_cmp (c13_hash a i s) (c13_hash b i s).
Proof. exact nsec3_sha1_owner_order. Qed.
Print Assumptions C13_nsec3_sha1_owner_order.

Theorem C13_nsec_apex_first_cycle : forall apex z dk out,
  zone_sorted z -> owner_in z apex -> generate_nsecs apex dk z = Ok out ->
  (exists r rest, out = r :: rest /\ name_eqb (n_owner r) apex = true /\
                  n_next (last out r) = apex) /\
  (forall r, In r out -> exists r', In r' out /\ name_eqb (n_owner r') (n_next r) = true).
Proof. exact nsec_apex_first_cycle. Qed.
Print Assumptions C13_nsec_apex_first_cycle.

Theorem C13_nsec3_ring_permutation : forall H apex c z out, generate_nsec3s H apex c z = Ok out ->
  NoDup (map h_owner out) /\ Permutation.Permutation (map h_next out) (map h_owner out) /\
  (forall r, In r out -> exists r', In r' out /\ h_owner r' = h_next r) /\
  (forall r, In r out -> exists r', In r' out /\ h_next r' = h_owner r).
Proof. exact nsec3_ring_permutation. Qed.
Print Assumptions C13_nsec3_ring_permutation.

Theorem C13_sorted_records_nsec3_end_to_end : forall H l apex c out,
  generate_nsec3s H apex c (strip (sorted_records l)) = Ok out ->
  (forall x, (exists r, In r out /\ h_owner r = x) <->
     (exists n, (included apex (strip l) (optout_excl c) n \/ ent3 apex (strip l) (optout_excl c) n) /\
                x = nsec3_hash H n (c_iters c) (c_salt c))) /\
  StronglySorted (fun a b => lex_cmp (h_owner a) (h_owner b) = Lt) out /\
  map h_next out = tl (map h_owner out) ++ [hd [] (map h_owner out)] /\
  no_panic (generate_nsec3s H apex c (strip (sorted_records l))).
Proof. exact sorted_records_nsec3_end_to_end. Qed.
Print Assumptions C13_sorted_records_nsec3_end_to_end.

Theorem C13_nsec3_denies_local : forall H apex c z out,
  zone_sorted z -> types_ok z -> generate_nsec3s H apex c z = Ok out ->
  forall n,
  (forall a, included apex z (optout_excl c) a -> hashn H c a = hashn H c n -> name_eqb a n = true) ->
  forall t, ~ has_type z n t -> t <> 46 ->
    ~ (name_eqb n apex = true /\ (t = 51 \/ (c_dnskey c = true /\ t = 48))) ->
    exists r, In r out /\
      ((h_owner r = hashn H c n /\ bm_contains (h_types r) t = Ok false) \/ h3_covers r (hashn H c n)).
Proof. exact nsec3_denies_local. Qed.
Print Assumptions C13_nsec3_denies_local.

Theorem C13_sorted_records_denies : forall H l apex dk c,
  types_ok (strip l) ->
  (forall out, generate_nsecs apex dk (strip (sorted_records l)) = Ok out -> owner_in (strip l) apex ->
     forall n t, in_zone apex n -> ~ has_type (strip l) n t -> t <> 46 -> t <> 47 ->
       ~ (dk = true /\ name_eqb n apex = true /\ t = 48) ->
       exists r, In r out /\
         ((name_eqb (n_owner r) n = true /\ bm_contains (n_types r) t = Ok false) \/ nsec_covers r n)) /\
  (forall out, generate_nsec3s H apex c (strip (sorted_records l)) = Ok out ->
     forall n,
     (forall a, included apex (strip l) (optout_excl c) a -> hashn H c a = hashn H c n -> name_eqb a n = true) ->
     forall t, ~ has_type (strip l) n t -> t <> 46 ->
       ~ (name_eqb n apex = true /\ (t = 51 \/ (c_dnskey c = true /\ t = 48))) ->
       exists r, In r out /\
         ((h_owner r = hashn H c n /\ bm_contains (h_types r) t = Ok false) \/ h3_covers r (hashn H c n))).
Proof. exact sorted_records_denies. Qed.
Print Assumptions C13_sorted_records_denies.
