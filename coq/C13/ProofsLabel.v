(* C13 proofs, part 15: the hashed owner label decodes back to the hash. *)
From Coq Require Import NArith ZArith List Bool Lia.
From Coq Require Import ZifyN ZifyBool.
From DV Require Import Base.Outcome Base.Bytes Base.Names C13.ModelLabel.
From DV Require C18.Model C18.Proofs C18.ProofsDec32.
Import ListNotations.
Local Open Scope N_scope.

Lemma upper_lower c : C18.Model.upper (lower c) = C18.Model.upper c.
Proof.
  unfold C18.Model.upper, lower.
  destruct ((65 <=? c) && (c <=? 90)) eqn:E1.
  - destruct ((97 <=? c + 32) && (c + 32 <=? 122)) eqn:E2; destruct ((97 <=? c) && (c <=? 122)) eqn:E3; lia.
  - reflexivity.
Qed.

Lemma val32_lower c : C18.Model.val32 (lower c) = C18.Model.val32 c.
Proof. unfold C18.Model.val32. rewrite upper_lower. reflexivity. Qed.

Lemma values_lowers s : C18.Model.values C18.Model.val32 (lowers s) = C18.Model.values C18.Model.val32 s.
Proof.
  induction s as [|c s IH]; [reflexivity|]. unfold lowers in *. cbn [map C18.Model.values].
  rewrite val32_lower, IH. reflexivity.
Qed.

Lemma spec_dec32_lowers s : C18.Model.spec_dec32 (lowers s) = C18.Model.spec_dec32 s.
Proof. unfold C18.Model.spec_dec32, C18.Model.spec_dec_unpadded. rewrite values_lowers. reflexivity. Qed.

Theorem nsec3_label_roundtrip h apex : Forall (fun b => b < 256) h ->
  exists l, nsec3_owner_label h = Ok l /\ c13_label h apex = Ok (l :: apex, h).
Proof.
  intros Hh. destruct (C18.ProofsDec32.b32_decode_encode h Hh) as (t & Hd & Hdec).
  exists (lowers t). unfold c13_label, nsec3_owner_name, nsec3_owner_label, nsec3_hash_of_owner.
  rewrite Hd. cbn [bind]. split; [reflexivity|].
  assert (E : C18.Model.b32_decode (lowers t) = Ok h).
  { apply C18.ProofsDec32.b32_accepts_iff_wellformed. rewrite spec_dec32_lowers.
    apply C18.ProofsDec32.b32_accepts_iff_wellformed. exact Hdec. }
  rewrite E. reflexivity.
Qed.

Example nsec3_label_example :
  (* RFC 5155 appendix A: the hash of example. is 0p9mhaveqvm6t7vbl5lop2u3t2rp3tom *)
  nsec3_owner_label [6;83;104;171;238;215;236;110;159;235;169;107;140;139;195;232;183;145;247;22] =
  Ok [48;112;57;109;104;97;118;101;113;118;109;54;116;55;118;98;108;53;108;111;112;50;117;51;116;50;114;112;51;116;111;109].
Proof. vm_compute. reflexivity. Qed.
