(* C13 proofs, part 8: NSEC3 -- the empty non-terminal computation
   (last_nent_stack / ents) over the sequence of visited owner names. *)
From Coq Require Import NArith ZArith Arith List Bool Lia Sorted.
From DV Require Import Base.Outcome Base.Bytes Base.Lex Base.Names C13.Gen C13.Model
  C13.ProofsNames C13.ProofsGroups C13.ProofsNsec C13.ProofsNsec2.
Import ListNotations.
Local Open Scope nat_scope.

(* ---- suffixes *)
Lemma ewr_length x y : ends_with_rev x y = true -> length y <= length x.
Proof.
  revert x; induction y as [|b y IH]; intros x H; cbn [length]; [lia|].
  destruct x as [|a x]; cbn [ends_with_rev] in H; [discriminate|].
  destruct (label_eqb a b); [|discriminate]. apply IH in H. cbn [length]. lia.
Qed.

Lemma ewr_ss x a b : ends_with_rev x a = true -> ends_with_rev x b = true ->
  length b <= length a -> ends_with_rev a b = true.
Proof.
  revert x a; induction b as [|bl b IH]; intros x a Ha Hb Hl; cbn [ends_with_rev]; [reflexivity|].
  destruct a as [|al a]; [cbn in Hl; lia|].
  destruct x as [|xl x]; cbn [ends_with_rev] in Ha, Hb; [discriminate|].
  destruct (label_eqb xl al) eqn:E1; [|discriminate].
  destruct (label_eqb xl bl) eqn:E2; [|discriminate].
  rewrite label_eqb_sym in E1. rewrite (label_eqb_trans _ _ _ E1 E2).
  eapply IH; [exact Ha|exact Hb|cbn [length] in Hl; lia].
Qed.

Lemma ends_with_length n a : ends_with n a = true -> length a <= length n.
Proof. intros H. apply ewr_length in H. rewrite !rev_length in H. exact H. Qed.

Lemma ends_with_ss n a b : ends_with n a = true -> ends_with n b = true ->
  length b <= length a -> ends_with a b = true.
Proof. intros Ha Hb Hl. eapply ewr_ss; [exact Ha|exact Hb|rewrite !rev_length; exact Hl]. Qed.

Lemma name_eqb_length a b : name_eqb a b = true -> length a = length b.
Proof. unfold name_eqb. intros H. apply andb_true_iff in H as [H _]. apply Nat.eqb_eq. exact H. Qed.

Lemma ends_with_both' a b : ends_with a b = true -> ends_with b a = true -> name_eqb a b = true.
Proof.
  intros H1 H2. apply ends_with_le in H1. apply ends_with_le in H2.
  apply name_eqb_cmp. destruct (name_cmp a b) eqn:E; try congruence.
  rewrite name_cmp_antisym, E in H1. cbn in H1. congruence.
Qed.

Lemma ends_with_same_length n a : ends_with n a = true -> length a = length n -> name_eqb n a = true.
Proof.
  intros H L. apply ends_with_both'; [exact H|].
  apply (ends_with_ss n a n); [exact H|apply ends_with_refl|lia].
Qed.

Lemma strictly_below_length n a : strictly_below n a -> length a < length n.
Proof.
  intros [H1 H2]. pose proof (ends_with_length _ _ H1) as L.
  destruct (Nat.eq_dec (length a) (length n)) as [E|E]; [|lia].
  rewrite (ends_with_same_length _ _ H1 E) in H2. discriminate.
Qed.

Lemma shorter_strictly_below n a : ends_with n a = true -> length a < length n -> strictly_below n a.
Proof.
  intros H L. split; [exact H|]. destruct (name_eqb n a) eqn:E; [|reflexivity].
  apply name_eqb_length in E. lia.
Qed.

(* two ancestors of one name: equal length means equal *)
Lemma ancestors_same_length n a b : ends_with n a = true -> ends_with n b = true ->
  length a = length b -> name_eqb a b = true.
Proof.
  intros Ha Hb L. apply ends_with_both'; eapply ends_with_ss; eauto; lia.
Qed.

(* two ancestors of one name: the canonical order is the length order *)
Lemma ancestors_lt_length n a b : ends_with n a = true -> ends_with n b = true ->
  name_cmp a b = Lt -> length a < length b.
Proof.
  intros Ha Hb C. destruct (Nat.lt_ge_cases (length a) (length b)) as [L|L]; [exact L|exfalso].
  pose proof (ends_with_ss n a b Ha Hb L) as H. apply ends_with_le in H.
  rewrite name_cmp_antisym, C in H. cbn in H. congruence.
Qed.

(* decomposition *)
Lemma ewr_dec x y : ends_with_rev x y = true ->
  exists s r, x = s ++ r /\ length s = length y /\ labels_cmp s y = Eq.
Proof.
  revert x; induction y as [|b y IH]; intros x H.
  - exists [], x. repeat split.
  - destruct x as [|a x]; cbn [ends_with_rev] in H; [discriminate|].
    destruct (label_eqb a b) eqn:E; [|discriminate].
    destruct (IH x H) as (s & r & -> & L & C). exists (a :: s), r. repeat split.
    + cbn [length]. lia.
    + cbn [labels_cmp]. apply label_eqb_cmp in E. rewrite E. exact C.
Qed.

Lemma ewr_app_l s y r : labels_cmp s y = Eq -> ends_with_rev (s ++ r) y = true.
Proof.
  revert s; induction y as [|b y IH]; intros s C; [reflexivity|].
  destruct s as [|a s]; cbn [labels_cmp] in C; [discriminate|].
  destruct (label_cmp a b) eqn:E; try discriminate.
  cbn [app ends_with_rev]. apply label_eqb_cmp in E. rewrite E. apply IH. exact C.
Qed.

Lemma ends_with_dec n a : ends_with n a = true ->
  exists p s, n = p ++ s /\ length s = length a /\ name_eqb s a = true.
Proof.
  intros H. apply ewr_dec in H as (s & r & E & L & C).
  exists (rev r), (rev s). repeat split.
  - rewrite <- rev_app_distr, <- E, rev_involutive. reflexivity.
  - rewrite rev_length, L, rev_length. reflexivity.
  - apply name_eqb_cmp. unfold name_cmp. rewrite rev_involutive. exact C.
Qed.

Lemma ends_with_app p s a : name_eqb s a = true -> ends_with (p ++ s) a = true.
Proof.
  intros H. unfold ends_with. rewrite rev_app_distr. apply ewr_app_l.
  apply name_eqb_cmp in H. exact H.
Qed.

Lemma name_eqb_app_l p a b : name_eqb a b = true -> name_eqb (p ++ a) (p ++ b) = true.
Proof.
  intros H. apply name_eqb_spec in H. apply name_eqb_spec. unfold canon in *. rewrite !map_app. f_equal. exact H.
Qed.

(* the ENT name built by the loop is the ancestor of [nm] that is [j] labels shorter *)
Lemma ent_name_spec apex nm j : ends_with nm apex = true -> j <= length nm - length apex ->
  let e := firstn (length nm - length apex - j) (skipn j nm) ++ apex in
  ends_with nm e = true /\ length e = length nm - j.
Proof.
  intros H Hj. destruct (ends_with_dec _ _ H) as (rel & ap & -> & L & E).
  rewrite app_length, L in *. replace (length rel + length apex - length apex) with (length rel) in * by lia.
  cbn zeta.
  assert (S1 : skipn j (rel ++ ap) = skipn j rel ++ ap).
  { rewrite skipn_app. replace (j - length rel) with 0 by lia. reflexivity. }
  rewrite S1.
  assert (S2 : firstn (length rel - j) (skipn j rel ++ ap) = skipn j rel).
  { rewrite firstn_app, skipn_length, Nat.sub_diag. cbn [firstn]. rewrite app_nil_r.
    apply firstn_all2. rewrite skipn_length. lia. }
  rewrite S2. split.
  - rewrite <- (firstn_skipn j rel) at 1. rewrite <- app_assoc. apply ends_with_app.
    apply name_eqb_app_l. exact E.
  - rewrite app_length, skipn_length. lia.
Qed.

(* ---- membership in the ENT vector, up to name equality *)
Definition ent_mem (e : name) (ents : list name) : Prop := exists x, In x ents /\ name_eqb x e = true.

Lemma ents_insert_mem ents n e : ent_mem e (ents_insert ents n) <-> ent_mem e ents \/ name_eqb n e = true.
Proof.
  induction ents as [|x r IH]; cbn [ents_insert].
  - unfold ent_mem. cbn [In]. split.
    + intros (y & [Hy|[]] & E). subst y. right. exact E.
    + intros [(y & [] & _)|E]. exists n. split; [left; reflexivity|exact E].
  - destruct (name_cmp x n) eqn:C.
    + (* already there *)
      split; [intros H; left; exact H|]. intros [H|E]; [exact H|].
      exists x. split; [left; reflexivity|]. apply name_eqb_cmp in C. eapply name_eqb_trans; eassumption.
    + unfold ent_mem in *. cbn [In]. split.
      * intros (y & [Hy|Hy] & E).
        -- subst y. left. exists x. split; [left; reflexivity|exact E].
        -- destruct IH as [IH _]. destruct (IH (ex_intro _ y (conj Hy E))) as [(y' & Hy' & E')|E'].
           ++ left. exists y'. split; [right; exact Hy'|exact E'].
           ++ right. exact E'.
      * intros [(y & [Hy|Hy] & E)|E].
        -- subst y. exists x. split; [left; reflexivity|exact E].
        -- destruct IH as [_ IH]. destruct (IH (or_introl (ex_intro _ y (conj Hy E)))) as (y' & Hy' & E').
           exists y'. split; [right; exact Hy'|exact E'].
        -- destruct IH as [_ IH]. destruct (IH (or_intror E)) as (y' & Hy' & E').
           exists y'. split; [right; exact Hy'|exact E'].
    + unfold ent_mem. cbn [In]. split.
      * intros (y & [Hy|Hy] & E); [subst y; right; exact E|left; exists y; split; assumption].
      * intros [(y & Hy & E)|E]; [exists y; split; [right; exact Hy|exact E]|].
        exists n. split; [left; reflexivity|exact E].
Qed.

Lemma ent_loop_mem apex nm dta : forall k ents e, ends_with nm apex = true ->
  dta = length nm - length apex -> k <= dta ->
  (ent_mem e (ent_loop apex nm dta k ents) <->
   ent_mem e ents \/ (ends_with nm e = true /\ length nm - k <= length e < length nm)).
Proof.
  induction k as [|k IH]; intros ents e H Hd Hk; cbn [ent_loop].
  - split; [intros X; left; exact X|]. intros [X|[_ X]]; [exact X|lia].
  - rewrite IH by (auto; lia). rewrite ents_insert_mem. subst dta.
    destruct (ent_name_spec apex nm (S k) H Hk) as [A B]. cbn zeta in A, B.
    set (en := firstn (length nm - length apex - S k) (skipn (S k) nm) ++ apex) in *.
    split.
    + intros [[X|X]|X]; [left; exact X| |right].
      * right. split; [rewrite <- (ends_with_eq_r _ _ _ X); exact A|].
        apply name_eqb_length in X. pose proof (ends_with_length _ _ H). lia.
      * destruct X as [X1 X2]. split; [exact X1|lia].
    + intros [X|[X1 X2]]; [left; left; exact X|].
      destruct (Nat.eq_dec (length e) (length nm - S k)) as [E|E].
      * left. right. apply (ancestors_same_length nm); [exact A|exact X1|lia].
      * right. split; [exact X1|lia].
Qed.

(* ---- one step of the ENT bookkeeping, as a function of the visited name *)
Definition ent_step (apex : name) (st : list name * list name) (nm : name) : list name * list name :=
  let '(stack, ents) := st in
  let '(last, stack') := pop_until nm stack in
  let last_dist := match last with Some s => length s - length apex | None => 0 end in
  let dta := length nm - length apex in
  (nm :: match last with Some s => s :: stack' | None => stack' end,
   if last_dist <? dta then ent_loop apex nm dta (dta - last_dist - 1) ents else ents).

Lemma pop_until_spec nm stack :
  match pop_until nm stack with
  | (Some s, r) => exists popped, stack = popped ++ s :: r /\ ends_with nm s = true /\
                     forall p, In p popped -> ends_with nm p = false
  | (None, r) => r = [] /\ forall p, In p stack -> ends_with nm p = false
  end.
Proof.
  induction stack as [|s r IH]; cbn [pop_until].
  - split; [reflexivity|intros p []].
  - destruct (ends_with nm s) eqn:E.
    + exists []. repeat split; [exact E|intros p []].
    + destruct (pop_until nm r) as [[s'|] r'].
      * destruct IH as (popped & -> & H1 & H2). exists (s :: popped). repeat split; [exact H1|].
        intros p [<-|Hp]; [exact E|apply H2; exact Hp].
      * destruct IH as [-> H]. split; [reflexivity|]. intros p [<-|Hp]; [exact E|apply H; exact Hp].
Qed.

Definition desc (a b : name) : Prop := name_cmp b a = Lt.

(* the specification of the ENT set after the names in [done] *)
Definition ent_spec (apex : name) (done : list name) (e : name) : Prop :=
  (exists o, In o done /\ strictly_below o e) /\ strictly_below e apex /\
  ~ (exists x, In x done /\ name_eqb x e = true).

Record ent_inv (apex : name) (done : list name) (st : list name * list name) : Prop := {
  ei_stack_in : forall s, In s (fst st) -> In s done;
  ei_stack_desc : StronglySorted desc (fst st);
  ei_keep : forall a x, In a done -> (forall d, In d done -> name_cmp d x = Lt) ->
              ends_with x a = true -> In a (fst st);
  ei_ents : forall e, ent_mem e (snd st) <-> ent_spec apex done e
}.

Lemma ent_inv_nil apex : ent_inv apex [] ([], []).
Proof.
  constructor; cbn [fst snd].
  - intros s [].
  - constructor.
  - intros a x [].
  - intros e. split; [intros (x & [] & _)|intros ((o & [] & _) & _)].
Qed.

Lemma ent_step_inv apex done st nm : ent_inv apex done st ->
  (forall d, In d done -> name_cmp d nm = Lt) -> ends_with nm apex = true ->
  (forall d, In d done -> ends_with d apex = true) ->
  ent_inv apex (done ++ [nm]) (ent_step apex st nm).
Proof.
  intros [I1 I2 I3 I4] Hgt Hz Hdz. destruct st as [stack ents]. cbn [fst snd] in *.
  unfold ent_step. pose proof (pop_until_spec nm stack) as P.
  destruct (pop_until nm stack) as [last stack'].
  (* facts about the split of the stack *)
  assert (Hsub : forall s, In s (match last with Some s => s :: stack' | None => stack' end) -> In s stack).
  { destruct last as [s|].
    - destruct P as (popped & -> & _). intros x Hx. apply in_or_app. right. exact Hx.
    - destruct P as [-> _]. intros x []. }
  assert (Hmatch : forall a, In a stack -> ends_with nm a = true ->
            In a (match last with Some s => s :: stack' | None => stack' end)).
  { destruct last as [s|].
    - destruct P as (popped & -> & _ & Hp). intros a Ha Ea. apply in_app_or in Ha as [Ha|Ha]; [|exact Ha].
      rewrite (Hp a Ha) in Ea. discriminate.
    - destruct P as [_ Hp]. intros a Ha Ea. rewrite (Hp a Ha) in Ea. discriminate. }
  set (L := match last with Some s => length s | None => length apex end).
  assert (HL : match last with Some s => length s - length apex | None => 0 end = L - length apex).
  { unfold L. destruct last; lia. }
  assert (HLa : length apex <= L).
  { unfold L. destruct last as [s|]; [|lia]. destruct P as (popped & -> & _).
    apply ends_with_length. apply Hdz. apply I1. apply in_or_app. right. left. reflexivity. }
  assert (Hnm : length apex <= length nm) by (apply ends_with_length; exact Hz).
  (* every ancestor of nm among the processed names is on the stack and not longer than L *)
  assert (Hdeep : forall a, In a done -> ends_with nm a = true -> length a <= L).
  { intros a Ha Ea.
    assert (Hin : In a stack).
    { apply (I3 a nm Ha); [exact Hgt|exact Ea]. }
    apply Hmatch in Hin; [|exact Ea]. unfold L. destruct last as [s|]; [|destruct P as [-> _]; destruct Hin].
    destruct P as (popped & -> & Es & _). destruct Hin as [<-|Hin]; [lia|].
    apply sorted_app_r in I2. apply StronglySorted_inv in I2 as [_ I2]. rewrite Forall_forall in I2.
    specialize (I2 a Hin). unfold desc in I2.
    pose proof (ancestors_lt_length nm a s Ea Es I2). lia. }
  constructor; cbn [fst snd].
  - intros s [<-|Hs]; [apply in_or_app; right; left; reflexivity|].
    apply in_or_app. left. apply I1. apply Hsub. exact Hs.
  - constructor.
    + destruct last as [s|].
      * destruct P as (popped & -> & _). eapply sorted_app_r. exact I2.
      * destruct P as [-> _]. constructor.
    + apply Forall_forall. intros x Hx. unfold desc. apply Hgt. apply I1. apply Hsub. exact Hx.
  - intros a x Ha Hx Ea. apply in_app_or in Ha as [Ha|[<-|[]]]; [|left; reflexivity].
    right. apply Hmatch.
    + apply (I3 a x Ha); [|exact Ea]. intros d Hd. apply Hx. apply in_or_app. left. exact Hd.
    + apply ends_with_between with (x := x); [| |exact Ea].
      * rewrite (Hgt a Ha). discriminate.
      * rewrite (Hx nm); [discriminate|apply in_or_app; right; left; reflexivity].
  - intros e. rewrite HL.
    assert (Step : ent_mem e (if L - length apex <? length nm - length apex
                              then ent_loop apex nm (length nm - length apex)
                                     (length nm - length apex - (L - length apex) - 1) ents
                              else ents) <->
                   ent_mem e ents \/ (ends_with nm e = true /\ L < length e < length nm)).
    { destruct (Nat.ltb_spec (L - length apex) (length nm - length apex)) as [Hlt|Hge].
      - rewrite ent_loop_mem by (auto; lia).
        replace (length nm - (length nm - length apex - (L - length apex) - 1)) with (S L) by lia.
        split; (intros [X|[X1 X2]]; [left; exact X|right; split; [exact X1|lia]]).
      - split; [intros X; left; exact X|]. intros [X|[X1 X2]]; [exact X|lia]. }
    rewrite Step, I4. clear Step. unfold ent_spec. split.
    + intros [((o & Ho & Hso) & Hea & Hno)|[He Hlen]].
      * split; [exists o; split; [apply in_or_app; left; exact Ho|exact Hso]|]. split; [exact Hea|].
        intros (x & Hx & Ex). apply in_app_or in Hx as [Hx|[<-|[]]]; [apply Hno; exists x; split; assumption|].
        (* nm ~ e is impossible: e < o < nm *)
        apply (strictly_below_eq_r o e nm) in Hso; [|rewrite name_eqb_sym; exact Ex].
        apply strictly_below_lt in Hso. apply (lt_asym _ _ Hso). apply Hgt. exact Ho.
      * split; [exists nm; split; [apply in_or_app; right; left; reflexivity|]|split].
        -- apply shorter_strictly_below; [exact He|lia].
        -- apply shorter_strictly_below; [|lia]. apply (ends_with_ss nm); [exact He|exact Hz|lia].
        -- intros (x & Hx & Ex). apply in_app_or in Hx as [Hx|[<-|[]]].
           ++ assert (Ea : ends_with nm x = true) by (rewrite (ends_with_eq_r _ _ _ Ex); exact He).
              pose proof (Hdeep x Hx Ea). apply name_eqb_length in Ex. lia.
           ++ apply name_eqb_length in Ex. lia.
    + intros ((o & Ho & Hso) & Hea & Hno).
      assert (Hno' : ~ (exists x, In x done /\ name_eqb x e = true)).
      { intros (x & Hx & Ex). apply Hno. exists x. split; [apply in_or_app; left; exact Hx|exact Ex]. }
      apply in_app_or in Ho as [Ho|[<-|[]]].
      * left. split; [exists o; split; assumption|]. split; assumption.
      * (* e is a proper ancestor of nm *)
        pose proof (strictly_below_length _ _ Hso) as Hl1.
        pose proof (strictly_below_length _ _ Hea) as Hl2.
        destruct Hso as [He _].
        destruct (Nat.lt_ge_cases L (length e)) as [Hlt|Hge]; [right; split; [exact He|lia]|].
        left. unfold L in Hge. destruct last as [s|]; [|lia].
        destruct P as (popped & Est & Es & _).
        assert (Hs : In s done) by (apply I1; rewrite Est; apply in_or_app; right; left; reflexivity).
        split; [|split; assumption]. exists s. split; [exact Hs|].
        split; [apply (ends_with_ss nm); [exact Es|exact He|exact Hge]|].
        destruct (name_eqb s e) eqn:F; [|reflexivity]. exfalso. apply Hno'. exists s. split; assumption.
Qed.

Lemma ent_fold_inv apex : forall todo done st, ent_inv apex done st ->
  StronglySorted (fun a b => name_cmp a b = Lt) (done ++ todo) ->
  (forall d, In d (done ++ todo) -> ends_with d apex = true) ->
  ent_inv apex (done ++ todo) (fold_left (ent_step apex) todo st).
Proof.
  induction todo as [|nm todo IH]; intros done st Hinv Hs Hz; cbn [fold_left].
  - rewrite app_nil_r. exact Hinv.
  - replace (done ++ nm :: todo) with ((done ++ [nm]) ++ todo) in * by (rewrite <- app_assoc; reflexivity).
    apply IH; [|exact Hs|exact Hz].
    apply ent_step_inv; [exact Hinv| | |].
    + intros d Hd. clear -Hs Hd. rewrite <- app_assoc in Hs. cbn [app] in Hs.
      induction done as [|d0 done IHd]; [destruct Hd|]. cbn [app] in Hs.
      apply StronglySorted_inv in Hs as [Hs H0]. destruct Hd as [<-|Hd]; [|apply IHd; assumption].
      rewrite Forall_forall in H0. apply H0. apply in_or_app. right. left. reflexivity.
    + apply Hz. apply in_or_app. left. apply in_or_app. right. left. reflexivity.
    + intros d Hd. apply Hz. apply in_or_app. left. apply in_or_app. left. exact Hd.
Qed.

Theorem ent_fold_spec apex names : StronglySorted (fun a b => name_cmp a b = Lt) names ->
  (forall d, In d names -> ends_with d apex = true) ->
  forall e, ent_mem e (snd (fold_left (ent_step apex) names ([], []))) <-> ent_spec apex names e.
Proof.
  intros Hs Hz. apply (ent_fold_inv apex names [] ([], []) (ent_inv_nil apex) Hs Hz).
Qed.
