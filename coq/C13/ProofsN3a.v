(* C13 proofs, part 7: NSEC3 -- sorting by hash, dedup, linking: the result is
   strictly ascending in hash order and a closed ring. *)
From Coq Require Import NArith ZArith Arith List Bool Lia Sorted.
From DV Require Import Base.Outcome Base.Bytes Base.Lex Base.Names C13.Gen C13.Model
  C13.ProofsNames.
Import ListNotations.
Local Open Scope N_scope.

Definition hle (a b : n3pre) : Prop := lex_cmp (p_hash a) (p_hash b) <> Gt.
Definition hlt (a b : n3pre) : Prop := lex_cmp (p_hash a) (p_hash b) = Lt.

Lemma lex_le_trans a b c : lex_cmp a b <> Gt -> lex_cmp b c <> Gt -> lex_cmp a c <> Gt.
Proof.
  intros H1 H2. destruct (lex_cmp a b) eqn:E1; try congruence.
  - apply lex_cmp_eq in E1. subst. exact H2.
  - destruct (lex_cmp b c) eqn:E2; try congruence.
    + apply lex_cmp_eq in E2. subst. rewrite E1. discriminate.
    + rewrite (lex_cmp_trans _ _ _ _ E1 E2). discriminate.
Qed.

Lemma lex_lt_le_trans a b c : lex_cmp a b = Lt -> lex_cmp b c <> Gt -> lex_cmp a c = Lt.
Proof.
  intros H1 H2. destruct (lex_cmp b c) eqn:E2; try congruence.
  - apply lex_cmp_eq in E2. subst. exact H1.
  - eapply lex_cmp_trans; eassumption.
Qed.

Lemma bytes_eqb_eq a b : bytes_eqb a b = true <-> a = b.
Proof.
  unfold bytes_eqb. rewrite <- lex_cmp_eq. destruct (lex_cmp a b); split; congruence.
Qed.

(* ---- insertion sort *)
Lemma insert_in p l x : In x (insert_by_hash p l) <-> x = p \/ In x l.
Proof.
  induction l as [|q r IH]; cbn [insert_by_hash In]; [intuition|].
  destruct (lex_cmp (p_hash p) (p_hash q)); cbn [In]; try rewrite IH; intuition.
Qed.

Lemma sort_in l x : In x (sort_by_hash l) <-> In x l.
Proof.
  unfold sort_by_hash. induction l as [|a l IH]; cbn [fold_right In]; [reflexivity|].
  rewrite insert_in, IH. intuition.
Qed.

Lemma insert_sorted p l : StronglySorted hle l -> StronglySorted hle (insert_by_hash p l).
Proof.
  induction 1 as [|q r Hs IH Hq]; cbn [insert_by_hash]; [repeat constructor|].
  assert (Keep : lex_cmp (p_hash p) (p_hash q) <> Gt -> StronglySorted hle (p :: q :: r)).
  { intros Hle. constructor; [constructor; assumption|]. constructor; [exact Hle|].
    eapply Forall_impl; [|exact Hq]. intros x Hx. unfold hle in *. eapply lex_le_trans; eassumption. }
  destruct (lex_cmp (p_hash p) (p_hash q)) eqn:E.
  - apply Keep. discriminate.
  - apply Keep. discriminate.
  - constructor; [exact IH|]. apply Forall_forall. intros x Hx. apply insert_in in Hx as [->|Hx].
    + unfold hle. rewrite lex_cmp_antisym, E. discriminate.
    + rewrite Forall_forall in Hq. apply Hq. exact Hx.
Qed.

Lemma sort_sorted l : StronglySorted hle (sort_by_hash l).
Proof.
  unfold sort_by_hash. induction l as [|a l IH]; cbn [fold_right]; [constructor|].
  apply insert_sorted. exact IH.
Qed.

(* ---- dedup *)
Lemma pre_eqb_hash a b : pre_eqb a b = true -> p_hash a = p_hash b /\ p_types a = p_types b.
Proof.
  unfold pre_eqb. rewrite !andb_true_iff, !bytes_eqb_eq. intuition.
Qed.

Lemma dedup_in l x : In x (dedup l) -> In x l.
Proof.
  revert x; induction l as [|a r IH]; intros x; cbn [dedup]; [intros []|].
  destruct (dedup r) as [|b r'] eqn:E.
  - intros [<-|[]]. left. reflexivity.
  - destruct (pre_eqb a b).
    + intros H. right. apply IH. exact H.
    + intros [<-|H]; [left; reflexivity|right; apply IH; exact H].
Qed.

Lemma dedup_complete l x : In x l ->
  exists y, In y (dedup l) /\ p_hash y = p_hash x /\ p_types y = p_types x.
Proof.
  induction l as [|a r IH]; [intros []|]. cbn [dedup]. intros [<-|Hx].
  - destruct (dedup r) as [|b r'] eqn:E.
    + exists a. split; [left; reflexivity|split; reflexivity].
    + destruct (pre_eqb a b) eqn:F.
      * apply pre_eqb_hash in F as [F1 F2]. exists b. split; [left; reflexivity|split; congruence].
      * exists a. split; [left; reflexivity|split; reflexivity].
  - destruct (IH Hx) as (y & Hy & Ey). destruct (dedup r) as [|b r'] eqn:E; [destruct Hy|].
    destruct (pre_eqb a b); exists y; (split; [|exact Ey]); [exact Hy|right; exact Hy].
Qed.

Lemma dedup_sorted (R : n3pre -> n3pre -> Prop) l : StronglySorted R l -> StronglySorted R (dedup l).
Proof.
  induction 1 as [|a r Hs IH Ha]; cbn [dedup]; [constructor|].
  destruct (dedup r) as [|b r'] eqn:E; [repeat constructor|].
  destruct (pre_eqb a b); [exact IH|].
  constructor; [exact IH|]. apply Forall_forall. intros x Hx.
  rewrite Forall_forall in Ha. apply Ha. apply dedup_in. rewrite E. exact Hx.
Qed.

(* ---- linking *)
Fixpoint adj_ok (first : n3pre) (l : list n3pre) : Prop :=
  match l with
  | [] => True
  | a :: r => p_hash a <> p_hash (match r with b :: _ => b | [] => first end) /\ adj_ok first r
  end.

Lemma link3_spec oo first : forall l out, link3 oo first l = Ok out ->
  map h_owner out = map p_hash l /\ map h_types out = map p_types l /\
  map h_next out = match l with [] => [] | _ :: r => map p_hash r ++ [p_hash first] end /\
  (oo = false -> adj_ok first l).
Proof.
  induction l as [|a r IH]; intros out H; cbn [link3] in H.
  - injection H as <-. repeat split.
  - set (nxt := match r with b :: _ => b | [] => first end) in *.
    destruct (negb oo && bytes_eqb (p_hash a) (p_hash nxt)) eqn:C.
    + destruct (negb (name_exact_eqb (p_name a) (p_name nxt))); discriminate.
    + apply bind_ok in H as (rest & Hr & H). injection H as <-.
      destruct (IH rest Hr) as (A & B & D & F). cbn [map h_owner h_types h_next].
      split; [f_equal; exact A|]. split; [f_equal; exact B|]. split.
      * rewrite D. unfold nxt. destruct r as [|b r']; reflexivity.
      * intros ->. cbn [negb andb] in C. cbn [adj_ok]. split; [|apply F; reflexivity].
        fold nxt. intros E. apply bytes_eqb_eq in E. congruence.
Qed.

Lemma sorted_strict first l : StronglySorted hle l -> adj_ok first l -> StronglySorted hlt l.
Proof.
  induction 1 as [|a r Hs IH Ha]; intros Hadj; [constructor|].
  cbn [adj_ok] in Hadj. destruct Hadj as [Hne Hadj]. specialize (IH Hadj).
  constructor; [exact IH|].
  destruct r as [|b r']; [constructor|].
  assert (Hab : hlt a b).
  { apply Forall_inv in Ha. unfold hle, hlt in *.
    destruct (lex_cmp (p_hash a) (p_hash b)) eqn:E; try congruence.
    apply lex_cmp_eq in E. congruence. }
  constructor; [exact Hab|].
  apply StronglySorted_inv in IH as [_ Hb].
  eapply Forall_impl; [|exact Hb]. intros x Hx. unfold hlt in *. eapply lex_cmp_trans; eassumption.
Qed.

Definition h3lt (a b : nsec3) : Prop := lex_cmp (h_owner a) (h_owner b) = Lt.

Lemma sorted_via_map (l : list n3pre) (out : list nsec3) :
  map h_owner out = map p_hash l -> StronglySorted hlt l -> StronglySorted h3lt out.
Proof.
  revert out; induction l as [|a r IH]; intros out E Hs; destruct out as [|o out]; try discriminate; [constructor|].
  cbn [map] in E. injection E as E1 E2. apply StronglySorted_inv in Hs as [Hs Ha].
  constructor; [apply IH; assumption|].
  apply Forall_forall. intros x Hx. unfold h3lt. rewrite E1.
  apply (in_map h_owner) in Hx. rewrite E2 in Hx. apply in_map_iff in Hx as (y & <- & Hy).
  rewrite Forall_forall in Ha. apply Ha. exact Hy.
Qed.

(* the tail of the pipeline: from the collected records to the result *)
Definition finish3 (l : list n3pre) : outcome (list nsec3) :=
  let all := dedup (sort_by_hash l) in
  match all with
  | [] => Panic 5
  | first :: _ => link3 (length all =? 1)%nat first all
  end.

Lemma finish3_spec l out : finish3 l = Ok out ->
  StronglySorted h3lt out /\ out <> [] /\
  map h_next out = tl (map h_owner out) ++ [hd [] (map h_owner out)] /\
  (forall x, In x l -> exists r, In r out /\ h_owner r = p_hash x /\ h_types r = p_types x) /\
  (forall r, In r out -> exists x, In x l /\ h_owner r = p_hash x /\ h_types r = p_types x).
Proof.
  unfold finish3. set (all := dedup (sort_by_hash l)).
  assert (Hsorted : StronglySorted hle all) by (apply dedup_sorted; apply sort_sorted).
  destruct all as [|first rest] eqn:Eall; [discriminate|]. intros H.
  destruct (link3_spec _ _ _ _ H) as (A & B & C & D).
  assert (Hstrict : StronglySorted hlt (first :: rest)).
  { destruct rest as [|b rest'].
    - repeat constructor.
    - apply (sorted_strict first); [exact Hsorted|]. apply D. reflexivity. }
  split; [apply (sorted_via_map (first :: rest)); assumption|].
  split; [intros ->; discriminate|].
  split; [rewrite C, A; reflexivity|].
  assert (Zip : forall (l1 : list n3pre) (o1 : list nsec3), map h_owner o1 = map p_hash l1 ->
            map h_types o1 = map p_types l1 ->
            (forall y, In y l1 -> exists r, In r o1 /\ h_owner r = p_hash y /\ h_types r = p_types y) /\
            (forall r, In r o1 -> exists y, In y l1 /\ h_owner r = p_hash y /\ h_types r = p_types y)).
  { induction l1 as [|y1 l1 IH]; intros [|r1 o1] E1 E2; try discriminate.
    - split; intros ? [].
    - cbn [map] in E1, E2. injection E1 as E1 E1'. injection E2 as E2 E2'.
      destruct (IH o1 E1' E2') as [I1 I2]. split.
      + intros y [<-|Hy]; [exists r1; split; [left; reflexivity|split; assumption]|].
        destruct (I1 y Hy) as (r & Hr & Er). exists r. split; [right; exact Hr|exact Er].
      + intros r [<-|Hr]; [exists y1; split; [left; reflexivity|split; assumption]|].
        destruct (I2 r Hr) as (y & Hy & Ey). exists y. split; [right; exact Hy|exact Ey]. }
  destruct (Zip _ _ A B) as [Z1 Z2]. split.
  - intros x Hx. apply (sort_in l x) in Hx. apply dedup_complete in Hx as (y & Hy & E1 & E2).
    fold all in Hy. rewrite Eall in Hy. destruct (Z1 y Hy) as (r & Hr & F1 & F2).
    exists r. split; [exact Hr|split; congruence].
  - intros r Hr. destruct (Z2 r Hr) as (y & Hy & Ey). exists y. split; [|exact Ey].
    apply (sort_in l y). apply dedup_in. fold all. rewrite Eall. exact Hy.
Qed.
