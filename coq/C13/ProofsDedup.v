(* C13 proofs, part 13: the dedup of SortedRecords never loses an
   (owner, type) pair -- provided UnknownRecordData::eq compares the type. *)
From Coq Require Import NArith ZArith Arith List Bool Lia Sorted.
From DV Require Import Base.Outcome Base.Bytes Base.Lex Base.Names C13.Gen C13.Model
  C13.ProofsNames C13.ProofsGroups C13.ProofsN3a.
Import ListNotations.
Local Open Scope N_scope.

Lemma srec_eqb_type a b : unknown_eq_checks_rtype = true -> srec_eqb a b = true ->
  name_eqb (sr_name a) (sr_name b) = true /\ sr_type a = sr_type b.
Proof.
  intros U E. unfold srec_eqb in E. apply andb_true_iff in E as [E1 E2]. split; [exact E1|].
  destruct a as [[na ta] [ua da]], b as [[nb tb] [ub db]]. unfold data_eqb in E2. cbn [sr_type fst snd].
  rewrite U in E2. destruct ua, ub; cbn [andb orb] in E2; try discriminate;
    apply andb_true_iff in E2 as [E2 _]; apply N.eqb_eq; exact E2.
Qed.

Lemma has_type_dup n t l o x : (exists m, In (m, t) l /\ name_eqb n m = true) ->
  (has_type ((n, t) :: l) o x <-> has_type l o x).
Proof.
  intros (m & Hm & Em). unfold has_type. split.
  - intros (k & [E|Hk] & Ek); [|eauto]. injection E as <- <-. exists m. split; [exact Hm|].
    rewrite name_eqb_sym in Em. eapply name_eqb_trans; eassumption.
  - intros (k & Hk & Ek). exists k. split; [right; exact Hk|exact Ek].
Qed.

Lemma sr_dedup_from_keeps (U : unknown_eq_checks_rtype = true) o x : forall l prev,
  has_type (strip (prev :: sr_dedup_from prev l)) o x <-> has_type (strip (prev :: l)) o x.
Proof.
  induction l as [|y r IH]; intros prev; cbn [sr_dedup_from]; [reflexivity|].
  destruct (srec_eqb y prev) eqn:E.
  - rewrite IH. destruct (srec_eqb_type _ _ U E) as [E1 E2].
    destruct prev as [[np tp] dp], y as [[ny ty] dy]. cbn [sr_name sr_type fst snd] in *. subst ty.
    unfold strip. cbn [map fst].
    assert (A : forall L, has_type ((np, tp) :: (ny, tp) :: L) o x <-> has_type ((np, tp) :: L) o x).
    { intros L. unfold has_type. split.
      - intros (k & [Hk|[Hk|Hk]] & Ek).
        + exists k. split; [left; exact Hk|exact Ek].
        + injection Hk as Hk1 Hk2. subst k x. exists np. split; [left; reflexivity|].
          rewrite name_eqb_sym in E1. eapply name_eqb_trans; eassumption.
        + exists k. split; [right; exact Hk|exact Ek].
      - intros (k & [Hk|Hk] & Ek); exists k; (split; [|exact Ek]); [left; exact Hk|right; right; exact Hk]. }
    symmetry. apply A.
  - unfold strip in *. cbn [map] in *.
    assert (B : forall a L1 L2, (has_type L1 o x <-> has_type L2 o x) -> (has_type (a :: L1) o x <-> has_type (a :: L2) o x)).
    { intros [na ta] L1 L2 HL. unfold has_type in *. split; intros (k & [Hk|Hk] & Ek).
      - exists k. split; [left; exact Hk|exact Ek].
      - destruct HL as [HL _]. destruct (HL (ex_intro _ k (conj Hk Ek))) as (k' & Hk' & Ek'). exists k'. split; [right; exact Hk'|exact Ek'].
      - exists k. split; [left; exact Hk|exact Ek].
      - destruct HL as [_ HL]. destruct (HL (ex_intro _ k (conj Hk Ek))) as (k' & Hk' & Ek'). exists k'. split; [right; exact Hk'|exact Ek']. }
    apply B. apply IH.
Qed.

Theorem sr_dedup_keeps_types : unknown_eq_checks_rtype = true ->
  forall l o x, has_type (strip (sr_dedup l)) o x <-> has_type (strip l) o x.
Proof.
  intros U [|a l] o x; [reflexivity|]. cbn [sr_dedup]. apply sr_dedup_from_keeps. exact U.
Qed.

(* the defect that was repaired in /repo (fix: 7060593): with an equality that
   ignores the type, a record of another unknown type with the same octets
   disappears from the zone *)
Lemma sr_dedup_type_blind_refuted : unknown_eq_checks_rtype = false ->
  exists l o x, has_type (strip l) o x /\ ~ has_type (strip (sr_dedup l)) o x.
Proof.
  intros U. exists [([[97]], 65280, (true, [1])); ([[97]], 65281, (true, [1]))], [[97]], 65281.
  split.
  - exists [[97]]. split; [right; left; reflexivity|reflexivity].
  - unfold sr_dedup, sr_dedup_from, srec_eqb, data_eqb. rewrite U. cbn.
    intros (m & [Hm|[]] & _). discriminate.
Qed.

Example sr_dedup_example :
  c13_dedup [([[97]], 1, (true, [1])); ([[65]], 1, (true, [1])); ([[97]], 16, (true, [1]));
             ([[97]], 2, (false, [1; 110; 0])); ([[97]], 2, (true, [1; 110; 0]))] =
  [([[97]], 1); ([[97]], 16); ([[97]], 2); ([[97]], 2)].
Proof. vm_compute. reflexivity. Qed.

(* the form exported by Props.v: it type-checks only while the T1 item
   unknown_eq_checks_rtype is true *)
Theorem sorted_records_keep_types : forall l o x,
  has_type (strip (sr_dedup l)) o x <-> has_type (strip l) o x.
Proof. exact (sr_dedup_keeps_types eq_refl). Qed.
