(* C13 proofs, part 13: the dedup of SortedRecords never loses an
   (owner, type) pair -- provided UnknownRecordData::eq compares the type. *)
From Coq Require Import NArith ZArith Arith List Bool Lia Sorted.
From DV Require Import Base.Outcome Base.Bytes Base.Lex Base.Names C13.Gen C13.Model
  C13.ProofsNames C13.ProofsGroups C13.ProofsN3a.
Import ListNotations.
Local Open Scope N_scope.

Lemma srec_eqb_type a b : unknown_eq_checks_rtype = true -> srec_eqb a b = true ->
  name_eqb (sr_name a) (sr_name b) = true /\ sr_type a = sr_type b.
Proof.
  intros U E. unfold srec_eqb in E. apply andb_true_iff in E as [E1 E2]. split; [exact E1|].
  destruct a as [[na ta] [ua da]], b as [[nb tb] [ub db]]. unfold data_eqb in E2. cbn [sr_type fst snd].
  rewrite U in E2. destruct ua, ub; cbn [andb orb] in E2; try discriminate;
    apply andb_true_iff in E2 as [E2 _]; apply N.eqb_eq; exact E2.
Qed.

Lemma has_type_dup n t l o x : (exists m, In (m, t) l /\ name_eqb n m = true) ->
  (has_type ((n, t) :: l) o x <-> has_type l o x).
Proof.
  intros (m & Hm & Em). unfold has_type. split.
  - intros (k & [E|Hk] & Ek); [|eauto]. injection E as <- <-. exists m. split; [exact Hm|].
    rewrite name_eqb_sym in Em. eapply name_eqb_trans; eassumption.
  - intros (k & Hk & Ek). exists k. split; [right; exact Hk|exact Ek].
Qed.

Lemma sr_dedup_from_keeps (U : unknown_eq_checks_rtype = true) o x : forall l prev,
  has_type (strip (prev :: sr_dedup_from prev l)) o x <-> has_type (strip (prev :: l)) o x.
Proof.
  induction l as [|y r IH]; intros prev; cbn [sr_dedup_from]; [reflexivity|].
  destruct (srec_eqb y prev) eqn:E.
  - rewrite IH. destruct (srec_eqb_type _ _ U E) as [E1 E2].
    destruct prev as [[np tp] dp], y as [[ny ty] dy]. cbn [sr_name sr_type fst snd] in *. subst ty.
    unfold strip. cbn [map fst].
    assert (A : forall L, has_type ((np, tp) :: (ny, tp) :: L) o x <-> has_type ((np, tp) :: L) o x).
    { intros L. unfold has_type. split.
      - intros (k & [Hk|[Hk|Hk]] & Ek).
        + exists k. split; [left; exact Hk|exact Ek].
        + injection Hk as Hk1 Hk2. subst k x. exists np. split; [left; reflexivity|].
          rewrite name_eqb_sym in E1. eapply name_eqb_trans; eassumption.
        + exists k. split; [right; exact Hk|exact Ek].
      - intros (k & [Hk|Hk] & Ek); exists k; (split; [|exact Ek]); [left; exact Hk|right; right; exact Hk]. }
    symmetry. apply A.
  - unfold strip in *. cbn [map] in *.
    assert (B : forall a L1 L2, (has_type L1 o x <-> has_type L2 o x) -> (has_type (a :: L1) o x <-> has_type (a :: L2) o x)).
    { intros [na ta] L1 L2 HL. unfold has_type in *. split; intros (k & [Hk|Hk] & Ek).
      - exists k. split; [left; exact Hk|exact Ek].
      - destruct HL as [HL _]. destruct (HL (ex_intro _ k (conj Hk Ek))) as (k' & Hk' & Ek'). exists k'. split; [right; exact Hk'|exact Ek'].
      - exists k. split; [left; exact Hk|exact Ek].
      - destruct HL as [_ HL]. destruct (HL (ex_intro _ k (conj Hk Ek))) as (k' & Hk' & Ek'). exists k'. split; [right; exact Hk'|exact Ek']. }
    apply B. apply IH.
Qed.

Theorem sr_dedup_keeps_types : unknown_eq_checks_rtype = true ->
  forall l o x, has_type (strip (sr_dedup l)) o x <-> has_type (strip l) o x.
Proof.
  intros U [|a l] o x; [reflexivity|]. cbn [sr_dedup]. apply sr_dedup_from_keeps. exact U.
Qed.

(* the defect that was repaired in /repo (fix: 7060593): with an equality that
   ignores the type, a record of another unknown type with the same octets
   disappears from the zone *)
Lemma sr_dedup_type_blind_refuted : unknown_eq_checks_rtype = false ->
  exists l o x, has_type (strip l) o x /\ ~ has_type (strip (sr_dedup l)) o x.
Proof.
  intros U. exists [([[97]], 65280, (true, [1])); ([[97]], 65281, (true, [1]))], [[97]], 65281.
  split.
  - exists [[97]]. split; [right; left; reflexivity|reflexivity].
  - unfold sr_dedup, sr_dedup_from, srec_eqb, data_eqb. rewrite U. cbn.
    intros (m & [Hm|[]] & _). discriminate.
Qed.

Example sr_dedup_example :
  c13_dedup [([[97]], 1, (true, [1])); ([[65]], 1, (true, [1])); ([[97]], 16, (true, [1]));
             ([[97]], 2, (false, [1; 110; 0])); ([[97]], 2, (true, [1; 110; 0]))] =
  [([[97]], 1); ([[97]], 16); ([[97]], 2); ([[97]], 2)].
Proof. vm_compute. reflexivity. Qed.

(* the form exported by Props.v: it type-checks only while the T1 item
   unknown_eq_checks_rtype is true *)
Theorem sorted_records_keep_types : forall l o x,
  has_type (strip (sr_dedup l)) o x <-> has_type (strip l) o x.
Proof. exact (sr_dedup_keeps_types eq_refl). Qed.

(* ---- the sort step: whatever is put into SortedRecords comes out in
   canonical owner order, nothing added, and (with the dedup) no (owner, type)
   pair lost -- the precondition of the generators' theorems *)
From Coq Require Import Permutation.

Lemma sr_cmp_name x y : sr_cmp x y <> Gt -> name_cmp (sr_name x) (sr_name y) <> Gt.
Proof. unfold sr_cmp. destruct (name_cmp (sr_name x) (sr_name y)); congruence. Qed.
Lemma sr_cmp_name_gt x y : sr_cmp x y = Gt -> name_cmp (sr_name y) (sr_name x) <> Gt.
Proof.
  unfold sr_cmp. rewrite (name_cmp_antisym (sr_name x) (sr_name y)).
  destruct (name_cmp (sr_name x) (sr_name y)); cbn [CompOpp]; congruence.
Qed.

Definition names_le (a b : srec) : Prop := name_cmp (sr_name a) (sr_name b) <> Gt.

Lemma sr_insert_perm x l : Permutation (sr_insert x l) (x :: l).
Proof.
  induction l as [|y r IH]; cbn [sr_insert]; [apply Permutation_refl|].
  destruct (sr_cmp x y); try apply Permutation_refl.
  eapply Permutation_trans; [apply perm_skip; exact IH|apply perm_swap].
Qed.

Lemma sr_sort_perm l : Permutation (sr_sort l) l.
Proof.
  unfold sr_sort. induction l as [|a l IH]; cbn [fold_right]; [apply Permutation_refl|].
  eapply Permutation_trans; [apply sr_insert_perm|apply perm_skip; exact IH].
Qed.

Lemma sr_insert_sorted x l : StronglySorted names_le l -> StronglySorted names_le (sr_insert x l).
Proof.
  induction 1 as [|y r Hs IH Hy]; cbn [sr_insert]; [repeat constructor|].
  assert (Keep : sr_cmp x y <> Gt -> StronglySorted names_le (x :: y :: r)).
  { intros Hle. constructor; [constructor; assumption|]. constructor; [apply sr_cmp_name; exact Hle|].
    eapply Forall_impl; [|exact Hy]. intros z Hz. unfold names_le in *.
    eapply name_cmp_le_trans; [apply sr_cmp_name; exact Hle|exact Hz]. }
  destruct (sr_cmp x y) eqn:E.
  - apply Keep. discriminate.
  - apply Keep. discriminate.
  - constructor; [exact IH|]. apply Forall_forall. intros z Hz.
    apply (Permutation_in _ (sr_insert_perm x r)) in Hz as [<-|Hz].
    + apply sr_cmp_name_gt. exact E.
    + rewrite Forall_forall in Hy. apply Hy. exact Hz.
Qed.

Lemma sr_sort_sorted l : StronglySorted names_le (sr_sort l).
Proof.
  unfold sr_sort. induction l as [|a l IH]; cbn [fold_right]; [constructor|].
  apply sr_insert_sorted. exact IH.
Qed.

Lemma sr_dedup_from_sub prev : forall l x, In x (sr_dedup_from prev l) -> In x l.
Proof.
  intros l; revert prev; induction l as [|y r IH]; intros prev x; cbn [sr_dedup_from]; [intros []|].
  destruct (srec_eqb y prev); [intros H; right; eapply IH; exact H|].
  intros [<-|H]; [left; reflexivity|right; eapply IH; exact H].
Qed.

Lemma sr_dedup_from_sorted prev : forall l, StronglySorted names_le l -> StronglySorted names_le (sr_dedup_from prev l).
Proof.
  intros l; revert prev; induction l as [|y r IH]; intros prev Hs; cbn [sr_dedup_from]; [constructor|].
  apply StronglySorted_inv in Hs as [Hs Hy].
  destruct (srec_eqb y prev); [apply IH; exact Hs|].
  constructor; [apply IH; exact Hs|]. apply Forall_forall. intros z Hz.
  rewrite Forall_forall in Hy. apply Hy. eapply sr_dedup_from_sub. exact Hz.
Qed.

Lemma names_le_zone_sorted l : StronglySorted names_le l -> zone_sorted (strip l).
Proof.
  unfold zone_sorted, strip. induction 1 as [|a l Hs IH Ha]; cbn [map]; constructor; [exact IH|].
  apply Forall_forall. intros y Hy. apply in_map_iff in Hy as (b & <- & Hb).
  rewrite Forall_forall in Ha. apply (Ha b Hb).
Qed.

Theorem sorted_records_sorted l : zone_sorted (strip (sorted_records l)).
Proof.
  apply names_le_zone_sorted. unfold sorted_records, sr_dedup.
  pose proof (sr_sort_sorted l) as Hs. destruct (sr_sort l) as [|x r]; [constructor|].
  apply StronglySorted_inv in Hs as [Hs Hx]. constructor; [apply sr_dedup_from_sorted; exact Hs|].
  apply Forall_forall. intros z Hz. rewrite Forall_forall in Hx. apply Hx. eapply sr_dedup_from_sub. exact Hz.
Qed.

Theorem sorted_records_types l o x :
  has_type (strip (sorted_records l)) o x <-> has_type (strip l) o x.
Proof.
  unfold sorted_records. rewrite sorted_records_keep_types.
  unfold has_type, strip. split; intros (m & Hin & Em); exists m; (split; [|exact Em]);
    apply in_map_iff in Hin as (r & Er & Hr); apply in_map_iff; exists r; (split; [exact Er|]).
  - apply (Permutation_in _ (sr_sort_perm l)). exact Hr.
  - apply (Permutation_in _ (Permutation_sym (sr_sort_perm l))). exact Hr.
Qed.

Example sorted_records_example :
  strip (sorted_records [([[98]; [97]], 1, (true, [1])); ([[97]], 16, (true, [2])); ([[65]], 1, (true, [9]));
                         ([[97]], 16, (true, [2])); ([[97]], 1, (true, [3]))]) =
  [([[97]], 1); ([[65]], 1); ([[97]], 16); ([[98]; [97]], 1)].
Proof. vm_compute. reflexivity. Qed.

(* ---- end to end: records in any order -> SortedRecords -> generate_nsecs *)
From DV Require Import C13.ProofsNsec2 C13.ProofsDeny.

Lemma auth_name_ext apex z1 z2 : (forall o x, has_type z1 o x <-> has_type z2 o x) ->
  forall n, auth_name apex z1 n <-> auth_name apex z2 n.
Proof.
  intros Hx n.
  assert (D : forall cn, deleg apex z1 cn <-> deleg apex z2 cn).
  { intros cn. unfold deleg. rewrite Hx. reflexivity. }
  unfold auth_name, owner_in, occluded. split; intros ((t & Ht) & Hz & Hno).
  - split; [exists t; apply Hx; exact Ht|]. split; [exact Hz|].
    intros (cn & Hd & Hs). apply Hno. exists cn. split; [apply D; exact Hd|exact Hs].
  - split; [exists t; apply Hx; exact Ht|]. split; [exact Hz|].
    intros (cn & Hd & Hs). apply Hno. exists cn. split; [apply D; exact Hd|exact Hs].
Qed.

Theorem sorted_records_nsec_owners l apex dk out :
  generate_nsecs apex dk (strip (sorted_records l)) = Ok out ->
  (forall n, auth_name apex (strip l) n <-> exists r, In r out /\ name_eqb (n_owner r) n = true) /\
  StronglySorted (fun a b => name_cmp (n_owner a) (n_owner b) = Lt) out /\
  (out <> [] -> map n_next out = tl (map n_owner out) ++ [apex]).
Proof.
  intros Ho. pose proof (sorted_records_sorted l) as Hs.
  split; [|split].
  - intros n. rewrite <- (auth_name_ext apex _ _ (sorted_records_types l) n).
    apply (nsec_owners apex _ Hs dk out Ho).
  - apply (nsec_sorted apex _ Hs dk out Ho).
  - apply (nsec_closed apex _ dk out Ho).
Qed.

(* ---- with the class: the vector is ordered by class first; for records of
   one class (a zone) the class plays no role *)
Definition one_class (k : N) (l : list crec) : Prop := Forall (fun x => fst x = k) l.

Lemma cr_cmp_one_class k x y : fst x = k -> fst y = k -> cr_cmp x y = sr_cmp (snd x) (snd y).
Proof. intros Hx Hy. unfold cr_cmp. cbv [record_cmp_class_first]. rewrite Hx, Hy, N.compare_refl. reflexivity. Qed.

Lemma cr_insert_erase k x l : fst x = k -> one_class k l ->
  map snd (cr_insert x l) = sr_insert (snd x) (map snd l) /\ one_class k (cr_insert x l).
Proof.
  intros Hx Hl. induction Hl as [|y r Hy Hr IH]; cbn [cr_insert map sr_insert].
  - split; [reflexivity|repeat constructor; exact Hx].
  - rewrite (cr_cmp_one_class k x y Hx Hy). destruct IH as [I1 I2].
    destruct (sr_cmp (snd x) (snd y)); cbn [map].
    + split; [reflexivity|]. constructor; [exact Hx|constructor; assumption].
    + split; [reflexivity|]. constructor; [exact Hx|constructor; assumption].
    + split; [rewrite I1; reflexivity|constructor; assumption].
Qed.

Lemma cr_sort_erase k l : one_class k l -> map snd (cr_sort l) = sr_sort (map snd l) /\ one_class k (cr_sort l).
Proof.
  unfold cr_sort, sr_sort. induction 1 as [|x r Hx Hr [I1 I2]]; cbn [fold_right map]; [split; [reflexivity|constructor]|].
  destruct (cr_insert_erase k x _ Hx I2) as [J1 J2]. rewrite J1, I1. split; [reflexivity|exact J2].
Qed.

Lemma cr_eqb_one_class k x y : fst x = k -> fst y = k -> cr_eqb x y = srec_eqb (snd x) (snd y).
Proof. intros Hx Hy. unfold cr_eqb. rewrite Hx, Hy, N.eqb_refl. reflexivity. Qed.

Lemma cr_dedup_from_erase k : forall l prev, fst prev = k -> one_class k l ->
  map snd (cr_dedup_from prev l) = sr_dedup_from (snd prev) (map snd l).
Proof.
  induction l as [|x r IH]; intros prev Hp Hl; [reflexivity|].
  pose proof (Forall_inv Hl) as Hx. pose proof (Forall_inv_tail Hl) as Hr. cbn beta in Hx.
  cbn [cr_dedup_from map sr_dedup_from]. rewrite (cr_eqb_one_class _ x prev Hx Hp).
  destruct (srec_eqb (snd x) (snd prev)); [apply IH; assumption|]. cbn [map]. rewrite IH by assumption. reflexivity.
Qed.

Theorem sorted_records_one_class k l : one_class k l ->
  map snd (sorted_records_c l) = sorted_records (map snd l).
Proof.
  intros Hl. unfold sorted_records_c, sorted_records. destruct (cr_sort_erase k l Hl) as [E1 E2]. rewrite <- E1.
  destruct (cr_sort l) as [|x r]; [reflexivity|].
  pose proof (Forall_inv E2) as Hx. pose proof (Forall_inv_tail E2) as Hr. cbn beta in Hx.
  cbn [cr_dedup map sr_dedup]. rewrite (cr_dedup_from_erase k) by assumption. reflexivity.
Qed.

Lemma cr_insert_perm x l : Permutation (cr_insert x l) (x :: l).
Proof.
  induction l as [|y r IH]; cbn [cr_insert]; [apply Permutation_refl|].
  destruct (cr_cmp x y); try apply Permutation_refl.
  eapply Permutation_trans; [apply perm_skip; exact IH|apply perm_swap].
Qed.

Definition class_le (a b : crec) : Prop := fst a <= fst b.

Lemma cr_insert_class_sorted x l : StronglySorted class_le l -> StronglySorted class_le (cr_insert x l).
Proof.
  induction 1 as [|y r Hs IH Hy]; cbn [cr_insert]; [repeat constructor|].
  assert (C : cr_cmp x y <> Gt -> fst x <= fst y).
  { unfold cr_cmp. cbv [record_cmp_class_first]. destruct (N.compare_spec (fst x) (fst y)); intros; try lia. congruence. }
  assert (G : cr_cmp x y = Gt -> fst y <= fst x).
  { unfold cr_cmp. cbv [record_cmp_class_first]. destruct (N.compare_spec (fst x) (fst y)); intros; try lia. discriminate. }
  destruct (cr_cmp x y) eqn:E.
  - constructor; [constructor; assumption|]. constructor; [apply C; discriminate|].
    eapply Forall_impl; [|exact Hy]. unfold class_le. intros z Hz. specialize (C ltac:(discriminate)). lia.
  - constructor; [constructor; assumption|]. constructor; [apply C; discriminate|].
    eapply Forall_impl; [|exact Hy]. unfold class_le. intros z Hz. specialize (C ltac:(discriminate)). lia.
  - constructor; [exact IH|]. apply Forall_forall. intros z Hz.
    apply (Permutation_in _ (cr_insert_perm x r)) in Hz as [<-|Hz]; [apply G; reflexivity|].
    rewrite Forall_forall in Hy. apply Hy. exact Hz.
Qed.

Theorem cr_sort_class_sorted l : StronglySorted class_le (cr_sort l).
Proof.
  unfold cr_sort. induction l as [|a l IH]; cbn [fold_right]; [constructor|]. apply cr_insert_class_sorted. exact IH.
Qed.

(* ---- every entry point of SortedRecords, in any sequence, keeps the
   collection in canonical owner order and keeps every (owner, type) *)
Lemma sorted_records_names_le l : StronglySorted names_le (sorted_records l).
Proof.
  unfold sorted_records, sr_dedup. pose proof (sr_sort_sorted l) as Hs. destruct (sr_sort l) as [|x r]; [constructor|].
  apply StronglySorted_inv in Hs as [Hs Hx]. constructor; [apply sr_dedup_from_sorted; exact Hs|].
  apply Forall_forall. intros z Hz. rewrite Forall_forall in Hx. apply Hx. eapply sr_dedup_from_sub. exact Hz.
Qed.

Lemma sr_apply_sorted v op : StronglySorted names_le v -> StronglySorted names_le (sr_apply v op).
Proof.
  intros Hv. destruct op as [l|l|x]; cbn [sr_apply]; try apply sorted_records_names_le.
  unfold sr_add. destruct (sr_has_eq x v); [exact Hv|apply sr_insert_sorted; exact Hv].
Qed.

Lemma sr_run_names_le ops : forall v, StronglySorted names_le v -> StronglySorted names_le (fold_left sr_apply ops v).
Proof. induction ops as [|op ops IH]; intros v Hv; cbn [fold_left]; [exact Hv|]. apply IH. apply sr_apply_sorted. exact Hv. Qed.

Theorem sr_run_sorted ops : zone_sorted (strip (sr_run ops)).
Proof. apply names_le_zone_sorted. apply sr_run_names_le. constructor. Qed.

Lemma has_type_app a b o x : has_type (a ++ b) o x <-> has_type a o x \/ has_type b o x.
Proof.
  unfold has_type. split.
  - intros (m & Hin & E). apply in_app_or in Hin as [H|H]; [left|right]; exists m; split; assumption.
  - intros [(m & H & E)|(m & H & E)]; exists m; (split; [apply in_or_app|exact E]); [left|right]; exact H.
Qed.

Lemma strip_app a b : strip (a ++ b) = strip a ++ strip b.
Proof. apply map_app. Qed.

Lemma sr_cmp_eq_type y x : sr_cmp y x = Eq -> name_eqb (sr_name y) (sr_name x) = true /\ sr_type y = sr_type x.
Proof.
  unfold sr_cmp. destruct (name_cmp (sr_name y) (sr_name x)) eqn:E1; try discriminate.
  destruct (N.compare_spec (sr_type y) (sr_type x)); try discriminate. intros _. split; [apply name_eqb_cmp; exact E1|assumption].
Qed.

Lemma sr_add_types v x o t : has_type (strip (sr_add v x)) o t <-> has_type (strip (v ++ [x])) o t.
Proof.
  unfold sr_add. rewrite strip_app, has_type_app. destruct (sr_has_eq x v) eqn:E.
  - split; [intros H; left; exact H|]. intros [H|H]; [exact H|].
    unfold sr_has_eq in E. apply existsb_exists in E as (y & Hy & Ey).
    destruct (sr_cmp y x) eqn:C; try discriminate. destruct (sr_cmp_eq_type _ _ C) as [En Et].
    destruct H as (m & [Hm|[]] & Em). destruct x as [[nx tx] dx], y as [[ny ty] dy]. cbn [fst snd sr_name sr_type strip map] in *.
    injection Hm as <- <-. exists ny. split; [|eapply name_eqb_trans; eassumption].
    apply in_map_iff. exists (ny, ty, dy). split; [cbn [fst]; congruence|exact Hy].
  - unfold has_type, strip. split.
    + intros (m & Hin & Em). apply in_map_iff in Hin as (r & Er & Hr).
      apply (Permutation_in _ (sr_insert_perm x v)) in Hr.
      destruct Hr as [Hr|Hr].
      * subst r. right. exists m. split; [|exact Em]. apply in_map_iff. exists x. split; [exact Er|left; reflexivity].
      * left. exists m. split; [|exact Em]. apply in_map_iff. exists r. split; assumption.
    + intros [(m & Hin & Em)|(m & Hin & Em)]; exists m; (split; [|exact Em]); apply in_map_iff in Hin as (r & Er & Hr);
        apply in_map_iff; exists r; (split; [exact Er|]); apply (Permutation_in _ (Permutation_sym (sr_insert_perm x v))).
      * right. exact Hr.
      * destruct Hr as [Hr|[]]. left. exact Hr.
Qed.

Theorem sr_run_types ops o t : has_type (strip (sr_run ops)) o t <-> has_type (strip (sr_input ops)) o t.
Proof.
  unfold sr_run, sr_input.
  assert (G : forall v acc, (forall o t, has_type (strip v) o t <-> has_type (strip acc) o t) ->
            (has_type (strip (fold_left sr_apply ops v)) o t <-> has_type (strip (fold_left sr_input_step ops acc)) o t)).
  { induction ops as [|op ops IH]; intros v acc Hva; cbn [fold_left]; [apply Hva|]. apply IH. intros o' t'.
    destruct op as [l|l|x]; cbn [sr_apply sr_input_step].
    - apply sorted_records_types.
    - rewrite sorted_records_types, !strip_app, !has_type_app, Hva. reflexivity.
    - rewrite sr_add_types, !strip_app, !has_type_app, Hva. reflexivity. }
  apply G. intros; reflexivity.
Qed.

Example sr_run_example :
  strip (sr_run [OpExtend [([[110]], 1, (true, [1])); ([[119]], 1, (true, [1]))];
                 OpExtend [([[97]], 1, (true, [1]))]; OpInsert ([[109]], 15, (true, [1]));
                 OpInsert ([[97]], 1, (true, [1]))]) =
  [([[97]], 1); ([[109]], 15); ([[110]], 1); ([[119]], 1)].
Proof. vm_compute. reflexivity. Qed.

(* ---- any sorting algorithm: whatever slice::sort_by does, if its result is a
   permutation of the input and ordered by canonical_cmp, the collection is in
   canonical owner order and complete (stability is not needed for that) *)
Definition cmp_sorted (v : list srec) : Prop := StronglySorted (fun a b => sr_cmp a b <> Gt) v.

Lemma cmp_sorted_names_le v : cmp_sorted v -> StronglySorted names_le v.
Proof. apply sorted_weaken. intros a b. apply sr_cmp_name. Qed.

Theorem any_sort_spec l v : Permutation v l -> cmp_sorted v ->
  zone_sorted (strip (sr_dedup v)) /\
  (unknown_eq_checks_rtype = true -> forall o x, has_type (strip (sr_dedup v)) o x <-> has_type (strip l) o x).
Proof.
  intros Hp Hs. apply cmp_sorted_names_le in Hs. split.
  - apply names_le_zone_sorted. unfold sr_dedup. destruct v as [|x r]; [constructor|].
    apply StronglySorted_inv in Hs as [Hs Hx]. constructor; [apply sr_dedup_from_sorted; exact Hs|].
    apply Forall_forall. intros z Hz. rewrite Forall_forall in Hx. apply Hx. eapply sr_dedup_from_sub. exact Hz.
  - intros U o x. rewrite (sr_dedup_keeps_types U). unfold has_type, strip.
    split; intros (m & Hin & Em); exists m; (split; [|exact Em]);
      apply in_map_iff in Hin as (r & Er & Hr); apply in_map_iff; exists r; (split; [exact Er|]).
    + apply (Permutation_in _ Hp). exact Hr.
    + apply (Permutation_in _ (Permutation_sym Hp)). exact Hr.
Qed.

Theorem any_sort_nsec_end_to_end l v apex dk out : Permutation v l -> cmp_sorted v ->
  generate_nsecs apex dk (strip (sr_dedup v)) = Ok out ->
  (forall n, auth_name apex (strip l) n <-> exists r, In r out /\ name_eqb (n_owner r) n = true) /\
  StronglySorted (fun a b => name_cmp (n_owner a) (n_owner b) = Lt) out.
Proof.
  intros Hp Hs Ho. destruct (any_sort_spec l v Hp Hs) as [Z T]. split.
  - intros n. rewrite <- (auth_name_ext apex _ _ (T eq_refl) n). apply (nsec_owners apex _ Z dk out Ho).
  - apply (nsec_sorted apex _ Z dk out Ho).
Qed.

Example any_sort_example :
  let l := [([[98]], 1, (true, [1])); ([[97]], 16, (true, [2])); ([[97]], 1, (true, [3]))] in
  Permutation (sr_sort l) l /\ cmp_sorted (sr_sort l).
Proof.
  cbn zeta. split; [apply sr_sort_perm|]. vm_compute sr_sort. unfold cmp_sorted.
  repeat (constructor; [|repeat (constructor; [vm_compute; discriminate|]); constructor]). constructor.
Qed.

(* ---- composite statements in the form Props.v exports *)
Theorem sorted_records_entry_points ops :
  zone_sorted (strip (sr_run ops)) /\
  forall o t, has_type (strip (sr_run ops)) o t <-> has_type (strip (sr_input ops)) o t.
Proof. split; [apply sr_run_sorted|apply sr_run_types]. Qed.

Theorem sorted_records_sorted_and_complete l :
  zone_sorted (strip (sorted_records l)) /\
  forall o x, has_type (strip (sorted_records l)) o x <-> has_type (strip l) o x.
Proof. split; [apply sorted_records_sorted|apply sorted_records_types]. Qed.

Theorem sorted_records_class l :
  StronglySorted (fun a b => fst a <= fst b) (cr_sort l) /\
  (forall k, Forall (fun x => fst x = k) l -> map snd (sorted_records_c l) = sorted_records (map snd l)).
Proof. split; [exact (cr_sort_class_sorted l)|intros k; exact (sorted_records_one_class k l)]. Qed.
