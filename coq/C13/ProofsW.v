(* C13 proofs, widening round 5: the NSEC chain starts at the apex and is a
   closed cycle over its own owners; the NSEC3 next-hash fields are a rotation
   (permutation) of the distinct hashed owners; generate_nsec3s after
   SortedRecords::from_iter on records in any order. *)
From Coq Require Import NArith List Bool Sorted Permutation.
From DV Require Import Base.Outcome Base.Bytes Base.Lex Base.Names C11.Sha C13.Gen C13.Model
  C13.ProofsNames C13.ProofsBitmap C13.ProofsGroups C13.ProofsNsec C13.ProofsNsec2 C13.ProofsDeny C13.ProofsN3a C13.ProofsN3b C13.ProofsN3c C13.ProofsN3d C13.ProofsN3e
  C13.ProofsN3f C13.ProofsDedup.
Import ListNotations.
Local Open Scope N_scope.

(* ---- list facts *)
Lemma in_tl {A} (x : A) l : In x (tl l) -> In x l.
Proof. destruct l as [|a l]; [intros []|intros H; right; exact H]. Qed.

Lemma last_map_f {A B} (f : A -> B) l d : last (map f l) (f d) = f (last l d).
Proof.
  induction l as [|a l IH]; [reflexivity|]. destruct l as [|b l]; [reflexivity|].
  cbn [map last] in *. exact IH.
Qed.

Lemma rot_perm {A} (d : A) l : l <> [] -> Permutation (tl l ++ [hd d l]) l.
Proof.
  destruct l as [|a l]; [intros E; contradiction E; reflexivity|].
  intros _. cbn [tl hd]. apply Permutation_sym. apply Permutation_cons_append.
Qed.

Lemma sorted_lt_nodup (l : list bytes) :
  StronglySorted (fun a b => lex_cmp a b = Lt) l -> NoDup l.
Proof.
  induction 1 as [|a l _ IH F]; constructor; [|exact IH].
  intros Hin. rewrite Forall_forall in F. specialize (F a Hin).
  rewrite lex_cmp_refl in F. discriminate.
Qed.

Lemma sorted_map_fwd {A B} (R : B -> B -> Prop) (f : A -> B) l :
  StronglySorted (fun a b => R (f a) (f b)) l -> StronglySorted R (map f l).
Proof.
  induction 1 as [|a l _ IH F]; cbn [map]; constructor; [exact IH|].
  rewrite Forall_forall in *. intros y Hy. apply in_map_iff in Hy. destruct Hy as (x & <- & Hx).
  apply F. exact Hx.
Qed.

(* ---- NSEC: the apex comes first and the chain is a cycle over its owners *)
Lemma apex_auth apex z : owner_in z apex -> auth_name apex z apex.
Proof.
  intros Ho. split; [exact Ho|]. split; [apply ends_with_refl|].
  intros (cn & (Hz & Hne & _) & (He & _)).
  unfold in_zone in Hz. pose proof (ends_with_both _ _ Hz He) as E. congruence.
Qed.

Theorem nsec_apex_first_cycle apex z dk out :
  zone_sorted z -> owner_in z apex -> generate_nsecs apex dk z = Ok out ->
  (exists r rest, out = r :: rest /\ name_eqb (n_owner r) apex = true /\
                  n_next (last out r) = apex) /\
  (forall r, In r out -> exists r', In r' out /\ name_eqb (n_owner r') (n_next r) = true).
Proof.
  intros Hs Ho Hg.
  destruct (nsec_one_per_auth_name apex z dk out Hs Hg) as (Hiff & _).
  pose proof (nsec_sorted_canonical apex z dk out Hs Hg) as Hsort.
  destruct (proj1 (Hiff apex) (apex_auth apex z Ho)) as (r0 & Hin0 & He0).
  assert (Hne : out <> []) by (intros E; rewrite E in Hin0; exact Hin0).
  pose proof (nsec_closed apex z dk out Hg Hne) as Hcl.
  split.
  - destruct out as [|r rest]; [contradiction Hne; reflexivity|].
    exists r, rest. split; [reflexivity|]. split.
    + destruct Hin0 as [<-|Hin0]; [exact He0|].
      exfalso. inversion Hsort as [|a l _ F]; subst. rewrite Forall_forall in F.
      specialize (F r0 Hin0). cbv beta in F.
      rewrite (name_cmp_eq_r _ _ (n_owner r) He0) in F.
      assert (Ha : auth_name apex z (n_owner r)).
      { apply Hiff. exists r. split; [left; reflexivity|apply name_eqb_refl]. }
      destruct Ha as (_ & Hz & _). apply ends_with_le in Hz.
      rewrite name_cmp_antisym, F in Hz. apply Hz. reflexivity.
    + rewrite <- (last_map_f n_next). rewrite Hcl. apply last_last.
  - intros r Hr. apply (in_map n_next) in Hr. rewrite Hcl in Hr.
    apply in_app_or in Hr. destruct Hr as [Hr|[Hr|[]]].
    + apply in_tl in Hr. apply in_map_iff in Hr. destruct Hr as (r' & E & Hr').
      exists r'. split; [exact Hr'|]. rewrite E. apply name_eqb_refl.
    + exists r0. split; [exact Hin0|]. rewrite <- Hr. exact He0.
Qed.

Example ex_nsec_apex_first :
  zone_sorted ex_zone /\ owner_in ex_zone ex_apex /\ exists out, generate_nsecs ex_apex true ex_zone = Ok out.
Proof.
  split; [exact ex_zone_sorted|]. split.
  - exists rt_SOA. exact (proj2 ex_zone_total).
  - eexists. exact ex_zone_nsec.
Qed.

(* ---- NSEC3: the next fields are a rotation of the (distinct) owners *)
Theorem nsec3_ring_permutation H apex c z out : generate_nsec3s H apex c z = Ok out ->
  NoDup (map h_owner out) /\ Permutation (map h_next out) (map h_owner out) /\
  (forall r, In r out -> exists r', In r' out /\ h_owner r' = h_next r) /\
  (forall r, In r out -> exists r', In r' out /\ h_next r' = h_owner r).
Proof.
  intros Hg. destruct (nsec3_sorted_closed' H apex c z out Hg) as (Hs & Hne & Hcl).
  assert (Hne' : map h_owner out <> []).
  { intros E. apply map_eq_nil in E. exact (Hne E). }
  assert (P : Permutation (map h_next out) (map h_owner out)).
  { rewrite Hcl. apply rot_perm. exact Hne'. }
  split; [apply sorted_lt_nodup; apply sorted_map_fwd; exact Hs|].
  split; [exact P|]. split.
  - intros r Hr. apply (in_map h_next) in Hr. apply (Permutation_in _ P) in Hr.
    apply in_map_iff in Hr. destruct Hr as (r' & E & Hr'). exists r'. split; assumption.
  - intros r Hr. apply (in_map h_owner) in Hr. apply (Permutation_in _ (Permutation_sym P)) in Hr.
    apply in_map_iff in Hr. destruct Hr as (r' & E & Hr'). exists r'. split; assumption.
Qed.

Example ex_nsec3_ring : exists out, generate_nsec3s sha1 ex_apex (ex_cfg 0) ex_zone = Ok out /\ length out = 4%nat.
Proof. eexists. split; [vm_compute; reflexivity|reflexivity]. Qed.

(* ---- records in any order -> SortedRecords -> generate_nsec3s *)
Lemma deleg_ext apex z1 z2 : (forall o x, has_type z1 o x <-> has_type z2 o x) ->
  forall n, deleg apex z1 n <-> deleg apex z2 n.
Proof. intros Hx n. unfold deleg. rewrite Hx. reflexivity. Qed.

Lemma included_ext apex z1 z2 excl : (forall o x, has_type z1 o x <-> has_type z2 o x) ->
  forall n, included apex z1 excl n <-> included apex z2 excl n.
Proof.
  intros Hx n. unfold included.
  rewrite (auth_name_ext apex z1 z2 Hx n), (deleg_ext apex z1 z2 Hx n), (Hx n rt_DS). reflexivity.
Qed.

Lemma owner_in_ext z1 z2 : (forall o x, has_type z1 o x <-> has_type z2 o x) ->
  forall n, owner_in z1 n <-> owner_in z2 n.
Proof.
  intros Hx n. unfold owner_in. split; intros (t & Ht); exists t; apply Hx; exact Ht.
Qed.

Lemma ent3_ext apex z1 z2 excl : (forall o x, has_type z1 o x <-> has_type z2 o x) ->
  forall n, ent3 apex z1 excl n <-> ent3 apex z2 excl n.
Proof.
  intros Hx n. unfold ent3. rewrite (owner_in_ext z1 z2 Hx n).
  split; intros (A & B & o & Io & So); (split; [exact A|]; split; [exact B|]; exists o; split; [|exact So]);
    apply (included_ext apex z1 z2 excl Hx o); exact Io.
Qed.

Theorem sorted_records_nsec3_end_to_end H l apex c out :
  generate_nsec3s H apex c (strip (sorted_records l)) = Ok out ->
  (forall x, (exists r, In r out /\ h_owner r = x) <->
     (exists n, (included apex (strip l) (optout_excl c) n \/ ent3 apex (strip l) (optout_excl c) n) /\
                x = nsec3_hash H n (c_iters c) (c_salt c))) /\
  StronglySorted (fun a b => lex_cmp (h_owner a) (h_owner b) = Lt) out /\
  map h_next out = tl (map h_owner out) ++ [hd [] (map h_owner out)] /\
  no_panic (generate_nsec3s H apex c (strip (sorted_records l))).
Proof.
  intros Hg. pose proof (sorted_records_sorted l) as Hs.
  pose proof (sorted_records_types l) as Hx.
  destruct (nsec3_sorted_closed' H apex c _ out Hg) as (S1 & _ & S2).
  split; [|split; [exact S1|split; [exact S2|apply nsec3_no_panic; exact Hs]]].
  intros x. rewrite (nsec3_owners' H apex c _ out Hs Hg x).
  split; intros (n & [I|E] & Hn); exists n; (split; [|exact Hn]).
  - left. apply (included_ext apex _ _ (optout_excl c) Hx n). exact I.
  - right. apply (ent3_ext apex _ _ (optout_excl c) Hx n). exact E.
  - left. apply (included_ext apex _ _ (optout_excl c) Hx n). exact I.
  - right. apply (ent3_ext apex _ _ (optout_excl c) Hx n). exact E.
Qed.

Example ex_sorted_records_nsec3 :
  exists out, generate_nsec3s sha1 [[101; 120]] (ex_cfg 0)
    (strip (sorted_records [([[97]; [98]; [101; 120]], 1, (false, [1])); ([[101; 120]], 6, (false, [2]))])) = Ok out
    /\ length out = 3%nat.
Proof. eexists. split; [vm_compute; reflexivity|reflexivity]. Qed.

(* ---- NSEC3 denial with the collision premise reduced to what the proof
   needs: no included name of THIS zone collides with the probed name (the
   premise of nsec3_denies, injectivity over all names, cannot hold for a
   digest with a bounded output) *)
Theorem nsec3_denies_local H apex c z out :
  zone_sorted z -> types_ok z -> generate_nsec3s H apex c z = Ok out ->
  forall n,
  (forall a, included apex z (optout_excl c) a -> hashn H c a = hashn H c n -> name_eqb a n = true) ->
  forall t, ~ has_type z n t -> t <> 46 ->
    ~ (name_eqb n apex = true /\ (t = 51 \/ (c_dnskey c = true /\ t = 48))) ->
    exists r, In r out /\
      ((h_owner r = hashn H c n /\ bm_contains (h_types r) t = Ok false) \/ h3_covers r (hashn H c n)).
Proof.
  intros Hs Ht Hout n Hinj t Hno H46 Hapex.
  destruct (nsec3_sorted_closed H apex c z out Hout) as (S1 & S2 & S3).
  destruct (owner_dec out (hashn H c n)) as [(r & Hr & Er)|Hnone].
  - exists r. split; [exact Hr|]. left. split; [exact Er|].
    destruct (nsec3_bitmap_exact H apex c z Hs out Hout Ht r Hr) as (m & Em & [[Hinc Hb]|[_ He]]).
    + assert (Emn : name_eqb m n = true) by (apply Hinj; [exact Hinc|unfold hashn in *; congruence]).
      destruct (Hb t) as (b & Hc & Hiff). rewrite Hc. f_equal. destruct b; [|reflexivity]. exfalso.
      destruct Hiff as [Hiff _]. destruct (Hiff eq_refl) as [[X _]|[[X1 X2]|[X _]]].
      * contradiction.
      * apply Hapex. split; [|exact X2]. rewrite name_eqb_sym in Emn. eapply name_eqb_trans; eassumption.
      * apply Hno. apply (has_type_eq_name z m n t Emn). exact X.
    + rewrite He. apply bm_contains_empty.
  - destruct (ring_cover out (hashn H c n) S1 S2 S3 Hnone) as (r & Hr & Hc).
    exists r. split; [exact Hr|right; exact Hc].
Qed.

(* the old, global premise implies the local one *)
Lemma nsec3_denies_local_weaker H apex c z :
  (forall a b, hashn H c a = hashn H c b -> name_eqb a b = true) ->
  forall n a, included apex z (optout_excl c) a -> hashn H c a = hashn H c n -> name_eqb a n = true.
Proof. intros G n a _ E. apply G. exact E. Qed.

Example ex_nsec3_denies_local :
  exists out r, generate_nsec3s sha1 ex_apex (ex_cfg 0) ex_zone = Ok out /\ nth_error out 1 = Some r /\
    h3_covers r (hashn sha1 (ex_cfg 0) [[103]; [122]; [101; 120]]).
Proof.
  eexists. eexists. split; [vm_compute; reflexivity|]. split; [reflexivity|].
  left. vm_compute. repeat split.
Qed.

(* ---- denial of existence, from records in any order *)
Lemma types_ok_ext z1 z2 : (forall o x, has_type z1 o x <-> has_type z2 o x) -> types_ok z2 -> types_ok z1.
Proof.
  intros Hx T. unfold types_ok in *. rewrite Forall_forall in *. intros [m t] Hin.
  assert (Ht : has_type z1 m t) by (exists m; split; [exact Hin|apply name_eqb_refl]).
  apply Hx in Ht. destruct Ht as (m' & Hin' & _). exact (T _ Hin').
Qed.

Theorem sorted_records_denies H l apex dk c :
  types_ok (strip l) ->
  (forall out, generate_nsecs apex dk (strip (sorted_records l)) = Ok out -> owner_in (strip l) apex ->
     forall n t, in_zone apex n -> ~ has_type (strip l) n t -> t <> 46 -> t <> 47 ->
       ~ (dk = true /\ name_eqb n apex = true /\ t = 48) ->
       exists r, In r out /\
         ((name_eqb (n_owner r) n = true /\ bm_contains (n_types r) t = Ok false) \/ nsec_covers r n)) /\
  (forall out, generate_nsec3s H apex c (strip (sorted_records l)) = Ok out ->
     forall n,
     (forall a, included apex (strip l) (optout_excl c) a -> hashn H c a = hashn H c n -> name_eqb a n = true) ->
     forall t, ~ has_type (strip l) n t -> t <> 46 ->
       ~ (name_eqb n apex = true /\ (t = 51 \/ (c_dnskey c = true /\ t = 48))) ->
       exists r, In r out /\
         ((h_owner r = hashn H c n /\ bm_contains (h_types r) t = Ok false) \/ h3_covers r (hashn H c n))).
Proof.
  intros T. pose proof (sorted_records_sorted l) as Hs. pose proof (sorted_records_types l) as Hx.
  pose proof (types_ok_ext _ _ Hx T) as T'.
  split.
  - intros out Hg Ho n t Hz Hno H46 H47 Hdk.
    apply (nsec_denies apex _ dk out Hs T' Hg); try assumption.
    + apply (owner_in_ext _ _ Hx apex). exact Ho.
    + intros X. apply Hno. apply Hx. exact X.
  - intros out Hg n Hinj t Hno H46 Hap.
    apply (nsec3_denies_local H apex c _ out Hs T' Hg n); try assumption.
    + intros a Ia. apply Hinj. apply (included_ext apex _ _ (optout_excl c) Hx a). exact Ia.
    + intros X. apply Hno. apply Hx. exact X.
Qed.

Example ex_sorted_records_denies :
  types_ok (strip [([[97]; [98]; [101; 120]], 1, (false, [1])); ([[101; 120]], 6, (false, [2]))]) /\
  exists out, generate_nsecs [[101; 120]] true
    (strip (sorted_records [([[97]; [98]; [101; 120]], 1, (false, [1])); ([[101; 120]], 6, (false, [2]))])) = Ok out
    /\ length out = 2%nat.
Proof.
  split; [repeat constructor|]. eexists. split; [vm_compute; reflexivity|reflexivity].
Qed.
