From Coq Require Import Extraction ExtrOcamlBasic NArith.
From DV Require Import Base.Outcome C13.Gen C13.Model C13.ModelLabel.
Extraction Language OCaml.
Extraction "../build/ml/C13/model.ml" c13_bitmap c13_nsec c13_nsec3 c13_hash c13_dedup c13_nsec_t c13_sorted_records c13_label c13_bm_iter c13_nsec3_t c13_bm_parse c13_sr_run.
