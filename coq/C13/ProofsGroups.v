(* C13 proofs, part 3: skip_before and the grouping of sorted records. *)
From Coq Require Import NArith ZArith Arith List Bool Lia Sorted.
From DV Require Import Base.Outcome Base.Bytes Base.Lex Base.Names C13.Gen C13.Model C13.ProofsNames.
Import ListNotations.
Local Open Scope N_scope.

Definition owners_lt (a b : group) : Prop := name_cmp (fst a) (fst b) = Lt.

Definition group_ok (l : list rec) (g : group) : Prop :=
  (exists t, In (fst g, t) l) /\ (forall t, In t (snd g) <-> has_type l (fst g) t).

Lemma has_type_cons_ne n t l o x : name_eqb n o = false ->
  (has_type ((n, t) :: l) o x <-> has_type l o x).
Proof.
  intros Hne. unfold has_type. split.
  - intros (m & [E|Hin] & Hm); [injection E as -> ->; congruence|eauto].
  - intros (m & Hin & Hm). exists m. split; [right; exact Hin|exact Hm].
Qed.

Lemma has_type_cons_eq n t l o x : name_eqb n o = true ->
  (has_type ((n, t) :: l) o x <-> x = t \/ has_type l o x).
Proof.
  intros He. unfold has_type. split.
  - intros (m & [E|Hin] & Hm); [injection E as -> ->; left; reflexivity|right; eauto].
  - intros [->|(m & Hin & Hm)]; [exists n; split; [left; reflexivity|exact He]|].
    exists m. split; [right; exact Hin|exact Hm].
Qed.

Lemma has_type_eq_name l a b t : name_eqb a b = true -> (has_type l a t <-> has_type l b t).
Proof.
  intros H. unfold has_type. split; intros (m & Hin & Hm); exists m; split; auto.
  - eapply name_eqb_trans; eassumption.
  - rewrite name_eqb_sym in H. eapply name_eqb_trans; eassumption.
Qed.

Lemma group_ok_cons_ne n t l g : name_eqb n (fst g) = false -> group_ok l g -> group_ok ((n, t) :: l) g.
Proof.
  intros Hne [[t0 H0] H1]. split; [exists t0; right; exact H0|].
  intros x. rewrite has_type_cons_ne by exact Hne. apply H1.
Qed.

Lemma lt_not_eqb a b : name_cmp a b = Lt -> name_eqb a b = false.
Proof.
  intros H. destruct (name_eqb a b) eqn:E; [|reflexivity].
  apply name_eqb_cmp in E. congruence.
Qed.
Lemma lt_not_eqb' a b : name_cmp a b = Lt -> name_eqb b a = false.
Proof. intros H. rewrite name_eqb_sym. apply lt_not_eqb. exact H. Qed.

Lemma le_neq_lt a b : name_cmp a b <> Gt -> name_eqb b a = false -> name_cmp a b = Lt.
Proof.
  intros H1 H2. destruct (name_cmp a b) eqn:E; try congruence.
  apply name_eqb_cmp in E. rewrite name_eqb_sym in E. congruence.
Qed.

Lemma groups_from_spec l : forall first,
  (forall r, In r l -> name_cmp first (fst r) <> Gt) -> zone_sorted l ->
  (forall t, In t (fst (groups_from first l)) <-> has_type l first t) /\
  Forall (fun g => name_cmp first (fst g) = Lt /\ group_ok l g) (snd (groups_from first l)) /\
  StronglySorted owners_lt (snd (groups_from first l)) /\
  (forall n t, In (n, t) l -> name_eqb n first = true \/
     exists g, In g (snd (groups_from first l)) /\ name_eqb n (fst g) = true).
Proof.
  induction l as [|[n t] l IH]; intros first Hge Hs.
  - cbn [groups_from fst snd]. split; [|split; [|split]].
    + intros t. split; [intros []|intros (m & [] & _)].
    + constructor.
    + constructor.
    + intros n t [].
  - apply StronglySorted_inv in Hs as [Hs' Hhd]. cbn [groups_from].
    destruct (name_eqb n first) eqn:En.
    + (* same owner *)
      assert (Hge' : forall r, In r l -> name_cmp first (fst r) <> Gt)
        by (intros r Hr; apply Hge; right; exact Hr).
      destruct (IH first Hge' Hs') as (A & B & C & D).
      destruct (groups_from first l) as [ts gs]. cbn [fst snd] in *.
      split; [|split; [|split]].
      * intros x. rewrite has_type_cons_eq by exact En. cbn [In]. rewrite A. intuition congruence.
      * eapply Forall_impl; [|exact B]. cbn beta. intros g [G1 G2]. split; [exact G1|].
        apply group_ok_cons_ne; [|exact G2].
        destruct (name_eqb n (fst g)) eqn:E; [|reflexivity].
        rewrite name_eqb_sym in En. pose proof (name_eqb_trans _ _ _ En E) as F.
        apply name_eqb_cmp in F. congruence.
      * exact C.
      * intros n' t' [E|Hin]; [injection E as <- <-; left; exact En|apply D with t'; exact Hin].
    + (* new owner *)
      assert (Hlt : name_cmp first n = Lt).
      { apply le_neq_lt; [apply (Hge (n, t)); left; reflexivity|exact En]. }
      assert (Hge' : forall r, In r l -> name_cmp n (fst r) <> Gt).
      { intros r Hr. rewrite Forall_forall in Hhd. apply (Hhd r Hr). }
      destruct (IH n Hge' Hs') as (A & B & C & D).
      destruct (groups_from n l) as [ts gs]. cbn [fst snd] in *.
      split; [|split; [|split]].
      * intros x. split; [intros []|].
        intros (m & Hin & Hm). exfalso.
        assert (Hfm : name_cmp first m = Lt).
        { destruct Hin as [E|Hin]; [injection E as <- <-; exact Hlt|].
          eapply name_cmp_lt_le_trans; [exact Hlt|apply (Hge' (m, x) Hin)]. }
        apply lt_not_eqb' in Hfm. congruence.
      * constructor.
        -- cbn [fst snd]. split; [exact Hlt|]. split; [exists t; left; reflexivity|].
           intros x. cbn [fst snd]. rewrite has_type_cons_eq by apply name_eqb_refl. cbn [In]. rewrite A.
           intuition congruence.
        -- eapply Forall_impl; [|exact B]. cbn beta. intros g [G1 G2]. split.
           ++ eapply name_cmp_trans; eassumption.
           ++ apply group_ok_cons_ne; [apply lt_not_eqb; exact G1|exact G2].
      * constructor; [exact C|]. eapply Forall_impl; [|exact B]. cbn beta. intros g [G1 _]. exact G1.
      * intros n' t' [E|Hin].
        -- injection E as <- <-. right. exists (n, t :: ts). split; [left; reflexivity|apply name_eqb_refl].
        -- destruct (D n' t' Hin) as [E|(g & Hg & Eg)].
           ++ right. exists (n, t :: ts). split; [left; reflexivity|exact E].
           ++ right. exists g. split; [right; exact Hg|exact Eg].
Qed.

Theorem groups_spec z : zone_sorted z ->
  Forall (group_ok z) (groups z) /\ StronglySorted owners_lt (groups z) /\
  (forall n t, In (n, t) z -> exists g, In g (groups z) /\ name_eqb n (fst g) = true) /\
  (match z with [] => groups z = [] | (n, _) :: _ => exists ts gs, groups z = (n, ts) :: gs end).
Proof.
  intros Hs. destruct z as [|[n t] l]; cbn [groups].
  - split; [constructor|]. split; [constructor|]. split; [intros n t []|reflexivity].
  - apply StronglySorted_inv in Hs as [Hs' Hhd].
    assert (Hge : forall r, In r l -> name_cmp n (fst r) <> Gt).
    { intros r Hr. rewrite Forall_forall in Hhd. apply (Hhd r Hr). }
    destruct (groups_from_spec l n Hge Hs') as (A & B & C & D).
    destruct (groups_from n l) as [ts gs]. cbn [fst snd] in *.
    split; [|split; [|split]].
    + constructor.
      * split; [exists t; left; reflexivity|]. cbn [fst snd]. intros x.
        rewrite has_type_cons_eq by apply name_eqb_refl. cbn [In]. rewrite A. intuition congruence.
      * eapply Forall_impl; [|exact B]. cbn beta. intros g [G1 G2].
        apply group_ok_cons_ne; [apply lt_not_eqb; exact G1|exact G2].
    + constructor; [exact C|]. eapply Forall_impl; [|exact B]. cbn beta. intros g [G1 _]. exact G1.
    + intros n' t' [E|Hin].
      * injection E as <- <-. exists (n, t :: ts). split; [left; reflexivity|apply name_eqb_refl].
      * destruct (D n' t' Hin) as [E|(g & Hg & Eg)].
        -- exists (n, t :: ts). split; [left; reflexivity|exact E].
        -- exists g. split; [right; exact Hg|exact Eg].
    + eauto.
Qed.

(* ---- skip_before *)
Lemma skip_cond apex n : (name_eqb apex n || ends_with n apex) = ends_with n apex.
Proof.
  destruct (name_eqb apex n) eqn:E; [|reflexivity]. cbn [orb].
  rewrite name_eqb_sym in E. symmetry. apply name_eqb_ends_with. exact E.
Qed.

Lemma skip_before_spec apex z :
  exists pre, z = pre ++ skip_before apex z /\
    (forall r, In r pre -> ends_with (fst r) apex = false) /\
    (match skip_before apex z with [] => True | r :: _ => ends_with (fst r) apex = true end).
Proof.
  induction z as [|[n t] z IH]; cbn [skip_before].
  - exists []. repeat split. intros r [].
  - rewrite skip_cond. destruct (ends_with n apex) eqn:E.
    + exists []. repeat split; [intros r []|exact E].
    + destruct IH as (pre & H1 & H2 & H3). exists ((n, t) :: pre). split; [cbn [app]; congruence|].
      split; [|exact H3]. intros r [<-|Hr]; [exact E|apply H2; exact Hr].
Qed.

Lemma sorted_app_r {A} (R : A -> A -> Prop) (a b : list A) : StronglySorted R (a ++ b) -> StronglySorted R b.
Proof.
  induction a as [|x a IH]; cbn [app]; intros H; [exact H|].
  apply StronglySorted_inv in H as [H _]. apply IH. exact H.
Qed.

Lemma skip_before_sorted apex z : zone_sorted z -> zone_sorted (skip_before apex z).
Proof.
  intros H. destruct (skip_before_spec apex z) as (pre & E & _). unfold zone_sorted in *.
  rewrite E in H. eapply sorted_app_r. exact H.
Qed.

Lemma skip_before_has_type apex z n t : in_zone apex n ->
  (has_type (skip_before apex z) n t <-> has_type z n t).
Proof.
  intros Hz. destruct (skip_before_spec apex z) as (pre & E & Hpre & _).
  unfold has_type. split; intros (m & Hin & Hm).
  - exists m. split; [rewrite E; apply in_or_app; right; exact Hin|exact Hm].
  - exists m. split; [|exact Hm]. rewrite E in Hin. apply in_app_or in Hin as [Hin|Hin]; [|exact Hin].
    exfalso. specialize (Hpre _ Hin). cbn [fst] in Hpre.
    unfold in_zone in Hz. rewrite <- (ends_with_eq_l _ _ _ Hm) in Hz. congruence.
Qed.
