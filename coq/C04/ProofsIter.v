(* C04 proofs, part 2: label iterators (flat slices, chains), the loops of
   name_eq / name_cmp / composed_cmp / lowercase_composed_cmp / Hash as list
   functions over the yielded label sequences. *)
From Coq Require Import NArith Arith List Bool Lia ZArith.
From Coq Require Import ZifyN ZifyBool ZifyNat.
From DV Require Import Base.Outcome Base.Bytes Base.Lex Base.Names Base.PName C04.Gen C04.Model
  C04.ProofsLabel.
Import ListNotations.
Local Open Scope N_scope.
Ltac Zify.zify_post_hook ::= Z.div_mod_to_equations.

(* the sequence an iterator yields with next() until None *)
Inductive yields : iter -> list label -> Prop :=
| Y_nil i : iter_next i = Ok None -> yields i []
| Y_cons i l i' ls : iter_next i = Ok (Some (l, i')) -> yields i' ls -> yields i (l :: ls).

(* ... and with next_back() until None *)
Inductive yields_back : iter -> list label -> Prop :=
| YB_nil i : iter_next_back i = Ok None -> yields_back i []
| YB_cons i l i' ls : iter_next_back i = Ok (Some (l, i')) -> yields_back i' ls ->
    yields_back i (l :: ls).

Definition wire_labels (ls : list label) : bytes := concat (map wire_label ls).
Definition short_labels (ls : list label) : Prop := Forall (fun l => (length l <= 63)%nat) ls.

Lemma wire_labels_app a b : wire_labels (a ++ b) = wire_labels a ++ wire_labels b.
Proof. unfold wire_labels. rewrite map_app, concat_app. reflexivity. Qed.

Lemma wire_labels_abs n : wire_labels (n ++ [[]]) = wire_abs n.
Proof. rewrite wire_labels_app. reflexivity. Qed.

Lemma wire_labels_rel n : wire_labels n = wire_rel n.
Proof. reflexivity. Qed.

Lemma wire_labels_length_ge ls : (length ls <= length (wire_labels ls))%nat.
Proof.
  induction ls as [|l ls IH]; [simpl; lia|].
  unfold wire_labels in *. cbn [map concat]. rewrite app_length. unfold wire_label at 1. simpl. lia.
Qed.

Lemma short_labels_app a b : short_labels (a ++ b) <-> short_labels a /\ short_labels b.
Proof. apply Forall_app. Qed.

Lemma valid_short n : Forall valid_label n -> short_labels n.
Proof. intros H. eapply Forall_impl; [|exact H]. intros l [Hl _]. lia. Qed.

Lemma valid_short_root n : Forall valid_label n -> short_labels (n ++ [[]]).
Proof. intros H. apply short_labels_app. split; [apply valid_short; exact H|]. repeat constructor. Qed.

(* ---- NameIter over a flat slice *)

Lemma split_from_wire l t : (length l <= 63)%nat -> split_from (wire_label l ++ t) = inl (l, t).
Proof.
  intros H. unfold split_from, wire_label. cbn [app].
  assert (E1 : (N.of_nat (length l) <=? split_normal_max) = true) by (unfold split_normal_max; lia).
  rewrite E1, Nat2N.id.
  assert (E2 : (length (N.of_nat (length l) :: l ++ t) <? S (length l))%nat = false).
  { apply Nat.ltb_ge. cbn [length]. rewrite app_length. lia. }
  rewrite E2. cbn [firstn skipn].
  rewrite firstn_app, firstn_all, Nat.sub_diag. cbn [firstn]. rewrite app_nil_r.
  rewrite skipn_app, skipn_all, Nat.sub_diag. reflexivity.
Qed.

Lemma yields_flat ls : short_labels ls -> yields (IFlat (wire_labels ls)) ls.
Proof.
  induction ls as [|l ls IH]; intros H.
  - apply Y_nil. reflexivity.
  - inversion H as [|? ? Hl Hs]; subst. eapply Y_cons; [|apply IH; exact Hs].
    unfold wire_labels. cbn [map concat iter_next]. rewrite split_from_wire by exact Hl. reflexivity.
Qed.

Lemma wire_labels_snoc_cons ls l : exists h t, wire_labels (ls ++ [l]) = h :: t.
Proof.
  destruct ls as [|x ls]; unfold wire_labels; cbn [app map concat]; unfold wire_label at 1;
    cbn [app]; eauto.
Qed.

Lemma flat_last_wire ls l fuel : short_labels (ls ++ [l]) -> (length ls < fuel)%nat ->
  flat_last fuel (wire_labels (ls ++ [l])) = Ok l.
Proof.
  revert fuel; induction ls as [|x ls IH]; intros fuel H Hf; (destruct fuel as [|fuel]; [lia|]).
  - inversion H as [|? ? Hl _]; subst. unfold wire_labels. cbn [app map concat flat_last].
    rewrite split_from_wire by exact Hl. reflexivity.
  - inversion H as [|? ? Hx Hs]; subst. cbn [app]. unfold wire_labels. cbn [map concat flat_last].
    rewrite split_from_wire by exact Hx. fold (wire_labels (ls ++ [l])).
    destruct (wire_labels_snoc_cons ls l) as [h [t E]]. rewrite E. rewrite <- E.
    apply IH; [exact Hs | simpl in Hf; lia].
Qed.

Lemma yields_back_flat ls : short_labels ls -> yields_back (IFlat (wire_labels ls)) (rev ls).
Proof.
  induction ls as [|l ls IH] using rev_ind; intros H.
  - apply YB_nil. reflexivity.
  - apply short_labels_app in H as Hs. destruct Hs as [Hs Hl].
    rewrite rev_unit. eapply YB_cons; [|apply IH; exact Hs].
    cbn [iter_next_back]. destruct (wire_labels_snoc_cons ls l) as [h [t E]]. rewrite E, <- E.
    rewrite flat_last_wire; [|exact H|pose proof (wire_labels_length_ge (ls ++ [l])) as G; rewrite app_length in G; simpl in G; lia].
    cbn [bind]. rewrite wire_labels_app.
    assert (El : length (wire_labels [l]) = S (length l)).
    { unfold wire_labels, wire_label. simpl. rewrite app_nil_r. reflexivity. }
    rewrite app_length, El.
    assert (E2 : (length (wire_labels ls) + S (length l) <? S (length l))%nat = false) by (apply Nat.ltb_ge; lia).
    rewrite E2.
    replace (length (wire_labels ls) + S (length l) - S (length l))%nat with (length (wire_labels ls)) by lia.
    rewrite firstn_app, firstn_all, Nat.sub_diag. cbn [firstn]. rewrite app_nil_r. reflexivity.
Qed.

(* ---- core::iter::Chain of two label iterators *)

Lemma yields_chain i j a b : yields i a -> yields j b -> yields (IChain i j) (a ++ b).
Proof.
  intros Hi Hj. induction Hi as [i Hn | i l i' ls Hn Hi IH].
  - cbn [app]. induction Hj as [j Hm | j l j' ls Hm Hj IH].
    + apply Y_nil. cbn [iter_next]. rewrite Hn. cbn [bind]. rewrite Hm. reflexivity.
    + eapply Y_cons; [|exact IH]. cbn [iter_next]. rewrite Hn. cbn [bind]. rewrite Hm. reflexivity.
  - cbn [app]. eapply Y_cons; [|exact IH]. cbn [iter_next]. rewrite Hn. reflexivity.
Qed.

Lemma yields_back_chain i j a b : yields_back i a -> yields_back j b ->
  yields_back (IChain i j) (b ++ a).
Proof.
  intros Hi Hj. induction Hj as [j Hm | j l j' ls Hm Hj IH].
  - cbn [app]. induction Hi as [i Hn | i l i' ls Hn Hi IH].
    + apply YB_nil. cbn [iter_next_back]. rewrite Hm. cbn [bind]. rewrite Hn. reflexivity.
    + eapply YB_cons; [|exact IH]. cbn [iter_next_back]. rewrite Hm. cbn [bind]. rewrite Hn. reflexivity.
  - cbn [app]. eapply YB_cons; [|exact IH]. cbn [iter_next_back]. rewrite Hm. reflexivity.
Qed.

(* ---- the loops, as functions of the yielded sequences *)

Fixpoint leq (a b : list label) : bool :=
  match a, b with
  | [], [] => true
  | x :: a', y :: b' => m_label_eq x y && leq a' b'
  | _, _ => false
  end.

Lemma iters_eq_yields a la : yields a la -> forall b lb fuel, yields b lb ->
  (length la < fuel)%nat -> iters_eq fuel a b = Ok (leq la lb).
Proof.
  induction 1 as [a Hn | a x a' la Hn Ha IH]; intros b lb fuel Hb Hf;
    (destruct fuel as [|fuel]; [simpl in Hf; lia|]); cbn [iters_eq]; rewrite Hn; cbn [bind].
  - inversion Hb as [? Hm | ? y b' lb' Hm Hb']; subst; rewrite Hm; reflexivity.
  - inversion Hb as [? Hm | ? y b' lb' Hm Hb']; subst; rewrite Hm; cbn [bind leq]; [reflexivity|].
    destruct (m_label_eq x y); [|reflexivity]. cbn [andb]. apply IH; [exact Hb'|simpl in Hf; lia].
Qed.

Lemma iters_cmp_back_yields a la : yields_back a la -> forall b lb fuel, yields_back b lb ->
  (length la < fuel)%nat -> iters_cmp_back fuel Lt Gt Eq a b = Ok (labels_cmp la lb).
Proof.
  induction 1 as [a Hn | a x a' la Hn Ha IH]; intros b lb fuel Hb Hf;
    (destruct fuel as [|fuel]; [simpl in Hf; lia|]); cbn [iters_cmp_back]; rewrite Hn; cbn [bind].
  - inversion Hb as [? Hm | ? y b' lb' Hm Hb']; subst; rewrite Hm; reflexivity.
  - inversion Hb as [? Hm | ? y b' lb' Hm Hb']; subst; rewrite Hm; cbn [bind labels_cmp]; [reflexivity|].
    rewrite m_label_cmp_spec. destruct (label_cmp x y); try reflexivity.
    apply IH; [exact Hb'|simpl in Hf; lia].
Qed.

Lemma iters_composed_yields lc a la : yields a la -> forall b lb fuel, yields b lb ->
  (length la < fuel)%nat -> iters_composed fuel lc Eq a b = labels_composed lc la lb.
Proof.
  induction 1 as [a Hn | a x a' la Hn Ha IH]; intros b lb fuel Hb Hf;
    (destruct fuel as [|fuel]; [simpl in Hf; lia|]); cbn [iters_composed]; rewrite Hn; cbn [bind].
  - inversion Hb as [? Hm | ? y b' lb' Hm Hb']; subst; rewrite Hm; reflexivity.
  - inversion Hb as [? Hm | ? y b' lb' Hm Hb']; subst; rewrite Hm; cbn [bind labels_composed]; [reflexivity|].
    destruct (lc x y); try reflexivity. apply IH; [exact Hb'|simpl in Hf; lia].
Qed.

Lemma iters_hash_yields a la : yields a la -> forall fuel,
  (length la < fuel)%nat -> iters_hash fuel a = Ok (flat_map m_label_hash la).
Proof.
  induction 1 as [a Hn | a x a' la Hn Ha IH]; intros fuel Hf;
    (destruct fuel as [|fuel]; [simpl in Hf; lia|]); cbn [iters_hash]; rewrite Hn; cbn [bind].
  - reflexivity.
  - rewrite IH by (simpl in Hf; lia). reflexivity.
Qed.

(* ---- list-level facts *)

Lemma leq_spec a b : leq a b = true <-> canon a = canon b.
Proof.
  unfold canon. revert b; induction a as [|x a IH]; intros [|y b]; cbn [leq map]; split; intros H;
    try reflexivity; try discriminate.
  - apply andb_true_iff in H as [H1 H2]. rewrite m_label_eq_spec in H1. apply label_eqb_spec in H1.
    f_equal; [exact H1|apply IH; exact H2].
  - injection H as H1 H2. apply andb_true_iff. split.
    + rewrite m_label_eq_spec. apply label_eqb_spec. exact H1.
    + apply IH. exact H2.
Qed.

Lemma leq_name_eqb a b : leq a b = name_eqb a b.
Proof. apply eq_true_iff_eq. rewrite leq_spec, name_eqb_spec. reflexivity. Qed.

Lemma leq_root a b : leq (a ++ [[]]) (b ++ [[]]) = name_eqb a b.
Proof.
  apply eq_true_iff_eq. rewrite leq_spec, name_eqb_spec. unfold canon. rewrite !map_app.
  split; [apply app_inv_tail | intros H; f_equal; exact H].
Qed.

Lemma labels_cmp_root a b : labels_cmp (rev (a ++ [[]])) (rev (b ++ [[]])) = name_cmp a b.
Proof. rewrite !rev_unit. reflexivity. Qed.

Lemma flat_map_hash_feed ls : Forall (fun l => (length l < 256)%nat) ls ->
  flat_map m_label_hash ls = concat (map label_hash_feed ls).
Proof.
  induction ls as [|l ls IH]; intros H; [reflexivity|].
  inversion H as [|? ? Hl Hs]; subst. cbn [flat_map map concat].
  rewrite m_label_hash_spec by exact Hl. rewrite IH by exact Hs. reflexivity.
Qed.

Lemma hash_root n : Forall (fun l => (length l < 256)%nat) n ->
  flat_map m_label_hash (n ++ [[]]) = name_hash_feed n.
Proof.
  intros H. rewrite flat_map_app. unfold name_hash_feed. rewrite flat_map_hash_feed by exact H.
  reflexivity.
Qed.

(* label-wise composed comparison of two absolute names is the octet order of
   their wire forms; the unreachable!() arms are never taken *)
Definition nonempty_labels (n : name) : Prop := Forall (fun l : label => l <> []) n.

Lemma valid_nonempty n : Forall valid_label n -> nonempty_labels n.
Proof.
  intros H. eapply Forall_impl; [|exact H]. intros l [Hl _] ->. simpl in Hl. lia.
Qed.

Lemma len_cmp_nil_cons (x : N) (l : bytes) : len_cmp [] (x :: l) = Lt.
Proof. reflexivity. Qed.

Lemma labels_composed_wire a : nonempty_labels a -> forall b, nonempty_labels b ->
  exists c, labels_composed m_label_composed_cmp (a ++ [[]]) (b ++ [[]]) = Ok c /\
    forall r1 r2, lex_cmp (wire_abs a ++ r1) (wire_abs b ++ r2) = then_cmp c (lex_cmp r1 r2).
Proof.
  induction a as [|x a IH]; intros Ha b Hb.
  - destruct b as [|y b].
    + exists Eq. split; [reflexivity|]. intros r1 r2. cbn. reflexivity.
    + inversion Hb as [|? ? Hy _]; subst. destruct y as [|y0 y]; [congruence|].
      exists Lt. split; [reflexivity|]. intros r1 r2.
      unfold wire_abs, wire_rel. cbn [map concat app]. unfold wire_label at 1. cbn [app length lex_cmp].
      reflexivity.
  - inversion Ha as [|? ? Hx Ha']; subst. destruct b as [|y b].
    + destruct x as [|x0 x]; [congruence|].
      exists Gt. split; [reflexivity|]. intros r1 r2.
      unfold wire_abs, wire_rel. cbn [map concat app]. unfold wire_label at 1. cbn [app length lex_cmp].
      reflexivity.
    + inversion Hb as [|? ? Hy Hb']; subst.
      destruct (IH Ha' b Hb') as [c [Hc Hw]].
      cbn [app labels_composed].
      assert (W : forall r1 r2, lex_cmp (wire_abs (x :: a) ++ r1) (wire_abs (y :: b) ++ r2) =
                    then_cmp (m_label_composed_cmp x y) (then_cmp c (lex_cmp r1 r2))).
      { intros r1 r2. rewrite !wire_abs_cons.
        change (N.of_nat (length x) :: x ++ wire_abs a ++ r1) with (wire_label x ++ (wire_abs a ++ r1)).
        change (N.of_nat (length y) :: y ++ wire_abs b ++ r2) with (wire_label y ++ (wire_abs b ++ r2)).
        rewrite label_composed_wire, Hw. reflexivity. }
      destruct (m_label_composed_cmp x y) eqn:E.
      * exists c. split; [exact Hc|]. intros r1 r2. rewrite W. reflexivity.
      * exists Lt. split; [reflexivity|]. intros r1 r2. rewrite W. reflexivity.
      * exists Gt. split; [reflexivity|]. intros r1 r2. rewrite W. reflexivity.
Qed.

Lemma labels_lc_composed_canon a b :
  labels_composed m_label_lc_composed_cmp a b = labels_composed m_label_composed_cmp (canon a) (canon b).
Proof.
  unfold canon. revert b; induction a as [|x a IH]; intros [|y b]; cbn [map labels_composed]; try reflexivity.
  assert (E : m_label_lc_composed_cmp x y = m_label_composed_cmp (lowers x) (lowers y)).
  { rewrite m_label_lc_composed_unfold, m_label_composed_unfold. unfold len_cmp. rewrite !lowers_length. reflexivity. }
  rewrite E. destruct (m_label_composed_cmp (lowers x) (lowers y)); try reflexivity. apply IH.
Qed.

Lemma canon_root a : canon (a ++ [[]]) = canon a ++ [[]].
Proof. unfold canon. rewrite map_app. reflexivity. Qed.

Lemma canon_nonempty a : nonempty_labels a -> nonempty_labels (canon a).
Proof.
  unfold nonempty_labels, canon. intros H. apply Forall_forall. intros l Hl.
  apply in_map_iff in Hl as [y [<- Hy]]. rewrite Forall_forall in H. specialize (H y Hy).
  destruct y; [congruence|discriminate].
Qed.

Lemma labels_lc_composed_wire a b : nonempty_labels a -> nonempty_labels b ->
  exists c, labels_composed m_label_lc_composed_cmp (a ++ [[]]) (b ++ [[]]) = Ok c /\
    forall r1 r2, lex_cmp (wire_abs (canon a) ++ r1) (wire_abs (canon b) ++ r2) = then_cmp c (lex_cmp r1 r2).
Proof.
  intros Ha Hb. rewrite labels_lc_composed_canon, !canon_root.
  apply labels_composed_wire; apply canon_nonempty; assumption.
Qed.

Lemma then_cmp_eq_r c : then_cmp c Eq = c.
Proof. destruct c; reflexivity. Qed.

Example iter_example :
  iters_eq 10 (IChain (IFlat [1;65]) (IFlat [1;98;0])) (IFlat [1;97;1;66;0]) = Ok true /\
  iters_cmp_back 10 Lt Gt Eq (IFlat [1;122;1;97;0]) (IFlat [1;97;1;98;0]) = Ok Lt /\
  iters_composed 10 m_label_composed_cmp Eq (IFlat [1;98;0]) (IFlat [2;97;97;0]) = Ok Lt /\
  iters_hash 10 (IFlat [1;65;0]) = Ok [1;97;0].
Proof. vm_compute. auto. Qed.
