From Coq Require Import Extraction ExtrOcamlBasic NArith.
From DV Require Import Base.Outcome Base.PName C04.Gen C04.Model.
Extraction Language OCaml.
Extraction "../build/ml/C04/model.ml" c04_lower c04_label_eq c04_label_cmp c04_label_hash
  c04_label_composed c04_label_lc_composed c04_name_eq c04_name_eq_iter c04_name_cmp c04_name_hash
  c04_composed c04_composed_iter c04_lc_composed c04_parsed_suffix c04_parsed_eq c04_parsed_cmp c04_parsed_hash
  c04_chain_eq c04_chain_cmp c04_chain_lc c04_charstr_eq c04_charstr_cmp c04_charstr_ccmp
  c04_charstr_hash c04_nsec_ccmp c04_record_ccmp c04_svcb_ccmp c04_unknown_eq c04_unknown_ccmp c04_ipseckey_ccmp c04_ipseckey_none_hash c04_all_unknown_eq c04_all_opt_eq c04_zonemd_partial c04_rrsig_partial c04_nsec3_partial c04_uncertain_eq c04_uncertain_hash UAbs c04_header_cmp c04_header_eq mkHdr c04_rd_cmp c04_rd_partial c04_rd_ccmp_steps c04_rdh c04_rd_kinds c04_rd_eq c04_rd_hash c04_rd_ccmp mkCrec.
