(* C04 proofs, part 6: an uncompressed name embedded in a message.
   ParsedName::parse_ref (Base/PName.v) on  pre ++ wire_abs n ++ post  at
   |pre| returns an uncompressed ParsedName that denotes n: the side
   condition `flat_ok` of ProofsParsed is what the parser establishes. *)
From Coq Require Import NArith Arith List Bool Lia ZArith.
From Coq Require Import ZifyN ZifyBool ZifyNat.
From DV Require Import Base.Outcome Base.Bytes Base.Lex Base.Names Base.PName C04.Gen C04.Model
  C04.ProofsLabel C04.ProofsIter C04.ProofsRepr C04.ProofsParsed.
Import ListNotations.
Local Open Scope N_scope.
Ltac Zify.zify_post_hook ::= Z.div_mod_to_equations.

Lemma get_app_len a h t : get (a ++ h :: t) (N.of_nat (length a)) = Some h.
Proof. unfold get. rewrite Nat2N.id, nth_error_app2 by lia. rewrite Nat.sub_diag. reflexivity. Qed.

Lemma mlen_app a b : mlen (a ++ b) = mlen a + mlen b.
Proof. unfold mlen. rewrite app_length. lia. Qed.

Lemma slice_app a w r :
  slice (a ++ w ++ r) (N.of_nat (length a)) (N.of_nat (length a) + N.of_nat (length w)) = w.
Proof.
  unfold slice.
  replace (N.of_nat (length a) + N.of_nat (length w) - N.of_nat (length a)) with (N.of_nat (length w)) by lia.
  rewrite !Nat2N.id. rewrite skipn_app, skipn_all, Nat.sub_diag. cbn [skipn app].
  rewrite firstn_app, firstn_all, Nat.sub_diag. cbn [firstn]. apply app_nil_r.
Qed.

Lemma wire_label_length l : length (wire_label l) = S (length l).
Proof. reflexivity. Qed.

Lemma ltp_normal m a h t : m = a ++ h :: t -> h <= 63 ->
  label_type_parse m (N.of_nat (length a)) (mlen m) = Ok (LNormal h, N.of_nat (length a) + 1).
Proof.
  intros -> H. unfold label_type_parse.
  assert (E : (mlen (a ++ h :: t) <=? N.of_nat (length a)) = false).
  { apply N.leb_gt. rewrite mlen_app. unfold mlen. cbn [length]. lia. }
  rewrite E, get_app_len.
  assert (E2 : (h <=? 63) = true) by (apply N.leb_le; exact H). rewrite E2. reflexivity.
Qed.

Lemma get_label_flat m a l r fuel : m = a ++ wire_label l ++ r -> (length l <= 63)%nat ->
  get_label (S fuel) m (N.of_nat (length a)) = Ok (l, N.of_nat (length (a ++ wire_label l))).
Proof.
  intros -> H. cbn [get_label]. unfold wire_label. cbn [app]. rewrite get_app_len.
  assert (E : (N.of_nat (length l) <=? 63) = true) by (apply N.leb_le; lia). rewrite E. cbv zeta.
  assert (E2 : (mlen (a ++ N.of_nat (length l) :: l ++ r) <? N.of_nat (length a) + 1 + N.of_nat (length l)) = false).
  { apply N.ltb_ge. rewrite mlen_app. unfold mlen. cbn [length]. rewrite app_length. lia. }
  rewrite E2.
  replace (a ++ N.of_nat (length l) :: l ++ r) with ((a ++ [N.of_nat (length l)]) ++ l ++ r)
    by (rewrite <- app_assoc; reflexivity).
  replace (N.of_nat (length a) + 1) with (N.of_nat (length (a ++ [N.of_nat (length l)])))
    by (rewrite app_length; simpl; lia).
  rewrite slice_app. f_equal. f_equal. rewrite !app_length. cbn [length]. lia.
Qed.

Lemma wire_labels_cons l ls : wire_labels (l :: ls) = wire_label l ++ wire_labels ls.
Proof. reflexivity. Qed.

Lemma plabels_flat ls : forall m a r, short_labels ls -> m = a ++ wire_labels ls ++ r ->
  plabels m (N.of_nat (length a)) (N.of_nat (length (wire_labels ls))) ls.
Proof.
  induction ls as [|l ls IH]; intros m a r Hsl E.
  - constructor.
  - inversion Hsl as [|? ? Hl Hs]; subst. rewrite wire_labels_cons, app_length, wire_label_length.
    eapply PL_cons with (pos' := N.of_nat (length (a ++ wire_label l))).
    + lia.
    + eapply get_label_flat; [|exact Hl]. rewrite <- app_assoc. reflexivity.
    + unfold clen. lia.
    + replace (N.of_nat (S (length l) + length (wire_labels ls)) - clen l) with (N.of_nat (length (wire_labels ls)))
        by (unfold clen; lia).
      eapply IH; [exact Hs|]. rewrite <- !app_assoc. reflexivity.
Qed.

Lemma wire_abs_cons' l n : wire_abs (l :: n) = wire_label l ++ wire_abs n.
Proof. unfold wire_abs, wire_rel. cbn [map concat]. rewrite <- app_assoc. reflexivity. Qed.

Lemma parse_labels_flat rest : forall fuel m a r name_len start,
  Forall valid_label rest -> m = a ++ wire_abs rest ++ r -> (length rest < fuel)%nat ->
  name_len + N.of_nat (wire_len rest) + 1 <= 255 ->
  parse_labels fuel m (mlen m) (N.of_nat (length a)) name_len start false None =
  Ok (mkPName start (name_len + N.of_nat (wire_len rest) + 1) false
              (N.of_nat (length a) + N.of_nat (wire_len rest) + 1)).
Proof.
  induction rest as [|l rest IH]; intros fuel m a r name_len start V E Hf Hb;
    (destruct fuel as [|fuel]; [simpl in Hf; lia|]); cbn [parse_labels].
  - rewrite (ltp_normal m a 0 r) by (try exact E; lia).
    cbn [N.eqb]. cbn [wire_len]. f_equal. f_equal; lia.
  - inversion V as [|? ? [Hl Hw] V']; subst.
    rewrite (ltp_normal _ a (N.of_nat (length l)) (l ++ wire_abs rest ++ r))
      by (try lia; rewrite wire_abs_cons'; unfold wire_label; rewrite <- !app_assoc; reflexivity).
    assert (E0 : (N.of_nat (length l) =? 0) = false) by (apply N.eqb_neq; lia). rewrite E0.
    set (m := a ++ wire_abs (l :: rest) ++ r).
    assert (Hm : mlen m = N.of_nat (length a) + N.of_nat (S (length l)) + N.of_nat (length (wire_abs rest ++ r))).
    { subst m. rewrite wire_abs_cons', <- app_assoc. unfold mlen. rewrite !app_length, wire_label_length. lia. }
    assert (E1 : (mlen m - (N.of_nat (length a) + 1) <? N.of_nat (length l)) = false) by (apply N.ltb_ge; lia).
    rewrite E1. cbn [wire_len] in Hb.
    assert (E2 : (255 <=? name_len + N.of_nat (length l) + 1) = false) by (apply N.leb_gt; lia).
    rewrite E2.
    replace (N.of_nat (length a) + 1 + N.of_nat (length l)) with (N.of_nat (length (a ++ wire_label l)))
      by (rewrite app_length, wire_label_length; lia).
    rewrite (IH fuel m (a ++ wire_label l) r); [|exact V'| |simpl in Hf; lia|lia].
    + f_equal. cbn [wire_len]. rewrite app_length, wire_label_length. f_equal; lia.
    + subst m. rewrite wire_abs_cons', <- !app_assoc. reflexivity.
Qed.

Theorem parsed_uncompressed_embedding pre n post : valid_abs n ->
  let m := pre ++ wire_abs n ++ post in
  exists p, parse_ref m (N.of_nat (length pre)) (mlen m) = Ok p /\ pn_compressed p = false /\
            denotes (NParsed m p) (n ++ [[]]).
Proof.
  intros [V L] m.
  assert (Hn : (length n < PARSE_FUEL)%nat).
  { assert (length n <= wire_len n)%nat by (clear; induction n; simpl; lia). unfold PARSE_FUEL. lia. }
  eexists. split; [|split].
  - unfold parse_ref. apply (parse_labels_flat n PARSE_FUEL m pre post 0 (N.of_nat (length pre)) V eq_refl Hn). lia.
  - reflexivity.
  - assert (Hw : N.of_nat (length (wire_labels (n ++ [[]]))) = 0 + N.of_nat (wire_len n) + 1).
    { rewrite wire_labels_abs, wire_abs_length. lia. }
    apply denotes_parsed; cbn [pn_pos pn_len pn_compressed].
    + rewrite <- Hw. apply (plabels_flat (n ++ [[]]) m pre post); [apply valid_short_root; exact V|].
      rewrite wire_labels_abs. reflexivity.
    + intros _. cbn [pn_pos pn_len]. rewrite <- Hw. split.
      * subst m. rewrite wire_labels_abs, !mlen_app. unfold mlen. lia.
      * subst m. rewrite wire_labels_abs. apply slice_app.
Qed.

(* hence: reading a name out of a message where it stands uncompressed gives
   a value indistinguishable from the flat name *)
Theorem parsed_uncompressed_same_as_flat pre n post b rb : valid_abs n -> valid_abs b ->
  denotes rb (b ++ [[]]) ->
  let m := pre ++ wire_abs n ++ post in
  exists p, parse_ref m (N.of_nat (length pre)) (mlen m) = Ok p /\
    m_name_eq (NParsed m p) rb = Ok (name_eqb n b) /\
    m_name_cmp (NParsed m p) rb = Ok (name_cmp n b) /\
    m_name_hash (NParsed m p) = Ok (name_hash_feed n).
Proof.
  intros Vn Vb Db m. destruct (parsed_uncompressed_embedding pre n post Vn) as [p [Hp [_ D]]].
  exists p. split; [exact Hp|]. split; [|split].
  - apply name_eq_repr; assumption.
  - apply name_cmp_repr; assumption.
  - apply name_hash_repr; assumption.
Qed.

Example embed_example :
  let m := [9;9] ++ wire_abs [[97];[66]] ++ [7] in
  exists p, parse_ref m 2 (mlen m) = Ok p /\ pn_compressed p = false /\ pn_len p = 5 /\
    as_flat (NParsed m p) = Ok (Some (wire_abs [[97];[66]])).
Proof. exists (mkPName 2 5 false 7). vm_compute. repeat split; reflexivity. Qed.
