(* C04 proofs, part 8: every ParsedName the parser returns denotes a valid
   name, compressed or not -- no premise about the decoder is left.
   Uses C01: parse_ref_sound / parse_ref_walk (what parse_ref accepts can be
   walked by the unchecked iterator).  New here: a ParsedName flagged
   `compressed = false` really is one contiguous run of labels, so its
   as_flat_slice is the wire form of exactly the labels its iterator yields. *)
From Coq Require Import NArith Arith List Bool Lia ZArith.
From Coq Require Import ZifyN ZifyBool ZifyNat.
From DV Require Import Base.Outcome Base.Bytes Base.Lex Base.Names Base.PName C01.Proofs
  C04.Gen C04.Model C04.ProofsLabel C04.ProofsIter C04.ProofsRepr C04.ProofsParsed C04.ProofsEmbed.
Import ListNotations.
Local Open Scope N_scope.
Ltac Zify.zify_post_hook ::= Z.div_mod_to_equations.

(* labels laid out one after the other from q, ending with the root octet *)
Inductive flat_at (m : bytes) : N -> name -> Prop :=
| fa_root q : get m q = Some 0 -> flat_at m q []
| fa_label q l ls : get m q = Some l -> 1 <= l -> l <= 63 -> q + 1 + l <= mlen m ->
    flat_at m (q + 1 + l) ls -> flat_at m q (slice m (q + 1) (q + 1 + l) :: ls).

(* parse_labels: a result flagged uncompressed is a contiguous run *)
Lemma parse_labels_flat_at : forall fuel m lim,
  lim <= mlen m ->
  (forall cur nl start c e p, nl <> 0 ->
     parse_labels fuel m lim cur nl start c e = Ok p -> pn_compressed p = false ->
     c = false /\ pn_pos p = start /\ exists ls, flat_at m cur ls) /\
  (forall cur c e p,
     parse_labels fuel m lim cur 0 cur c e = Ok p -> pn_compressed p = false ->
     exists ls, flat_at m (pn_pos p) ls).
Proof.
  induction fuel as [|fuel IH]; intros m lim Hl; (split; [intros cur nl start c e p Hnl H Hc | intros cur c e p H Hc]);
    try discriminate; cbn [parse_labels] in H;
    (destruct (label_type_parse m cur lim) as [[r cur']| | |] eqn:E; try discriminate);
    apply ltp_inv in E;
    destruct E as [Hlt [b [Hb [[Hle [Hr Hp]]|[H63 [H192 [Hl1 [c0 [Hc0 [Hr Hp]]]]]]]]]]; subst r cur';
    destruct (IH m lim Hl) as [IH1 IH2].
  - (* nl <> 0, normal *)
    destruct (N.eqb_spec b 0) as [Hb0|Hb0].
    + inversion H; subst p b. cbn [pn_compressed pn_pos] in *. repeat split; auto.
      exists []. constructor. exact Hb.
    + destruct (N.ltb_spec (lim - (cur + 1)) b) as [Hs|Hs]; [discriminate|].
      destruct (N.leb_spec 255 (nl + b + 1)) as [H255|H255]; [discriminate|].
      assert (Hnz : nl + b + 1 <> 0) by lia.
      destruct (IH1 _ _ _ _ _ _ Hnz H Hc) as [Hcf [Hpos [ls Hf]]].
      repeat split; auto. exists (slice m (cur + 1) (cur + 1 + b) :: ls).
      apply fa_label; try assumption; lia.
  - (* nl <> 0, pointer: the flag becomes true *)
    destruct (hops (S (S (N.to_nat (c0 + 256 * (b mod 64))))) m lim (c0 + 256 * (b mod 64)) (cur + 2)) as [tgt| | |];
      cbn [bind] in H; try discriminate.
    destruct (N.eqb_spec nl 0) as [Hz|Hz]; [contradiction|].
    destruct (IH1 _ _ _ _ _ _ Hz H Hc) as [Hcf _]. discriminate.
  - (* nl = 0, normal *)
    destruct (N.eqb_spec b 0) as [Hb0|Hb0].
    + inversion H; subst p b. cbn [pn_pos]. exists []. constructor. exact Hb.
    + destruct (N.ltb_spec (lim - (cur + 1)) b) as [Hs|Hs]; [discriminate|].
      destruct (N.leb_spec 255 (0 + b + 1)) as [H255|H255]; [discriminate|].
      assert (Hnz : 0 + b + 1 <> 0) by lia.
      destruct (IH1 _ _ _ _ _ _ Hnz H Hc) as [Hcf [Hpos [ls Hf]]].
      rewrite Hpos. exists (slice m (cur + 1) (cur + 1 + b) :: ls).
      apply fa_label; try assumption; lia.
  - (* nl = 0, pointer: the name starts at the target *)
    destruct (hops (S (S (N.to_nat (c0 + 256 * (b mod 64))))) m lim (c0 + 256 * (b mod 64)) (cur + 2)) as [tgt| | |];
      cbn [bind] in H; try discriminate.
    cbn [N.eqb] in H. eapply IH2; eauto.
Qed.

Lemma parse_ref_flat_at m pos lim p : lim <= mlen m ->
  parse_ref m pos lim = Ok p -> pn_compressed p = false -> exists ls, flat_at m (pn_pos p) ls.
Proof.
  intros Hl H Hc. rewrite parse_ref_eq in H.
  destruct (parse_labels_flat_at PARSE_FUEL m lim Hl) as [_ L2]. eapply L2; eauto.
Qed.

(* a contiguous run is walked without taking any pointer: the labels agree *)
Lemma resolve_normal m q t b : resolve m q t -> get m q = Some b -> b <= 63 -> t = q.
Proof.
  intros Hr Hg Hb. inversion Hr as [? ? ? ? |? b' ? ? Hg' H63]; subst; [reflexivity|].
  rewrite Hg in Hg'. inversion Hg'; subst. lia.
Qed.

Lemma flat_at_walk m q ls : flat_at m q ls -> forall n, walk m q n -> n = ls.
Proof.
  induction 1 as [q Hg | q l ls Hg H1 H63 Hlen Hf IH]; intros n Hw.
  - inversion Hw as [? t Hr Ht | ? t l' ls' Hr Ht Hl1]; subst; [reflexivity|].
    rewrite (resolve_normal _ _ _ _ Hr Hg) in Ht by lia. rewrite Hg in Ht. inversion Ht; subst. lia.
  - inversion Hw as [? t Hr Ht | ? t l' ls' Hr Ht Hl1 Hl63 Hlen' Hw']; subst.
    + rewrite (resolve_normal _ _ _ _ Hr Hg) in Ht by lia. rewrite Hg in Ht. inversion Ht; subst. lia.
    + assert (t = q) by (eapply resolve_normal; eauto). subst t.
      rewrite Hg in Ht. inversion Ht; subst l'. f_equal. apply IH. exact Hw'.
Qed.

(* ... and its octets are the wire form *)
Lemma firstn_add {A} i j (l : list A) : firstn (i + j) l = firstn i l ++ firstn j (skipn i l).
Proof.
  revert l; induction i as [|i IH]; intros l; [reflexivity|].
  destruct l as [|x l]; cbn [plus firstn skipn app]; [destruct j; reflexivity|]. f_equal. apply IH.
Qed.

Lemma skipn_add {A} i j (l : list A) : skipn i (skipn j l) = skipn (j + i) l.
Proof.
  revert l; induction j as [|j IH]; intros l; [reflexivity|].
  destruct l as [|x l]; cbn [plus skipn]; [apply skipn_nil|]. apply IH.
Qed.

Lemma slice_split m a b c : a <= b -> b <= c -> slice m a c = slice m a b ++ slice m b c.
Proof.
  intros H1 H2. unfold slice.
  replace (N.to_nat (c - a)) with (N.to_nat (b - a) + N.to_nat (c - b))%nat by lia.
  rewrite firstn_add, skipn_add.
  replace (N.to_nat a + N.to_nat (b - a))%nat with (N.to_nat b) by lia. reflexivity.
Qed.

Lemma slice_one m q b : get m q = Some b -> slice m q (q + 1) = [b].
Proof.
  unfold get, slice. intros H. replace (N.to_nat (q + 1 - q)) with 1%nat by lia.
  revert H. generalize (N.to_nat q). intros k. revert m. induction k as [|k IH]; intros [|x m] H; cbn in *; try discriminate.
  - inversion H. reflexivity.
  - apply IH. exact H.
Qed.

Lemma flat_at_slice m q ls : flat_at m q ls ->
  q + N.of_nat (wire_len ls) + 1 <= mlen m /\
  slice m q (q + N.of_nat (wire_len ls) + 1) = wire_abs ls.
Proof.
  induction 1 as [q Hg | q l ls Hg H1 H63 Hlen Hf [IH1 IH2]].
  - cbn [wire_len]. apply get_lt in Hg as Hlt. split; [lia|].
    replace (q + N.of_nat 0 + 1) with (q + 1) by lia. apply slice_one. exact Hg.
  - cbn [wire_len]. rewrite slice_length by lia.
    replace (q + N.of_nat (S (N.to_nat (q + 1 + l - (q + 1))) + wire_len ls) + 1)
      with (q + 1 + l + N.of_nat (wire_len ls) + 1) by lia.
    split; [exact IH1|].
    rewrite (slice_split m q (q + 1)) by lia. rewrite (slice_one m q l Hg).
    rewrite (slice_split m (q + 1) (q + 1 + l)) by lia. rewrite IH2.
    rewrite wire_abs_cons'. unfold wire_label.
    rewrite slice_length by lia. replace (N.of_nat (N.to_nat (q + 1 + l - (q + 1)))) with l by lia.
    reflexivity.
Qed.

(* the main statement: whatever parse_ref returns denotes a valid name *)
Lemma parsed_inv m pos lim p : parse_ref m pos lim = Ok p -> lim <= mlen m -> wf_bytes m ->
  exists n, valid_abs n /\ pname_labels m p = Ok (n, true) /\
    plabels m (pn_pos p) (pn_len p) (n ++ [[]]) /\ flat_ok m p (n ++ [[]]).
Proof.
  intros H Hl Hw.
  destruct (parse_ref_walk m pos lim p H Hl) as [n [Hwalk [Hlen H255]]].
  assert (Hv : Forall valid_label n) by (eapply walk_valid; eauto).
  assert (Hp : pname_labels m p = Ok (n, true)) by (apply pname_labels_walk; assumption).
  exists n. split; [split; [exact Hv|lia]|]. split; [exact Hp|]. split.
  - pose proof Hp as Hq. rewrite pname_labels_unfold in Hq. apply iter_labels_plabels in Hq.
    destruct Hq as [ls [Hls Hpl]]. cbn [rev app] in Hls. subst ls. exact Hpl.
  - intros Hc. destruct (parse_ref_flat_at m pos lim p Hl H Hc) as [ls Hf].
    assert (n = ls) by (eapply flat_at_walk; eauto). subst ls.
    destruct (flat_at_slice _ _ _ Hf) as [Hr Hs].
    rewrite wire_labels_abs. rewrite Hlen.
    replace (pn_pos p + (N.of_nat (wire_len n) + 1)) with (pn_pos p + N.of_nat (wire_len n) + 1) by lia.
    split; assumption.
Qed.

Theorem parsed_denotes m pos lim p : parse_ref m pos lim = Ok p -> lim <= mlen m -> wf_bytes m ->
  exists n, valid_abs n /\ pname_labels m p = Ok (n, true) /\ denotes (NParsed m p) (n ++ [[]]).
Proof.
  intros H Hl Hw. destruct (parsed_inv m pos lim p H Hl Hw) as [n [Vn [Hp [Hpl Hf]]]].
  exists n. split; [exact Vn|]. split; [exact Hp|]. apply denotes_parsed; assumption.
Qed.

(* representation independence without premises about the decoder: two names
   parsed out of (possibly different) messages, compressed or not, compare,
   order and hash as their label lists say *)
Theorem parsed_parsed_ops m1 pos1 lim1 p1 m2 pos2 lim2 p2 :
  parse_ref m1 pos1 lim1 = Ok p1 -> lim1 <= mlen m1 -> wf_bytes m1 ->
  parse_ref m2 pos2 lim2 = Ok p2 -> lim2 <= mlen m2 -> wf_bytes m2 ->
  exists a b, pname_labels m1 p1 = Ok (a, true) /\ pname_labels m2 p2 = Ok (b, true) /\
    m_name_eq (NParsed m1 p1) (NParsed m2 p2) = Ok (name_eqb a b) /\
    m_name_cmp (NParsed m1 p1) (NParsed m2 p2) = Ok (name_cmp a b) /\
    m_name_hash (NParsed m1 p1) = Ok (name_hash_feed a) /\
    m_composed_cmp (NParsed m1 p1) (NParsed m2 p2) = Ok (lex_cmp (wire_abs a) (wire_abs b)) /\
    m_lc_composed_cmp (NParsed m1 p1) (NParsed m2 p2) = Ok (lex_cmp (wire_abs (canon a)) (wire_abs (canon b))).
Proof.
  intros H1 L1 W1 H2 L2 W2.
  destruct (parsed_denotes _ _ _ _ H1 L1 W1) as [a [Va [Pa Da]]].
  destruct (parsed_denotes _ _ _ _ H2 L2 W2) as [b [Vb [Pb Db]]].
  exists a, b. repeat split; try assumption.
  - apply name_eq_repr; assumption.
  - apply name_cmp_repr; assumption.
  - apply name_hash_repr; assumption.
  - apply composed_cmp_repr; assumption.
  - apply lc_composed_cmp_repr; assumption.
Qed.

(* parsed against any other representation (flat, chain) *)
Theorem parsed_any_ops m pos lim p rb b :
  parse_ref m pos lim = Ok p -> lim <= mlen m -> wf_bytes m -> valid_abs b -> denotes rb (b ++ [[]]) ->
  exists a, pname_labels m p = Ok (a, true) /\ valid_abs a /\
    m_name_eq (NParsed m p) rb = Ok (name_eqb a b) /\ m_name_eq rb (NParsed m p) = Ok (name_eqb b a) /\
    m_name_cmp (NParsed m p) rb = Ok (name_cmp a b) /\ m_name_cmp rb (NParsed m p) = Ok (name_cmp b a) /\
    m_name_hash (NParsed m p) = Ok (name_hash_feed a).
Proof.
  intros H L W Vb Db. destruct (parsed_denotes _ _ _ _ H L W) as [a [Va [Pa Da]]].
  exists a. repeat split; try assumption; try apply Va.
  - apply name_eq_repr; assumption.
  - apply name_eq_repr; assumption.
  - apply name_cmp_repr; assumption.
  - apply name_cmp_repr; assumption.
  - apply name_hash_repr; assumption.
Qed.

Example compressed_example :
  let m := [0;0;0;0;0;0;0;0;0;0;0;0; 1;98;1;99;0; 1;65;192;12; 192;17] in
  parse_ref m 21 (mlen m) = Ok (mkPName 17 7 true 23) /\
  parse_ref m 12 (mlen m) = Ok (mkPName 12 5 false 17) /\
  m_name_cmp (NParsed m (mkPName 17 7 true 23)) (NParsed m (mkPName 12 5 false 17)) = Ok Gt.
Proof. vm_compute. repeat split; reflexivity. Qed.
