(* C04 proofs, part 7: the canonical order of records is a total preorder
   whose equivalence is record_canonical_eq_iff: comparison chains built with
   then_cmp from well-behaved component orders are well-behaved. *)
From Coq Require Import NArith Arith List Bool Lia ZArith.
From Coq Require Import ZifyN ZifyBool ZifyNat.
From DV Require Import Base.Outcome Base.Bytes Base.Lex Base.Names C17.Model C04.Gen C04.Model
  C04.ProofsLabel C04.ProofsIter C04.ProofsData.
Import ListNotations.
Local Open Scope N_scope.

Definition good {A} (f : A -> A -> comparison) : Prop :=
  (forall a b c o, f a b = o -> f b c = o -> f a c = o) /\
  (forall a b c, f a b = Eq -> f a c = f b c) /\
  (forall a b c, f b c = Eq -> f a b = f a c).

Lemma good_then {A} (f g : A -> A -> comparison) : good f -> good g ->
  good (fun a b => then_cmp (f a b) (g a b)).
Proof.
  intros [Tf [Lf Rf]] [Tg [Lg Rg]]. repeat split.
  - intros a b c o H1 H2. destruct (f a b) eqn:E1; cbn [then_cmp] in H1.
    + rewrite (Lf a b c E1). destruct (f b c) eqn:E2; cbn [then_cmp] in *; try assumption.
      eapply Tg; eauto.
    + subst o. destruct (f b c) eqn:E2; cbn [then_cmp] in H2.
      * rewrite <- (Rf a b c E2), E1. reflexivity.
      * rewrite (Tf a b c Lt E1 E2). reflexivity.
      * discriminate.
    + subst o. destruct (f b c) eqn:E2; cbn [then_cmp] in H2.
      * rewrite <- (Rf a b c E2), E1. reflexivity.
      * discriminate.
      * rewrite (Tf a b c Gt E1 E2). reflexivity.
  - intros a b c H. destruct (f a b) eqn:E1; cbn [then_cmp] in H; try discriminate.
    rewrite (Lf a b c E1), (Lg a b c H). reflexivity.
  - intros a b c H. destruct (f b c) eqn:E1; cbn [then_cmp] in H; try discriminate.
    rewrite (Rf a b c E1), (Rg a b c H). reflexivity.
Qed.

Lemma good_N {A} (p : A -> N) : good (fun a b => p a ?= p b).
Proof.
  repeat split.
  - intros a b c o H1 H2. destruct (N.compare_spec (p a) (p b)); destruct (N.compare_spec (p b) (p c));
      destruct (N.compare_spec (p a) (p c)); subst; try congruence; try lia.
  - intros a b c H. apply N.compare_eq in H. rewrite H. reflexivity.
  - intros a b c H. apply N.compare_eq in H. rewrite H. reflexivity.
Qed.

Lemma good_lex {A} (p : A -> bytes) : good (fun a b => lex_cmp (p a) (p b)).
Proof.
  repeat split.
  - intros a b c o. apply lex_cmp_trans.
  - intros a b c H. apply lex_cmp_eq in H. rewrite H. reflexivity.
  - intros a b c H. apply lex_cmp_eq in H. rewrite H. reflexivity.
Qed.

(* the canonical name order only looks at the lower-cased labels *)
Lemma labels_cmp_canon a : forall b, labels_cmp a b = labels_cmp (map lowers a) (map lowers b).
Proof.
  induction a as [|x a IH]; intros [|y b]; cbn [map labels_cmp]; try reflexivity.
  unfold label_cmp. rewrite !lowers_idem. destruct (lex_cmp (lowers x) (lowers y)); try reflexivity. apply IH.
Qed.

Lemma name_cmp_canon a b : name_cmp a b = name_cmp (canon a) (canon b).
Proof. unfold name_cmp, canon. rewrite <- !map_rev. apply labels_cmp_canon. Qed.

Lemma good_name {A} (p : A -> name) : good (fun a b => name_cmp (p a) (p b)).
Proof.
  repeat split.
  - intros a b c o. apply name_cmp_trans.
  - intros a b c H. apply name_cmp_eq_iff, name_eqb_spec in H.
    rewrite (name_cmp_canon (p a)), (name_cmp_canon (p b)), H. reflexivity.
  - intros a b c H. apply name_cmp_eq_iff, name_eqb_spec in H.
    rewrite (name_cmp_canon (p a) (p b)), (name_cmp_canon (p a) (p c)), H. reflexivity.
Qed.

Lemma record_canonical_good : good m_record_canonical_cmp.
Proof.
  assert (G : good (fun a b : crec => then_cmp (r_class a ?= r_class b)
            (then_cmp (name_cmp (r_owner a) (r_owner b))
              (then_cmp (r_rtype a ?= r_rtype b) (lex_cmp (r_rdata a) (r_rdata b)))))).
  { apply good_then; [apply good_N|]. apply good_then; [apply good_name|].
    apply good_then; [apply good_N|apply good_lex]. }
  destruct G as [T [L R]]. repeat split.
  - intros a b c o. rewrite !record_canonical_unfold. apply T.
  - intros a b c. rewrite !record_canonical_unfold. apply L.
  - intros a b c. rewrite !record_canonical_unfold. apply R.
Qed.

Theorem record_canonical_trans a b c o :
  m_record_canonical_cmp a b = o -> m_record_canonical_cmp b c = o -> m_record_canonical_cmp a c = o.
Proof. apply record_canonical_good. Qed.

Theorem record_canonical_eq_subst a b c :
  m_record_canonical_cmp a b = Eq -> m_record_canonical_cmp a c = m_record_canonical_cmp b c.
Proof. apply record_canonical_good. Qed.

(* ---- PartialOrd must agree with Ord: partial_cmp a b = Some (cmp a b) *)

Theorem u32_partial_agrees a b : u32_partial_gen false a b = Some (a ?= b).
Proof. reflexivity. Qed.

(* serial number arithmetic: undefined at distance 2^31, reversed beyond *)
Theorem u32_partial_serial_refuted :
  u32_partial_gen true 0 2147483648 = None /\ u32_partial_gen true 0 2147483649 = Some Gt /\
  (0 ?= 2147483649) = Lt.
Proof. vm_compute. auto. Qed.

Theorem pfx_partial_agrees a b :
  pfx_partial_gen true a b = Some (m_charstr_canonical_cmp a b).
Proof. reflexivity. Qed.

(* plain octet order of salts: 02 vs 01 01 is Greater, canonically (length
   first) Less *)
Theorem pfx_partial_plain_refuted :
  pfx_partial_gen false [2] [1;1] = Some Gt /\ m_charstr_canonical_cmp [2] [1;1] = Lt.
Proof. vm_compute. auto. Qed.

(* ---- RecordHeader: Ord is a total preorder whose equivalence is Eq *)

Lemma good_hdr_field f : good (hdr_field_cmp f).
Proof.
  unfold hdr_field_cmp. destruct (f =? 1).
  - apply (good_name h_owner).
  - apply (good_N (hdr_num f)).
Qed.

Lemma good_eq_const {A} : good (fun _ _ : A => Eq).
Proof. repeat split; intros; congruence. Qed.

Lemma good_hdr_chain fs : good (hdr_chain fs).
Proof.
  induction fs as [|f fs IH]; cbn [hdr_chain]; [apply good_eq_const|].
  apply (good_then (hdr_field_cmp f) (hdr_chain fs)); [apply good_hdr_field|exact IH].
Qed.

Theorem header_cmp_trans a b c o : m_header_cmp a b = o -> m_header_cmp b c = o -> m_header_cmp a c = o.
Proof. apply good_hdr_chain. Qed.

Lemma hdr_field_cmp_antisym f a b : hdr_field_cmp f b a = CompOpp (hdr_field_cmp f a b).
Proof. unfold hdr_field_cmp. destruct (f =? 1); [apply name_cmp_antisym|apply N.compare_antisym]. Qed.

Theorem header_cmp_antisym a b : m_header_cmp b a = CompOpp (m_header_cmp a b).
Proof.
  unfold m_header_cmp. induction header_cmp_fields as [|f fs IH]; cbn [hdr_chain]; [reflexivity|].
  rewrite then_cmp_opp, <- hdr_field_cmp_antisym, <- IH. reflexivity.
Qed.

Lemma hdr_field_cmp_eq f a b : hdr_field_cmp f a b = Eq <-> hdr_field_eq f a b = true.
Proof.
  unfold hdr_field_cmp, hdr_field_eq. destruct (f =? 1).
  - apply name_cmp_eq_iff.
  - rewrite N.compare_eq_iff, N.eqb_eq. reflexivity.
Qed.

Lemma hdr_chain_eq fs a b : hdr_chain fs a b = Eq <-> forallb (fun f => hdr_field_eq f a b) fs = true.
Proof.
  induction fs as [|f fs IH]; cbn [hdr_chain forallb]; [split; reflexivity|].
  rewrite andb_true_iff, <- IH, <- hdr_field_cmp_eq.
  destruct (hdr_field_cmp f a b); cbn [then_cmp]; split; intros H; try discriminate; try tauto.
Qed.

(* Ord and Eq of RecordHeader look at the same fields (T1), hence agree *)
Theorem header_cmp_eq_iff a b : m_header_cmp a b = Eq <-> m_header_eqb a b = true.
Proof.
  unfold m_header_cmp, m_header_eqb.
  replace header_eq_fields with header_cmp_fields by reflexivity. apply hdr_chain_eq.
Qed.

(* ParsedRecord ==: an equivalence; it compares the RDATA octets as they stand
   in the message, so the same record with a differently compressed name in
   its RDATA is a different ParsedRecord (by design: see its to_record) *)
Theorem parsed_record_eq_equiv :
  (forall a d, m_parsed_record_eq a d a d = true) /\
  (forall a d b e, m_parsed_record_eq a d b e = m_parsed_record_eq b e a d) /\
  (forall a d b e c f, m_parsed_record_eq a d b e = true -> m_parsed_record_eq b e c f = true ->
     m_parsed_record_eq a d c f = true).
Proof.
  assert (R : forall a, m_header_cmp a a = Eq).
  { intros a. unfold m_header_cmp. induction header_cmp_fields as [|f fs IH]; cbn [hdr_chain]; [reflexivity|].
    rewrite IH. unfold hdr_field_cmp. destruct (f =? 1); [rewrite name_cmp_refl|rewrite N.compare_refl]; reflexivity. }
  split; [|split].
  - intros a d. unfold m_parsed_record_eq. apply andb_true_iff. split; [apply header_cmp_eq_iff, R|apply bytes_eqb_refl].
  - intros a d b e. unfold m_parsed_record_eq. f_equal.
    + apply eq_true_iff_eq. rewrite <- !header_cmp_eq_iff, (header_cmp_antisym a b).
      destruct (m_header_cmp a b); cbn; split; congruence.
    + apply eq_true_iff_eq. rewrite !bytes_eqb_eq. split; auto.
  - intros a d b e c f H1 H2. unfold m_parsed_record_eq in *.
    apply andb_true_iff in H1 as [H1 D1]. apply andb_true_iff in H2 as [H2 D2].
    apply andb_true_iff. split.
    + apply header_cmp_eq_iff. eapply header_cmp_trans; apply header_cmp_eq_iff; eassumption.
    + apply bytes_eqb_eq in D1, D2. apply bytes_eqb_eq. congruence.
Qed.

Example parsed_record_eq_is_octetwise :
  let h := mkHdr [[97]] 15 1 0 5 in
  m_parsed_record_eq h [0;10;1;98;0] h [0;10;192;12] = false.
Proof. vm_compute. reflexivity. Qed.

(* the same for CharStr's and a name's canonical order inside record data:
   every field-wise canonical_cmp that equals the octet order of an encoding
   inherits the order laws from lex_cmp (schema_cmp_bytewise) *)
Example order_example :
  m_record_canonical_cmp (mkCrec [[97]] 1 0 1 [1]) (mkCrec [[98]] 1 0 1 [0]) = Lt /\
  m_record_canonical_cmp (mkCrec [[98]] 1 0 1 [0]) (mkCrec [[98]] 1 9 2 [0]) = Lt /\
  m_record_canonical_cmp (mkCrec [[97]] 1 0 1 [1]) (mkCrec [[98]] 1 9 2 [0]) = Lt.
Proof. vm_compute. auto. Qed.
