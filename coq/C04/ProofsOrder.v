(* C04 proofs, part 7: the canonical order of records is a total preorder
   whose equivalence is record_canonical_eq_iff: comparison chains built with
   then_cmp from well-behaved component orders are well-behaved. *)
From Coq Require Import NArith Arith List Bool Lia ZArith.
From Coq Require Import ZifyN ZifyBool ZifyNat.
From DV Require Import Base.Outcome Base.Bytes Base.Lex Base.Names C04.Gen C04.Model
  C04.ProofsLabel C04.ProofsIter C04.ProofsData.
Import ListNotations.
Local Open Scope N_scope.

Definition good {A} (f : A -> A -> comparison) : Prop :=
  (forall a b c o, f a b = o -> f b c = o -> f a c = o) /\
  (forall a b c, f a b = Eq -> f a c = f b c) /\
  (forall a b c, f b c = Eq -> f a b = f a c).

Lemma good_then {A} (f g : A -> A -> comparison) : good f -> good g ->
  good (fun a b => then_cmp (f a b) (g a b)).
Proof.
  intros [Tf [Lf Rf]] [Tg [Lg Rg]]. repeat split.
  - intros a b c o H1 H2. destruct (f a b) eqn:E1; cbn [then_cmp] in H1.
    + rewrite (Lf a b c E1). destruct (f b c) eqn:E2; cbn [then_cmp] in *; try assumption.
      eapply Tg; eauto.
    + subst o. destruct (f b c) eqn:E2; cbn [then_cmp] in H2.
      * rewrite <- (Rf a b c E2), E1. reflexivity.
      * rewrite (Tf a b c Lt E1 E2). reflexivity.
      * discriminate.
    + subst o. destruct (f b c) eqn:E2; cbn [then_cmp] in H2.
      * rewrite <- (Rf a b c E2), E1. reflexivity.
      * discriminate.
      * rewrite (Tf a b c Gt E1 E2). reflexivity.
  - intros a b c H. destruct (f a b) eqn:E1; cbn [then_cmp] in H; try discriminate.
    rewrite (Lf a b c E1), (Lg a b c H). reflexivity.
  - intros a b c H. destruct (f b c) eqn:E1; cbn [then_cmp] in H; try discriminate.
    rewrite (Rf a b c E1), (Rg a b c H). reflexivity.
Qed.

Lemma good_N {A} (p : A -> N) : good (fun a b => p a ?= p b).
Proof.
  repeat split.
  - intros a b c o H1 H2. destruct (N.compare_spec (p a) (p b)); destruct (N.compare_spec (p b) (p c));
      destruct (N.compare_spec (p a) (p c)); subst; try congruence; try lia.
  - intros a b c H. apply N.compare_eq in H. rewrite H. reflexivity.
  - intros a b c H. apply N.compare_eq in H. rewrite H. reflexivity.
Qed.

Lemma good_lex {A} (p : A -> bytes) : good (fun a b => lex_cmp (p a) (p b)).
Proof.
  repeat split.
  - intros a b c o. apply lex_cmp_trans.
  - intros a b c H. apply lex_cmp_eq in H. rewrite H. reflexivity.
  - intros a b c H. apply lex_cmp_eq in H. rewrite H. reflexivity.
Qed.

(* the canonical name order only looks at the lower-cased labels *)
Lemma labels_cmp_canon a : forall b, labels_cmp a b = labels_cmp (map lowers a) (map lowers b).
Proof.
  induction a as [|x a IH]; intros [|y b]; cbn [map labels_cmp]; try reflexivity.
  unfold label_cmp. rewrite !lowers_idem. destruct (lex_cmp (lowers x) (lowers y)); try reflexivity. apply IH.
Qed.

Lemma name_cmp_canon a b : name_cmp a b = name_cmp (canon a) (canon b).
Proof. unfold name_cmp, canon. rewrite <- !map_rev. apply labels_cmp_canon. Qed.

Lemma good_name {A} (p : A -> name) : good (fun a b => name_cmp (p a) (p b)).
Proof.
  repeat split.
  - intros a b c o. apply name_cmp_trans.
  - intros a b c H. apply name_cmp_eq_iff, name_eqb_spec in H.
    rewrite (name_cmp_canon (p a)), (name_cmp_canon (p b)), H. reflexivity.
  - intros a b c H. apply name_cmp_eq_iff, name_eqb_spec in H.
    rewrite (name_cmp_canon (p a) (p b)), (name_cmp_canon (p a) (p c)), H. reflexivity.
Qed.

Lemma record_canonical_good : good m_record_canonical_cmp.
Proof.
  assert (G : good (fun a b : crec => then_cmp (r_class a ?= r_class b)
            (then_cmp (name_cmp (r_owner a) (r_owner b))
              (then_cmp (r_rtype a ?= r_rtype b) (lex_cmp (r_rdata a) (r_rdata b)))))).
  { apply good_then; [apply good_N|]. apply good_then; [apply good_name|].
    apply good_then; [apply good_N|apply good_lex]. }
  destruct G as [T [L R]]. repeat split.
  - intros a b c o. rewrite !record_canonical_unfold. apply T.
  - intros a b c. rewrite !record_canonical_unfold. apply L.
  - intros a b c. rewrite !record_canonical_unfold. apply R.
Qed.

Theorem record_canonical_trans a b c o :
  m_record_canonical_cmp a b = o -> m_record_canonical_cmp b c = o -> m_record_canonical_cmp a c = o.
Proof. apply record_canonical_good. Qed.

Theorem record_canonical_eq_subst a b c :
  m_record_canonical_cmp a b = Eq -> m_record_canonical_cmp a c = m_record_canonical_cmp b c.
Proof. apply record_canonical_good. Qed.

(* the same for CharStr's and a name's canonical order inside record data:
   every field-wise canonical_cmp that equals the octet order of an encoding
   inherits the order laws from lex_cmp (schema_cmp_bytewise) *)
Example order_example :
  m_record_canonical_cmp (mkCrec [[97]] 1 0 1 [1]) (mkCrec [[98]] 1 0 1 [0]) = Lt /\
  m_record_canonical_cmp (mkCrec [[98]] 1 0 1 [0]) (mkCrec [[98]] 1 9 2 [0]) = Lt /\
  m_record_canonical_cmp (mkCrec [[97]] 1 0 1 [1]) (mkCrec [[98]] 1 9 2 [0]) = Lt.
Proof. vm_compute. auto. Qed.
