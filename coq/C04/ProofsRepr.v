(* C04 proofs, part 3: representations.  A representation `denotes` a label
   sequence when its iterator yields it forwards and backwards and its flat
   slice, if it offers one, is the wire form of that sequence.  Every
   operation is a function of the denoted sequence only. *)
From Coq Require Import NArith Arith List Bool Lia ZArith.
From Coq Require Import ZifyN ZifyBool ZifyNat.
From DV Require Import Base.Outcome Base.Bytes Base.Lex Base.Names Base.PName C04.Gen C04.Model
  C04.ProofsLabel C04.ProofsIter.
Import ListNotations.
Local Open Scope N_scope.
Ltac Zify.zify_post_hook ::= Z.div_mod_to_equations.

Record denotes (r : nrepr) (ls : list label) : Prop := mkDenotes {
  d_fwd : yields (iter_of r) ls;
  d_bwd : yields_back (iter_of r) (rev ls);
  d_flat : as_flat r = Ok None \/ as_flat r = Ok (Some (wire_labels ls))
}.

(* Name<Octs> / RelativeName<Octs> holding the wire form *)
Lemma denotes_flat ls : short_labels ls -> denotes (NFlat (wire_labels ls)) ls.
Proof.
  intros H. constructor; cbn [iter_of as_flat].
  - apply yields_flat. exact H.
  - apply yields_back_flat. exact H.
  - right. reflexivity.
Qed.

Lemma denotes_flat_abs n : Forall valid_label n -> denotes (NFlat (wire_abs n)) (n ++ [[]]).
Proof. intros H. rewrite <- wire_labels_abs. apply denotes_flat. apply valid_short_root. exact H. Qed.

Lemma denotes_flat_rel n : Forall valid_label n -> denotes (NFlat (wire_rel n)) n.
Proof. intros H. rewrite <- wire_labels_rel. apply denotes_flat. apply valid_short. exact H. Qed.

(* Chain<L, R> *)
Lemma denotes_chain l r la lb : denotes l la -> denotes r lb -> denotes (NChain l r) (la ++ lb).
Proof.
  intros [F1 B1 _] [F2 B2 _]. constructor; cbn [iter_of as_flat].
  - apply yields_chain; assumption.
  - rewrite rev_app_distr. apply yields_back_chain; assumption.
  - left. reflexivity.
Qed.

Lemma valid_abs_length n : valid_abs n -> (length (n ++ [[]]) < LOOP_FUEL)%nat.
Proof.
  intros [Hv Hl]. rewrite app_length. simpl.
  assert (length n <= wire_len n)%nat by (clear; induction n; simpl; lia).
  unfold LOOP_FUEL. lia.
Qed.

Lemma valid_rel_length n : valid_rel n -> (length n < LOOP_FUEL)%nat.
Proof.
  intros [Hv Hl].
  assert (length n <= wire_len n)%nat by (clear; induction n; simpl; lia).
  unfold LOOP_FUEL. lia.
Qed.

Lemma valid_lt256 n : Forall valid_label n -> Forall (fun l : label => (length l < 256)%nat) n.
Proof. intros H. eapply Forall_impl; [|exact H]. intros l [Hl _]. lia. Qed.

(* ---- absolute names *)

Theorem name_eq_repr ra rb a b : denotes ra (a ++ [[]]) -> denotes rb (b ++ [[]]) ->
  valid_abs a -> valid_abs b -> m_name_eq ra rb = Ok (name_eqb a b).
Proof.
  intros [Fa _ Da] [Fb _ Db] Va Vb. unfold m_name_eq, name_eq_gen.
  assert (I : iters_eq LOOP_FUEL (iter_of ra) (iter_of rb) = Ok (name_eqb a b)).
  { rewrite (iters_eq_yields _ _ Fa _ _ _ Fb) by (apply valid_abs_length; exact Va). rewrite leq_root. reflexivity. }
  destruct Da as [Da|Da]; destruct Db as [Db|Db]; rewrite Da, Db; cbn [bind]; try exact I.
  rewrite !wire_labels_abs. unfold name_eq_flat_ignores_case.
  rewrite flat_eq_iff_label_eq by assumption. reflexivity.
Qed.

Theorem name_cmp_repr ra rb a b : denotes ra (a ++ [[]]) -> denotes rb (b ++ [[]]) ->
  valid_abs a -> m_name_cmp ra rb = Ok (name_cmp a b).
Proof.
  intros [_ Ba _] [_ Bb _] Va. unfold m_name_cmp.
  change name_cmp_arm_none_some with Lt. change name_cmp_arm_some_none with Gt.
  change name_cmp_arm_none_none with Eq.
  rewrite (iters_cmp_back_yields _ _ Ba _ _ _ Bb) by (rewrite rev_length; apply valid_abs_length; exact Va).
  rewrite labels_cmp_root. reflexivity.
Qed.

Theorem name_hash_repr ra a : denotes ra (a ++ [[]]) -> valid_abs a ->
  m_name_hash ra = Ok (name_hash_feed a).
Proof.
  intros [Fa _ _] Va. unfold m_name_hash.
  rewrite (iters_hash_yields _ _ Fa) by (apply valid_abs_length; exact Va).
  rewrite hash_root by (apply valid_lt256; apply Va). reflexivity.
Qed.

Theorem composed_cmp_repr ra rb a b : denotes ra (a ++ [[]]) -> denotes rb (b ++ [[]]) ->
  valid_abs a -> valid_abs b -> m_composed_cmp ra rb = Ok (lex_cmp (wire_abs a) (wire_abs b)).
Proof.
  intros [Fa _ Da] [Fb _ Db] Va Vb. unfold m_composed_cmp.
  assert (I : iters_composed LOOP_FUEL m_label_composed_cmp composed_arm_none_none (iter_of ra) (iter_of rb)
              = Ok (lex_cmp (wire_abs a) (wire_abs b))).
  { change composed_arm_none_none with Eq.
    rewrite (iters_composed_yields _ _ _ Fa _ _ _ Fb) by (apply valid_abs_length; exact Va).
    destruct (labels_composed_wire a (valid_nonempty a (proj1 Va)) b (valid_nonempty b (proj1 Vb))) as [c [Hc Hw]].
    etransitivity; [exact Hc|]. specialize (Hw [] []). rewrite !app_nil_r in Hw. rewrite Hw. cbn [lex_cmp].
    rewrite then_cmp_eq_r. reflexivity. }
  destruct Da as [Da|Da]; destruct Db as [Db|Db]; rewrite Da, Db; cbn [bind]; try exact I.
  rewrite !wire_labels_abs. reflexivity.
Qed.

Theorem lc_composed_cmp_repr ra rb a b : denotes ra (a ++ [[]]) -> denotes rb (b ++ [[]]) ->
  valid_abs a -> valid_abs b ->
  m_lc_composed_cmp ra rb = Ok (lex_cmp (wire_abs (canon a)) (wire_abs (canon b))).
Proof.
  intros [Fa _ _] [Fb _ _] Va Vb. unfold m_lc_composed_cmp.
  change lc_composed_arm_none_none with Eq.
  rewrite (iters_composed_yields _ _ _ Fa _ _ _ Fb) by (apply valid_abs_length; exact Va).
  destruct (labels_lc_composed_wire a b (valid_nonempty a (proj1 Va)) (valid_nonempty b (proj1 Vb))) as [c [Hc Hw]].
  etransitivity; [exact Hc|]. specialize (Hw [] []). rewrite !app_nil_r in Hw. rewrite Hw. cbn [lex_cmp].
  rewrite then_cmp_eq_r. reflexivity.
Qed.

(* ---- relative names *)

Theorem relname_eq_repr ra rb a b : denotes ra a -> denotes rb b ->
  valid_rel a -> valid_rel b -> m_relname_eq ra rb = Ok (name_eqb a b).
Proof.
  intros [Fa _ Da] [Fb _ Db] Va Vb. unfold m_relname_eq, name_eq_gen.
  assert (I : iters_eq LOOP_FUEL (iter_of ra) (iter_of rb) = Ok (name_eqb a b)).
  { rewrite (iters_eq_yields _ _ Fa _ _ _ Fb) by (apply valid_rel_length; exact Va). rewrite leq_name_eqb. reflexivity. }
  destruct Da as [Da|Da]; destruct Db as [Db|Db]; rewrite Da, Db; cbn [bind]; try exact I.
  rewrite !wire_labels_rel. unfold relname_eq_flat_ignores_case.
  rewrite flat_eq_iff_label_eq_rel by assumption. reflexivity.
Qed.

Theorem relname_cmp_repr ra rb a b : denotes ra a -> denotes rb b ->
  valid_rel a -> m_relname_cmp ra rb = Ok (name_cmp a b).
Proof.
  intros [_ Ba _] [_ Bb _] Va. unfold m_relname_cmp.
  change relname_cmp_arm_none_some with Lt. change relname_cmp_arm_some_none with Gt.
  change relname_cmp_arm_none_none with Eq.
  rewrite (iters_cmp_back_yields _ _ Ba _ _ _ Bb) by (rewrite rev_length; apply valid_rel_length; exact Va).
  reflexivity.
Qed.

(* ---- consequences: coherence and the total order, for every pair of
   representations of valid absolute names *)

Theorem eq_implies_same_hash ra rb a b : denotes ra (a ++ [[]]) -> denotes rb (b ++ [[]]) ->
  valid_abs a -> valid_abs b -> m_name_eq ra rb = Ok true -> m_name_hash ra = m_name_hash rb.
Proof.
  intros Da Db Va Vb E. rewrite (name_eq_repr _ _ _ _ Da Db Va Vb) in E. injection E as E.
  rewrite (name_hash_repr _ _ Da Va), (name_hash_repr _ _ Db Vb). f_equal. apply name_eq_hash. exact E.
Qed.

Theorem cmp_eq_iff_eq ra rb a b : denotes ra (a ++ [[]]) -> denotes rb (b ++ [[]]) ->
  valid_abs a -> valid_abs b -> (m_name_cmp ra rb = Ok Eq <-> m_name_eq ra rb = Ok true).
Proof.
  intros Da Db Va Vb. rewrite (name_eq_repr _ _ _ _ Da Db Va Vb), (name_cmp_repr _ _ _ _ Da Db Va).
  split; intros H; injection H as H; f_equal; apply name_cmp_eq_iff; exact H.
Qed.

Theorem cmp_antisym_repr ra rb a b : denotes ra (a ++ [[]]) -> denotes rb (b ++ [[]]) ->
  valid_abs a -> valid_abs b ->
  exists c, m_name_cmp ra rb = Ok c /\ m_name_cmp rb ra = Ok (CompOpp c).
Proof.
  intros Da Db Va Vb. exists (name_cmp a b).
  rewrite (name_cmp_repr _ _ _ _ Da Db Va), (name_cmp_repr _ _ _ _ Db Da Vb), (name_cmp_antisym a b). auto.
Qed.

Theorem cmp_trans_repr ra rb rc a b c o : denotes ra (a ++ [[]]) -> denotes rb (b ++ [[]]) ->
  denotes rc (c ++ [[]]) -> valid_abs a -> valid_abs b -> valid_abs c ->
  m_name_cmp ra rb = Ok o -> m_name_cmp rb rc = Ok o -> m_name_cmp ra rc = Ok o.
Proof.
  intros Da Db Dc Va Vb Vc. rewrite (name_cmp_repr _ _ _ _ Da Db Va), (name_cmp_repr _ _ _ _ Db Dc Vb),
    (name_cmp_repr _ _ _ _ Da Dc Va). intros H1 H2. injection H1 as H1. injection H2 as H2.
  f_equal. eapply name_cmp_trans; eauto.
Qed.

(* representation independence: the same name flat and as a chain of a
   relative prefix and an absolute suffix *)
Theorem chain_same_as_flat p s b rb : Forall valid_label p -> Forall valid_label s ->
  valid_abs (p ++ s) -> valid_abs b -> denotes rb (b ++ [[]]) ->
  let ch := NChain (NFlat (wire_rel p)) (NFlat (wire_abs s)) in
  let fl := NFlat (wire_abs (p ++ s)) in
  m_name_eq ch rb = m_name_eq fl rb /\ m_name_cmp ch rb = m_name_cmp fl rb /\
  m_name_hash ch = m_name_hash fl /\ m_lc_composed_cmp ch rb = m_lc_composed_cmp fl rb /\
  m_composed_cmp ch rb = m_composed_cmp fl rb.
Proof.
  intros Hp Hs Vps Vb Db ch fl.
  assert (Dch : denotes ch ((p ++ s) ++ [[]])).
  { rewrite <- app_assoc. apply denotes_chain; [apply denotes_flat_rel|apply denotes_flat_abs]; assumption. }
  assert (Dfl : denotes fl ((p ++ s) ++ [[]])) by (apply denotes_flat_abs; apply Vps).
  repeat split.
  - rewrite (name_eq_repr _ _ _ _ Dch Db Vps Vb), (name_eq_repr _ _ _ _ Dfl Db Vps Vb). reflexivity.
  - rewrite (name_cmp_repr _ _ _ _ Dch Db Vps), (name_cmp_repr _ _ _ _ Dfl Db Vps). reflexivity.
  - rewrite (name_hash_repr _ _ Dch Vps), (name_hash_repr _ _ Dfl Vps). reflexivity.
  - rewrite (lc_composed_cmp_repr _ _ _ _ Dch Db Vps Vb), (lc_composed_cmp_repr _ _ _ _ Dfl Db Vps Vb). reflexivity.
  - rewrite (composed_cmp_repr _ _ _ _ Dch Db Vps Vb), (composed_cmp_repr _ _ _ _ Dfl Db Vps Vb). reflexivity.
Qed.

(* ---- the operators are the trait functions (T1 tie: a rewritten Ord::cmp
   makes this lemma fail) *)
Lemma name_ops_delegate :
  name_ord_is_name_cmp = true /\ relname_ord_is_name_cmp = true /\ parsed_ord_is_name_cmp = true.
Proof. repeat split; reflexivity. Qed.

Theorem name_ord_repr ra rb a b : denotes ra (a ++ [[]]) -> denotes rb (b ++ [[]]) -> valid_abs a ->
  m_name_ord ra rb = Ok (name_cmp a b) /\ m_parsed_ord ra rb = Ok (name_cmp a b).
Proof.
  intros Da Db Va. unfold m_name_ord, m_parsed_ord, ord_via.
  destruct name_ops_delegate as [-> [_ ->]]. split; apply name_cmp_repr; assumption.
Qed.

Theorem relname_ord_repr ra rb a b : denotes ra a -> denotes rb b -> valid_rel a ->
  m_relname_ord ra rb = Ok (name_cmp a b).
Proof.
  intros Da Db Va. unfold m_relname_ord, ord_via. destruct name_ops_delegate as [_ [-> _]].
  apply relname_cmp_repr; assumption.
Qed.

(* ---- UncertainName *)
Theorem uncertain_abs_eq a b : valid_abs a -> valid_abs b ->
  m_uncertain_eq (UAbs (wire_abs a)) (UAbs (wire_abs b)) = Ok (name_eqb a b) /\
  m_uncertain_eq (UAbs (wire_abs a)) (URel (wire_rel b)) = Ok false /\
  m_uncertain_eq (URel (wire_rel a)) (URel (wire_rel b)) = Ok (name_eqb a b).
Proof.
  intros Va Vb. cbn [m_uncertain_eq]. change uncertain_eq_same_variant_only with true. cbv iota.
  split; [|split; [reflexivity|]].
  - apply name_eq_repr; try assumption; apply denotes_flat_abs; [apply Va|apply Vb].
  - apply relname_eq_repr; try assumption; apply denotes_flat_rel; [apply Va|apply Vb].
Qed.

Theorem uncertain_eq_hash a b : valid_abs a -> valid_abs b ->
  (m_uncertain_eq (UAbs (wire_abs a)) (UAbs (wire_abs b)) = Ok true ->
   m_uncertain_hash (UAbs (wire_abs a)) = m_uncertain_hash (UAbs (wire_abs b))) /\
  (m_uncertain_eq (URel (wire_rel a)) (URel (wire_rel b)) = Ok true ->
   m_uncertain_hash (URel (wire_rel a)) = m_uncertain_hash (URel (wire_rel b))).
Proof.
  intros Va Vb. destruct (uncertain_abs_eq a b Va Vb) as [E1 [_ E3]]. split; intros H.
  - rewrite E1 in H. injection H as H. cbn [m_uncertain_hash].
    rewrite (name_hash_repr _ a (denotes_flat_abs a (proj1 Va)) Va), (name_hash_repr _ b (denotes_flat_abs b (proj1 Vb)) Vb).
    f_equal. apply name_eq_hash. exact H.
  - rewrite E3 in H. injection H as H. cbn [m_uncertain_hash]. unfold m_name_hash.
    rewrite (iters_hash_yields _ _ (d_fwd _ _ (denotes_flat_rel a (proj1 Va)))) by (apply valid_rel_length; exact Va).
    rewrite (iters_hash_yields _ _ (d_fwd _ _ (denotes_flat_rel b (proj1 Vb)))) by (apply valid_rel_length; exact Vb).
    f_equal. rewrite (flat_map_hash_feed a) by (apply valid_lt256; apply Va).
    rewrite (flat_map_hash_feed b) by (apply valid_lt256; apply Vb).
    apply name_eqb_spec in H. unfold canon in H. clear - H. revert b H.
    induction a as [|x a IH]; intros [|y b] H; cbn [map concat] in *; try discriminate; [reflexivity|].
    injection H as H1 H2. rewrite (label_eq_hash x y) by (apply label_eqb_spec; exact H1). f_equal. apply IH. exact H2.
Qed.

(* ---- core::iter::Chain fuses its first half; the unfused IChain of the
   model yields the same labels because the halves keep answering None *)
Inductive fused_yields : option iter -> iter -> list label -> Prop :=
| FY_nil oa b : fused_next oa b = Ok None -> fused_yields oa b []
| FY_cons oa b l oa' b' ls : fused_next oa b = Ok (Some (l, (oa', b'))) -> fused_yields oa' b' ls ->
    fused_yields oa b (l :: ls).

Lemma fused_yields_second b lb : yields b lb -> fused_yields None b lb.
Proof.
  induction 1 as [b Hm | b l b' ls Hm Hb IH].
  - apply FY_nil. cbn [fused_next]. rewrite Hm. reflexivity.
  - eapply FY_cons; [|exact IH]. cbn [fused_next]. rewrite Hm. reflexivity.
Qed.

Theorem chain_fused_same a b la lb : yields a la -> yields b lb ->
  fused_yields (Some a) b (la ++ lb) /\ yields (IChain a b) (la ++ lb).
Proof.
  intros Ha Hb. split; [|apply yields_chain; assumption].
  induction Ha as [a Hn | a l a' ls Hn Ha IH].
  - cbn [app]. inversion Hb as [? Hm | ? l b' ls Hm Hb']; subst.
    + apply FY_nil. cbn [fused_next]. rewrite Hn. cbn [bind]. rewrite Hm. reflexivity.
    + eapply FY_cons; [|apply fused_yields_second; exact Hb'].
      cbn [fused_next]. rewrite Hn. cbn [bind]. rewrite Hm. reflexivity.
  - cbn [app]. eapply FY_cons; [|exact IH]. cbn [fused_next]. rewrite Hn. reflexivity.
Qed.

Lemma yields_det i a : yields i a -> forall b, yields i b -> a = b.
Proof.
  induction 1 as [i Hn | i l i' ls Hn Hi IH]; intros b Hb; inversion Hb as [? Hm | ? l2 i2 ls2 Hm Hb2]; subst;
    rewrite Hn in Hm; try discriminate; [reflexivity|].
  inversion Hm; subst. f_equal. apply IH. exact Hb2.
Qed.

Example repr_example :
  let ch := NChain (NFlat (wire_rel [[87;87;87]])) (NFlat (wire_abs [[97]; [66]])) in
  let fl := NFlat (wire_abs [[119;119;119]; [65]; [98]]) in
  m_name_eq ch fl = Ok true /\ m_name_cmp ch fl = Ok Eq /\ m_name_hash ch = m_name_hash fl /\
  m_composed_cmp ch fl = Ok Lt /\ m_lc_composed_cmp ch fl = Ok Eq.
Proof. vm_compute. auto. Qed.
