(* C04 proofs, part 4: character strings, the record data field schema and
   its instances, NSEC / SVCB / unknown record data, records. *)
From Coq Require Import NArith Arith List Bool Lia ZArith.
From Coq Require Import ZifyN ZifyBool ZifyNat.
From DV Require Import Base.Outcome Base.Bytes Base.Lex Base.Names Base.PName C04.Gen C04.Model
  C04.ProofsLabel C04.ProofsIter.
Import ListNotations.
Local Open Scope N_scope.
Ltac Zify.zify_post_hook ::= Z.div_mod_to_equations.

(* ------------------------------------------------------------------ CharStr *)

Lemma m_charstr_eq_spec a b : m_charstr_eq a b = eq_ci a b.
Proof. reflexivity. Qed.
Lemma m_charstr_cmp_spec a b : m_charstr_cmp a b = lex_cmp (lowers a) (lowers b).
Proof. reflexivity. Qed.
Lemma m_charstr_hash_spec a : m_charstr_hash a = lowers a.
Proof. reflexivity. Qed.
Lemma m_charstr_canonical_unfold a b :
  m_charstr_canonical_cmp a b = then_cmp (len_cmp a b) (lex_cmp a b).
Proof. reflexivity. Qed.

Theorem charstr_cmp_eq_iff a b : m_charstr_cmp a b = Eq <-> m_charstr_eq a b = true.
Proof.
  rewrite m_charstr_cmp_spec, m_charstr_eq_spec. split; intros H.
  - apply eq_ci_spec. apply lex_cmp_eq. exact H.
  - apply lex_cmp_eq. apply eq_ci_spec. exact H.
Qed.

Theorem charstr_eq_hash a b : m_charstr_eq a b = true -> m_charstr_hash a = m_charstr_hash b.
Proof. rewrite m_charstr_eq_spec, !m_charstr_hash_spec. intros H. apply eq_ci_spec. exact H. Qed.

Theorem charstr_cmp_antisym a b : m_charstr_cmp b a = CompOpp (m_charstr_cmp a b).
Proof. rewrite !m_charstr_cmp_spec. apply lex_cmp_antisym. Qed.

Theorem charstr_cmp_trans a b c o :
  m_charstr_cmp a b = o -> m_charstr_cmp b c = o -> m_charstr_cmp a c = o.
Proof. rewrite !m_charstr_cmp_spec. apply lex_cmp_trans. Qed.

(* canonical order: "length first, then octets" IS the octet order of the wire
   form, because the wire form starts with the length octet *)
Theorem charstr_canonical_bytewise a b :
  m_charstr_canonical_cmp a b = lex_cmp (wire_charstr a) (wire_charstr b).
Proof.
  rewrite m_charstr_canonical_unfold. unfold wire_charstr.
  pose proof (len_prefixed_cmp a b [] []) as H. rewrite !app_nil_r in H. rewrite H.
  cbn [lex_cmp]. rewrite then_cmp_eq_r. reflexivity.
Qed.

Example charstr_example :
  m_charstr_eq [65;98] [97;66] = true /\ m_charstr_cmp [98] [97;97] = Gt /\
  m_charstr_canonical_cmp [98] [97;97] = Lt /\ m_charstr_canonical_cmp [65] [97] = Lt /\
  m_charstr_hash [65;0;90] = [97;0;122].
Proof. vm_compute. auto. Qed.

(* ------------------------------------------------- integers, big endian *)

Lemma be16_cmp a b : a < 65536 -> b < 65536 -> lex_cmp (be16 a) (be16 b) = (a ?= b).
Proof.
  intros Ha Hb. unfold be16. cbn [lex_cmp].
  destruct (N.compare_spec (a / 256) (b / 256)) as [E|L|G];
    destruct (N.compare_spec (a mod 256) (b mod 256)) as [E2|L2|G2];
    destruct (N.compare_spec a b) as [E3|L3|G3]; try reflexivity; exfalso; lia.
Qed.

Lemma be32_split n : n < 4294967296 -> be32 n = be16 (n / 65536) ++ be16 (n mod 65536).
Proof.
  intros H. unfold be32, be16. cbn [app].
  repeat (f_equal; try lia).
Qed.

Lemma be32_cmp a b : a < 4294967296 -> b < 4294967296 -> lex_cmp (be32 a) (be32 b) = (a ?= b).
Proof.
  intros Ha Hb. rewrite !be32_split by assumption. rewrite lex_cmp_app by reflexivity.
  rewrite !be16_cmp by lia.
  destruct (N.compare_spec (a / 65536) (b / 65536)) as [E|L|G];
    destruct (N.compare_spec (a mod 65536) (b mod 65536)) as [E2|L2|G2];
    destruct (N.compare_spec a b) as [E3|L3|G3]; try reflexivity; exfalso; lia.
Qed.

Lemma u8_cmp a b : lex_cmp [a] [b] = (a ?= b).
Proof. cbn [lex_cmp]. destruct (a ?= b); reflexivity. Qed.

(* ------------------------------------------------------- the field schema *)

Definition is_tail (f : field) : bool := match f with FTail _ => true | _ => false end.

Lemma field_cmp_enc f g : same_kind f g = true -> field_ok f -> field_ok g -> is_tail f = false ->
  exists c, field_cmp f g = Ok c /\
    forall r1 r2, lex_cmp (field_enc f ++ r1) (field_enc g ++ r2) = then_cmp c (lex_cmp r1 r2).
Proof.
  intros K Of Og T. destruct f as [a|a|a|a|a|a]; destruct g as [b|b|b|b|b|b]; try discriminate; cbn [field_cmp field_enc].
  - exists (lex_cmp a b). split; [reflexivity|]. intros r1 r2.
    cbn [same_kind] in K. apply Nat.eqb_eq in K. rewrite lex_cmp_app by exact K.
    destruct (lex_cmp a b); reflexivity.
  - apply labels_lc_composed_wire; apply valid_nonempty; [apply Of|apply Og].
  - apply labels_composed_wire; apply valid_nonempty; [apply Of|apply Og].
  - exists (m_charstr_canonical_cmp a b). split; [reflexivity|]. intros r1 r2.
    rewrite m_charstr_canonical_unfold. unfold wire_charstr. apply len_prefixed_cmp.
  - exists (then_cmp (len_cmp a b) (lex_cmp a b)). split; [reflexivity|]. intros r1 r2.
    cbn [field_ok] in Of, Og. rewrite <- !app_assoc. rewrite lex_cmp_app by reflexivity.
    rewrite be16_cmp by lia. rewrite <- Nat2N.inj_compare. unfold len_cmp.
    destruct (Nat.compare (length a) (length b)) eqn:E; cbn [then_cmp]; try reflexivity.
    apply Nat.compare_eq in E. rewrite lex_cmp_app by exact E. destruct (lex_cmp a b); reflexivity.
Qed.

Lemma same_schema_nil_l b : same_schema [] b = true -> b = [].
Proof. destruct b; [reflexivity|discriminate]. Qed.

(* field-wise canonical_cmp = octet order of the concatenated canonical
   encodings, for every pair of values of the same record type *)
Theorem schema_cmp_bytewise a : forall b, same_schema a b = true ->
  Forall field_ok a -> Forall field_ok b ->
  fields_cmp a b = Ok (lex_cmp (fields_enc a) (fields_enc b)).
Proof.
  induction a as [|f a IH]; intros b S Oa Ob.
  - apply same_schema_nil_l in S. subst. reflexivity.
  - destruct b as [|g b]; [discriminate|]. cbn [same_schema] in S.
    apply andb_true_iff in S as [S S3]. apply andb_true_iff in S as [S1 S2].
    inversion Oa as [|? ? Of Oa']; subst. inversion Ob as [|? ? Og Ob']; subst.
    cbn [fields_cmp fields_enc flat_map]. fold (fields_enc a). fold (fields_enc b).
    destruct (is_tail f) eqn:T.
    + destruct f as [?|?|?|?|t1|?]; try discriminate. destruct g as [?|?|?|?|t2|?]; try discriminate.
      destruct a as [|? ?]; [|discriminate]. apply same_schema_nil_l in S3. subst.
      cbn [field_cmp bind fields_cmp fields_enc flat_map field_enc]. rewrite !app_nil_r.
      destruct (lex_cmp t1 t2); reflexivity.
    + destruct (field_cmp_enc f g S1 Of Og T) as [c [Hc Hw]]. rewrite Hc. cbn [bind].
      rewrite Hw. rewrite (IH b S3 Oa' Ob').
      destruct c; reflexivity.
Qed.

(* an integer field compared numerically is compared as its big-endian octets *)
Lemma field_cmp_u8 x y : field_cmp (FFixed [x]) (FFixed [y]) = Ok (x ?= y).
Proof. cbn [field_cmp]. rewrite u8_cmp. reflexivity. Qed.
Lemma field_cmp_u16 x y : x < 65536 -> y < 65536 ->
  field_cmp (FFixed (be16 x)) (FFixed (be16 y)) = Ok (x ?= y).
Proof. intros. cbn [field_cmp]. rewrite be16_cmp by assumption. reflexivity. Qed.
Lemma field_cmp_u32 x y : x < 4294967296 -> y < 4294967296 ->
  field_cmp (FFixed (be32 x)) (FFixed (be32 y)) = Ok (x ?= y).
Proof. intros. cbn [field_cmp]. rewrite be32_cmp by assumption. reflexivity. Qed.

(* ---- instances: the field lists in the order of each type's canonical_cmp
   (T1 checks the order and the comparison method of every field) *)
Definition rd_a (addr : bytes) : list field := [FFixed addr].
Definition rd_mx (pref : N) (ex : name) : list field := [FFixed (be16 pref); FName ex].
Definition rd_soa (m r : name) (serial refresh retry expire minimum : N) : list field :=
  [FName m; FName r; FFixed (be32 serial); FFixed (be32 refresh); FFixed (be32 retry);
   FFixed (be32 expire); FFixed (be32 minimum)].
Definition rd_srv (prio weight port : N) (target : name) : list field :=
  [FFixed (be16 prio); FFixed (be16 weight); FFixed (be16 port); FName target].
Definition rd_ds (key_tag alg dtype : N) (digest : bytes) : list field :=
  [FFixed (be16 key_tag); FFixed [alg]; FFixed [dtype]; FTail digest].
Definition rd_dnskey (flags proto alg : N) (key : bytes) : list field :=
  [FFixed (be16 flags); FFixed [proto]; FFixed [alg]; FTail key].
Definition rd_txt (content : bytes) : list field := [FTail content].
Definition rd_hinfo (cpu os : bytes) : list field := [FStr cpu; FStr os].
Definition rd_nsec (next : name) (types : bytes) : list field := [FNameRaw next; FTail types].

Ltac fields_ok :=
  repeat (apply Forall_cons; [cbn [field_ok]; first [exact I | assumption]|]); apply Forall_nil.
Ltac schema_instance :=
  intros; apply schema_cmp_bytewise;
  [ cbn [same_schema same_kind tail_last be16 be32 length andb app]; rewrite ?Nat.eqb_refl; try reflexivity
  | fields_ok | fields_ok ].

Theorem a_canonical_bytewise x y : length x = length y ->
  fields_cmp (rd_a x) (rd_a y) = Ok (lex_cmp (fields_enc (rd_a x)) (fields_enc (rd_a y))).
Proof.
  intros H. apply schema_cmp_bytewise; [|fields_ok|fields_ok].
  cbn [rd_a same_schema same_kind tail_last andb]. rewrite H, Nat.eqb_refl. reflexivity.
Qed.

Theorem mx_canonical_bytewise p1 e1 p2 e2 : valid_abs e1 -> valid_abs e2 ->
  fields_cmp (rd_mx p1 e1) (rd_mx p2 e2) = Ok (lex_cmp (fields_enc (rd_mx p1 e1)) (fields_enc (rd_mx p2 e2))).
Proof. unfold rd_mx. schema_instance. Qed.

Theorem soa_canonical_bytewise m1 r1 s1 f1 t1 e1 n1 m2 r2 s2 f2 t2 e2 n2 :
  valid_abs m1 -> valid_abs r1 -> valid_abs m2 -> valid_abs r2 ->
  fields_cmp (rd_soa m1 r1 s1 f1 t1 e1 n1) (rd_soa m2 r2 s2 f2 t2 e2 n2) =
  Ok (lex_cmp (fields_enc (rd_soa m1 r1 s1 f1 t1 e1 n1)) (fields_enc (rd_soa m2 r2 s2 f2 t2 e2 n2))).
Proof. unfold rd_soa. schema_instance. Qed.

Theorem srv_canonical_bytewise p1 w1 o1 t1 p2 w2 o2 t2 : valid_abs t1 -> valid_abs t2 ->
  fields_cmp (rd_srv p1 w1 o1 t1) (rd_srv p2 w2 o2 t2) =
  Ok (lex_cmp (fields_enc (rd_srv p1 w1 o1 t1)) (fields_enc (rd_srv p2 w2 o2 t2))).
Proof. unfold rd_srv. schema_instance. Qed.

Theorem ds_canonical_bytewise k1 a1 t1 d1 k2 a2 t2 d2 :
  fields_cmp (rd_ds k1 a1 t1 d1) (rd_ds k2 a2 t2 d2) =
  Ok (lex_cmp (fields_enc (rd_ds k1 a1 t1 d1)) (fields_enc (rd_ds k2 a2 t2 d2))).
Proof. unfold rd_ds. schema_instance. Qed.

Theorem dnskey_canonical_bytewise k1 a1 t1 d1 k2 a2 t2 d2 :
  fields_cmp (rd_dnskey k1 a1 t1 d1) (rd_dnskey k2 a2 t2 d2) =
  Ok (lex_cmp (fields_enc (rd_dnskey k1 a1 t1 d1)) (fields_enc (rd_dnskey k2 a2 t2 d2))).
Proof. unfold rd_dnskey. schema_instance. Qed.

Theorem txt_canonical_bytewise c1 c2 :
  fields_cmp (rd_txt c1) (rd_txt c2) = Ok (lex_cmp (fields_enc (rd_txt c1)) (fields_enc (rd_txt c2))).
Proof. unfold rd_txt. schema_instance. Qed.

Theorem hinfo_canonical_bytewise c1 o1 c2 o2 : (length c1 <= 255)%nat -> (length o1 <= 255)%nat ->
  (length c2 <= 255)%nat -> (length o2 <= 255)%nat ->
  fields_cmp (rd_hinfo c1 o1) (rd_hinfo c2 o2) =
  Ok (lex_cmp (fields_enc (rd_hinfo c1 o1)) (fields_enc (rd_hinfo c2 o2))).
Proof. unfold rd_hinfo. schema_instance. Qed.



Example schema_example :
  fields_cmp (rd_mx 10 [[98]]) (rd_mx 10 [[97;97]]) = Ok Lt /\
  fields_enc (rd_mx 10 [[66]]) = [0;10;1;98;0] /\
  fields_cmp (rd_mx 256 [[98]]) (rd_mx 1 [[98]]) = Ok Gt /\
  fields_cmp (rd_soa [[97]] [[98]] 1 2 3 4 5) (rd_soa [[65]] [[98]] 1 2 3 4 6) = Ok Lt.
Proof. vm_compute. auto. Qed.

(* further instances (T1 item <type>_fields_ok pins order and methods) *)
Definition rd_name1 (n : name) : list field := [FName n].   (* NS CNAME PTR DNAME MB MD MF MG MR *)
Definition rd_name2 (a b : name) : list field := [FName a; FName b].   (* MINFO RP *)
Definition rd_tlsa (usage selector mtype : N) (data : bytes) : list field :=
  [FFixed [usage]; FFixed [selector]; FFixed [mtype]; FTail data].
Definition rd_sshfp (alg ftype : N) (fp : bytes) : list field := [FFixed [alg]; FFixed [ftype]; FTail fp].
Definition rd_zonemd (serial scheme algo : N) (digest : bytes) : list field :=
  [FFixed (be32 serial); FFixed [scheme]; FFixed [algo]; FTail digest].
Definition rd_rrsig (covered alg labels ottl expiration inception tag : N) (signer : name) (sig : bytes)
  : list field :=
  [FFixed (be16 covered); FFixed [alg]; FFixed [labels]; FFixed (be32 ottl); FFixed (be32 expiration);
   FFixed (be32 inception); FFixed (be16 tag); FName signer; FTail sig].
Definition rd_nsec3 (halg flags iter : N) (salt next types : bytes) : list field :=
  [FFixed [halg]; FFixed [flags]; FFixed (be16 iter); FStr salt; FStr next; FTail types].
Definition rd_nsec3param (halg flags iter : N) (salt : bytes) : list field :=
  [FFixed [halg]; FFixed [flags]; FFixed (be16 iter); FStr salt].
Definition rd_caa (flags : N) (tag value : bytes) : list field := [FFixed [flags]; FStr tag; FTail value].
Definition rd_naptr (order pref : N) (flags services regexp : bytes) (repl : name) : list field :=
  [FFixed (be16 order); FFixed (be16 pref); FStr flags; FStr services; FStr regexp; FName repl].

Theorem name1_canonical_bytewise n1 n2 : valid_abs n1 -> valid_abs n2 ->
  fields_cmp (rd_name1 n1) (rd_name1 n2) = Ok (lex_cmp (fields_enc (rd_name1 n1)) (fields_enc (rd_name1 n2))).
Proof. unfold rd_name1. schema_instance. Qed.
Theorem name2_canonical_bytewise a1 b1 a2 b2 : valid_abs a1 -> valid_abs b1 -> valid_abs a2 -> valid_abs b2 ->
  fields_cmp (rd_name2 a1 b1) (rd_name2 a2 b2) = Ok (lex_cmp (fields_enc (rd_name2 a1 b1)) (fields_enc (rd_name2 a2 b2))).
Proof. unfold rd_name2. schema_instance. Qed.
Theorem tlsa_canonical_bytewise u1 s1 m1 d1 u2 s2 m2 d2 :
  fields_cmp (rd_tlsa u1 s1 m1 d1) (rd_tlsa u2 s2 m2 d2) =
  Ok (lex_cmp (fields_enc (rd_tlsa u1 s1 m1 d1)) (fields_enc (rd_tlsa u2 s2 m2 d2))).
Proof. unfold rd_tlsa. schema_instance. Qed.
Theorem sshfp_canonical_bytewise a1 t1 f1 a2 t2 f2 :
  fields_cmp (rd_sshfp a1 t1 f1) (rd_sshfp a2 t2 f2) =
  Ok (lex_cmp (fields_enc (rd_sshfp a1 t1 f1)) (fields_enc (rd_sshfp a2 t2 f2))).
Proof. unfold rd_sshfp. schema_instance. Qed.
Theorem zonemd_canonical_bytewise s1 c1 a1 d1 s2 c2 a2 d2 :
  fields_cmp (rd_zonemd s1 c1 a1 d1) (rd_zonemd s2 c2 a2 d2) =
  Ok (lex_cmp (fields_enc (rd_zonemd s1 c1 a1 d1)) (fields_enc (rd_zonemd s2 c2 a2 d2))).
Proof. unfold rd_zonemd. schema_instance. Qed.
Theorem rrsig_canonical_bytewise c1 a1 l1 o1 e1 i1 t1 n1 s1 c2 a2 l2 o2 e2 i2 t2 n2 s2 :
  valid_abs n1 -> valid_abs n2 ->
  fields_cmp (rd_rrsig c1 a1 l1 o1 e1 i1 t1 n1 s1) (rd_rrsig c2 a2 l2 o2 e2 i2 t2 n2 s2) =
  Ok (lex_cmp (fields_enc (rd_rrsig c1 a1 l1 o1 e1 i1 t1 n1 s1)) (fields_enc (rd_rrsig c2 a2 l2 o2 e2 i2 t2 n2 s2))).
Proof. unfold rd_rrsig. schema_instance. Qed.
Theorem nsec3_canonical_bytewise h1 f1 i1 s1 n1 t1 h2 f2 i2 s2 n2 t2 :
  (length s1 <= 255)%nat -> (length n1 <= 255)%nat -> (length s2 <= 255)%nat -> (length n2 <= 255)%nat ->
  fields_cmp (rd_nsec3 h1 f1 i1 s1 n1 t1) (rd_nsec3 h2 f2 i2 s2 n2 t2) =
  Ok (lex_cmp (fields_enc (rd_nsec3 h1 f1 i1 s1 n1 t1)) (fields_enc (rd_nsec3 h2 f2 i2 s2 n2 t2))).
Proof. unfold rd_nsec3. schema_instance. Qed.
Theorem nsec3param_canonical_bytewise h1 f1 i1 s1 h2 f2 i2 s2 :
  (length s1 <= 255)%nat -> (length s2 <= 255)%nat ->
  fields_cmp (rd_nsec3param h1 f1 i1 s1) (rd_nsec3param h2 f2 i2 s2) =
  Ok (lex_cmp (fields_enc (rd_nsec3param h1 f1 i1 s1)) (fields_enc (rd_nsec3param h2 f2 i2 s2))).
Proof. unfold rd_nsec3param. schema_instance. Qed.
Theorem caa_canonical_bytewise f1 t1 v1 f2 t2 v2 : (length t1 <= 255)%nat -> (length t2 <= 255)%nat ->
  fields_cmp (rd_caa f1 t1 v1) (rd_caa f2 t2 v2) =
  Ok (lex_cmp (fields_enc (rd_caa f1 t1 v1)) (fields_enc (rd_caa f2 t2 v2))).
Proof. unfold rd_caa. schema_instance. Qed.
Theorem naptr_canonical_bytewise o1 p1 f1 s1 r1 n1 o2 p2 f2 s2 r2 n2 :
  (length f1 <= 255)%nat -> (length s1 <= 255)%nat -> (length r1 <= 255)%nat -> valid_abs n1 ->
  (length f2 <= 255)%nat -> (length s2 <= 255)%nat -> (length r2 <= 255)%nat -> valid_abs n2 ->
  fields_cmp (rd_naptr o1 p1 f1 s1 r1 n1) (rd_naptr o2 p2 f2 s2 r2 n2) =
  Ok (lex_cmp (fields_enc (rd_naptr o1 p1 f1 s1 r1 n1)) (fields_enc (rd_naptr o2 p2 f2 s2 r2 n2))).
Proof. unfold rd_naptr. schema_instance. Qed.

(* TSIG, OPT and IPSECKEY with an address (or no) gateway *)
Lemma be48_cmp a b : a < 281474976710656 -> b < 281474976710656 -> lex_cmp (be48 a) (be48 b) = (a ?= b).
Proof.
  intros Ha Hb. unfold be48. rewrite lex_cmp_app by reflexivity. rewrite be16_cmp, be32_cmp by lia.
  destruct (N.compare_spec (a / 4294967296) (b / 4294967296)) as [E|L|G];
    destruct (N.compare_spec (a mod 4294967296) (b mod 4294967296)) as [E2|L2|G2];
    destruct (N.compare_spec a b) as [E3|L3|G3]; try reflexivity; exfalso; lia.
Qed.
Definition rd_tsig (alg : name) (time fudge : N) (mac : bytes) (oid err : N) (other : bytes) : list field :=
  [FNameRaw alg; FFixed (be48 time); FFixed (be16 fudge); FStr16 mac; FFixed (be16 oid); FFixed (be16 err);
   FStr16 other].
Definition rd_opt (options : bytes) : list field := [FTail options].
(* addr: 4 or 16 octets, or none for gateway type 0 *)
Definition rd_ipseckey_addr (prec gtype alg : N) (addr key : bytes) : list field :=
  [FFixed [prec]; FFixed [gtype]; FFixed [alg]; FFixed addr; FTail key].

Theorem tsig_canonical_bytewise a1 t1 f1 m1 i1 e1 o1 a2 t2 f2 m2 i2 e2 o2 :
  valid_abs a1 -> valid_abs a2 -> N.of_nat (length m1) <= 65535 -> N.of_nat (length o1) <= 65535 ->
  N.of_nat (length m2) <= 65535 -> N.of_nat (length o2) <= 65535 ->
  fields_cmp (rd_tsig a1 t1 f1 m1 i1 e1 o1) (rd_tsig a2 t2 f2 m2 i2 e2 o2) =
  Ok (lex_cmp (fields_enc (rd_tsig a1 t1 f1 m1 i1 e1 o1)) (fields_enc (rd_tsig a2 t2 f2 m2 i2 e2 o2))).
Proof. unfold rd_tsig. schema_instance. Qed.
Theorem opt_canonical_bytewise o1 o2 :
  fields_cmp (rd_opt o1) (rd_opt o2) = Ok (lex_cmp (fields_enc (rd_opt o1)) (fields_enc (rd_opt o2))).
Proof. unfold rd_opt. schema_instance. Qed.
Theorem ipseckey_addr_canonical_bytewise p1 g1 a1 d1 k1 p2 g2 a2 d2 k2 : length d1 = length d2 ->
  fields_cmp (rd_ipseckey_addr p1 g1 a1 d1 k1) (rd_ipseckey_addr p2 g2 a2 d2 k2) =
  Ok (lex_cmp (fields_enc (rd_ipseckey_addr p1 g1 a1 d1 k1)) (fields_enc (rd_ipseckey_addr p2 g2 a2 d2 k2))).
Proof.
  intros H. unfold rd_ipseckey_addr. apply schema_cmp_bytewise; [|fields_ok|fields_ok].
  cbn [same_schema same_kind tail_last length andb]. rewrite H, !Nat.eqb_refl. reflexivity.
Qed.

(* ---- NSEC: the coded comparison compares `self.types` with itself *)

Definition nsec_enc (n : name) (t : bytes) : bytes := wire_abs n ++ t.

Lemma nsec_fixed_is_schema n1 t1 n2 t2 :
  nsec_canonical_cmp_gen true n1 t1 n2 t2 = fields_cmp (rd_nsec n1 t1) (rd_nsec n2 t2).
Proof.
  unfold nsec_canonical_cmp_gen, rd_nsec. cbn [fields_cmp].
  destruct (field_cmp (FNameRaw n1) (FNameRaw n2)) as [c| | |]; cbn [bind]; try reflexivity.
  destruct c; try reflexivity. cbn [field_cmp bind]. destruct (lex_cmp t1 t2); reflexivity.
Qed.

(* the defect class: different type bitmaps while `types` is compared with self *)
Definition nsec_self_compare (vs_other : bool) (t1 t2 : bytes) : Prop := vs_other = false /\ t1 <> t2.

Theorem nsec_canonical_bytewise vs n1 t1 n2 t2 : valid_abs n1 -> valid_abs n2 ->
  ~ nsec_self_compare vs t1 t2 ->
  nsec_canonical_cmp_gen vs n1 t1 n2 t2 = Ok (lex_cmp (nsec_enc n1 t1) (nsec_enc n2 t2)).
Proof.
  intros V1 V2 K.
  assert (E : nsec_canonical_cmp_gen vs n1 t1 n2 t2 = nsec_canonical_cmp_gen true n1 t1 n2 t2).
  { destruct vs; [reflexivity|]. destruct (list_eq_dec N.eq_dec t1 t2) as [->|D].
    - unfold nsec_canonical_cmp_gen. reflexivity.
    - exfalso. apply K. split; [reflexivity|exact D]. }
  rewrite E, nsec_fixed_is_schema. unfold rd_nsec.
  rewrite schema_cmp_bytewise; [|reflexivity|fields_ok|fields_ok].
  unfold nsec_enc. cbn [fields_enc flat_map field_enc]. rewrite !app_nil_r. reflexivity.
Qed.

(* next name "a.", type bitmaps {A} and {NS}: equal for the code, different
   canonical forms *)
Theorem nsec_canonical_refuted : exists n t1 t2, valid_abs n /\
  nsec_canonical_cmp_gen false n t1 n t2 = Ok Eq /\ lex_cmp (nsec_enc n t1) (nsec_enc n t2) = Gt.
Proof. exists [[97]], [0;1;64], [0;1;32]. split; [|vm_compute; auto]. split; [repeat constructor; simpl; lia|simpl; lia]. Qed.

(* ---- SVCB / HTTPS: the target is compared with name_cmp, the canonical form
   keeps it as is *)

Definition svcb_name_cmp_used (composed : bool) (p1 p2 : N) (t1 t2 : name) : Prop :=
  composed = false /\ p1 = p2 /\ t1 <> t2.

Theorem svcb_canonical_bytewise composed p1 t1 par1 p2 t2 par2 :
  p1 < 65536 -> p2 < 65536 -> valid_abs t1 -> valid_abs t2 ->
  ~ svcb_name_cmp_used composed p1 p2 t1 t2 ->
  svcb_canonical_cmp_gen composed p1 t1 par1 p2 t2 par2 =
  Ok (lex_cmp (svcb_enc p1 t1 par1) (svcb_enc p2 t2 par2)).
Proof.
  intros H1 H2 V1 V2 K. unfold svcb_enc. rewrite lex_cmp_app by reflexivity. rewrite be16_cmp by assumption.
  unfold svcb_canonical_cmp_gen. destruct (N.compare_spec p1 p2) as [E|L|G]; try reflexivity. subst p2.
  destruct (labels_composed_wire t1 (valid_nonempty _ (proj1 V1)) t2 (valid_nonempty _ (proj1 V2))) as [c [Hc Hw]].
  assert (S : (if composed then field_cmp (FNameRaw t1) (FNameRaw t2) else Ok (name_cmp t1 t2)) = Ok c).
  { destruct composed; [exact Hc|].
    destruct (list_eq_dec (list_eq_dec N.eq_dec) t1 t2) as [->|D].
    - rewrite name_cmp_refl. f_equal.
      specialize (Hw [] []). rewrite lex_cmp_refl in Hw. cbn [lex_cmp] in Hw.
      destruct c; [reflexivity|discriminate|discriminate].
    - exfalso. apply K. repeat split; auto. }
  rewrite S. cbn [bind]. rewrite Hw. destruct c; reflexivity.
Qed.

(* priority 1, targets "b." and "aa.": name order says greater, octets less *)
Theorem svcb_canonical_refuted : exists t1 t2, valid_abs t1 /\ valid_abs t2 /\
  svcb_canonical_cmp_gen false 1 t1 [] 1 t2 [] = Ok Gt /\
  lex_cmp (svcb_enc 1 t1 []) (svcb_enc 1 t2 []) = Lt.
Proof.
  exists [[98]], [[97;97]]. split; [split; [repeat constructor; simpl; lia|simpl; lia]|].
  split; [split; [repeat constructor; simpl; lia|simpl; lia]|]. vm_compute. auto.
Qed.

(* upper and lower case targets: equal for the code, different octets *)
Theorem svcb_canonical_case_refuted :
  svcb_canonical_cmp_gen false 1 [[65]] [] 1 [[97]] [] = Ok Eq /\
  lex_cmp (svcb_enc 1 [[65]] []) (svcb_enc 1 [[97]] []) = Lt.
Proof. vm_compute. auto. Qed.

(* ---- IPSECKEY with a name gateway: same pattern, generic in the fixed prefix *)

Definition name_cmp_used (composed : bool) (pre1 pre2 : bytes) (t1 t2 : name) : Prop :=
  composed = false /\ pre1 = pre2 /\ t1 <> t2.

Theorem prefixed_name_cmp_bytewise composed pre1 t1 tail1 pre2 t2 tail2 :
  length pre1 = length pre2 -> valid_abs t1 -> valid_abs t2 ->
  ~ name_cmp_used composed pre1 pre2 t1 t2 ->
  prefixed_name_cmp_gen composed pre1 t1 tail1 pre2 t2 tail2 =
  Ok (lex_cmp (pre1 ++ wire_abs t1 ++ tail1) (pre2 ++ wire_abs t2 ++ tail2)).
Proof.
  intros Hl V1 V2 K. rewrite lex_cmp_app by exact Hl. unfold prefixed_name_cmp_gen.
  destruct (lex_cmp pre1 pre2) eqn:Ep; try reflexivity. apply lex_cmp_eq in Ep. subst pre2.
  destruct (labels_composed_wire t1 (valid_nonempty _ (proj1 V1)) t2 (valid_nonempty _ (proj1 V2))) as [c [Hc Hw]].
  assert (S : (if composed then field_cmp (FNameRaw t1) (FNameRaw t2) else Ok (name_cmp t1 t2)) = Ok c).
  { destruct composed; [exact Hc|].
    destruct (list_eq_dec (list_eq_dec N.eq_dec) t1 t2) as [->|D].
    - rewrite name_cmp_refl. f_equal.
      specialize (Hw [] []). rewrite lex_cmp_refl in Hw. cbn [lex_cmp] in Hw.
      destruct c; [reflexivity|discriminate|discriminate].
    - exfalso. apply K. repeat split; auto. }
  rewrite S. cbn [bind]. rewrite Hw. destruct c; reflexivity.
Qed.

Definition ipseckey_enc (prec alg : N) (gw : name) (key : bytes) : bytes :=
  [prec; 3; alg] ++ wire_abs gw ++ key.

Theorem ipseckey_canonical_bytewise composed p1 a1 g1 k1 p2 a2 g2 k2 : valid_abs g1 -> valid_abs g2 ->
  ~ name_cmp_used composed [p1; 3; a1] [p2; 3; a2] g1 g2 ->
  prefixed_name_cmp_gen composed [p1; 3; a1] g1 k1 [p2; 3; a2] g2 k2 =
  Ok (lex_cmp (ipseckey_enc p1 a1 g1 k1) (ipseckey_enc p2 a2 g2 k2)).
Proof. intros. apply prefixed_name_cmp_bytewise; auto. Qed.

Theorem ipseckey_canonical_refuted : exists g1 g2, valid_abs g1 /\ valid_abs g2 /\
  prefixed_name_cmp_gen false [10; 3; 2] g1 [1] [10; 3; 2] g2 [1] = Ok Gt /\
  lex_cmp (ipseckey_enc 10 2 g1 [1]) (ipseckey_enc 10 2 g2 [1]) = Lt.
Proof.
  exists [[98]], [[97;97]]. split; [split; [repeat constructor; simpl; lia|simpl; lia]|].
  split; [split; [repeat constructor; simpl; lia|simpl; lia]|]. vm_compute. auto.
Qed.

(* hashing a gateway never panics once the todo!() is gone *)
Theorem ipseckey_gateway_hash_total gw : no_panic (ipseckey_gateway_hash_gen false gw).
Proof. destruct gw; exact I. Qed.
Theorem ipseckey_gateway_hash_refuted : ipseckey_gateway_hash_gen true None = Panic P_TODO.
Proof. reflexivity. Qed.

(* ---- unknown record data *)

Lemma bytes_eqb_eq a b : bytes_eqb a b = true <-> a = b.
Proof.
  revert b; induction a as [|x a IH]; intros [|y b]; cbn [bytes_eqb]; split; intros H;
    try reflexivity; try discriminate.
  - apply andb_true_iff in H as [H1 H2]. apply N.eqb_eq in H1. apply IH in H2. congruence.
  - injection H as -> ->. apply andb_true_iff. split; [apply N.eqb_refl|apply IH; reflexivity].
Qed.

Theorem unknown_eq_hash r1 d1 r2 d2 : unknown_eq_gen true r1 d1 r2 d2 = true ->
  m_zone_unknown_hash r1 d1 = m_zone_unknown_hash r2 d2.
Proof.
  unfold unknown_eq_gen. intros H. apply andb_true_iff in H as [H1 H2].
  apply N.eqb_eq in H1. apply bytes_eqb_eq in H2. subst. reflexivity.
Qed.

Theorem unknown_eq_hash_refuted : exists r1 r2 d,
  unknown_eq_gen false r1 d r2 d = true /\ m_zone_unknown_hash r1 d <> m_zone_unknown_hash r2 d.
Proof. exists 65280, 65281, [1]. split; [reflexivity|discriminate]. Qed.

(* AllRecordData: == must be reflexive on the Unknown and Opt variants *)
Lemma bytes_eqb_refl d : bytes_eqb d d = true.
Proof. apply bytes_eqb_eq. reflexivity. Qed.

Theorem all_record_data_eq_refl with_rtype r d :
  all_eq_gen true (unknown_eq_gen with_rtype r d r d) = true /\ all_eq_gen true (bytes_eqb d d) = true.
Proof.
  unfold all_eq_gen, unknown_eq_gen. rewrite bytes_eqb_refl, N.eqb_refl. destruct with_rtype; auto.
Qed.

Theorem all_record_data_eq_refuted : forall inner, all_eq_gen false inner = false.
Proof. reflexivity. Qed.

(* ------------------------------------------------------------------ records *)

Lemma fields_eq_hash_gen efs hfs (a b : rec) : incl hfs efs ->
  (forall f, In f efs -> c_eq (a f) = c_eq (b f) -> c_feed (a f) = c_feed (b f)) ->
  fields_eq efs a b = true -> fields_hash hfs a = fields_hash hfs b.
Proof.
  intros I C E. unfold fields_eq in E. rewrite forallb_forall in E. unfold fields_hash.
  induction hfs as [|f hfs IH]; [reflexivity|]. cbn [flat_map].
  rewrite IH by (intros x Hx; apply I; right; exact Hx). f_equal.
  assert (Hf : In f efs) by (apply I; left; reflexivity).
  apply C; [exact Hf|]. apply bytes_eqb_eq. apply E. exact Hf.
Qed.

(* Record: Hash feeds exactly the fields Eq compares *)
Theorem record_eq_hash a b :
  (forall f, In f record_eq_fields -> c_eq (a f) = c_eq (b f) -> c_feed (a f) = c_feed (b f)) ->
  m_record_eq a b = true -> m_record_hash a = m_record_hash b.
Proof. apply fields_eq_hash_gen. intros x Hx. exact Hx. Qed.

Theorem header_eq_hash a b :
  (forall f, In f header_eq_fields -> c_eq (a f) = c_eq (b f) -> c_feed (a f) = c_feed (b f)) ->
  m_header_eq a b = true -> m_header_hash a = m_header_hash b.
Proof. apply fields_eq_hash_gen. intros x Hx. exact Hx. Qed.

Theorem record_fields_agree :
  record_hash_fields = record_eq_fields /\ header_hash_fields = header_eq_fields /\
  ~ In 3 record_eq_fields /\ record_canonical_fields = [2; 1; 5; 4].
Proof. repeat split. intros H. cbn in H. intuition discriminate. Qed.

(* the repaired defect: Hash fed the TTL (field 3) which Eq ignores *)
Theorem record_hash_ttl_refuted : exists a b : rec,
  fields_eq [1;2;4] a b = true /\ fields_hash [1;2;3;4] a <> fields_hash [1;2;3;4] b.
Proof.
  exists (fun f => if f =? 3 then mkComp [1] [1] else mkComp [] []),
         (fun f => if f =? 3 then mkComp [2] [2] else mkComp [] []).
  split; [reflexivity|discriminate].
Qed.

(* Record::canonical_cmp: class, then owner in canonical name order, then
   type, then the canonical record data *)
Theorem record_canonical_unfold a b :
  m_record_canonical_cmp a b =
  then_cmp (r_class a ?= r_class b)
    (then_cmp (name_cmp (r_owner a) (r_owner b))
      (then_cmp (r_rtype a ?= r_rtype b) (lex_cmp (r_rdata a) (r_rdata b)))).
Proof.
  unfold m_record_canonical_cmp, record_canonical_fields. cbn [chain_cmp crec_field_cmp N.eqb Pos.eqb].
  rewrite then_cmp_eq_r. reflexivity.
Qed.

(* RFC 4034 6.3: within an RRset the order is that of the canonical RDATA *)
Theorem record_rrset_order a b : r_class a = r_class b -> name_eqb (r_owner a) (r_owner b) = true ->
  r_rtype a = r_rtype b -> m_record_canonical_cmp a b = lex_cmp (r_rdata a) (r_rdata b).
Proof.
  intros C O T. rewrite record_canonical_unfold, C, T, !N.compare_refl.
  apply name_cmp_eq_iff in O. rewrite O. reflexivity.
Qed.

Theorem record_canonical_antisym a b :
  m_record_canonical_cmp b a = CompOpp (m_record_canonical_cmp a b).
Proof.
  rewrite !record_canonical_unfold, !then_cmp_opp.
  rewrite <- !N.compare_antisym, <- name_cmp_antisym, <- lex_cmp_antisym. reflexivity.
Qed.

Theorem record_canonical_eq_iff a b : m_record_canonical_cmp a b = Eq <->
  r_class a = r_class b /\ name_eqb (r_owner a) (r_owner b) = true /\ r_rtype a = r_rtype b /\
  r_rdata a = r_rdata b.
Proof.
  rewrite record_canonical_unfold. split.
  - destruct (N.compare_spec (r_class a) (r_class b)) as [C1|C1|C1]; cbn [then_cmp]; try discriminate.
    destruct (name_cmp (r_owner a) (r_owner b)) eqn:E; cbn [then_cmp]; try discriminate.
    destruct (N.compare_spec (r_rtype a) (r_rtype b)) as [T1|T1|T1]; cbn [then_cmp]; try discriminate.
    intros D. apply lex_cmp_eq in D. apply name_cmp_eq_iff in E. auto.
  - intros [C [O [T D]]]. rewrite C, T, D, !N.compare_refl, lex_cmp_refl.
    apply name_cmp_eq_iff in O. rewrite O. reflexivity.
Qed.

(* the order of whole records is NOT the octet order of their canonical wire
   forms (owner | type | class | ttl | rdlength | rdata): class comes first,
   owners sort in canonical name order (rightmost label first) *)
Definition record_wire (r : crec) : bytes :=
  wire_abs (canon (r_owner r)) ++ be16 (r_rtype r) ++ be16 (r_class r) ++ be32 (r_ttl r)
  ++ be16 (N.of_nat (length (r_rdata r))) ++ r_rdata r.

Theorem record_order_is_not_wire_order : exists a b,
  m_record_canonical_cmp a b = Gt /\ lex_cmp (record_wire a) (record_wire b) = Lt.
Proof. exists (mkCrec [[98]] 1 0 1 [1;2;3;4]), (mkCrec [[97;97]] 1 0 1 [1;2;3;4]). vm_compute. auto. Qed.

Example record_example :
  m_record_canonical_cmp (mkCrec [[97]] 1 5 1 [1]) (mkCrec [[65]] 1 9 1 [2]) = Lt /\
  m_record_canonical_cmp (mkCrec [[122]] 1 5 1 [1]) (mkCrec [[97]] 3 5 1 [1]) = Lt /\
  m_record_canonical_cmp (mkCrec [[97]] 1 5 16 [1]) (mkCrec [[97]] 1 5 2 [9]) = Gt.
Proof. vm_compute. auto. Qed.
