(* C04 proofs, widening round 5: equality of names is an equivalence relation
   in every representation, no name operation depends on ASCII case, the
   octet-wise comparisons are consistent with (exact / case-insensitive)
   equality, and the RFC 4034 6.1 shape of the canonical order: a common
   suffix cancels, siblings sort by their leftmost label, a parent sorts
   before every name below it. *)
From Coq Require Import NArith Arith List Bool Lia.
From DV Require Import Base.Outcome Base.Bytes Base.Lex Base.Names Base.PName C04.Gen C04.Model
  C04.ProofsLabel C04.ProofsIter C04.ProofsRepr C04.ProofsOrder C04.ProofsData C04.ProofsTyped.
Import ListNotations.

(* ---- name_eqb is an equivalence and a function of the canonical form *)

Lemma name_eqb_canon_l a a' b : canon a = canon a' -> name_eqb a b = name_eqb a' b.
Proof.
  intros H. destruct (name_eqb a b) eqn:E1; destruct (name_eqb a' b) eqn:E2; try reflexivity.
  - apply name_eqb_spec in E1. rewrite H in E1. apply name_eqb_spec in E1. congruence.
  - apply name_eqb_spec in E2. rewrite <- H in E2. apply name_eqb_spec in E2. congruence.
Qed.

Lemma name_eqb_refl a : name_eqb a a = true.
Proof. apply name_eqb_spec. reflexivity. Qed.

Lemma name_eqb_sym a b : name_eqb a b = name_eqb b a.
Proof.
  destruct (name_eqb a b) eqn:E1; destruct (name_eqb b a) eqn:E2; try reflexivity.
  - apply name_eqb_spec in E1. symmetry in E1. apply name_eqb_spec in E1. congruence.
  - apply name_eqb_spec in E2. symmetry in E2. apply name_eqb_spec in E2. congruence.
Qed.

Theorem name_eq_equiv_repr ra rb rc a b c :
  denotes ra (a ++ [[]]) -> denotes rb (b ++ [[]]) -> denotes rc (c ++ [[]]) ->
  valid_abs a -> valid_abs b -> valid_abs c ->
  m_name_eq ra ra = Ok true /\
  m_name_eq ra rb = m_name_eq rb ra /\
  (m_name_eq ra rb = Ok true -> m_name_eq rb rc = Ok true -> m_name_eq ra rc = Ok true).
Proof.
  intros Da Db Dc Va Vb Vc.
  rewrite (name_eq_repr _ _ _ _ Da Da Va Va), (name_eq_repr _ _ _ _ Da Db Va Vb),
    (name_eq_repr _ _ _ _ Db Da Vb Va), (name_eq_repr _ _ _ _ Db Dc Vb Vc),
    (name_eq_repr _ _ _ _ Da Dc Va Vc).
  split; [rewrite name_eqb_refl; reflexivity|]. split; [rewrite name_eqb_sym; reflexivity|].
  intros H1 H2. injection H1 as H1. injection H2 as H2. f_equal.
  apply name_eqb_spec in H1. apply name_eqb_spec in H2. apply name_eqb_spec. congruence.
Qed.

(* two names that differ only in ASCII case (equal canonical forms), in any
   two representations, are interchangeable in ==, name_cmp, hash and
   lowercase_composed_cmp against any third name *)
Theorem case_independent_repr ra ra' rb a a' b :
  denotes ra (a ++ [[]]) -> denotes ra' (a' ++ [[]]) -> denotes rb (b ++ [[]]) ->
  valid_abs a -> valid_abs a' -> valid_abs b -> canon a = canon a' ->
  m_name_eq ra rb = m_name_eq ra' rb /\
  m_name_cmp ra rb = m_name_cmp ra' rb /\
  m_name_cmp rb ra = m_name_cmp rb ra' /\
  m_name_hash ra = m_name_hash ra' /\
  m_lc_composed_cmp ra rb = m_lc_composed_cmp ra' rb.
Proof.
  intros Da Da' Db Va Va' Vb H.
  rewrite (name_eq_repr _ _ _ _ Da Db Va Vb), (name_eq_repr _ _ _ _ Da' Db Va' Vb),
    (name_cmp_repr _ _ _ _ Da Db Va), (name_cmp_repr _ _ _ _ Da' Db Va'),
    (name_cmp_repr _ _ _ _ Db Da Vb), (name_cmp_repr _ _ _ _ Db Da' Vb),
    (name_hash_repr _ _ Da Va), (name_hash_repr _ _ Da' Va'),
    (lc_composed_cmp_repr _ _ _ _ Da Db Va Vb), (lc_composed_cmp_repr _ _ _ _ Da' Db Va' Vb).
  repeat split.
  - f_equal. apply name_eqb_canon_l. exact H.
  - f_equal. rewrite (name_cmp_canon a b), (name_cmp_canon a' b), H. reflexivity.
  - f_equal. rewrite (name_cmp_canon b a), (name_cmp_canon b a'), H. reflexivity.
  - f_equal. apply name_eq_hash. apply name_eqb_spec. exact H.
  - rewrite H. reflexivity.
Qed.

(* composed_cmp (octet-wise, case-sensitive) is Equal exactly for identical
   label sequences; lowercase_composed_cmp is Equal exactly when == holds *)
Theorem composed_cmp_eq_iff ra rb a b : denotes ra (a ++ [[]]) -> denotes rb (b ++ [[]]) ->
  valid_abs a -> valid_abs b ->
  (m_composed_cmp ra rb = Ok Eq <-> a = b) /\
  (m_lc_composed_cmp ra rb = Ok Eq <-> m_name_eq ra rb = Ok true).
Proof.
  intros Da Db Va Vb.
  rewrite (composed_cmp_repr _ _ _ _ Da Db Va Vb), (lc_composed_cmp_repr _ _ _ _ Da Db Va Vb),
    (name_eq_repr _ _ _ _ Da Db Va Vb).
  split; split; intros H.
  - injection H as H. apply lex_cmp_eq in H. apply wire_abs_inj; assumption.
  - subst b. rewrite lex_cmp_refl. reflexivity.
  - injection H as H. apply lex_cmp_eq in H. f_equal. apply name_eqb_spec.
    apply wire_abs_inj; try apply canon_valid; assumption.
  - injection H as H. apply name_eqb_spec in H. rewrite H, lex_cmp_refl. reflexivity.
Qed.

(* ---- RFC 4034 6.1 shape of the canonical order *)

Lemma labels_cmp_app_same p : forall x y, labels_cmp (p ++ x) (p ++ y) = labels_cmp x y.
Proof.
  induction p as [|l p IH]; intros x y; simpl; [reflexivity|].
  assert (E : label_cmp l l = Eq) by (apply label_cmp_eq, label_eqb_spec; reflexivity).
  rewrite E. apply IH.
Qed.

(* a common suffix (ancestor) cancels *)
Theorem name_cmp_common_suffix a b s : name_cmp (a ++ s) (b ++ s) = name_cmp a b.
Proof. unfold name_cmp. rewrite !rev_app_distr. apply labels_cmp_app_same. Qed.

(* siblings sort by their leftmost label, compared as lower-cased octet strings *)
Theorem name_cmp_siblings x y s : name_cmp (x :: s) (y :: s) = lex_cmp (lowers x) (lowers y).
Proof.
  change (x :: s) with ([x] ++ s). change (y :: s) with ([y] ++ s).
  rewrite name_cmp_common_suffix. unfold name_cmp. simpl. unfold label_cmp.
  destruct (lex_cmp (lowers x) (lowers y)); reflexivity.
Qed.

(* a name sorts before every name strictly below it *)
Theorem name_cmp_parent_first p s : p <> [] -> name_cmp s (p ++ s) = Lt.
Proof.
  intros H. change s with ([] ++ s) at 1. rewrite name_cmp_common_suffix.
  unfold name_cmp. simpl. destruct (rev p) eqn:E; [|reflexivity].
  apply (f_equal (@rev _)) in E. rewrite rev_involutive in E. simpl in E. contradiction.
Qed.

(* the first differing label from the right decides *)
Theorem name_cmp_first_difference a b x y s : label_cmp x y <> Eq ->
  name_cmp (a ++ x :: s) (b ++ y :: s) = label_cmp x y.
Proof.
  intros H. change (x :: s) with ([x] ++ s). change (y :: s) with ([y] ++ s).
  rewrite !app_assoc, name_cmp_common_suffix. unfold name_cmp. rewrite !rev_app_distr. simpl.
  destruct (label_cmp x y); try reflexivity. contradiction.
Qed.

(* the same, observed through the implementation model on any representations *)
Theorem name_cmp_rfc4034_repr ra rb a b x y s :
  denotes ra ((a ++ x :: s) ++ [[]]) -> denotes rb ((b ++ y :: s) ++ [[]]) ->
  valid_abs (a ++ x :: s) -> lex_cmp (lowers x) (lowers y) <> Eq ->
  m_name_cmp ra rb = Ok (lex_cmp (lowers x) (lowers y)).
Proof.
  intros Da Db Va H. rewrite (name_cmp_repr _ _ _ _ Da Db Va). f_equal.
  apply name_cmp_first_difference. exact H.
Qed.

Theorem name_cmp_parent_first_repr ra rb p s :
  denotes ra (s ++ [[]]) -> denotes rb ((p ++ s) ++ [[]]) -> valid_abs s -> valid_abs (p ++ s) ->
  p <> [] -> m_name_cmp ra rb = Ok Lt /\ m_name_cmp rb ra = Ok Gt.
Proof.
  intros Da Db Vs E H.
  rewrite (name_cmp_repr _ _ _ _ Da Db Vs), (name_cmp_repr _ _ _ _ Db Da E).
  pose proof (name_cmp_parent_first p s H) as L. split; f_equal; [exact L | exact (eq_trans (name_cmp_antisym s (p ++ s)) (f_equal CompOpp L))].
Qed.

(* ---- labels and character strings: total order, equivalence, case *)

Lemma eq_ci_bool a b c d : (lowers a = lowers b <-> lowers c = lowers d) -> eq_ci a b = eq_ci c d.
Proof.
  intros H. destruct (eq_ci a b) eqn:E1; destruct (eq_ci c d) eqn:E2; try reflexivity.
  - apply eq_ci_spec, H, eq_ci_spec in E1. congruence.
  - apply eq_ci_spec, H, eq_ci_spec in E2. congruence.
Qed.

Theorem label_total_order a b c o :
  m_label_cmp b a = CompOpp (m_label_cmp a b) /\
  (m_label_cmp a b = o -> m_label_cmp b c = o -> m_label_cmp a c = o) /\
  m_label_eq a a = true /\ m_label_eq a b = m_label_eq b a /\
  (m_label_eq a b = true -> m_label_eq b c = true -> m_label_eq a c = true).
Proof.
  rewrite !m_label_cmp_spec, !m_label_eq_spec. unfold label_eqb.
  split; [apply label_cmp_antisym|]. split; [apply label_cmp_trans|].
  split; [apply eq_ci_spec; reflexivity|]. split; [apply eq_ci_bool; split; congruence|].
  rewrite !eq_ci_spec. congruence.
Qed.

Theorem label_case_independent a a' b : lowers a = lowers a' ->
  m_label_eq a b = m_label_eq a' b /\ m_label_cmp a b = m_label_cmp a' b /\
  m_label_cmp b a = m_label_cmp b a' /\ m_label_eq a (lowers a) = true.
Proof.
  intros H. split; [|split; [|split]].
  - rewrite !m_label_eq_spec. apply eq_ci_bool. rewrite H. tauto.
  - rewrite !m_label_cmp_spec. unfold label_cmp. rewrite H. reflexivity.
  - rewrite !m_label_cmp_spec. unfold label_cmp. rewrite H. reflexivity.
  - rewrite m_label_eq_spec. apply eq_ci_spec. rewrite lowers_idem. reflexivity.
Qed.

Theorem charstr_eq_equiv a b c :
  m_charstr_eq a a = true /\ m_charstr_eq a b = m_charstr_eq b a /\
  (m_charstr_eq a b = true -> m_charstr_eq b c = true -> m_charstr_eq a c = true).
Proof.
  rewrite !m_charstr_eq_spec.
  split; [apply eq_ci_spec; reflexivity|]. split; [apply eq_ci_bool; split; congruence|].
  rewrite !eq_ci_spec. congruence.
Qed.

Theorem charstr_case_independent a a' b : lowers a = lowers a' ->
  m_charstr_eq a b = m_charstr_eq a' b /\ m_charstr_cmp a b = m_charstr_cmp a' b /\
  m_charstr_cmp b a = m_charstr_cmp b a' /\ m_charstr_hash a = m_charstr_hash a' /\
  m_charstr_eq a (lowers a) = true.
Proof.
  intros H. split; [|split; [|split; [|split]]].
  - rewrite !m_charstr_eq_spec. apply eq_ci_bool. rewrite H. tauto.
  - rewrite !m_charstr_cmp_spec, H. reflexivity.
  - rewrite !m_charstr_cmp_spec, H. reflexivity.
  - rewrite !m_charstr_hash_spec. exact H.
  - rewrite m_charstr_eq_spec. apply eq_ci_spec. rewrite lowers_idem. reflexivity.
Qed.

(* the canonical order of character strings is case-sensitive: Equal only for
   identical octets, and a total order *)
Theorem charstr_canonical_total a b c o :
  (m_charstr_canonical_cmp a b = Eq <-> a = b) /\
  m_charstr_canonical_cmp b a = CompOpp (m_charstr_canonical_cmp a b) /\
  (m_charstr_canonical_cmp a b = o -> m_charstr_canonical_cmp b c = o -> m_charstr_canonical_cmp a c = o).
Proof.
  rewrite !charstr_canonical_bytewise. split; [|split; [apply lex_cmp_antisym|apply lex_cmp_trans]].
  rewrite lex_cmp_eq. unfold wire_charstr. split; intros H; [injection H as _ H; exact H|subst; reflexivity].
Qed.

(* ---- canonical order of typed record data (every row of the T1 table):
   never fails on well-formed values, is a total order, and is Equal exactly
   when the canonical wire forms are identical (RFC 4034 6.3: no duplicates) *)
Theorem rd_canonical_total code r a b c : rd_lookup rd_table code = Some r ->
  map fv_kind a = row_kinds r -> map fv_kind b = row_kinds r -> map fv_kind c = row_kinds r ->
  Forall fv_ok a -> Forall fv_ok b -> Forall fv_ok c ->
  exists o, rd_canonical_cmp (row_canonical r) a b = Ok o /\
    rd_canonical_cmp (row_canonical r) b a = Ok (CompOpp o) /\
    (o = Eq <-> rd_enc a = rd_enc b) /\
    (rd_canonical_cmp (row_canonical r) b c = Ok o -> rd_canonical_cmp (row_canonical r) a c = Ok o).
Proof.
  intros L Ka Kb Kc Oa Ob Oc. exists (lex_cmp (rd_enc a) (rd_enc b)).
  rewrite (rd_canonical_bytewise _ _ _ _ L Ka Kb Oa Ob), (rd_canonical_bytewise _ _ _ _ L Kb Ka Ob Oa),
    (rd_canonical_bytewise _ _ _ _ L Kb Kc Ob Oc), (rd_canonical_bytewise _ _ _ _ L Ka Kc Oa Oc).
  split; [reflexivity|]. split; [f_equal; apply lex_cmp_antisym|]. split; [apply lex_cmp_eq|].
  intros H. injection H as H. f_equal. eapply lex_cmp_trans; [reflexivity|exact H].
Qed.
