(* C04 -- property theorems only.  Proofs live in C04/Proofs*.v. *)
From Coq Require Import NArith Arith List Bool.
From DV Require Import Base.Outcome Base.Bytes Base.Lex Base.Names Base.PName C04.Gen C04.Model
  C04.ProofsLabel C04.ProofsIter C04.ProofsRepr C04.ProofsData C04.ProofsParsed C04.ProofsEmbed C04.ProofsOrder C04.ProofsCompressed C04.ProofsTyped C04.ProofsSuffix C04.ProofsOrdTable C04.ProofsAccept C04.ProofsWide.
Import ListNotations.
Local Open Scope N_scope.

Theorem C04_label_is_spec : forall a b : label, m_label_eq a b = label_eqb a b /\ m_label_cmp a b = label_cmp a b /\ ((length a < 256)%nat -> m_label_hash a = label_hash_feed a).
Proof. intros a b. split; [apply m_label_eq_spec|split; [apply m_label_cmp_spec|apply m_label_hash_spec]]. Qed.
Print Assumptions C04_label_is_spec.

Theorem C04_label_eq_hash_model : forall a b, m_label_eq a b = true -> m_label_hash a = m_label_hash b.
Proof. exact label_eq_hash_model. Qed.
Print Assumptions C04_label_eq_hash_model.

Theorem C04_label_cmp_eq_model : forall a b, m_label_cmp a b = Eq <-> m_label_eq a b = true.
Proof. exact label_cmp_eq_model. Qed.
Print Assumptions C04_label_cmp_eq_model.

Theorem C04_lower_is_std : forall b, b < 256 -> lower b = std_to_ascii_lowercase b.
Proof. exact lower_is_std. Qed.
Print Assumptions C04_lower_is_std.

Theorem C04_flat_eq_iff_label_eq : forall a b, valid_abs a -> valid_abs b -> eq_ci (wire_abs a) (wire_abs b) = name_eqb a b.
Proof. exact flat_eq_iff_label_eq. Qed.
Print Assumptions C04_flat_eq_iff_label_eq.

Theorem C04_flat_eq_iff_label_eq_rel : forall a b, valid_rel a -> valid_rel b -> eq_ci (wire_rel a) (wire_rel b) = name_eqb a b.
Proof. exact flat_eq_iff_label_eq_rel. Qed.
Print Assumptions C04_flat_eq_iff_label_eq_rel.

Theorem C04_name_eq_repr : forall ra rb a b, denotes ra (a ++ [[]]) -> denotes rb (b ++ [[]]) -> valid_abs a -> valid_abs b -> m_name_eq ra rb = Ok (name_eqb a b).
Proof. exact name_eq_repr. Qed.
Print Assumptions C04_name_eq_repr.

Theorem C04_name_cmp_repr : forall ra rb a b, denotes ra (a ++ [[]]) -> denotes rb (b ++ [[]]) -> valid_abs a -> m_name_cmp ra rb = Ok (name_cmp a b).
Proof. exact name_cmp_repr. Qed.
Print Assumptions C04_name_cmp_repr.

Theorem C04_name_hash_repr : forall ra a, denotes ra (a ++ [[]]) -> valid_abs a -> m_name_hash ra = Ok (name_hash_feed a).
Proof. exact name_hash_repr. Qed.
Print Assumptions C04_name_hash_repr.

Theorem C04_composed_cmp_repr : forall ra rb a b, denotes ra (a ++ [[]]) -> denotes rb (b ++ [[]]) -> valid_abs a -> valid_abs b -> m_composed_cmp ra rb = Ok (lex_cmp (wire_abs a) (wire_abs b)).
Proof. exact composed_cmp_repr. Qed.
Print Assumptions C04_composed_cmp_repr.

Theorem C04_lc_composed_cmp_repr : forall ra rb a b, denotes ra (a ++ [[]]) -> denotes rb (b ++ [[]]) -> valid_abs a -> valid_abs b -> m_lc_composed_cmp ra rb = Ok (lex_cmp (wire_abs (canon a)) (wire_abs (canon b))).
Proof. exact lc_composed_cmp_repr. Qed.
Print Assumptions C04_lc_composed_cmp_repr.

Theorem C04_relname_eq_repr : forall ra rb a b, denotes ra a -> denotes rb b -> valid_rel a -> valid_rel b -> m_relname_eq ra rb = Ok (name_eqb a b).
Proof. exact relname_eq_repr. Qed.
Print Assumptions C04_relname_eq_repr.

Theorem C04_relname_cmp_repr : forall ra rb a b, denotes ra a -> denotes rb b -> valid_rel a -> m_relname_cmp ra rb = Ok (name_cmp a b).
Proof. exact relname_cmp_repr. Qed.
Print Assumptions C04_relname_cmp_repr.

Theorem C04_name_ord_repr : forall ra rb a b, denotes ra (a ++ [[]]) -> denotes rb (b ++ [[]]) -> valid_abs a -> m_name_ord ra rb = Ok (name_cmp a b) /\ m_parsed_ord ra rb = Ok (name_cmp a b).
Proof. exact name_ord_repr. Qed.
Print Assumptions C04_name_ord_repr.

Theorem C04_relname_ord_repr : forall ra rb a b, denotes ra a -> denotes rb b -> valid_rel a -> m_relname_ord ra rb = Ok (name_cmp a b).
Proof. exact relname_ord_repr. Qed.
Print Assumptions C04_relname_ord_repr.

Theorem C04_eq_implies_same_hash : forall ra rb a b, denotes ra (a ++ [[]]) -> denotes rb (b ++ [[]]) -> valid_abs a -> valid_abs b -> m_name_eq ra rb = Ok true -> m_name_hash ra = m_name_hash rb.
Proof. exact eq_implies_same_hash. Qed.
Print Assumptions C04_eq_implies_same_hash.

Theorem C04_cmp_eq_iff_eq : forall ra rb a b, denotes ra (a ++ [[]]) -> denotes rb (b ++ [[]]) -> valid_abs a -> valid_abs b -> (m_name_cmp ra rb = Ok Eq <-> m_name_eq ra rb = Ok true).
Proof. exact cmp_eq_iff_eq. Qed.
Print Assumptions C04_cmp_eq_iff_eq.

Theorem C04_cmp_antisym_repr : forall ra rb a b, denotes ra (a ++ [[]]) -> denotes rb (b ++ [[]]) -> valid_abs a -> valid_abs b -> exists c, m_name_cmp ra rb = Ok c /\ m_name_cmp rb ra = Ok (CompOpp c).
Proof. exact cmp_antisym_repr. Qed.
Print Assumptions C04_cmp_antisym_repr.

Theorem C04_cmp_trans_repr : forall ra rb rc a b c o, denotes ra (a ++ [[]]) -> denotes rb (b ++ [[]]) -> denotes rc (c ++ [[]]) -> valid_abs a -> valid_abs b -> valid_abs c -> m_name_cmp ra rb = Ok o -> m_name_cmp rb rc = Ok o -> m_name_cmp ra rc = Ok o.
Proof. exact cmp_trans_repr. Qed.
Print Assumptions C04_cmp_trans_repr.

Theorem C04_chain_same_as_flat : forall p s b rb, Forall valid_label p -> Forall valid_label s -> valid_abs (p ++ s) -> valid_abs b -> denotes rb (b ++ [[]]) -> let ch := NChain (NFlat (wire_rel p)) (NFlat (wire_abs s)) in let fl := NFlat (wire_abs (p ++ s)) in m_name_eq ch rb = m_name_eq fl rb /\ m_name_cmp ch rb = m_name_cmp fl rb /\ m_name_hash ch = m_name_hash fl /\ m_lc_composed_cmp ch rb = m_lc_composed_cmp fl rb /\ m_composed_cmp ch rb = m_composed_cmp fl rb.
Proof. exact chain_same_as_flat. Qed.
Print Assumptions C04_chain_same_as_flat.

Theorem C04_uncertain_abs_eq : forall a b, valid_abs a -> valid_abs b -> m_uncertain_eq (UAbs (wire_abs a)) (UAbs (wire_abs b)) = Ok (name_eqb a b) /\ m_uncertain_eq (UAbs (wire_abs a)) (URel (wire_rel b)) = Ok false /\ m_uncertain_eq (URel (wire_rel a)) (URel (wire_rel b)) = Ok (name_eqb a b).
Proof. exact uncertain_abs_eq. Qed.
Print Assumptions C04_uncertain_abs_eq.

Theorem C04_uncertain_eq_hash : forall a b, valid_abs a -> valid_abs b -> (m_uncertain_eq (UAbs (wire_abs a)) (UAbs (wire_abs b)) = Ok true -> m_uncertain_hash (UAbs (wire_abs a)) = m_uncertain_hash (UAbs (wire_abs b))) /\ (m_uncertain_eq (URel (wire_rel a)) (URel (wire_rel b)) = Ok true -> m_uncertain_hash (URel (wire_rel a)) = m_uncertain_hash (URel (wire_rel b))).
Proof. exact uncertain_eq_hash. Qed.
Print Assumptions C04_uncertain_eq_hash.

Theorem C04_chain_fused_same : forall a b la lb, yields a la -> yields b lb -> fused_yields (Some a) b (la ++ lb) /\ yields (IChain a b) (la ++ lb).
Proof. exact chain_fused_same. Qed.
Print Assumptions C04_chain_fused_same.

Theorem C04_denotes_parsed : forall m p ls, plabels m (pn_pos p) (pn_len p) ls -> flat_ok m p ls -> denotes (NParsed m p) ls.
Proof. exact denotes_parsed. Qed.
Print Assumptions C04_denotes_parsed.

Theorem C04_denotes_parsed_pname : forall m p n, pname_labels m p = Ok (n, true) -> flat_ok m p (n ++ [[]]) -> denotes (NParsed m p) (n ++ [[]]).
Proof. exact denotes_parsed_pname. Qed.
Print Assumptions C04_denotes_parsed_pname.

Theorem C04_parsed_same_as_flat : forall m p n b rb, pname_labels m p = Ok (n, true) -> flat_ok m p (n ++ [[]]) -> valid_abs n -> valid_abs b -> denotes rb (b ++ [[]]) -> let pa := NParsed m p in let fl := NFlat (wire_abs n) in m_name_eq pa rb = m_name_eq fl rb /\ m_name_cmp pa rb = m_name_cmp fl rb /\ m_name_hash pa = m_name_hash fl /\ m_lc_composed_cmp pa rb = m_lc_composed_cmp fl rb /\ m_composed_cmp pa rb = m_composed_cmp fl rb /\ m_name_eq pa fl = Ok true /\ m_name_cmp pa fl = Ok Eq.
Proof. exact parsed_same_as_flat. Qed.
Print Assumptions C04_parsed_same_as_flat.

Theorem C04_parsed_uncompressed_embedding : forall pre n post, valid_abs n -> let m := pre ++ wire_abs n ++ post in exists p, parse_ref m (N.of_nat (length pre)) (mlen m) = Ok p /\ pn_compressed p = false /\ denotes (NParsed m p) (n ++ [[]]).
Proof. exact parsed_uncompressed_embedding. Qed.
Print Assumptions C04_parsed_uncompressed_embedding.

Theorem C04_parsed_uncompressed_same_as_flat : forall pre n post b rb, valid_abs n -> valid_abs b -> denotes rb (b ++ [[]]) -> let m := pre ++ wire_abs n ++ post in exists p, parse_ref m (N.of_nat (length pre)) (mlen m) = Ok p /\ m_name_eq (NParsed m p) rb = Ok (name_eqb n b) /\ m_name_cmp (NParsed m p) rb = Ok (name_cmp n b) /\ m_name_hash (NParsed m p) = Ok (name_hash_feed n).
Proof. exact parsed_uncompressed_same_as_flat. Qed.
Print Assumptions C04_parsed_uncompressed_same_as_flat.

Theorem C04_decode_abs_sound : forall w n rest, wf_bytes w -> decode_abs w = inl (Some (n, rest)) -> valid_abs n /\ w = wire_abs n ++ rest.
Proof. exact decode_abs_sound. Qed.
Print Assumptions C04_decode_abs_sound.

Theorem C04_accepted_flat_ops : forall wa a wb b, wf_bytes wa -> wf_bytes wb -> decode_abs wa = inl (Some (a, [])) -> decode_abs wb = inl (Some (b, [])) -> m_name_eq (NFlat wa) (NFlat wb) = Ok (name_eqb a b) /\ m_name_cmp (NFlat wa) (NFlat wb) = Ok (name_cmp a b) /\ m_name_ord (NFlat wa) (NFlat wb) = Ok (name_cmp a b) /\ m_name_hash (NFlat wa) = Ok (name_hash_feed a) /\ m_composed_cmp (NFlat wa) (NFlat wb) = Ok (lex_cmp wa wb) /\ m_lc_composed_cmp (NFlat wa) (NFlat wb) = Ok (lex_cmp (wire_abs (canon a)) (wire_abs (canon b))).
Proof. exact accepted_flat_ops. Qed.
Print Assumptions C04_accepted_flat_ops.

Theorem C04_parsed_denotes : forall m pos lim p, parse_ref m pos lim = Ok p -> lim <= mlen m -> wf_bytes m -> exists n, valid_abs n /\ pname_labels m p = Ok (n, true) /\ denotes (NParsed m p) (n ++ [[]]).
Proof. exact parsed_denotes. Qed.
Print Assumptions C04_parsed_denotes.

Theorem C04_parsed_parsed_ops : forall m1 pos1 lim1 p1 m2 pos2 lim2 p2, parse_ref m1 pos1 lim1 = Ok p1 -> lim1 <= mlen m1 -> wf_bytes m1 -> parse_ref m2 pos2 lim2 = Ok p2 -> lim2 <= mlen m2 -> wf_bytes m2 -> exists a b, pname_labels m1 p1 = Ok (a, true) /\ pname_labels m2 p2 = Ok (b, true) /\ m_name_eq (NParsed m1 p1) (NParsed m2 p2) = Ok (name_eqb a b) /\ m_name_cmp (NParsed m1 p1) (NParsed m2 p2) = Ok (name_cmp a b) /\ m_name_hash (NParsed m1 p1) = Ok (name_hash_feed a) /\ m_composed_cmp (NParsed m1 p1) (NParsed m2 p2) = Ok (lex_cmp (wire_abs a) (wire_abs b)) /\ m_lc_composed_cmp (NParsed m1 p1) (NParsed m2 p2) = Ok (lex_cmp (wire_abs (canon a)) (wire_abs (canon b))).
Proof. exact parsed_parsed_ops. Qed.
Print Assumptions C04_parsed_parsed_ops.

Theorem C04_parsed_any_ops : forall m pos lim p rb b, parse_ref m pos lim = Ok p -> lim <= mlen m -> wf_bytes m -> valid_abs b -> denotes rb (b ++ [[]]) -> exists a, pname_labels m p = Ok (a, true) /\ valid_abs a /\ m_name_eq (NParsed m p) rb = Ok (name_eqb a b) /\ m_name_eq rb (NParsed m p) = Ok (name_eqb b a) /\ m_name_cmp (NParsed m p) rb = Ok (name_cmp a b) /\ m_name_cmp rb (NParsed m p) = Ok (name_cmp b a) /\ m_name_hash (NParsed m p) = Ok (name_hash_feed a).
Proof. exact parsed_any_ops. Qed.
Print Assumptions C04_parsed_any_ops.

Theorem C04_parent_step : forall m p l ls, plabels m (pn_pos p) (pn_len p) (l :: ls) -> flat_ok m p (l :: ls) -> (1 <= length l <= 63)%nat -> ls <> [] -> exists q, parent_gen true m p = Ok (Some q) /\ plabels m (pn_pos q) (pn_len q) ls /\ flat_ok m q ls /\ pn_compressed q = pn_compressed p.
Proof. exact parent_step. Qed.
Print Assumptions C04_parent_step.

Theorem C04_parsed_suffix_denotes : forall m pos lim p, parse_ref m pos lim = Ok p -> lim <= mlen m -> wf_bytes m -> forall k, exists n q, parent_n k m p = Ok q /\ valid_abs n /\ denotes (NParsed m q) (n ++ [[]]).
Proof. exact parsed_suffix_denotes. Qed.
Print Assumptions C04_parsed_suffix_denotes.

Theorem C04_parsed_suffix_ops : forall m pos lim p k rb b, parse_ref m pos lim = Ok p -> lim <= mlen m -> wf_bytes m -> valid_abs b -> denotes rb (b ++ [[]]) -> exists n q, parent_n k m p = Ok q /\ valid_abs n /\ m_name_eq (NParsed m q) rb = Ok (name_eqb n b) /\ m_name_cmp (NParsed m q) rb = Ok (name_cmp n b) /\ m_composed_cmp (NParsed m q) rb = Ok (lex_cmp (wire_abs n) (wire_abs b)) /\ m_lc_composed_cmp (NParsed m q) rb = Ok (lex_cmp (wire_abs (canon n)) (wire_abs (canon b))) /\ m_name_hash (NParsed m q) = Ok (name_hash_feed n).
Proof. exact parsed_suffix_ops. Qed.
Print Assumptions C04_parsed_suffix_ops.

Theorem C04_parent_clearing_flag_refuted : let m := [0;0;0;0;0;0;0;0;0;0;0;0; 3;99;111;109;0; 1;98;192;12; 1;97;192;17; 0;0;0;0;0] in let com := NFlat (wire_abs [[99;111;109]]) in exists p p1 q, parse_ref m 21 (mlen m) = Ok p /\ parent_gen false m p = Ok (Some p1) /\ parent_gen false m p1 = Ok (Some q) /\ pn_compressed q = false /\ m_name_eq (NParsed m q) com = Ok false /\ m_name_cmp (NParsed m q) com = Ok Eq /\ m_name_hash (NParsed m q) = m_name_hash com /\ (exists q', parent_gen true m p1 = Ok (Some q') /\ m_name_eq (NParsed m q') com = Ok true).
Proof. exact parent_clearing_flag_refuted. Qed.
Print Assumptions C04_parent_clearing_flag_refuted.

Theorem C04_charstr_cmp_eq_iff : forall a b, m_charstr_cmp a b = Eq <-> m_charstr_eq a b = true.
Proof. exact charstr_cmp_eq_iff. Qed.
Print Assumptions C04_charstr_cmp_eq_iff.

Theorem C04_charstr_eq_hash : forall a b, m_charstr_eq a b = true -> m_charstr_hash a = m_charstr_hash b.
Proof. exact charstr_eq_hash. Qed.
Print Assumptions C04_charstr_eq_hash.

Theorem C04_charstr_cmp_antisym : forall a b, m_charstr_cmp b a = CompOpp (m_charstr_cmp a b).
Proof. exact charstr_cmp_antisym. Qed.
Print Assumptions C04_charstr_cmp_antisym.

Theorem C04_charstr_cmp_trans : forall a b c o, m_charstr_cmp a b = o -> m_charstr_cmp b c = o -> m_charstr_cmp a c = o.
Proof. exact charstr_cmp_trans. Qed.
Print Assumptions C04_charstr_cmp_trans.

Theorem C04_charstr_canonical_bytewise : forall a b, m_charstr_canonical_cmp a b = lex_cmp (wire_charstr a) (wire_charstr b).
Proof. exact charstr_canonical_bytewise. Qed.
Print Assumptions C04_charstr_canonical_bytewise.

Theorem C04_schema_cmp_bytewise : forall a, forall b, same_schema a b = true -> Forall field_ok a -> Forall field_ok b -> fields_cmp a b = Ok (lex_cmp (fields_enc a) (fields_enc b)).
Proof. exact schema_cmp_bytewise. Qed.
Print Assumptions C04_schema_cmp_bytewise.

Theorem C04_a_canonical_bytewise : forall x y, length x = length y -> fields_cmp (rd_a x) (rd_a y) = Ok (lex_cmp (fields_enc (rd_a x)) (fields_enc (rd_a y))).
Proof. exact a_canonical_bytewise. Qed.
Print Assumptions C04_a_canonical_bytewise.

Theorem C04_mx_canonical_bytewise : forall p1 e1 p2 e2, valid_abs e1 -> valid_abs e2 -> fields_cmp (rd_mx p1 e1) (rd_mx p2 e2) = Ok (lex_cmp (fields_enc (rd_mx p1 e1)) (fields_enc (rd_mx p2 e2))).
Proof. exact mx_canonical_bytewise. Qed.
Print Assumptions C04_mx_canonical_bytewise.

Theorem C04_soa_canonical_bytewise : forall m1 r1 s1 f1 t1 e1 n1 m2 r2 s2 f2 t2 e2 n2, valid_abs m1 -> valid_abs r1 -> valid_abs m2 -> valid_abs r2 -> fields_cmp (rd_soa m1 r1 s1 f1 t1 e1 n1) (rd_soa m2 r2 s2 f2 t2 e2 n2) = Ok (lex_cmp (fields_enc (rd_soa m1 r1 s1 f1 t1 e1 n1)) (fields_enc (rd_soa m2 r2 s2 f2 t2 e2 n2))).
Proof. exact soa_canonical_bytewise. Qed.
Print Assumptions C04_soa_canonical_bytewise.

Theorem C04_srv_canonical_bytewise : forall p1 w1 o1 t1 p2 w2 o2 t2, valid_abs t1 -> valid_abs t2 -> fields_cmp (rd_srv p1 w1 o1 t1) (rd_srv p2 w2 o2 t2) = Ok (lex_cmp (fields_enc (rd_srv p1 w1 o1 t1)) (fields_enc (rd_srv p2 w2 o2 t2))).
Proof. exact srv_canonical_bytewise. Qed.
Print Assumptions C04_srv_canonical_bytewise.

Theorem C04_ds_canonical_bytewise : forall k1 a1 t1 d1 k2 a2 t2 d2, fields_cmp (rd_ds k1 a1 t1 d1) (rd_ds k2 a2 t2 d2) = Ok (lex_cmp (fields_enc (rd_ds k1 a1 t1 d1)) (fields_enc (rd_ds k2 a2 t2 d2))).
Proof. exact ds_canonical_bytewise. Qed.
Print Assumptions C04_ds_canonical_bytewise.

Theorem C04_dnskey_canonical_bytewise : forall k1 a1 t1 d1 k2 a2 t2 d2, fields_cmp (rd_dnskey k1 a1 t1 d1) (rd_dnskey k2 a2 t2 d2) = Ok (lex_cmp (fields_enc (rd_dnskey k1 a1 t1 d1)) (fields_enc (rd_dnskey k2 a2 t2 d2))).
Proof. exact dnskey_canonical_bytewise. Qed.
Print Assumptions C04_dnskey_canonical_bytewise.

Theorem C04_txt_canonical_bytewise : forall c1 c2, fields_cmp (rd_txt c1) (rd_txt c2) = Ok (lex_cmp (fields_enc (rd_txt c1)) (fields_enc (rd_txt c2))).
Proof. exact txt_canonical_bytewise. Qed.
Print Assumptions C04_txt_canonical_bytewise.

Theorem C04_hinfo_canonical_bytewise : forall c1 o1 c2 o2, (length c1 <= 255)%nat -> (length o1 <= 255)%nat -> (length c2 <= 255)%nat -> (length o2 <= 255)%nat -> fields_cmp (rd_hinfo c1 o1) (rd_hinfo c2 o2) = Ok (lex_cmp (fields_enc (rd_hinfo c1 o1)) (fields_enc (rd_hinfo c2 o2))).
Proof. exact hinfo_canonical_bytewise. Qed.
Print Assumptions C04_hinfo_canonical_bytewise.

Theorem C04_name1_canonical_bytewise : forall n1 n2, valid_abs n1 -> valid_abs n2 -> fields_cmp (rd_name1 n1) (rd_name1 n2) = Ok (lex_cmp (fields_enc (rd_name1 n1)) (fields_enc (rd_name1 n2))).
Proof. exact name1_canonical_bytewise. Qed.
Print Assumptions C04_name1_canonical_bytewise.

Theorem C04_name2_canonical_bytewise : forall a1 b1 a2 b2, valid_abs a1 -> valid_abs b1 -> valid_abs a2 -> valid_abs b2 -> fields_cmp (rd_name2 a1 b1) (rd_name2 a2 b2) = Ok (lex_cmp (fields_enc (rd_name2 a1 b1)) (fields_enc (rd_name2 a2 b2))).
Proof. exact name2_canonical_bytewise. Qed.
Print Assumptions C04_name2_canonical_bytewise.

Theorem C04_tlsa_canonical_bytewise : forall u1 s1 m1 d1 u2 s2 m2 d2, fields_cmp (rd_tlsa u1 s1 m1 d1) (rd_tlsa u2 s2 m2 d2) = Ok (lex_cmp (fields_enc (rd_tlsa u1 s1 m1 d1)) (fields_enc (rd_tlsa u2 s2 m2 d2))).
Proof. exact tlsa_canonical_bytewise. Qed.
Print Assumptions C04_tlsa_canonical_bytewise.

Theorem C04_sshfp_canonical_bytewise : forall a1 t1 f1 a2 t2 f2, fields_cmp (rd_sshfp a1 t1 f1) (rd_sshfp a2 t2 f2) = Ok (lex_cmp (fields_enc (rd_sshfp a1 t1 f1)) (fields_enc (rd_sshfp a2 t2 f2))).
Proof. exact sshfp_canonical_bytewise. Qed.
Print Assumptions C04_sshfp_canonical_bytewise.

Theorem C04_zonemd_canonical_bytewise : forall s1 c1 a1 d1 s2 c2 a2 d2, fields_cmp (rd_zonemd s1 c1 a1 d1) (rd_zonemd s2 c2 a2 d2) = Ok (lex_cmp (fields_enc (rd_zonemd s1 c1 a1 d1)) (fields_enc (rd_zonemd s2 c2 a2 d2))).
Proof. exact zonemd_canonical_bytewise. Qed.
Print Assumptions C04_zonemd_canonical_bytewise.

Theorem C04_rrsig_canonical_bytewise : forall c1 a1 l1 o1 e1 i1 t1 n1 s1 c2 a2 l2 o2 e2 i2 t2 n2 s2, valid_abs n1 -> valid_abs n2 -> fields_cmp (rd_rrsig c1 a1 l1 o1 e1 i1 t1 n1 s1) (rd_rrsig c2 a2 l2 o2 e2 i2 t2 n2 s2) = Ok (lex_cmp (fields_enc (rd_rrsig c1 a1 l1 o1 e1 i1 t1 n1 s1)) (fields_enc (rd_rrsig c2 a2 l2 o2 e2 i2 t2 n2 s2))).
Proof. exact rrsig_canonical_bytewise. Qed.
Print Assumptions C04_rrsig_canonical_bytewise.

Theorem C04_nsec3_canonical_bytewise : forall h1 f1 i1 s1 n1 t1 h2 f2 i2 s2 n2 t2, (length s1 <= 255)%nat -> (length n1 <= 255)%nat -> (length s2 <= 255)%nat -> (length n2 <= 255)%nat -> fields_cmp (rd_nsec3 h1 f1 i1 s1 n1 t1) (rd_nsec3 h2 f2 i2 s2 n2 t2) = Ok (lex_cmp (fields_enc (rd_nsec3 h1 f1 i1 s1 n1 t1)) (fields_enc (rd_nsec3 h2 f2 i2 s2 n2 t2))).
Proof. exact nsec3_canonical_bytewise. Qed.
Print Assumptions C04_nsec3_canonical_bytewise.

Theorem C04_nsec3param_canonical_bytewise : forall h1 f1 i1 s1 h2 f2 i2 s2, (length s1 <= 255)%nat -> (length s2 <= 255)%nat -> fields_cmp (rd_nsec3param h1 f1 i1 s1) (rd_nsec3param h2 f2 i2 s2) = Ok (lex_cmp (fields_enc (rd_nsec3param h1 f1 i1 s1)) (fields_enc (rd_nsec3param h2 f2 i2 s2))).
Proof. exact nsec3param_canonical_bytewise. Qed.
Print Assumptions C04_nsec3param_canonical_bytewise.

Theorem C04_caa_canonical_bytewise : forall f1 t1 v1 f2 t2 v2, (length t1 <= 255)%nat -> (length t2 <= 255)%nat -> fields_cmp (rd_caa f1 t1 v1) (rd_caa f2 t2 v2) = Ok (lex_cmp (fields_enc (rd_caa f1 t1 v1)) (fields_enc (rd_caa f2 t2 v2))).
Proof. exact caa_canonical_bytewise. Qed.
Print Assumptions C04_caa_canonical_bytewise.

Theorem C04_naptr_canonical_bytewise : forall o1 p1 f1 s1 r1 n1 o2 p2 f2 s2 r2 n2, (length f1 <= 255)%nat -> (length s1 <= 255)%nat -> (length r1 <= 255)%nat -> valid_abs n1 -> (length f2 <= 255)%nat -> (length s2 <= 255)%nat -> (length r2 <= 255)%nat -> valid_abs n2 -> fields_cmp (rd_naptr o1 p1 f1 s1 r1 n1) (rd_naptr o2 p2 f2 s2 r2 n2) = Ok (lex_cmp (fields_enc (rd_naptr o1 p1 f1 s1 r1 n1)) (fields_enc (rd_naptr o2 p2 f2 s2 r2 n2))).
Proof. exact naptr_canonical_bytewise. Qed.
Print Assumptions C04_naptr_canonical_bytewise.

Theorem C04_tsig_canonical_bytewise : forall a1 t1 f1 m1 i1 e1 o1 a2 t2 f2 m2 i2 e2 o2, valid_abs a1 -> valid_abs a2 -> N.of_nat (length m1) <= 65535 -> N.of_nat (length o1) <= 65535 -> N.of_nat (length m2) <= 65535 -> N.of_nat (length o2) <= 65535 -> fields_cmp (rd_tsig a1 t1 f1 m1 i1 e1 o1) (rd_tsig a2 t2 f2 m2 i2 e2 o2) = Ok (lex_cmp (fields_enc (rd_tsig a1 t1 f1 m1 i1 e1 o1)) (fields_enc (rd_tsig a2 t2 f2 m2 i2 e2 o2))).
Proof. exact tsig_canonical_bytewise. Qed.
Print Assumptions C04_tsig_canonical_bytewise.

Theorem C04_opt_canonical_bytewise : forall o1 o2, fields_cmp (rd_opt o1) (rd_opt o2) = Ok (lex_cmp (fields_enc (rd_opt o1)) (fields_enc (rd_opt o2))).
Proof. exact opt_canonical_bytewise. Qed.
Print Assumptions C04_opt_canonical_bytewise.

Theorem C04_ipseckey_addr_canonical_bytewise : forall p1 g1 a1 d1 k1 p2 g2 a2 d2 k2, length d1 = length d2 -> fields_cmp (rd_ipseckey_addr p1 g1 a1 d1 k1) (rd_ipseckey_addr p2 g2 a2 d2 k2) = Ok (lex_cmp (fields_enc (rd_ipseckey_addr p1 g1 a1 d1 k1)) (fields_enc (rd_ipseckey_addr p2 g2 a2 d2 k2))).
Proof. exact ipseckey_addr_canonical_bytewise. Qed.
Print Assumptions C04_ipseckey_addr_canonical_bytewise.

Theorem C04_rd_table_ok : forallb (fun cr => row_ok (snd cr)) rd_table = true.
Proof. exact rd_table_ok. Qed.
Print Assumptions C04_rd_table_ok.

Theorem C04_rd_eq_hash : forall code r a b, rd_lookup rd_table code = Some r -> rd_eq (row_eq r) a b = true -> rd_hash code (row_hash r) a = rd_hash code (row_hash r) b.
Proof. exact rd_eq_hash. Qed.
Print Assumptions C04_rd_eq_hash.

Theorem C04_c04_rd_eq_hash : forall code a b, c04_rd_eq code a b = Some true -> c04_rd_hash code a = c04_rd_hash code b.
Proof. exact c04_rd_eq_hash. Qed.
Print Assumptions C04_c04_rd_eq_hash.

Theorem C04_rd_eq_sym : forall e a b, rd_eq e a b = rd_eq e b a.
Proof. exact rd_eq_sym. Qed.
Print Assumptions C04_rd_eq_sym.

Theorem C04_rd_canonical_bytewise : forall code r a b, rd_lookup rd_table code = Some r -> map fv_kind a = row_kinds r -> map fv_kind b = row_kinds r -> Forall fv_ok a -> Forall fv_ok b -> rd_canonical_cmp (row_canonical r) a b = Ok (lex_cmp (rd_enc a) (rd_enc b)).
Proof. exact rd_canonical_bytewise. Qed.
Print Assumptions C04_rd_canonical_bytewise.

Theorem C04_rd_extra_hash_ok : forallb (fun r => nlist_eqb (snd (snd r)) (iota (N.to_nat (fst (snd r))))) rd_extra_hash = true.
Proof. exact rd_extra_hash_ok. Qed.
Print Assumptions C04_rd_extra_hash_ok.

Theorem C04_rdh_eq_hash : forall code a b, all2 fv_eq a b = true -> c04_rdh code a = c04_rdh code b.
Proof. exact rdh_eq_hash. Qed.
Print Assumptions C04_rdh_eq_hash.

Theorem C04_rd_ord_table_ok : nlist_eqb (map fst rd_ord_table) (map fst rd_table) = true /\ forallb (fun cr => match rd_lookup rd_table (fst cr) with | Some r => orow_ok (row_kinds r) (snd cr) | None => false end) rd_ord_table = true.
Proof. exact rd_ord_table_ok. Qed.
Print Assumptions C04_rd_ord_table_ok.

Theorem C04_rd_partial_is_cmp : forall code a b, c04_rd_partial code a b = c04_rd_cmp code a b.
Proof. exact rd_partial_is_cmp. Qed.
Print Assumptions C04_rd_partial_is_cmp.

Theorem C04_rd_cmp_eq_iff : forall code row a b, rd_lookup rd_table code = Some row -> map fv_kind a = row_kinds row -> map fv_kind b = row_kinds row -> Forall fv_ok a -> Forall fv_ok b -> exists c, c04_rd_cmp code a b = Some c /\ c04_rd_partial code a b = Some c /\ (c = Eq <-> rd_eq (row_eq row) a b = true).
Proof. exact rd_cmp_eq_iff. Qed.
Print Assumptions C04_rd_cmp_eq_iff.

Theorem C04_record_partial_is_cmp : forall code oa ca a ob cb b, c04_record_partial code oa ca a ob cb b = c04_record_cmp code oa ca a ob cb b.
Proof. exact record_partial_is_cmp. Qed.
Print Assumptions C04_record_partial_is_cmp.

Theorem C04_record_cmp_eq_iff : forall code row oa ca a ob cb b, rd_lookup rd_table code = Some row -> map fv_kind a = row_kinds row -> map fv_kind b = row_kinds row -> Forall fv_ok a -> Forall fv_ok b -> exists c, c04_record_cmp code oa ca a ob cb b = Some c /\ (c = Eq <-> c04_record_eq code oa ca a ob cb b = true).
Proof. exact record_cmp_eq_iff. Qed.
Print Assumptions C04_record_cmp_eq_iff.

Theorem C04_header_partial_is_cmp : forall a b, hdr_chain header_partial_fields a b = m_header_cmp a b.
Proof. exact header_partial_is_cmp. Qed.
Print Assumptions C04_header_partial_is_cmp.

Theorem C04_nsec_canonical_bytewise : forall vs n1 t1 n2 t2, valid_abs n1 -> valid_abs n2 -> ~ nsec_self_compare vs t1 t2 -> nsec_canonical_cmp_gen vs n1 t1 n2 t2 = Ok (lex_cmp (nsec_enc n1 t1) (nsec_enc n2 t2)).
Proof. exact nsec_canonical_bytewise. Qed.
Print Assumptions C04_nsec_canonical_bytewise.

Theorem C04_nsec_canonical_refuted : exists n t1 t2, valid_abs n /\ nsec_canonical_cmp_gen false n t1 n t2 = Ok Eq /\ lex_cmp (nsec_enc n t1) (nsec_enc n t2) = Gt.
Proof. exact nsec_canonical_refuted. Qed.
Print Assumptions C04_nsec_canonical_refuted.

Theorem C04_svcb_canonical_bytewise : forall composed p1 t1 par1 p2 t2 par2, p1 < 65536 -> p2 < 65536 -> valid_abs t1 -> valid_abs t2 -> ~ svcb_name_cmp_used composed p1 p2 t1 t2 -> svcb_canonical_cmp_gen composed p1 t1 par1 p2 t2 par2 = Ok (lex_cmp (svcb_enc p1 t1 par1) (svcb_enc p2 t2 par2)).
Proof. exact svcb_canonical_bytewise. Qed.
Print Assumptions C04_svcb_canonical_bytewise.

Theorem C04_svcb_canonical_refuted : exists t1 t2, valid_abs t1 /\ valid_abs t2 /\ svcb_canonical_cmp_gen false 1 t1 [] 1 t2 [] = Ok Gt /\ lex_cmp (svcb_enc 1 t1 []) (svcb_enc 1 t2 []) = Lt.
Proof. exact svcb_canonical_refuted. Qed.
Print Assumptions C04_svcb_canonical_refuted.

Theorem C04_svcb_canonical_case_refuted : svcb_canonical_cmp_gen false 1 [[65]] [] 1 [[97]] [] = Ok Eq /\ lex_cmp (svcb_enc 1 [[65]] []) (svcb_enc 1 [[97]] []) = Lt.
Proof. exact svcb_canonical_case_refuted. Qed.
Print Assumptions C04_svcb_canonical_case_refuted.

Theorem C04_prefixed_name_cmp_bytewise : forall composed pre1 t1 tail1 pre2 t2 tail2, length pre1 = length pre2 -> valid_abs t1 -> valid_abs t2 -> ~ name_cmp_used composed pre1 pre2 t1 t2 -> prefixed_name_cmp_gen composed pre1 t1 tail1 pre2 t2 tail2 = Ok (lex_cmp (pre1 ++ wire_abs t1 ++ tail1) (pre2 ++ wire_abs t2 ++ tail2)).
Proof. exact prefixed_name_cmp_bytewise. Qed.
Print Assumptions C04_prefixed_name_cmp_bytewise.

Theorem C04_ipseckey_canonical_bytewise : forall composed p1 a1 g1 k1 p2 a2 g2 k2, valid_abs g1 -> valid_abs g2 -> ~ name_cmp_used composed [p1; 3; a1] [p2; 3; a2] g1 g2 -> prefixed_name_cmp_gen composed [p1; 3; a1] g1 k1 [p2; 3; a2] g2 k2 = Ok (lex_cmp (ipseckey_enc p1 a1 g1 k1) (ipseckey_enc p2 a2 g2 k2)).
Proof. exact ipseckey_canonical_bytewise. Qed.
Print Assumptions C04_ipseckey_canonical_bytewise.

Theorem C04_ipseckey_canonical_refuted : exists g1 g2, valid_abs g1 /\ valid_abs g2 /\ prefixed_name_cmp_gen false [10; 3; 2] g1 [1] [10; 3; 2] g2 [1] = Ok Gt /\ lex_cmp (ipseckey_enc 10 2 g1 [1]) (ipseckey_enc 10 2 g2 [1]) = Lt.
Proof. exact ipseckey_canonical_refuted. Qed.
Print Assumptions C04_ipseckey_canonical_refuted.

Theorem C04_ipseckey_gateway_hash_total : forall gw, no_panic (ipseckey_gateway_hash_gen false gw).
Proof. exact ipseckey_gateway_hash_total. Qed.
Print Assumptions C04_ipseckey_gateway_hash_total.

Theorem C04_ipseckey_gateway_hash_refuted : ipseckey_gateway_hash_gen true None = Panic P_TODO.
Proof. exact ipseckey_gateway_hash_refuted. Qed.
Print Assumptions C04_ipseckey_gateway_hash_refuted.

Theorem C04_unknown_eq_hash : forall r1 d1 r2 d2, unknown_eq_gen true r1 d1 r2 d2 = true -> m_zone_unknown_hash r1 d1 = m_zone_unknown_hash r2 d2.
Proof. exact unknown_eq_hash. Qed.
Print Assumptions C04_unknown_eq_hash.

Theorem C04_unknown_eq_hash_refuted : exists r1 r2 d, unknown_eq_gen false r1 d r2 d = true /\ m_zone_unknown_hash r1 d <> m_zone_unknown_hash r2 d.
Proof. exact unknown_eq_hash_refuted. Qed.
Print Assumptions C04_unknown_eq_hash_refuted.

Theorem C04_all_record_data_eq_refl : forall with_rtype r d, all_eq_gen true (unknown_eq_gen with_rtype r d r d) = true /\ all_eq_gen true (bytes_eqb d d) = true.
Proof. exact all_record_data_eq_refl. Qed.
Print Assumptions C04_all_record_data_eq_refl.

Theorem C04_all_record_data_eq_refuted : forall inner, all_eq_gen false inner = false.
Proof. exact all_record_data_eq_refuted. Qed.
Print Assumptions C04_all_record_data_eq_refuted.

Theorem C04_record_eq_hash : forall a b, (forall f, In f record_eq_fields -> c_eq (a f) = c_eq (b f) -> c_feed (a f) = c_feed (b f)) -> m_record_eq a b = true -> m_record_hash a = m_record_hash b.
Proof. exact record_eq_hash. Qed.
Print Assumptions C04_record_eq_hash.

Theorem C04_header_eq_hash : forall a b, (forall f, In f header_eq_fields -> c_eq (a f) = c_eq (b f) -> c_feed (a f) = c_feed (b f)) -> m_header_eq a b = true -> m_header_hash a = m_header_hash b.
Proof. exact header_eq_hash. Qed.
Print Assumptions C04_header_eq_hash.

Theorem C04_record_fields_agree : record_hash_fields = record_eq_fields /\ header_hash_fields = header_eq_fields /\ ~ In 3 record_eq_fields /\ record_canonical_fields = [2; 1; 5; 4].
Proof. exact record_fields_agree. Qed.
Print Assumptions C04_record_fields_agree.

Theorem C04_record_hash_ttl_refuted : exists a b : rec, fields_eq [1;2;4] a b = true /\ fields_hash [1;2;3;4] a <> fields_hash [1;2;3;4] b.
Proof. exact record_hash_ttl_refuted. Qed.
Print Assumptions C04_record_hash_ttl_refuted.

Theorem C04_record_canonical_unfold : forall a b, m_record_canonical_cmp a b = then_cmp (r_class a ?= r_class b) (then_cmp (name_cmp (r_owner a) (r_owner b)) (then_cmp (r_rtype a ?= r_rtype b) (lex_cmp (r_rdata a) (r_rdata b)))).
Proof. exact record_canonical_unfold. Qed.
Print Assumptions C04_record_canonical_unfold.

Theorem C04_record_rrset_order : forall a b, r_class a = r_class b -> name_eqb (r_owner a) (r_owner b) = true -> r_rtype a = r_rtype b -> m_record_canonical_cmp a b = lex_cmp (r_rdata a) (r_rdata b).
Proof. exact record_rrset_order. Qed.
Print Assumptions C04_record_rrset_order.

Theorem C04_record_canonical_antisym : forall a b, m_record_canonical_cmp b a = CompOpp (m_record_canonical_cmp a b).
Proof. exact record_canonical_antisym. Qed.
Print Assumptions C04_record_canonical_antisym.

Theorem C04_record_canonical_trans : forall a b c o, m_record_canonical_cmp a b = o -> m_record_canonical_cmp b c = o -> m_record_canonical_cmp a c = o.
Proof. exact record_canonical_trans. Qed.
Print Assumptions C04_record_canonical_trans.

Theorem C04_record_canonical_eq_subst : forall a b c, m_record_canonical_cmp a b = Eq -> m_record_canonical_cmp a c = m_record_canonical_cmp b c.
Proof. exact record_canonical_eq_subst. Qed.
Print Assumptions C04_record_canonical_eq_subst.

Theorem C04_record_canonical_eq_iff : forall a b, m_record_canonical_cmp a b = Eq <-> r_class a = r_class b /\ name_eqb (r_owner a) (r_owner b) = true /\ r_rtype a = r_rtype b /\ r_rdata a = r_rdata b.
Proof. exact record_canonical_eq_iff. Qed.
Print Assumptions C04_record_canonical_eq_iff.

Theorem C04_u32_partial_agrees : forall a b, u32_partial_gen false a b = Some (a ?= b).
Proof. exact u32_partial_agrees. Qed.
Print Assumptions C04_u32_partial_agrees.

Theorem C04_u32_partial_serial_refuted : u32_partial_gen true 0 2147483648 = None /\ u32_partial_gen true 0 2147483649 = Some Gt /\ (0 ?= 2147483649) = Lt.
Proof. exact u32_partial_serial_refuted. Qed.
Print Assumptions C04_u32_partial_serial_refuted.

Theorem C04_pfx_partial_agrees : forall a b, pfx_partial_gen true a b = Some (m_charstr_canonical_cmp a b).
Proof. exact pfx_partial_agrees. Qed.
Print Assumptions C04_pfx_partial_agrees.

Theorem C04_pfx_partial_plain_refuted : pfx_partial_gen false [2] [1;1] = Some Gt /\ m_charstr_canonical_cmp [2] [1;1] = Lt.
Proof. exact pfx_partial_plain_refuted. Qed.
Print Assumptions C04_pfx_partial_plain_refuted.

Theorem C04_header_cmp_trans : forall a b c o, m_header_cmp a b = o -> m_header_cmp b c = o -> m_header_cmp a c = o.
Proof. exact header_cmp_trans. Qed.
Print Assumptions C04_header_cmp_trans.

Theorem C04_header_cmp_antisym : forall a b, m_header_cmp b a = CompOpp (m_header_cmp a b).
Proof. exact header_cmp_antisym. Qed.
Print Assumptions C04_header_cmp_antisym.

Theorem C04_header_cmp_eq_iff : forall a b, m_header_cmp a b = Eq <-> m_header_eqb a b = true.
Proof. exact header_cmp_eq_iff. Qed.
Print Assumptions C04_header_cmp_eq_iff.

Theorem C04_parsed_record_eq_equiv : (forall a d, m_parsed_record_eq a d a d = true) /\ (forall a d b e, m_parsed_record_eq a d b e = m_parsed_record_eq b e a d) /\ (forall a d b e c f, m_parsed_record_eq a d b e = true -> m_parsed_record_eq b e c f = true -> m_parsed_record_eq a d c f = true).
Proof. exact parsed_record_eq_equiv. Qed.
Print Assumptions C04_parsed_record_eq_equiv.

Theorem C04_record_order_is_not_wire_order : exists a b, m_record_canonical_cmp a b = Gt /\ lex_cmp (record_wire a) (record_wire b) = Lt.
Proof. exact record_order_is_not_wire_order. Qed.
Print Assumptions C04_record_order_is_not_wire_order.

Theorem C04_name_eq_equiv_repr : forall ra rb rc a b c, denotes ra (a ++ [[]]) -> denotes rb (b ++ [[]]) -> denotes rc (c ++ [[]]) -> valid_abs a -> valid_abs b -> valid_abs c -> m_name_eq ra ra = Ok true /\ m_name_eq ra rb = m_name_eq rb ra /\ (m_name_eq ra rb = Ok true -> m_name_eq rb rc = Ok true -> m_name_eq ra rc = Ok true).
Proof. exact name_eq_equiv_repr. Qed.
Print Assumptions C04_name_eq_equiv_repr.

Theorem C04_case_independent_repr : forall ra ra' rb a a' b, denotes ra (a ++ [[]]) -> denotes ra' (a' ++ [[]]) -> denotes rb (b ++ [[]]) -> valid_abs a -> valid_abs a' -> valid_abs b -> canon a = canon a' -> m_name_eq ra rb = m_name_eq ra' rb /\ m_name_cmp ra rb = m_name_cmp ra' rb /\ m_name_cmp rb ra = m_name_cmp rb ra' /\ m_name_hash ra = m_name_hash ra' /\ m_lc_composed_cmp ra rb = m_lc_composed_cmp ra' rb.
Proof. exact case_independent_repr. Qed.
Print Assumptions C04_case_independent_repr.

Theorem C04_composed_cmp_eq_iff : forall ra rb a b, denotes ra (a ++ [[]]) -> denotes rb (b ++ [[]]) -> valid_abs a -> valid_abs b -> (m_composed_cmp ra rb = Ok Eq <-> a = b) /\ (m_lc_composed_cmp ra rb = Ok Eq <-> m_name_eq ra rb = Ok true).
Proof. exact composed_cmp_eq_iff. Qed.
Print Assumptions C04_composed_cmp_eq_iff.

Theorem C04_name_cmp_common_suffix : forall a b s, name_cmp (a ++ s) (b ++ s) = name_cmp a b.
Proof. exact name_cmp_common_suffix. Qed.
Print Assumptions C04_name_cmp_common_suffix.

Theorem C04_name_cmp_siblings : forall x y s, name_cmp (x :: s) (y :: s) = lex_cmp (lowers x) (lowers y).
Proof. exact name_cmp_siblings. Qed.
Print Assumptions C04_name_cmp_siblings.

Theorem C04_name_cmp_parent_first : forall p s, p <> [] -> name_cmp s (p ++ s) = Lt.
Proof. exact name_cmp_parent_first. Qed.
Print Assumptions C04_name_cmp_parent_first.

Theorem C04_name_cmp_first_difference : forall a b x y s, label_cmp x y <> Eq -> name_cmp (a ++ x :: s) (b ++ y :: s) = label_cmp x y.
Proof. exact name_cmp_first_difference. Qed.
Print Assumptions C04_name_cmp_first_difference.

Theorem C04_name_cmp_rfc4034_repr : forall ra rb a b x y s, denotes ra ((a ++ x :: s) ++ [[]]) -> denotes rb ((b ++ y :: s) ++ [[]]) -> valid_abs (a ++ x :: s) -> lex_cmp (lowers x) (lowers y) <> Eq -> m_name_cmp ra rb = Ok (lex_cmp (lowers x) (lowers y)).
Proof. exact name_cmp_rfc4034_repr. Qed.
Print Assumptions C04_name_cmp_rfc4034_repr.

Theorem C04_name_cmp_parent_first_repr : forall ra rb p s, denotes ra (s ++ [[]]) -> denotes rb ((p ++ s) ++ [[]]) -> valid_abs s -> valid_abs (p ++ s) -> p <> [] -> m_name_cmp ra rb = Ok Lt /\ m_name_cmp rb ra = Ok Gt.
Proof. exact name_cmp_parent_first_repr. Qed.
Print Assumptions C04_name_cmp_parent_first_repr.

Theorem C04_label_total_order : forall a b c o, m_label_cmp b a = CompOpp (m_label_cmp a b) /\ (m_label_cmp a b = o -> m_label_cmp b c = o -> m_label_cmp a c = o) /\ m_label_eq a a = true /\ m_label_eq a b = m_label_eq b a /\ (m_label_eq a b = true -> m_label_eq b c = true -> m_label_eq a c = true).
Proof. exact label_total_order. Qed.
Print Assumptions C04_label_total_order.

Theorem C04_label_case_independent : forall a a' b, lowers a = lowers a' -> m_label_eq a b = m_label_eq a' b /\ m_label_cmp a b = m_label_cmp a' b /\ m_label_cmp b a = m_label_cmp b a' /\ m_label_eq a (lowers a) = true.
Proof. exact label_case_independent. Qed.
Print Assumptions C04_label_case_independent.

Theorem C04_charstr_eq_equiv : forall a b c, m_charstr_eq a a = true /\ m_charstr_eq a b = m_charstr_eq b a /\ (m_charstr_eq a b = true -> m_charstr_eq b c = true -> m_charstr_eq a c = true).
Proof. exact charstr_eq_equiv. Qed.
Print Assumptions C04_charstr_eq_equiv.

Theorem C04_charstr_case_independent : forall a a' b, lowers a = lowers a' -> m_charstr_eq a b = m_charstr_eq a' b /\ m_charstr_cmp a b = m_charstr_cmp a' b /\ m_charstr_cmp b a = m_charstr_cmp b a' /\ m_charstr_hash a = m_charstr_hash a' /\ m_charstr_eq a (lowers a) = true.
Proof. exact charstr_case_independent. Qed.
Print Assumptions C04_charstr_case_independent.

Theorem C04_charstr_canonical_total : forall a b c o, (m_charstr_canonical_cmp a b = Eq <-> a = b) /\ m_charstr_canonical_cmp b a = CompOpp (m_charstr_canonical_cmp a b) /\ (m_charstr_canonical_cmp a b = o -> m_charstr_canonical_cmp b c = o -> m_charstr_canonical_cmp a c = o).
Proof. exact charstr_canonical_total. Qed.
Print Assumptions C04_charstr_canonical_total.

Theorem C04_rd_canonical_total : forall code r a b c, rd_lookup rd_table code = Some r -> map fv_kind a = row_kinds r -> map fv_kind b = row_kinds r -> map fv_kind c = row_kinds r -> Forall fv_ok a -> Forall fv_ok b -> Forall fv_ok c -> exists o, rd_canonical_cmp (row_canonical r) a b = Ok o /\ rd_canonical_cmp (row_canonical r) b a = Ok (CompOpp o) /\ (o = Eq <-> rd_enc a = rd_enc b) /\ (rd_canonical_cmp (row_canonical r) b c = Ok o -> rd_canonical_cmp (row_canonical r) a c = Ok o).
Proof. exact rd_canonical_total. Qed.
Print Assumptions C04_rd_canonical_total.
