(* C04 proofs, part 1: labels, and the flat fast path of name_eq. *)
From Coq Require Import NArith Arith List Bool Lia ZArith.
From Coq Require Import ZifyN ZifyBool ZifyNat.
From DV Require Import Base.Outcome Base.Bytes Base.Lex Base.Names Base.PName C04.Gen C04.Model.
Import ListNotations.
Local Open Scope N_scope.
Ltac Zify.zify_post_hook ::= Z.div_mod_to_equations.

(* ---- Label: the coded Eq / Ord / Hash are the Base specifications *)

Lemma m_label_eq_spec a b : m_label_eq a b = label_eqb a b.
Proof. reflexivity. Qed.

Lemma m_label_cmp_spec a b : m_label_cmp a b = label_cmp a b.
Proof. reflexivity. Qed.

Lemma m_label_hash_spec l : (length l < 256)%nat -> m_label_hash l = label_hash_feed l.
Proof.
  intros H. unfold m_label_hash, label_hash_feed, label_hash_items.
  cbn [flat_map hash_item N.eqb Pos.eqb app]. rewrite app_nil_r.
  f_equal. apply N.mod_small. lia.
Qed.

Lemma label_eq_hash_model a b : m_label_eq a b = true -> m_label_hash a = m_label_hash b.
Proof.
  rewrite m_label_eq_spec. intros H. pose proof (label_eq_hash a b H) as Hf.
  unfold m_label_hash, label_hash_items. cbn [flat_map hash_item N.eqb Pos.eqb app].
  unfold label_hash_feed in Hf. injection Hf as H1 H2. rewrite H1, H2. reflexivity.
Qed.

Lemma label_cmp_eq_model a b : m_label_cmp a b = Eq <-> m_label_eq a b = true.
Proof. rewrite m_label_cmp_spec, m_label_eq_spec. apply label_cmp_eq. Qed.

Example label_example :
  m_label_eq [87;119;87] [119;87;119] = true /\ m_label_cmp [65] [98] = Lt /\
  m_label_cmp [91] [97] = Lt /\ m_label_hash [65;0] = [2;97;0].
Proof. vm_compute. auto. Qed.

(* ---- the lower-casing of the model (Base/Bytes.lower) is std's definition
   of u8::to_ascii_lowercase, on every octet *)
Theorem lower_is_std : forall b, b < 256 -> lower b = std_to_ascii_lowercase b.
Proof.
  assert (H : forallb (fun n => lower (N.of_nat n) =? std_to_ascii_lowercase (N.of_nat n)) (seq 0 256) = true)
    by (vm_compute; reflexivity).
  intros b Hb. rewrite forallb_forall in H. specialize (H (N.to_nat b)).
  rewrite N2Nat.id in H. apply N.eqb_eq. apply H. apply in_seq. lia.
Qed.

(* ---- composed orderings of labels are the octet order of their wire forms *)

Lemma m_label_composed_unfold a b :
  m_label_composed_cmp a b = then_cmp (len_cmp a b) (lex_cmp a b).
Proof. reflexivity. Qed.

Lemma m_label_lc_composed_unfold a b :
  m_label_lc_composed_cmp a b = then_cmp (len_cmp a b) (lex_cmp (lowers a) (lowers b)).
Proof. reflexivity. Qed.

Lemma len_prefixed_cmp a b r1 r2 :
  lex_cmp ((N.of_nat (length a) :: a) ++ r1) ((N.of_nat (length b) :: b) ++ r2) =
  then_cmp (then_cmp (len_cmp a b) (lex_cmp a b)) (lex_cmp r1 r2).
Proof.
  cbn [app lex_cmp]. rewrite <- Nat2N.inj_compare. unfold len_cmp.
  destruct (Nat.compare (length a) (length b)) eqn:E; cbn [then_cmp]; try reflexivity.
  apply Nat.compare_eq in E. rewrite lex_cmp_app by exact E.
  destruct (lex_cmp a b); reflexivity.
Qed.

Lemma label_composed_wire a b r1 r2 :
  lex_cmp (wire_label a ++ r1) (wire_label b ++ r2) =
  then_cmp (m_label_composed_cmp a b) (lex_cmp r1 r2).
Proof. rewrite m_label_composed_unfold. apply len_prefixed_cmp. Qed.

Lemma label_lc_composed_wire a b r1 r2 :
  lex_cmp (wire_label (lowers a) ++ r1) (wire_label (lowers b) ++ r2) =
  then_cmp (m_label_lc_composed_cmp a b) (lex_cmp r1 r2).
Proof.
  rewrite m_label_lc_composed_unfold. unfold wire_label.
  rewrite len_prefixed_cmp. unfold len_cmp. rewrite !lowers_length. reflexivity.
Qed.

(* ---- "length octets are in 0..64, below all ASCII letters" made precise *)

Lemma lower_below_letters b : b < 65 -> lower b = b.
Proof. intros H. unfold lower. destruct ((65 <=? b) && (b <=? 90)) eqn:E; [lia|reflexivity]. Qed.

Lemma lower_length_octet (l : label) : (length l <= 63)%nat -> lower (N.of_nat (length l)) = N.of_nat (length l).
Proof. intros H. apply lower_below_letters. lia. Qed.

Lemma lowers_wire_label l : (length l <= 63)%nat -> lowers (wire_label l) = wire_label (lowers l).
Proof.
  intros H. unfold wire_label, lowers. cbn [map]. fold (lowers l).
  rewrite (lower_length_octet l H), lowers_length. reflexivity.
Qed.

Lemma lowers_wire_rel n : Forall valid_label n -> lowers (wire_rel n) = wire_rel (canon n).
Proof.
  induction n as [|l n IH]; intros H; [reflexivity|].
  inversion H as [|? ? [Hl _] Hn]; subst.
  unfold wire_rel, canon in *. cbn [map concat]. rewrite lowers_app, lowers_wire_label by lia.
  rewrite IH by assumption. reflexivity.
Qed.

Lemma lowers_wire_abs n : Forall valid_label n -> lowers (wire_abs n) = wire_abs (canon n).
Proof. intros H. unfold wire_abs. rewrite lowers_app, lowers_wire_rel by assumption. reflexivity. Qed.

Lemma lowers_wf l : wf_bytes l -> wf_bytes (lowers l).
Proof.
  unfold wf_bytes, lowers. intros H. apply Forall_forall. intros x Hx.
  apply in_map_iff in Hx as [y [<- Hy]]. apply lower_byte. rewrite Forall_forall in H. auto.
Qed.

Lemma canon_valid_labels n : Forall valid_label n -> Forall valid_label (canon n).
Proof.
  unfold canon. intros H. apply Forall_forall. intros x Hx.
  apply in_map_iff in Hx as [y [<- Hy]]. rewrite Forall_forall in H. destruct (H y Hy) as [Hl Hb].
  split; [rewrite lowers_length; exact Hl | apply lowers_wf; exact Hb].
Qed.

Lemma canon_wire_len n : wire_len (canon n) = wire_len n.
Proof. induction n as [|l n IH]; [reflexivity|]. cbn [canon map wire_len]. rewrite lowers_length. unfold canon in IH. rewrite IH. reflexivity. Qed.

Lemma canon_valid n : valid_abs n -> valid_abs (canon n).
Proof. intros [H1 H2]. split; [apply canon_valid_labels; exact H1 | rewrite canon_wire_len; exact H2]. Qed.

(* unique decoding: a valid name is determined by its wire form *)
Lemma wire_abs_inj a b : valid_abs a -> valid_abs b -> wire_abs a = wire_abs b -> a = b.
Proof.
  intros Ha Hb E.
  pose proof (decode_wire_abs a [] Ha) as Da. pose proof (decode_wire_abs b [] Hb) as Db.
  rewrite E in Da. rewrite Da in Db. congruence.
Qed.

Lemma wire_rel_inj a b : valid_rel a -> valid_rel b -> wire_rel a = wire_rel b -> a = b.
Proof. intros Ha Hb E. apply wire_abs_inj; auto. unfold wire_abs. rewrite E. reflexivity. Qed.

(* the flat fast path: comparing whole wire slices ignoring ASCII case is the
   label-wise case-insensitive equality *)
Theorem flat_eq_iff_label_eq a b : valid_abs a -> valid_abs b ->
  eq_ci (wire_abs a) (wire_abs b) = name_eqb a b.
Proof.
  intros Ha Hb. apply eq_true_iff_eq. rewrite eq_ci_spec, name_eqb_spec.
  rewrite !lowers_wire_abs by (apply Ha || apply Hb). split.
  - apply wire_abs_inj; apply canon_valid; assumption.
  - intros ->. reflexivity.
Qed.

Theorem flat_eq_iff_label_eq_rel a b : valid_rel a -> valid_rel b ->
  eq_ci (wire_rel a) (wire_rel b) = name_eqb a b.
Proof.
  intros Ha Hb. apply eq_true_iff_eq. rewrite eq_ci_spec, name_eqb_spec.
  rewrite !lowers_wire_rel by (apply Ha || apply Hb). split.
  - apply wire_rel_inj; apply canon_valid; assumption.
  - intros ->. reflexivity.
Qed.

(* the label boundary cannot be faked by an escaped dot: a.b versus a\.b *)
Example flat_eq_boundary :
  eq_ci (wire_abs [[97]; [98]]) (wire_abs [[97; 46; 98]]) = false /\
  eq_ci (wire_abs [[65]; [98]]) (wire_abs [[97]; [66]]) = true /\
  name_eqb [[65]; [98]] [[97]; [66]] = true.
Proof. vm_compute. auto. Qed.

(* without the bound on length octets the fast path would be wrong: a
   "label" of 65 octets has length octet 'A', which equals 'a' = 97 ignoring
   case.  This is why validity is a premise. *)
Example flat_eq_needs_short_labels :
  lower 65 = lower 97 /\ lower 63 <> lower 95.
Proof. vm_compute. split; [reflexivity|discriminate]. Qed.
