(* C04 proofs, part 9: record data values typed by the T1 table rd_table.
   For every record type in the table: PartialEq, Ord, CanonicalOrd and Hash
   range over exactly the struct's fields (a dropped or added field breaks
   rd_table_ok), equal values feed the Hasher identically, and canonical_cmp is
   the octet order of the canonical encodings. *)
From Coq Require Import NArith Arith List Bool Lia ZArith.
From Coq Require Import ZifyN ZifyBool ZifyNat.
From DV Require Import Base.Outcome Base.Bytes Base.Lex Base.Names Base.PName C04.Gen C04.Model
  C04.ProofsLabel C04.ProofsIter C04.ProofsData.
Import ListNotations.
Local Open Scope N_scope.

Fixpoint nlist_eqb (a b : list N) : bool :=
  match a, b with
  | [], [] => true
  | x :: a', y :: b' => (x =? y) && nlist_eqb a' b'
  | _, _ => false
  end.

Lemma nlist_eqb_eq a b : nlist_eqb a b = true -> a = b.
Proof.
  revert b; induction a as [|x a IH]; intros [|y b] H; cbn in H; try discriminate; [reflexivity|].
  apply andb_true_iff in H as [H1 H2]. apply N.eqb_eq in H1. apply IH in H2. congruence.
Qed.

Definition iota (n : nat) : list N := map N.of_nat (seq 0 n).

(* variable-length kinds without own delimiter (7 octets, 9 bitmap) only in
   last position *)
Fixpoint tails_last (kinds : list N) : bool :=
  match kinds with
  | [] => true
  | k :: rest => (if (k =? 7) || (k =? 9) then match rest with [] => true | _ => false end else true)
                 && tails_last rest
  end.

Definition row_ok (r : rd_row) : bool :=
  let n := iota (length (row_kinds r)) in
  nlist_eqb (row_eq r) n && nlist_eqb (row_cmp r) n && nlist_eqb (row_canonical r) n &&
  nlist_eqb (row_hash r) n && tails_last (row_kinds r) &&
  forallb (fun k => (1 <=? k) && (k <=? 13)) (row_kinds r).

(* T1 tie: every impl of every listed type ranges over all fields, in
   declaration order *)
Lemma rd_table_ok : forallb (fun cr => row_ok (snd cr)) rd_table = true.
Proof. vm_compute. reflexivity. Qed.

Lemma rd_lookup_in t code r : rd_lookup t code = Some r -> In (code, r) t.
Proof.
  induction t as [|[c r'] t IH]; cbn [rd_lookup]; [discriminate|].
  destruct (N.eqb_spec c code) as [->|_]; intros H; [inversion H; subst; left; reflexivity|right; auto].
Qed.

Lemma rd_lookup_ok code r : rd_lookup rd_table code = Some r -> row_ok r = true.
Proof.
  intros H. apply rd_lookup_in in H. pose proof rd_table_ok as T. rewrite forallb_forall in T.
  apply (T _ H).
Qed.

(* ---- equal values hash equal *)

Lemma fv_eq_hash a b : fv_eq a b = true -> fv_hash a = fv_hash b.
Proof.
  destruct a, b; cbn [fv_eq fv_hash]; intros H; try discriminate;
    try (apply N.eqb_eq in H; subst; reflexivity);
    try (apply name_eq_hash in H; rewrite H; reflexivity);
    try (apply bytes_eqb_eq in H; rewrite H; reflexivity);
    try (apply bytes_eqb_eq in H; subst; reflexivity).
  apply charstr_eq_hash in H. rewrite H. reflexivity.
Qed.

Lemma all2_eq_hash a : forall b, all2 fv_eq a b = true -> flat_map fv_hash a = flat_map fv_hash b.
Proof.
  induction a as [|x a IH]; intros [|y b] H; cbn [all2] in H; try discriminate; [reflexivity|].
  apply andb_true_iff in H as [H1 H2]. cbn [flat_map]. rewrite (fv_eq_hash _ _ H1), (IH _ H2). reflexivity.
Qed.

Theorem rd_eq_hash code r a b : rd_lookup rd_table code = Some r ->
  rd_eq (row_eq r) a b = true -> rd_hash code (row_hash r) a = rd_hash code (row_hash r) b.
Proof.
  intros L E. apply rd_lookup_ok in L. unfold row_ok in L.
  repeat (apply andb_true_iff in L as [L ?]).
  assert (Hh : row_hash r = row_eq r).
  { transitivity (iota (length (row_kinds r))); [|symmetry]; apply nlist_eqb_eq; assumption. }
  unfold rd_hash. rewrite Hh. f_equal. apply all2_eq_hash. exact E.
Qed.

Theorem c04_rd_eq_hash code a b : c04_rd_eq code a b = Some true -> c04_rd_hash code a = c04_rd_hash code b.
Proof.
  unfold c04_rd_eq, c04_rd_hash. destruct (rd_lookup rd_table code) as [r|] eqn:L; [|discriminate].
  intros H. inversion H as [H']. pose proof (rd_eq_hash code r a b L H') as E. unfold rd_hash in *.
  injection E as E. rewrite E. reflexivity.
Qed.

(* == is an equivalence on values of one type *)
Lemma fv_eq_sym a b : fv_eq a b = fv_eq b a.
Proof.
  destruct a, b; cbn [fv_eq]; try reflexivity; try apply N.eqb_sym.
  - apply eq_true_iff_eq. rewrite !name_eqb_spec. split; auto.
  - apply eq_true_iff_eq. rewrite !name_eqb_spec. split; auto.
  - rewrite !m_charstr_eq_spec. apply eq_true_iff_eq. rewrite !eq_ci_spec. split; auto.
  - apply eq_true_iff_eq. rewrite !bytes_eqb_eq. split; auto.
  - apply eq_true_iff_eq. rewrite !bytes_eqb_eq. split; auto.
  - apply eq_true_iff_eq. rewrite !bytes_eqb_eq. split; auto.
  - apply eq_true_iff_eq. rewrite !bytes_eqb_eq. split; auto.
  - apply eq_true_iff_eq. rewrite !bytes_eqb_eq. split; auto.
  - apply eq_true_iff_eq. rewrite !bytes_eqb_eq. split; auto.
Qed.

Theorem rd_eq_sym e a b : rd_eq e a b = rd_eq e b a.
Proof.
  unfold rd_eq. generalize (pick e a) (pick e b). intros x; induction x as [|v x IH]; intros [|w y]; cbn [all2]; try reflexivity.
  rewrite fv_eq_sym, IH. reflexivity.
Qed.

(* ---- canonical_cmp is the octet order of the canonical encodings *)

Definition fv_ok (v : fval) : Prop := field_ok (fv_field v).

Lemma pick_iota vs : pick (iota (length vs)) vs = vs.
Proof.
  unfold pick, iota.
  assert (G : forall pre, flat_map (fun i => match nth_error (pre ++ vs) (N.to_nat i) with Some v => [v] | None => [] end)
                (map N.of_nat (seq (length pre) (length vs))) = vs).
  { induction vs as [|v vs IH]; intros pre; [reflexivity|]. cbn [length seq map flat_map].
    rewrite Nat2N.id, nth_error_app2, Nat.sub_diag by lia. cbn [nth_error app]. f_equal.
    specialize (IH (pre ++ [v])). rewrite <- app_assoc in IH. cbn [app] in IH.
    rewrite app_length in IH. cbn [length] in IH. replace (length pre + 1)%nat with (S (length pre)) in IH by lia.
    exact IH. }
  apply (G []).
Qed.

Lemma pad_length n w : length (pad n w) = n.
Proof. unfold pad. rewrite firstn_length, app_length, repeat_length. lia. Qed.
Lemma be48_length x : length (be48 x) = 6%nat.
Proof. reflexivity. Qed.

Lemma same_schema_kinds a : forall b, map fv_kind a = map fv_kind b -> tails_last (map fv_kind a) = true ->
  same_schema (map fv_field a) (map fv_field b) = true.
Proof.
  induction a as [|x a IH]; intros [|y b] K T; cbn [map] in *; try discriminate; [reflexivity|].
  injection K as K1 K2. cbn [tails_last] in T. apply andb_true_iff in T as [T1 T2].
  cbn [same_schema]. rewrite (IH b K2 T2), andb_true_r. apply andb_true_iff. split.
  - destruct x, y; cbn in K1; try discriminate; cbn [fv_field same_kind be16 be32 length];
      rewrite ?pad_length, ?be48_length; reflexivity.
  - destruct x; cbn [fv_kind fv_field tail_last] in *; try reflexivity; destruct a; cbn [map]; try reflexivity; discriminate.
Qed.

Theorem rd_canonical_bytewise code r a b : rd_lookup rd_table code = Some r ->
  map fv_kind a = row_kinds r -> map fv_kind b = row_kinds r -> Forall fv_ok a -> Forall fv_ok b ->
  rd_canonical_cmp (row_canonical r) a b = Ok (lex_cmp (rd_enc a) (rd_enc b)).
Proof.
  intros L Ka Kb Oa Ob. apply rd_lookup_ok in L. unfold row_ok in L.
  repeat (apply andb_true_iff in L as [L ?]).
  assert (Hc : row_canonical r = iota (length (row_kinds r))) by (apply nlist_eqb_eq; assumption).
  unfold rd_canonical_cmp, rd_enc. rewrite Hc.
  rewrite <- Ka at 1. rewrite <- Kb. rewrite !map_length, !pick_iota.
  apply schema_cmp_bytewise.
  - apply same_schema_kinds; [congruence|rewrite Ka; assumption].
  - apply Forall_forall. intros f Hf. apply in_map_iff in Hf as [v [<- Hv]]. rewrite Forall_forall in Oa. apply Oa, Hv.
  - apply Forall_forall. intros f Hf. apply in_map_iff in Hf as [v [<- Hv]]. rewrite Forall_forall in Ob. apply Ob, Hv.
Qed.

(* types outside rd_table (TSIG, SVCB/HTTPS, IPSECKEY, OPT): T1 reads that
   their Hash impls feed every struct field in declaration order, which is
   what c04_rdh does; equal values (field-wise ==) feed identical tokens *)
Lemma rd_extra_hash_ok :
  forallb (fun r => nlist_eqb (snd (snd r)) (iota (N.to_nat (fst (snd r))))) rd_extra_hash = true.
Proof. vm_compute. reflexivity. Qed.

Theorem rdh_eq_hash code a b : all2 fv_eq a b = true -> c04_rdh code a = c04_rdh code b.
Proof. intros H. unfold c04_rdh. f_equal. apply all2_eq_hash. exact H. Qed.

(* the pre-fix Record::hash pattern on this level: a Hash impl that feeds a
   field == ignores is rejected by row_ok *)
Example row_ok_rejects_extra_hash_field :
  row_ok ([2; 4], ([0], [0; 1], [0; 1], [0; 1])) = false /\
  row_ok ([2; 4], ([0; 1], [0; 1], [1; 0], [0; 1])) = false /\
  row_ok ([2; 4], ([0; 1], [0; 1], [0; 1], [0; 1])) = true.
Proof. vm_compute. auto. Qed.

Example typed_example :
  c04_rd_eq 15 [VU16 10; VNameLc [[65]]] [VU16 10; VNameLc [[97]]] = Some true /\
  c04_rd_hash 15 [VU16 10; VNameLc [[65]]] = [TW 15; TW 10; TB 1; TB 97; TB 0] /\
  c04_rd_ccmp 15 [VU16 10; VNameLc [[98]]] [VU16 10; VNameLc [[97;97]]] = Ok Lt /\
  c04_rd_hash 43 [VU16 1; VU8 8; VU8 2; VOcts [1;2]] = [TW 43; TW 1; TB 8; TB 2; TN 2; TR [1;2]] /\
  c04_rdh 1 [VAddr4 [1;2;3;4]] = [TW 1; TD 67305985] /\
  c04_rdh 45 [VU8 2; VU8 1; VU8 2; VAddr4 [9;8;7;6]; VOcts [5]] = [TW 45; TB 2; TB 1; TB 2; TD 101124105; TN 1; TR [5]].
Proof. vm_compute. repeat split; reflexivity. Qed.
