(* C04 proofs, part 5: ParsedName (a name inside a message, possibly
   compressed) as a representation.  `plabels m pos len ls` says what the
   ParsedNameIter {slice m, pos, len} reads: the label sequence ls, following
   compression pointers (get_label of Base/PName.v), consuming len octets of
   uncompressed length. *)
From Coq Require Import NArith Arith List Bool Lia ZArith.
From Coq Require Import ZifyN ZifyBool ZifyNat.
From DV Require Import Base.Outcome Base.Bytes Base.Lex Base.Names Base.PName C04.Gen C04.Model
  C04.ProofsLabel C04.ProofsIter C04.ProofsRepr.
Import ListNotations.
Local Open Scope N_scope.
Ltac Zify.zify_post_hook ::= Z.div_mod_to_equations.

Definition clen (l : label) : N := N.of_nat (length l) + 1.

Inductive plabels (m : bytes) : N -> N -> list label -> Prop :=
| PL_nil pos : plabels m pos 0 []
| PL_cons pos len l pos' ls :
    len <> 0 -> get_label (S (length m)) m pos = Ok (l, pos') -> clen l <= len ->
    plabels m pos' (len - clen l) ls -> plabels m pos len (l :: ls).

Lemma plabels_cons_len m pos len l ls : plabels m pos len (l :: ls) -> len <> 0.
Proof. inversion 1; assumption. Qed.

Lemma plabels_length m pos len ls : plabels m pos len ls -> (length ls <= N.to_nat len)%nat.
Proof. induction 1 as [|pos len l pos' ls Hn Hg Hc Hp IH]; simpl; unfold clen in *; lia. Qed.

Lemma yields_parsed m pos len ls : plabels m pos len ls -> yields (IParsed m pos len) ls.
Proof.
  induction 1 as [|pos len l pos' ls Hn Hg Hc Hp IH].
  - apply Y_nil. reflexivity.
  - eapply Y_cons; [|exact IH]. cbn [iter_next].
    assert (E : (len =? 0) = false) by (apply N.eqb_neq; exact Hn). rewrite E, Hg. cbn [bind].
    fold (clen l). assert (E2 : (len <? clen l) = false) by (apply N.ltb_ge; exact Hc). rewrite E2. reflexivity.
Qed.

Lemma parsed_last_spec m ls : forall pos len l fuel, plabels m pos len (ls ++ [l]) ->
  (length ls < fuel)%nat -> parsed_last fuel m pos len = Ok l.
Proof.
  induction ls as [|x ls IH]; intros pos len l fuel H Hf; (destruct fuel as [|fuel]; [lia|]);
    cbn [app] in H; inversion H as [|? ? ? pos' ? Hn Hg Hc Hp]; subst; cbn [parsed_last]; rewrite Hg; cbn [bind].
  - fold (clen l). assert (E2 : (len <? clen l) = false) by (apply N.ltb_ge; exact Hc). rewrite E2.
    inversion Hp. reflexivity.
  - fold (clen x). assert (E2 : (len <? clen x) = false) by (apply N.ltb_ge; exact Hc). rewrite E2.
    assert (Hn' : len - clen x <> 0).
    { destruct (ls ++ [l]) as [|y t] eqn:E; [destruct ls; discriminate|]. eapply plabels_cons_len. exact Hp. }
    assert (E3 : (len - clen x =? 0) = false) by (apply N.eqb_neq; exact Hn'). rewrite E3.
    apply IH; [exact Hp|simpl in Hf; lia].
Qed.

Lemma plabels_snoc m ls : forall pos len l, plabels m pos len (ls ++ [l]) ->
  clen l <= len /\ plabels m pos (len - clen l) ls.
Proof.
  induction ls as [|x ls IH]; intros pos len l H; cbn [app] in H;
    inversion H as [|? ? ? pos' ? Hn Hg Hc Hp]; subst.
  - inversion Hp. split; [exact Hc|]. constructor.
  - destruct (IH _ _ _ Hp) as [Hl Hq]. unfold clen in *. split; [lia|].
    eapply PL_cons; [lia|exact Hg|unfold clen; lia|].
    replace (len - (N.of_nat (length l) + 1) - clen x) with (len - clen x - (N.of_nat (length l) + 1)) by (unfold clen; lia).
    exact Hq.
Qed.

Lemma yields_back_parsed m ls : forall pos len, plabels m pos len ls ->
  yields_back (IParsed m pos len) (rev ls).
Proof.
  induction ls as [|l ls IH] using rev_ind; intros pos len H.
  - inversion H; subst. apply YB_nil. reflexivity.
  - rewrite rev_unit. destruct (plabels_snoc _ _ _ _ _ H) as [Hc Hq].
    eapply YB_cons; [|apply IH; exact Hq]. cbn [iter_next_back].
    assert (Hn : len <> 0).
    { destruct (ls ++ [l]) as [|y t] eqn:E; [destruct ls; discriminate|]. eapply plabels_cons_len. exact H. }
    assert (E : (len =? 0) = false) by (apply N.eqb_neq; exact Hn). rewrite E.
    rewrite (parsed_last_spec m ls pos len l); [|exact H|].
    + cbn [bind]. fold (clen l). assert (E2 : (len <? clen l) = false) by (apply N.ltb_ge; exact Hc).
      rewrite E2. reflexivity.
    + pose proof (plabels_length _ _ _ _ H) as G. rewrite app_length in G. simpl in G. lia.
Qed.

(* a ParsedName denotes the labels its iterator reads; if it is uncompressed
   its flat slice must be their wire form (true for every name produced by
   ParsedName::parse: see parsed_uncompressed_embedding below) *)
Definition flat_ok (m : bytes) (p : pname) (ls : list label) : Prop :=
  pn_compressed p = false ->
  pn_pos p + pn_len p <= mlen m /\ slice m (pn_pos p) (pn_pos p + pn_len p) = wire_labels ls.

Theorem denotes_parsed m p ls : plabels m (pn_pos p) (pn_len p) ls -> flat_ok m p ls ->
  denotes (NParsed m p) ls.
Proof.
  intros H F. constructor; cbn [iter_of as_flat].
  - apply yields_parsed. exact H.
  - apply yields_back_parsed. exact H.
  - destruct (pn_compressed p) eqn:C; [left; reflexivity|right].
    destruct (F C) as [Hr Hs].
    assert (E : (mlen m <? pn_pos p + pn_len p) = false) by (apply N.ltb_ge; exact Hr).
    rewrite E, Hs. reflexivity.
Qed.

(* link to the shared decoder Base/PName.v: what pname_labels returns is
   what the iterator reads *)
Lemma iter_labels_plabels m : forall fuel pos len acc n b,
  iter_labels fuel m pos len acc = Ok (n, b) ->
  exists ls, n ++ (if b then [[]] else []) = rev acc ++ ls /\ plabels m pos len ls.
Proof.
  induction fuel as [|fuel IH]; intros pos len acc n b H; [discriminate|].
  cbn [iter_labels] in H. destruct (len =? 0) eqn:E0.
  - apply N.eqb_eq in E0. subst. injection H as <- <-. exists []. split; [reflexivity|constructor].
  - apply N.eqb_neq in E0.
    destruct (get_label (S (length m)) m pos) as [[l pos']| | |] eqn:G; cbn [bind] in H; try discriminate.
    destruct (len <? N.of_nat (length l) + 1) eqn:E1; [discriminate|]. apply N.ltb_ge in E1.
    destruct (Nat.eqb (length l) 0) eqn:El.
    + apply Nat.eqb_eq in El. destruct l; [|discriminate]. cbn [length] in *.
      destruct (len - (N.of_nat 0 + 1) =? 0) eqn:E2.
      * injection H as <- <-. exists [[]]. split; [reflexivity|].
        eapply PL_cons; [exact E0|exact G|unfold clen; simpl; lia|].
        apply N.eqb_eq in E2. unfold clen. cbn [length]. rewrite E2. constructor.
      * destruct (IH _ _ _ _ _ H) as [ls [Hl Hp]]. exists ([] :: ls). split.
        -- rewrite Hl. cbn [rev]. rewrite <- app_assoc. reflexivity.
        -- eapply PL_cons; [exact E0|exact G|unfold clen; simpl; lia|exact Hp].
    + destruct (IH _ _ _ _ _ H) as [ls [Hl Hp]]. exists (l :: ls). split.
      * rewrite Hl. cbn [rev]. rewrite <- app_assoc. reflexivity.
      * eapply PL_cons; [exact E0|exact G|unfold clen; lia|exact Hp].
Qed.

Lemma pname_labels_unfold m p :
  pname_labels m p = iter_labels PARSE_FUEL m (pn_pos p) (pn_len p) [].
Proof. reflexivity. Qed.

Theorem denotes_parsed_pname m p n : pname_labels m p = Ok (n, true) -> flat_ok m p (n ++ [[]]) ->
  denotes (NParsed m p) (n ++ [[]]).
Proof.
  intros H F. rewrite pname_labels_unfold in H.
  apply iter_labels_plabels in H. destruct H as [ls [Hl Hp]].
  cbn [rev app] in Hl. subst ls. apply denotes_parsed; assumption.
Qed.

(* representation independence: a name parsed out of a message (compressed
   or not) behaves like the flat name with the same labels *)
Theorem parsed_same_as_flat m p n b rb : pname_labels m p = Ok (n, true) -> flat_ok m p (n ++ [[]]) ->
  valid_abs n -> valid_abs b -> denotes rb (b ++ [[]]) ->
  let pa := NParsed m p in
  let fl := NFlat (wire_abs n) in
  m_name_eq pa rb = m_name_eq fl rb /\ m_name_cmp pa rb = m_name_cmp fl rb /\
  m_name_hash pa = m_name_hash fl /\ m_lc_composed_cmp pa rb = m_lc_composed_cmp fl rb /\
  m_composed_cmp pa rb = m_composed_cmp fl rb /\
  m_name_eq pa fl = Ok true /\ m_name_cmp pa fl = Ok Eq.
Proof.
  intros H F Vn Vb Db pa fl.
  assert (Dpa : denotes pa (n ++ [[]])) by (apply denotes_parsed_pname; assumption).
  assert (Dfl : denotes fl (n ++ [[]])) by (apply denotes_flat_abs; apply Vn).
  repeat split.
  - rewrite (name_eq_repr _ _ _ _ Dpa Db Vn Vb), (name_eq_repr _ _ _ _ Dfl Db Vn Vb). reflexivity.
  - rewrite (name_cmp_repr _ _ _ _ Dpa Db Vn), (name_cmp_repr _ _ _ _ Dfl Db Vn). reflexivity.
  - rewrite (name_hash_repr _ _ Dpa Vn), (name_hash_repr _ _ Dfl Vn). reflexivity.
  - rewrite (lc_composed_cmp_repr _ _ _ _ Dpa Db Vn Vb), (lc_composed_cmp_repr _ _ _ _ Dfl Db Vn Vb). reflexivity.
  - rewrite (composed_cmp_repr _ _ _ _ Dpa Db Vn Vb), (composed_cmp_repr _ _ _ _ Dfl Db Vn Vb). reflexivity.
  - rewrite (name_eq_repr _ _ _ _ Dpa Dfl Vn Vn). f_equal. apply name_cmp_eq_iff. apply name_cmp_refl.
  - rewrite (name_cmp_repr _ _ _ _ Dpa Dfl Vn). f_equal. apply name_cmp_refl.
Qed.

(* a compressed name: header, "b.c." at 12, then "A" + pointer to 12 at 17 *)
Example parsed_example :
  let m := [0;0;0;0;0;0;0;0;0;0;0;0; 1;98;1;99;0; 1;65;192;12] in
  exists p, parse_ref m 17 (mlen m) = Ok p /\ pn_compressed p = true /\
    pname_labels m p = Ok ([[65];[98];[99]], true) /\
    m_name_eq (NParsed m p) (NFlat (wire_abs [[97];[66];[67]])) = Ok true /\
    m_name_cmp (NParsed m p) (NFlat (wire_abs [[97];[98];[99]])) = Ok Eq /\
    m_name_hash (NParsed m p) = m_name_hash (NFlat (wire_abs [[97];[98];[99]])).
Proof. exists (mkPName 17 7 true 21). vm_compute. repeat split; reflexivity. Qed.
