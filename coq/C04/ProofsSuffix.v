(* C04 proofs, part 10: names derived from a parsed name by parent() /
   split_first() / iter_suffixes().  With the `compressed` flag left alone (what
   the code does, T1) every suffix of a parsed name - also across chained
   compression pointers - still denotes its labels, so ==, the orders, the
   hash and compose agree with the flat suffix.  Clearing the flag after a
   pointer was crossed is refuted on a name with two chained pointers. *)
From Coq Require Import NArith Arith List Bool Lia ZArith.
From Coq Require Import ZifyN ZifyBool ZifyNat.
From DV Require Import Base.Outcome Base.Bytes Base.Lex Base.Names Base.PName C01.Proofs
  C04.Gen C04.Model C04.ProofsLabel C04.ProofsIter C04.ProofsRepr C04.ProofsParsed C04.ProofsEmbed
  C04.ProofsCompressed.
Import ListNotations.
Local Open Scope N_scope.
Ltac Zify.zify_post_hook ::= Z.div_mod_to_equations.

Lemma get_label_start fuel m p r : get_label fuel m p = Ok r -> p < mlen m.
Proof.
  destruct fuel as [|fuel]; [discriminate|]. cbn [get_label].
  destruct (get m p) as [b|] eqn:E; [|discriminate]. intros _. eapply get_lt; eauto.
Qed.

(* the checked walk of parent() finds the label the unchecked iterator reads *)
Lemma get_label_first_label : forall fuel m pos l e crossed,
  get_label fuel m pos = Ok (l, e) -> l <> [] ->
  exists t cr, first_label fuel m pos crossed = Ok (t, clen l, cr) /\ e = t + clen l /\
    (forall b, get m pos = Some b -> b <= 63 -> t = pos /\ cr = crossed).
Proof.
  induction fuel as [|fuel IH]; intros m pos l e crossed H Hl; [discriminate|].
  cbn [get_label] in H. cbn [first_label].
  destruct (get m pos) as [b|] eqn:Eb; [|discriminate].
  pose proof (get_lt _ _ _ Eb) as Hlt.
  assert (E1 : (mlen m - pos <? 1) = false) by (apply N.ltb_ge; lia). rewrite E1.
  destruct (N.leb_spec b 63) as [H63|H63].
  - cbv zeta in H. destruct (N.ltb_spec (mlen m) (pos + 1 + b)) as [Hs|Hs]; [discriminate|].
    inversion H; subst l e. unfold clen. rewrite slice_length by lia.
    replace (N.of_nat (N.to_nat (pos + 1 + b - (pos + 1)))) with b by lia.
    destruct (N.eqb_spec b 0) as [Hb0|Hb0].
    + exfalso. apply Hl. subst b. replace (pos + 1 + 0) with (pos + 1) by lia. apply slice_nil.
    + exists pos, crossed. split; [reflexivity|]. split; [lia|]. intros b' Hb' _. auto.
  - destruct (N.leb_spec 192 b) as [H192|H192]; [|discriminate].
    destruct (get m (pos + 1)) as [c|] eqn:Ec; [|discriminate].
    pose proof (get_lt _ _ _ Ec) as Hlt2.
    assert (E2 : (mlen m - pos <? 2) = false) by (apply N.ltb_ge; lia). rewrite E2.
    pose proof (get_label_start _ _ _ _ H) as Hp.
    assert (E3 : (mlen m <? c + 256 * (b mod 64)) = false) by (apply N.ltb_ge; lia). rewrite E3.
    destruct (IH m _ l e true H Hl) as [t [cr [Hf [He _]]]].
    exists t, cr. split; [exact Hf|]. split; [exact He|].
    intros b' Hb' Hle. inversion Hb'; subst. lia.
Qed.

Lemma slice_head m a b x rest : slice m a b = x :: rest -> get m a = Some x.
Proof.
  unfold slice, get. generalize (N.to_nat (b - a)). intros k. generalize (N.to_nat a). intros i. revert m.
  induction i as [|i IH]; intros [|y m] H; cbn in *; try (destruct k; discriminate).
  - destruct k; [discriminate|]. inversion H. reflexivity.
  - apply IH. exact H.
Qed.

Lemma app_len_inj {A} (a c b d : list A) : length a = length c -> a ++ b = c ++ d -> b = d.
Proof.
  intros Hl H. apply (f_equal (skipn (length a))) in H.
  rewrite skipn_app, skipn_all, Nat.sub_diag in H. rewrite Hl in H.
  rewrite skipn_app, skipn_all, Nat.sub_diag in H. exact H.
Qed.

(* one parent() step on a name denoting l :: ls *)
Theorem parent_step m p l ls :
  plabels m (pn_pos p) (pn_len p) (l :: ls) -> flat_ok m p (l :: ls) ->
  (1 <= length l <= 63)%nat -> ls <> [] ->
  exists q, parent_gen true m p = Ok (Some q) /\
    plabels m (pn_pos q) (pn_len q) ls /\ flat_ok m q ls /\ pn_compressed q = pn_compressed p.
Proof.
  intros H F Hl Hn. inversion H as [|? ? ? pos' ? Hz Hg Hc Hp]; subst.
  assert (Hne : l <> []) by (intros ->; simpl in Hl; lia).
  destruct (get_label_first_label _ _ _ _ _ false Hg Hne) as [t [cr [Hf [He Hflat]]]].
  assert (Hrest : pn_len p - clen l <> 0).
  { destruct ls as [|x ls']; [congruence|]. eapply plabels_cons_len. exact Hp. }
  unfold parent_gen.
  assert (Hcl : 2 <= clen l) by (unfold clen; lia).
  assert (E1 : (pn_len p =? 1) = false) by (apply N.eqb_neq; clear - Hcl Hc Hrest; lia). rewrite E1, Hf. cbn [bind].
  assert (E2 : (pn_len p <? clen l) = false) by (apply N.ltb_ge; exact Hc). rewrite E2.
  eexists. split; [reflexivity|]. cbn [pn_pos pn_len pn_compressed]. rewrite <- He.
  split; [exact Hp|]. split; [|reflexivity].
  intros Hcf. cbn [pn_pos pn_len pn_compressed] in *. destruct (F Hcf) as [Hr Hs].
  rewrite wire_labels_cons in Hs.
  assert (Hhead : get m (pn_pos p) = Some (N.of_nat (length l))).
  { unfold wire_label in Hs. cbn [app] in Hs. eapply slice_head. exact Hs. }
  assert (Hb63 : N.of_nat (length l) <= 63) by lia.
  destruct (Hflat _ Hhead Hb63) as [Ht _]. subst t. subst pos'.
  split; [unfold clen in *; lia|].
  rewrite (slice_split m (pn_pos p) (pn_pos p + clen l)) in Hs by (unfold clen in *; lia).
  replace (pn_pos p + clen l + (pn_len p - clen l)) with (pn_pos p + pn_len p) by (unfold clen in *; lia).
  eapply app_len_inj; [|exact Hs].
  rewrite slice_length by (unfold clen in *; lia). rewrite wire_label_length. unfold clen. lia.
Qed.

Lemma plabels_root_len m pos len : plabels m pos len [[]] -> len = 1.
Proof.
  intros H. inversion H as [|? ? ? pos' ? Hz Hg Hc Hp]; subst. inversion Hp. unfold clen in *. cbn [length] in *. lia.
Qed.

(* T1 tie: neither parent() nor split_first() touches the flag *)
Lemma parent_flag_kept : parent_keeps_compressed_flag = true /\ split_first_keeps_compressed_flag = true /\
  suffix_iter_is_parent = true.
Proof. repeat split; reflexivity. Qed.

(* any number of parent() steps (= iter_suffixes) on any parsed name *)
Theorem parsed_suffix_denotes m pos lim p : parse_ref m pos lim = Ok p -> lim <= mlen m -> wf_bytes m ->
  forall k, exists n q, parent_n k m p = Ok q /\ valid_abs n /\ denotes (NParsed m q) (n ++ [[]]).
Proof.
  intros H Hl Hw k. pose proof (proj1 parent_flag_kept) as Hk.
  destruct (parsed_inv m pos lim p H Hl Hw) as [n [Vn [_ [Hpl Hf]]]].
  clear H. revert p n Vn Hpl Hf. induction k as [|k IH]; intros p n Vn Hpl Hf.
  - exists n, p. split; [reflexivity|]. split; [exact Vn|]. apply denotes_parsed; assumption.
  - unfold parent_n. cbn [step_n]. fold parent_n. unfold m_parent. rewrite Hk. destruct n as [|l n'].
    + cbn [app] in Hpl. apply plabels_root_len in Hpl as Hone.
      unfold parent_gen. rewrite Hone. cbn [N.eqb Pos.eqb bind].
      exists [], p. split; [reflexivity|]. split; [exact Vn|]. apply denotes_parsed; assumption.
    + destruct Vn as [Vl Vw]. inversion Vl as [|? ? [Hl1 Hb] Vl']; subst.
      assert (Hne : n' ++ [[]] <> []) by (destruct n'; discriminate).
      destruct (parent_step m p l (n' ++ [[]]) Hpl Hf ltac:(lia) Hne) as [q [Hq [Hplq [Hfq _]]]].
      rewrite Hq. cbn [bind].
      apply (IH q n'); [split; [exact Vl'|cbn [wire_len] in Vw; lia]|exact Hplq|exact Hfq].
Qed.

(* hence every suffix compares, orders and hashes like the flat suffix *)
Theorem parsed_suffix_ops m pos lim p k rb b : parse_ref m pos lim = Ok p -> lim <= mlen m -> wf_bytes m ->
  valid_abs b -> denotes rb (b ++ [[]]) ->
  exists n q, parent_n k m p = Ok q /\ valid_abs n /\
    m_name_eq (NParsed m q) rb = Ok (name_eqb n b) /\ m_name_cmp (NParsed m q) rb = Ok (name_cmp n b) /\
    m_composed_cmp (NParsed m q) rb = Ok (lex_cmp (wire_abs n) (wire_abs b)) /\
    m_lc_composed_cmp (NParsed m q) rb = Ok (lex_cmp (wire_abs (canon n)) (wire_abs (canon b))) /\
    m_name_hash (NParsed m q) = Ok (name_hash_feed n).
Proof.
  intros H Hl Hw Vb Db. destruct (parsed_suffix_denotes m pos lim p H Hl Hw k) as [n [q [Hq [Vn Dq]]]].
  exists n, q. split; [exact Hq|]. split; [exact Vn|]. repeat split.
  - apply name_eq_repr; assumption.
  - apply name_cmp_repr; assumption.
  - apply composed_cmp_repr; assumption.
  - apply lc_composed_cmp_repr; assumption.
  - apply name_hash_repr; assumption.
Qed.

(* the flag-clearing variant: "a.b.com." stored as a + ptr -> (b + ptr -> com.)
   parent() crosses the first pointer, the rest "b.com." still contains one.
   With the flag cleared the suffix's flat slice is `01 62 c0 0c ..`, not the
   wire form: it is no longer == to the flat name although name_cmp says Equal *)
Theorem parent_clearing_flag_refuted :
  let m := [0;0;0;0;0;0;0;0;0;0;0;0; 3;99;111;109;0; 1;98;192;12; 1;97;192;17; 0;0;0;0;0] in
  let com := NFlat (wire_abs [[99;111;109]]) in
  exists p p1 q, parse_ref m 21 (mlen m) = Ok p /\ parent_gen false m p = Ok (Some p1) /\
    parent_gen false m p1 = Ok (Some q) /\ pn_compressed q = false /\
    m_name_eq (NParsed m q) com = Ok false /\ m_name_cmp (NParsed m q) com = Ok Eq /\
    m_name_hash (NParsed m q) = m_name_hash com /\
    (exists q', parent_gen true m p1 = Ok (Some q') /\ m_name_eq (NParsed m q') com = Ok true).
Proof.
  exists (mkPName 21 9 true 25), (mkPName 23 7 true 25), (mkPName 19 5 false 25).
  split; [vm_compute; reflexivity|]. split; [vm_compute; reflexivity|]. split; [vm_compute; reflexivity|].
  split; [reflexivity|]. split; [vm_compute; reflexivity|]. split; [vm_compute; reflexivity|].
  split; [vm_compute; reflexivity|].
  exists (mkPName 19 5 true 25). split; vm_compute; reflexivity.
Qed.
