(* C04 proofs, part 12: discharging the validity premise for flat names.
   Whatever the uncompressed decoder of Base/Names.v (Name::from_octets /
   check_slice) accepts is the wire form of a valid name, so every theorem
   about flat names applies to every Name the constructor returns. *)
From Coq Require Import NArith Arith List Bool Lia ZArith.
From Coq Require Import ZifyN ZifyBool ZifyNat.
From DV Require Import Base.Outcome Base.Bytes Base.Lex Base.Names Base.PName C04.Gen C04.Model
  C04.ProofsLabel C04.ProofsIter C04.ProofsRepr C04.ProofsEmbed.
Import ListNotations.
Local Open Scope N_scope.

Lemma parse_flat_sound : forall fuel b acc used n rest, (used <= 254)%nat ->
  parse_flat fuel b acc used = inl (Some (n, rest)) ->
  exists m, n = rev acc ++ m /\ b = wire_abs m ++ rest /\
    Forall (fun l : label => (1 <= length l <= 63)%nat) m /\ (used + wire_len m <= 254)%nat.
Proof.
  induction fuel as [|fuel IH]; intros b acc used n rest Hu0 H; [discriminate|].
  cbn [parse_flat] in H. destruct b as [|h t]; [discriminate|].
  destruct (N.eqb_spec h 0) as [Hz|Hz].
  - inversion H; subst. exists []. rewrite app_nil_r. repeat split; [constructor|cbn [wire_len]; lia].
  - destruct (N.ltb_spec 63 h) as [H63|H63]; [discriminate|].
    destruct (Nat.ltb_spec (length t) (N.to_nat h)) as [Hs|Hs]; [discriminate|].
    destruct (Nat.ltb_spec 254 (used + 1 + N.to_nat h)) as [Hl|Hl]; [discriminate|].
    apply IH in H; [|lia]. destruct H as [m [Hn [Hb [Hv Hu]]]].
    exists (firstn (N.to_nat h) t :: m).
    assert (Hlen : length (firstn (N.to_nat h) t) = N.to_nat h) by (apply firstn_length_le; lia).
    split; [rewrite Hn; cbn [rev]; rewrite <- app_assoc; reflexivity|]. split.
    + rewrite wire_abs_cons'. unfold wire_label. rewrite Hlen, N2Nat.id. cbn [app]. f_equal.
      rewrite <- app_assoc, <- Hb. symmetry. apply firstn_skipn.
    + split; [constructor; [lia|exact Hv]|]. cbn [wire_len]. lia.
Qed.

(* Name::from_octets (check_slice): what it accepts is a valid name's wire form *)
Theorem decode_abs_sound w n rest : wf_bytes w -> decode_abs w = inl (Some (n, rest)) ->
  valid_abs n /\ w = wire_abs n ++ rest.
Proof.
  intros Hw H. unfold decode_abs in H. apply parse_flat_sound in H; [|lia].
  destruct H as [m [Hn [Hb [Hv Hu]]]]. cbn [rev app] in Hn. subst m. split; [|exact Hb].
  split; [|lia]. rewrite Hb in Hw. apply wf_bytes_app in Hw as [Hw _].
  clear - Hv Hw. induction n as [|l n IH]; [constructor|].
  inversion Hv; subst. rewrite wire_abs_cons' in Hw. apply wf_bytes_app in Hw as [Hl Hn].
  constructor; [split; [assumption|]|apply IH; assumption].
  unfold wire_label in Hl. inversion Hl; assumption.
Qed.

(* hence: any two octet strings the constructor accepts (no trailing octets)
   compare, order and hash as their decoded label lists say - no validity
   premise left *)
Theorem accepted_flat_ops wa a wb b : wf_bytes wa -> wf_bytes wb ->
  decode_abs wa = inl (Some (a, [])) -> decode_abs wb = inl (Some (b, [])) ->
  m_name_eq (NFlat wa) (NFlat wb) = Ok (name_eqb a b) /\
  m_name_cmp (NFlat wa) (NFlat wb) = Ok (name_cmp a b) /\
  m_name_ord (NFlat wa) (NFlat wb) = Ok (name_cmp a b) /\
  m_name_hash (NFlat wa) = Ok (name_hash_feed a) /\
  m_composed_cmp (NFlat wa) (NFlat wb) = Ok (lex_cmp wa wb) /\
  m_lc_composed_cmp (NFlat wa) (NFlat wb) = Ok (lex_cmp (wire_abs (canon a)) (wire_abs (canon b))).
Proof.
  intros Wa Wb Da Db. destruct (decode_abs_sound _ _ _ Wa Da) as [Va Ea]. destruct (decode_abs_sound _ _ _ Wb Db) as [Vb Eb].
  rewrite app_nil_r in Ea, Eb. subst wa wb.
  pose proof (denotes_flat_abs a (proj1 Va)) as Dna. pose proof (denotes_flat_abs b (proj1 Vb)) as Dnb.
  repeat split;
    first [ apply name_eq_repr; assumption | apply name_cmp_repr; assumption
          | apply (proj1 (name_ord_repr _ _ a b Dna Dnb Va)) | apply name_hash_repr; assumption
          | apply composed_cmp_repr; assumption | apply lc_composed_cmp_repr; assumption ].
Qed.

Example accept_example :
  decode_abs [1;65;1;98;0] = inl (Some ([[65];[98]], [])) /\
  m_name_eq (NFlat [1;65;1;98;0]) (NFlat [1;97;1;66;0]) = Ok true.
Proof. vm_compute. auto. Qed.
