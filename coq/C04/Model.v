(* C04 model: equality, ordering and hashing of labels, names (flat, parsed
   inside a message, chains), character strings, records and record data.

   Transcribed Rust items (src/base unless noted):
     name/label.rs    Label::split_from, PartialEq / Ord / Hash for Label,
                      Label::{composed_cmp, lowercase_composed_cmp}
     name/relative.rs NameIter::{next, next_back}
     name/parsed.rs   ParsedNameIter::{next, next_back} (get_label from
                      Base/PName.v), ParsedName::as_flat_slice
     name/chain.rs    ChainIter (core::iter::Chain of the two label iterators)
     name/traits.rs   ToName / ToRelativeName::{name_eq, name_cmp},
                      ToName::{composed_cmp, lowercase_composed_cmp}
     name/{absolute,relative,parsed}.rs  Hash (every label's Hash in order)
     charstr.rs       PartialEq / Ord / CanonicalOrd / Hash for CharStr
     record.rs        Eq / Ord / CanonicalOrd / Hash of Record, RecordHeader
     rdata/*          canonical_cmp of A, AAAA, MX, SOA, SRV, DS, DNSKEY, TXT,
                      NSEC as instances of the field schema below
   The bytes handed to a `Hasher` are modelled as the list of octets written
   (u8::hash -> write_u8).  Constants, operators, arms and field lists come
   from C04/Gen.v (T1). *)
From Coq Require Import NArith Arith List Bool.
From DV Require Import Base.Outcome Base.Bytes Base.Lex Base.Names Base.PName C17.Model C04.Gen.
Import ListNotations.
Local Open Scope N_scope.

(* panic sites *)
Definition P_SPLIT_UNWRAP : N := 20.  (* NameIter::next_back: split_from(tmp).unwrap() *)
Definition P_UNREACHABLE : N := 21.   (* composed_cmp / lowercase_composed_cmp: unreachable!() *)
Definition P_FLAT_INDEX : N := 22.    (* ParsedName::as_flat_slice: slice index *)
Definition P_SUB : N := 23.           (* usize subtraction in NameIter::next_back *)

(* ------------------------------------------------------------------ labels *)

Fixpoint bytes_eqb (a b : bytes) : bool :=
  match a, b with
  | [], [] => true
  | x :: a', y :: b' => (x =? y) && bytes_eqb a' b'
  | _, _ => false
  end.

Definition lower_if (f : bool) (l : bytes) : bytes := if f then lowers l else l.

(* impl PartialEq<T> for Label: as_slice().eq_ignore_ascii_case(other) *)
Definition m_label_eq (a b : label) : bool :=
  if label_eq_ignores_case then eq_ci a b else bytes_eqb a b.

(* impl Ord for Label: iter().map(to_ascii_lowercase).cmp(...) *)
Definition m_label_cmp (a b : label) : comparison :=
  lex_cmp (lower_if label_cmp_lowers_self a) (lower_if label_cmp_lowers_other b).

(* impl Hash for Label: item 1 = (len as u8), 2 = lower-cased octets, 3 = raw *)
Definition hash_item (l : label) (code : N) : bytes :=
  if code =? 1 then [N.of_nat (length l) mod 256]
  else if code =? 2 then lowers l
  else l.
Definition m_label_hash (l : label) : bytes := flat_map (hash_item l) label_hash_items.

(* usize::cmp of the two lengths *)
Definition len_cmp (a b : bytes) : comparison := Nat.compare (length a) (length b).

(* Label::composed_cmp / lowercase_composed_cmp *)
Definition m_label_composed_cmp (a b : label) : comparison :=
  let tail := if label_composed_tail_is_label_cmp then m_label_cmp a b else lex_cmp a b in
  if label_composed_len_first then then_cmp (len_cmp a b) tail else tail.
Definition m_label_lc_composed_cmp (a b : label) : comparison :=
  let tail := if label_lc_composed_tail_is_label_cmp then m_label_cmp a b else lex_cmp a b in
  if label_lc_composed_len_first then then_cmp (len_cmp a b) tail else tail.

(* Label::split_from on an octet slice *)
Inductive split_err := SShort | SBadType | SPointer (p : N).

Definition split_from (s : bytes) : (label * bytes) + split_err :=
  match s with
  | [] => inr SShort
  | head :: rest =>
      if head <=? split_normal_max then
        let e := S (N.to_nat head) in
        if (length s <? e)%nat then inr SShort
        else inl (skipn 1 (firstn e s), skipn e s)
      else if (split_ext_lo <=? head) && (head <=? split_ext_hi) then inr SBadType
      else if split_ptr_lo <=? head then
        match rest with
        | c :: _ => inr (SPointer (c + 256 * (head mod 64)))
        | [] => inr SShort
        end
      else inr SBadType
  end.

(* --------------------------------------------------------- label iterators *)

(* IFlat: NameIter over a slice; IParsed: ParsedNameIter {slice,pos,len};
   IChain: core::iter::Chain.  (Chain fuses its first half; NameIter and
   ParsedNameIter keep answering None once exhausted, so the unfused model
   yields the same sequence.) *)
Inductive iter :=
| IFlat (s : bytes)
| IParsed (m : bytes) (pos len : N)
| IChain (a b : iter).

Fixpoint iter_next (i : iter) : outcome (option (label * iter)) :=
  match i with
  | IFlat s =>
      match split_from s with
      | inl (l, t) => Ok (Some (l, IFlat t))
      | inr _ => Ok None
      end
  | IParsed m pos len =>
      if len =? 0 then Ok None
      else
        do r <- get_label (S (length m)) m pos;
        let '(l, pos') := r in
        let cl := N.of_nat (length l) + 1 in
        if len <? cl then Panic P_UNDERFLOW
        else Ok (Some (l, IParsed m pos' (len - cl)))
  | IChain a b =>
      do ra <- iter_next a;
      match ra with
      | Some (l, a') => Ok (Some (l, IChain a' b))
      | None =>
          do rb <- iter_next b;
          match rb with
          | Some (l, b') => Ok (Some (l, IChain a b'))
          | None => Ok None
          end
      end
  end.

(* NameIter::next_back: walk `tmp` from the front until the tail is empty *)
Fixpoint flat_last (fuel : nat) (tmp : bytes) : outcome label :=
  match fuel with
  | O => OutOfFuel
  | S f =>
      match split_from tmp with
      | inr _ => Panic P_SPLIT_UNWRAP
      | inl (l, tail) =>
          match tail with
          | [] => Ok l
          | _ => flat_last f tail
          end
      end
  end.

(* ParsedNameIter::next_back: clone, get_label until tmp.len == 0 *)
Fixpoint parsed_last (fuel : nat) (m : bytes) (pos len : N) : outcome label :=
  match fuel with
  | O => OutOfFuel
  | S f =>
      do r <- get_label (S (length m)) m pos;
      let '(l, pos') := r in
      let cl := N.of_nat (length l) + 1 in
      if len <? cl then Panic P_UNDERFLOW
      else if len - cl =? 0 then Ok l
      else parsed_last f m pos' (len - cl)
  end.

Fixpoint iter_next_back (i : iter) : outcome (option (label * iter)) :=
  match i with
  | IFlat s =>
      match s with
      | [] => Ok None
      | _ =>
          do l <- flat_last (S (length s)) s;
          if (length s <? S (length l))%nat then Panic P_SUB
          else Ok (Some (l, IFlat (firstn (length s - S (length l)) s)))
      end
  | IParsed m pos len =>
      if len =? 0 then Ok None
      else
        do l <- parsed_last (S (N.to_nat len)) m pos len;
        let cl := N.of_nat (length l) + 1 in
        if len <? cl then Panic P_UNDERFLOW
        else Ok (Some (l, IParsed m pos (len - cl)))
  | IChain a b =>
      do rb <- iter_next_back b;
      match rb with
      | Some (l, b') => Ok (Some (l, IChain a b'))
      | None =>
          do ra <- iter_next_back a;
          match ra with
          | Some (l, a') => Ok (Some (l, IChain a' b))
          | None => Ok None
          end
      end
  end.

(* Iterator::eq on two label iterators *)
Fixpoint iters_eq (fuel : nat) (a b : iter) : outcome bool :=
  match fuel with
  | O => OutOfFuel
  | S f =>
      do ra <- iter_next a;
      match ra with
      | None =>
          do rb <- iter_next b;
          Ok (match rb with None => true | Some _ => false end)
      | Some (x, a') =>
          do rb <- iter_next b;
          match rb with
          | None => Ok false
          | Some (y, b') => if m_label_eq x y then iters_eq f a' b' else Ok false
          end
      end
  end.

(* the loop of name_cmp: next_back on both, arms from T1 *)
Fixpoint iters_cmp_back (fuel : nat) (arm_ns arm_sn arm_nn : comparison) (a b : iter)
  : outcome comparison :=
  match fuel with
  | O => OutOfFuel
  | S f =>
      do ra <- iter_next_back a;
      do rb <- iter_next_back b;
      match ra, rb with
      | Some (l, a'), Some (r, b') =>
          match m_label_cmp l r with
          | Eq => iters_cmp_back f arm_ns arm_sn arm_nn a' b'
          | c => Ok c
          end
      | None, Some _ => Ok arm_ns
      | Some _, None => Ok arm_sn
      | None, None => Ok arm_nn
      end
  end.

(* the loop of composed_cmp / lowercase_composed_cmp *)
Fixpoint iters_composed (fuel : nat) (lc : label -> label -> comparison) (arm_nn : comparison)
         (a b : iter) : outcome comparison :=
  match fuel with
  | O => OutOfFuel
  | S f =>
      do ra <- iter_next a;
      do rb <- iter_next b;
      match ra, rb with
      | Some (l, a'), Some (r, b') =>
          match lc l r with
          | Eq => iters_composed f lc arm_nn a' b'
          | c => Ok c
          end
      | None, None => Ok arm_nn
      | _, _ => Panic P_UNREACHABLE
      end
  end.

(* Hash: for item in self.iter() { item.hash(state) } *)
Fixpoint iters_hash (fuel : nat) (a : iter) : outcome bytes :=
  match fuel with
  | O => OutOfFuel
  | S f =>
      do ra <- iter_next a;
      match ra with
      | None => Ok []
      | Some (l, a') => do rest <- iters_hash f a'; Ok (m_label_hash l ++ rest)
      end
  end.

(* ------------------------------------------------------- representations *)

Inductive nrepr :=
| NFlat (w : bytes)                 (* Name<Octs> / RelativeName<Octs> *)
| NParsed (m : bytes) (p : pname)   (* ParsedName inside message m *)
| NChain (l r : nrepr).             (* Chain<L, R> *)

Fixpoint iter_of (r : nrepr) : iter :=
  match r with
  | NFlat w => IFlat w
  | NParsed m p => IParsed m (pn_pos p) (pn_len p)
  | NChain l r => IChain (iter_of l) (iter_of r)
  end.

Definition as_flat (r : nrepr) : outcome (option bytes) :=
  match r with
  | NFlat w => Ok (Some w)
  | NParsed m p =>
      if pn_compressed p then Ok None
      else if mlen m <? pn_pos p + pn_len p then Panic P_FLAT_INDEX
      else Ok (Some (slice m (pn_pos p) (pn_pos p + pn_len p)))
  | NChain _ _ => Ok None
  end.

Definition LOOP_FUEL : nat := 300.

Definition name_eq_gen (flat_ci : bool) (a b : nrepr) : outcome bool :=
  do fa <- as_flat a;
  do fb <- as_flat b;
  match fa, fb with
  | Some l, Some r => Ok (if flat_ci then eq_ci l r else bytes_eqb l r)
  | _, _ => iters_eq LOOP_FUEL (iter_of a) (iter_of b)
  end.

(* ToName::name_eq / ToRelativeName::name_eq *)
Definition m_name_eq := name_eq_gen name_eq_flat_ignores_case.
Definition m_relname_eq := name_eq_gen relname_eq_flat_ignores_case.

(* ToName::name_cmp / ToRelativeName::name_cmp *)
Definition m_name_cmp (a b : nrepr) : outcome comparison :=
  iters_cmp_back LOOP_FUEL name_cmp_arm_none_some name_cmp_arm_some_none name_cmp_arm_none_none
                 (iter_of a) (iter_of b).
Definition m_relname_cmp (a b : nrepr) : outcome comparison :=
  iters_cmp_back LOOP_FUEL relname_cmp_arm_none_some relname_cmp_arm_some_none
                 relname_cmp_arm_none_none (iter_of a) (iter_of b).

(* ToName::composed_cmp *)
Definition m_composed_cmp (a b : nrepr) : outcome comparison :=
  do fa <- as_flat a;
  do fb <- as_flat b;
  match fa, fb with
  | Some l, Some r =>
      if composed_cmp_has_flat_path then Ok (lex_cmp l r)
      else iters_composed LOOP_FUEL m_label_composed_cmp composed_arm_none_none (iter_of a) (iter_of b)
  | _, _ => iters_composed LOOP_FUEL m_label_composed_cmp composed_arm_none_none (iter_of a) (iter_of b)
  end.

(* ToName::lowercase_composed_cmp (no flat path) *)
Definition m_lc_composed_cmp (a b : nrepr) : outcome comparison :=
  iters_composed LOOP_FUEL m_label_lc_composed_cmp lc_composed_arm_none_none (iter_of a) (iter_of b).

(* the operators ==, <, cmp, canonical_cmp of Name / RelativeName / ParsedName
   are the trait functions above (T1: <type>_ord_is_name_cmp; PartialEq,
   PartialOrd and CanonicalOrd are anchored as delegations) *)
Definition ord_via (delegates : bool) (f : nrepr -> nrepr -> outcome comparison) (a b : nrepr)
  : outcome comparison := if delegates then f a b else Err 0.
Definition m_name_ord := ord_via name_ord_is_name_cmp m_name_cmp.
Definition m_relname_ord := ord_via relname_ord_is_name_cmp m_relname_cmp.
Definition m_parsed_ord := ord_via parsed_ord_is_name_cmp m_name_cmp.

(* Hash for Name / RelativeName / ParsedName *)
Definition m_name_hash (a : nrepr) : outcome bytes := iters_hash LOOP_FUEL (iter_of a).

(* UncertainName<Octs>: Absolute(Name) | Relative(RelativeName).  == holds
   only within one variant (Name == / RelativeName ==, both flat), the Hash
   feeds the labels of whichever name it holds *)
Inductive uname := UAbs (w : bytes) | URel (w : bytes).
Definition m_uncertain_eq (a b : uname) : outcome bool :=
  match a, b with
  | UAbs x, UAbs y => if uncertain_eq_same_variant_only then m_name_eq (NFlat x) (NFlat y) else Ok false
  | URel x, URel y => if uncertain_eq_same_variant_only then m_relname_eq (NFlat x) (NFlat y) else Ok false
  | _, _ => Ok false
  end.
Definition m_uncertain_hash (a : uname) : outcome bytes :=
  match a with UAbs w | URel w => m_name_hash (NFlat w) end.

(* core::iter::Chain as std implements it: the first half is dropped (fused)
   once it has answered None; `oa = None` is that state *)
Definition fused_next (oa : option iter) (b : iter) : outcome (option (label * (option iter * iter))) :=
  match oa with
  | Some a =>
      do ra <- iter_next a;
      match ra with
      | Some (l, a') => Ok (Some (l, (Some a', b)))
      | None =>
          do rb <- iter_next b;
          match rb with Some (l, b') => Ok (Some (l, (None, b'))) | None => Ok None end
      end
  | None =>
      do rb <- iter_next b;
      match rb with Some (l, b') => Ok (Some (l, (None, b'))) | None => Ok None end
  end.

(* ---------------------------------------- ParsedName::parent / split_first

   Both walk from self.pos over compression pointers (LabelType::peek +
   seek) to the first ordinary label, then set pos behind it and reduce
   name_len.  The `compressed` flag is left alone (T1:
   parent_keeps_compressed_flag); the variant that clears it once a pointer
   was crossed is kept as `keeps = false` for the refutation. *)
Definition P_PEEK_UNWRAP : N := 25.    (* LabelType::peek(..).unwrap() / seek(..).unwrap() *)
Definition P_ROOT_UNREACHABLE : N := 26.

Fixpoint first_label (fuel : nat) (m : bytes) (cur : N) (crossed : bool) : outcome (N * N * bool) :=
  match fuel with
  | O => OutOfFuel
  | S f =>
      if mlen m - cur <? 1 then Panic P_PEEK_UNWRAP else
      match get m cur with
      | None => Panic P_INDEX
      | Some b =>
          if b <=? 63 then (if b =? 0 then Panic P_ROOT_UNREACHABLE else Ok (cur, b + 1, crossed))
          else if 192 <=? b then
            if mlen m - cur <? 2 then Panic P_PEEK_UNWRAP else
            match get m (cur + 1) with
            | None => Panic P_INDEX
            | Some c =>
                let p := c + 256 * (b mod 64) in
                if mlen m <? p then Panic P_PEEK_UNWRAP else first_label f m p true
            end
          else Panic P_PEEK_UNWRAP
      end
  end.

Definition parent_gen (keeps : bool) (m : bytes) (p : pname) : outcome (option pname) :=
  if pn_len p =? 1 then Ok None else
  do r <- first_label (S (length m)) m (pn_pos p) false;
  let '(t, len, crossed) := r in
  if pn_len p <? len then Panic P_UNDERFLOW else
  Ok (Some (mkPName (t + len) (pn_len p - len)
                    (if keeps then pn_compressed p else (if crossed then false else pn_compressed p))
                    (pn_end p))).
Definition m_parent := parent_gen parent_keeps_compressed_flag.
(* split_first leaves the same remaining name (the label it returns is not
   compared here) *)
Definition m_split_first_rest := parent_gen split_first_keeps_compressed_flag.

Fixpoint step_n (step : bytes -> pname -> outcome (option pname)) (k : nat) (m : bytes) (p : pname) : outcome pname :=
  match k with
  | O => Ok p
  | S k' => do r <- step m p; match r with Some p' => step_n step k' m p' | None => Ok p end
  end.
Definition parent_n := step_n m_parent.
Definition split_first_n := step_n m_split_first_rest.

(* ------------------------------------------------------------------ CharStr *)

Definition m_charstr_eq (a b : bytes) : bool :=
  if charstr_eq_ignores_case then eq_ci a b else bytes_eqb a b.
Definition m_charstr_cmp (a b : bytes) : comparison :=
  lex_cmp (lower_if charstr_cmp_lowers_self a) (lower_if charstr_cmp_lowers_other b).
Definition m_charstr_canonical_cmp (a b : bytes) : comparison :=
  if charstr_canonical_len_first then then_cmp (len_cmp a b) (lex_cmp a b) else lex_cmp a b.
Definition m_charstr_hash (a : bytes) : bytes := lower_if charstr_hash_lowers a.
(* wire form: length octet, content *)
Definition wire_charstr (a : bytes) : bytes := N.of_nat (length a) :: a.

(* --------------------------------------- record data: a small field schema *)

(* A value of a record data type is a list of fields; each field knows its
   canonical encoding and the comparison the code applies to it.
     FFixed e     fixed-width integer / octets: canonical_cmp = numeric / octet
                  order, encoding e big-endian of the type's width
     FName n      a name compared with lowercase_composed_cmp, encoded
                  lower-cased (RFC 4034 6.2)
     FNameRaw n   a name compared with composed_cmp, encoded as is (NSEC)
     FStr s       a <character-string>: length octet then content
     FTail t      final variable-length octets
     FStr16 s     octets preceded by a 16 bit length, compared length first *)
Inductive field :=
| FFixed (e : bytes)
| FName (n : name)
| FNameRaw (n : name)
| FStr (s : bytes)
| FTail (t : bytes)
| FStr16 (s : bytes).   (* octets preceded by a 16 bit length (TSIG MAC, other data) *)

Definition field_enc (f : field) : bytes :=
  match f with
  | FFixed e => e
  | FName n => wire_abs (canon n)
  | FNameRaw n => wire_abs n
  | FStr s => wire_charstr s
  | FTail t => t
  | FStr16 s => be16 (N.of_nat (length s)) ++ s
  end.

(* the comparison the code performs on one field; names are compared by the
   label-wise loops (pure list form, see names_composed below) *)
Fixpoint labels_composed (lc : label -> label -> comparison) (a b : list label)
  : outcome comparison :=
  match a, b with
  | [], [] => Ok Eq
  | x :: a', y :: b' =>
      match lc x y with
      | Eq => labels_composed lc a' b'
      | c => Ok c
      end
  | _, _ => Panic P_UNREACHABLE
  end.

Definition field_cmp (f g : field) : outcome comparison :=
  match f, g with
  | FFixed a, FFixed b => Ok (lex_cmp a b)
  | FName a, FName b => labels_composed m_label_lc_composed_cmp (a ++ [[]]) (b ++ [[]])
  | FNameRaw a, FNameRaw b => labels_composed m_label_composed_cmp (a ++ [[]]) (b ++ [[]])
  | FStr a, FStr b => Ok (m_charstr_canonical_cmp a b)
  | FTail a, FTail b => Ok (lex_cmp a b)
  | FStr16 a, FStr16 b => Ok (then_cmp (len_cmp a b) (lex_cmp a b))
  | _, _ => Panic P_UNREACHABLE
  end.

(* match f1.cmp(g1) { Equal => {} other => return other } ... fn.cmp(gn) *)
Fixpoint fields_cmp (a b : list field) : outcome comparison :=
  match a, b with
  | [], [] => Ok Eq
  | f :: a', g :: b' =>
      do c <- field_cmp f g;
      match c with
      | Eq => fields_cmp a' b'
      | _ => Ok c
      end
  | _, _ => Panic P_UNREACHABLE
  end.

Definition fields_enc (a : list field) : bytes := flat_map field_enc a.

(* same record type: same field kinds, fixed fields of the same width, the
   variable tail only in last position *)
Definition same_kind (f g : field) : bool :=
  match f, g with
  | FFixed a, FFixed b => (length a =? length b)%nat
  | FName _, FName _ => true
  | FNameRaw _, FNameRaw _ => true
  | FStr _, FStr _ => true
  | FTail _, FTail _ => true
  | FStr16 _, FStr16 _ => true
  | _, _ => false
  end.
Definition tail_last (f : field) (rest : list field) : bool :=
  match f, rest with
  | FTail _, _ :: _ => false
  | _, _ => true
  end.
Fixpoint same_schema (a b : list field) : bool :=
  match a, b with
  | [], [] => true
  | f :: a', g :: b' => same_kind f g && tail_last f a' && same_schema a' b'
  | _, _ => false
  end.
Definition field_ok (f : field) : Prop :=
  match f with
  | FFixed e => True
  | FName n => valid_abs n
  | FNameRaw n => valid_abs n
  | FStr s => (length s <= 255)%nat
  | FTail t => True
  | FStr16 s => N.of_nat (length s) <= 65535
  end.

(* NSEC as coded: next_name.composed_cmp, then `self.types.cmp(&X.types)`
   where X is read from the source (T1): `other` or - today - `self`. *)
Definition nsec_canonical_cmp_gen (vs_other : bool) (n1 : name) (t1 : bytes) (n2 : name) (t2 : bytes)
  : outcome comparison :=
  do c <- field_cmp (FNameRaw n1) (FNameRaw n2);
  match c with
  | Eq => Ok (lex_cmp t1 (if vs_other then t2 else t1))
  | _ => Ok c
  end.
Definition m_nsec_canonical_cmp := nsec_canonical_cmp_gen nsec_canonical_types_vs_other.

(* SVCB / HTTPS as coded: priority.cmp, then the target with `name_cmp`
   (today) or `composed_cmp` (T1 reads which), then the params octets.  The
   canonical form is the plain form: priority, target as is, params. *)
Definition svcb_canonical_cmp_gen (composed : bool) (p1 : N) (t1 : name) (par1 : bytes)
           (p2 : N) (t2 : name) (par2 : bytes) : outcome comparison :=
  match p1 ?= p2 with
  | Eq =>
      do c <- (if composed then field_cmp (FNameRaw t1) (FNameRaw t2) else Ok (name_cmp t1 t2));
      match c with
      | Eq => Ok (lex_cmp par1 par2)
      | _ => Ok c
      end
  | c => Ok c
  end.
Definition m_svcb_canonical_cmp := svcb_canonical_cmp_gen svcb_canonical_target_composed.
Definition svcb_enc (p : N) (t : name) (par : bytes) : bytes := be16 p ++ wire_abs t ++ par.

(* IPSECKEY with a name gateway (gateway type 3) as coded: precedence,
   gateway_type, algorithm (u8 each), then the gateway name with `name_cmp`
   (IpseckeyGateway::partial_cmp, today) or `composed_cmp` (T1 reads which),
   then the key octets.  The canonical form is the plain form. *)
Definition P_TODO : N := 24.          (* Hash for IpseckeyGateway::None: todo!() *)
Definition prefixed_name_cmp_gen (composed : bool) (pre1 : bytes) (t1 : name) (tail1 : bytes)
           (pre2 : bytes) (t2 : name) (tail2 : bytes) : outcome comparison :=
  match lex_cmp pre1 pre2 with
  | Eq =>
      do c <- (if composed then field_cmp (FNameRaw t1) (FNameRaw t2) else Ok (name_cmp t1 t2));
      match c with
      | Eq => Ok (lex_cmp tail1 tail2)
      | _ => Ok c
      end
  | c => Ok c
  end.
Definition m_ipseckey_name_canonical_cmp (prec1 alg1 : N) (gw1 : name) (key1 : bytes)
           (prec2 alg2 : N) (gw2 : name) (key2 : bytes) : outcome comparison :=
  prefixed_name_cmp_gen ipseckey_gateway_name_composed [prec1; 3; alg1] gw1 key1 [prec2; 3; alg2] gw2 key2.
(* Hash for IpseckeyGateway: nothing for None (or todo!()), else the value *)
Definition ipseckey_gateway_hash_gen (none_panics : bool) (gw : option bytes) : outcome bytes :=
  match gw with
  | None => if none_panics then Panic P_TODO else Ok []
  | Some feed => Ok feed
  end.
Definition m_ipseckey_gateway_hash := ipseckey_gateway_hash_gen ipseckey_hash_none_panics.

(* UnknownRecordData inside ZoneRecordData::Unknown: == looks at the data
   (and at the type only if T1 finds that comparison); the Hash impl of
   ZoneRecordData feeds the type and the data *)
Definition unknown_eq_gen (with_rtype : bool) (r1 : N) (d1 : bytes) (r2 : N) (d2 : bytes) : bool :=
  (if with_rtype then r1 =? r2 else true) && bytes_eqb d1 d2.
Definition m_unknown_eq := unknown_eq_gen unknown_eq_compares_rtype.
Definition unknown_canonical_cmp_gen (with_rtype : bool) (r1 : N) (d1 : bytes) (r2 : N) (d2 : bytes)
  : comparison :=
  if with_rtype then then_cmp (r1 ?= r2) (lex_cmp d1 d2) else lex_cmp d1 d2.
Definition m_unknown_canonical_cmp := unknown_canonical_cmp_gen unknown_canonical_compares_rtype.
(* u16 and usize are written in native byte order by the default Hasher
   methods; modelled as the list [rtype; length; data...] of numbers *)
Definition m_zone_unknown_hash (r : N) (d : bytes) : list N :=
  (if zone_unknown_hash_feeds_rtype then [r] else []) ++ N.of_nat (length d) :: d.

(* AllRecordData::eq on two Unknown (or two Opt) values: the inner equality
   if the match has an arm for the variant, else the fallback `(_, _) => false` *)
Definition all_eq_gen (has_arm : bool) (inner_eq : bool) : bool := if has_arm then inner_eq else false.
Definition m_all_unknown_eq (r1 : N) (d1 : bytes) (r2 : N) (d2 : bytes) : bool :=
  all_eq_gen all_record_data_eq_has_unknown_arm (m_unknown_eq r1 d1 r2 d2).
Definition m_all_opt_eq (d1 d2 : bytes) : bool :=
  all_eq_gen all_record_data_eq_has_opt_arm (bytes_eqb d1 d2).

(* ------------------------------------------------------------------ records *)

(* Record<N, D> and RecordHeader<N> as functions from field codes
   (owner=1 class=2 ttl=3 data=4 rtype=5 rdlen=6) to components.  A component
   carries its equality key, its hash feed and its order key abstractly. *)
Record comp := mkComp {
  c_eq : bytes;      (* two components are == iff these are equal *)
  c_feed : bytes     (* octets handed to the Hasher *)
}.
Definition rec := N -> comp.

Definition fields_eq (fs : list N) (a b : rec) : bool :=
  forallb (fun f => bytes_eqb (c_eq (a f)) (c_eq (b f))) fs.
Definition fields_hash (fs : list N) (a : rec) : bytes :=
  flat_map (fun f => c_feed (a f)) fs.

Definition m_record_eq := fields_eq record_eq_fields.
Definition m_record_hash := fields_hash record_hash_fields.
Definition m_header_eq := fields_eq header_eq_fields.
Definition m_header_hash := fields_hash header_hash_fields.

(* Record::canonical_cmp: the chain over record_canonical_fields with the
   per-field comparison: class u16, owner name_cmp, rtype u16, data
   canonical_cmp (given by its canonical encoding, proved equal above) *)
Record crec := mkCrec {
  r_owner : name; r_class : N; r_ttl : N; r_rtype : N; r_rdata : bytes (* canonical RDATA *)
}.
Definition crec_field_cmp (f : N) (a b : crec) : comparison :=
  if f =? 1 then name_cmp (r_owner a) (r_owner b)
  else if f =? 2 then r_class a ?= r_class b
  else if f =? 3 then r_ttl a ?= r_ttl b
  else if f =? 5 then r_rtype a ?= r_rtype b
  else lex_cmp (r_rdata a) (r_rdata b).
Fixpoint chain_cmp (fs : list N) (a b : crec) : comparison :=
  match fs with
  | [] => Eq
  | f :: fs' => then_cmp (crec_field_cmp f a b) (chain_cmp fs' a b)
  end.
Definition m_record_canonical_cmp := chain_cmp record_canonical_fields.

(* PartialOrd written apart from Ord (ZONEMD serial, RRSIG timestamps, NSEC3
   salt / next owner): a 32 bit field compared either as an integer or in
   serial number arithmetic (Serial::partial_cmp, model from C17), a length
   prefixed piece either length first or as plain octets.  Which one is read
   from the source (T1). *)
Definition u32_partial_gen (serial_arith : bool) (a b : N) : option comparison :=
  if serial_arith then match serial_partial_cmp a b with Ok r => r | _ => None end
  else Some (a ?= b).
Definition pfx_partial_gen (len_first : bool) (a b : bytes) : option comparison :=
  Some (if len_first then then_cmp (len_cmp a b) (lex_cmp a b) else lex_cmp a b).
Definition m_zonemd_serial_partial := u32_partial_gen zonemd_partial_serial_arith.
Definition m_rrsig_time_partial := u32_partial_gen rrsig_partial_serial_arith.
Definition m_nsec3_salt_partial := pfx_partial_gen nsec3_partial_len_first.

(* RecordHeader<N>: Eq / Ord over header_eq_fields / header_cmp_fields
   (owner=1 with name_eq / name_cmp, rtype=5, class=2, ttl=3, rdlen=6) *)
Record hdr := mkHdr { h_owner : name; h_rtype : N; h_class : N; h_ttl : N; h_rdlen : N }.
Definition hdr_num (f : N) (h : hdr) : N :=
  if f =? 2 then h_class h else if f =? 3 then h_ttl h else if f =? 5 then h_rtype h else h_rdlen h.
Definition hdr_field_cmp (f : N) (a b : hdr) : comparison :=
  if f =? 1 then name_cmp (h_owner a) (h_owner b) else hdr_num f a ?= hdr_num f b.
Definition hdr_field_eq (f : N) (a b : hdr) : bool :=
  if f =? 1 then name_eqb (h_owner a) (h_owner b) else hdr_num f a =? hdr_num f b.
Fixpoint hdr_chain (fs : list N) (a b : hdr) : comparison :=
  match fs with
  | [] => Eq
  | f :: fs' => then_cmp (hdr_field_cmp f a b) (hdr_chain fs' a b)
  end.
Definition m_header_cmp := hdr_chain header_cmp_fields.
Definition m_header_eqb (a b : hdr) : bool := forallb (fun f => hdr_field_eq f a b) header_eq_fields.
(* ParsedRecord ==: the headers and the raw RDATA octets *)
Definition m_parsed_record_eq (a : hdr) (da : bytes) (b : hdr) (db : bytes) : bool :=
  m_header_eqb a b && bytes_eqb da db.

(* ----------------------------------------- typed record data values (T1 table)

   rd_table (C04/Gen.v) lists, for each record type read from the source, the
   kinds of its struct fields and the field lists (indices in declaration
   order) of its PartialEq, Ord, CanonicalOrd and Hash impls.  A value of such
   a type is the list of its field values; ==, canonical_cmp and the Hash feed
   are generic in the table.
   kinds: 1 u8, 2 u16, 3 u32 (and integer newtypes of that width), 4 name
   lower-cased in canonical form, 5 name kept as is, 6 CharStr, 7 octets,
   8 octets carrying a length octet in wire form, 9 type bitmap octets;
   outside the table: 10 IPv4 address, 11 IPv6 address, 12 48 bit integer,
   13 octets carrying a 16 bit length in wire form.
   What a Hasher receives is a list of tokens: write_u8 / write_u16 /
   write_u32 / write_usize calls and raw `write` calls. *)
Inductive tok := TB (v : N) | TW (v : N) | TD (v : N) | TQ (v : N) | TN (v : N) | TR (b : bytes).

(* exactly n octets (addresses) *)
Definition pad (n : nat) (w : bytes) : bytes := firstn n (w ++ repeat 0 n).
(* u32::from_ne_bytes (Ipv4Addr's Hash in std); the host byte order is read
   from `rustc --print cfg` by T1 (host_little_endian) *)
Definition le32 (w : bytes) : N :=
  match w with
  | [a; b; c; d] => if host_little_endian then a + 256 * (b + 256 * (c + 256 * d))
                    else d + 256 * (c + 256 * (b + 256 * a))
  | _ => 0
  end.

(* std: u8::to_ascii_lowercase is `self | (is_ascii_uppercase as u8) x ASCII_CASE_MASK`
   with ASCII_CASE_MASK = 0b0010_0000 and is_ascii_uppercase = 'A' ..= 'Z' *)
Definition std_to_ascii_lowercase (b : N) : N :=
  N.lor b ((if (65 <=? b) && (b <=? 90) then 1 else 0) * 32).
Definition be48 (n : N) : bytes := be16 (n / 4294967296) ++ be32 (n mod 4294967296).

Inductive fval :=
| VU8 (v : N) | VU16 (v : N) | VU32 (v : N)
| VNameLc (n : name) | VNameRaw (n : name)
| VStr (s : bytes) | VOcts (t : bytes) | VPfx (s : bytes) | VBitmap (t : bytes)
| VAddr4 (w : bytes) | VAddr16 (w : bytes) | VU48 (v : N) | VOcts16 (s : bytes).

Definition fv_kind (v : fval) : N :=
  match v with
  | VU8 _ => 1 | VU16 _ => 2 | VU32 _ => 3 | VNameLc _ => 4 | VNameRaw _ => 5
  | VStr _ => 6 | VOcts _ => 7 | VPfx _ => 8 | VBitmap _ => 9
  | VAddr4 _ => 10 | VAddr16 _ => 11 | VU48 _ => 12 | VOcts16 _ => 13
  end.

(* the canonical schema field of a value *)
Definition fv_field (v : fval) : field :=
  match v with
  | VU8 x => FFixed [x] | VU16 x => FFixed (be16 x) | VU32 x => FFixed (be32 x)
  | VNameLc n => FName n | VNameRaw n => FNameRaw n
  | VStr s => FStr s | VPfx s => FStr s
  | VOcts t => FTail t | VBitmap t => FTail t
  | VAddr4 w => FFixed (pad 4 w) | VAddr16 w => FFixed (pad 16 w)
  | VU48 x => FFixed (be48 x) | VOcts16 t => FStr16 t
  end.

(* ==: integers, name_eq, CharStr ==, octets *)
Definition fv_eq (a b : fval) : bool :=
  match a, b with
  | VU8 x, VU8 y | VU16 x, VU16 y | VU32 x, VU32 y => x =? y
  | VNameLc x, VNameLc y | VNameRaw x, VNameRaw y => name_eqb x y
  | VStr x, VStr y => m_charstr_eq x y
  | VOcts x, VOcts y | VPfx x, VPfx y | VBitmap x, VBitmap y | VOcts16 x, VOcts16 y => bytes_eqb x y
  | VAddr4 x, VAddr4 y => bytes_eqb (pad 4 x) (pad 4 y)
  | VAddr16 x, VAddr16 y => bytes_eqb (pad 16 x) (pad 16 y)
  | VU48 x, VU48 y => x =? y
  | _, _ => false
  end.

(* Hash: integers by their width, names label by label (Label::hash), CharStr
   its lower-cased octets one by one, octets as a slice (length, then data) *)
Definition fv_hash (v : fval) : list tok :=
  match v with
  | VU8 x => [TB x] | VU16 x => [TW x] | VU32 x => [TD x]
  | VNameLc n | VNameRaw n => map TB (name_hash_feed n)
  | VStr s => map TB (m_charstr_hash s)
  | VOcts t | VPfx t | VBitmap t | VOcts16 t => [TN (N.of_nat (length t)); TR t]
  | VAddr4 w => [TD (le32 (pad 4 w))]
  | VAddr16 w => [TR (pad 16 w)]
  | VU48 x => [TQ x]
  end.

Definition pick (idx : list N) (vs : list fval) : list fval :=
  flat_map (fun i => match nth_error vs (N.to_nat i) with Some v => [v] | None => [] end) idx.

Fixpoint all2 (f : fval -> fval -> bool) (a b : list fval) : bool :=
  match a, b with
  | [], [] => true
  | x :: a', y :: b' => f x y && all2 f a' b'
  | _, _ => false
  end.

Definition rd_eq (e : list N) (a b : list fval) : bool := all2 fv_eq (pick e a) (pick e b).
(* ZoneRecordData::hash: the type, then the data *)
Definition rd_hash (rtype : N) (h : list N) (a : list fval) : list tok :=
  TW rtype :: flat_map fv_hash (pick h a).
Definition rd_canonical_cmp (cc : list N) (a b : list fval) : outcome comparison :=
  fields_cmp (map fv_field (pick cc a)) (map fv_field (pick cc b)).
Definition rd_enc (a : list fval) : bytes := fields_enc (map fv_field a).

(* one comparison step of an Ord / PartialOrd / CanonicalOrd impl, by the mode
   T1 assigns to it (rd_ord_table): 1 integers, 2 serial number arithmetic,
   3 name_cmp, 4 lowercase_composed_cmp, 5 composed_cmp, 6 CharStr cmp,
   7 length first then octets, 8 plain octets.  None: no ordering. *)
Definition fv_num (v : fval) : option N :=
  match v with VU8 x | VU16 x | VU32 x | VU48 x => Some x | _ => None end.
Definition fv_name (v : fval) : option name :=
  match v with VNameLc n | VNameRaw n => Some n | _ => None end.
Definition fv_octs (v : fval) : option bytes :=
  match v with
  | VStr s | VOcts s | VPfx s | VBitmap s | VOcts16 s => Some s
  | VAddr4 w => Some (pad 4 w) | VAddr16 w => Some (pad 16 w)
  | _ => None
  end.
Definition step_cmp (mode : N) (a b : fval) : option comparison :=
  if mode =? 1 then match fv_num a, fv_num b with Some x, Some y => Some (x ?= y) | _, _ => None end
  else if mode =? 2 then match fv_num a, fv_num b with Some x, Some y => u32_partial_gen true x y | _, _ => None end
  else if mode =? 3 then match fv_name a, fv_name b with Some x, Some y => Some (name_cmp x y) | _, _ => None end
  else if mode =? 4 then match fv_name a, fv_name b with
                         | Some x, Some y => Some (lex_cmp (wire_abs (canon x)) (wire_abs (canon y))) | _, _ => None end
  else if mode =? 5 then match fv_name a, fv_name b with
                         | Some x, Some y => Some (lex_cmp (wire_abs x) (wire_abs y)) | _, _ => None end
  else if mode =? 6 then match fv_octs a, fv_octs b with Some x, Some y => Some (m_charstr_cmp x y) | _, _ => None end
  else if mode =? 7 then match fv_octs a, fv_octs b with
                         | Some x, Some y => Some (then_cmp (len_cmp x y) (lex_cmp x y)) | _, _ => None end
  else if mode =? 8 then match fv_octs a, fv_octs b with Some x, Some y => Some (lex_cmp x y) | _, _ => None end
  else None.
(* match s1 { Equal => {} other => return other } ... *)
Fixpoint chain_opt (steps : list (N * N)) (a b : list fval) : option comparison :=
  match steps with
  | [] => Some Eq
  | (i, mode) :: rest =>
      match nth_error a (N.to_nat i), nth_error b (N.to_nat i) with
      | Some x, Some y =>
          match step_cmp mode x y with
          | Some Eq => chain_opt rest a b
          | r => r
          end
      | _, _ => None
      end
  end.
Definition ord_row := (list (N * N) * list (N * N) * list (N * N))%type.
Fixpoint ord_lookup (t : list (N * ord_row)) (code : N) : option ord_row :=
  match t with
  | [] => None
  | (c, r) :: t' => if c =? code then Some r else ord_lookup t' code
  end.
Definition orow_ord (r : ord_row) := let '(o, _, _) := r in o.
Definition orow_partial (r : ord_row) := let '(_, p, _) := r in p.
Definition orow_canonical (r : ord_row) := let '(_, _, c) := r in c.
Definition c04_rd_cmp (code : N) (a b : list fval) : option comparison :=
  match ord_lookup rd_ord_table code with Some r => chain_opt (orow_ord r) a b | None => None end.
Definition c04_rd_partial (code : N) (a b : list fval) : option comparison :=
  match ord_lookup rd_ord_table code with Some r => chain_opt (orow_partial r) a b | None => None end.
Definition c04_rd_ccmp_steps (code : N) (a b : list fval) : option comparison :=
  match ord_lookup rd_ord_table code with Some r => chain_opt (orow_canonical r) a b | None => None end.
(* values outside the table (A, AAAA, TXT, SVCB, IPSECKEY, TSIG, OPT): the
   Hash impls feed every field in order, after the type *)
Definition c04_rdh (code : N) (a : list fval) : list tok := TW code :: flat_map fv_hash a.

(* Record<Name, Data> with typed data: Eq / Ord / PartialOrd as chains over the
   T1 field lists (owner=1 via Name's operators, class=2, data=4) *)
Definition rec_eq_step (f : N) (oa ob : name) (ca cb : N) (deq : bool) : bool :=
  if f =? 1 then name_eqb oa ob else if f =? 2 then ca =? cb else if f =? 4 then deq else true.
Definition rec_cmp_step (f : N) (oa ob : name) (ca cb : N) (dcmp : option comparison) : option comparison :=
  if f =? 1 then Some (name_cmp oa ob) else if f =? 2 then Some (ca ?= cb) else if f =? 4 then dcmp else None.
Fixpoint rec_chain (fs : list N) (oa ob : name) (ca cb : N) (dcmp : option comparison) : option comparison :=
  match fs with
  | [] => Some Eq
  | f :: fs' => match rec_cmp_step f oa ob ca cb dcmp with
                | Some Eq => rec_chain fs' oa ob ca cb dcmp
                | r => r
                end
  end.

Definition rd_row := (list N * (list N * list N * list N * list N))%type.
Fixpoint rd_lookup (t : list (N * rd_row)) (code : N) : option rd_row :=
  match t with
  | [] => None
  | (c, r) :: t' => if c =? code then Some r else rd_lookup t' code
  end.
Definition row_kinds (r : rd_row) : list N := fst r.
Definition row_eq (r : rd_row) : list N := let '(_, (e, _, _, _)) := r in e.
Definition row_cmp (r : rd_row) : list N := let '(_, (_, c, _, _)) := r in c.
Definition row_canonical (r : rd_row) : list N := let '(_, (_, _, cc, _)) := r in cc.
Definition row_hash (r : rd_row) : list N := let '(_, (_, _, _, h)) := r in h.

(* ------------------------------------------- entry points for the T2 driver *)
Definition c04_parsed_record_eq := m_parsed_record_eq.
Definition c04_header_cmp := m_header_cmp.
Definition c04_uncertain_eq := m_uncertain_eq.
Definition c04_uncertain_hash := m_uncertain_hash.
Definition c04_zonemd_partial := m_zonemd_serial_partial.
Definition c04_rrsig_partial := m_rrsig_time_partial.
Definition c04_nsec3_partial := m_nsec3_salt_partial.
Definition c04_header_eq := m_header_eqb.
Definition c04_rd_kinds (code : N) : list N :=
  match rd_lookup rd_table code with Some r => row_kinds r | None => [] end.
Definition c04_rd_eq (code : N) (a b : list fval) : option bool :=
  match rd_lookup rd_table code with Some r => Some (rd_eq (row_eq r) a b) | None => None end.
(* IPSECKEY rows are per gateway variant under the pseudo codes 45000 + gateway type *)
Definition rtype_of (code : N) : N := if (45000 <=? code) && (code <=? 45003) then 45 else code.
Definition c04_rd_hash (code : N) (a : list fval) : list tok :=
  match rd_lookup rd_table code with Some r => rd_hash (rtype_of code) (row_hash r) a | None => [] end.
Definition c04_record_eq (code : N) (oa : name) (ca : N) (a : list fval) (ob : name) (cb : N) (b : list fval) : bool :=
  forallb (fun f => rec_eq_step f oa ob ca cb (match c04_rd_eq code a b with Some e => e | None => false end)) record_eq_fields.
Definition c04_record_cmp (code : N) (oa : name) (ca : N) (a : list fval) (ob : name) (cb : N) (b : list fval) :=
  rec_chain record_cmp_fields oa ob ca cb (c04_rd_cmp code a b).
Definition c04_record_partial (code : N) (oa : name) (ca : N) (a : list fval) (ob : name) (cb : N) (b : list fval) :=
  rec_chain record_partial_fields oa ob ca cb (c04_rd_partial code a b).
Definition c04_rd_ccmp (code : N) (a b : list fval) : outcome comparison :=
  match rd_lookup rd_table code with Some r => rd_canonical_cmp (row_canonical r) a b | None => Err 0 end.
Definition c04_lower (b : N) : N := lower b.
Definition c04_std_lower (b : N) : N := std_to_ascii_lowercase b.
Definition c04_label_eq := m_label_eq.
Definition c04_label_cmp := m_label_cmp.
Definition c04_label_hash := m_label_hash.
Definition c04_label_composed := m_label_composed_cmp.
Definition c04_label_lc_composed := m_label_lc_composed_cmp.
(* names given by their uncompressed wire form *)
Definition c04_name_eq (a b : bytes) := m_name_eq (NFlat a) (NFlat b).
Definition c04_name_eq_iter (a b : bytes) := iters_eq LOOP_FUEL (IFlat a) (IFlat b).
Definition c04_name_cmp (a b : bytes) := m_name_cmp (NFlat a) (NFlat b).
Definition c04_name_hash (a : bytes) := m_name_hash (NFlat a).
(* Name::from_octets accepts exactly what Base/Names.decode_abs decodes without rest *)
Definition c04_accepts (w : bytes) : bool :=
  match decode_abs w with inl (Some (_, [])) => true | _ => false end.
Definition c04_name_ord (a b : bytes) := m_name_ord (NFlat a) (NFlat b).
Definition c04_relname_eq (a b : bytes) := m_relname_eq (NFlat a) (NFlat b).
Definition c04_relname_ord (a b : bytes) := m_relname_ord (NFlat a) (NFlat b).
Definition c04_composed (a b : bytes) := m_composed_cmp (NFlat a) (NFlat b).
Definition c04_composed_iter (a b : bytes) :=
  iters_composed LOOP_FUEL m_label_composed_cmp composed_arm_none_none (IFlat a) (IFlat b).
Definition c04_lc_composed (a b : bytes) := m_lc_composed_cmp (NFlat a) (NFlat b).
(* a name parsed at `pos` in message `m`, compared with a flat name *)
Definition c04_parsed (m : bytes) (pos : N) : outcome nrepr :=
  do p <- parse_ref m pos (mlen m); Ok (NParsed m p).
Definition c04_parsed_eq (m : bytes) (pos : N) (b : bytes) :=
  do r <- c04_parsed m pos; m_name_eq r (NFlat b).
Definition c04_parsed_cmp (m : bytes) (pos : N) (b : bytes) :=
  do r <- c04_parsed m pos; m_name_cmp r (NFlat b).
Definition c04_parsed_hash (m : bytes) (pos : N) :=
  do r <- c04_parsed m pos; m_name_hash r.
(* the name parsed at pos, reduced k times by parent(), against a flat name:
   name_eq, name_cmp, composed_cmp, lowercase_composed_cmp, then the hash feed *)
Definition c04_parsed_suffix_gen (stepn : nat -> bytes -> pname -> outcome pname) (m : bytes) (pos : N) (k : nat) (b : bytes)
  : outcome (bool * comparison * comparison * comparison * bytes) :=
  do p <- parse_ref m pos (mlen m);
  do q <- stepn k m p;
  let r := NParsed m q in
  do e <- m_name_eq r (NFlat b);
  do c <- m_name_cmp r (NFlat b);
  do cc <- m_composed_cmp r (NFlat b);
  do lc <- m_lc_composed_cmp r (NFlat b);
  do h <- m_name_hash r;
  Ok (e, c, cc, lc, h).
Definition c04_parsed_suffix := c04_parsed_suffix_gen parent_n.
Definition c04_parsed_suffix_split := c04_parsed_suffix_gen split_first_n.
(* a chain of a relative and an absolute flat name against a flat name *)
Definition c04_chain_eq (l r b : bytes) := m_name_eq (NChain (NFlat l) (NFlat r)) (NFlat b).
Definition c04_chain_cmp (l r b : bytes) := m_name_cmp (NChain (NFlat l) (NFlat r)) (NFlat b).
Definition c04_chain_lc (l r b : bytes) := m_lc_composed_cmp (NChain (NFlat l) (NFlat r)) (NFlat b).
Definition c04_charstr_eq := m_charstr_eq.
Definition c04_charstr_cmp := m_charstr_cmp.
Definition c04_charstr_ccmp := m_charstr_canonical_cmp.
Definition c04_charstr_hash := m_charstr_hash.
Definition c04_nsec_ccmp := m_nsec_canonical_cmp.
Definition c04_record_ccmp := m_record_canonical_cmp.
Definition c04_svcb_ccmp := m_svcb_canonical_cmp.
Definition c04_unknown_eq := m_unknown_eq.
Definition c04_unknown_ccmp := m_unknown_canonical_cmp.
Definition c04_ipseckey_ccmp := m_ipseckey_name_canonical_cmp.
Definition c04_ipseckey_none_hash := m_ipseckey_gateway_hash None.
Definition c04_all_unknown_eq := m_all_unknown_eq.
Definition c04_all_opt_eq := m_all_opt_eq.
(* Hash of RecordHeader<Name> and of Record<Name, Data> as Hasher calls, over
   the T1 field lists: owner label by label, rtype / class / rdlen u16, ttl u32 *)
Definition hdr_toks (f : N) (h : hdr) : list tok :=
  if f =? 1 then map TB (name_hash_feed (h_owner h))
  else if f =? 3 then [TD (h_ttl h)] else [TW (hdr_num f h)].
Definition c04_header_hash (h : hdr) : list tok := flat_map (fun f => hdr_toks f h) header_hash_fields.
Definition c04_record_hash (code : N) (owner : name) (class : N) (a : list fval) : list tok :=
  flat_map (fun f => if f =? 1 then map TB (name_hash_feed owner) else if f =? 2 then [TW class]
                     else if f =? 4 then c04_rd_hash code a else [TN 0]) record_hash_fields.
