(* C04 proofs, part 11: the Ord / PartialOrd / CanonicalOrd arms of every
   record type of the T1 tables (rd_table: struct kinds; rd_ord_table: the
   comparison mode of every step of the three impls).

     rd_ord_table_ok   by computation over the tables read from the source:
                       PartialOrd has the same steps as Ord, no step uses serial
                       number arithmetic, every step fits its field's kind and
                       its ==, CanonicalOrd uses the canonical mode of the kind
     rd_partial_is_cmp partial_cmp a b = Some (cmp a b) for every table type
     rd_cmp_eq_iff     cmp a b = Equal  <->  a == b
   A new type (or an edit) whose partial_cmp compares a Serial / Timestamp in
   serial arithmetic, a name in another order than Ord, or a salt without the
   length makes rd_ord_table_ok fail. *)
From Coq Require Import NArith Arith List Bool Lia ZArith.
From Coq Require Import ZifyN ZifyBool ZifyNat.
From DV Require Import Base.Outcome Base.Bytes Base.Lex Base.Names Base.PName C17.Model C04.Gen C04.Model
  C04.ProofsLabel C04.ProofsIter C04.ProofsData C04.ProofsTyped.
Import ListNotations.
Local Open Scope N_scope.

(* modes that order a field of kind k in a way compatible with its == *)
Definition mode_ok (k mode : N) : bool :=
  if (k =? 1) || (k =? 2) || (k =? 3) then mode =? 1
  else if (k =? 4) || (k =? 5) then (mode =? 3) || (mode =? 4)
  else if k =? 6 then mode =? 6
  else if (k =? 7) || (k =? 9) then mode =? 8
  else if (k =? 8) || (k =? 13) then (mode =? 7) || (mode =? 8)
  else if (k =? 10) || (k =? 11) then mode =? 8
  else if k =? 12 then mode =? 1
  else false.
(* the mode CanonicalOrd must use: the octet order of the canonical encoding *)
Definition canonical_mode (k : N) : N :=
  if (k =? 1) || (k =? 2) || (k =? 3) then 1 else if k =? 4 then 4 else if k =? 5 then 5
  else if (k =? 6) || (k =? 8) || (k =? 13) then 7 else if k =? 12 then 1 else 8.

Fixpoint steps_eqb (a b : list (N * N)) : bool :=
  match a, b with
  | [], [] => true
  | (i, m) :: a', (j, n) :: b' => (i =? j) && (m =? n) && steps_eqb a' b'
  | _, _ => false
  end.

Definition orow_ok (kinds : list N) (r : ord_row) : bool :=
  let n := iota (length kinds) in
  steps_eqb (orow_partial r) (orow_ord r) &&
  nlist_eqb (map fst (orow_ord r)) n && nlist_eqb (map fst (orow_canonical r)) n &&
  nlist_eqb (map snd (orow_canonical r)) (map canonical_mode kinds) &&
  forallb (fun km => mode_ok (fst km) (snd km)) (combine kinds (map snd (orow_ord r))).

Lemma rd_ord_table_ok :
  nlist_eqb (map fst rd_ord_table) (map fst rd_table) = true /\
  forallb (fun cr => match rd_lookup rd_table (fst cr) with
                     | Some r => orow_ok (row_kinds r) (snd cr)
                     | None => false
                     end) rd_ord_table = true.
Proof. split; vm_compute; reflexivity. Qed.

Lemma steps_eqb_eq a b : steps_eqb a b = true -> a = b.
Proof.
  revert b; induction a as [|[i m] a IH]; intros [|[j n] b] H; cbn in H; try discriminate; [reflexivity|].
  apply andb_true_iff in H as [H H3]. apply andb_true_iff in H as [H1 H2].
  apply N.eqb_eq in H1, H2. subst. f_equal. apply IH. exact H3.
Qed.

Lemma ord_lookup_in t code r : ord_lookup t code = Some r -> In (code, r) t.
Proof.
  induction t as [|[c r'] t IH]; cbn [ord_lookup]; [discriminate|].
  destruct (N.eqb_spec c code) as [->|_]; intros H; [inversion H; subst; left; reflexivity|right; auto].
Qed.

Lemma ord_lookup_ok code r : ord_lookup rd_ord_table code = Some r ->
  exists row, rd_lookup rd_table code = Some row /\ orow_ok (row_kinds row) r = true.
Proof.
  intros H. apply ord_lookup_in in H. destruct rd_ord_table_ok as [_ T]. rewrite forallb_forall in T.
  specialize (T _ H). cbn [fst snd] in T. destruct (rd_lookup rd_table code) as [row|]; [|discriminate].
  exists row. auto.
Qed.

(* partial_cmp is Some (cmp) for every type of the table *)
Theorem rd_partial_is_cmp code a b : c04_rd_partial code a b = c04_rd_cmp code a b.
Proof.
  unfold c04_rd_partial, c04_rd_cmp. destruct (ord_lookup rd_ord_table code) as [r|] eqn:L; [|reflexivity].
  destruct (ord_lookup_ok _ _ L) as [row [_ K]]. unfold orow_ok in K.
  repeat (apply andb_true_iff in K as [K ?]). apply steps_eqb_eq in K. rewrite K. reflexivity.
Qed.

(* ---- one step *)

Lemma mode_ok_cases k mode : mode_ok k mode = true ->
  ((k = 1 \/ k = 2 \/ k = 3) /\ mode = 1) \/ ((k = 4 \/ k = 5) /\ (mode = 3 \/ mode = 4)) \/
  (k = 6 /\ mode = 6) \/ ((k = 7 \/ k = 9) /\ mode = 8) \/ ((k = 8 \/ k = 13) /\ (mode = 7 \/ mode = 8)) \/
  ((k = 10 \/ k = 11) /\ mode = 8) \/ (k = 12 /\ mode = 1).
Proof.
  unfold mode_ok.
  destruct (N.eqb_spec k 1); [intros H; apply N.eqb_eq in H; auto 12|].
  destruct (N.eqb_spec k 2); [intros H; apply N.eqb_eq in H; auto 12|].
  destruct (N.eqb_spec k 3); [intros H; apply N.eqb_eq in H; auto 12|]. cbn [orb].
  destruct (N.eqb_spec k 4); [intros H; apply orb_true_iff in H as [H|H]; apply N.eqb_eq in H; auto 12|].
  destruct (N.eqb_spec k 5); [intros H; apply orb_true_iff in H as [H|H]; apply N.eqb_eq in H; auto 12|]. cbn [orb].
  destruct (N.eqb_spec k 6); [intros H; apply N.eqb_eq in H; auto 12|].
  destruct (N.eqb_spec k 7); [intros H; apply N.eqb_eq in H; auto 12|].
  destruct (N.eqb_spec k 9); [intros H; apply N.eqb_eq in H; auto 12|]. cbn [orb].
  destruct (N.eqb_spec k 8); [intros H; apply orb_true_iff in H as [H|H]; apply N.eqb_eq in H; auto 12|].
  destruct (N.eqb_spec k 13); [intros H; apply orb_true_iff in H as [H|H]; apply N.eqb_eq in H; auto 12|]. cbn [orb].
  destruct (N.eqb_spec k 10); [intros H; apply N.eqb_eq in H; auto 12|].
  destruct (N.eqb_spec k 11); [intros H; apply N.eqb_eq in H; auto 12|]. cbn [orb].
  destruct (N.eqb_spec k 12); [intros H; apply N.eqb_eq in H; auto 12|].
  discriminate.
Qed.

Lemma lenfirst_eq x y : then_cmp (len_cmp x y) (lex_cmp x y) = Eq <-> x = y.
Proof.
  rewrite <- m_charstr_canonical_unfold, charstr_canonical_bytewise, lex_cmp_eq. unfold wire_charstr.
  split; [intros H; injection H; auto|intros ->; reflexivity].
Qed.

(* a step with an admissible mode orders the two values, and says Equal
   exactly when the fields are == *)
Lemma step_cmp_spec mode x y : mode_ok (fv_kind x) mode = true -> fv_kind y = fv_kind x ->
  fv_ok x -> fv_ok y ->
  exists c, step_cmp mode x y = Some c /\ (c = Eq <-> fv_eq x y = true).
Proof.
  intros M K Ox Oy. apply mode_ok_cases in M.
  destruct x; destruct y; cbn [fv_kind] in K; try discriminate K; cbn [fv_kind] in M;
    repeat (destruct M as [M|M]); destruct M as [Mk Mm];
    try (destruct Mk as [Mk|[Mk|Mk]]; discriminate Mk); try (destruct Mk as [Mk|Mk]; discriminate Mk); try discriminate Mk;
    try (destruct Mm as [Mm|Mm]); subst mode; cbn [step_cmp N.eqb Pos.eqb fv_num fv_name fv_octs fv_eq];
    eexists; (split; [reflexivity|]);
    try (rewrite N.compare_eq_iff, N.eqb_eq; reflexivity);
    try (apply name_cmp_eq_iff);
    try (rewrite lex_cmp_eq, bytes_eqb_eq; reflexivity);
    try (rewrite lenfirst_eq, bytes_eqb_eq; reflexivity);
    try (apply charstr_cmp_eq_iff).
  - (* lower-cased name, lowercase_composed order *)
    cbn [fv_ok fv_field field_ok] in Ox, Oy. rewrite lex_cmp_eq, name_eqb_spec. split.
    + apply wire_abs_inj; apply canon_valid; assumption.
    + intros ->. reflexivity.
  - cbn [fv_ok fv_field field_ok] in Ox, Oy. rewrite lex_cmp_eq, name_eqb_spec. split.
    + apply wire_abs_inj; apply canon_valid; assumption.
    + intros ->. reflexivity.
Qed.

(* ---- the chain, for steps over all fields in order *)

Fixpoint chain_zip (modes : list N) (a b : list fval) : option comparison :=
  match modes, a, b with
  | [], _, _ => Some Eq
  | m :: ms, x :: a', y :: b' =>
      match step_cmp m x y with
      | Some Eq => chain_zip ms a' b'
      | r => r
      end
  | _, _, _ => None
  end.

Lemma chain_opt_iota steps : forall pa pb a b,
  length pa = length pb -> map fst steps = map N.of_nat (seq (length pa) (length steps)) ->
  chain_opt steps (pa ++ a) (pb ++ b) = chain_zip (map snd steps) a b.
Proof.
  induction steps as [|[i m] steps IH]; intros pa pb a b Hl Hi; [reflexivity|].
  cbn [map length seq fst] in Hi. injection Hi as Hi1 Hi2. subst i. cbn [chain_opt map snd chain_zip].
  rewrite Nat2N.id. rewrite (nth_error_app2 pa a) by lia. rewrite Nat.sub_diag.
  rewrite (nth_error_app2 pb b) by lia. rewrite Hl, Nat.sub_diag.
  destruct a as [|x a]; destruct b as [|y b]; cbn [nth_error]; try reflexivity.
  destruct (step_cmp m x y) as [[| |]|]; try reflexivity.
  specialize (IH (pa ++ [x]) (pb ++ [y]) a b). rewrite <- !app_assoc in IH. cbn [app] in IH.
  apply IH; [rewrite !app_length; cbn; lia|]. rewrite app_length. cbn [length].
  replace (length pa + 1)%nat with (S (length pa)) by lia. exact Hi2.
Qed.

Lemma chain_zip_spec modes : forall a b,
  map fv_kind a = map fv_kind b -> length modes = length a ->
  forallb (fun km => mode_ok (fst km) (snd km)) (combine (map fv_kind a) modes) = true ->
  Forall fv_ok a -> Forall fv_ok b ->
  exists c, chain_zip modes a b = Some c /\ (c = Eq <-> all2 fv_eq a b = true).
Proof.
  induction modes as [|m ms IH]; intros a b K L M Oa Ob.
  - destruct a; [|discriminate]. destruct b; [|discriminate]. exists Eq. split; [reflexivity|]. cbn. tauto.
  - destruct a as [|x a]; [discriminate|]. destruct b as [|y b]; [discriminate|].
    cbn [map] in K. injection K as K1 K2. cbn [map combine forallb fst snd] in M.
    apply andb_true_iff in M as [M1 M2]. inversion Oa; subst. inversion Ob; subst.
    destruct (step_cmp_spec m x y M1 (eq_sym K1)) as [c [Hc He]]; try assumption.
    cbn [chain_zip all2]. rewrite Hc.
    destruct (IH a b K2 ltac:(cbn in L; lia) M2) as [c' [Hc' He']]; try assumption.
    destruct c.
    + exists c'. split; [exact Hc'|]. rewrite andb_true_iff, <- He', <- He. tauto.
    + exists Lt. split; [reflexivity|]. rewrite andb_true_iff, <- He. split; [discriminate|intros [E _]; discriminate].
    + exists Gt. split; [reflexivity|]. rewrite andb_true_iff, <- He. split; [discriminate|intros [E _]; discriminate].
Qed.

(* cmp (hence partial_cmp) is total on values of the type and is Equal
   exactly when == holds *)
Theorem rd_cmp_eq_iff code row a b : rd_lookup rd_table code = Some row ->
  map fv_kind a = row_kinds row -> map fv_kind b = row_kinds row -> Forall fv_ok a -> Forall fv_ok b ->
  exists c, c04_rd_cmp code a b = Some c /\ c04_rd_partial code a b = Some c /\
            (c = Eq <-> rd_eq (row_eq row) a b = true).
Proof.
  intros L Ka Kb Oa Ob.
  assert (Lo : exists r, ord_lookup rd_ord_table code = Some r).
  { destruct rd_ord_table_ok as [Hc _]. apply nlist_eqb_eq in Hc.
    clear - L Hc. revert Hc. generalize rd_ord_table. induction rd_table as [|[c r] t IH]; intros ot Hc; [discriminate|].
    destruct ot as [|[c' r'] ot]; [discriminate|]. cbn [map fst] in Hc. injection Hc as Hc1 Hc2. subst c'.
    cbn [rd_lookup] in L. cbn [ord_lookup]. destruct (c =? code); [eauto|]. apply IH; assumption. }
  destruct Lo as [r Lo]. destruct (ord_lookup_ok _ _ Lo) as [row' [L' K]]. rewrite L in L'. inversion L'; subst row'.
  rewrite rd_partial_is_cmp. unfold c04_rd_cmp. rewrite Lo.
  unfold orow_ok in K. repeat (apply andb_true_iff in K as [K ?]).
  match goal with H : nlist_eqb (map fst (orow_ord r)) _ = true |- _ => apply nlist_eqb_eq in H; rename H into Hidx end.
  match goal with H : forallb _ (combine (row_kinds row) _) = true |- _ => rename H into Hm end.
  assert (Hlen : length (orow_ord r) = length a).
  { apply (f_equal (@length N)) in Hidx. unfold iota in Hidx. rewrite !map_length, seq_length in Hidx.
    rewrite <- Ka, map_length in Hidx. exact Hidx. }
  pose proof (chain_opt_iota (orow_ord r) [] [] a b eq_refl) as Hz. cbn [app length] in Hz.
  rewrite Hz by (rewrite Hidx; unfold iota; rewrite <- Ka, map_length, Hlen; reflexivity).
  destruct (chain_zip_spec (map snd (orow_ord r)) a b) as [c [Hc He]]; try assumption.
  - congruence.
  - rewrite map_length. exact Hlen.
  - rewrite Ka. exact Hm.
  - exists c. split; [exact Hc|]. split; [exact Hc|].
    apply rd_lookup_ok in L. unfold row_ok in L. repeat (apply andb_true_iff in L as [L ?]).
    apply nlist_eqb_eq in L. unfold rd_eq. rewrite L.
    rewrite <- Ka at 1. rewrite map_length, pick_iota.
    rewrite <- Kb. rewrite map_length, pick_iota. exact He.
Qed.

(* ---- Record<Name, Data> and RecordHeader: PartialOrd is Some (Ord) *)
Lemma record_header_partial_fields_ok :
  record_partial_fields = record_cmp_fields /\ header_partial_fields = header_cmp_fields /\
  record_cmp_fields = record_eq_fields.
Proof. repeat split; reflexivity. Qed.

Theorem record_partial_is_cmp code oa ca a ob cb b :
  c04_record_partial code oa ca a ob cb b = c04_record_cmp code oa ca a ob cb b.
Proof.
  unfold c04_record_partial, c04_record_cmp. rewrite rd_partial_is_cmp.
  destruct record_header_partial_fields_ok as [-> _]. reflexivity.
Qed.

(* cmp of whole records is Equal exactly when they are == *)
Theorem record_cmp_eq_iff code row oa ca a ob cb b : rd_lookup rd_table code = Some row ->
  map fv_kind a = row_kinds row -> map fv_kind b = row_kinds row -> Forall fv_ok a -> Forall fv_ok b ->
  exists c, c04_record_cmp code oa ca a ob cb b = Some c /\
            (c = Eq <-> c04_record_eq code oa ca a ob cb b = true).
Proof.
  intros L Ka Kb Oa Ob. destruct (rd_cmp_eq_iff code row a b L Ka Kb Oa Ob) as [c [Hc [_ He]]].
  unfold c04_record_cmp, c04_record_eq, c04_rd_eq. rewrite L, Hc.
  unfold record_cmp_fields, record_eq_fields. cbn [rec_chain rec_cmp_step rec_eq_step forallb N.eqb Pos.eqb].
  destruct (name_cmp oa ob) eqn:En.
  - apply name_cmp_eq_iff in En. rewrite En. destruct (N.compare_spec ca cb) as [E|E|E].
    + subst cb. rewrite N.eqb_refl. exists c. split; [destruct c; reflexivity|]. cbn [andb]. rewrite andb_true_r. destruct c; exact He.
    + exists Lt. split; [reflexivity|]. assert ((ca =? cb) = false) by (apply N.eqb_neq; lia). rewrite H. cbn. split; discriminate.
    + exists Gt. split; [reflexivity|]. assert ((ca =? cb) = false) by (apply N.eqb_neq; lia). rewrite H. cbn. split; discriminate.
  - exists Lt. split; [reflexivity|]. assert (name_eqb oa ob = false).
    { destruct (name_eqb oa ob) eqn:E; [|reflexivity]. apply name_cmp_eq_iff in E. congruence. }
    rewrite H. cbn. split; discriminate.
  - exists Gt. split; [reflexivity|]. assert (name_eqb oa ob = false).
    { destruct (name_eqb oa ob) eqn:E; [|reflexivity]. apply name_cmp_eq_iff in E. congruence. }
    rewrite H. cbn. split; discriminate.
Qed.

(* RecordHeader: partial_cmp walks the same fields with the same comparisons *)
Theorem header_partial_is_cmp a b : hdr_chain header_partial_fields a b = m_header_cmp a b.
Proof. unfold m_header_cmp. destruct record_header_partial_fields_ok as [_ [-> _]]. reflexivity. Qed.

(* what the defect class looks like in the table: ZONEMD before the repair
   compared its serial in serial number arithmetic in partial_cmp only *)
Example orow_ok_rejects_serial_arith :
  orow_ok [3; 1; 1; 7] ([(0, 1); (1, 1); (2, 1); (3, 8)], [(0, 2); (1, 1); (2, 1); (3, 8)],
                        [(0, 1); (1, 1); (2, 1); (3, 8)]) = false /\
  chain_opt [(0, 2); (1, 1)] [VU32 0; VU8 1] [VU32 2147483648; VU8 1] = None /\
  chain_opt [(0, 1); (1, 1)] [VU32 0; VU8 1] [VU32 2147483648; VU8 1] = Some Lt /\
  (* NSEC3 before the repair: salt as plain octets in partial_cmp, length first in cmp *)
  orow_ok [1; 1; 2; 8] ([(0, 1); (1, 1); (2, 1); (3, 7)], [(0, 1); (1, 1); (2, 1); (3, 8)],
                        [(0, 1); (1, 1); (2, 1); (3, 7)]) = false.
Proof. vm_compute. auto. Qed.

Example ord_table_example :
  c04_rd_cmp 15 [VU16 10; VNameLc [[98]]] [VU16 10; VNameLc [[97;97]]] = Some Gt /\
  c04_rd_ccmp_steps 15 [VU16 10; VNameLc [[98]]] [VU16 10; VNameLc [[97;97]]] = Some Lt /\
  c04_rd_partial 46 [VU16 1; VU8 8; VU8 2; VU32 0; VU32 0; VU32 2147483649; VU16 5; VNameLc [[97]]; VOcts [1]]
                    [VU16 1; VU8 8; VU8 2; VU32 0; VU32 0; VU32 0; VU16 5; VNameLc [[97]]; VOcts [1]] = Some Gt.
Proof. vm_compute. auto. Qed.
