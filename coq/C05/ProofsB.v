(* C05 ProofsB.v -- schema-generic theorems: parse after compose, exact
   lengths, the canonical form.  Generic in the name decoder: everything is
   proved for any decoder that reads back uncompressed names (dec_complete);
   ProofsC.v shows that the decoders of Schema.v have that property. *)
From Coq Require Import Arith NArith List Bool Lia ZArith.
From Coq Require Import ZifyN ZifyBool ZifyNat.
From DV Require Import Base.Outcome Base.Bytes Base.Names Base.PName C05.Schema C05.ProofsA.
Import ListNotations.
Local Open Scope N_scope.
Ltac Zify.zify_post_hook ::= Z.div_mod_to_equations.

Definition dec_complete (dec : decoder) : Prop :=
  forall pre n post lim, valid_abs n -> len pre + len (wire_abs n) <= lim ->
    lim <= len (pre ++ wire_abs n ++ post) ->
    dec (pre ++ wire_abs n ++ post) (len pre) lim = Ok (n, len pre + len (wire_abs n)).

Definition dec_sound (dec : decoder) : Prop :=
  forall m pos lim n e, wf_bytes m -> dec m pos lim = Ok (n, e) -> valid_abs n.

(* ---- "at" forms of the primitives *)
Lemma rd_at m pos lim k pre x post :
  m = pre ++ x ++ post -> pos = len pre -> k = len x -> pos + k <= lim ->
  rd m pos lim k = Ok (x, pos + k).
Proof. intros -> -> -> H. apply rd_mid. exact H. Qed.

Lemma rd8_at m pos lim pre b post :
  m = pre ++ b :: post -> pos = len pre -> pos + 1 <= lim ->
  rd8 m pos lim = Ok (b, pos + 1).
Proof. intros -> -> H. apply rd8_mid. exact H. Qed.

Lemma len_cons (b : N) (l : bytes) : len (b :: l) = 1 + len l.
Proof. unfold len. simpl length. lia. Qed.

Lemma len_nil : len [] = 0.
Proof. reflexivity. Qed.

Lemma len_be w n : len (be w n) = N.of_nat w.
Proof. unfold len. rewrite be_length. reflexivity. Qed.

Lemma strb_spec b : strb b = true -> (length b <= 255)%nat /\ wf_bytes b.
Proof.
  unfold strb. rewrite andb_true_iff, Nat.leb_le, bytesb_spec. auto.
Qed.

(* ---- lengths *)
Lemma wire_len_canon n : wire_len (canon n) = wire_len n.
Proof.
  unfold canon. induction n as [|l n IH]; [reflexivity|].
  cbn [map wire_len]. rewrite lowers_length, IH. reflexivity.
Qed.

Lemma len_wire_abs n : len (wire_abs n) = N.of_nat (wire_len n) + 1.
Proof. unfold len. rewrite wire_abs_length. lia. Qed.

Lemma len_strs l :
  len (concat (map charstr_wire l)) = fold_right (fun b a => len b + 1 + a) 0 l.
Proof.
  induction l as [|b l IH]; [reflexivity|].
  cbn [map concat fold_right]. rewrite len_app, IH. unfold charstr_wire.
  rewrite len_cons. lia.
Qed.

Lemma field_len_exact canon f x :
  wf_fval true f x = true \/ wf_fval false f x = true ->
  field_len f x = len (compose_field canon f x).
Proof.
  intros H. destruct f, x; try (destruct H; discriminate); cbn [field_len compose_field].
  - rewrite len_be. reflexivity.
  - reflexivity.
  - destruct (canon && lower); rewrite len_wire_abs; [rewrite wire_len_canon|]; reflexivity.
  - unfold charstr_wire. rewrite len_cons. lia.
  - rewrite len_strs. reflexivity.
  - rewrite len_app, len_be. lia.
  - reflexivity.
  - reflexivity.
Qed.

Lemma wf_fvals_any ctor s v :
  wf_fvals ctor s v = true ->
  forall canon, fields_len s v = len (compose_fields canon s v).
Proof.
  revert v; induction s as [|f s IH]; intros [|x v] H canon; cbn [wf_fvals] in H;
    try discriminate; [reflexivity|].
  apply andb_true_iff in H as [H1 H2].
  cbn [fields_len compose_fields]. rewrite len_app, (IH _ H2 canon).
  rewrite (field_len_exact canon) by (destruct ctor; auto). reflexivity.
Qed.

(* ---- parse after compose, field by field *)
Section Generic.
Variable dec : decoder.
Hypothesis Hdec : dec_complete dec.

Lemma parse_strs_compose l : forall fuel pre post acc lim,
  (length l < fuel)%nat ->
  lim = len pre + len (concat (map charstr_wire l)) ->
  parse_strs fuel (pre ++ concat (map charstr_wire l) ++ post) (len pre) lim acc
  = Ok (rev acc ++ l, lim).
Proof.
  induction l as [|b l IH]; intros fuel pre post acc lim Hf Hl.
  - destruct fuel as [|fuel]; [lia|]. cbn [parse_strs map concat] in *.
    rewrite len_nil in Hl.
    destruct (N.eqb_spec (lim - len pre) 0) as [E|E]; [|lia].
    rewrite app_nil_r. f_equal. f_equal. lia.
  - destruct fuel as [|fuel]; [simpl in Hf; lia|]. cbn [parse_strs].
    cbn [map concat] in *. rewrite len_app in Hl. unfold charstr_wire at 1 in Hl.
    rewrite len_cons in Hl.
    destruct (N.eqb_spec (lim - len pre) 0) as [E|E]; [lia|].
    set (tail := concat (map charstr_wire l)) in *.
    rewrite (rd8_at _ _ _ pre (len b) (b ++ tail ++ post)); [| |reflexivity|lia].
    2:{ unfold charstr_wire. cbn [app]. rewrite <- !app_assoc. reflexivity. }
    cbn [bind fst snd].
    rewrite (rd_at _ _ _ _ (pre ++ [len b]) b (tail ++ post)); [| |rewrite len_app, len_cons, len_nil; lia|reflexivity|lia].
    2:{ unfold charstr_wire. cbn [app]. rewrite <- !app_assoc. reflexivity. }
    cbn [bind fst snd].
    replace (pre ++ (charstr_wire b ++ tail) ++ post)
      with ((pre ++ charstr_wire b) ++ tail ++ post)
      by (rewrite <- !app_assoc; reflexivity).
    replace (len pre + 1 + len b) with (len (pre ++ charstr_wire b))
      by (unfold charstr_wire; rewrite len_app, len_cons; lia).
    rewrite IH.
    + cbn [rev]. rewrite <- app_assoc. reflexivity.
    + simpl in Hf. lia.
    + unfold charstr_wire. rewrite len_app, len_cons. lia.
Qed.

Lemma strs_count l : N.of_nat (length l) <= len (concat (map charstr_wire l)).
Proof.
  induction l as [|b l IH]; [cbn; lia|].
  cbn [map concat length]. rewrite len_app. unfold charstr_wire at 1. rewrite len_cons. lia.
Qed.

Lemma parse_field_at f x m pos lim pre post :
  wf_fval false f x = true ->
  m = pre ++ compose_field false f x ++ post -> pos = len pre -> lim <= len m ->
  (delimited f = true /\ pos + len (compose_field false f x) <= lim) \/
  lim = pos + len (compose_field false f x) ->
  parse_field dec f m pos lim = Ok (x, pos + len (compose_field false f x)).
Proof.
  intros Hw Hm Hp Hmax Hlim.
  assert (Hle : pos + len (compose_field false f x) <= lim) by (destruct Hlim as [[_ H]|H]; lia).
  destruct f, x; try discriminate; cbn [wf_fval compose_field parse_field] in *.
  - (* FNum *)
    rewrite len_be in *.
    rewrite (rd_at _ _ _ _ pre (be w n) post Hm Hp); [|rewrite len_be; reflexivity|exact Hle].
    cbn [bind fst snd]. rewrite of_be_be by lia. reflexivity.
  - (* FFix *)
    apply andb_true_iff in Hw as [Hk _]. apply Nat.eqb_eq in Hk.
    rewrite (rd_at _ _ _ _ pre b post Hm Hp); [| unfold len; lia | rewrite <- Hk; exact Hle].
    cbn [bind fst snd]. f_equal. f_equal. unfold len. lia.
  - (* FName *)
    cbn [andb] in *. subst m pos.
    rewrite Hdec; [reflexivity| |exact Hle|exact Hmax].
    apply valid_relb_spec. exact Hw.
  - (* FCharStr *)
    apply andb_true_iff in Hw as [Hs Hc]. unfold charstr_wire in *. rewrite len_cons in *.
    rewrite (rd8_at _ _ _ pre (len b) (b ++ post)); [|rewrite Hm; reflexivity|exact Hp|lia].
    cbn [bind fst snd].
    rewrite (rd_at _ _ _ _ (pre ++ [len b]) b post); [| |rewrite len_app, len_cons, len_nil; lia|reflexivity|lia].
    2:{ rewrite Hm. cbn [app]. rewrite <- !app_assoc. reflexivity. }
    cbn [bind fst snd]. rewrite Hc. f_equal. f_equal. lia.
  - (* FCharStrs *)
    destruct Hlim as [[Hd _]|Hlim]; [discriminate|].
    apply andb_true_iff in Hw as [Hs _]. subst m pos.
    rewrite parse_strs_compose; [| |exact Hlim].
    + cbn [bind fst snd rev app]. f_equal. f_equal. lia.
    + pose proof (strs_count l). lia.
  - (* FLen16 *)
    apply andb_true_iff in Hw as [Hl _]. rewrite len_app, len_be in *.
    rewrite (rd_at _ _ _ _ pre (be 2 (len b)) (b ++ post)); [| |exact Hp|rewrite len_be; reflexivity|lia].
    2:{ rewrite Hm. rewrite <- !app_assoc. reflexivity. }
    cbn [bind fst snd]. rewrite of_be_be by (cbn [pow256]; lia).
    rewrite (rd_at _ _ _ _ (pre ++ be 2 (len b)) b post); [| |rewrite len_app, len_be; lia|reflexivity|lia].
    2:{ rewrite Hm. rewrite <- !app_assoc. reflexivity. }
    cbn [bind fst snd]. f_equal. f_equal. lia.
  - (* FRest *)
    destruct Hlim as [[Hd _]|Hlim]; [discriminate|].
    cbn [orb] in Hw. apply andb_true_iff in Hw as [Hmin _]. apply Nat.leb_le in Hmin.
    destruct (N.ltb_spec (lim - pos) (N.of_nat min)) as [L|L]; [unfold len in *; lia|].
    rewrite (rd_at _ _ _ _ pre b post Hm Hp); [| lia | lia].
    cbn [bind fst snd]. f_equal. f_equal. lia.
  - (* FChecked *)
    destruct Hlim as [[Hd _]|Hlim]; [discriminate|].
    apply andb_true_iff in Hw as [_ Hc].
    rewrite (rd_at _ _ _ _ pre b post Hm Hp); [| lia | lia].
    cbn [bind fst snd]. destruct (rest_check k b); [discriminate|].
    f_equal. f_equal. lia.
Qed.

Lemma parse_fields_compose s : forall v pre post lim,
  wf_fields s = true -> wf_fvals false s v = true ->
  lim = len pre + len (compose_fields false s v) ->
  parse_fields dec s (pre ++ compose_fields false s v ++ post) (len pre) lim = Ok (v, lim).
Proof.
  induction s as [|f s IH]; intros [|x v] pre post lim Hs Hv Hl; cbn [wf_fvals] in Hv;
    try discriminate.
  - cbn [parse_fields compose_fields] in *. rewrite len_nil in Hl. f_equal. f_equal. lia.
  - apply andb_true_iff in Hv as [Hx Hv].
    cbn [compose_fields parse_fields] in *. rewrite len_app in Hl.
    set (cf := compose_field false f x) in *. set (rest := compose_fields false s v) in *.
    assert (Hd : (delimited f = true /\ len pre + len cf <= lim) \/ lim = len pre + len cf).
    { destruct s as [|g s'].
      - right. destruct v; [|discriminate]. subst rest. cbn [compose_fields] in Hl.
        rewrite len_nil in Hl. lia.
      - left. cbn [wf_fields] in Hs. apply andb_true_iff in Hs as [Hs _]. split; [exact Hs|lia]. }
    rewrite (parse_field_at f x _ (len pre) lim pre (rest ++ post) Hx); [| |reflexivity| |exact Hd].
    2:{ subst cf. rewrite <- !app_assoc. reflexivity. }
    2:{ rewrite !len_app. lia. }
    cbn [bind fst snd]. fold cf.
    replace (pre ++ (cf ++ rest) ++ post) with ((pre ++ cf) ++ rest ++ post)
      by (rewrite <- !app_assoc; reflexivity).
    replace (len pre + len cf) with (len (pre ++ cf)) by (rewrite len_app; reflexivity).
    subst rest. rewrite (IH v (pre ++ cf) post lim).
    + reflexivity.
    + destruct s as [|g s']; [reflexivity|]. cbn [wf_fields] in Hs.
      apply andb_true_iff in Hs as [_ Hs]. exact Hs.
    + exact Hv.
    + rewrite len_app. lia.
Qed.

(* the leading LongRecordData check passes on composed data *)
Fixpoint fixed_len (s : list field) : N :=
  match s with
  | FNum w :: s' => N.of_nat w + fixed_len s'
  | FFix k :: s' => N.of_nat k + fixed_len s'
  | _ :: s' => fixed_len s'
  | [] => 0
  end.

Definition wf_schema_full (s : schema) : bool :=
  wf_schema s &&
  match s_long s with Some k => k <=? fixed_len (s_fields s) | None => true end.

Lemma fixed_len_le s : forall v, wf_fvals false s v = true -> fixed_len s <= fields_len s v.
Proof.
  induction s as [|f s IH]; intros [|x v] H; cbn [wf_fvals] in H; try discriminate.
  apply andb_true_iff in H as [Hx Hv]. specialize (IH _ Hv).
    destruct f, x; try discriminate; cbn [fixed_len fields_len field_len]; try lia.
    cbn [wf_fval] in Hx. apply andb_true_iff in Hx as [Hk _]. apply Nat.eqb_eq in Hk.
    unfold len. lia.
Qed.

Theorem parse_compose s v pre post :
  wf_schema_full s = true -> wf_value s v = true ->
  parse_rdata dec s (pre ++ compose s v ++ post) (len pre) (len pre + len (compose s v)) = Ok v.
Proof.
  unfold wf_schema_full, wf_value, wf_schema. intros Hs Hv.
  apply andb_true_iff in Hs as [Hs Hk]. apply andb_true_iff in Hv as [Hv Hpost].
  apply andb_true_iff in Hv as [Hv Ht].
  unfold parse_rdata, parse_type, compose.
  pose proof (wf_fvals_any _ _ _ Hv false) as Hlen. unfold total_len in Ht.
  assert (Hpf := parse_fields_compose (s_fields s) v pre post _ Hs Hv eq_refl).
  destruct (s_long s) as [k|].
  - pose proof (fixed_len_le _ _ Hv).
    destruct (N.ltb_spec (len pre + len (compose_fields false (s_fields s) v) - len pre) k); [lia|].
    destruct (N.ltb_spec 65535 (len pre + len (compose_fields false (s_fields s) v) - len pre - k)); [lia|].
    rewrite Hpf. cbn [bind fst snd]. rewrite N.eqb_refl. unfold post_ok in Hpost.
    destruct (post_check (s_post s) v); [discriminate|reflexivity].
  - rewrite Hpf. cbn [bind fst snd]. rewrite N.eqb_refl. unfold post_ok in Hpost.
    destruct (post_check (s_post s) v); [discriminate|reflexivity].
Qed.

End Generic.

(* ---- the advertised length *)
Theorem rdlen_exact s v :
  wf_value s v = true ->
  rdlen s false v = Ok (Some (len (compose s v))) /\
  rdlen s true v = (if has_compressible s then Ok None else Ok (Some (len (compose s v)))).
Proof.
  unfold wf_value, rdlen, total_len, compose. intros H.
  apply andb_true_iff in H as [H _]. apply andb_true_iff in H as [Hv Ht].
  rewrite <- (wf_fvals_any _ _ _ Hv false).
  destruct (N.ltb_spec 65535 (fields_len (s_fields s) v)); [lia|].
  cbn [andb]. destruct (has_compressible s); auto.
Qed.

(* rdlen never lies: whenever it returns a number, that is the number of
   octets compose writes -- for every value a constructor accepts *)
Theorem rdlen_never_lies s v c k :
  ctor_accepts s v = true -> rdlen s c v = Ok (Some k) -> k = len (compose s v).
Proof.
  unfold ctor_accepts, rdlen, total_len, compose. intros H.
  apply andb_true_iff in H as [H _]. apply andb_true_iff in H as [Hv _].
  rewrite <- (wf_fvals_any _ _ _ Hv false).
  destruct (c && has_compressible s); [discriminate|].
  destruct (65535 <? fields_len (s_fields s) v); [discriminate|].
  intros E. injection E as <-. reflexivity.
Qed.

(* ---- canonical form *)
Lemma compose_field_canon f x :
  compose_field true f x = compose_field false f (lower_field f x).
Proof.
  destruct f as [w|k|c l|chk| | |mn|ck], x; try reflexivity; destruct l; reflexivity.
Qed.

Theorem canonical_only_lowercases s v :
  compose_canonical s v = compose s (lower_flagged s v).
Proof.
  unfold compose_canonical, compose, lower_flagged.
  generalize (s_fields s) as l. intros l. revert v.
  induction l as [|f l IH]; intros [|x v]; cbn [compose_fields lower_flagged_fields]; try reflexivity.
  rewrite compose_field_canon, IH. reflexivity.
Qed.

(* a schema without lower-casing flags: canonical form = wire form *)
Definition no_lower (f : field) : bool := match f with FName _ true => false | _ => true end.

Theorem canonical_is_wire_without_flags s v :
  forallb no_lower (s_fields s) = true -> compose_canonical s v = compose s v.
Proof.
  unfold compose_canonical, compose. generalize (s_fields s) as l. intros l. revert v.
  induction l as [|f l IH]; intros [|x v] H; cbn [compose_fields forallb] in *; try reflexivity.
  apply andb_true_iff in H as [Hf Hl]. rewrite (IH _ Hl). f_equal.
  destruct f, x; try reflexivity. destruct lower; [discriminate|reflexivity].
Qed.

Theorem canonical_same_length s v :
  wf_value s v = true -> len (compose_canonical s v) = len (compose s v).
Proof.
  unfold wf_value, compose_canonical, compose. intros H. apply andb_true_iff in H as [H _].
  apply andb_true_iff in H as [Hv _].
  rewrite <- (wf_fvals_any _ _ _ Hv true), <- (wf_fvals_any _ _ _ Hv false). reflexivity.
Qed.

Lemma canon_idem n : canon (canon n) = canon n.
Proof. unfold canon. rewrite map_map. apply map_ext. apply lowers_idem. Qed.

Theorem canonical_idempotent s v :
  compose_canonical s (lower_flagged s v) = compose_canonical s v.
Proof.
  unfold compose_canonical, lower_flagged. generalize (s_fields s) as l. intros l. revert v.
  induction l as [|f l IH]; intros [|x v]; cbn [compose_fields lower_flagged_fields]; try reflexivity.
  rewrite IH. f_equal.
  destruct f as [w|k|c lw|chk| | |mn|ck], x; try reflexivity; destruct lw;
    cbn [lower_field compose_field andb]; rewrite ?canon_idem; reflexivity.
Qed.
