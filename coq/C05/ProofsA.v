(* C05 ProofsA.v -- arithmetic and list lemmas: big-endian numbers, slices,
   the reading primitives on a message of the shape pre ++ x ++ post. *)
From Coq Require Import NArith List Bool Lia ZArith.
From Coq Require Import ZifyN ZifyBool ZifyNat.
From DV Require Import Base.Outcome Base.Bytes Base.Names Base.PName C05.Schema.
Import ListNotations.
Local Open Scope N_scope.
Ltac Zify.zify_post_hook ::= Z.div_mod_to_equations.

(* ---- big endian *)
Lemma pow256_pos w : 0 < pow256 w.
Proof. induction w as [|w IH]; cbn [pow256]; lia. Qed.

Lemma be_length w n : length (be w n) = w.
Proof.
  revert n; induction w as [|w IH]; intros n; cbn [be]; [reflexivity|].
  rewrite app_length, IH. simpl. lia.
Qed.

Lemma of_be_snoc l b : of_be (l ++ [b]) = of_be l * 256 + b.
Proof. unfold of_be. rewrite fold_left_app. reflexivity. Qed.

Lemma of_be_be w n : n < pow256 w -> of_be (be w n) = n.
Proof.
  revert n; induction w as [|w IH]; intros n Hn; cbn [be pow256] in *.
  - unfold of_be. simpl. lia.
  - rewrite of_be_snoc, IH by lia. lia.
Qed.

Lemma be_wf w n : wf_bytes (be w n).
Proof.
  revert n; induction w as [|w IH]; intros n; cbn [be].
  - constructor.
  - apply wf_bytes_app. split; [apply IH|]. repeat constructor. lia.
Qed.

Lemma of_be_bound l : wf_bytes l -> of_be l < pow256 (length l).
Proof.
  induction l as [|b l IH] using rev_ind; intros Hw.
  - unfold of_be. simpl. lia.
  - apply wf_bytes_app in Hw as [Hl Hb]. inversion Hb as [|? ? Hb' _]; subst.
    rewrite of_be_snoc, app_length. simpl length. rewrite Nat.add_1_r. cbn [pow256].
    specialize (IH Hl). lia.
Qed.

Example be_example : be 2 4660 = [18; 52] /\ of_be [18; 52] = 4660 /\ be 6 1 = [0;0;0;0;0;1].
Proof. vm_compute. auto. Qed.

(* ---- slices of pre ++ x ++ post *)
Lemma len_app (a b : bytes) : len (a ++ b) = len a + len b.
Proof. unfold len. rewrite app_length. lia. Qed.

Lemma slice_mid (pre x post : bytes) :
  slice (pre ++ x ++ post) (len pre) (len pre + len x) = x.
Proof.
  unfold slice, len.
  replace (N.to_nat (N.of_nat (length pre) + N.of_nat (length x) - N.of_nat (length pre)))
    with (length x) by lia.
  rewrite Nat2N.id. rewrite skipn_app, skipn_all, Nat.sub_diag. cbn [skipn app].
  rewrite firstn_app, firstn_all, Nat.sub_diag. cbn [firstn]. apply app_nil_r.
Qed.

Lemma get_mid (pre post : bytes) b : get (pre ++ b :: post) (len pre) = Some b.
Proof.
  unfold get, len. rewrite Nat2N.id. rewrite nth_error_app2 by lia.
  rewrite Nat.sub_diag. reflexivity.
Qed.

Lemma rd_mid pre x post lim :
  len pre + len x <= lim ->
  rd (pre ++ x ++ post) (len pre) lim (len x) = Ok (x, len pre + len x).
Proof.
  intros H. unfold rd.
  destruct (N.ltb_spec (lim - len pre) (len x)) as [L|L]; [lia|].
  rewrite slice_mid. reflexivity.
Qed.

Lemma rd8_mid pre b post lim :
  len pre + 1 <= lim ->
  rd8 (pre ++ b :: post) (len pre) lim = Ok (b, len pre + 1).
Proof.
  intros H. unfold rd8.
  destruct (N.ltb_spec (lim - len pre) 1) as [L|L]; [lia|].
  rewrite get_mid. reflexivity.
Qed.

(* results of the primitives on arbitrary input *)
Lemma slice_wf m a b : wf_bytes m -> wf_bytes (slice m a b).
Proof.
  unfold slice, wf_bytes. intros H.
  apply Forall_forall. intros x Hx. rewrite Forall_forall in H. apply H.
  rewrite <- (firstn_skipn (N.to_nat a) m). apply in_or_app. right.
  rewrite <- (firstn_skipn (N.to_nat (b - a)) (skipn (N.to_nat a) m)). apply in_or_app. left. exact Hx.
Qed.

Lemma slice_length m a b : b <= mlen m -> a <= b -> length (slice m a b) = N.to_nat (b - a).
Proof.
  unfold slice, mlen. intros H1 H2. rewrite firstn_length, skipn_length. lia.
Qed.

Lemma rd_ok m pos lim k x e :
  rd m pos lim k = Ok (x, e) ->
  x = slice m pos (pos + k) /\ e = pos + k /\ k <= lim - pos.
Proof.
  unfold rd. destruct (N.ltb_spec (lim - pos) k) as [L|L]; intros H; [discriminate|].
  injection H as <- <-. auto.
Qed.

Lemma rd8_ok m pos lim b e :
  rd8 m pos lim = Ok (b, e) -> get m pos = Some b /\ e = pos + 1 /\ 1 <= lim - pos.
Proof.
  unfold rd8. destruct (N.ltb_spec (lim - pos) 1) as [L|L]; intros H; [discriminate|].
  destruct (get m pos) as [c|]; [|discriminate]. injection H as <- <-. auto.
Qed.

Lemma get_wf m pos b : wf_bytes m -> get m pos = Some b -> b < 256.
Proof.
  unfold get, wf_bytes. intros H E. apply nth_error_In in E.
  rewrite Forall_forall in H. auto.
Qed.
