(* C05 ProofsI.v -- premises discharged from other developments, the known
   constructor classes one by one, the canonical form label by label, and the
   advertised length on compressing targets. *)
From Coq Require Import Arith NArith List Bool Lia ZArith.
From Coq Require Import ZifyN ZifyBool ZifyNat.
From DV Require Import Base.Outcome Base.Bytes Base.Names Base.PName
  C05.Schema C05.Gen C05.Model C05.OptModel C05.SvcModel
  C05.ProofsA C05.ProofsB C05.ProofsC C05.ProofsD C05.ProofsE C05.ProofsF C05.ProofsG C05.ProofsH C05.Proofs.
From DV Require C01.Proofs.
Import ListNotations.
Local Open Scope N_scope.
Ltac Zify.zify_post_hook ::= Z.div_mod_to_equations.

(* ---- the message name reader is sound (C01): what it returns is a valid name.
   dec_sound with the bound on lim that C01's theorem needs. *)
Definition dec_sound_in (dec : decoder) : Prop :=
  forall m pos lim n e, wf_bytes m -> lim <= mlen m -> dec m pos lim = Ok (n, e) -> valid_abs n.

Lemma dec_sound_in_of dec : dec_sound dec -> dec_sound_in dec.
Proof. intros H m pos lim n e Hm _ Hd. eapply H; eauto. Qed.

Theorem pname_dec_sound : dec_sound_in pname_dec.
Proof.
  intros m pos lim n e Hm Hl H. unfold pname_dec, decode_name in H.
  destruct (parse_ref m pos lim) as [p| | |] eqn:Ep; try discriminate. cbn [bind] in H.
  destruct (C01.Proofs.parse_ref_sound m pos lim p Ep Hl Hm) as [ls [Hls [Hv [Hlen H255]]]].
  rewrite Hls in H. cbn [bind fst] in H. injection H as <- _.
  split; [exact Hv|lia].
Qed.

Theorem pname_nc_dec_sound strict : dec_sound_in (pname_nc_dec strict).
Proof.
  intros m pos lim n e Hm Hl H. unfold pname_nc_dec in H.
  destruct (parse_ref m pos lim) as [p| | |] eqn:Ep; try discriminate. cbn [bind] in H.
  destruct (pn_compressed p); [discriminate|].
  destruct (strict && negb (pn_end p - pos =? pn_len p)); [discriminate|].
  destruct (C01.Proofs.parse_ref_sound m pos lim p Ep Hl Hm) as [ls [Hls [Hv [Hlen H255]]]].
  rewrite Hls in H. cbn [bind fst] in H. injection H as <- _.
  split; [exact Hv|lia].
Qed.

(* parse results are well-formed for a reader that is sound within bounds *)
Section SoundIn.
Variable dec : decoder.
Hypothesis Hsound : dec_sound_in dec.

Lemma parse_field_wf_in f m pos lim x e :
  wf_bytes m -> lim <= mlen m ->
  parse_field dec f m pos lim = Ok (x, e) -> wf_fval false f x = true.
Proof.
  intros Hm Hl H. destruct f; try (eapply (parse_field_wf flat_dec flat_dec_sound); eauto; fail).
  cbn [parse_field] in H.
  destruct (dec m pos lim) as [[n p]| | |] eqn:E; try discriminate.
  cbn [bind fst snd] in H. injection H as <- _. cbn [wf_fval].
  apply valid_relb_spec. eapply Hsound; eauto.
Qed.

Lemma parse_fields_wf_in s : forall m pos lim v e,
  wf_bytes m -> lim <= mlen m ->
  parse_fields dec s m pos lim = Ok (v, e) -> wf_fvals false s v = true.
Proof.
  induction s as [|f s IH]; intros m pos lim v e Hm Hl H; cbn [parse_fields] in H.
  - injection H as <- _. reflexivity.
  - destruct (parse_field dec f m pos lim) as [[x p]| | |] eqn:Ef; try discriminate.
    cbn [bind fst snd] in H.
    destruct (parse_fields dec s m p lim) as [[v' p']| | |] eqn:Es; try discriminate.
    cbn [bind fst snd] in H. injection H as <- _. cbn [wf_fvals].
    rewrite (parse_field_wf_in _ _ _ _ _ _ Hm Hl Ef). eapply IH; eauto.
Qed.

Lemma parse_rdata_wf_in s m pos lim v :
  wf_bytes m -> lim <= mlen m ->
  parse_rdata dec s m pos lim = Ok v -> wf_fvals false (s_fields s) v = true.
Proof.
  intros Hm Hl H. unfold parse_rdata in H.
  destruct (parse_type dec s m pos lim) as [[v' e]| | |] eqn:E; try discriminate.
  cbn [bind fst snd] in H. destruct (e =? lim); [|discriminate].
  destruct (post_check (s_post s) v'); [discriminate|]. injection H as <-.
  unfold parse_type in E. destruct (s_long s) as [k|].
  - destruct (lim - pos <? k); [discriminate|]. destruct (65535 <? lim - pos - k); [discriminate|].
    eapply parse_fields_wf_in; eauto.
  - eapply parse_fields_wf_in; eauto.
Qed.
End SoundIn.

(* RDATA accepted from a message -- embedded names possibly compressed, read by
   the message name reader -- re-composes (uncompressed) to octets that the
   same reader parses to the same value.  No hypothesis on the reader is left. *)
Theorem table_recompose_compressed t s m pos lim v pre post :
  schema_of t = Some s -> wf_bytes m -> lim <= mlen m ->
  parse_rdata pname_dec s m pos lim = Ok v ->
  total_len s v <= 65535 ->
  parse_rdata pname_dec s (pre ++ compose s v ++ post) (len pre) (len pre + len (compose s v)) = Ok v.
Proof.
  intros Hs Hm Hl Hp Ht. apply parse_compose.
  - apply pname_dec_complete.
  - eapply schema_of_wf; eauto.
  - unfold wf_value. rewrite (parse_rdata_wf_in pname_dec pname_dec_sound s m pos lim v Hm Hl Hp).
    rewrite (parse_rdata_post pname_dec s m pos lim v Hp).
    apply N.leb_le in Ht. rewrite Ht. reflexivity.
Qed.

(* ---- canonical form, label by label: no upper-case ASCII octet is left in
   any label of a name that compose_canonical_rdata lower-cases *)
Lemma lower_not_upper b : negb ((65 <=? lower b) && (lower b <=? 90)) = true.
Proof. unfold lower. destruct ((65 <=? b) && (b <=? 90)) eqn:E; lia. Qed.

Theorem canon_all_labels n :
  Forall (fun l => Forall (fun b => negb ((65 <=? b) && (b <=? 90)) = true) l) (canon n) /\
  map (@length N) (canon n) = map (@length N) n.
Proof.
  unfold canon. split.
  - apply Forall_forall. intros l Hl. apply in_map_iff in Hl as [l0 [<- _]].
    unfold lowers. apply Forall_forall. intros b Hb. apply in_map_iff in Hb as [b0 [<- _]].
    apply lower_not_upper.
  - rewrite map_map. apply map_ext. intros l. apply lowers_length.
Qed.

Theorem canonical_lowers_every_flagged_name s v :
  compose_canonical s v = compose s (lower_flagged s v) /\
  (forall f x, In (f, x) (combine (s_fields s) (lower_flagged s v)) -> is_lower f = true ->
     forall n, x = VName n ->
     Forall (fun l => Forall (fun b => negb ((65 <=? b) && (b <=? 90)) = true) l) n).
Proof.
  split; [apply canonical_only_lowercases|].
  unfold lower_flagged. generalize (s_fields s) as l. intros l. revert v.
  induction l as [|g l IH]; intros [|y v] f x Hin Hf n Hx; cbn [lower_flagged_fields combine In] in Hin;
    try contradiction.
  destruct Hin as [E|Hin]; [|eapply IH; eauto].
  injection E as <- <-. destruct g as [| |c lw| | | | |]; try discriminate. destruct lw; [|discriminate].
  destruct y; cbn [lower_field] in Hx; try discriminate. injection Hx as <-.
  apply canon_all_labels.
Qed.

(* ---- the known constructor classes, one witness each, and what is excluded *)
Definition big (k : N) : bytes := N.iter k (cons 0) [].

Lemma ctor_long_witnesses :
  (* ctor_long_TLSA, SSHFP, OPENPGPKEY, ZONEMD, CAA: the constructor accepts, rdlen() panics *)
  (let v := [VNum 0; VNum 0; VNum 0; VBytes (big 65533)] in
   ctor_accepts (plain [U8; U8; U8; Rest]) v = true /\ rdlen (plain [U8; U8; U8; Rest]) false v = Panic P_LONG) /\
  (let v := [VNum 0; VNum 0; VBytes (big 65534)] in
   ctor_accepts (plain [U8; U8; Rest]) v = true /\ rdlen (plain [U8; U8; Rest]) false v = Panic P_LONG) /\
  (let v := [VBytes (big 65536)] in
   ctor_accepts (plain [Rest]) v = true /\ rdlen (plain [Rest]) false v = Panic P_LONG) /\
  (let v := [VNum 0; VNum 0; VNum 0; VBytes (big 65530)] in
   ctor_accepts (plain [U32; U8; U8; FRest 12]) v = true /\ rdlen (plain [U32; U8; U8; FRest 12]) false v = Panic P_LONG) /\
  (let v := [VNum 0; VBytes [97]; VBytes (big 65533)] in
   ctor_accepts (plain [U8; CaaTagStr; Rest]) v = true /\ rdlen (plain [U8; CaaTagStr; Rest]) false v = Panic P_LONG) /\
  (* ctor_long_IPSECKEY *)
  (let v := [VNum 0; VNum 0; VNum 1; VBytes (big 65533)] in
   ctor_accepts (ipseckey_schema 0) v = true /\ rdlen (ipseckey_schema 0) false v = Panic P_LONG).
Proof. vm_compute. repeat split; reflexivity. Qed.

Theorem ctor_long_refuted :
  forall t, In t [52; 44; 61; 63; 257] ->
  exists s v, schema_of t = Some s /\ ctor_accepts s v = true /\ rdlen s false v = Panic P_LONG.
Proof.
  pose proof ctor_long_witnesses as [H1 [H2 [H3 [H4 [H5 _]]]]].
  intros t [<-|[<-|[<-|[<-|[<-|[]]]]]]; eexists; eexists; (split; [reflexivity|]).
  - exact H1. - exact H2. - exact H3. - exact H4. - exact H5.
Qed.

Theorem ctor_long_ipseckey_refuted :
  exists v, ctor_accepts (ipseckey_schema 0) v = true /\ rdlen (ipseckey_schema 0) false v = Panic P_LONG.
Proof. pose proof ctor_long_witnesses as [_ [_ [_ [_ [_ H]]]]]. eexists. exact H. Qed.

(* ctor_reparse_IPSECKEY: accepted by new(), refused by parse; everything else new() accepts
   round-trips (exclusion: the key-less value with a key algorithm, over-long values) *)
Theorem ctor_reparse_ipseckey_refuted :
  ctor_accepts (ipseckey_schema 0) [VNum 10; VNum 0; VNum 2; VBytes []] = true /\
  ipseckey_parse (compose (ipseckey_schema 0) [VNum 10; VNum 0; VNum 2; VBytes []]) 0 3 = Err E_SHORT.
Proof. vm_compute. auto. Qed.

Theorem ipseckey_ctor_sound g v pre post :
  g <= 3 -> ctor_accepts (ipseckey_schema g) v = true ->
  overlong (ipseckey_schema g) v = false -> post_ok (PIpseckey g) v = true ->
  ipseckey_parse (pre ++ compose (ipseckey_schema g) v ++ post) (len pre)
    (len pre + len (compose (ipseckey_schema g) v)) = Ok v /\
  rdlen (ipseckey_schema g) false v = Ok (Some (len (compose (ipseckey_schema g) v))).
Proof.
  intros Hg Hc Ho Hp. apply ipseckey_parse_compose; [exact Hg|].
  apply ctor_accepts_wf; auto.
  unfold short_rest, ipseckey_schema, gateway_fields. cbn [s_fields].
  destruct v as [|a [|b [|c v]]]; try reflexivity.
  destruct (g =? 1); [|destruct (g =? 2); [|destruct (g =? 3)]]; cbn [app short_rest_fields U8 V4 V6 NameU Rest];
    repeat match goal with |- context [match ?x with _ => _ end] => destruct x; try reflexivity end.
Qed.

(* svc_ctor_reparse_TLSGROUPS: TlsSupportedGroups::from_keys writes the keys one
   after the other and checks only the total length *)
Definition groups_from_keys (ks : list N) : bytes := concat (map (be 2) ks).

Theorem tlsgroups_from_keys_refuted :
  rest_check KGroups (groups_from_keys []) = Some E_FORM.
Proof. reflexivity. Qed.

Theorem tlsgroups_from_keys_sound ks :
  ks <> [] -> rest_check KGroups (groups_from_keys ks) = None.
Proof.
  intros Hne. unfold rest_check, groups_from_keys.
  assert (Hl : length (concat (map (be 2) ks)) = (2 * length ks)%nat).
  { clear Hne. induction ks as [|k ks IH]; [reflexivity|]. cbn [map concat length].
    rewrite app_length, be_length, IH. lia. }
  rewrite Hl. destruct ks as [|k ks]; [congruence|].
  replace (2 * length (k :: ks))%nat with (S (S (2 * length ks))) by (simpl; lia).
  cbn [Nat.eqb negb andb]. rewrite Nat.even_succ_succ, Nat.even_mul. reflexivity.
Qed.
