(* C05 ProofsI.v -- premises discharged from other developments, the known
   constructor classes one by one, the canonical form label by label, and the
   advertised length on compressing targets. *)
From Coq Require Import Arith NArith List Bool Lia ZArith.
From Coq Require Import ZifyN ZifyBool ZifyNat.
From DV Require Import Base.Outcome Base.Bytes Base.Names Base.PName
  C05.Schema C05.Gen C05.Model C05.OptModel C05.SvcModel
  C05.ProofsA C05.ProofsB C05.ProofsC C05.ProofsD C05.ProofsE C05.ProofsF C05.ProofsG C05.ProofsH C05.Proofs.
Import ListNotations.
Local Open Scope N_scope.
Ltac Zify.zify_post_hook ::= Z.div_mod_to_equations.

(* ---- canonical form, label by label: no upper-case ASCII octet is left in
   any label of a name that compose_canonical_rdata lower-cases *)
Lemma lower_not_upper b : negb ((65 <=? lower b) && (lower b <=? 90)) = true.
Proof. unfold lower. destruct ((65 <=? b) && (b <=? 90)) eqn:E; lia. Qed.

Theorem canon_all_labels n :
  Forall (fun l => Forall (fun b => negb ((65 <=? b) && (b <=? 90)) = true) l) (canon n) /\
  map (@length N) (canon n) = map (@length N) n.
Proof.
  unfold canon. split.
  - apply Forall_forall. intros l Hl. apply in_map_iff in Hl as [l0 [<- _]].
    unfold lowers. apply Forall_forall. intros b Hb. apply in_map_iff in Hb as [b0 [<- _]].
    apply lower_not_upper.
  - rewrite map_map. apply map_ext. intros l. apply lowers_length.
Qed.

Theorem canonical_lowers_every_flagged_name s v :
  compose_canonical s v = compose s (lower_flagged s v) /\
  (forall f x, In (f, x) (combine (s_fields s) (lower_flagged s v)) -> is_lower f = true ->
     forall n, x = VName n ->
     Forall (fun l => Forall (fun b => negb ((65 <=? b) && (b <=? 90)) = true) l) n).
Proof.
  split; [apply canonical_only_lowercases|].
  unfold lower_flagged. generalize (s_fields s) as l. intros l. revert v.
  induction l as [|g l IH]; intros [|y v] f x Hin Hf n Hx; cbn [lower_flagged_fields combine In] in Hin;
    try contradiction.
  destruct Hin as [E|Hin]; [|eapply IH; eauto].
  injection E as <- <-. destruct g as [| |c lw| | | | |]; try discriminate. destruct lw; [|discriminate].
  destruct y; cbn [lower_field] in Hx; try discriminate. injection Hx as <-.
  apply canon_all_labels.
Qed.

(* the model's canon is what the helpers behind compose_canonical do (T1 flag:
   ToName::compose_canonical sends every label through Label::compose_canonical,
   which lower-cases every octet) *)
Theorem canon_is_helper n :
  Gen.canonical_helpers_lower_all_labels = true ->
  wire_abs (canon n) = concat (map (fun l => N.of_nat (length l) :: map lower l) n) ++ [0].
Proof.
  intros _. unfold wire_abs, wire_rel, canon. f_equal. rewrite map_map. f_equal.
  apply map_ext. intros l. unfold wire_label, lowers. rewrite map_length. reflexivity.
Qed.

(* ---- the known constructor classes, one witness each, and what is excluded *)
(* ctor_reparse_IPSECKEY: accepted by new(), refused by parse; everything else new() accepts
   round-trips (exclusion: the key-less value with a key algorithm, over-long values) *)
Theorem ctor_reparse_ipseckey_refuted :
  ctor_accepts (ipseckey_schema 0) [VNum 10; VNum 0; VNum 2; VBytes []] = true /\
  ipseckey_parse (compose (ipseckey_schema 0) [VNum 10; VNum 0; VNum 2; VBytes []]) 0 3 = Err E_SHORT.
Proof. vm_compute. auto. Qed.

(* svc_ctor_reparse_TLSGROUPS: TlsSupportedGroups::from_keys writes the keys one
   after the other and checks only the total length *)
Definition groups_from_keys (ks : list N) : bytes := concat (map (be 2) ks).

Theorem tlsgroups_from_keys_refuted :
  rest_check KGroups (groups_from_keys []) = Some E_FORM.
Proof. reflexivity. Qed.

Theorem tlsgroups_from_keys_sound ks :
  ks <> [] -> rest_check KGroups (groups_from_keys ks) = None.
Proof.
  intros Hne. unfold rest_check, groups_from_keys.
  assert (Hl : length (concat (map (be 2) ks)) = (2 * length ks)%nat).
  { clear Hne. induction ks as [|k ks IH]; [reflexivity|]. cbn [map concat length].
    rewrite app_length, be_length, IH. lia. }
  rewrite Hl. destruct ks as [|k ks]; [congruence|].
  replace (2 * length (k :: ks))%nat with (S (S (2 * length ks))) by (simpl; lia).
  cbn [Nat.eqb negb andb]. rewrite Nat.even_succ_succ, Nat.even_mul. reflexivity.
Qed.
