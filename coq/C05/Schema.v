(* C05 Schema.v -- the record-data schema language.

   A record type's RDATA is a sequence of fields.  The Rust code of every
   "regular" record type in /repo/src/rdata is a straight line of
   `X::parse(parser)?` calls (parse), `self.x.compose(target)?` calls
   (compose_rdata / compose_canonical_rdata) and a sum (rdlen); the schema
   language has one constructor per kind of call that occurs:

     FNum w          u8 / u16 / u32 / Time48 and the IANA newtypes over them
                     (Rtype, SecurityAlgorithm, Ttl, Serial, Timestamp ...):
                     w octets, big endian                       (w = 1,2,4,6)
     FFix k          Ipv4Addr (k=4) / Ipv6Addr (k=16): k opaque octets
     FName c l       ParsedName::parse / ToName::compose.  c: compose_rdata
                     uses append_compressed_name on compressing targets and
                     rdlen(true) = None.  l: compose_canonical_rdata uses
                     compose_canonical (lower-cased labels)
     FCharStr chk    CharStr::parse / compose: one length octet + octets;
                     chk = CsAlnum for CaaTag (ASCII alphanumerics only)
     FCharStrs       Txt: character strings until the end of the RDATA
     FLen16          u16 length + octets (Tsig mac / other)
     FRest min       parse_octets(remaining()): the opaque remainder; parse
                     answers ShortInput when fewer than min octets remain
                     (Zonemd: 12)
     FChecked k      the remainder, accepted only if it passes a structural
                     check (type bitmap, SVCB parameters, EDNS option shapes)

   Parsing happens where the Rust code does it: in a sub-parser of the whole
   message (octets m) that starts at pos and may read up to lim (= pos +
   RDLENGTH).  Embedded names are read by a name decoder that sees the whole
   message, so compression pointers in the input are followed. *)
From Coq Require Import Arith NArith List Bool.
From DV Require Import Base.Outcome Base.Bytes Base.Names Base.PName.
Import ListNotations.
Local Open Scope N_scope.

(* error classes: 1 = ParseError::ShortInput (PName.E_SHORT); everything else
   is a ParseError::Form.  2,3,4 come from PName. *)
Definition E_FORM : N := 5.        (* form error raised by record data code *)
(* panic sites *)
Definition P_LONG : N := 20.       (* expect("long ...") in rdlen / compose *)

Inductive cs_check := CsAny | CsAlnum.

(* a remainder that must pass a structural check (the value is its octets):
   KBitmap     RtypeBitmap::from_octets (window blocks of 1..32 octets)
   KSvcParams  SvcParams::check_slice (key, length, data; keys strictly increasing)
   KEven       Understood / KeyTag: an even number of octets
   KExpire     Expire::parse: nothing or a u32
   KKeepalive  TcpKeepalive::parse: nothing or a u16
   KCookie     Cookie::parse: 8 octets client cookie, optionally 8..32 octets server cookie *)
Inductive chk_kind := KBitmap | KSvcParams | KEven | KExpire | KKeepalive | KCookie
  | KMult (k : nat)      (* a multiple of k octets: ipv4hint 4, ipv6hint 16 *)
  | KGroups.             (* tls-supported-groups: even and not empty *)

Inductive field :=
| FNum (w : nat)
| FFix (k : nat)
| FName (compress lower : bool)
| FCharStr (chk : cs_check)
| FCharStrs
| FLen16
| FRest (min : nat)
| FChecked (k : chk_kind).

Definition U8 := FNum 1.
Definition U16 := FNum 2.
Definition U32 := FNum 4.
Definition U48 := FNum 6.
Definition V4 := FFix 4.
Definition V6 := FFix 16.
Definition NameC (lower : bool) := FName true lower.
Definition NameU (lower : bool) := FName false lower.
Definition CharStr := FCharStr CsAny.
Definition Len8Bytes := FCharStr CsAny.   (* Nsec3Salt, OwnerHash: same wire form *)
Definition CaaTagStr := FCharStr CsAlnum.
Definition CharStrs := FCharStrs.
Definition Len16Bytes := FLen16.
Definition Rest := FRest 0.
Definition Bitmap := FChecked KBitmap.
Definition SvcParamsF := FChecked KSvcParams.

(* a check on the whole parsed value (cross-field conditions) *)
Inductive post_kind := PNone | PSubnet | PIpseckey (g : N).

Inductive fval :=
| VNum (n : N)
| VBytes (b : bytes)
| VName (n : name)
| VStrs (l : list bytes).

Definition value := list fval.

(* s_long = Some k: parse starts with LongRecordData::check_len(remaining - k)
   (k = 4 where the code computes remaining().checked_sub(4) first, which
   answers ShortInput below 4).  s_ctor_total: the constructor (new /
   from_octets) checks the total length with LongRecordData::check_len. *)
Record schema := mkS {
  s_fields : list field;
  s_long : option N;
  s_ctor_total : bool;
  s_post : post_kind
}.

(* ---- numbers *)
Fixpoint be (w : nat) (n : N) : bytes :=
  match w with
  | O => []
  | S w' => be w' (n / 256) ++ [n mod 256]
  end.
Definition of_be (l : bytes) : N := fold_left (fun a b => a * 256 + b) l 0.
Fixpoint pow256 (w : nat) : N :=
  match w with O => 1 | S w' => 256 * pow256 w' end.

(* u8::is_ascii_alphanumeric *)
Definition alnum (b : N) : bool :=
  ((48 <=? b) && (b <=? 57)) || ((65 <=? b) && (b <=? 90)) || ((97 <=? b) && (b <=? 122)).
Definition cs_ok (c : cs_check) (b : bytes) : bool :=
  match c with CsAny => true | CsAlnum => forallb alnum b end.

Definition charstr_wire (b : bytes) : bytes := len b :: b.

(* ---- structural checks; None = passes, Some e = ParseError class *)
(* RtypeBitmap::from_octets *)
Fixpoint bitmap_check (fuel : nat) (d : bytes) : option N :=
  match fuel with
  | O => Some E_FORM
  | S fuel' =>
      match d with
      | [] => None
      | [_] => Some E_SHORT
      | _ :: l :: rest =>
          if l =? 0 then Some E_FORM
          else if 32 <? l then Some E_FORM
          else if (length rest <? N.to_nat l)%nat then Some E_SHORT
          else bitmap_check fuel' (skipn (N.to_nat l) rest)
      end
  end.

(* SvcParams::check_slice; last = the previous key + 1 (0 = none yet) *)
Fixpoint svcparams_check (fuel : nat) (d : bytes) (last : N) : option N :=
  match fuel with
  | O => Some E_FORM
  | S fuel' =>
      match d with
      | [] => None
      | k1 :: k2 :: rest =>
          let key := k1 * 256 + k2 in
          if key + 1 <=? last then Some E_FORM
          else match rest with
               | l1 :: l2 :: rest' =>
                   let l := N.to_nat (l1 * 256 + l2) in
                   if (length rest' <? l)%nat then Some E_SHORT
                   else svcparams_check fuel' (skipn l rest') (key + 1)
               | _ => Some E_SHORT
               end
      | _ => Some E_SHORT
      end
  end.

Definition rest_check (k : chk_kind) (b : bytes) : option N :=
  match k with
  | KBitmap => bitmap_check (S (length b)) b
  | KSvcParams => svcparams_check (S (length b)) b 0
  | KEven => if Nat.even (length b) then None else Some E_FORM
  | KExpire => match length b with 0%nat | 4%nat => None | 1%nat | 2%nat | 3%nat => Some E_SHORT | _ => Some E_FORM end
  | KKeepalive => match length b with 0%nat | 2%nat => None | 1%nat => Some E_SHORT | _ => Some E_FORM end
  | KMult k => if (length b mod k =? 0)%nat then None else Some E_FORM
  | KGroups => if negb (length b =? 0)%nat && Nat.even (length b) then None else Some E_FORM
  | KCookie =>
      let n := len b in
      if n <? 8 then Some E_SHORT
      else if n =? 8 then None
      else if n <? 16 then Some E_FORM
      else if 40 <? n then Some E_FORM
      else None
  end.

(* ---- compose *)
Definition compose_field (canon : bool) (f : field) (x : fval) : bytes :=
  match f, x with
  | FNum w, VNum n => be w n
  | FFix _, VBytes b => b
  | FName _ lower, VName n => wire_abs (if canon && lower then Names.canon n else n)
  | FCharStr _, VBytes b => charstr_wire b
  | FCharStrs, VStrs l => concat (map charstr_wire l)
  | FLen16, VBytes b => be 2 (len b) ++ b
  | FRest _, VBytes b => b
  | FChecked _, VBytes b => b
  | _, _ => []
  end.

Fixpoint compose_fields (canon : bool) (s : list field) (v : value) : bytes :=
  match s, v with
  | f :: s', x :: v' => compose_field canon f x ++ compose_fields canon s' v'
  | _, _ => []
  end.

Definition compose (s : schema) (v : value) : bytes := compose_fields false (s_fields s) v.
Definition compose_canonical (s : schema) (v : value) : bytes := compose_fields true (s_fields s) v.

(* the value whose plain composition is the canonical form *)
Definition lower_field (f : field) (x : fval) : fval :=
  match f, x with
  | FName _ true, VName n => VName (Names.canon n)
  | _, _ => x
  end.
Fixpoint lower_flagged_fields (s : list field) (v : value) : value :=
  match s, v with
  | f :: s', x :: v' => lower_field f x :: lower_flagged_fields s' v'
  | _, _ => []
  end.
Definition lower_flagged (s : schema) (v : value) : value := lower_flagged_fields (s_fields s) v.

(* ---- advertised length: the sums written in the rdlen() bodies *)
Definition field_len (f : field) (x : fval) : N :=
  match f, x with
  | FNum w, VNum _ => N.of_nat w
  | FFix _, VBytes b => len b
  | FName _ _, VName n => N.of_nat (wire_len n) + 1      (* ToName::compose_len *)
  | FCharStr _, VBytes b => len b + 1                    (* CharStr::compose_len *)
  | FCharStrs, VStrs l => fold_right (fun b a => len b + 1 + a) 0 l
  | FLen16, VBytes b => 2 + len b
  | FRest _, VBytes b => len b
  | FChecked _, VBytes b => len b
  | _, _ => 0
  end.
Fixpoint fields_len (s : list field) (v : value) : N :=
  match s, v with
  | f :: s', x :: v' => field_len f x + fields_len s' v'
  | _, _ => 0
  end.
Definition total_len (s : schema) (v : value) : N := fields_len (s_fields s) v.

Definition is_compressible (f : field) : bool :=
  match f with FName true _ => true | _ => false end.
Definition has_compressible (s : schema) : bool := existsb is_compressible (s_fields s).

(* ComposeRecordData::rdlen(compress): None for the types that may compress
   when compress is set; otherwise the sum, computed in u16 with
   checked_add/try_from(..).expect(..) *)
Definition rdlen (s : schema) (compress : bool) (v : value) : outcome (option N) :=
  if compress && has_compressible s then Ok None
  else if 65535 <? total_len s v then Panic P_LONG
  else Ok (Some (total_len s v)).

(* ---- parse *)
Definition decoder := bytes -> N -> N -> outcome (name * N).

(* Parser::parse_octets(k) / parse_buf: check_len then take *)
Definition rd (m : bytes) (pos lim k : N) : outcome (bytes * N) :=
  if lim - pos <? k then Err E_SHORT else Ok (slice m pos (pos + k), pos + k).

(* Parser::parse_u8 *)
Definition rd8 (m : bytes) (pos lim : N) : outcome (N * N) :=
  if lim - pos <? 1 then Err E_SHORT
  else match get m pos with
       | None => Panic P_INDEX
       | Some b => Ok (b, pos + 1)
       end.

(* Txt::parse: CharStr::skip until nothing remains *)
Fixpoint parse_strs (fuel : nat) (m : bytes) (pos lim : N) (acc : list bytes)
  : outcome (list bytes * N) :=
  match fuel with
  | O => OutOfFuel
  | S fuel' =>
      if lim - pos =? 0 then Ok (rev acc, pos)
      else
        do h <- rd8 m pos lim;
        do r <- rd m (snd h) lim (fst h);
        parse_strs fuel' m (snd r) lim (fst r :: acc)
  end.

Definition parse_field (dec : decoder) (f : field) (m : bytes) (pos lim : N)
  : outcome (fval * N) :=
  match f with
  | FNum w => do r <- rd m pos lim (N.of_nat w); Ok (VNum (of_be (fst r)), snd r)
  | FFix k => do r <- rd m pos lim (N.of_nat k); Ok (VBytes (fst r), snd r)
  | FName _ _ => do r <- dec m pos lim; Ok (VName (fst r), snd r)
  | FCharStr chk =>
      do h <- rd8 m pos lim;
      do r <- rd m (snd h) lim (fst h);
      if cs_ok chk (fst r) then Ok (VBytes (fst r), snd r) else Err E_FORM
  | FCharStrs =>
      do r <- parse_strs (S (N.to_nat (lim - pos))) m pos lim [];
      Ok (VStrs (fst r), snd r)
  | FLen16 =>
      do h <- rd m pos lim 2;
      do r <- rd m (snd h) lim (of_be (fst h));
      Ok (VBytes (fst r), snd r)
  | FRest min =>
      if lim - pos <? N.of_nat min then Err E_SHORT
      else do r <- rd m pos lim (lim - pos); Ok (VBytes (fst r), snd r)
  | FChecked k =>
      do r <- rd m pos lim (lim - pos);
      match rest_check k (fst r) with
      | None => Ok (VBytes (fst r), snd r)
      | Some e => Err e
      end
  end.

Fixpoint parse_fields (dec : decoder) (s : list field) (m : bytes) (pos lim : N)
  : outcome (value * N) :=
  match s with
  | [] => Ok ([], pos)
  | f :: s' =>
      do r <- parse_field dec f m pos lim;
      do r' <- parse_fields dec s' m (snd r) lim;
      Ok (fst r :: fst r', snd r')
  end.

(* The type's `parse` as called by the record framing
   (RecordHeader::parse_into_any_record): the sub-parser covers [pos, lim);
   data left over afterwards is a form error. *)
Definition parse_type (dec : decoder) (s : schema) (m : bytes) (pos lim : N)
  : outcome (value * N) :=
  match s_long s with
  | Some k =>
      if lim - pos <? k then Err E_SHORT
      else if 65535 <? lim - pos - k then Err E_FORM
      else parse_fields dec (s_fields s) m pos lim
  | None => parse_fields dec (s_fields s) m pos lim
  end.

(* ClientSubnet::parse after the four fixed octets: family 1 / 2, exactly
   ceil(source prefix / 8) address octets (at most 4 / 16), no bit set beyond
   the prefix.  All failures are form errors. *)
Definition subnet_ok (fam src : N) (addr : bytes) : bool :=
  let pb := (src + 7) / 8 in
  ((fam =? 1) && (pb <=? 4) || (fam =? 2) && (pb <=? 16))
  && (len addr =? pb)
  && ((src mod 8 =? 0) ||
      match last addr 0 with b => b mod (2 ^ (8 - src mod 8)) =? 0 end).

(* Ipseckey::parse, gateway type g: the row was selected by the gateway type
   octet; an empty key is a ShortInput unless the algorithm is 0 (none) *)
Definition post_check (p : post_kind) (v : value) : option N :=
  match p with
  | PNone => None
  | PSubnet =>
      match v with
      | [VNum fam; VNum src; VNum _; VBytes addr] => if subnet_ok fam src addr then None else Some E_FORM
      | _ => Some E_FORM
      end
  | PIpseckey g =>
      match v with
      | VNum _ :: VNum g' :: VNum alg :: rest =>
          if negb (g' =? g) then Some E_FORM
          else match last rest (VNum 0) with
               | VBytes [] => if alg =? 0 then None else Some E_SHORT
               | _ => None
               end
      | _ => Some E_FORM
      end
  end.
Definition post_ok (p : post_kind) (v : value) : bool :=
  match post_check p v with None => true | Some _ => false end.

Definition parse_rdata (dec : decoder) (s : schema) (m : bytes) (pos lim : N)
  : outcome value :=
  do r <- parse_type dec s m pos lim;
  if snd r =? lim
  then match post_check (s_post s) (fst r) with None => Ok (fst r) | Some e => Err e end
  else Err E_FORM.

(* ---- name decoders *)
(* the message reader of base/name/parsed.rs (compression pointers followed) *)
Definition pname_dec : decoder := decode_name.

(* ParsedName::parse followed by a refusal of names whose is_compressed() flag
   is set (Ipseckey gateway).  The flag is only set by a pointer that follows
   at least one label: a name that starts with a pointer is re-based at the
   pointer target and counts as uncompressed. *)
(* strict: the caller additionally demands that the name occupied as many
   octets as its uncompressed form has (parser.pos() - start == compose_len),
   which also refuses the pointer-only form. *)
Definition pname_nc_dec (strict : bool) : decoder := fun m pos lim =>
  do p <- parse_ref m pos lim;
  if pn_compressed p then Err E_FORM
  else if strict && negb (pn_end p - pos =? pn_len p) then Err E_FORM
  else do r <- pname_labels m p; Ok (fst r, pn_end p).

(* an uncompressed reader (Names.decode_abs on the octets of [pos, lim)) *)
Definition flat_dec : decoder := fun m pos lim =>
  match decode_abs (slice m pos lim) with
  | inl (Some (n, rest)) => Ok (n, lim - len rest)
  | inl None => Err E_SHORT
  | inr FShort => Err E_SHORT
  | inr FBadLabel => Err E_BADLABEL
  | inr FLong => Err E_LONGNAME
  end.

(* ---- well-formedness *)
Definition delimited (f : field) : bool :=
  match f with FCharStrs | FRest _ | FChecked _ => false | _ => true end.
Fixpoint wf_fields (l : list field) : bool :=
  match l with
  | [] => true
  | [f] => true
  | f :: l' => delimited f && wf_fields l'
  end.
Definition wf_schema (s : schema) : bool := wf_fields (s_fields s).

Definition strb (b : bytes) : bool := (length b <=? 255)%nat && bytesb b.

(* ctor = false: what a value must satisfy to survive compose/parse.
   ctor = true: what the Rust constructors check field by field (CharStr::
   from_octets, Name, integer types, Txt::from_octets rejects the empty
   sequence; nobody checks the minimum length of a remainder). *)
Definition wf_fval (ctor : bool) (f : field) (x : fval) : bool :=
  match f, x with
  | FNum w, VNum n => n <? pow256 w
  | FFix k, VBytes b => (length b =? k)%nat && bytesb b
  | FName _ _, VName n => valid_absb n
  | FCharStr chk, VBytes b => strb b && cs_ok chk b
  | FCharStrs, VStrs l => forallb strb l && (negb ctor || negb (length l =? 0)%nat)
  | FLen16, VBytes b => (len b <=? 65535) && bytesb b
  | FRest min, VBytes b => (ctor || (min <=? length b)%nat) && bytesb b
  | FChecked k, VBytes b => bytesb b && match rest_check k b with None => true | Some _ => false end
  | _, _ => false
  end.
Fixpoint wf_fvals (ctor : bool) (s : list field) (v : value) : bool :=
  match s, v with
  | [], [] => true
  | f :: s', x :: v' => wf_fval ctor f x && wf_fvals ctor s' v'
  | _, _ => false
  end.

Definition wf_value (s : schema) (v : value) : bool :=
  wf_fvals false (s_fields s) v && (total_len s v <=? 65535) && post_ok (s_post s) v.

(* the constructor accepts.  Ipseckey::new derives the gateway type from the
   gateway and does not look at the key. *)
Definition post_ctor_ok (p : post_kind) (v : value) : bool :=
  match p with
  | PIpseckey g => match v with _ :: VNum g' :: _ => g' =? g | _ => false end
  | _ => post_ok p v
  end.
Definition ctor_accepts (s : schema) (v : value) : bool :=
  wf_fvals true (s_fields s) v && (negb (s_ctor_total s) || (total_len s v <=? 65535))
  && post_ctor_ok (s_post s) v.

(* The two ways in which an accepted value is not well-formed: *)
Definition overlong (s : schema) (v : value) : bool := 65535 <? total_len s v.
Fixpoint short_rest_fields (s : list field) (v : value) : bool :=
  match s, v with
  | FRest min :: s', VBytes b :: v' => (length b <? min)%nat || short_rest_fields s' v'
  | _ :: s', _ :: v' => short_rest_fields s' v'
  | _, _ => false
  end.
Definition short_rest (s : schema) (v : value) : bool := short_rest_fields (s_fields s) v.
