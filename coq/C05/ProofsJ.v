(* C05 ProofsJ.v -- the message name reader is sound (imported from C01), so
   the re-compose theorem for RDATA accepted from a message -- embedded names
   possibly compressed -- needs no hypothesis about the reader. *)
From Coq Require Import Arith NArith List Bool Lia ZArith.
From Coq Require Import ZifyN ZifyBool ZifyNat.
From DV Require Import Base.Outcome Base.Bytes Base.Names Base.PName
  C05.Schema C05.Gen C05.Model C05.ProofsA C05.ProofsB C05.ProofsC C05.ProofsD C05.Proofs.
From DV Require C01.Proofs.
Import ListNotations.
Local Open Scope N_scope.
Ltac Zify.zify_post_hook ::= Z.div_mod_to_equations.
(* the kernel must not unfold the 300 rounds of fuel of the name reader when it
   compares decode_name with its body *)
#[local] Strategy opaque [parse_ref pname_labels parse_labels iter_labels].

(* ---- the message name reader is sound (C01): what it returns is a valid name.
   dec_sound with the bound on lim that C01's theorem needs. *)
Definition dec_sound_in (dec : decoder) : Prop :=
  forall m pos lim n e, wf_bytes m -> lim <= mlen m -> dec m pos lim = Ok (n, e) -> valid_abs n.

Lemma dec_sound_in_of dec : dec_sound dec -> dec_sound_in dec.
Proof. intros H m pos lim n e Hm _ Hd. eapply H; eauto. Qed.

Theorem pname_dec_sound : dec_sound_in pname_dec.
Proof.
  intros m pos lim n e Hm Hl H. unfold pname_dec, decode_name in H.
  apply bind_ok in H as [p [Ep H]]. apply bind_ok in H as [r [Er H]].
  destruct (C01.Proofs.parse_ref_sound m pos lim p Ep Hl Hm) as [ls [Hls [Hv [Hlen H255]]]].
  assert (Hr : r = (ls, true)) by congruence. subst r.
  assert (Hn : n = ls) by (cbn [fst] in H; congruence). subst n.
  split; [exact Hv|lia].
Qed.

Theorem pname_nc_dec_sound strict : dec_sound_in (pname_nc_dec strict).
Proof.
  intros m pos lim n e Hm Hl H. unfold pname_nc_dec in H.
  apply bind_ok in H as [p [Ep H]].
  destruct (pn_compressed p); [discriminate|].
  destruct (strict && negb (pn_end p - pos =? pn_len p)); [discriminate|].
  apply bind_ok in H as [r [Er H]].
  destruct (C01.Proofs.parse_ref_sound m pos lim p Ep Hl Hm) as [ls [Hls [Hv [Hlen H255]]]].
  assert (Hr : r = (ls, true)) by congruence. subst r.
  assert (Hn : n = ls) by (cbn [fst] in H; congruence). subst n.
  split; [exact Hv|lia].
Qed.

(* parse results are well-formed for a reader that is sound within bounds *)
Section SoundIn.
Variable dec : decoder.
Hypothesis Hsound : dec_sound_in dec.

Lemma parse_field_wf_in f m pos lim x e :
  wf_bytes m -> lim <= mlen m ->
  parse_field dec f m pos lim = Ok (x, e) -> wf_fval false f x = true.
Proof.
  intros Hm Hl H. destruct f; try (eapply (parse_field_wf flat_dec flat_dec_sound); eauto; fail).
  cbn [parse_field] in H.
  destruct (dec m pos lim) as [[n p]| | |] eqn:E; try discriminate.
  cbn [bind fst snd] in H. injection H as <- _. cbn [wf_fval].
  apply valid_relb_spec. eapply Hsound; eauto.
Qed.

Lemma parse_fields_wf_in s : forall m pos lim v e,
  wf_bytes m -> lim <= mlen m ->
  parse_fields dec s m pos lim = Ok (v, e) -> wf_fvals false s v = true.
Proof.
  induction s as [|f s IH]; intros m pos lim v e Hm Hl H; cbn [parse_fields] in H.
  - injection H as <- _. reflexivity.
  - destruct (parse_field dec f m pos lim) as [[x p]| | |] eqn:Ef; try discriminate.
    cbn [bind fst snd] in H.
    destruct (parse_fields dec s m p lim) as [[v' p']| | |] eqn:Es; try discriminate.
    cbn [bind fst snd] in H. injection H as <- _. cbn [wf_fvals].
    rewrite (parse_field_wf_in _ _ _ _ _ _ Hm Hl Ef). eapply IH; eauto.
Qed.

Lemma parse_rdata_wf_in s m pos lim v :
  wf_bytes m -> lim <= mlen m ->
  parse_rdata dec s m pos lim = Ok v -> wf_fvals false (s_fields s) v = true.
Proof.
  intros Hm Hl H. unfold parse_rdata in H.
  destruct (parse_type dec s m pos lim) as [[v' e]| | |] eqn:E; try discriminate.
  cbn [bind fst snd] in H. destruct (e =? lim); [|discriminate].
  destruct (post_check (s_post s) v'); [discriminate|]. injection H as <-.
  unfold parse_type in E. destruct (s_long s) as [k|].
  - destruct (lim - pos <? k); [discriminate|]. destruct (65535 <? lim - pos - k); [discriminate|].
    eapply parse_fields_wf_in; eauto.
  - eapply parse_fields_wf_in; eauto.
Qed.
End SoundIn.

(* RDATA accepted from a message -- embedded names possibly compressed, read by
   the message name reader -- re-composes (uncompressed) to octets that the
   same reader parses to the same value.  No hypothesis on the reader is left. *)
Theorem table_recompose_compressed t s m pos lim v pre post :
  schema_of t = Some s -> wf_bytes m -> lim <= mlen m ->
  parse_rdata pname_dec s m pos lim = Ok v ->
  total_len s v <= 65535 ->
  parse_rdata pname_dec s (pre ++ compose s v ++ post) (len pre) (len pre + len (compose s v)) = Ok v.
Proof.
  intros Hs Hm Hl Hp Ht. apply parse_compose.
  - apply pname_dec_complete.
  - eapply schema_of_wf; eauto.
  - unfold wf_value. rewrite (parse_rdata_wf_in pname_dec pname_dec_sound s m pos lim v Hm Hl Hp).
    rewrite (parse_rdata_post pname_dec s m pos lim v Hp).
    apply N.leb_le in Ht. rewrite Ht. reflexivity.
Qed.

