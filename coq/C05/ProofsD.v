(* C05 ProofsD.v -- the message name reader of Base/PName.v (parse_ref followed
   by the label iterator, i.e. what ParsedName::parse + iteration gives) reads
   back every valid uncompressed name: dec_complete pname_dec.  Hence the
   round-trip theorems hold for the very reader that the correspondence runs
   use, not only for the flat decoder. *)
From Coq Require Import Arith NArith List Bool Lia ZArith.
From Coq Require Import ZifyN ZifyBool ZifyNat.
From DV Require Import Base.Outcome Base.Bytes Base.Names Base.PName
  C05.Schema C05.ProofsA C05.ProofsB.
Import ListNotations.
Local Open Scope N_scope.
Ltac Zify.zify_post_hook ::= Z.div_mod_to_equations.

Definition W (n : name) : N := N.of_nat (wire_len n).

Lemma W_app a b : W (a ++ b) = W a + W b.
Proof. unfold W. rewrite wire_len_app. lia. Qed.

Lemma W_cons l n : W (l :: n) = 1 + len l + W n.
Proof. unfold W, len. cbn [wire_len]. lia. Qed.

Lemma W_nil : W [] = 0.
Proof. reflexivity. Qed.

Lemma len_wire_rel n : len (wire_rel n) = W n.
Proof. unfold len, W. rewrite wire_rel_length. reflexivity. Qed.

Lemma wire_abs_app a b : wire_abs (a ++ b) = wire_rel a ++ wire_abs b.
Proof. unfold wire_abs. rewrite wire_rel_app, app_assoc. reflexivity. Qed.

Lemma split_label pre n1 l n2 post :
  pre ++ wire_abs (n1 ++ l :: n2) ++ post =
  (pre ++ wire_rel n1) ++ len l :: (l ++ wire_abs n2 ++ post).
Proof.
  rewrite wire_abs_app. rewrite <- (app_assoc (wire_rel n1)). rewrite wire_abs_cons.
  rewrite app_assoc. unfold len. reflexivity.
Qed.

Lemma split_root pre n post :
  pre ++ wire_abs n ++ post = (pre ++ wire_rel n) ++ 0 :: post.
Proof. unfold wire_abs. rewrite <- !app_assoc. reflexivity. Qed.

Lemma ltp_at m cur lim pre' b post' :
  m = pre' ++ b :: post' -> cur = len pre' -> cur < lim -> b <= 63 ->
  label_type_parse m cur lim = Ok (LNormal b, cur + 1).
Proof.
  intros -> -> Hl Hb. unfold label_type_parse.
  destruct (N.leb_spec lim (len pre')) as [L|L]; [lia|].
  rewrite get_mid. destruct (N.leb_spec b 63) as [L2|L2]; [reflexivity|lia].
Qed.

Section Flat.
Variables (pre post : bytes) (n : name) (lim : N).
Hypothesis Hvalid : valid_abs n.
Hypothesis Hlo : len pre + len (wire_abs n) <= lim.
Hypothesis Hhi : lim <= len (pre ++ wire_abs n ++ post).

Let m := pre ++ wire_abs n ++ post.
Let P := len pre.

Lemma total_bound : W n <= 254.
Proof. destruct Hvalid as [_ H]. unfold W. lia. Qed.

Lemma lim_lo : P + W n + 1 <= lim.
Proof. subst P. rewrite len_wire_abs in Hlo. unfold W. lia. Qed.

Lemma label_ok n1 l n2 : n = n1 ++ l :: n2 -> 1 <= len l <= 63.
Proof.
  intros E. destruct Hvalid as [Hf _]. rewrite E in Hf.
  apply Forall_app in Hf as [_ Hf]. inversion Hf as [|? ? [Hl _] _]; subst.
  unfold len. lia.
Qed.

Lemma parse_labels_flat n2 : forall n1 fuel,
  n = n1 ++ n2 -> (length n2 < fuel)%nat ->
  parse_labels fuel m lim (P + W n1) (W n1) P false None
  = Ok (mkPName P (W n + 1) false (P + W n + 1)).
Proof.
  induction n2 as [|l n2 IH]; intros n1 fuel E Hf; (destruct fuel as [|fuel]; [simpl in Hf; lia|]);
    cbn [parse_labels].
  - rewrite app_nil_r in E. subst n1.
    rewrite (ltp_at m (P + W n) lim (pre ++ wire_rel n) 0 post);
      [| apply split_root | subst P; rewrite len_app, len_wire_rel; reflexivity
       | pose proof lim_lo; lia | lia].
    cbn [N.eqb]. reflexivity.
  - pose proof (label_ok n1 l n2 E) as Hl. pose proof total_bound as Ht. pose proof lim_lo as Hll.
    assert (HW : W n = W n1 + (1 + len l + W n2)) by (rewrite E, W_app, W_cons; reflexivity).
    rewrite (ltp_at m (P + W n1) lim (pre ++ wire_rel n1) (len l) (l ++ wire_abs n2 ++ post));
      [| subst m; rewrite E; apply split_label
       | subst P; rewrite len_app, len_wire_rel; reflexivity | lia | lia].
    destruct (N.eqb_spec (len l) 0) as [Z|_]; [lia|].
    destruct (N.ltb_spec (lim - (P + W n1 + 1)) (len l)) as [L|_]; [lia|].
    destruct (N.leb_spec 255 (W n1 + len l + 1)) as [L|_]; [lia|].
    replace (P + W n1 + 1 + len l) with (P + W (n1 ++ [l])) by (rewrite W_app, W_cons, W_nil; lia).
    replace (W n1 + len l + 1) with (W (n1 ++ [l])) by (rewrite W_app, W_cons, W_nil; lia).
    apply IH.
    + rewrite <- app_assoc. exact E.
    + simpl in Hf. lia.
Qed.

Lemma slice_at (mm : bytes) a b pre' x post' :
  mm = pre' ++ x ++ post' -> a = len pre' -> b = a + len x -> slice mm a b = x.
Proof. intros -> -> ->. apply slice_mid. Qed.

Lemma get_label_flat_label n1 l n2 fuel :
  n = n1 ++ l :: n2 ->
  get_label (S fuel) m (P + W n1) = Ok (l, P + W n1 + 1 + len l).
Proof.
  intros E. pose proof (label_ok n1 l n2 E) as Hl. pose proof lim_lo as Hll.
  assert (HW : W n = W n1 + (1 + len l + W n2)) by (rewrite E, W_app, W_cons; reflexivity).
  cbn [get_label].
  assert (Hm : m = (pre ++ wire_rel n1) ++ len l :: (l ++ wire_abs n2 ++ post))
    by (subst m; rewrite E; apply split_label).
  assert (Hp : P + W n1 = len (pre ++ wire_rel n1))
    by (subst P; rewrite len_app, len_wire_rel; reflexivity).
  rewrite Hp at 1. rewrite Hm at 1. rewrite get_mid.
  destruct (N.leb_spec (len l) 63) as [_|L]; [|lia].
  destruct (N.ltb_spec (mlen m) (P + W n1 + 1 + len l)) as [L|_].
  { unfold mlen in L. fold (len m) in L. subst m. lia. }
  f_equal. f_equal.
  apply (slice_at m _ _ ((pre ++ wire_rel n1) ++ [len l]) l (wire_abs n2 ++ post)).
  - rewrite Hm. rewrite <- !app_assoc. reflexivity.
  - rewrite len_app, len_cons, len_nil. lia.
  - reflexivity.
Qed.

Lemma get_label_flat_root fuel :
  get_label (S fuel) m (P + W n) = Ok ([], P + W n + 1).
Proof.
  pose proof lim_lo as Hll. cbn [get_label].
  assert (Hm : m = (pre ++ wire_rel n) ++ 0 :: post) by (subst m; apply split_root).
  assert (Hp : P + W n = len (pre ++ wire_rel n))
    by (subst P; rewrite len_app, len_wire_rel; reflexivity).
  rewrite Hp at 1. rewrite Hm at 1. rewrite get_mid.
  cbn [N.leb N.compare].
  destruct (N.ltb_spec (mlen m) (P + W n + 1 + 0)) as [L|_].
  { unfold mlen in L. fold (len m) in L. subst m. lia. }
  f_equal. f_equal.
  - unfold slice. replace (N.to_nat (P + W n + 1 + 0 - (P + W n + 1))) with 0%nat by lia. reflexivity.
  - lia.
Qed.

Lemma iter_labels_flat n2 : forall n1 fuel acc,
  n = n1 ++ n2 -> (length n2 < fuel)%nat ->
  iter_labels fuel m (P + W n1) (W n2 + 1) acc = Ok (rev acc ++ n2, true).
Proof.
  induction n2 as [|l n2 IH]; intros n1 fuel acc E Hf; (destruct fuel as [|fuel]; [simpl in Hf; lia|]);
    cbn [iter_labels].
  - rewrite app_nil_r in E. subst n1. rewrite W_nil.
    destruct (N.eqb_spec (0 + 1) 0) as [Z|_]; [lia|].
    rewrite get_label_flat_root. cbn [bind length Nat.eqb].
    destruct (N.ltb_spec (0 + 1) (N.of_nat 0 + 1)) as [L|_]; [lia|].
    destruct (N.eqb_spec (0 + 1 - (N.of_nat 0 + 1)) 0) as [_|Z]; [|lia].
    rewrite app_nil_r. reflexivity.
  - pose proof (label_ok n1 l n2 E) as Hl.
    destruct (N.eqb_spec (W (l :: n2) + 1) 0) as [Z|_]; [lia|].
    rewrite (get_label_flat_label n1 l n2 _ E). cbn [bind].
    fold (len l). rewrite W_cons.
    destruct (N.ltb_spec (1 + len l + W n2 + 1) (len l + 1)) as [L|_]; [lia|].
    destruct (Nat.eqb_spec (length l) 0) as [Z|_]; [unfold len in Hl; lia|].
    replace (1 + len l + W n2 + 1 - (len l + 1)) with (W n2 + 1) by lia.
    replace (P + W n1 + 1 + len l) with (P + W (n1 ++ [l])) by (rewrite W_app, W_cons, W_nil; lia).
    rewrite IH.
    + cbn [rev]. rewrite <- app_assoc. reflexivity.
    + rewrite <- app_assoc. exact E.
    + simpl in Hf. lia.
Qed.

Lemma labels_count : (length n <= wire_len n)%nat.
Proof. clear. induction n as [|l n' IH]; simpl; lia. Qed.

Lemma decode_flat_fuel fuel : (length n < fuel)%nat ->
  (do p <- parse_labels fuel m lim P 0 P false None;
   do r <- iter_labels fuel m (pn_pos p) (pn_len p) [];
   Ok (fst r, pn_end p)) = Ok (n, P + len (wire_abs n)).
Proof.
  intros Hf.
  pose proof (parse_labels_flat n [] fuel eq_refl Hf) as Hp.
  rewrite W_nil, N.add_0_r in Hp. rewrite Hp. cbn [bind pn_pos pn_len pn_end].
  pose proof (iter_labels_flat n [] fuel [] eq_refl Hf) as Hi.
  rewrite W_nil, N.add_0_r in Hi. rewrite Hi.
  cbn [bind fst rev app]. rewrite len_wire_abs. f_equal. f_equal. unfold W. lia.
Qed.

Lemma decode_name_flat :
  decode_name m P lim = Ok (n, P + len (wire_abs n)).
Proof.
  pose proof total_bound as Ht. pose proof labels_count as Hc. unfold W in Ht.
  unfold decode_name, parse_ref, pname_labels.
  apply decode_flat_fuel. unfold PARSE_FUEL. lia.
Qed.

End Flat.

Theorem pname_dec_complete : dec_complete pname_dec.
Proof.
  intros pre n post lim Hv H1 H2. unfold pname_dec.
  apply decode_name_flat; assumption.
Qed.

Theorem pname_nc_dec_complete strict : dec_complete (pname_nc_dec strict).
Proof.
  intros pre n post lim Hv H1 H2. unfold pname_nc_dec, parse_ref.
  assert (Hf : (length n < PARSE_FUEL)%nat).
  { pose proof (total_bound pre post n lim Hv H1 H2) as Ht. pose proof (labels_count n) as Hc.
    unfold W in Ht. unfold PARSE_FUEL. lia. }
  pose proof (parse_labels_flat pre post n lim Hv H1 H2 n [] PARSE_FUEL eq_refl Hf) as Hp.
  rewrite W_nil, N.add_0_r in Hp. rewrite Hp. cbn [bind pn_compressed pn_end pn_len].
  replace (len pre + W n + 1 - len pre =? W n + 1) with true by (symmetry; apply N.eqb_eq; lia).
  rewrite andb_false_r.
  unfold pname_labels. cbn [pn_pos pn_len pn_end].
  pose proof (iter_labels_flat pre post n lim Hv H1 H2 n [] PARSE_FUEL [] eq_refl Hf) as Hi.
  rewrite W_nil, N.add_0_r in Hi. rewrite Hi.
  cbn [bind fst rev app]. rewrite len_wire_abs. f_equal. f_equal. unfold W. lia.
Qed.

Example pname_dec_example :
  pname_dec ([7;7] ++ wire_abs [[119;119;119]; [97]] ++ [1;2]) 2 9 = Ok ([[119;119;119]; [97]], 9).
Proof. vm_compute. reflexivity. Qed.
