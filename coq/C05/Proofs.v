(* C05 Proofs.v -- the schema table: agreement with the source-derived rows
   (T1), finite checks over the table, instantiation of the schema-generic
   theorems for every row, the opaque fallback, RFC 4034 6.2 / RFC 6840 5.1. *)
From Coq Require Import Arith NArith List Bool Lia ZArith.
From Coq Require Import ZifyN ZifyBool ZifyNat.
From DV Require Import Base.Outcome Base.Bytes Base.Names Base.PName
  C05.Schema C05.Gen C05.Model C05.ProofsA C05.ProofsB C05.ProofsC C05.ProofsD.
Import ListNotations.
Local Open Scope N_scope.
Ltac Zify.zify_post_hook ::= Z.div_mod_to_equations.

(* ---- T1: the rows regenerated from the Rust source are the rows of Model.v *)
Example schema_src_agrees : Gen.schema_src = schema_table_regular.
Proof. reflexivity. Qed.

Example unknown_src_agrees : Gen.unknown_src = unknown_schema.
Proof. reflexivity. Qed.

(* rdlen(compress = true) answers None exactly for the rows with a
   compressible name *)
Example rdlen_none_agrees :
  Gen.rdlen_none_src = map fst (filter (fun r => has_compressible (snd r)) schema_table_regular).
Proof. reflexivity. Qed.

(* the constant and the number of length terms of every rdlen() body *)
Example rdlen_shape_agrees :
  Gen.rdlen_shape_src = map (fun r => (fst r, rdlen_shape (snd r))) schema_table_regular /\
  Gen.rdlen_shape_unknown_src = rdlen_shape unknown_schema.
Proof. split; reflexivity. Qed.

(* the constants of the structural checks as the source has them: type bitmap
   (2 header octets, a block of 2 is empty, a block above 34 is too long),
   cookie (client 8, server at most 32 and at least 8, i.e. 16..40 in total),
   client subnet families 1 / 2, IPSECKEY gateway sizes 0 / 4 / 16 *)
Example check_consts_agree : Gen.check_consts_src = [2; 2; 34; 8; 32; 8; 1; 2; 0; 4; 16].
Proof. reflexivity. Qed.

(* the IPSECKEY rows, one per gateway type, as read from Ipseckey::parse /
   IpseckeyGateway::{parse, compose_rdata} *)
Example ipseckey_src_agrees :
  Gen.ipseckey_src = map (fun g => (g, ipseckey_schema g)) [0; 1; 2; 3].
Proof. reflexivity. Qed.

Definition memN (t : N) (l : list N) : bool := existsb (N.eqb t) l.

(* the rows plus the irregular types are exactly the types of AllRecordData *)
Example all_types_covered :
  forallb (fun t => memN t (map fst schema_table_regular ++ irregular_types)) Gen.all_types_src = true /\
  forallb (fun t => memN t Gen.all_types_src) (map fst schema_table_regular ++ irregular_types) = true.
Proof. split; vm_compute; reflexivity. Qed.

(* ---- finite checks over the table *)
Lemma table_wf_check :
  forallb (fun r => wf_schema_full (snd r)) schema_table_regular = true /\
  wf_schema_full unknown_schema = true.
Proof. split; vm_compute; reflexivity. Qed.

Lemma lookup_in t l s : lookup t l = Some s -> In (t, s) l.
Proof.
  induction l as [|[k s'] l IH]; cbn [lookup]; [discriminate|].
  destruct (N.eqb_spec k t) as [->|_]; intros H.
  - injection H as ->. left. reflexivity.
  - right. apply IH. exact H.
Qed.

Lemma schema_of_cases t s :
  schema_of t = Some s -> In (t, s) schema_table_regular \/ s = unknown_schema.
Proof.
  unfold schema_of. destruct (lookup t schema_table_regular) as [s'|] eqn:E.
  - intros H. injection H as <-. left. apply lookup_in. exact E.
  - destruct (existsb (N.eqb t) irregular_types); [discriminate|].
    intros H. injection H as <-. right. reflexivity.
Qed.

Lemma schema_of_wf t s : schema_of t = Some s -> wf_schema_full s = true.
Proof.
  intros H. apply schema_of_cases in H as [H| ->].
  - destruct table_wf_check as [Hall _]. rewrite forallb_forall in Hall.
    apply (Hall (t, s) H).
  - apply table_wf_check.
Qed.

(* ---- the theorems for every record type of the table and for unknown types *)
Theorem table_parse_compose t s v pre post :
  schema_of t = Some s -> wf_value s v = true ->
  parse_rdata pname_dec s (pre ++ compose s v ++ post) (len pre) (len pre + len (compose s v)) = Ok v /\
  parse_rdata flat_dec s (pre ++ compose s v ++ post) (len pre) (len pre + len (compose s v)) = Ok v.
Proof.
  intros Hs Hv. apply schema_of_wf in Hs. split.
  - apply parse_compose; auto. apply pname_dec_complete.
  - apply parse_compose; auto. apply flat_dec_complete.
Qed.

Theorem table_rdlen_exact t s v :
  schema_of t = Some s -> wf_value s v = true ->
  rdlen s false v = Ok (Some (len (compose s v))) /\
  rdlen s true v = (if has_compressible s then Ok None else Ok (Some (len (compose s v)))).
Proof. intros _ Hv. apply rdlen_exact. exact Hv. Qed.

Theorem table_recompose t s m pos lim v pre post :
  schema_of t = Some s -> wf_bytes m -> lim <= mlen m ->
  parse_rdata flat_dec s m pos lim = Ok v ->
  total_len s v <= 65535 ->
  parse_rdata pname_dec s (pre ++ compose s v ++ post) (len pre) (len pre + len (compose s v)) = Ok v.
Proof.
  intros Hs Hm Hl Hp Ht. eapply recompose; eauto.
  - apply flat_dec_sound.
  - apply pname_dec_complete.
  - eapply schema_of_wf; eauto.
Qed.

(* a type without embedded names: the uncompressed form of accepted RDATA is
   the accepted RDATA, so the length bound is inherited from the input *)
Definition nameless (s : schema) : bool := negb (existsb is_name (s_fields s)).

(* ---- unknown types are opaque *)
Theorem unknown_opaque t :
  schema_of t = Some unknown_schema ->
  (forall b, compose unknown_schema [VBytes b] = b /\ compose_canonical unknown_schema [VBytes b] = b) /\
  (forall dec m pos lim, pos <= lim ->
     parse_rdata dec unknown_schema m pos lim = Ok [VBytes (slice m pos lim)]).
Proof.
  intros _. split.
  - intros b. unfold compose, compose_canonical. cbn. rewrite app_nil_r. auto.
  - intros dec m pos lim Hle. unfold parse_rdata, parse_type, unknown_schema.
    cbn [s_long s_fields parse_fields parse_field Rest].
    destruct (N.ltb_spec (lim - pos) (N.of_nat 0)) as [L|L]; [lia|].
    unfold rd. destruct (N.ltb_spec (lim - pos) (lim - pos)) as [L2|L2]; [lia|].
    cbn [bind fst snd]. replace (pos + (lim - pos)) with lim by lia.
    rewrite N.eqb_refl. reflexivity.
Qed.

Example unknown_opaque_nonvacuous :
  schema_of 65280 = Some unknown_schema /\ schema_of 99 = Some unknown_schema /\
  schema_of 45 = None /\
  parse_rdata pname_dec unknown_schema [9;9;1;2;3;9] 2 5 = Ok [VBytes [1;2;3]].
Proof. vm_compute. auto. Qed.

(* ---- RFC 4034 6.2 as amended by RFC 6840 5.1 *)
(* rows of the table *)
Theorem lower_flags_are_rfc :
  forallb row_follows_rfc schema_table_regular = true.
Proof. vm_compute. reflexivity. Qed.

(* all types with embedded names, the irregular ones included, read from the
   compose_canonical_rdata bodies: a type lower-cases iff the RFCs list it *)
Theorem lowercasing_types_are_rfc :
  forallb (fun t => Bool.eqb (memN t Gen.lower_types_src) (memN t rfc4034_6_2_types)) Gen.name_types_src = true /\
  forallb (fun t => memN t Gen.name_types_src) Gen.lower_types_src = true.
Proof. split; vm_compute; reflexivity. Qed.

Theorem lower_flags_spec t s :
  In (t, s) schema_table_regular ->
  (memN t rfc4034_6_2_types = true -> forall f, In f (s_fields s) -> is_name f = true -> is_lower f = true) /\
  (memN t rfc4034_6_2_types = false -> forall f, In f (s_fields s) -> is_lower f = false).
Proof.
  intros Hin. pose proof lower_flags_are_rfc as H. rewrite forallb_forall in H.
  specialize (H _ Hin). unfold row_follows_rfc, memN in *. split; intros Hm; rewrite Hm in H.
  - intros f Hf Hn. apply negb_true_iff in H.
    destruct (is_lower f) eqn:El; [reflexivity|].
    assert (existsb is_name_not_lower (s_fields s) = true).
    { apply existsb_exists. exists f. split; [exact Hf|].
      destruct f as [| |c l| | | | |]; try discriminate. destruct l; [discriminate|reflexivity]. }
    congruence.
  - intros f Hf. apply negb_true_iff in H.
    destruct (is_lower f) eqn:El; [|reflexivity].
    assert (existsb is_lower (s_fields s) = true).
    { apply existsb_exists. exists f. auto. }
    congruence.
Qed.

(* the canonical form of a row differs from the wire form only in the names
   of the listed types: for unlisted types it is the wire form *)
Theorem canonical_unlisted_is_wire t s v :
  In (t, s) schema_table_regular -> memN t rfc4034_6_2_types = false ->
  compose_canonical s v = compose s v.
Proof.
  intros Hin Hm. apply canonical_is_wire_without_flags.
  apply forallb_forall. intros f Hf.
  destruct (lower_flags_spec t s Hin) as [_ H]. specialize (H Hm f Hf).
  destruct f as [| |c l| | | | |]; try reflexivity. destruct l; [discriminate|reflexivity].
Qed.

(* ---- the constructors: which accepted values are not well-formed *)
Theorem ctor_rdlen_refuted :
  exists t s v, schema_of t = Some s /\ ctor_accepts s v = true /\ rdlen s false v = Panic P_LONG.
Proof.
  exists 52, (plain [U8; U8; U8; Rest]), [VNum 0; VNum 0; VNum 0; VBytes (repeat 0 65533)].
  vm_compute. auto.
Qed.

Theorem ctor_roundtrip_refuted :
  exists t s v, schema_of t = Some s /\ ctor_accepts s v = true /\
    parse_rdata pname_dec s (compose s v) 0 (len (compose s v)) = Err E_SHORT.
Proof.
  exists 63, (plain [U32; U8; U8; FRest 12]), [VNum 1; VNum 1; VNum 1; VBytes (repeat 7 11)].
  vm_compute. auto.
Qed.

Lemma table_no_post :
  forallb (fun r => match s_post (snd r) with PNone => true | _ => false end) schema_table_regular = true.
Proof. vm_compute. reflexivity. Qed.

Lemma schema_of_post t s v : schema_of t = Some s -> post_ok (s_post s) v = true.
Proof.
  intros H. apply schema_of_cases in H as [H| ->]; [|reflexivity].
  pose proof table_no_post as Hall. rewrite forallb_forall in Hall. specialize (Hall _ H).
  cbn [snd] in Hall. destruct (s_post s); try discriminate. reflexivity.
Qed.

Theorem table_ctor_sound t s v pre post :
  schema_of t = Some s -> ctor_accepts s v = true ->
  overlong s v = false -> short_rest s v = false ->
  parse_rdata pname_dec s (pre ++ compose s v ++ post) (len pre) (len pre + len (compose s v)) = Ok v /\
  rdlen s false v = Ok (Some (len (compose s v))).
Proof.
  intros Hs Hc Ho Hr. pose proof (ctor_accepts_wf s v Hc Ho Hr (schema_of_post t s v Hs)) as Hw. split.
  - apply (table_parse_compose t s v pre post Hs Hw).
  - apply (rdlen_exact s v Hw).
Qed.

(* ---- equality of opaque record data inside the enums *)
Lemma bytes_eqb_refl b : bytes_eqb b b = true.
Proof. induction b as [|x b IH]; [reflexivity|]. cbn [bytes_eqb]. rewrite N.eqb_refl, IH. reflexivity. Qed.

Lemma bytes_eqb_eq a b : bytes_eqb a b = true <-> a = b.
Proof.
  revert b; induction a as [|x a IH]; intros [|y b]; cbn [bytes_eqb]; split; intros H;
    try reflexivity; try discriminate.
  - apply andb_true_iff in H as [H1 H2]. apply N.eqb_eq in H1. apply IH in H2. congruence.
  - injection H as -> ->. rewrite N.eqb_refl. apply IH. reflexivity.
Qed.

(* with the arm present, == on unknown data is equality of type and octets *)
Theorem unknown_eq_spec t1 b1 t2 b2 :
  Gen.all_eq_has_unknown_arm = true ->
  (all_eq_unknown t1 b1 t2 b2 = true <-> t1 = t2 /\ b1 = b2).
Proof.
  intros H. unfold all_eq_unknown, unknown_eq. rewrite H.
  rewrite andb_true_iff, N.eqb_eq, bytes_eqb_eq. reflexivity.
Qed.

Theorem zone_unknown_eq_spec t1 b1 t2 b2 :
  zone_eq_unknown t1 b1 t2 b2 = true <-> t1 = t2 /\ b1 = b2.
Proof.
  unfold zone_eq_unknown, unknown_eq. change Gen.zone_eq_has_unknown_arm with true. cbn iota.
  rewrite andb_true_iff, N.eqb_eq, bytes_eqb_eq. reflexivity.
Qed.

(* without it no unknown value equals itself *)
Theorem allrecorddata_eq_unknown_refuted :
  Gen.all_eq_has_unknown_arm = false -> forall t b, all_eq_unknown t b t b = false.
Proof. intros H t b. unfold all_eq_unknown. rewrite H. reflexivity. Qed.

Example eq_unknown_example : zone_eq_unknown 99 [1;2] 99 [1;2] = true /\ zone_eq_unknown 99 [1;2] 98 [1;2] = false.
Proof. vm_compute. auto. Qed.

(* non-vacuity of the table theorems: an MX value in the middle of a message *)
Example table_example :
  exists s, schema_of 15 = Some s /\
  wf_value s [VNum 10; VName [[109;120]; [65]]] = true /\
  compose s [VNum 10; VName [[109;120]; [65]]] = [0;10;2;109;120;1;65;0] /\
  compose_canonical s [VNum 10; VName [[109;120]; [65]]] = [0;10;2;109;120;1;97;0] /\
  rdlen s true [VNum 10; VName [[109;120]; [65]]] = Ok None /\
  (* compressed input: the exchange is "mx" + pointer to offset 1 *)
  parse_rdata pname_dec s [9;1;65;0;0;10;2;109;120;192;1] 4 11 = Ok [VNum 10; VName [[109;120]; [65]]].
Proof. exists (plain [U16; NameC true]). vm_compute. repeat split; reflexivity. Qed.
