(* C05 ProofsP.v -- second half of the refinement of the in-buffer
   SvcParamsBuilder: the slot fix-up re-establishes the invariant, hence for
   EVERY push sequence (that fits a u32 offset) the frozen octets are those of
   the sorted association list. *)
From Coq Require Import Arith NArith List Bool Lia ZArith Permutation.
From Coq Require Import ZifyN ZifyBool ZifyNat.
From DV Require Import Base.Outcome Base.Bytes Base.Names Base.PName
  C05.Schema C05.Gen C05.OptModel C05.SvcModel C05.SvcBuf C05.ProofsA C05.ProofsB C05.ProofsO.
Import ListNotations.
Local Open Scope N_scope.

Lemma svc_insert_split key data l1 : forall l2,
  (forall c, In c l1 -> c_key c < key) ->
  match l2 with c :: _ => key < c_key c | [] => True end ->
  svc_insert (key, data) (map kd (l1 ++ l2)) = Some (map kd l1 ++ (key, data) :: map kd l2).
Proof.
  induction l1 as [|c t IH]; intros l2 Hlt Hh; cbn [app map svc_insert].
  - destruct l2 as [|c t]; [reflexivity|]. cbn [map svc_insert kd fst].
    destruct (N.ltb_spec key (c_key c)); [reflexivity|lia].
  - cbn [kd fst]. assert (c_key c < key) by (apply Hlt; left; reflexivity).
    destruct (N.ltb_spec key (c_key c)); [lia|]. destruct (N.eqb_spec key (c_key c)); [lia|].
    rewrite IH; [reflexivity| |exact Hh]. intros c' Hc'. apply Hlt. right. exact Hc'.
Qed.

Lemma svc_insert_dup key data l1 : forall c t,
  (forall x, In x l1 -> c_key x < key) -> c_key c = key ->
  svc_insert (key, data) (map kd (l1 ++ c :: t)) = None.
Proof.
  induction l1 as [|x r IH]; intros c t Hlt Hk; cbn [app map svc_insert kd fst].
  - destruct (N.ltb_spec key (c_key c)); [lia|]. destruct (N.eqb_spec key (c_key c)); [reflexivity|lia].
  - assert (c_key x < key) by (apply Hlt; left; reflexivity).
    destruct (N.ltb_spec key (c_key x)); [lia|]. destruct (N.eqb_spec key (c_key x)); [lia|].
    rewrite IH; [reflexivity| |exact Hk]. intros y Hy. apply Hlt. right. exact Hy.
Qed.

Lemma asc_map f l : (forall c, c_key (f c) = c_key c) -> forall lo, asc lo l -> asc lo (map f l).
Proof.
  intros Hf. induction l as [|c r IH]; intros lo H; cbn [asc map] in *; [exact I|].
  destruct H as [H1 H2]. rewrite Hf. split; [exact H1|]. apply IH. exact H2.
Qed.

Lemma asc_ins nc l2 l1 : forall lo, lo <= c_key nc -> asc lo (l1 ++ l2) ->
  (forall c, In c l1 -> c_key c < c_key nc) ->
  match l2 with c :: _ => c_key nc < c_key c | [] => True end ->
  asc lo (l1 ++ nc :: l2).
Proof.
  induction l1 as [|c r IH]; intros lo Hlo Ha Hlt Hh; cbn [app asc] in *.
  - split; [exact Hlo|]. destruct l2 as [|c t]; [exact I|]. cbn [asc] in *. destruct Ha. split; [lia|assumption].
  - destruct Ha as [H1 H2]. split; [exact H1|]. assert (c_key c < c_key nc) by (apply Hlt; left; reflexivity).
    apply IH; [lia|exact H2|intros x Hx; apply Hlt; right; exact Hx|exact Hh].
Qed.

Definition Inv (b : sbuf) (l : list cell) : Prop :=
  laid 4 (b_cells b) (b_len b) /\ Permutation l (b_cells b) /\ asc 0 l /\
  chain (b_first b) l PMAX /\ b_len b < PMAX /\ l <> [].

Definition R (b : sbuf) (L : list edns_option) : Prop :=
  (b_cells b = [] /\ b_len b = 0 /\ L = []) \/ (exists l, Inv b l /\ L = map kd l).

Definition upd (pos v : N) (c : cell) : cell :=
  if slot c =? pos then mkCell (c_start c) (c_key c) (c_data c) v else c.

Lemma upd_start pos v c : c_start (upd pos v c) = c_start c /\ c_data (upd pos v c) = c_data c.
Proof. unfold upd. destruct (slot c =? pos); auto. Qed.
Lemma upd_key pos v c : c_key (upd pos v c) = c_key c.
Proof. unfold upd. destruct (slot c =? pos); auto. Qed.
Lemma upd_kd pos v c : kd (upd pos v c) = kd c.
Proof. unfold upd, kd. destruct (slot c =? pos); auto. Qed.
Lemma map_upd_id pos v l : (forall c, In c l -> slot c <> pos) -> map (upd pos v) l = l.
Proof.
  induction l as [|c r IH]; intros H; [reflexivity|]. cbn [map]. rewrite IH by (intros x Hx; apply H; right; exact Hx).
  unfold upd. destruct (N.eqb_spec (slot c) pos) as [E|_]; [|reflexivity]. exfalso. apply (H c); [left; reflexivity|exact E].
Qed.

Lemma write_slot_nz pos v b : pos <> 0 ->
  write_slot pos v b = mkBuf (b_first b) (map (upd pos v) (b_cells b)) (b_len b).
Proof. intros H. unfold write_slot. destruct (N.eqb_spec pos 0); [contradiction|reflexivity]. Qed.

Lemma push_raw_nonempty key data b : b_cells b <> [] ->
  push_raw (key, data) b =
  match scan key (b_cells b) None None with
  | None => None
  | Some (pre, next) =>
      let start := b_len b in
      let c := mkCell start key data (match next with Some (_, p) => p | None => PMAX end) in
      let pos := match pre with Some (_, p) => p | None => 0 end in
      Some (write_slot pos start (mkBuf (b_first b) (b_cells b ++ [c]) (start + 4 + len data + 4)))
  end.
Proof. intros H. unfold push_raw. destruct (b_cells b); [contradiction|reflexivity]. Qed.

Lemma freeze_inv b l : Inv b l -> freeze b = Ok (opt_frame (map kd l)).
Proof.
  intros [Hl [Hp [Ha [Hc [Hlen Hne]]]]]. unfold freeze.
  destruct (b_cells b) as [|c0 r] eqn:Ec.
  - apply Permutation_sym, Permutation_nil in Hp. contradiction.
  - rewrite <- Ec in *.
    rewrite (follow_chain (b_cells b) (laid_nodup_start _ _ _ Hl) l (b_first b)); [reflexivity|exact Hc| |].
    + intros c Hin. assert (Hic : In c (b_cells b)) by (eapply Permutation_in; eauto). split; [exact Hic|].
      destruct (laid_bounds _ _ _ Hl) as [_ Hall]. destruct (Hall _ Hic). unfold csize in *. lia.
    + rewrite (Permutation_length Hp). lia.
Qed.

(* chain of the successor part, whatever pointed to it before *)
Lemma chain_tail q l2 : chain q l2 PMAX ->
  chain (match l2 with c :: _ => c_start c | [] => PMAX end) l2 PMAX.
Proof. destruct l2 as [|c t]; cbn [chain]; [reflexivity|]. intros [_ H]. split; [reflexivity|exact H]. Qed.

Lemma push_step key data b L :
  R b L -> b_len b + 12 + len data < PMAX ->
  match svc_insert (key, data) L with
  | Some L' => exists b', push_raw (key, data) b = Some b' /\ R b' L' /\ b_len b' <= b_len b + 12 + len data
  | None => push_raw (key, data) b = None
  end.
Proof.
  intros [[Hc [Hz ->]]|[l [[Hl [Hp [Ha [Hch [Hlen Hne]]]]] ->]]] Hsz.
  - (* empty buffer *)
    cbn [svc_insert]. unfold push_raw. rewrite Hc.
    eexists. split; [reflexivity|]. split; [|cbn [b_len]; lia].
    right. exists [mkCell 4 key data PMAX]. split; [|reflexivity].
    unfold Inv. cbn [b_cells b_len b_first laid chain asc c_start c_next c_key c_data].
    unfold csize. cbn [c_data]. repeat split; try lia; try reflexivity; try discriminate.
  - destruct (asc_split key l 0 Ha) as [l1 [l2 [El [Hlt [Ha1 [Ha2 Hh]]]]]].
    assert (Hcells : b_cells b <> []).
    { intros E. rewrite E in Hp. apply Permutation_sym, Permutation_nil in Hp. contradiction. }
    rewrite (push_raw_nonempty key data b Hcells).
    assert (Hcase : (exists c2 t2, l2 = c2 :: t2 /\ c_key c2 = key) \/
                    match l2 with c :: _ => key < c_key c | [] => True end).
    { destruct l2 as [|c2 t2]; [right; exact I|]. destruct (N.eq_dec (c_key c2) key) as [E|E].
      - left. exists c2, t2. auto.
      - right. lia. }
    destruct Hcase as [[c2 [t2 [El2 Ek]]]|Hgt].
    + (* duplicate *)
      subst l2. rewrite El, (svc_insert_dup key data l1 c2 t2 Hlt Ek).
      rewrite (scan_duplicate key (b_cells b) l Hp Ha); [reflexivity|].
      exists c2. split; [rewrite El; apply in_or_app; right; left; reflexivity|exact Ek].
    + clear Hh. subst l.
      rewrite (svc_insert_split key data l1 l2 Hlt Hgt).
      rewrite (scan_neighbours key (b_cells b) l1 l2 Hp Ha Hlt Hgt).
      set (nx := match l2 with c :: _ => c_start c | [] => PMAX end).
      set (nc := mkCell (b_len b) key data nx).
      assert (Enc : mkCell (b_len b) key data
                 (match (match l2 with c :: _ => Some (c_key c, c_start c) | [] => None end) with
                  | Some (_, p) => p | None => PMAX end) = nc).
      { subst nc nx. destruct l2; reflexivity. }
      cbv zeta. rewrite Enc. clear Enc.
      assert (Hlaid' : laid 4 (b_cells b ++ [nc]) (b_len b + 4 + len data + 4)).
      { replace (b_len b + 4 + len data + 4) with (b_len b + csize nc) by (unfold csize; cbn [c_data nc]; lia).
        apply laid_app; [exact Hl|reflexivity]. }
      assert (Hperm' : Permutation (l1 ++ nc :: l2) (b_cells b ++ [nc])).
      { eapply Permutation_trans; [apply Permutation_sym, Permutation_middle|].
        eapply Permutation_trans; [apply perm_skip; exact Hp|]. apply Permutation_cons_append. }
      assert (Hasc' : asc 0 (l1 ++ nc :: l2)).
      { apply asc_ins; [cbn [c_key nc]; lia|exact Ha|exact Hlt|exact Hgt]. }
      destruct (rev l1) as [|pc t1] eqn:Er.
      * (* no predecessor: the first-slot is rewritten *)
        assert (El1 : l1 = []) by (apply (f_equal (@rev _)) in Er; rewrite rev_involutive in Er; exact Er).
        subst l1. cbn [app] in *. unfold write_slot. cbn [N.eqb b_cells b_first b_len].
        eexists. split; [reflexivity|]. split; [|cbn [b_len]; lia].
        right. exists (nc :: l2). split; [|reflexivity].
        unfold Inv. cbn [b_cells b_len b_first].
        split; [exact Hlaid'|]. split; [exact Hperm'|]. split; [exact Hasc'|].
        split; [|split; [lia|discriminate]].
        cbn [chain]. split; [reflexivity|]. cbn [c_next nc]. apply (chain_tail _ _ Hch).
      * (* predecessor pc: its slot gets the start of the new cell *)
        assert (El1 : l1 = rev t1 ++ [pc]).
        { apply (f_equal (@rev _)) in Er. rewrite rev_involutive in Er. exact Er. }
        set (l1' := rev t1) in *. subst l1. rewrite <- app_assoc in *. cbn [app] in *.
        assert (Hpc_in : In pc (b_cells b)).
        { eapply Permutation_in; [exact Hp|]. apply in_or_app. right. left. reflexivity. }
        destruct (laid_bounds _ _ _ Hl) as [_ Hall]. destruct (Hall _ Hpc_in) as [Hpc1 Hpc2].
        assert (Hpos : slot pc <> 0) by (unfold slot; lia).
        rewrite (write_slot_nz _ _ _ Hpos). cbn [b_cells b_first b_len].
        set (U := upd (slot pc) (b_len b)).
        (* U changes pc only *)
        assert (Hnk : NoDup (map c_key (l1' ++ pc :: l2))) by (eapply asc_nodup; eauto).
        assert (Hslot : forall c, In c (l1' ++ l2) -> slot c <> slot pc).
        { intros c Hin E.
          assert (Hc_in : In c (b_cells b)).
          { eapply Permutation_in; [exact Hp|]. apply in_app_or in Hin as [H|H]; apply in_or_app; [left|right; right]; exact H. }
          assert (c = pc) by (eapply (nodup_map_inj slot); [eapply laid_nodup_slot; exact Hl| | |]; eauto).
          subst c. rewrite map_app in Hnk. cbn [map] in Hnk. apply NoDup_remove_2 in Hnk. apply Hnk.
          rewrite <- map_app. apply in_map. exact Hin. }
        assert (Hnc : slot nc <> slot pc) by (unfold slot, csize in *; cbn [c_start c_data nc]; lia).
        assert (EU : map U (l1' ++ pc :: nc :: l2) =
                     l1' ++ mkCell (c_start pc) (c_key pc) (c_data pc) (b_len b) :: nc :: l2).
        { rewrite map_app. cbn [map]. f_equal.
          - apply map_upd_id. intros c Hc. apply Hslot. apply in_or_app. left. exact Hc.
          - f_equal; [unfold U, upd; rewrite N.eqb_refl; reflexivity|]. f_equal.
            + unfold U, upd. destruct (N.eqb_spec (slot nc) (slot pc)); [contradiction|reflexivity].
            + apply map_upd_id. intros c Hc. apply Hslot. apply in_or_app. right. exact Hc. }
        eexists. split; [reflexivity|]. split; [|cbn [b_len]; lia].
        right. exists (map U (l1' ++ pc :: nc :: l2)). split.
        -- unfold Inv. cbn [b_cells b_len b_first]. split; [|split; [|split; [|split; [|split]]]].
           ++ apply laid_map; [intros c; apply upd_start|exact Hlaid'].
           ++ apply Permutation_map. exact Hperm'.
           ++ apply asc_map; [intros c; apply upd_key|exact Hasc'].
           ++ rewrite EU. apply chain_app in Hch as [m [Hm1 Hm2]]. apply chain_app. exists m. split; [exact Hm1|].
              cbn [chain] in *. destruct Hm2 as [Hm Hrest]. cbn [c_start c_next]. split; [exact Hm|].
              split; [reflexivity|]. cbn [c_next nc]. apply (chain_tail _ _ Hrest).
           ++ lia.
           ++ rewrite EU. destruct l1'; discriminate.
        -- assert (Ekd : map kd (map U (l1' ++ pc :: nc :: l2)) = map kd (l1' ++ pc :: nc :: l2))
             by (rewrite map_map; apply map_ext; intros c; unfold U; apply upd_kd).
           rewrite Ekd. rewrite !map_app. cbn [map app]. rewrite <- ?app_assoc. reflexivity.
Qed.

(* ---- every push sequence *)
Definition psize (pushes : list edns_option) : N :=
  fold_right (fun o a => 12 + len (snd o) + a) 0 pushes.

Lemma push_all_R pushes : forall b L,
  R b L -> b_len b + psize pushes < PMAX ->
  match svc_push_all L pushes with
  | Some L' => exists b', push_all b pushes = Some b' /\ R b' L'
  | None => push_all b pushes = None
  end.
Proof.
  induction pushes as [|[key data] p IH]; intros b L HR Hsz; cbn [svc_push_all push_all].
  - exists b. auto.
  - cbn [psize fold_right snd] in Hsz. fold (psize p) in Hsz.
    pose proof (push_step key data b L HR) as Hstep.
    destruct (svc_insert (key, data) L) as [L1|].
    + destruct Hstep as [b1 [Hp1 [HR1 Hlen1]]]; [lia|]. rewrite Hp1. apply IH; [exact HR1|lia].
    + rewrite Hstep by lia. reflexivity.
Qed.

Theorem inbuf_refines_list pushes :
  psize pushes < PMAX ->
  match svc_build pushes with
  | Some b => inbuf_build pushes = Some (Ok b)
  | None => inbuf_build pushes = None
  end.
Proof.
  intros Hsz. unfold svc_build, inbuf_build.
  assert (HR0 : R empty_buf []) by (left; auto).
  pose proof (push_all_R pushes empty_buf [] HR0) as H. cbn [b_len empty_buf] in H.
  destruct (svc_push_all [] pushes) as [L|].
  - destruct H as [b' [Hp HR]]; [lia|]. rewrite Hp. f_equal.
    destruct HR as [[Hc [_ ->]]|[l [Hinv ->]]].
    + unfold freeze. rewrite Hc. reflexivity.
    + apply freeze_inv. exact Hinv.
  - rewrite H by lia. reflexivity.
Qed.

Example inbuf_refines_list_example :
  psize [(3, [1;187]); (1, [2;104;50]); (0, [0;1])] < PMAX /\
  inbuf_build [(3, [1;187]); (1, [2;104;50]); (0, [0;1])] = Some (Ok [0;0;0;2;0;1; 0;1;0;3;2;104;50; 0;3;0;2;1;187]) /\
  svc_build [(3, []); (1, []); (3, [1])] = None /\ inbuf_build [(3, []); (1, []); (3, [1])] = None.
Proof. vm_compute. auto. Qed.
