(* C05 OptModel.v -- the framing of EDNS options inside OPT record data
   (base/opt/mod.rs): Opt::push / push_raw_option, Opt::from_octets
   (check_slice) followed by iteration with UnknownOptData (which accepts every
   option code).  An option is (code, data); on the wire code and length take
   two octets each. *)
From Coq Require Import Arith NArith List Bool.
From DV Require Import Base.Outcome Base.Bytes Base.Names Base.PName C05.Schema C05.Gen.
Import ListNotations.
Local Open Scope N_scope.

Definition edns_option := (N * bytes)%type.

Definition frame1 (o : edns_option) : bytes := be 2 (fst o) ++ be 2 (len (snd o)) ++ snd o.
Definition opt_frame (l : list edns_option) : bytes := concat (map frame1 l).

(* Opt::push_raw_option: LongOptData::check_len(len + [header] + option_len),
   then code, length, data.  Whether the four header octets are counted is read
   from the source (T1). *)
Definition push_header : N := if Gen.opt_push_counts_header then 4 else 0.
Definition opt_push (cur : bytes) (o : edns_option) : option bytes :=
  if 65535 <? len cur + push_header + len (snd o) then None else Some (cur ++ frame1 o).
Fixpoint opt_push_all (cur : bytes) (l : list edns_option) : option bytes :=
  match l with
  | [] => Some cur
  | o :: l' => match opt_push cur o with Some c => opt_push_all c l' | None => None end
  end.

(* OptIter::next_step with UnknownOptData, until nothing remains *)
Fixpoint opt_iter (fuel : nat) (m : bytes) (pos lim : N) (acc : list edns_option)
  : outcome (list edns_option) :=
  match fuel with
  | O => OutOfFuel
  | S fuel' =>
      if lim - pos =? 0 then Ok (rev acc)
      else
        do c <- rd m pos lim 2;
        do l <- rd m (snd c) lim 2;
        do d <- rd m (snd l) lim (of_be (fst l));
        opt_iter fuel' m (snd d) lim ((of_be (fst c), fst d) :: acc)
  end.

(* Opt::from_octets (check_slice: length bound, framing) and iteration *)
Definition opt_parse (m : bytes) : outcome (list edns_option) :=
  if 65535 <? len m then Err E_FORM else opt_iter (S (length m)) m 0 (len m) [].

Definition c05_optframe (l : list edns_option) : option bytes := opt_push_all [] l.
Definition c05_optparse (m : bytes) : outcome (list edns_option) := opt_parse m.
