(* C05 TxtLimit.v -- TxtBuilder with the RDATA size check (rdata/rfc1035/txt.rs
   builder_append_slice / append_charstr -> LongRecordData::check_append_len):
   every append is refused when it would take the octets written so far beyond
   65535.  The octets written only grow, so an operation goes through exactly
   when the size after it is within the limit.  The size counts one length
   octet per character string, closed or open. *)
From Coq Require Import Arith NArith List Bool Lia.
From DV Require Import Base.Outcome Base.Bytes Base.Names Base.PName C05.Schema C05.TxtModel.
Import ListNotations.
Local Open Scope N_scope.

Definition RDATA_MAX : N := 65535.

Definition strs_size (l : list bytes) : N := fold_right (fun s a => 1 + N.of_nat (length s) + a) 0 l.
Definition txt_size (st : tstate) : N :=
  strs_size (t_closed st) + match t_open st with Some o => 1 + N.of_nat (length o) | None => 0 end.

Definition step_chk (st : option tstate) (op : txt_op) : option tstate :=
  match st with
  | None => None
  | Some s => let s' := txt_step s op in if txt_size s' <=? RDATA_MAX then Some s' else None
  end.

Definition txt_build_chk (ops : list txt_op) : option (list bytes) :=
  match fold_left step_chk ops (Some t_empty) with
  | Some s => Some (txt_finish s)
  | None => None
  end.

(* observation for T2: octets of RDATA, number of strings, length of the last one *)
Definition c05_txtlim (ops : list txt_op) : option (N * N * N) :=
  match txt_build_chk ops with
  | None => None
  | Some l => Some (N.of_nat (length (txt_wire l)), N.of_nat (length l), N.of_nat (length (last l [])))
  end.

(* ---- what is accepted is what the unchecked builder makes, and it fits *)
Lemma fold_chk_none : forall ops, fold_left step_chk ops None = None.
Proof. induction ops; simpl; auto. Qed.

Lemma fold_chk_some : forall ops s s', fold_left step_chk ops (Some s) = Some s' ->
  txt_size s <= RDATA_MAX -> s' = fold_left txt_step ops s /\ txt_size s' <= RDATA_MAX.
Proof.
  induction ops as [|op ops IH]; simpl; intros s s' H Hs.
  - inversion H; subst; auto.
  - destruct (txt_size (txt_step s op) <=? RDATA_MAX) eqn:E.
    + apply N.leb_le in E. apply IH; auto.
    + rewrite fold_chk_none in H. discriminate.
Qed.

Lemma strs_size_cons : forall x l, strs_size (x :: l) = 1 + N.of_nat (length x) + strs_size l.
Proof. reflexivity. Qed.
Lemma strs_size_nil : strs_size [] = 0.
Proof. reflexivity. Qed.

Lemma strs_size_app : forall a b, strs_size (a ++ b) = strs_size a + strs_size b.
Proof. induction a; intros; [reflexivity|]. rewrite <- app_comm_cons, !strs_size_cons, IHa. lia. Qed.

Lemma strs_size_rev : forall l, strs_size (rev l) = strs_size l.
Proof. induction l; [reflexivity|]. simpl rev. rewrite strs_size_app, IHl, !strs_size_cons, strs_size_nil. lia. Qed.

Lemma wire_size : forall l, N.of_nat (length (txt_wire l)) = strs_size l.
Proof.
  induction l; [reflexivity|]. rewrite strs_size_cons, <- IHl. unfold txt_wire, charstr_wire. cbn [map concat app].
  cbn [length]. rewrite Nat2N.inj_succ, app_length, Nat2N.inj_add. lia.
Qed.

Lemma close_size : forall st, txt_size (close st) = txt_size st.
Proof. intros [c [o|]]; unfold close, txt_size; simpl t_open; simpl t_closed; rewrite ?strs_size_cons; lia. Qed.

Lemma finish_size : forall st, N.of_nat (length (txt_wire (txt_finish st))) = N.max 1 (txt_size st).
Proof.
  intro st. rewrite <- (close_size st). unfold txt_finish.
  assert (Hc : t_open (close st) = None) by (destruct st as [c [o|]]; reflexivity).
  unfold txt_size. rewrite Hc, N.add_0_r, <- strs_size_rev.
  destruct (rev (t_closed (close st))) as [|x r] eqn:E.
  - reflexivity.
  - rewrite wire_size. set (n := strs_size (x :: r)). assert (1 <= n) by (unfold n; rewrite strs_size_cons; lia). lia.
Qed.

Theorem txt_build_chk_sound : forall ops l, txt_build_chk ops = Some l ->
  l = txt_build ops /\ N.of_nat (length (txt_wire l)) <= RDATA_MAX.
Proof.
  unfold txt_build_chk, txt_build. intros ops l H.
  destruct (fold_left step_chk ops (Some t_empty)) as [s|] eqn:E; [|discriminate].
  inversion H; subst. apply fold_chk_some in E; [|unfold txt_size, RDATA_MAX; simpl; lia].
  destruct E as [-> E]. split; [reflexivity|]. rewrite finish_size. unfold RDATA_MAX in *. lia.
Qed.

(* the builder that refuses nothing makes the same octets whenever the checked one accepts,
   and data within the limit made of whole character strings is never refused *)
Theorem txt_build_chk_charstrs : forall l, l <> [] -> strs_size l <= RDATA_MAX ->
  txt_build_chk (map TCharStr l) = Some l.
Proof.
  intros l Hne Hsz. unfold txt_build_chk.
  assert (G : forall l c, strs_size c + strs_size l <= RDATA_MAX ->
            fold_left step_chk (map TCharStr l) (Some (mkT c None)) = Some (mkT (rev l ++ c) None)).
  { induction l0 as [|x l0 IH]; intros c Hc; [reflexivity|]. cbn [map fold_left].
    rewrite strs_size_cons in Hc.
    assert (Hs : step_chk (Some (mkT c None)) (TCharStr x) = Some (mkT (x :: c) None)).
    { unfold step_chk, txt_step, close. simpl t_open. simpl t_closed. cbv zeta.
      assert (Hx : txt_size (mkT (x :: c) None) <=? RDATA_MAX = true).
      { apply N.leb_le. unfold txt_size. simpl t_closed. simpl t_open. rewrite strs_size_cons. lia. }
      rewrite Hx. reflexivity. }
    rewrite Hs, IH.
    - simpl rev. rewrite <- app_assoc. reflexivity.
    - rewrite strs_size_cons. lia. }
  unfold t_empty. rewrite G by (rewrite strs_size_nil; lia). unfold txt_finish, close. simpl.
  rewrite app_nil_r, rev_involutive. destruct l; [contradiction|reflexivity].
Qed.
