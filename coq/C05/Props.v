(* C05 -- property theorems only.  Proofs live in C05/Proofs*.v. *)
From Coq Require Import NArith List Bool Permutation.
From DV Require Import Base.Outcome Base.Bytes Base.Names Base.PName
  C05.Schema C05.Gen C05.Model C05.OptModel C05.SvcModel C05.SvcBuf C05.TxtModel C05.TxtLimit C05.ProofsA C05.ProofsB C05.ProofsC C05.ProofsD C05.ProofsE C05.ProofsF C05.ProofsG C05.ProofsH C05.Proofs C05.ProofsI C05.ProofsJ C05.ProofsK C05.ProofsL C05.ProofsM C05.ProofsN C05.ProofsO C05.ProofsP C05.ProofsQ.
Import ListNotations.
Local Open Scope N_scope.

(* schema-generic: composing and parsing back, anywhere inside a message, with
   any name reader that reads back uncompressed names *)
Theorem C05_parse_compose : forall dec, dec_complete dec -> forall s v pre post,
  wf_schema_full s = true -> wf_value s v = true ->
  parse_rdata dec s (pre ++ compose s v ++ post) (len pre) (len pre + len (compose s v)) = Ok v.
Proof. exact parse_compose. Qed.
Print Assumptions C05_parse_compose.

(* the message name reader (compression pointers followed) and the flat reader
   both qualify *)
Theorem C05_readers_complete : dec_complete pname_dec /\ dec_complete flat_dec /\ dec_sound flat_dec.
Proof. exact (conj pname_dec_complete (conj flat_dec_complete flat_dec_sound)). Qed.
Print Assumptions C05_readers_complete.

(* every record type of the table and every unknown type *)
Theorem C05_table_parse_compose : forall t s v pre post,
  schema_of t = Some s -> wf_value s v = true ->
  parse_rdata pname_dec s (pre ++ compose s v ++ post) (len pre) (len pre + len (compose s v)) = Ok v /\
  parse_rdata flat_dec s (pre ++ compose s v ++ post) (len pre) (len pre + len (compose s v)) = Ok v.
Proof. exact table_parse_compose. Qed.
Print Assumptions C05_table_parse_compose.

Theorem C05_rdlen_exact : forall s v, wf_value s v = true ->
  rdlen s false v = Ok (Some (len (compose s v))) /\
  rdlen s true v = (if has_compressible s then Ok None else Ok (Some (len (compose s v)))).
Proof. exact rdlen_exact. Qed.
Print Assumptions C05_rdlen_exact.

Theorem C05_rdlen_never_lies : forall s v c k,
  ctor_accepts s v = true -> rdlen s c v = Ok (Some k) -> k = len (compose s v).
Proof. exact rdlen_never_lies. Qed.
Print Assumptions C05_rdlen_never_lies.

Theorem C05_recompose : forall dec dec' s m pos lim v pre post,
  dec_sound dec -> dec_complete dec' -> wf_schema_full s = true ->
  wf_bytes m -> lim <= mlen m ->
  parse_rdata dec s m pos lim = Ok v ->
  total_len s v <= 65535 ->
  parse_rdata dec' s (pre ++ compose s v ++ post) (len pre) (len pre + len (compose s v)) = Ok v.
Proof. exact recompose. Qed.
Print Assumptions C05_recompose.

Theorem C05_canonical_only_lowercases : forall s v,
  compose_canonical s v = compose s (lower_flagged s v).
Proof. exact canonical_only_lowercases. Qed.
Print Assumptions C05_canonical_only_lowercases.

Theorem C05_canonical_unlisted_is_wire : forall t s v,
  In (t, s) schema_table_regular -> memN t rfc4034_6_2_types = false ->
  compose_canonical s v = compose s v.
Proof. exact canonical_unlisted_is_wire. Qed.
Print Assumptions C05_canonical_unlisted_is_wire.

Theorem C05_lower_flags_are_rfc :
  forallb row_follows_rfc schema_table_regular = true /\
  forallb (fun t => Bool.eqb (memN t Gen.lower_types_src) (memN t rfc4034_6_2_types)) Gen.name_types_src = true /\
  forallb (fun t => memN t Gen.name_types_src) Gen.lower_types_src = true.
Proof. exact (conj lower_flags_are_rfc lowercasing_types_are_rfc). Qed.
Print Assumptions C05_lower_flags_are_rfc.

Theorem C05_unknown_opaque : forall t,
  schema_of t = Some unknown_schema ->
  (forall b, compose unknown_schema [VBytes b] = b /\ compose_canonical unknown_schema [VBytes b] = b) /\
  (forall dec m pos lim, pos <= lim ->
     parse_rdata dec unknown_schema m pos lim = Ok [VBytes (slice m pos lim)]).
Proof. exact unknown_opaque. Qed.
Print Assumptions C05_unknown_opaque.

(* the rows regenerated from the Rust source are the rows the theorems are about *)
Theorem C05_schema_src_agrees :
  Gen.schema_src = schema_table_regular /\ Gen.unknown_src = unknown_schema /\
  Gen.rdlen_none_src = map fst (filter (fun r => has_compressible (snd r)) schema_table_regular) /\
  Gen.rdlen_shape_src = map (fun r => (fst r, rdlen_shape (snd r))) schema_table_regular /\
  Gen.rdlen_shape_unknown_src = rdlen_shape unknown_schema.
Proof. exact (conj schema_src_agrees (conj unknown_src_agrees (conj rdlen_none_agrees rdlen_shape_agrees))). Qed.
Print Assumptions C05_schema_src_agrees.

(* constructors: everything they accept round-trips with an exact length,
   except over-long values (no length check in the constructor) and remainders
   below the minimum that parse demands -- both are reachable *)
Theorem C05_ctor_sound : forall t s v pre post,
  schema_of t = Some s -> ctor_accepts s v = true ->
  overlong s v = false -> short_rest s v = false ->
  parse_rdata pname_dec s (pre ++ compose s v ++ post) (len pre) (len pre + len (compose s v)) = Ok v /\
  rdlen s false v = Ok (Some (len (compose s v))).
Proof. exact table_ctor_sound. Qed.
Print Assumptions C05_ctor_sound.

Theorem C05_ctor_rdlen_refuted :
  exists t s v, schema_of t = Some s /\ ctor_accepts s v = true /\ rdlen s false v = Panic P_LONG.
Proof. exact ctor_rdlen_refuted. Qed.
Print Assumptions C05_ctor_rdlen_refuted.

Theorem C05_ctor_roundtrip_refuted :
  exists t s v, schema_of t = Some s /\ ctor_accepts s v = true /\
    parse_rdata pname_dec s (compose s v) 0 (len (compose s v)) = Err E_SHORT.
Proof. exact ctor_roundtrip_refuted. Qed.
Print Assumptions C05_ctor_roundtrip_refuted.

(* == on opaque record data inside AllRecordData: equality of type and octets
   when the Unknown arm exists in the generated PartialEq impl (T1 flag), ... *)
Theorem C05_unknown_eq_spec : forall t1 b1 t2 b2,
  Gen.all_eq_has_unknown_arm = true ->
  (all_eq_unknown t1 b1 t2 b2 = true <-> t1 = t2 /\ b1 = b2).
Proof. exact unknown_eq_spec. Qed.
Print Assumptions C05_unknown_eq_spec.

(* ... and never true, not even for a value and itself, when it is missing *)
Theorem C05_allrecorddata_eq_unknown_refuted :
  Gen.all_eq_has_unknown_arm = false -> forall t b, all_eq_unknown t b t b = false.
Proof. exact allrecorddata_eq_unknown_refuted. Qed.
Print Assumptions C05_allrecorddata_eq_unknown_refuted.

Theorem C05_zone_unknown_eq_spec : forall t1 b1 t2 b2,
  zone_eq_unknown t1 b1 t2 b2 = true <-> t1 = t2 /\ b1 = b2.
Proof. exact zone_unknown_eq_spec. Qed.
Print Assumptions C05_zone_unknown_eq_spec.

(* EDNS option framing: the framed length is the sum of 4 + data length ... *)
Theorem C05_opt_frame_len : forall l, len (opt_frame l) = framed_len l.
Proof. exact opt_frame_len. Qed.
Print Assumptions C05_opt_frame_len.

(* ... and a framed option list iterates as itself *)
Theorem C05_opt_parse_frame : forall l,
  Forall wf_option l -> framed_len l <= 65535 -> opt_parse (opt_frame l) = Ok l.
Proof. exact opt_parse_frame. Qed.
Print Assumptions C05_opt_parse_frame.

Theorem C05_opt_push_all_frame : forall l cur r,
  opt_push_all cur l = Some r -> r = cur ++ opt_frame l.
Proof. exact opt_push_all_frame. Qed.
Print Assumptions C05_opt_push_all_frame.

(* Opt::push keeps OPT data within 65535 octets iff its check counts the
   option header (T1 flag opt_push_counts_header) *)
Theorem C05_opt_push_bounded : forall cur o r,
  Gen.opt_push_counts_header = true -> opt_push cur o = Some r -> len r <= 65535.
Proof. exact opt_push_bounded. Qed.
Print Assumptions C05_opt_push_bounded.

Theorem C05_opt_push_long_refuted :
  Gen.opt_push_counts_header = false ->
  exists o r, opt_push [] o = Some r /\ 65535 < len r.
Proof. exact opt_push_long_refuted. Qed.
Print Assumptions C05_opt_push_long_refuted.

(* every type bitmap the builder produces (C13 model of RtypeBitmapBuilder) is
   accepted as the types field of the NSEC / NSEC3 rows *)
Theorem C05_built_bitmap_accepted : forall ts, Forall (fun x => x < 65536) ts ->
  rest_check KBitmap (C13.Model.bm_finalize (C13.Model.bm_adds [] ts)) = None.
Proof. exact built_bitmap_accepted. Qed.
Print Assumptions C05_built_bitmap_accepted.

(* EDNS option contents, every option code: compose then parse gives the value
   back, the announced option length is the number of octets written *)
Theorem C05_option_parse_compose : forall code v pre post,
  wf_value (option_schema code) v = true ->
  parse_rdata flat_dec (option_schema code)
    (pre ++ compose (option_schema code) v ++ post) (len pre)
    (len pre + len (compose (option_schema code) v)) = Ok v /\
  rdlen (option_schema code) false v = Ok (Some (len (compose (option_schema code) v))).
Proof. exact option_parse_compose. Qed.
Print Assumptions C05_option_parse_compose.

(* IPSECKEY, every gateway type: compose then parse (the row is picked by the
   gateway type octet), exact length *)
Theorem C05_ipseckey_parse_compose : forall g v pre post,
  g <= 3 -> wf_value (ipseckey_schema g) v = true ->
  ipseckey_parse (pre ++ compose (ipseckey_schema g) v ++ post) (len pre)
    (len pre + len (compose (ipseckey_schema g) v)) = Ok v /\
  rdlen (ipseckey_schema g) false v = Ok (Some (len (compose (ipseckey_schema g) v))).
Proof. exact ipseckey_parse_compose. Qed.
Print Assumptions C05_ipseckey_parse_compose.

(* types without embedded names: parse is exact -- what it accepts re-composes
   to the very octets read -- so the re-compose theorem needs no premise on the
   composed length beyond the RDLENGTH being a u16 *)
Theorem C05_parse_exact : forall dec s m pos lim v,
  forallb no_name (s_fields s) = true -> wf_bytes m -> lim <= mlen m -> pos <= lim ->
  parse_rdata dec s m pos lim = Ok v -> compose s v = slice m pos lim.
Proof. exact parse_exact. Qed.
Print Assumptions C05_parse_exact.

Theorem C05_recompose_nameless : forall dec dec' s m pos lim v pre post,
  dec_sound dec -> dec_complete dec' -> wf_schema_full s = true ->
  forallb no_name (s_fields s) = true ->
  wf_bytes m -> lim <= mlen m -> pos <= lim -> lim - pos <= 65535 ->
  parse_rdata dec s m pos lim = Ok v ->
  compose s v = slice m pos lim /\
  parse_rdata dec' s (pre ++ compose s v ++ post) (len pre) (len pre + len (compose s v)) = Ok v.
Proof. exact recompose_nameless. Qed.
Print Assumptions C05_recompose_nameless.

(* SVCB / HTTPS parameter values, every key: compose then parse gives the value
   back, the announced value length is the number of octets written *)
Theorem C05_svcvalue_parse_compose : forall key v pre post,
  wf_value (svcvalue_schema key) v = true ->
  parse_rdata flat_dec (svcvalue_schema key)
    (pre ++ compose (svcvalue_schema key) v ++ post) (len pre)
    (len pre + len (compose (svcvalue_schema key) v)) = Ok v /\
  rdlen (svcvalue_schema key) false v = Ok (Some (len (compose (svcvalue_schema key) v))).
Proof. exact svcvalue_parse_compose. Qed.
Print Assumptions C05_svcvalue_parse_compose.

(* the typed builder: whatever the push order, the frozen parameters pass
   SvcParams::check_slice, are in ascending key order, hold exactly the pushed
   values and iterate as that list; a key pushed twice is refused *)
Theorem C05_svc_build_accepted : forall pushes b,
  Forall wf_option pushes -> svc_build pushes = Some b ->
  rest_check KSvcParams b = None /\
  exists l, b = opt_frame l /\ ascending 0 l = true /\ (forall x, In x l <-> In x pushes) /\
            opt_iter (S (length b)) b 0 (len b) [] = Ok l.
Proof. exact svc_build_accepted. Qed.
Print Assumptions C05_svc_build_accepted.

Theorem C05_svc_build_duplicate : forall o o', fst o = fst o' -> svc_build [o; o'] = None.
Proof. exact svc_build_duplicate. Qed.
Print Assumptions C05_svc_build_duplicate.

(* IPSECKEY gateway names (RFC 4025 2.5: MUST NOT be compressed): with the
   consumed-length check (T1 flag) an accepted gateway name was read from
   exactly its uncompressed octets; without it a pointer-only gateway passes *)
Theorem C05_nc_dec_strict_exact : forall m pos lim n e,
  pname_nc_dec true m pos lim = Ok (n, e) ->
  exists p, parse_ref m pos lim = Ok p /\ pn_compressed p = false /\ e - pos = pn_len p.
Proof. exact nc_dec_strict_exact. Qed.
Print Assumptions C05_nc_dec_strict_exact.

Theorem C05_ipseckey_pointer_gateway_refuted :
  Gen.ipseckey_checks_consumed = false ->
  exists m pos lim v, ipseckey_parse m pos lim = Ok v /\ get m (pos + 3) = Some 192.
Proof. exact ipseckey_pointer_gateway_refuted. Qed.
Print Assumptions C05_ipseckey_pointer_gateway_refuted.

Theorem C05_std_cookie_roundtrip : forall v pre post,
  wf_value std_cookie_schema v = true ->
  parse_rdata flat_dec std_cookie_schema (pre ++ compose std_cookie_schema v ++ post) (len pre)
    (len pre + len (compose std_cookie_schema v)) = Ok v /\
  len (compose std_cookie_schema v) = 16.
Proof. exact std_cookie_roundtrip. Qed.
Print Assumptions C05_std_cookie_roundtrip.

(* the IPSECKEY rows are the ones read from the source *)
Theorem C05_ipseckey_src_agrees :
  Gen.ipseckey_src = map (fun g => (g, ipseckey_schema g)) [0; 1; 2; 3].
Proof. exact ipseckey_src_agrees. Qed.
Print Assumptions C05_ipseckey_src_agrees.

(* canonical form, label by label: it is the wire form of the value whose
   flagged names are lower-cased, and no upper-case ASCII octet is left in any
   label of such a name (label lengths unchanged) *)
Theorem C05_canonical_lowers_every_flagged_name : forall s v,
  compose_canonical s v = compose s (lower_flagged s v) /\
  (forall f x, In (f, x) (combine (s_fields s) (lower_flagged s v)) -> is_lower f = true ->
     forall n, x = VName n ->
     Forall (fun l => Forall (fun b => negb ((65 <=? b) && (b <=? 90)) = true) l) n).
Proof. exact canonical_lowers_every_flagged_name. Qed.
Print Assumptions C05_canonical_lowers_every_flagged_name.

(* known constructor classes: ctor_reparse_IPSECKEY and svc_ctor_reparse_TLSGROUPS
   (the ctor_long_* / ctor_reparse_ZONEMD witnesses are C05_ctor_rdlen_refuted /
   C05_ctor_roundtrip_refuted, their exclusion theorem is C05_ctor_sound) *)
Theorem C05_ctor_reparse_ipseckey_refuted :
  ctor_accepts (ipseckey_schema 0) [VNum 10; VNum 0; VNum 2; VBytes []] = true /\
  ipseckey_parse (compose (ipseckey_schema 0) [VNum 10; VNum 0; VNum 2; VBytes []]) 0 3 = Err E_SHORT.
Proof. exact ctor_reparse_ipseckey_refuted. Qed.
Print Assumptions C05_ctor_reparse_ipseckey_refuted.

Theorem C05_tlsgroups_from_keys : 
  rest_check KGroups (groups_from_keys []) = Some E_FORM /\
  (forall ks, ks <> [] -> rest_check KGroups (groups_from_keys ks) = None).
Proof. exact (conj tlsgroups_from_keys_refuted tlsgroups_from_keys_sound). Qed.
Print Assumptions C05_tlsgroups_from_keys.

(* the message name reader returns valid names (imported from C01_parse_ref_sound) ... *)
Theorem C05_pname_dec_sound : dec_sound_in pname_dec /\ forall strict, dec_sound_in (pname_nc_dec strict).
Proof. exact (conj pname_dec_sound pname_nc_dec_sound). Qed.
Print Assumptions C05_pname_dec_sound.

(* ... so RDATA accepted from a message, embedded names possibly compressed,
   re-composes (uncompressed) to octets that the same reader parses to the same
   value: no hypothesis about the reader is left *)
Theorem C05_table_recompose_compressed : forall t s m pos lim v pre post,
  schema_of t = Some s -> wf_bytes m -> lim <= mlen m ->
  parse_rdata pname_dec s m pos lim = Ok v ->
  total_len s v <= 65535 ->
  parse_rdata pname_dec s (pre ++ compose s v ++ post) (len pre) (len pre + len (compose s v)) = Ok v.
Proof. exact table_recompose_compressed. Qed.
Print Assumptions C05_table_recompose_compressed.

(* compressing targets: whenever rdlen(compress) answers a number, exactly that
   many octets are written, whatever the compressor does with compressible names *)
Theorem C05_rdlen_some_is_written : forall s v compress n,
  wf_value s v = true -> rdlen s compress v = Ok (Some n) ->
  forall cmp, (compress = false -> cmp = None) -> len (compose_on cmp s v) = n.
Proof. exact rdlen_some_is_written. Qed.
Print Assumptions C05_rdlen_some_is_written.

Theorem C05_table_rdlen_compress : forall t s v n cmp,
  schema_of t = Some s -> wf_value s v = true -> rdlen s true v = Ok (Some n) ->
  compose_on cmp s v = compose s v /\ len (compose s v) = n /\ has_compressible s = false.
Proof. exact table_rdlen_compress. Qed.
Print Assumptions C05_table_rdlen_compress.

(* the model's canonical names are what the helpers behind compose_canonical
   write (T1: every label through Label::compose_canonical, every octet lower-cased) *)
Theorem C05_canon_is_helper : forall n,
  Gen.canonical_helpers_lower_all_labels = true ->
  wire_abs (canon n) = concat (map (fun l => N.of_nat (length l) :: map lower l) n) ++ [0].
Proof. exact canon_is_helper. Qed.
Print Assumptions C05_canon_is_helper.

(* one witness per known class ctor_long_<TYPE>: the constructor accepts, rdlen() panics *)
Theorem C05_ctor_long_refuted :
  (exists v, ctor_accepts (plain [U8; U8; U8; Rest]) v = true /\ rdlen (plain [U8; U8; U8; Rest]) false v = Panic P_LONG) /\      (* TLSA *)
  (exists v, ctor_accepts (plain [U8; U8; Rest]) v = true /\ rdlen (plain [U8; U8; Rest]) false v = Panic P_LONG) /\              (* SSHFP *)
  (exists v, ctor_accepts (plain [Rest]) v = true /\ rdlen (plain [Rest]) false v = Panic P_LONG) /\                              (* OPENPGPKEY *)
  (exists v, ctor_accepts (plain [U32; U8; U8; FRest 12]) v = true /\ rdlen (plain [U32; U8; U8; FRest 12]) false v = Panic P_LONG) /\  (* ZONEMD *)
  (exists v, ctor_accepts (plain [U8; CaaTagStr; Rest]) v = true /\ rdlen (plain [U8; CaaTagStr; Rest]) false v = Panic P_LONG) /\ (* CAA *)
  (exists v, ctor_accepts (ipseckey_schema 0) v = true /\ rdlen (ipseckey_schema 0) false v = Panic P_LONG).                      (* IPSECKEY *)
Proof.
  repeat split; eexists.
  - exact (proj2 ctor_long_TLSA_refuted).
  - exact (proj2 ctor_long_SSHFP_refuted).
  - exact (proj2 ctor_long_OPENPGPKEY_refuted).
  - exact (proj2 ctor_long_ZONEMD_refuted).
  - exact (proj2 ctor_long_CAA_refuted).
  - exact ctor_long_IPSECKEY_refuted.
Qed.
Print Assumptions C05_ctor_long_refuted.

(* IPSECKEY exclusion theorem: what Ipseckey::new accepts round-trips with an
   exact length unless it is over-long or key-less with a key algorithm *)
Theorem C05_ipseckey_ctor_sound : forall g v pre post,
  g <= 3 -> ctor_accepts (ipseckey_schema g) v = true ->
  overlong (ipseckey_schema g) v = false -> post_ok (PIpseckey g) v = true ->
  ipseckey_parse (pre ++ compose (ipseckey_schema g) v ++ post) (len pre)
    (len pre + len (compose (ipseckey_schema g) v)) = Ok v /\
  rdlen (ipseckey_schema g) false v = Ok (Some (len (compose (ipseckey_schema g) v))).
Proof. exact ipseckey_ctor_sound. Qed.
Print Assumptions C05_ipseckey_ctor_sound.


(* TxtBuilder, the alternative constructor of TXT data: whatever is appended (slices,
   single octets, whole character strings), in whatever pieces, no character string
   of the result exceeds 255 octets, the text of the result is the concatenation of
   what was appended, and the result is never empty -- so it is a value the TXT row
   accepts, composes and parses back *)
Theorem C05_txt_build_ok : forall ops, Forall op_ok ops ->
  Forall (fun s => (length s <= 255)%nat) (txt_build ops) /\
  concat (txt_build ops) = concat (map op_text ops) /\ txt_build ops <> [].
Proof. exact txt_build_ok. Qed.
Print Assumptions C05_txt_build_ok.

Theorem C05_txt_build_wf : forall ops, Forall op_ok ops -> Forall (fun b => wf_bytes (op_text b)) ops ->
  wf_fval true FCharStrs (VStrs (txt_build ops)) = true.
Proof. exact txt_build_wf. Qed.
Print Assumptions C05_txt_build_wf.

(* TxtBuilder with its RDATA size check (every append is refused once the octets
   written would exceed 65535): what the builder hands out is what the unchecked
   builder makes and its RDATA is at most 65535 octets, so it has an RDLENGTH;
   and whole character strings that fit -- up to exactly 65535 octets -- are
   never refused *)
Theorem C05_txt_build_chk_sound : forall ops l, txt_build_chk ops = Some l ->
  l = txt_build ops /\ N.of_nat (length (txt_wire l)) <= RDATA_MAX.
Proof. exact txt_build_chk_sound. Qed.
Print Assumptions C05_txt_build_chk_sound.

Theorem C05_txt_limit_src_agrees :
  Gen.txt_limit_src = RDATA_MAX /\ Gen.txt_charstr_check_counts_length_octet = true.
Proof. exact txt_limit_src_agrees. Qed.
Print Assumptions C05_txt_limit_src_agrees.

Theorem C05_txt_build_chk_charstrs : forall l, l <> [] -> strs_size l <= RDATA_MAX ->
  txt_build_chk (map TCharStr l) = Some l.
Proof. exact txt_build_chk_charstrs. Qed.
Print Assumptions C05_txt_build_chk_charstrs.

(* SvcParamsBuilder::push_raw's scan over the values in PHYSICAL (push) order:
   it is independent of that order (keys distinct), ... *)
Theorem C05_scan_order_independent : forall key c1 c2,
  Permutation c1 c2 -> NoDup (map c_key c1) ->
  forall p n, scan key c1 p n = scan key c2 p n.
Proof. exact scan_perm. Qed.
Print Assumptions C05_scan_order_independent.

(* ... it finds exactly the neighbours of the new key in key order -- the last
   cell below it (with the offset of ITS slot) and the first cell above it (with
   ITS start offset) -- whatever the physical order, ... *)
Theorem C05_scan_neighbours : forall key cells l1 l2,
  Permutation (l1 ++ l2) cells -> asc 0 (l1 ++ l2) ->
  (forall c, In c l1 -> c_key c < key) ->
  match l2 with c :: _ => key < c_key c | [] => True end ->
  scan key cells None None =
    Some (match rev l1 with c :: _ => Some (c_key c, slot c) | [] => None end,
          match l2 with c :: _ => Some (c_key c, c_start c) | [] => None end).
Proof. exact scan_neighbours. Qed.
Print Assumptions C05_scan_neighbours.

(* ... and a key that is already present is reported as a duplicate wherever it sits *)
Theorem C05_scan_duplicate : forall key cells l, Permutation l cells -> asc 0 l ->
  (exists c, In c l /\ c_key c = key) -> scan key cells None None = None.
Proof. exact scan_duplicate. Qed.
Print Assumptions C05_scan_duplicate.

(* freeze follows the chain: a chain through cells found by their start offsets
   is copied out in chain order *)
Theorem C05_follow_chain : forall cells, NoDup (map c_start cells) ->
  forall l q fuel, chain q l PMAX -> (forall c, In c l -> In c cells /\ c_start c <> PMAX) ->
  (length l < fuel)%nat -> follow fuel cells q = Ok (map kd l).
Proof. exact follow_chain. Qed.
Print Assumptions C05_follow_chain.

(* The in-buffer representation of SvcParamsBuilder (values in physical push
   order, predecessor / successor scan over all of them, slot fix-up, freeze
   along the chain) refines the sorted association list: for EVERY push
   sequence whose buffer offsets fit a u32, freezing yields exactly the octets
   of the list model, and a duplicate key is refused by both.  (The bounded
   enumeration inbuf_refines_list_bounded in ProofsM.v remains as a check.) *)
Theorem C05_inbuf_refines_list : forall pushes,
  psize pushes < PMAX ->
  match svc_build pushes with
  | Some b => inbuf_build pushes = Some (Ok b)
  | None => inbuf_build pushes = None
  end.
Proof. exact inbuf_refines_list. Qed.
Print Assumptions C05_inbuf_refines_list.
