(* C05 ProofsQ.v -- T1 agreement for the TxtBuilder size check (TxtLimit.v): the bound of
   LongRecordData::check_len as read from the source is the model's, and
   TxtBuilder::append_charstr checks the length octet together with the content -- the
   form step_chk models (the size after the operation, one length octet per string). *)
From Coq Require Import NArith List Bool.
From DV Require Import C05.Schema C05.Gen C05.TxtModel C05.TxtLimit.
Local Open Scope N_scope.

Lemma txt_limit_src_agrees :
  Gen.txt_limit_src = RDATA_MAX /\ Gen.txt_charstr_check_counts_length_octet = true.
Proof. split; reflexivity. Qed.
