(* C05 ProofsM.v -- the in-buffer builder against the sorted association list.
   A complete enumeration of all push sequences of length <= 5 over 5 keys
   (duplicates included; data lengths differ per key so that offsets differ).
   The theorem for every push sequence is ProofsP.inbuf_refines_list; this
   file stays as an independent check of the two models. *)
From Coq Require Import Arith NArith List Bool.
From DV Require Import Base.Outcome Base.Bytes Base.Names Base.PName
  C05.Schema C05.Gen C05.OptModel C05.SvcModel C05.SvcBuf.
Import ListNotations.
Local Open Scope N_scope.

Fixpoint beq (a b : bytes) : bool :=
  match a, b with
  | [], [] => true
  | x :: a', y :: b' => (x =? y) && beq a' b'
  | _, _ => false
  end.
Lemma beq_eq a b : beq a b = true -> a = b.
Proof.
  revert b; induction a as [|x a IH]; intros [|y b] H; cbn [beq] in H; try discriminate; [reflexivity|].
  apply andb_true_iff in H as [H1 H2]. apply N.eqb_eq in H1. f_equal; auto.
Qed.

Definition agree (pushes : list edns_option) : bool :=
  match inbuf_build pushes, svc_build pushes with
  | Some (Ok b), Some b' => beq b b'
  | None, None => true
  | _, _ => false
  end.

Definition opt_of_key (k : N) : edns_option := (7 * k + 1, repeat k (N.to_nat k)).
Fixpoint seqs (n : nat) (keys : list N) : list (list N) :=
  match n with
  | O => [[]]
  | S n' => [] :: flat_map (fun s => map (fun k => k :: s) keys) (seqs n' keys)
  end.

Lemma inbuf_agrees_enumerated :
  forallb (fun s => agree (map opt_of_key s)) (seqs 5 [0; 1; 2; 3; 4]) = true.
Proof. vm_compute. reflexivity. Qed.

Theorem inbuf_refines_list_bounded s :
  In s (seqs 5 [0; 1; 2; 3; 4]) ->
  match svc_build (map opt_of_key s) with
  | Some b => inbuf_build (map opt_of_key s) = Some (Ok b)
  | None => inbuf_build (map opt_of_key s) = None
  end.
Proof.
  intros H. pose proof inbuf_agrees_enumerated as A. rewrite forallb_forall in A.
  specialize (A s H). unfold agree in A.
  destruct (inbuf_build (map opt_of_key s)) as [[b| | |]|]; destruct (svc_build (map opt_of_key s)) as [b'|];
    try discriminate; [|reflexivity].
  apply beq_eq in A. subst. reflexivity.
Qed.

Example inbuf_example :
  inbuf_build [(3, [1;187]); (1, [2;104;50]); (0, [0;1])]
    = Some (Ok [0;0;0;2;0;1; 0;1;0;3;2;104;50; 0;3;0;2;1;187]) /\
  inbuf_build [(3, []); (1, []); (3, [1])] = None /\
  (* the buffer after pushing keys 3, 1: physical order 3, 1; chain 1 -> 3 *)
  push_all empty_buf [(3, [9]); (1, [])] =
    Some (mkBuf 13 [mkCell 4 3 [9] PMAX; mkCell 13 1 [] 4] 21).
Proof. vm_compute. auto. Qed.
