(* C05 SvcBuf.v -- SvcParamsBuilder as it is: the values live in one buffer in
   the order they were pushed (physical order); a 4-octet slot in front of the
   buffer points to the first value in key order and a 4-octet slot behind
   every value points to its successor in key order (u32::MAX = none).
     push_raw  scans ALL values in physical order, remembering the greatest
               key below the new one (with the offset of ITS slot) and the
               least key above it (with ITS start offset); an equal key is
               DuplicateKey.  It appends the value, writes the successor's
               start (or MAX) into the new slot and the new value's start into
               the predecessor's slot (slot 0 if there is none).
     freeze    follows the chain from slot 0 and copies key, length, data.
   A cell records where a value starts; offsets are those of the real buffer
   (4 + key 2 + length 2 + data + slot 4 per value). *)
From Coq Require Import Arith NArith List Bool.
From DV Require Import Base.Outcome Base.Bytes Base.Names Base.PName C05.Schema C05.Gen C05.OptModel C05.SvcModel.
Import ListNotations.
Local Open Scope N_scope.

Definition PMAX : N := 4294967295.
Record cell := mkCell { c_start : N; c_key : N; c_data : bytes; c_next : N }.
Record sbuf := mkBuf { b_first : N; b_cells : list cell; b_len : N }.
Definition empty_buf : sbuf := mkBuf 0 [] 0.

Definition slot (c : cell) : N := c_start c + 4 + len (c_data c).      (* tmp_end *)

Fixpoint scan (key : N) (cells : list cell) (pre next : option (N * N))
  : option (option (N * N) * option (N * N)) :=
  match cells with
  | [] => Some (pre, next)
  | c :: r =>
      if c_key c =? key then None
      else if c_key c <? key then
        scan key r (match pre with
                    | Some (k, _) => if k <? c_key c then Some (c_key c, slot c) else pre
                    | None => Some (c_key c, slot c)
                    end) next
      else
        scan key r pre (match next with
                        | Some (k, _) => if c_key c <? k then Some (c_key c, c_start c) else next
                        | None => Some (c_key c, c_start c)
                        end)
  end.

Definition write_slot (pos v : N) (b : sbuf) : sbuf :=
  if pos =? 0 then mkBuf v (b_cells b) (b_len b)
  else mkBuf (b_first b)
             (map (fun c => if slot c =? pos then mkCell (c_start c) (c_key c) (c_data c) v else c) (b_cells b))
             (b_len b).

Definition push_raw (o : edns_option) (b : sbuf) : option sbuf :=
  let '(key, data) := o in
  match b_cells b with
  | [] => Some (mkBuf 4 [mkCell 4 key data PMAX] (4 + 4 + len data + 4))
  | cells =>
      match scan key cells None None with
      | None => None
      | Some (pre, next) =>
          let start := b_len b in
          let c := mkCell start key data (match next with Some (_, p) => p | None => PMAX end) in
          let pos := match pre with Some (_, p) => p | None => 0 end in
          Some (write_slot pos start (mkBuf (b_first b) (cells ++ [c]) (start + 4 + len data + 4)))
      end
  end.

Fixpoint follow (fuel : nat) (cells : list cell) (pos : N) : outcome (list edns_option) :=
  match fuel with
  | O => OutOfFuel
  | S fuel' =>
      if pos =? PMAX then Ok []
      else match find (fun c => c_start c =? pos) cells with
           | None => Panic P_INDEX                        (* parser.seek(pos).unwrap() *)
           | Some c => do r <- follow fuel' cells (c_next c); Ok ((c_key c, c_data c) :: r)
           end
  end.
Definition freeze (b : sbuf) : outcome bytes :=
  match b_cells b with
  | [] => Ok []
  | cells => do l <- follow (S (length cells)) cells (b_first b); Ok (opt_frame l)
  end.

Fixpoint push_all (b : sbuf) (pushes : list edns_option) : option sbuf :=
  match pushes with
  | [] => Some b
  | o :: p' => match push_raw o b with Some b' => push_all b' p' | None => None end
  end.
(* SvcParams::from_values *)
Definition inbuf_build (pushes : list edns_option) : option (outcome bytes) :=
  match push_all empty_buf pushes with Some b => Some (freeze b) | None => None end.

Definition c05_svcbuild_inbuf (pushes : list edns_option) : option (outcome bytes) := inbuf_build pushes.
