(* C05 ProofsC.v -- the uncompressed name decoder satisfies dec_complete and
   dec_sound; whatever parse returns is well-formed (so accepted RDATA
   re-composes to octets that parse to the same value). *)
From Coq Require Import Arith NArith List Bool Lia ZArith.
From Coq Require Import ZifyN ZifyBool ZifyNat.
From DV Require Import Base.Outcome Base.Bytes Base.Names Base.PName
  C05.Schema C05.ProofsA C05.ProofsB.
Import ListNotations.
Local Open Scope N_scope.
Ltac Zify.zify_post_hook ::= Z.div_mod_to_equations.

(* ---- flat decoder: complete *)
Lemma slice_from_pre (pre x post : bytes) lim :
  len pre + len x <= lim -> lim <= len (pre ++ x ++ post) ->
  exists post', slice (pre ++ x ++ post) (len pre) lim = x ++ post' /\
                len post' = lim - len pre - len x.
Proof.
  intros H1 H2. rewrite !len_app in H2. unfold slice, len in *. rewrite Nat2N.id.
  rewrite skipn_app, skipn_all, Nat.sub_diag. cbn [skipn app].
  exists (firstn (N.to_nat (lim - N.of_nat (length pre)) - length x) post).
  rewrite firstn_app. split.
  - f_equal. apply firstn_all2. lia.
  - rewrite firstn_length. lia.
Qed.

Theorem flat_dec_complete : dec_complete flat_dec.
Proof.
  intros pre n post lim Hv H1 H2. unfold flat_dec.
  destruct (slice_from_pre pre (wire_abs n) post lim H1 H2) as [post' [E L]].
  rewrite E, decode_wire_abs by exact Hv. f_equal. f_equal. lia.
Qed.

(* ---- flat decoder: sound *)
Lemma wire_len_rev a : wire_len (rev a) = wire_len a.
Proof.
  induction a as [|l a IH]; [reflexivity|]. cbn [rev wire_len].
  rewrite wire_len_app, IH. cbn [wire_len]. lia.
Qed.

Lemma wf_bytes_firstn k (b : bytes) : wf_bytes b -> wf_bytes (firstn k b).
Proof.
  unfold wf_bytes. rewrite !Forall_forall. intros H x Hx. apply H.
  rewrite <- (firstn_skipn k b). apply in_or_app. left. exact Hx.
Qed.

Lemma wf_bytes_skipn k (b : bytes) : wf_bytes b -> wf_bytes (skipn k b).
Proof.
  unfold wf_bytes. rewrite !Forall_forall. intros H x Hx. apply H.
  rewrite <- (firstn_skipn k b). apply in_or_app. right. exact Hx.
Qed.

Lemma parse_flat_sound fuel : forall b acc used n rest,
  wf_bytes b -> Forall valid_label acc -> wire_len acc = used -> (used <= 254)%nat ->
  parse_flat fuel b acc used = inl (Some (n, rest)) ->
  Forall valid_label n /\ (wire_len n <= 254)%nat.
Proof.
  induction fuel as [|fuel IH]; intros b acc used n rest Hb Hacc Hu Hle H; [discriminate|].
  cbn [parse_flat] in H. destruct b as [|h t]; [discriminate|].
  destruct (N.eqb_spec h 0) as [E0|E0].
  - injection H as <- <-. split.
    + apply Forall_rev. exact Hacc.
    + rewrite wire_len_rev. lia.
  - destruct (N.ltb_spec 63 h) as [E1|E1]; [discriminate|].
    destruct (Nat.ltb_spec (length t) (N.to_nat h)) as [E2|E2]; [discriminate|].
    destruct (Nat.ltb_spec 254 (used + 1 + N.to_nat h)) as [E3|E3]; [discriminate|].
    inversion Hb as [|? ? Hh Ht]; subst.
    eapply IH in H; eauto.
    + apply wf_bytes_skipn. exact Ht.
    + constructor; [|exact Hacc]. split.
      * rewrite firstn_length. lia.
      * apply wf_bytes_firstn. exact Ht.
    + cbn [wire_len]. rewrite firstn_length. lia.
Qed.

Theorem flat_dec_sound : dec_sound flat_dec.
Proof.
  intros m pos lim n e Hm H. unfold flat_dec in H.
  destruct (decode_abs (slice m pos lim)) as [[[n' rest]|]|[]] eqn:E; try discriminate.
  injection H as <- _. unfold decode_abs in E.
  apply parse_flat_sound in E; auto.
  - apply slice_wf. exact Hm.
  - simpl. lia.
Qed.

(* ---- parse results are well-formed *)
Lemma rd_len m pos lim k x e :
  lim <= mlen m -> rd m pos lim k = Ok (x, e) -> len x = k.
Proof.
  intros Hl H. apply rd_ok in H as [-> [_ Hk]].
  destruct (N.eq_dec k 0) as [->|Hz].
  - unfold slice, len. rewrite firstn_length. lia.
  - unfold len. rewrite slice_length; unfold mlen in *; lia.
Qed.

Lemma rd_wf m pos lim k x e : wf_bytes m -> rd m pos lim k = Ok (x, e) -> wf_bytes x.
Proof. intros Hm H. apply rd_ok in H as [-> _]. apply slice_wf. exact Hm. Qed.

Lemma bytesb_true b : wf_bytes b -> bytesb b = true.
Proof. apply bytesb_spec. Qed.

Lemma parse_strs_wf fuel : forall m pos lim acc l e,
  wf_bytes m -> lim <= mlen m -> forallb strb acc = true ->
  parse_strs fuel m pos lim acc = Ok (l, e) -> forallb strb l = true.
Proof.
  induction fuel as [|fuel IH]; intros m pos lim acc l e Hm Hl Hacc H; [discriminate|].
  cbn [parse_strs] in H. destruct (lim - pos =? 0).
  - injection H as <- _. rewrite forallb_forall in *. intros x Hx. apply Hacc.
    apply in_rev. exact Hx.
  - destruct (rd8 m pos lim) as [[h p1]| | |] eqn:E8; try discriminate. cbn [bind fst snd] in H.
    destruct (rd m p1 lim h) as [[x p2]| | |] eqn:Er; try discriminate. cbn [bind fst snd] in H.
    eapply IH in H; eauto. cbn [forallb]. rewrite Hacc, andb_true_r.
    apply rd8_ok in E8 as [Hg _]. apply (get_wf _ _ _ Hm) in Hg.
    pose proof (rd_len _ _ _ _ _ _ Hl Er) as Hlen. pose proof (rd_wf _ _ _ _ _ _ Hm Er).
    unfold strb. rewrite bytesb_true by assumption. rewrite andb_true_r.
    apply Nat.leb_le. unfold len in Hlen. lia.
Qed.

Section Sound.
Variable dec : decoder.
Hypothesis Hsound : dec_sound dec.

Lemma parse_field_wf f m pos lim x e :
  wf_bytes m -> lim <= mlen m ->
  parse_field dec f m pos lim = Ok (x, e) -> wf_fval false f x = true.
Proof.
  intros Hm Hl H. destruct f; cbn [parse_field] in H.
  - (* FNum *)
    destruct (rd m pos lim (N.of_nat w)) as [[b p]| | |] eqn:E; try discriminate.
    cbn [bind fst snd] in H. injection H as <- _. cbn [wf_fval].
    pose proof (rd_len _ _ _ _ _ _ Hl E) as Hlen. pose proof (rd_wf _ _ _ _ _ _ Hm E) as Hw.
    apply of_be_bound in Hw. unfold len in Hlen. replace w with (length b) by lia.
    apply N.ltb_lt. exact Hw.
  - (* FFix *)
    destruct (rd m pos lim (N.of_nat k)) as [[b p]| | |] eqn:E; try discriminate.
    cbn [bind fst snd] in H. injection H as <- _. cbn [wf_fval].
    pose proof (rd_len _ _ _ _ _ _ Hl E) as Hlen. pose proof (rd_wf _ _ _ _ _ _ Hm E) as Hw.
    rewrite bytesb_true by assumption. rewrite andb_true_r. apply Nat.eqb_eq. unfold len in Hlen. lia.
  - (* FName *)
    destruct (dec m pos lim) as [[n p]| | |] eqn:E; try discriminate.
    cbn [bind fst snd] in H. injection H as <- _. cbn [wf_fval].
    apply valid_relb_spec. eapply Hsound; eauto.
  - (* FCharStr *)
    destruct (rd8 m pos lim) as [[h p1]| | |] eqn:E8; try discriminate. cbn [bind fst snd] in H.
    destruct (rd m p1 lim h) as [[b p2]| | |] eqn:Er; try discriminate. cbn [bind fst snd] in H.
    destruct (cs_ok chk b) eqn:Ec; [|discriminate]. injection H as <- _. cbn [wf_fval].
    rewrite Ec, andb_true_r.
    apply rd8_ok in E8 as [Hg _]. apply (get_wf _ _ _ Hm) in Hg.
    pose proof (rd_len _ _ _ _ _ _ Hl Er) as Hlen. pose proof (rd_wf _ _ _ _ _ _ Hm Er).
    unfold strb. rewrite bytesb_true by assumption. rewrite andb_true_r.
    apply Nat.leb_le. unfold len in Hlen. lia.
  - (* FCharStrs *)
    destruct (parse_strs (S (N.to_nat (lim - pos))) m pos lim []) as [[l p]| | |] eqn:E; try discriminate.
    cbn [bind fst snd] in H. injection H as <- _. cbn [wf_fval negb orb].
    rewrite andb_true_r. exact (parse_strs_wf _ m pos lim [] l p Hm Hl eq_refl E).
  - (* FLen16 *)
    destruct (rd m pos lim 2) as [[h p1]| | |] eqn:E1; try discriminate. cbn [bind fst snd] in H.
    destruct (rd m p1 lim (of_be h)) as [[b p2]| | |] eqn:E2; try discriminate.
    cbn [bind fst snd] in H. injection H as <- _. cbn [wf_fval].
    pose proof (rd_len _ _ _ _ _ _ Hl E1) as Hlen1. pose proof (rd_wf _ _ _ _ _ _ Hm E1) as Hw1.
    pose proof (rd_len _ _ _ _ _ _ Hl E2) as Hlen2. pose proof (rd_wf _ _ _ _ _ _ Hm E2) as Hw2.
    rewrite bytesb_true by assumption. rewrite andb_true_r.
    apply of_be_bound in Hw1. unfold len in Hlen1. replace (length h) with 2%nat in Hw1 by lia.
    cbn [pow256] in Hw1. apply N.leb_le. lia.
  - (* FRest *)
    destruct (N.ltb_spec (lim - pos) (N.of_nat min)) as [L|L]; [discriminate|].
    destruct (rd m pos lim (lim - pos)) as [[b p]| | |] eqn:E; try discriminate.
    cbn [bind fst snd] in H. injection H as <- _. cbn [wf_fval orb].
    pose proof (rd_len _ _ _ _ _ _ Hl E) as Hlen. pose proof (rd_wf _ _ _ _ _ _ Hm E) as Hw.
    rewrite bytesb_true by assumption. rewrite andb_true_r. apply Nat.leb_le. unfold len in Hlen. lia.
  - (* FChecked *)
    destruct (rd m pos lim (lim - pos)) as [[b p]| | |] eqn:E; try discriminate.
    cbn [bind fst snd] in H. destruct (rest_check k b) eqn:Ec; [discriminate|].
    injection H as <- _. cbn [wf_fval]. rewrite Ec.
    pose proof (rd_wf _ _ _ _ _ _ Hm E) as Hw. rewrite bytesb_true by assumption. reflexivity.
Qed.

Lemma parse_fields_wf s : forall m pos lim v e,
  wf_bytes m -> lim <= mlen m ->
  parse_fields dec s m pos lim = Ok (v, e) -> wf_fvals false s v = true.
Proof.
  induction s as [|f s IH]; intros m pos lim v e Hm Hl H; cbn [parse_fields] in H.
  - injection H as <- _. reflexivity.
  - destruct (parse_field dec f m pos lim) as [[x p]| | |] eqn:Ef; try discriminate.
    cbn [bind fst snd] in H.
    destruct (parse_fields dec s m p lim) as [[v' p']| | |] eqn:Es; try discriminate.
    cbn [bind fst snd] in H. injection H as <- _. cbn [wf_fvals].
    rewrite (parse_field_wf _ _ _ _ _ _ Hm Hl Ef). eapply IH; eauto.
Qed.

Lemma parse_rdata_post s m pos lim v :
  parse_rdata dec s m pos lim = Ok v -> post_ok (s_post s) v = true.
Proof.
  intros H. unfold parse_rdata in H.
  destruct (parse_type dec s m pos lim) as [[v' e]| | |]; try discriminate.
  cbn [bind fst snd] in H. destruct (e =? lim); [|discriminate].
  destruct (post_check (s_post s) v') eqn:Epost; [discriminate|]. injection H as <-.
  unfold post_ok. rewrite Epost. reflexivity.
Qed.

Lemma parse_rdata_wf s m pos lim v :
  wf_bytes m -> lim <= mlen m ->
  parse_rdata dec s m pos lim = Ok v -> wf_fvals false (s_fields s) v = true.
Proof.
  intros Hm Hl H. unfold parse_rdata in H.
  destruct (parse_type dec s m pos lim) as [[v' e]| | |] eqn:E; try discriminate.
  cbn [bind fst snd] in H. destruct (e =? lim); [|discriminate].
  destruct (post_check (s_post s) v') eqn:Epost; [discriminate|]. injection H as <-.
  unfold parse_type in E. destruct (s_long s) as [k|].
  - destruct (lim - pos <? k); [discriminate|]. destruct (65535 <? lim - pos - k); [discriminate|].
    eapply parse_fields_wf; eauto.
  - eapply parse_fields_wf; eauto.
Qed.

End Sound.

(* accepted RDATA (read by any sound decoder dec, e.g. one that follows
   compression pointers) re-composes -- uncompressed -- to octets that parse,
   with any complete decoder dec', to the same value.  The uncompressed form
   may be longer than the input; it must still fit an RDATA. *)
Theorem recompose dec dec' s m pos lim v pre post :
  dec_sound dec -> dec_complete dec' -> wf_schema_full s = true ->
  wf_bytes m -> lim <= mlen m ->
  parse_rdata dec s m pos lim = Ok v ->
  total_len s v <= 65535 ->
  parse_rdata dec' s (pre ++ compose s v ++ post) (len pre) (len pre + len (compose s v)) = Ok v.
Proof.
  intros Hs Hc Hwf Hm Hl Hp Ht. apply parse_compose; auto.
  unfold wf_value. rewrite (parse_rdata_wf dec Hs s m pos lim v Hm Hl Hp).
  rewrite (parse_rdata_post dec s m pos lim v Hp).
  apply N.leb_le in Ht. rewrite Ht. reflexivity.
Qed.

(* what a constructor accepts is well-formed unless it is over-long or has a
   too short remainder *)
Lemma wf_fvals_ctor s : forall v,
  wf_fvals true s v = true -> short_rest_fields s v = false -> wf_fvals false s v = true.
Proof.
  induction s as [|f s IH]; intros [|x v] H Hr; cbn [wf_fvals] in *; try discriminate; [reflexivity|].
  apply andb_true_iff in H as [Hx Hv].
  destruct f, x; try discriminate; cbn [short_rest_fields wf_fval] in *;
    try (rewrite Hx, (IH _ Hv Hr); reflexivity).
  - apply andb_true_iff in Hx as [Hs _]. cbn [negb orb]. rewrite Hs, (IH _ Hv Hr). reflexivity.
  - apply orb_false_iff in Hr as [Hm Hr]. cbn [orb andb] in Hx |- *. rewrite (IH _ Hv Hr).
    apply Nat.ltb_ge in Hm. apply Nat.leb_le in Hm. rewrite Hm, Hx. reflexivity.
Qed.

Theorem ctor_accepts_wf s v :
  ctor_accepts s v = true -> overlong s v = false -> short_rest s v = false ->
  post_ok (s_post s) v = true ->
  wf_value s v = true.
Proof.
  unfold ctor_accepts, overlong, short_rest, wf_value. intros H Ho Hr Hpost.
  apply andb_true_iff in H as [H _]. apply andb_true_iff in H as [Hv _].
  rewrite (wf_fvals_ctor _ _ Hv Hr), Hpost.
  apply N.ltb_ge in Ho. apply N.leb_le in Ho. rewrite Ho. reflexivity.
Qed.

(* with a checking constructor and no minimum on the remainder nothing is excluded *)
Theorem checked_ctor_accepts_wf s v :
  s_ctor_total s = true -> ctor_accepts s v = true -> short_rest s v = false ->
  post_ok (s_post s) v = true -> wf_value s v = true.
Proof.
  intros Hc H Hr Hpost. apply ctor_accepts_wf; auto.
  unfold ctor_accepts in H. rewrite Hc in H. cbn [negb orb] in H.
  apply andb_true_iff in H as [H _]. apply andb_true_iff in H as [_ Ht]. unfold overlong. apply N.ltb_ge. apply N.leb_le in Ht. exact Ht.
Qed.
