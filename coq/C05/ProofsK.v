(* C05 ProofsK.v -- the advertised length on compressing targets.
   compose_rdata uses append_compressed_name for the NameC fields when the
   target can compress; what a compressor writes for a name is not fixed here
   (cmp : name -> bytes is arbitrary; C02 models the three compressors and
   proves re-reading over these schemas: C02_schema_record_reread,
   C02_schema_prefix_is_rdlen_none).  Whenever rdlen(compress) answers a
   number, exactly that many octets are written, whatever the compressor. *)
From Coq Require Import Arith NArith List Bool Lia ZArith.
From Coq Require Import ZifyN ZifyBool ZifyNat.
From DV Require Import Base.Outcome Base.Bytes Base.Names Base.PName
  C05.Schema C05.Gen C05.Model C05.ProofsA C05.ProofsB C05.Proofs.
Import ListNotations.
Local Open Scope N_scope.

Definition compose_field_on (cmp : option (name -> bytes)) (f : field) (x : fval) : bytes :=
  match cmp, f, x with
  | Some c, FName true _, VName n => c n
  | _, _, _ => compose_field false f x
  end.
Fixpoint compose_fields_on (cmp : option (name -> bytes)) (s : list field) (v : value) : bytes :=
  match s, v with
  | f :: s', x :: v' => compose_field_on cmp f x ++ compose_fields_on cmp s' v'
  | _, _ => []
  end.
(* compose_rdata on a target: cmp = None for a target that cannot compress *)
Definition compose_on (cmp : option (name -> bytes)) (s : schema) (v : value) : bytes :=
  compose_fields_on cmp (s_fields s) v.

Lemma compose_on_none s v : compose_on None s v = compose s v.
Proof.
  unfold compose_on, compose. generalize (s_fields s) as l. intros l. revert v.
  induction l as [|f l IH]; intros [|x v]; cbn [compose_fields_on compose_fields]; try reflexivity.
  rewrite IH. reflexivity.
Qed.

Lemma compose_on_incompressible cmp l : forall v,
  existsb is_compressible l = false -> compose_fields_on cmp l v = compose_fields false l v.
Proof.
  induction l as [|f l IH]; intros [|x v] H; cbn [compose_fields_on compose_fields existsb] in *; try reflexivity.
  apply orb_false_iff in H as [Hf Hl]. rewrite (IH _ Hl). f_equal.
  destruct cmp as [c|]; [|destruct f; reflexivity].
  destruct f as [| |cp lw| | | | |]; try reflexivity. destruct cp; [discriminate|reflexivity].
Qed.

Theorem rdlen_some_is_written s v compress n :
  wf_value s v = true -> rdlen s compress v = Ok (Some n) ->
  forall cmp, (compress = false -> cmp = None) -> len (compose_on cmp s v) = n.
Proof.
  intros Hv Hr cmp Hc. pose proof (rdlen_exact s v Hv) as [H0 H1].
  destruct compress.
  - rewrite H1 in Hr. destruct (has_compressible s) eqn:Ehc; [discriminate|]. injection Hr as <-.
    unfold compose_on, compose. unfold has_compressible in Ehc.
    rewrite (compose_on_incompressible cmp _ v Ehc). reflexivity.
  - rewrite (Hc eq_refl), compose_on_none. rewrite H0 in Hr. injection Hr as <-. reflexivity.
Qed.

(* for every record type of the table: a number from rdlen(true) means the type
   never compresses, and then every target receives the plain octets *)
Theorem table_rdlen_compress t s v n cmp :
  schema_of t = Some s -> wf_value s v = true -> rdlen s true v = Ok (Some n) ->
  compose_on cmp s v = compose s v /\ len (compose s v) = n /\ has_compressible s = false.
Proof.
  intros _ Hv Hr. pose proof (rdlen_exact s v Hv) as [_ H1]. rewrite H1 in Hr.
  destruct (has_compressible s) eqn:Ehc; [discriminate|]. injection Hr as <-.
  repeat split. unfold compose_on, compose. apply compose_on_incompressible. exact Ehc.
Qed.

Example rdlen_compress_example :
  rdlen (plain [U16; NameC true]) true [VNum 1; VName [[97]]] = Ok None /\
  rdlen (plain [U16; U16; U16; NameU true]) true [VNum 1; VNum 2; VNum 3; VName [[97]]] = Ok (Some 9) /\
  compose_on (Some (fun _ => [192; 12])) (plain [U16; NameC true]) [VNum 1; VName [[97]]] = [0; 1; 192; 12] /\
  compose_on (Some (fun _ => [192; 12])) (plain [U16; U16; U16; NameU true]) [VNum 1; VNum 2; VNum 3; VName [[97]]]
    = [0;1;0;2;0;3;1;97;0].
Proof. vm_compute. auto. Qed.
