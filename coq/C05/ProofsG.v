(* C05 ProofsG.v -- for record types without embedded names parse is exact:
   what it accepts re-composes to the very octets that were read.  Hence the
   re-compose theorem needs no premise on the length of the uncompressed form
   for them (it is the RDLENGTH). *)
From Coq Require Import Arith NArith List Bool Lia ZArith.
From Coq Require Import ZifyN ZifyBool ZifyNat.
From DV Require Import Base.Outcome Base.Bytes Base.Names Base.PName
  C05.Schema C05.ProofsA C05.ProofsB C05.ProofsC.
Import ListNotations.
Local Open Scope N_scope.
Ltac Zify.zify_post_hook ::= Z.div_mod_to_equations.

Lemma be_of_be l : wf_bytes l -> be (length l) (of_be l) = l.
Proof.
  induction l as [|b l IH] using rev_ind; intros Hw; [reflexivity|].
  apply wf_bytes_app in Hw as [Hl Hb]. inversion Hb as [|? ? Hb' _]; subst.
  rewrite app_length. simpl length. rewrite Nat.add_1_r. cbn [be]. rewrite of_be_snoc.
  replace ((of_be l * 256 + b) / 256) with (of_be l) by lia.
  replace ((of_be l * 256 + b) mod 256) with b by lia.
  rewrite (IH Hl). reflexivity.
Qed.

Lemma firstn_split {A} (X : list A) n k : firstn n X ++ firstn k (skipn n X) = firstn (n + k) X.
Proof.
  revert X; induction n as [|n IH]; intros X; [reflexivity|].
  destruct X as [|x X]; [cbn; rewrite firstn_nil; reflexivity|].
  cbn [firstn skipn Nat.add app]. rewrite IH. reflexivity.
Qed.

Lemma skipn_add {A} (X : list A) n k : skipn k (skipn n X) = skipn (n + k) X.
Proof.
  revert X; induction n as [|n IH]; intros X; [reflexivity|].
  destruct X as [|x X]; [cbn; rewrite skipn_nil; reflexivity|].
  cbn [skipn Nat.add]. apply IH.
Qed.

Lemma slice_app m a b c : a <= b -> b <= c -> slice m a b ++ slice m b c = slice m a c.
Proof.
  intros H1 H2. unfold slice.
  replace (N.to_nat b) with (N.to_nat a + N.to_nat (b - a))%nat by lia.
  rewrite <- skipn_add. rewrite firstn_split. f_equal. lia.
Qed.

Lemma slice_empty m a : slice m a a = [].
Proof. unfold slice. rewrite N.sub_diag. reflexivity. Qed.

Lemma slice_one m pos h : get m pos = Some h -> slice m pos (pos + 1) = [h].
Proof.
  unfold get, slice. replace (N.to_nat (pos + 1 - pos)) with 1%nat by lia.
  generalize (N.to_nat pos) as k. intros k. revert m.
  induction k as [|k IH]; intros [|x m] H; cbn in *; try discriminate.
  - injection H as ->. reflexivity.
  - apply IH. exact H.
Qed.

Definition no_name (f : field) : bool := match f with FName _ _ => false | _ => true end.

Section Exact.
Variable dec : decoder.

Lemma parse_strs_exact fuel : forall m pos0 pos lim acc l e,
  lim <= mlen m -> pos0 <= pos -> pos <= lim ->
  concat (map charstr_wire (rev acc)) = slice m pos0 pos ->
  parse_strs fuel m pos lim acc = Ok (l, e) ->
  concat (map charstr_wire l) = slice m pos0 e /\ e = lim.
Proof.
  induction fuel as [|fuel IH]; intros m pos0 pos lim acc l e Hl H0 Hp Hinv H; [discriminate|].
  cbn [parse_strs] in H. destruct (N.eqb_spec (lim - pos) 0) as [Z|Z].
  - injection H as <- <-. split; [exact Hinv|lia].
  - destruct (rd8 m pos lim) as [[h p1]| | |] eqn:E8; try discriminate. cbn [bind fst snd] in H.
    destruct (rd m p1 lim h) as [[b p2]| | |] eqn:Er; try discriminate. cbn [bind fst snd] in H.
    pose proof (rd_len _ _ _ _ _ _ Hl Er) as Hlen.
    apply rd8_ok in E8 as [Hg [-> Hle1]]. apply rd_ok in Er as [-> [-> Hle2]].
    eapply IH in H; eauto; try lia.
    cbn [rev]. rewrite map_app, concat_app, Hinv. cbn [map concat]. rewrite app_nil_r.
    unfold charstr_wire. rewrite Hlen.
    change (h :: slice m (pos + 1) (pos + 1 + h)) with ([h] ++ slice m (pos + 1) (pos + 1 + h)).
    rewrite <- (slice_one m pos h Hg). rewrite slice_app by lia. rewrite slice_app by lia. reflexivity.
Qed.

Lemma parse_field_exact f m pos lim x e :
  no_name f = true -> wf_bytes m -> lim <= mlen m -> pos <= lim ->
  parse_field dec f m pos lim = Ok (x, e) ->
  compose_field false f x = slice m pos e /\ pos <= e /\ e <= lim.
Proof.
  intros Hn Hm Hl Hp H. destruct f; try discriminate; cbn [parse_field] in H.
  - (* FNum *)
    destruct (rd m pos lim (N.of_nat w)) as [[b p]| | |] eqn:E; try discriminate.
    cbn [bind fst snd] in H. injection H as <- <-.
    pose proof (rd_len _ _ _ _ _ _ Hl E) as Hlen. pose proof (rd_wf _ _ _ _ _ _ Hm E) as Hw.
    apply rd_ok in E as [Eb [-> Hle]]. cbn [compose_field].
    split; [|lia]. transitivity b; [|exact Eb].
    replace w with (length b) by (unfold len in Hlen; lia). apply be_of_be. exact Hw.
  - (* FFix *)
    destruct (rd m pos lim (N.of_nat k)) as [[b p]| | |] eqn:E; try discriminate.
    cbn [bind fst snd] in H. injection H as <- <-.
    apply rd_ok in E as [Eb [-> Hle]]. cbn [compose_field]. split; [exact Eb|lia].
  - (* FCharStr *)
    destruct (rd8 m pos lim) as [[h p1]| | |] eqn:E8; try discriminate. cbn [bind fst snd] in H.
    destruct (rd m p1 lim h) as [[b p2]| | |] eqn:Er; try discriminate. cbn [bind fst snd] in H.
    destruct (cs_ok chk b); [|discriminate]. injection H as <- <-.
    pose proof (rd_len _ _ _ _ _ _ Hl Er) as Hlen.
    apply rd8_ok in E8 as [Hg [-> Hle1]]. apply rd_ok in Er as [-> [-> Hle2]].
    cbn [compose_field]. unfold charstr_wire. rewrite Hlen.
    change (h :: slice m (pos + 1) (pos + 1 + h)) with ([h] ++ slice m (pos + 1) (pos + 1 + h)).
    rewrite <- (slice_one m pos h Hg). rewrite slice_app by lia. split; [reflexivity|lia].
  - (* FCharStrs *)
    destruct (parse_strs (S (N.to_nat (lim - pos))) m pos lim []) as [[l p]| | |] eqn:E; try discriminate.
    cbn [bind fst snd] in H. injection H as <- <-.
    apply (parse_strs_exact _ m pos pos lim [] l p Hl) in E; try lia.
    + destruct E as [E ->]. cbn [compose_field]. split; [exact E|lia].
    + cbn. rewrite slice_empty. reflexivity.
  - (* FLen16 *)
    destruct (rd m pos lim 2) as [[h p1]| | |] eqn:E1; try discriminate. cbn [bind fst snd] in H.
    destruct (rd m p1 lim (of_be h)) as [[b p2]| | |] eqn:E2; try discriminate.
    cbn [bind fst snd] in H. injection H as <- <-.
    pose proof (rd_len _ _ _ _ _ _ Hl E1) as Hlen1. pose proof (rd_wf _ _ _ _ _ _ Hm E1) as Hw1.
    pose proof (rd_len _ _ _ _ _ _ Hl E2) as Hlen2.
    apply rd_ok in E1 as [Eh [-> Hle1]]. apply rd_ok in E2 as [Eb [-> Hle2]].
    cbn [compose_field]. rewrite Hlen2.
    replace 2%nat with (length h) by (unfold len in Hlen1; lia). rewrite be_of_be by exact Hw1.
    rewrite Eh at 1. rewrite Eb. rewrite slice_app by lia. split; [reflexivity|lia].
  - (* FRest *)
    destruct (N.ltb_spec (lim - pos) (N.of_nat min)) as [L|L]; [discriminate|].
    destruct (rd m pos lim (lim - pos)) as [[b p]| | |] eqn:E; try discriminate.
    cbn [bind fst snd] in H. injection H as <- <-.
    apply rd_ok in E as [Eb [-> Hle]]. cbn [compose_field]. split; [exact Eb|lia].
  - (* FChecked *)
    destruct (rd m pos lim (lim - pos)) as [[b p]| | |] eqn:E; try discriminate.
    cbn [bind fst snd] in H. destruct (rest_check k b); [discriminate|]. injection H as <- <-.
    apply rd_ok in E as [Eb [-> Hle]]. cbn [compose_field]. split; [exact Eb|lia].
Qed.

Lemma parse_fields_exact s : forall m pos lim v e,
  forallb no_name s = true -> wf_bytes m -> lim <= mlen m -> pos <= lim ->
  parse_fields dec s m pos lim = Ok (v, e) ->
  compose_fields false s v = slice m pos e /\ pos <= e /\ e <= lim.
Proof.
  induction s as [|f s IH]; intros m pos lim v e Hn Hm Hl Hp H; cbn [parse_fields] in H.
  - injection H as <- <-. cbn [compose_fields]. rewrite slice_empty. split; [reflexivity|lia].
  - cbn [forallb] in Hn. apply andb_true_iff in Hn as [Hf Hn].
    destruct (parse_field dec f m pos lim) as [[x p]| | |] eqn:Ef; try discriminate.
    cbn [bind fst snd] in H.
    destruct (parse_fields dec s m p lim) as [[v' p']| | |] eqn:Es; try discriminate.
    cbn [bind fst snd] in H. injection H as <- <-.
    apply (parse_field_exact _ _ _ _ _ _ Hf Hm Hl Hp) in Ef as [Ex [H1 H2]].
    apply (IH _ _ _ _ _ Hn Hm Hl H2) in Es as [Ev [H3 H4]].
    cbn [compose_fields]. rewrite Ex, Ev, slice_app by lia. split; [reflexivity|lia].
Qed.

Theorem parse_exact s m pos lim v :
  forallb no_name (s_fields s) = true -> wf_bytes m -> lim <= mlen m -> pos <= lim ->
  parse_rdata dec s m pos lim = Ok v -> compose s v = slice m pos lim.
Proof.
  intros Hn Hm Hl Hp H. unfold parse_rdata in H.
  destruct (parse_type dec s m pos lim) as [[v' e]| | |] eqn:E; try discriminate.
  cbn [bind fst snd] in H. destruct (N.eqb_spec e lim) as [->|]; [|discriminate].
  destruct (post_check (s_post s) v'); [discriminate|]. injection H as <-.
  assert (Ef : parse_fields dec (s_fields s) m pos lim = Ok (v', lim)).
  { unfold parse_type in E. destruct (s_long s) as [k|]; [|exact E].
    destruct (lim - pos <? k); [discriminate|]. destruct (65535 <? lim - pos - k); [discriminate|]. exact E. }
  unfold compose. apply (parse_fields_exact _ _ _ _ _ _ Hn Hm Hl Hp Ef).
Qed.

End Exact.

(* accepted RDATA of a type without embedded names, of at most 65535 octets
   (every RDATA in a message), re-composes to the same octets, which parse to
   the same value again -- no premise on the composed length *)
Theorem recompose_nameless dec dec' s m pos lim v pre post :
  dec_sound dec -> dec_complete dec' -> wf_schema_full s = true ->
  forallb no_name (s_fields s) = true ->
  wf_bytes m -> lim <= mlen m -> pos <= lim -> lim - pos <= 65535 ->
  parse_rdata dec s m pos lim = Ok v ->
  compose s v = slice m pos lim /\
  parse_rdata dec' s (pre ++ compose s v ++ post) (len pre) (len pre + len (compose s v)) = Ok v.
Proof.
  intros Hs Hc Hwf Hn Hm Hl Hp H16 H.
  pose proof (parse_exact dec s m pos lim v Hn Hm Hl Hp H) as Hex. split; [exact Hex|].
  eapply recompose; eauto.
  pose proof (parse_rdata_wf dec Hs s m pos lim v Hm Hl H) as Hw.
  unfold total_len. rewrite (wf_fvals_any _ _ _ Hw false).
  fold (compose s v). rewrite Hex. unfold len. rewrite slice_length by lia. lia.
Qed.

Example parse_exact_example :
  parse_rdata pname_dec (mkS [U16; U8; U8; Rest] (Some 0) true PNone) [9; 0; 1; 8; 2; 7; 7; 9] 1 7
    = Ok [VNum 1; VNum 8; VNum 2; VBytes [7; 7]] /\
  compose (mkS [U16; U8; U8; Rest] (Some 0) true PNone) [VNum 1; VNum 8; VNum 2; VBytes [7; 7]]
    = slice [9; 0; 1; 8; 2; 7; 7; 9] 1 7.
Proof. vm_compute. auto. Qed.
