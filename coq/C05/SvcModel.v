(* C05 SvcModel.v -- SVCB / HTTPS service parameters (rdata/svcb/{params,value}.rs):
   the VALUES by key (ValueIter::next_step gives each value a sub-parser of
   exactly its length, data left over is a form error), and the typed builder
   SvcParamsBuilder::{push_raw, freeze}: values may be pushed in any order, a
   key pushed twice is refused, the frozen sequence is in ascending key order.
   The builder keeps a linked list inside its buffer; the model is the sorted
   association list it represents (tied by T2 `svcbuild`).  The wire framing
   (key, length, data) is that of EDNS options: OptModel.opt_frame. *)
From Coq Require Import Arith NArith List Bool.
From DV Require Import Base.Outcome Base.Bytes Base.Names Base.PName C05.Schema C05.Gen C05.OptModel.
Import ListNotations.
Local Open Scope N_scope.

Definition splain (l : list field) : schema := mkS l None false PNone.

(* RFC 9460 keys 0..9 as implemented: note that the parser checks neither the
   order nor the self-exclusion of the mandatory list, only its shape *)
Definition svcvalue_table : list (N * schema) :=
  [ (0, splain [FChecked KEven])            (* mandatory: u16 keys *)
  ; (1, splain [CharStrs])                  (* alpn: length-prefixed protocol ids *)
  ; (2, splain [])                          (* no-default-alpn: empty *)
  ; (3, splain [U16])                       (* port *)
  ; (4, splain [FChecked (KMult 4)])        (* ipv4hint *)
  ; (5, splain [Rest])                      (* ech *)
  ; (6, splain [FChecked (KMult 16)])       (* ipv6hint *)
  ; (7, splain [Rest])                      (* dohpath *)
  ; (8, splain [])                          (* ohttp: empty *)
  ; (9, splain [FChecked KGroups])          (* tls-supported-groups *)
  ].
Fixpoint slookup (t : N) (l : list (N * schema)) : option schema :=
  match l with
  | [] => None
  | (k, s) :: l' => if k =? t then Some s else slookup t l'
  end.
Definition svcvalue_schema (key : N) : schema :=
  match slookup key svcvalue_table with Some s => s | None => splain [Rest] end.

(* ---- the builder *)
Fixpoint svc_insert (o : edns_option) (l : list edns_option) : option (list edns_option) :=
  match l with
  | [] => Some [o]
  | x :: l' =>
      if fst o <? fst x then Some (o :: x :: l')
      else if fst o =? fst x then None                 (* PushError::DuplicateKey *)
      else match svc_insert o l' with Some r => Some (x :: r) | None => None end
  end.
Fixpoint svc_push_all (acc : list edns_option) (pushes : list edns_option) : option (list edns_option) :=
  match pushes with
  | [] => Some acc
  | o :: p' => match svc_insert o acc with Some a => svc_push_all a p' | None => None end
  end.
(* from_values / freeze *)
Definition svc_build (pushes : list edns_option) : option bytes :=
  match svc_push_all [] pushes with Some l => Some (opt_frame l) | None => None end.

(* strictly ascending keys, the first one at least `last` (= previous key + 1) *)
Fixpoint ascending (last : N) (l : list edns_option) : bool :=
  match l with
  | [] => true
  | o :: l' => (last <=? fst o) && ascending (fst o + 1) l'
  end.

Definition c05_svcvalue (key : N) (d : bytes) : outcome value :=
  parse_rdata flat_dec (svcvalue_schema key) d 0 (len d).
Definition c05_svcfields (key : N) : list field := s_fields (svcvalue_schema key).
Definition c05_svcbuild (pushes : list edns_option) : option bytes := svc_build pushes.
