From Coq Require Import Extraction ExtrOcamlBasic NArith.
From DV Require Import Base.Outcome C05.Schema C05.Gen C05.Model C05.OptModel C05.SvcModel C05.SvcBuf C05.TxtModel C05.TxtLimit.
Extraction Language OCaml.
Extraction "../build/ml/C05/model.ml" c05_fields c05_compose c05_parse c05_eq_unknown c05_optframe c05_optparse c05_optdata c05_optfields c05_svcvalue c05_svcfields c05_svcbuild c05_svcbuild_inbuf c05_stdcookie c05_txtbuild c05_txtlim.
