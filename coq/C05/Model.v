(* C05 Model.v -- the schema table of the record types in /repo/src/rdata whose
   parse / compose_rdata / compose_canonical_rdata / rdlen bodies are straight
   lines, plus the opaque fallback (UnknownRecordData), and the executable
   entry points used by the correspondence driver.

   The rows are hand-written here; tools/gen/C05.py regenerates the same rows
   from the Rust source into Gen.v and Proofs.v proves the two equal
   (schema_src_agrees), so an edit of a field order / width / name handling in
   the Rust code breaks a proof.

   Types with irregular bodies (NSEC / NSEC3 type bitmaps, SVCB / HTTPS
   parameters, IPSECKEY gateway, OPT options) are not in the table: they are
   covered by the implementation-side oracle only (see tools/meta/C05.json). *)
From Coq Require Import Arith NArith List Bool.
From DV Require Import Base.Outcome Base.Bytes Base.Names Base.PName C05.Schema C05.Gen.
Import ListNotations.
Local Open Scope N_scope.

Definition plain (l : list field) : schema := mkS l None false PNone.

Definition name_only : schema := plain [NameC true].
Definition ds_like (k : N) : schema := mkS [U16; U8; U8; Rest] (Some k) true PNone.

Definition schema_table_regular : list (N * schema) :=
  [ (1,   plain [V4])                                             (* A *)
  ; (2,   name_only)                                              (* NS *)
  ; (3,   name_only)                                              (* MD *)
  ; (4,   name_only)                                              (* MF *)
  ; (5,   name_only)                                              (* CNAME *)
  ; (6,   plain [NameC true; NameC true; U32; U32; U32; U32; U32]) (* SOA *)
  ; (7,   name_only)                                              (* MB *)
  ; (8,   name_only)                                              (* MG *)
  ; (9,   name_only)                                              (* MR *)
  ; (10,  mkS [Rest] (Some 0) true PNone)                               (* NULL *)
  ; (12,  name_only)                                              (* PTR *)
  ; (13,  plain [CharStr; CharStr])                               (* HINFO *)
  ; (14,  plain [NameC true; NameC true])                         (* MINFO *)
  ; (15,  plain [U16; NameC true])                                (* MX *)
  ; (16,  mkS [CharStrs] (Some 0) true PNone)                           (* TXT *)
  ; (17,  plain [NameC true; NameC true])                         (* RP *)
  ; (28,  plain [V6])                                             (* AAAA *)
  ; (33,  plain [U16; U16; U16; NameU true])                      (* SRV *)
  ; (35,  plain [U16; U16; CharStr; CharStr; CharStr; NameU true]) (* NAPTR *)
  ; (39,  plain [NameU true])                                     (* DNAME *)
  ; (43,  ds_like 0)                                              (* DS *)
  ; (44,  plain [U8; U8; Rest])                                   (* SSHFP *)
  ; (46,  mkS [U16; U8; U8; U32; U32; U32; U16; NameU true; Rest] (Some 0) true PNone) (* RRSIG *)
  ; (47,  plain [NameU false; Bitmap])                            (* NSEC *)
  ; (48,  ds_like 4)                                              (* DNSKEY *)
  ; (50,  plain [U8; U8; U16; Len8Bytes; Len8Bytes; Bitmap])      (* NSEC3 *)
  ; (51,  plain [U8; U8; U16; Len8Bytes])                         (* NSEC3PARAM *)
  ; (52,  plain [U8; U8; U8; Rest])                               (* TLSA *)
  ; (59,  ds_like 4)                                              (* CDS *)
  ; (60,  ds_like 4)                                              (* CDNSKEY *)
  ; (61,  plain [Rest])                                           (* OPENPGPKEY *)
  ; (63,  plain [U32; U8; U8; FRest 12])                          (* ZONEMD *)
  ; (64,  mkS [U16; NameU false; SvcParamsF] (Some 0) true PNone) (* SVCB *)
  ; (65,  mkS [U16; NameU false; SvcParamsF] (Some 0) true PNone) (* HTTPS *)
  ; (250, mkS [NameU false; U48; U16; Len16Bytes; U16; U16; Len16Bytes] (Some 0) true PNone) (* TSIG *)
  ; (257, plain [U8; CaaTagStr; Rest])                            (* CAA *)
  ].

(* the shape of the sum an rdlen() body computes: the constant part (fixed
   width fields, the two length octets of every Len16Bytes) and the number of
   field lengths it adds (compose_len() / len() of every other field) *)
Fixpoint shape_fixed (l : list field) : N :=
  match l with
  | [] => 0
  | FNum w :: l' => N.of_nat w + shape_fixed l'
  | FFix k :: l' => N.of_nat k + shape_fixed l'
  | FLen16 :: l' => 2 + shape_fixed l'
  | _ :: l' => shape_fixed l'
  end.
Definition is_fixed (f : field) : bool := match f with FNum _ | FFix _ => true | _ => false end.
Definition rdlen_shape (s : schema) : N * N :=
  (shape_fixed (s_fields s), N.of_nat (length (filter (fun f => negb (is_fixed f)) (s_fields s)))).

(* UnknownRecordData: from_octets checks the length, parse_any_rdata takes
   everything that remains *)
Definition unknown_schema : schema := mkS [Rest] None true PNone.

Fixpoint lookup (t : N) (l : list (N * schema)) : option schema :=
  match l with
  | [] => None
  | (k, s) :: l' => if k =? t then Some s else lookup t l'
  end.

(* record types that AllRecordData knows but that have no row here: the
   irregular ones.  schema_of answers None for them (not modelled). *)
Definition irregular_types : list N := [41; 45].
(* OPT (its option framing is OptModel.v, option contents below), IPSECKEY
   (rows by gateway type: ipseckey_schema) *)

Definition schema_of (t : N) : option schema :=
  match lookup t schema_table_regular with
  | Some s => Some s
  | None => if existsb (N.eqb t) irregular_types then None else Some unknown_schema
  end.

(* RFC 4034 section 6.2 item 3 as amended by RFC 6840 section 5.1 (NSEC is
   removed from the list): record types whose embedded names are lower-cased
   in the canonical form.  HINFO is listed by RFC 4034 but has no names. *)
Definition rfc4034_6_2_types : list N :=
  [ 2 (* NS *); 3 (* MD *); 4 (* MF *); 5 (* CNAME *); 6 (* SOA *); 7 (* MB *)
  ; 8 (* MG *); 9 (* MR *); 12 (* PTR *); 13 (* HINFO *); 14 (* MINFO *); 15 (* MX *)
  ; 17 (* RP *); 18 (* AFSDB *); 21 (* RT *); 24 (* SIG *); 26 (* PX *); 30 (* NXT *)
  ; 35 (* NAPTR *); 36 (* KX *); 33 (* SRV *); 39 (* DNAME *); 38 (* A6 *); 46 (* RRSIG *) ].

Definition is_name (f : field) : bool := match f with FName _ _ => true | _ => false end.
Definition is_lower (f : field) : bool := match f with FName _ true => true | _ => false end.
Definition is_name_not_lower (f : field) : bool := match f with FName _ false => true | _ => false end.

(* what the RFC demands of a table row *)
Definition row_follows_rfc (r : N * schema) : bool :=
  let '(t, s) := r in
  if existsb (N.eqb t) rfc4034_6_2_types
  then negb (existsb is_name_not_lower (s_fields s))     (* every name lower-cased *)
  else negb (existsb is_lower (s_fields s)).             (* no name lower-cased *)

(* ---- IPSECKEY (rdata/ipseckey.rs): the form of the gateway field depends on
   the gateway type octet (0 none, 1 IPv4, 2 IPv6, 3 an uncompressed name), so
   there is one row per gateway type; parse picks the row by that octet.  A
   gateway name with the is_compressed() flag is refused (pname_nc_dec); whether
   the octets consumed are compared with the uncompressed length as well (which
   refuses a pointer-only gateway too) is read from the source (T1). *)
Definition gateway_fields (g : N) : list field :=
  if g =? 1 then [V4] else if g =? 2 then [V6] else if g =? 3 then [NameU false] else [].
Definition ipseckey_schema (g : N) : schema :=
  mkS ([U8; U8; U8] ++ gateway_fields g ++ [Rest]) None false (PIpseckey g).
Definition ipseckey_parse (m : bytes) (pos lim : N) : outcome value :=
  if lim - pos <? 3 then Err E_SHORT
  else match get m (pos + 1) with
       | None => Panic P_INDEX
       | Some g => if 3 <? g then Err E_FORM
                   else parse_rdata (pname_nc_dec Gen.ipseckey_checks_consumed) (ipseckey_schema g) m pos lim
       end.
(* the row for a value / for the tokens of a T2 case: hint = gateway type *)
Definition schema_for (t hint : N) : option schema :=
  if t =? 45 then (if hint <=? 3 then Some (ipseckey_schema hint) else None) else schema_of t.
Definition hint_of (v : value) : N := match v with _ :: VNum g :: _ => g | _ => 0 end.

(* ---- `==` of the record data enums on opaque data.
   The PartialEq impls generated by rdata_types! match (variant, variant) pairs
   arm by arm and end in `_ => false`; UnknownRecordData::eq compares the
   type and the octets.  Whether the Unknown / Opt arms exist is read from the
   macro (T1). *)
Fixpoint bytes_eqb (a b : bytes) : bool :=
  match a, b with
  | [], [] => true
  | x :: a', y :: b' => (x =? y) && bytes_eqb a' b'
  | _, _ => false
  end.
Definition unknown_eq (t1 : N) (b1 : bytes) (t2 : N) (b2 : bytes) : bool :=
  (t1 =? t2) && bytes_eqb b1 b2.
Definition all_eq_unknown (t1 : N) (b1 : bytes) (t2 : N) (b2 : bytes) : bool :=
  if Gen.all_eq_has_unknown_arm then unknown_eq t1 b1 t2 b2 else false.
Definition zone_eq_unknown (t1 : N) (b1 : bytes) (t2 : N) (b2 : bytes) : bool :=
  if Gen.zone_eq_has_unknown_arm then unknown_eq t1 b1 t2 b2 else false.

(* ---- entry points for the correspondence driver *)
Definition c05_fields (t hint : N) : option (list field) :=
  match schema_for t hint with Some s => Some (s_fields s) | None => None end.

Record composed := mkC {
  c_wire : bytes;
  c_rdlen : outcome (option N);        (* rdlen(false) *)
  c_rdlen_c : outcome (option N);      (* rdlen(true) *)
  c_canon : bytes
}.

(* None: no schema; Some None: the constructor rejects; Some (Some c) *)
Definition c05_compose (t : N) (v : value) : option (option composed) :=
  match schema_for t (hint_of v) with
  | None => None
  | Some s =>
      if ctor_accepts s v
      then Some (Some (mkC (compose s v) (rdlen s false v) (rdlen s true v) (compose_canonical s v)))
      else Some None
  end.

Definition c05_parse (t : N) (m : bytes) (pos lim : N) : option (outcome value) :=
  if t =? 45 then Some (ipseckey_parse m pos lim) else
  match schema_of t with
  | None => None
  | Some s => Some (parse_rdata pname_dec s m pos lim)
  end.

Definition c05_eq_unknown (t1 : N) (b1 : bytes) (t2 : N) (b2 : bytes) : bool * bool :=
  (all_eq_unknown t1 b1 t2 b2, zone_eq_unknown t1 b1 t2 b2).

(* ---- the contents of the EDNS options (base/opt/*.rs), by option code.
   Option data is parsed in a sub-parser of exactly the option length by
   OptIter::next_step, data left over is a form error: the same framing as
   record data.  Chain reads its name with Name::parse (no compression). *)
Definition option_table : list (N * schema) :=
  [ (3,  plain [Rest])                                  (* NSID *)
  ; (5,  plain [FChecked KEven])                        (* DAU *)
  ; (6,  plain [FChecked KEven])                        (* DHU *)
  ; (7,  plain [FChecked KEven])                        (* N3U *)
  ; (8,  mkS [U16; U8; U8; Rest] None false PSubnet)    (* edns-client-subnet *)
  ; (9,  plain [FChecked KExpire])                      (* EXPIRE *)
  ; (10, plain [FChecked KCookie])                      (* COOKIE *)
  ; (11, plain [FChecked KKeepalive])                   (* edns-tcp-keepalive *)
  ; (12, plain [Rest])                                  (* Padding *)
  ; (13, plain [NameU false])                           (* CHAIN *)
  ; (14, plain [FChecked KEven])                        (* edns-key-tag *)
  ; (15, plain [U16; Rest])                             (* Extended DNS Error *)
  ].
Definition option_schema (code : N) : schema :=
  match lookup code option_table with Some s => s | None => plain [Rest] end.

(* the typed view of a 16-octet server cookie (StandardServerCookie, RFC 9018):
   version, three reserved octets, timestamp, hash.  ServerCookie::
   try_to_standard succeeds exactly on 16 octets.  The EXTRA-TEXT of an
   Extended DNS Error stays octets: ExtendedError keeps text that is not valid
   UTF-8 as it is (row 15 above), only its typed view distinguishes. *)
Definition std_cookie_schema : schema := plain [U8; FFix 3; U32; FFix 8].
Definition c05_stdcookie (d : bytes) : option value :=
  match parse_rdata flat_dec std_cookie_schema d 0 (len d) with
  | Ok v => Some v
  | _ => None
  end.

Definition c05_optdata (code : N) (d : bytes) : outcome value :=
  parse_rdata flat_dec (option_schema code) d 0 (len d).
Definition c05_optfields (code : N) : list field := s_fields (option_schema code).
