(* C05 TxtModel.v -- TxtBuilder (rdata/rfc1035/txt.rs): the alternative way to
   construct TXT data.  Text is appended as slices or octet by octet and is
   cut into character strings of 255 octets; append_charstr closes the string
   under construction and adds one as it is; finish closes, and an empty
   builder yields one empty string.  (Every append also checks that the data
   stays within 65535 octets; the model is for data below that limit.)
   State: the closed character strings, latest first, and the open one. *)
From Coq Require Import Arith NArith List Bool.
From DV Require Import Base.Outcome Base.Bytes Base.Names Base.PName C05.Schema.
Import ListNotations.
Local Open Scope N_scope.

(* TOctets b = append_u8 for every octet of b in turn *)
Inductive txt_op := TSlice (b : bytes) | TOctets (b : bytes) | TCharStr (b : bytes).

Record tstate := mkT { t_closed : list bytes; t_open : option bytes }.
Definition t_empty : tstate := mkT [] None.

(* slice.chunks(255): full chunks are closed strings, a shorter last one stays open *)
Fixpoint chunks (fuel : nat) (s : bytes) (st : tstate) : tstate :=
  match fuel with
  | O => st
  | S fuel' =>
      match s with
      | [] => st
      | _ :: _ =>
          let c := firstn 255 s in
          if (length c =? 255)%nat
          then chunks fuel' (skipn 255 s) (mkT (c :: t_closed st) None)
          else mkT (t_closed st) (Some c)
      end
  end.

Definition append_slice (s : bytes) (st : tstate) : tstate :=
  match t_open st with
  | Some o =>
      let left := (255 - length o)%nat in
      if (length s <? left)%nat then mkT (t_closed st) (Some (o ++ s))
      else chunks (S (length s)) (skipn left s) (mkT ((o ++ firstn left s) :: t_closed st) None)
  | None => chunks (S (length s)) s st
  end.

Definition close (st : tstate) : tstate :=
  match t_open st with Some o => mkT (o :: t_closed st) None | None => st end.

Definition txt_step (st : tstate) (op : txt_op) : tstate :=
  match op with
  | TSlice b => append_slice b st
  | TOctets b => fold_left (fun st' x => append_slice [x] st') b st
  | TCharStr b => let st' := close st in mkT (b :: t_closed st') None
  end.

(* finish: the character strings in order; an empty builder gives one empty string *)
Definition txt_finish (st : tstate) : list bytes :=
  match rev (t_closed (close st)) with [] => [[]] | l => l end.

Definition txt_build (ops : list txt_op) : list bytes := txt_finish (fold_left txt_step ops t_empty).
Definition txt_wire (l : list bytes) : bytes := concat (map charstr_wire l).

Definition c05_txtbuild (ops : list txt_op) : bytes := txt_wire (txt_build ops).
