(* C05 ProofsL.v -- the known constructor classes one by one: a witness for
   every ctor_long_<TYPE> (the constructor accepts, rdlen() panics), kept
   symbolic (no 65k-element list is ever computed), and the exclusion theorem
   for IPSECKEY. *)
From Coq Require Import Arith NArith List Bool Lia ZArith.
From Coq Require Import ZifyN ZifyBool ZifyNat.
From DV Require Import Base.Outcome Base.Bytes Base.Names Base.PName
  C05.Schema C05.Gen C05.Model C05.ProofsA C05.ProofsB C05.ProofsC C05.ProofsD C05.ProofsF C05.Proofs.
Import ListNotations.
Local Open Scope N_scope.

Definition zeros (k : N) : bytes := repeat 0 (N.to_nat k).

Lemma bytesb_zeros k : bytesb (zeros k) = true.
Proof.
  unfold zeros. generalize (N.to_nat k) as n. intros n.
  induction n as [|n IH]; [reflexivity|]. cbn [repeat bytesb forallb] in *. exact IH.
Qed.
Lemma len_zeros k : len (zeros k) = k.
Proof. unfold zeros, len. rewrite repeat_length. apply N2Nat.id. Qed.
Lemma length_zeros k : length (zeros k) = N.to_nat k.
Proof. unfold zeros. apply repeat_length. Qed.
Global Opaque zeros.

Ltac long_witness :=
  unfold ctor_accepts, rdlen, total_len, has_compressible;
  cbn -[zeros N.ltb N.leb N.add];
  rewrite ?bytesb_zeros, ?len_zeros, ?length_zeros; cbn -[zeros]; auto.

Theorem ctor_long_TLSA_refuted :
  let s := plain [U8; U8; U8; Rest] in let v := [VNum 0; VNum 0; VNum 0; VBytes (zeros 65533)] in
  schema_of 52 = Some s /\ ctor_accepts s v = true /\ rdlen s false v = Panic P_LONG.
Proof. cbv zeta. split; [reflexivity|]. split; long_witness. Qed.

Theorem ctor_long_SSHFP_refuted :
  let s := plain [U8; U8; Rest] in let v := [VNum 0; VNum 0; VBytes (zeros 65534)] in
  schema_of 44 = Some s /\ ctor_accepts s v = true /\ rdlen s false v = Panic P_LONG.
Proof. cbv zeta. split; [reflexivity|]. split; long_witness. Qed.

Theorem ctor_long_OPENPGPKEY_refuted :
  let s := plain [Rest] in let v := [VBytes (zeros 65536)] in
  schema_of 61 = Some s /\ ctor_accepts s v = true /\ rdlen s false v = Panic P_LONG.
Proof. cbv zeta. split; [reflexivity|]. split; long_witness. Qed.

Theorem ctor_long_ZONEMD_refuted :
  let s := plain [U32; U8; U8; FRest 12] in let v := [VNum 0; VNum 0; VNum 0; VBytes (zeros 65530)] in
  schema_of 63 = Some s /\ ctor_accepts s v = true /\ rdlen s false v = Panic P_LONG.
Proof. cbv zeta. split; [reflexivity|]. split; long_witness. Qed.

Theorem ctor_long_CAA_refuted :
  let s := plain [U8; CaaTagStr; Rest] in let v := [VNum 0; VBytes [97]; VBytes (zeros 65533)] in
  schema_of 257 = Some s /\ ctor_accepts s v = true /\ rdlen s false v = Panic P_LONG.
Proof. cbv zeta. split; [reflexivity|]. split; long_witness. Qed.

Theorem ctor_long_IPSECKEY_refuted :
  let s := ipseckey_schema 0 in let v := [VNum 0; VNum 0; VNum 1; VBytes (zeros 65533)] in
  ctor_accepts s v = true /\ rdlen s false v = Panic P_LONG.
Proof. cbv zeta. split; long_witness. Qed.

Lemma short_rest_none l :
  forallb (fun f => match f with FRest (S _) => false | _ => true end) l = true ->
  forall v, short_rest_fields l v = false.
Proof.
  induction l as [|f l IH]; intros H v; [destruct v; reflexivity|].
  cbn [forallb] in H. apply andb_true_iff in H as [Hf Hl].
  destruct v as [|x v]; [destruct f; reflexivity|].
  destruct f as [| | | | | |[|mn]|]; try discriminate Hf; destruct x; cbn [short_rest_fields];
    try (apply IH; exact Hl).
Qed.

(* IPSECKEY: everything Ipseckey::new accepts round-trips with an exact length,
   except over-long values and the key-less value with a key algorithm *)
Theorem ipseckey_ctor_sound g v pre post :
  g <= 3 -> ctor_accepts (ipseckey_schema g) v = true ->
  overlong (ipseckey_schema g) v = false -> post_ok (PIpseckey g) v = true ->
  ipseckey_parse (pre ++ compose (ipseckey_schema g) v ++ post) (len pre)
    (len pre + len (compose (ipseckey_schema g) v)) = Ok v /\
  rdlen (ipseckey_schema g) false v = Ok (Some (len (compose (ipseckey_schema g) v))).
Proof.
  intros Hg Hc Ho Hp. apply ipseckey_parse_compose; [exact Hg|].
  apply ctor_accepts_wf; auto.
  unfold short_rest. apply short_rest_none.
  unfold ipseckey_schema, gateway_fields. cbn [s_fields].
  destruct (g =? 1); [reflexivity|]. destruct (g =? 2); [reflexivity|]. destruct (g =? 3); reflexivity.
Qed.
