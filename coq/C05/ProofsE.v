(* C05 ProofsE.v -- EDNS option framing: the framed length is the sum of
   4 + data length, a framed list iterates as itself, Opt::push keeps the OPT
   data within 65535 octets exactly when it counts the option header. *)
From Coq Require Import Arith NArith List Bool Lia ZArith.
From Coq Require Import ZifyN ZifyBool ZifyNat.
From DV Require Import Base.Outcome Base.Bytes Base.Names Base.PName
  C05.Schema C05.Gen C05.OptModel C05.ProofsA C05.ProofsB.
Import ListNotations.
Local Open Scope N_scope.
Ltac Zify.zify_post_hook ::= Z.div_mod_to_equations.

Definition framed_len (l : list edns_option) : N :=
  fold_right (fun o a => 4 + len (snd o) + a) 0 l.

Lemma frame1_len o : len (frame1 o) = 4 + len (snd o).
Proof. unfold frame1. rewrite !len_app, !len_be. lia. Qed.

Theorem opt_frame_len l : len (opt_frame l) = framed_len l.
Proof.
  unfold opt_frame, framed_len. induction l as [|o l IH]; [reflexivity|].
  cbn [map concat fold_right]. rewrite len_app, frame1_len, IH. lia.
Qed.

Definition wf_option (o : edns_option) : Prop := fst o < 65536 /\ len (snd o) <= 65535.

Lemma opt_iter_frame l : forall fuel pre post acc lim,
  Forall wf_option l -> (length l < fuel)%nat ->
  lim = len pre + len (opt_frame l) ->
  opt_iter fuel (pre ++ opt_frame l ++ post) (len pre) lim acc = Ok (rev acc ++ l).
Proof.
  induction l as [|[c d] l IH]; intros fuel pre post acc lim Hw Hf Hl;
    (destruct fuel as [|fuel]; [simpl in Hf; lia|]); cbn [opt_iter].
  - unfold opt_frame in Hl. cbn [map concat] in Hl. rewrite len_nil in Hl.
    destruct (N.eqb_spec (lim - len pre) 0) as [_|E]; [|lia]. rewrite app_nil_r. reflexivity.
  - apply Forall_cons_iff in Hw as [[Hc Hd] Hw']. cbn [fst snd] in *.
    unfold opt_frame in *. cbn [map concat] in *. set (tail := concat (map frame1 l)) in *.
    rewrite len_app, frame1_len in Hl. cbn [snd] in Hl.
    destruct (N.eqb_spec (lim - len pre) 0) as [E|_]; [lia|].
    unfold frame1 at 1. cbn [fst snd].
    rewrite (rd_at _ _ _ _ pre (be 2 c) (be 2 (len d) ++ d ++ tail ++ post));
      [| rewrite <- !app_assoc; reflexivity | reflexivity | rewrite len_be; reflexivity | rewrite ?len_be; lia].
    cbn [bind fst snd].
    rewrite (rd_at _ _ _ _ (pre ++ be 2 c) (be 2 (len d)) (d ++ tail ++ post));
      [| rewrite <- !app_assoc; reflexivity | rewrite len_app, len_be; reflexivity
       | rewrite len_be; reflexivity | rewrite ?len_be; lia].
    cbn [bind fst snd]. rewrite !of_be_be by (cbn [pow256]; lia).
    rewrite (rd_at _ _ _ _ (pre ++ be 2 c ++ be 2 (len d)) d (tail ++ post));
      [| rewrite <- !app_assoc; reflexivity | rewrite !len_app, !len_be; lia | reflexivity | lia].
    cbn [bind fst snd].
    replace (pre ++ (frame1 (c, d) ++ tail) ++ post)
      with ((pre ++ frame1 (c, d)) ++ tail ++ post)
      by (rewrite <- !app_assoc; reflexivity).
    replace (len pre + 2 + 2 + len d) with (len (pre ++ frame1 (c, d)))
      by (rewrite len_app, frame1_len; cbn [snd]; lia).
    rewrite IH.
    + cbn [rev]. rewrite <- app_assoc. reflexivity.
    + exact Hw'.
    + simpl in Hf. lia.
    + rewrite len_app, frame1_len. cbn [snd]. lia.
Qed.

Lemma options_count l : N.of_nat (length l) <= len (opt_frame l).
Proof.
  rewrite opt_frame_len. induction l as [|o l IH]; cbn [length framed_len fold_right]; [lia|].
  unfold framed_len in IH. lia.
Qed.

Theorem opt_parse_frame l :
  Forall wf_option l -> framed_len l <= 65535 -> opt_parse (opt_frame l) = Ok l.
Proof.
  intros Hw Hl. unfold opt_parse. rewrite opt_frame_len.
  destruct (N.ltb_spec 65535 (framed_len l)) as [L|_]; [lia|].
  pose proof (opt_iter_frame l (S (length (opt_frame l))) [] [] [] (framed_len l) Hw) as H.
  cbn [app] in H. rewrite app_nil_r in H. rewrite len_nil in H. apply H.
  - pose proof (options_count l). unfold len in *. lia.
  - rewrite opt_frame_len. lia.
Qed.

(* pushing honest options yields the framing of the list *)
Theorem opt_push_all_frame l : forall cur r,
  opt_push_all cur l = Some r -> r = cur ++ opt_frame l.
Proof.
  induction l as [|o l IH]; intros cur r H; cbn [opt_push_all] in H.
  - injection H as <-. unfold opt_frame. cbn. rewrite app_nil_r. reflexivity.
  - unfold opt_push in H. destruct (65535 <? len cur + push_header + len (snd o)); [discriminate|].
    apply IH in H. rewrite H. unfold opt_frame. cbn [map concat]. rewrite <- app_assoc. reflexivity.
Qed.

(* with the header counted, OPT data never exceeds 65535 octets *)
Theorem opt_push_bounded cur o r :
  Gen.opt_push_counts_header = true -> opt_push cur o = Some r -> len r <= 65535.
Proof.
  intros Hh. unfold opt_push, push_header. rewrite Hh.
  destruct (N.ltb_spec 65535 (len cur + 4 + len (snd o))) as [_|L]; [discriminate|].
  intros H. injection H as <-. rewrite len_app, frame1_len. lia.
Qed.

(* without it, it does *)
Definition big_data : bytes := N.iter 65532 (cons 1) [].

Lemma big_data_len : len big_data = 65532.
Proof. vm_compute. reflexivity. Qed.

Theorem opt_push_long_refuted :
  Gen.opt_push_counts_header = false ->
  exists o r, opt_push [] o = Some r /\ 65535 < len r.
Proof.
  intros Hh. exists (3, big_data), ([] ++ frame1 (3, big_data)). split.
  - unfold opt_push, push_header. rewrite Hh. cbn [snd]. rewrite big_data_len, len_nil.
    reflexivity.
  - rewrite len_app, frame1_len, len_nil. cbn [snd]. rewrite big_data_len. lia.
Qed.

Example opt_frame_example :
  opt_frame [(15, [0;15;99]); (3, [])] = [0;15;0;3;0;15;99;0;3;0;0] /\
  opt_parse [0;15;0;3;0;15;99;0;3;0;0] = Ok [(15, [0;15;99]); (3, [])] /\
  (* a length that announces more than was written swallows the next option *)
  opt_parse [0;15;0;6;0;15;0;3;0;0] = Ok [(15, [0;15;0;3;0;0])] /\
  opt_parse [0;15;0;7;0;15;0;3;0;0] = Err E_SHORT.
Proof. vm_compute. auto. Qed.
