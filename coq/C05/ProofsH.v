(* C05 ProofsH.v -- service parameters: every value row round-trips; the
   builder yields ascending keys whatever the push order, and an ascending
   framed list passes SvcParams::check_slice and iterates as itself. *)
From Coq Require Import Arith NArith List Bool Lia ZArith.
From Coq Require Import ZifyN ZifyBool ZifyNat.
From DV Require Import Base.Outcome Base.Bytes Base.Names Base.PName
  C05.Schema C05.Gen C05.OptModel C05.SvcModel C05.ProofsA C05.ProofsB C05.ProofsC C05.ProofsE.
Import ListNotations.
Local Open Scope N_scope.
Ltac Zify.zify_post_hook ::= Z.div_mod_to_equations.

Lemma svcvalue_table_wf_check :
  forallb (fun r => wf_schema_full (snd r)) svcvalue_table = true.
Proof. vm_compute. reflexivity. Qed.

Lemma svcvalue_schema_wf key : wf_schema_full (svcvalue_schema key) = true.
Proof.
  unfold svcvalue_schema. destruct (slookup key svcvalue_table) as [s|] eqn:E; [|reflexivity].
  pose proof svcvalue_table_wf_check as H. rewrite forallb_forall in H.
  apply (H (key, s)). clear H. revert E. generalize svcvalue_table as l.
  induction l as [|[k s'] l IH]; cbn [slookup]; [discriminate|].
  destruct (N.eqb_spec k key) as [->|_]; intros H.
  - injection H as ->. left. reflexivity.
  - right. apply IH. exact H.
Qed.

Theorem svcvalue_parse_compose key v pre post :
  wf_value (svcvalue_schema key) v = true ->
  parse_rdata flat_dec (svcvalue_schema key)
    (pre ++ compose (svcvalue_schema key) v ++ post) (len pre)
    (len pre + len (compose (svcvalue_schema key) v)) = Ok v /\
  rdlen (svcvalue_schema key) false v = Ok (Some (len (compose (svcvalue_schema key) v))).
Proof.
  intros Hv. split.
  - apply parse_compose; auto. apply flat_dec_complete. apply svcvalue_schema_wf.
  - apply (rdlen_exact _ _ Hv).
Qed.

Example svcvalue_examples :
  c05_svcvalue 1 [2;104;50;2;104;51] = Ok [VStrs [[104;50]; [104;51]]] /\
  c05_svcvalue 1 [2;104] = Err E_SHORT /\
  c05_svcvalue 2 [] = Ok [] /\ c05_svcvalue 2 [0] = Err E_FORM /\
  c05_svcvalue 3 [1;187] = Ok [VNum 443] /\ c05_svcvalue 3 [1] = Err E_SHORT /\
  c05_svcvalue 3 [1;187;0] = Err E_FORM /\
  c05_svcvalue 4 [192;0;2;1] = Ok [VBytes [192;0;2;1]] /\ c05_svcvalue 4 [192;0;2] = Err E_FORM /\
  c05_svcvalue 6 [1;2;3;4] = Err E_FORM /\
  c05_svcvalue 0 [0;1;0] = Err E_FORM /\
  (* mandatory lists are not checked for order or for naming themselves *)
  c05_svcvalue 0 [0;4;0;1;0;0] = Ok [VBytes [0;4;0;1;0;0]] /\
  c05_svcvalue 9 [] = Err E_FORM /\ c05_svcvalue 9 [0;29] = Ok [VBytes [0;29]] /\
  c05_svcvalue 4711 [1;2;3] = Ok [VBytes [1;2;3]].
Proof. vm_compute. repeat split; reflexivity. Qed.

(* ---- builder *)
Lemma svc_insert_asc o : forall l lo r,
  ascending lo l = true -> lo <= fst o -> svc_insert o l = Some r -> ascending lo r = true.
Proof.
  induction l as [|x l IH]; intros lo r Ha Hlo H; cbn [svc_insert] in H.
  - injection H as <-. cbn [ascending]. apply andb_true_iff. split; [apply N.leb_le; lia|reflexivity].
  - cbn [ascending] in Ha. apply andb_true_iff in Ha as [Hx Ha]. apply N.leb_le in Hx.
    destruct (N.ltb_spec (fst o) (fst x)) as [L|L].
    + injection H as <-. cbn [ascending]. rewrite Ha.
      repeat (apply andb_true_iff; split); try reflexivity; apply N.leb_le; lia.
    + destruct (N.eqb_spec (fst o) (fst x)) as [E|E]; [discriminate|].
      destruct (svc_insert o l) as [r'|] eqn:Er; [|discriminate]. injection H as <-.
      cbn [ascending]. apply andb_true_iff. split; [apply N.leb_le; lia|].
      eapply IH; eauto. lia.
Qed.

Lemma svc_push_all_asc pushes : forall acc r,
  ascending 0 acc = true -> svc_push_all acc pushes = Some r -> ascending 0 r = true.
Proof.
  induction pushes as [|o p IH]; intros acc r Ha H; cbn [svc_push_all] in H.
  - injection H as <-. exact Ha.
  - destruct (svc_insert o acc) as [a|] eqn:E; [|discriminate].
    eapply IH; [|exact H]. eapply svc_insert_asc; eauto. lia.
Qed.

Lemma svc_insert_perm o : forall l r, svc_insert o l = Some r ->
  forall x, In x r <-> x = o \/ In x l.
Proof.
  induction l as [|y l IH]; intros r H x; cbn [svc_insert] in H.
  - injection H as <-. cbn [In]. intuition congruence.
  - destruct (fst o <? fst y).
    + injection H as <-. cbn [In]. intuition congruence.
    + destruct (fst o =? fst y); [discriminate|].
      destruct (svc_insert o l) as [r'|] eqn:Er; [|discriminate]. injection H as <-.
      cbn [In]. rewrite (IH _ eq_refl x). intuition congruence.
Qed.

Lemma svc_push_all_perm pushes : forall acc r, svc_push_all acc pushes = Some r ->
  forall x, In x r <-> In x acc \/ In x pushes.
Proof.
  induction pushes as [|o p IH]; intros acc r Hr x; cbn [svc_push_all] in Hr.
  - injection Hr as <-. cbn [In]. tauto.
  - destruct (svc_insert o acc) as [a|] eqn:Ea; [|discriminate].
    rewrite (IH a r Hr x), (svc_insert_perm _ _ _ Ea x). cbn [In]. intuition congruence.
Qed.

Lemma be2 n : n < 65536 -> be 2 n = [n / 256; n mod 256].
Proof. intros H. cbn [be app]. f_equal. lia. Qed.

Lemma svcparams_check_frame l : forall fuel last,
  Forall wf_option l -> ascending last l = true -> (length (opt_frame l) < fuel)%nat ->
  svcparams_check fuel (opt_frame l) last = None.
Proof.
  induction l as [|[c d] l IH]; intros fuel last Hw Ha Hf.
  - destruct fuel; [simpl in Hf; lia|]. reflexivity.
  - apply Forall_cons_iff in Hw as [[Hc Hd] Hw']. cbn [fst snd] in *.
    cbn [ascending fst] in Ha. apply andb_true_iff in Ha as [Hlast Ha]. apply N.leb_le in Hlast.
    unfold opt_frame in *. cbn [map concat] in *. set (tail := concat (map frame1 l)) in *.
    unfold frame1 in *. cbn [fst snd] in *. rewrite !be2 in * by lia. cbn [app] in *.
    destruct fuel as [|fuel]; [simpl in Hf; lia|]. cbn [svcparams_check].
    replace (c / 256 * 256 + c mod 256) with c by lia.
    destruct (N.leb_spec (c + 1) last) as [L|_]; [lia|].
    replace (len d / 256 * 256 + len d mod 256) with (len d) by lia.
    unfold len at 1 2. rewrite Nat2N.id.
    destruct (Nat.ltb_spec (length (d ++ tail)) (length d)) as [L|_]; [rewrite app_length in L; lia|].
    rewrite skipn_app, skipn_all, Nat.sub_diag. cbn [skipn app].
    apply IH; auto. simpl in Hf. rewrite app_length in Hf. lia.
Qed.

(* what the builder freezes is accepted by SvcParams::from_octets and holds
   exactly the pushed values, in ascending key order, whatever the push order *)
Theorem svc_build_accepted pushes b :
  Forall wf_option pushes -> svc_build pushes = Some b ->
  rest_check KSvcParams b = None /\
  exists l, b = opt_frame l /\ ascending 0 l = true /\ (forall x, In x l <-> In x pushes) /\
            opt_iter (S (length b)) b 0 (len b) [] = Ok l.
Proof.
  intros Hw H. unfold svc_build in H.
  destruct (svc_push_all [] pushes) as [l|] eqn:E; [|discriminate]. injection H as <-.
  assert (Ha : ascending 0 l = true) by (eapply svc_push_all_asc; eauto; reflexivity).
  assert (Hperm : forall x, In x l <-> In x pushes).
  { intros x. rewrite (svc_push_all_perm _ _ _ E x). cbn [In]. tauto. }
  assert (Hwl : Forall wf_option l).
  { apply Forall_forall. intros x Hx. rewrite Forall_forall in Hw. apply Hw. apply Hperm. exact Hx. }
  split.
  - unfold rest_check. apply svcparams_check_frame; auto.
  - exists l. repeat split; auto; try apply Hperm.
    pose proof (opt_iter_frame l (S (length (opt_frame l))) [] [] [] (len (opt_frame l)) Hwl) as Hi.
    cbn [app] in Hi. rewrite app_nil_r in Hi. apply Hi.
    + pose proof (options_count l). unfold len in *. lia.
    + rewrite len_nil. lia.
Qed.

(* a duplicate key is refused *)
Theorem svc_build_duplicate o o' :
  fst o = fst o' -> svc_build [o; o'] = None.
Proof.
  intros E. unfold svc_build. cbn [svc_push_all svc_insert].
  destruct (N.ltb_spec (fst o') (fst o)) as [L|_]; [lia|].
  destruct (N.eqb_spec (fst o') (fst o)) as [_|N]; [reflexivity|congruence].
Qed.

Example svc_build_example :
  svc_build [(3, [1;187]); (1, [2;104;50]); (0, [0;1])]
    = Some [0;0;0;2;0;1; 0;1;0;3;2;104;50; 0;3;0;2;1;187] /\
  svc_build [(3, []); (1, []); (3, [1])] = None.
Proof. vm_compute. auto. Qed.
