(* C05 ProofsN.v -- TxtBuilder: whatever is appended, in whatever pieces, no
   character string exceeds 255 octets (so the value composes and parses back),
   and the text (the concatenation of the strings) is the concatenation of
   what was appended. *)
From Coq Require Import Arith NArith List Bool Lia ZArith.
From Coq Require Import ZifyN ZifyBool ZifyNat.
From DV Require Import Base.Outcome Base.Bytes Base.Names Base.PName
  C05.Schema C05.TxtModel C05.ProofsA C05.ProofsB.
Import ListNotations.
Local Open Scope N_scope.

Definition op_text (op : txt_op) : bytes := match op with TSlice b | TOctets b | TCharStr b => b end.
Definition op_ok (op : txt_op) : Prop := match op with TCharStr b => (length b <= 255)%nat | _ => True end.

(* invariant: closed strings <= 255, the open one < 255; text so far *)
Definition st_ok (st : tstate) : Prop :=
  Forall (fun s => (length s <= 255)%nat) (t_closed st) /\
  match t_open st with Some o => (length o < 255)%nat | None => True end.
Definition st_text (st : tstate) : bytes :=
  concat (rev (t_closed st)) ++ match t_open st with Some o => o | None => [] end.

Lemma chunks_ok fuel : forall s st, (length s < fuel)%nat -> st_ok st -> t_open st = None ->
  st_ok (chunks fuel s st) /\ st_text (chunks fuel s st) = st_text st ++ s.
Proof.
  induction fuel as [|fuel IH]; intros s st Hf [Hc Ho] Hn; [lia|].
  cbn [chunks]. destruct s as [|x s'].
  - split; [split; assumption|]. rewrite app_nil_r. reflexivity.
  - set (s := x :: s') in *. destruct (Nat.eqb_spec (length (firstn 255 s)) 255) as [E|E].
    + assert (Hlen : (255 <= length s)%nat) by (rewrite firstn_length in E; lia).
      destruct (IH (skipn 255 s) (mkT (firstn 255 s :: t_closed st) None)) as [H1 H2].
      * rewrite skipn_length. lia.
      * split; [constructor; [lia|exact Hc]|exact I].
      * reflexivity.
      * split; [exact H1|]. rewrite H2. unfold st_text. cbn [t_closed t_open rev].
        rewrite Hn, concat_app. cbn [concat]. rewrite !app_nil_r, <- app_assoc, firstn_skipn. reflexivity.
    + assert (Hlen : (length s < 255)%nat) by (rewrite firstn_length in E; lia).
      rewrite firstn_all2 by lia. split.
      * split; [exact Hc|exact Hlen].
      * unfold st_text. cbn [t_closed t_open]. rewrite Hn, app_nil_r. reflexivity.
Qed.

Lemma append_slice_ok s st : st_ok st ->
  st_ok (append_slice s st) /\ st_text (append_slice s st) = st_text st ++ s.
Proof.
  intros [Hc Ho]. unfold append_slice. destruct (t_open st) as [o|] eqn:Eo.
  - destruct (Nat.ltb_spec (length s) (255 - length o)) as [L|L].
    + split.
      * split; [exact Hc|]. cbn [t_open]. rewrite app_length. lia.
      * unfold st_text. cbn [t_closed t_open]. rewrite Eo, app_assoc. reflexivity.
    + destruct (chunks_ok (S (length s)) (skipn (255 - length o) s)
                 (mkT ((o ++ firstn (255 - length o) s) :: t_closed st) None)) as [H1 H2].
      * rewrite skipn_length. lia.
      * split; [|exact I]. constructor; [|exact Hc]. rewrite app_length, firstn_length. lia.
      * reflexivity.
      * split; [exact H1|]. rewrite H2. unfold st_text. cbn [t_closed t_open rev].
        rewrite Eo, concat_app. cbn [concat]. rewrite !app_nil_r, <- !app_assoc, firstn_skipn. reflexivity.
  - destruct (chunks_ok (S (length s)) s st) as [H1 H2]; [lia|split; [exact Hc|rewrite Eo; exact I]|exact Eo|].
    split; assumption.
Qed.

Lemma octets_ok b : forall st, st_ok st ->
  st_ok (fold_left (fun st' x => append_slice [x] st') b st) /\
  st_text (fold_left (fun st' x => append_slice [x] st') b st) = st_text st ++ b.
Proof.
  induction b as [|x b IH]; intros st H; cbn [fold_left].
  - split; [exact H|rewrite app_nil_r; reflexivity].
  - destruct (append_slice_ok [x] st H) as [H1 H2]. destruct (IH _ H1) as [H3 H4].
    split; [exact H3|]. rewrite H4, H2, <- app_assoc. reflexivity.
Qed.

Lemma close_ok st : st_ok st -> st_ok (close st) /\ st_text (close st) = st_text st /\ t_open (close st) = None.
Proof.
  intros [Hc Ho]. unfold close. destruct (t_open st) as [o|] eqn:Eo.
  - split; [split; [constructor; [lia|exact Hc]|exact I]|]. split; [|reflexivity].
    unfold st_text. cbn [t_closed t_open rev]. rewrite Eo, concat_app. cbn [concat]. rewrite !app_nil_r. reflexivity.
  - split; [split; [exact Hc|rewrite Eo; exact I]|]. split; [reflexivity|exact Eo].
Qed.

Lemma step_ok st op : st_ok st -> op_ok op ->
  st_ok (txt_step st op) /\ st_text (txt_step st op) = st_text st ++ op_text op.
Proof.
  intros H Hop. destruct op as [b|b|b]; cbn [txt_step op_text].
  - apply append_slice_ok. exact H.
  - apply octets_ok. exact H.
  - destruct (close_ok st H) as [[Hc _] [Ht Hn]]. split.
    + split; [constructor; [exact Hop|exact Hc]|exact I].
    + unfold st_text in *. cbn [t_closed t_open rev]. rewrite Hn in Ht. rewrite app_nil_r in *.
      rewrite concat_app. cbn [concat]. rewrite app_nil_r, Ht. reflexivity.
Qed.

Theorem txt_build_ok ops : Forall op_ok ops ->
  Forall (fun s => (length s <= 255)%nat) (txt_build ops) /\
  concat (txt_build ops) = concat (map op_text ops) /\ txt_build ops <> [].
Proof.
  intros Hops. unfold txt_build.
  assert (G : forall st, st_ok st ->
    st_ok (fold_left txt_step ops st) /\ st_text (fold_left txt_step ops st) = st_text st ++ concat (map op_text ops)).
  { induction Hops as [|op ops Hop _ IH]; intros st H; cbn [fold_left map concat].
    - split; [exact H|rewrite app_nil_r; reflexivity].
    - destruct (step_ok st op H Hop) as [H1 H2]. destruct (IH _ H1) as [H3 H4].
      split; [exact H3|]. rewrite H4, H2, <- app_assoc. reflexivity. }
  destruct (G t_empty) as [Hok Htext]; [split; [constructor|exact I]|].
  destruct (close_ok _ Hok) as [[Hc _] [Ht Hn]].
  unfold txt_finish. set (fin := close (fold_left txt_step ops t_empty)) in *.
  assert (Htx : concat (rev (t_closed fin)) = concat (map op_text ops)).
  { assert (E : st_text fin = concat (rev (t_closed fin))) by (unfold st_text; rewrite Hn, app_nil_r; reflexivity).
    rewrite <- E, Ht, Htext. reflexivity. }
  destruct (rev (t_closed fin)) as [|s l] eqn:Er.
  - repeat split; [repeat constructor; simpl; lia| |discriminate]. cbn [concat] in *. rewrite <- Htx. reflexivity.
  - repeat split; [|exact Htx|discriminate]. rewrite <- Er. apply Forall_rev. exact Hc.
Qed.

(* hence the built value composes and parses back (TXT row: [CharStrs]) *)
Theorem txt_build_wf ops : Forall op_ok ops -> Forall (fun b => wf_bytes (op_text b)) ops ->
  wf_fval true FCharStrs (VStrs (txt_build ops)) = true.
Proof.
  intros Hops Hb. destruct (txt_build_ok ops Hops) as [Hl [Ht Hne]]. cbn [wf_fval].
  apply andb_true_iff. split.
  - apply forallb_forall. intros s Hs. unfold strb. apply andb_true_iff. split.
    + apply Nat.leb_le. rewrite Forall_forall in Hl. apply Hl. exact Hs.
    + apply bytesb_spec. unfold wf_bytes. apply Forall_forall. intros x Hx.
      assert (Hin : In x (concat (txt_build ops))) by (apply in_concat; eauto).
      rewrite Ht in Hin. apply in_concat in Hin as [t [Ht' Hxt]]. apply in_map_iff in Ht' as [op [<- Hop]].
      rewrite Forall_forall in Hb. specialize (Hb op Hop). unfold wf_bytes in Hb. rewrite Forall_forall in Hb. auto.
  - cbn [negb orb]. destruct (txt_build ops); [congruence|reflexivity].
Qed.

Example txt_build_example :
  c05_txtbuild [] = [0] /\
  c05_txtbuild [TOctets [97; 98]; TSlice [99]] = [3; 97; 98; 99] /\
  c05_txtbuild [TSlice [97]; TCharStr [120]; TOctets [98]] = [1; 97; 1; 120; 1; 98] /\
  map (@length N) (txt_build [TOctets (repeat 97 256)]) = [255; 1]%nat /\
  map (@length N) (txt_build [TSlice (repeat 97 254); TOctets [1; 2]]) = [255; 1]%nat /\
  map (@length N) (txt_build [TSlice (repeat 97 255); TOctets [1]]) = [255; 1]%nat.
Proof. vm_compute. repeat split; reflexivity. Qed.
