(* C05 ProofsF.v -- the checked remainders and the EDNS option contents:
   every type bitmap in RFC 4034 4.1.2 layout (in particular every bitmap the
   builder of C13 produces) passes RtypeBitmap's check; the option table is
   well-formed, so the schema-generic theorems hold for every option. *)
From Coq Require Import Arith NArith List Bool Lia ZArith.
From Coq Require Import ZifyN ZifyBool ZifyNat.
From DV Require Import Base.Outcome Base.Bytes Base.Names Base.PName
  C05.Schema C05.Gen C05.Model C05.ProofsA C05.ProofsB C05.ProofsC C05.ProofsD.
From DV Require C13.Model C13.ProofsBitmap.
Import ListNotations.
Local Open Scope N_scope.
Ltac Zify.zify_post_hook ::= Z.div_mod_to_equations.

Lemma bitmap_check_layout prev b : C13.Model.bm_wire_ok prev b ->
  forall fuel, (length b < fuel)%nat -> bitmap_check fuel b = None.
Proof.
  induction 1 as [prev|prev w l data rest Hp Hw Hl Hlen Hb Hlast Hrest IH]; intros fuel Hf.
  - destruct fuel; [simpl in Hf; lia|]. reflexivity.
  - destruct fuel as [|fuel]; [simpl in Hf; lia|]. cbn [bitmap_check].
    destruct (N.eqb_spec l 0) as [Z|_]; [lia|].
    destruct (N.ltb_spec 32 l) as [L|_]; [lia|].
    destruct (Nat.ltb_spec (length (data ++ rest)) (N.to_nat l)) as [L|_];
      [rewrite app_length in L; lia|].
    rewrite <- Hlen, skipn_app, skipn_all, Nat.sub_diag. cbn [skipn app].
    apply IH. simpl in Hf. rewrite app_length in Hf. lia.
Qed.

(* what RtypeBitmapBuilder produces is accepted as the types field of NSEC / NSEC3 *)
Theorem built_bitmap_accepted ts : Forall (fun x => x < 65536) ts ->
  rest_check KBitmap (C13.Model.bm_finalize (C13.Model.bm_adds [] ts)) = None.
Proof.
  intros H. unfold rest_check. eapply bitmap_check_layout.
  - apply C13.ProofsBitmap.bitmap_wire_layout. exact H.
  - lia.
Qed.

Example bitmap_check_examples :
  rest_check KBitmap [0; 6; 64; 0; 0; 0; 0; 3; 1; 1; 64] = None /\
  rest_check KBitmap [0; 0] = Some E_FORM /\            (* empty window *)
  rest_check KBitmap [0; 33] = Some E_FORM /\           (* more than 32 octets *)
  rest_check KBitmap [0; 2; 1] = Some E_SHORT /\
  rest_check KBitmap [7] = Some E_SHORT /\
  (* the check does not demand ascending windows or a non-zero last octet *)
  rest_check KBitmap [1; 1; 0; 0; 1; 0] = None.
Proof. vm_compute. repeat split; reflexivity. Qed.

Example svcparams_check_examples :
  rest_check KSvcParams [] = None /\
  rest_check KSvcParams [0;1;0;2;9;9; 0;3;0;0] = None /\
  rest_check KSvcParams [0;3;0;0; 0;1;0;0] = Some E_FORM /\     (* unordered *)
  rest_check KSvcParams [0;3;0;0; 0;3;0;0] = Some E_FORM /\     (* duplicate *)
  rest_check KSvcParams [0;0;0;0] = None /\                     (* key 0 first is fine *)
  rest_check KSvcParams [0;1;0;2;9] = Some E_SHORT /\
  rest_check KSvcParams [0;1;0] = Some E_SHORT.
Proof. vm_compute. repeat split; reflexivity. Qed.

(* ---- EDNS option contents *)
Lemma option_table_wf_check :
  forallb (fun r => wf_schema_full (snd r)) option_table = true.
Proof. vm_compute. reflexivity. Qed.

Lemma option_schema_wf code : wf_schema_full (option_schema code) = true.
Proof.
  unfold option_schema. destruct (lookup code option_table) as [s|] eqn:E; [|reflexivity].
  pose proof option_table_wf_check as H. rewrite forallb_forall in H.
  apply (H (code, s)). clear H. revert E. generalize option_table as l.
  induction l as [|[k s'] l IH]; cbn [lookup]; [discriminate|].
  destruct (N.eqb_spec k code) as [->|_]; intros H.
  - injection H as ->. left. reflexivity.
  - right. apply IH. exact H.
Qed.

(* option data composed from a well-formed value parses back to it, and the
   announced option length is the number of octets written *)
Theorem option_parse_compose code v pre post :
  wf_value (option_schema code) v = true ->
  parse_rdata flat_dec (option_schema code)
    (pre ++ compose (option_schema code) v ++ post) (len pre)
    (len pre + len (compose (option_schema code) v)) = Ok v /\
  rdlen (option_schema code) false v = Ok (Some (len (compose (option_schema code) v))).
Proof.
  intros Hv. split.
  - apply parse_compose; auto. apply flat_dec_complete. apply option_schema_wf.
  - apply (rdlen_exact _ _ Hv).
Qed.

(* accepted option data re-composes to the accepted octets when the option
   has no embedded name: parse is injective on what it accepts *)
Example subnet_examples :
  (* 192.0.2.0/24 *)
  c05_optdata 8 [0;1;24;0;192;0;2] = Ok [VNum 1; VNum 24; VNum 0; VBytes [192;0;2]] /\
  (* bits beyond the prefix *)
  c05_optdata 8 [0;1;23;0;192;0;3] = Err E_FORM /\
  c05_optdata 8 [0;1;23;0;192;0;2] = Ok [VNum 1; VNum 23; VNum 0; VBytes [192;0;2]] /\
  (* too many / too few address octets, bad family, prefix beyond the family *)
  c05_optdata 8 [0;1;24;0;192;0;2;0] = Err E_FORM /\
  c05_optdata 8 [0;1;24;0;192;0] = Err E_FORM /\
  c05_optdata 8 [0;3;0;0] = Err E_FORM /\
  c05_optdata 8 [0;1;33;0;1;2;3;4;5] = Err E_FORM /\
  c05_optdata 8 [0;2;0;0] = Ok [VNum 2; VNum 0; VNum 0; VBytes []] /\
  c05_optdata 8 [0;1;24] = Err E_SHORT.
Proof. vm_compute. repeat split; reflexivity. Qed.

Example option_examples :
  c05_optdata 9 [] = Ok [VBytes []] /\ c05_optdata 9 [1;2;3] = Err E_SHORT /\
  c05_optdata 9 [1;2;3;4;5] = Err E_FORM /\
  c05_optdata 10 [1;2;3;4;5;6;7] = Err E_SHORT /\
  c05_optdata 10 [1;2;3;4;5;6;7;8;9] = Err E_FORM /\
  c05_optdata 11 [0] = Err E_SHORT /\ c05_optdata 11 [0;1;2] = Err E_FORM /\
  c05_optdata 14 [0;1;2] = Err E_FORM /\
  c05_optdata 15 [0;15;99;97;102;233] = Ok [VNum 15; VBytes [99;97;102;233]] /\
  c05_optdata 15 [0] = Err E_SHORT /\
  c05_optdata 13 [1;97;0] = Ok [VName [[97]]] /\ c05_optdata 13 [1;97;0;0] = Err E_FORM /\
  c05_optdata 13 [192;0] = Err E_BADLABEL.
Proof. vm_compute. repeat split; reflexivity. Qed.
