(* C05 ProofsF.v -- the checked remainders and the EDNS option contents:
   every type bitmap in RFC 4034 4.1.2 layout (in particular every bitmap the
   builder of C13 produces) passes RtypeBitmap's check; the option table is
   well-formed, so the schema-generic theorems hold for every option. *)
From Coq Require Import Arith NArith List Bool Lia ZArith.
From Coq Require Import ZifyN ZifyBool ZifyNat.
From DV Require Import Base.Outcome Base.Bytes Base.Names Base.PName
  C05.Schema C05.Gen C05.Model C05.ProofsA C05.ProofsB C05.ProofsC C05.ProofsD.
From DV Require C13.Model C13.ProofsBitmap.
Import ListNotations.
Local Open Scope N_scope.
Ltac Zify.zify_post_hook ::= Z.div_mod_to_equations.

Lemma bitmap_check_layout prev b : C13.Model.bm_wire_ok prev b ->
  forall fuel, (length b < fuel)%nat -> bitmap_check fuel b = None.
Proof.
  induction 1 as [prev|prev w l data rest Hp Hw Hl Hlen Hb Hlast Hrest IH]; intros fuel Hf.
  - destruct fuel; [simpl in Hf; lia|]. reflexivity.
  - destruct fuel as [|fuel]; [simpl in Hf; lia|]. cbn [bitmap_check].
    destruct (N.eqb_spec l 0) as [Z|_]; [lia|].
    destruct (N.ltb_spec 32 l) as [L|_]; [lia|].
    destruct (Nat.ltb_spec (length (data ++ rest)) (N.to_nat l)) as [L|_];
      [rewrite app_length in L; lia|].
    rewrite <- Hlen, skipn_app, skipn_all, Nat.sub_diag. cbn [skipn app].
    apply IH. simpl in Hf. rewrite app_length in Hf. lia.
Qed.

(* what RtypeBitmapBuilder produces is accepted as the types field of NSEC / NSEC3 *)
Theorem built_bitmap_accepted ts : Forall (fun x => x < 65536) ts ->
  rest_check KBitmap (C13.Model.bm_finalize (C13.Model.bm_adds [] ts)) = None.
Proof.
  intros H. unfold rest_check. eapply bitmap_check_layout.
  - apply C13.ProofsBitmap.bitmap_wire_layout. exact H.
  - lia.
Qed.

Example bitmap_check_examples :
  rest_check KBitmap [0; 6; 64; 0; 0; 0; 0; 3; 1; 1; 64] = None /\
  rest_check KBitmap [0; 0] = Some E_FORM /\            (* empty window *)
  rest_check KBitmap [0; 33] = Some E_FORM /\           (* more than 32 octets *)
  rest_check KBitmap [0; 2; 1] = Some E_SHORT /\
  rest_check KBitmap [7] = Some E_SHORT /\
  (* the check does not demand ascending windows or a non-zero last octet *)
  rest_check KBitmap [1; 1; 0; 0; 1; 0] = None.
Proof. vm_compute. repeat split; reflexivity. Qed.

Example svcparams_check_examples :
  rest_check KSvcParams [] = None /\
  rest_check KSvcParams [0;1;0;2;9;9; 0;3;0;0] = None /\
  rest_check KSvcParams [0;3;0;0; 0;1;0;0] = Some E_FORM /\     (* unordered *)
  rest_check KSvcParams [0;3;0;0; 0;3;0;0] = Some E_FORM /\     (* duplicate *)
  rest_check KSvcParams [0;0;0;0] = None /\                     (* key 0 first is fine *)
  rest_check KSvcParams [0;1;0;2;9] = Some E_SHORT /\
  rest_check KSvcParams [0;1;0] = Some E_SHORT.
Proof. vm_compute. repeat split; reflexivity. Qed.

(* ---- EDNS option contents *)
Lemma option_table_wf_check :
  forallb (fun r => wf_schema_full (snd r)) option_table = true.
Proof. vm_compute. reflexivity. Qed.

Lemma option_schema_wf code : wf_schema_full (option_schema code) = true.
Proof.
  unfold option_schema. destruct (lookup code option_table) as [s|] eqn:E; [|reflexivity].
  pose proof option_table_wf_check as H. rewrite forallb_forall in H.
  apply (H (code, s)). clear H. revert E. generalize option_table as l.
  induction l as [|[k s'] l IH]; cbn [lookup]; [discriminate|].
  destruct (N.eqb_spec k code) as [->|_]; intros H.
  - injection H as ->. left. reflexivity.
  - right. apply IH. exact H.
Qed.

(* option data composed from a well-formed value parses back to it, and the
   announced option length is the number of octets written *)
Theorem option_parse_compose code v pre post :
  wf_value (option_schema code) v = true ->
  parse_rdata flat_dec (option_schema code)
    (pre ++ compose (option_schema code) v ++ post) (len pre)
    (len pre + len (compose (option_schema code) v)) = Ok v /\
  rdlen (option_schema code) false v = Ok (Some (len (compose (option_schema code) v))).
Proof.
  intros Hv. split.
  - apply parse_compose; auto. apply flat_dec_complete. apply option_schema_wf.
  - apply (rdlen_exact _ _ Hv).
Qed.

(* accepted option data re-composes to the accepted octets when the option
   has no embedded name: parse is injective on what it accepts *)
Example subnet_examples :
  (* 192.0.2.0/24 *)
  c05_optdata 8 [0;1;24;0;192;0;2] = Ok [VNum 1; VNum 24; VNum 0; VBytes [192;0;2]] /\
  (* bits beyond the prefix *)
  c05_optdata 8 [0;1;23;0;192;0;3] = Err E_FORM /\
  c05_optdata 8 [0;1;23;0;192;0;2] = Ok [VNum 1; VNum 23; VNum 0; VBytes [192;0;2]] /\
  (* too many / too few address octets, bad family, prefix beyond the family *)
  c05_optdata 8 [0;1;24;0;192;0;2;0] = Err E_FORM /\
  c05_optdata 8 [0;1;24;0;192;0] = Err E_FORM /\
  c05_optdata 8 [0;3;0;0] = Err E_FORM /\
  c05_optdata 8 [0;1;33;0;1;2;3;4;5] = Err E_FORM /\
  c05_optdata 8 [0;2;0;0] = Ok [VNum 2; VNum 0; VNum 0; VBytes []] /\
  c05_optdata 8 [0;1;24] = Err E_SHORT.
Proof. vm_compute. repeat split; reflexivity. Qed.

Example option_examples :
  c05_optdata 9 [] = Ok [VBytes []] /\ c05_optdata 9 [1;2;3] = Err E_SHORT /\
  c05_optdata 9 [1;2;3;4;5] = Err E_FORM /\
  c05_optdata 10 [1;2;3;4;5;6;7] = Err E_SHORT /\
  c05_optdata 10 [1;2;3;4;5;6;7;8;9] = Err E_FORM /\
  c05_optdata 11 [0] = Err E_SHORT /\ c05_optdata 11 [0;1;2] = Err E_FORM /\
  c05_optdata 14 [0;1;2] = Err E_FORM /\
  c05_optdata 15 [0;15;99;97;102;233] = Ok [VNum 15; VBytes [99;97;102;233]] /\
  c05_optdata 15 [0] = Err E_SHORT /\
  c05_optdata 13 [1;97;0] = Ok [VName [[97]]] /\ c05_optdata 13 [1;97;0;0] = Err E_FORM /\
  c05_optdata 13 [192;0] = Err E_BADLABEL.
Proof. vm_compute. repeat split; reflexivity. Qed.

(* ---- IPSECKEY *)
Lemma ipseckey_schema_wf g : wf_schema_full (ipseckey_schema g) = true.
Proof.
  unfold ipseckey_schema, gateway_fields.
  destruct (g =? 1); [reflexivity|]. destruct (g =? 2); [reflexivity|].
  destruct (g =? 3); reflexivity.
Qed.

Lemma be1 x : x < 256 -> be 1 x = [x].
Proof. intros H. cbn [be app]. f_equal. lia. Qed.

Theorem ipseckey_parse_compose g v pre post :
  g <= 3 -> wf_value (ipseckey_schema g) v = true ->
  ipseckey_parse (pre ++ compose (ipseckey_schema g) v ++ post) (len pre)
    (len pre + len (compose (ipseckey_schema g) v)) = Ok v /\
  rdlen (ipseckey_schema g) false v = Ok (Some (len (compose (ipseckey_schema g) v))).
Proof.
  intros Hg Hv. split; [|apply (rdlen_exact _ _ Hv)].
  pose proof (parse_compose (pname_nc_dec Gen.ipseckey_checks_consumed) (pname_nc_dec_complete _) (ipseckey_schema g) v pre post
                (ipseckey_schema_wf g) Hv) as Hpc.
  unfold wf_value in Hv. apply andb_true_iff in Hv as [Hv Hpost].
  apply andb_true_iff in Hv as [Hf _].
  unfold ipseckey_schema in Hf. cbn [s_fields app wf_fvals] in Hf.
  destruct v as [|[p| | |] [|[g'| | |] [|[a| | |] rest]]]; try discriminate.
  apply andb_true_iff in Hf as [Hp Hf]. apply andb_true_iff in Hf as [Hg' Hf].
  apply andb_true_iff in Hf as [Ha _].
  cbn [wf_fval pow256] in Hp, Hg', Ha.
  apply N.ltb_lt in Hp, Hg', Ha. change (pow256 1) with 256 in Hp, Hg', Ha.
  unfold post_ok, ipseckey_schema in Hpost. cbn [s_post post_check] in Hpost.
  destruct (N.eqb_spec g' g) as [->|]; [|discriminate]. clear Hpost.
  unfold ipseckey_parse.
  set (c := compose (ipseckey_schema g) (VNum p :: VNum g :: VNum a :: rest)) in *.
  assert (Hc : exists tl, c = p :: g :: a :: tl).
  { subst c. unfold compose, ipseckey_schema. cbn [s_fields app compose_fields compose_field U8].
    rewrite (be1 p), (be1 g), (be1 a) by lia. cbn [app]. eexists. reflexivity. }
  destruct Hc as [tl Hc]. rewrite Hc in *.
  destruct (N.ltb_spec (len pre + len (p :: g :: a :: tl) - len pre) 3) as [L|_].
  { rewrite !len_cons in L. lia. }
  replace (pre ++ (p :: g :: a :: tl) ++ post) with ((pre ++ [p]) ++ g :: (a :: tl ++ post))
    by (rewrite <- !app_assoc; reflexivity).
  replace (len pre + 1) with (len (pre ++ [p])) by (rewrite len_app, len_cons, len_nil; lia).
  rewrite get_mid.
  destruct (N.ltb_spec 3 g) as [L|_]; [lia|].
  replace ((pre ++ [p]) ++ g :: (a :: tl ++ post)) with (pre ++ (p :: g :: a :: tl) ++ post)
    by (rewrite <- !app_assoc; reflexivity).
  exact Hpc.
Qed.

Example ipseckey_examples :
  (* no gateway, algorithm 2 without a key: accepted by new(), refused by parse *)
  ipseckey_parse [10; 0; 2] 0 3 = Err E_SHORT /\
  ipseckey_parse [10; 0; 0] 0 3 = Ok [VNum 10; VNum 0; VNum 0; VBytes []] /\
  ipseckey_parse [10; 1; 2; 192; 0; 2; 1; 7; 7] 0 9 = Ok [VNum 10; VNum 1; VNum 2; VBytes [192;0;2;1]; VBytes [7;7]] /\
  ipseckey_parse [10; 3; 2; 1; 97; 0; 7] 0 7 = Ok [VNum 10; VNum 3; VNum 2; VName [[97]]; VBytes [7]] /\
  (* label + pointer: refused; pointer only: taken as an uncompressed name at the target *)
  ipseckey_parse [1; 120; 0; 10; 3; 2; 1; 97; 192; 0; 7] 3 11 = Err E_FORM /\
  ipseckey_parse [1; 120; 0; 10; 3; 2; 192; 0; 7] 3 9 =
    (if Gen.ipseckey_checks_consumed then Err E_FORM
     else Ok [VNum 10; VNum 3; VNum 2; VName [[120]]; VBytes [7]]) /\
  ipseckey_parse [10; 4; 2; 7] 0 4 = Err E_FORM /\
  ipseckey_parse [10; 1] 0 2 = Err E_SHORT /\
  (* Ipseckey::new takes the key-less value that parse refuses *)
  ctor_accepts (ipseckey_schema 0) [VNum 10; VNum 0; VNum 2; VBytes []] = true /\
  wf_value (ipseckey_schema 0) [VNum 10; VNum 0; VNum 2; VBytes []] = false.
Proof. vm_compute. repeat split; reflexivity. Qed.

(* RFC 4025 2.5: the gateway name MUST NOT be compressed.  With the consumed
   length compared (T1 flag) every accepted gateway name was read from exactly
   its uncompressed octets; without it a gateway that is only a compression
   pointer is accepted. *)
Theorem ipseckey_pointer_gateway_refuted :
  Gen.ipseckey_checks_consumed = false ->
  exists m pos lim v, ipseckey_parse m pos lim = Ok v /\ get m (pos + 3) = Some 192.
Proof.
  intros H. exists [1; 120; 0; 10; 3; 2; 192; 0; 7], 3, 9, [VNum 10; VNum 3; VNum 2; VName [[120]]; VBytes [7]].
  unfold ipseckey_parse. rewrite H. vm_compute. auto.
Qed.

Theorem nc_dec_strict_exact m pos lim n e :
  pname_nc_dec true m pos lim = Ok (n, e) ->
  exists p, parse_ref m pos lim = Ok p /\ pn_compressed p = false /\ e - pos = pn_len p.
Proof.
  unfold pname_nc_dec. destruct (parse_ref m pos lim) as [p| | |]; try discriminate.
  cbn [bind]. destruct (pn_compressed p) eqn:Ec; [discriminate|]. cbn [andb].
  destruct (N.eqb_spec (pn_end p - pos) (pn_len p)) as [E|]; [|discriminate]. cbn [negb].
  destruct (pname_labels m p) as [r| | |]; try discriminate. cbn [bind].
  intros H. injection H as _ <-. exists p. auto.
Qed.

(* ---- StandardServerCookie *)
Theorem std_cookie_roundtrip v pre post :
  wf_value std_cookie_schema v = true ->
  parse_rdata flat_dec std_cookie_schema (pre ++ compose std_cookie_schema v ++ post) (len pre)
    (len pre + len (compose std_cookie_schema v)) = Ok v /\
  len (compose std_cookie_schema v) = 16.
Proof.
  intros Hv. split.
  - apply parse_compose; auto. apply flat_dec_complete.
  - unfold wf_value in Hv. apply andb_true_iff in Hv as [Hv _]. apply andb_true_iff in Hv as [Hf _].
    unfold std_cookie_schema, plain, compose in *. cbn [s_fields] in *.
    destruct v as [|[a| | |] [|[|r| |] [|[t| | |] [|[|h| |] [|]]]]];
      cbn [wf_fvals wf_fval U8 U32 andb] in Hf; try discriminate Hf;
      try (rewrite ?andb_false_r in Hf; discriminate Hf).
    apply andb_true_iff in Hf as [_ Hf]. apply andb_true_iff in Hf as [Hr Hf].
    apply andb_true_iff in Hf as [_ Hf]. apply andb_true_iff in Hf as [Hh _].
    apply andb_true_iff in Hr as [Hr _]. apply andb_true_iff in Hh as [Hh _].
    apply Nat.eqb_eq in Hr, Hh.
    cbn [compose_fields compose_field U8 U32]. rewrite !len_app, !len_be, len_nil. unfold len. lia.
Qed.

Example std_cookie_example :
  c05_stdcookie [1; 0;0;0; 0;0;1;0; 1;2;3;4;5;6;7;8] = Some [VNum 1; VBytes [0;0;0]; VNum 256; VBytes [1;2;3;4;5;6;7;8]] /\
  c05_stdcookie [1;2;3;4;5;6;7;8] = None /\ c05_stdcookie (repeat 0 17) = None.
Proof. vm_compute. auto. Qed.
