(* C05 ProofsO.v -- the in-buffer SvcParamsBuilder (SvcBuf.v) refines the sorted
   association list (SvcModel.v) for EVERY push sequence.
   Invariant: the cells lie contiguously from offset 4 (laid); the chain from
   the first-slot is a list l of cells, ascending in key, that is a permutation
   of all cells.  push_raw's scan over the cells in physical order finds the
   same predecessor / successor as a scan over l (scan is invariant under
   permutation when the keys are distinct), i.e. the last cell below and the
   first cell above the new key. *)
From Coq Require Import Arith NArith List Bool Lia ZArith Permutation.
From Coq Require Import ZifyN ZifyBool ZifyNat.
From DV Require Import Base.Outcome Base.Bytes Base.Names Base.PName
  C05.Schema C05.Gen C05.OptModel C05.SvcModel C05.SvcBuf C05.ProofsA C05.ProofsB.
Import ListNotations.
Local Open Scope N_scope.

Definition kd (c : cell) : edns_option := (c_key c, c_data c).
Definition csize (c : cell) : N := 8 + len (c_data c).

(* ---- layout *)
Fixpoint laid (p : N) (cells : list cell) (e : N) : Prop :=
  match cells with
  | [] => p = e
  | c :: r => c_start c = p /\ laid (p + csize c) r e
  end.

Lemma laid_bounds cells : forall p e, laid p cells e ->
  p <= e /\ forall c, In c cells -> p <= c_start c /\ c_start c + csize c <= e.
Proof.
  induction cells as [|c r IH]; intros p e H; cbn [laid] in H.
  - split; [lia|intros c []].
  - destruct H as [Hs Hr]. destruct (IH _ _ Hr) as [Hle Hall]. unfold csize in *. split; [lia|].
    intros c' [<-|Hin]; [lia|]. destruct (Hall _ Hin). lia.
Qed.

Lemma laid_app cells : forall p e c, laid p cells e -> c_start c = e ->
  laid p (cells ++ [c]) (e + csize c).
Proof.
  induction cells as [|x r IH]; intros p e c H Hc; cbn [laid app] in *.
  - split; lia.
  - destruct H as [Hs Hr]. split; [exact Hs|]. apply IH; assumption.
Qed.

Lemma laid_map f cells : (forall c, c_start (f c) = c_start c /\ c_data (f c) = c_data c) ->
  forall p e, laid p cells e -> laid p (map f cells) e.
Proof.
  intros Hf. induction cells as [|x r IH]; intros p e H; cbn [laid map] in *; [exact H|].
  destruct H as [Hs Hr]. destruct (Hf x) as [H1 H2]. split; [congruence|].
  unfold csize in *. rewrite H2. apply IH. exact Hr.
Qed.

Lemma laid_nodup_start cells : forall p e, laid p cells e -> NoDup (map c_start cells).
Proof.
  induction cells as [|c r IH]; intros p e H; cbn [map]; [constructor|].
  cbn [laid] in H. destruct H as [Hs Hr]. constructor; [|eapply IH; eauto].
  intros Hin. apply in_map_iff in Hin as [c' [E Hc']].
  destruct (laid_bounds _ _ _ Hr) as [_ Hall]. destruct (Hall _ Hc'). unfold csize in *. lia.
Qed.

Lemma laid_nodup_slot cells : forall p e, laid p cells e -> NoDup (map slot cells).
Proof.
  induction cells as [|c r IH]; intros p e H; cbn [map]; [constructor|].
  cbn [laid] in H. destruct H as [Hs Hr]. constructor; [|eapply IH; eauto].
  intros Hin. apply in_map_iff in Hin as [c' [E Hc']].
  destruct (laid_bounds _ _ _ Hr) as [_ Hall]. destruct (Hall _ Hc'). unfold slot, csize in *. lia.
Qed.

Lemma nodup_map_inj {A B} (f : A -> B) l a b :
  NoDup (map f l) -> In a l -> In b l -> f a = f b -> a = b.
Proof.
  induction l as [|x l IH]; intros Hn Ha Hb E; [contradiction|].
  cbn [map] in Hn. inversion Hn as [|? ? Hx Hn']; subst.
  destruct Ha as [<-|Ha]; destruct Hb as [<-|Hb]; auto.
  - exfalso. apply Hx. rewrite E. apply in_map. exact Hb.
  - exfalso. apply Hx. rewrite <- E. apply in_map. exact Ha.
Qed.

Lemma find_start cells c : NoDup (map c_start cells) -> In c cells ->
  find (fun x => c_start x =? c_start c) cells = Some c.
Proof.
  induction cells as [|x r IH]; intros Hn Hin; [contradiction|]. cbn [find].
  cbn [map] in Hn. inversion Hn as [|? ? Hx Hn']; subst.
  destruct Hin as [<-|Hin]; [rewrite N.eqb_refl; reflexivity|].
  destruct (N.eqb_spec (c_start x) (c_start c)) as [E|_]; [|apply IH; assumption].
  exfalso. apply Hx. rewrite E. apply in_map. exact Hin.
Qed.

(* ---- the chain *)
Fixpoint chain (q : N) (l : list cell) (e : N) : Prop :=
  match l with
  | [] => q = e
  | c :: r => q = c_start c /\ chain (c_next c) r e
  end.

Lemma chain_app a : forall q b e, chain q (a ++ b) e <-> exists m, chain q a m /\ chain m b e.
Proof.
  induction a as [|c r IH]; intros q b e; cbn [chain app].
  - split; [intros H; exists q; auto|intros [m [-> H]]; exact H].
  - rewrite IH. split.
    + intros [Hq [m [H1 H2]]]. exists m. auto.
    + intros [m [[Hq H1] H2]]. split; [exact Hq|]. exists m. auto.
Qed.

Lemma follow_chain cells : NoDup (map c_start cells) ->
  forall l q fuel, chain q l PMAX -> (forall c, In c l -> In c cells /\ c_start c <> PMAX) ->
  (length l < fuel)%nat -> follow fuel cells q = Ok (map kd l).
Proof.
  intros Hn. induction l as [|c r IH]; intros q fuel Hc Hin Hf;
    (destruct fuel as [|fuel]; [simpl in Hf; lia|]); cbn [follow chain map] in *.
  - subst q. rewrite N.eqb_refl. reflexivity.
  - destruct Hc as [-> Hc]. destruct (Hin c (or_introl eq_refl)) as [Hic Hne].
    destruct (N.eqb_spec (c_start c) PMAX) as [E|_]; [contradiction|].
    rewrite (find_start cells c Hn Hic).
    rewrite (IH (c_next c) fuel Hc); [reflexivity| |simpl in Hf; lia].
    intros c' Hc'. apply Hin. right. exact Hc'.
Qed.

(* ---- ascending keys *)
Fixpoint asc (lo : N) (l : list cell) : Prop :=
  match l with [] => True | c :: r => lo <= c_key c /\ asc (c_key c + 1) r end.

Lemma asc_kd l : forall lo, asc lo l -> ascending lo (map kd l) = true.
Proof.
  induction l as [|c r IH]; intros lo H; cbn [asc map ascending] in *; [reflexivity|].
  destruct H as [H1 H2]. apply andb_true_iff. split; [apply N.leb_le; exact H1|]. apply IH. exact H2.
Qed.

Lemma asc_ge l : forall lo, asc lo l -> forall c, In c l -> lo <= c_key c.
Proof.
  induction l as [|x r IH]; intros lo H c Hin; [contradiction|]. cbn [asc] in H. destruct H as [H1 H2].
  destruct Hin as [<-|Hin]; [exact H1|]. specialize (IH _ H2 _ Hin). lia.
Qed.

Lemma asc_weaken l : forall lo lo', lo' <= lo -> asc lo l -> asc lo' l.
Proof. destruct l as [|c r]; intros lo lo' Hle H; cbn [asc] in *; [exact I|]. destruct H; split; [lia|assumption]. Qed.

Lemma asc_nodup l : forall lo, asc lo l -> NoDup (map c_key l).
Proof.
  induction l as [|c r IH]; intros lo H; cbn [map]; [constructor|]. cbn [asc] in H. destruct H as [H1 H2].
  constructor; [|eapply IH; eauto]. intros Hin. apply in_map_iff in Hin as [c' [E Hc']].
  pose proof (asc_ge _ _ H2 _ Hc'). lia.
Qed.

(* split an ascending list at a key *)
Lemma asc_split key l : forall lo, asc lo l ->
  exists l1 l2, l = l1 ++ l2 /\ (forall c, In c l1 -> c_key c < key) /\
    asc lo l1 /\ asc (match rev l1 with c :: _ => c_key c + 1 | [] => lo end) l2 /\
    match l2 with c :: _ => key <= c_key c | [] => True end.
Proof.
  induction l as [|c r IH]; intros lo H.
  - exists [], []. repeat split; auto. intros c [].
  - cbn [asc] in H. destruct H as [H1 H2]. destruct (N.ltb_spec (c_key c) key) as [L|L].
    + destruct (IH _ H2) as [l1 [l2 [E [Hlt [Ha1 [Ha2 Hh]]]]]]. exists (c :: l1), l2.
      split; [cbn [app]; rewrite E; reflexivity|]. split; [intros c' [<-|Hin]; auto|].
      split; [cbn [asc]; auto|]. split; [|exact Hh].
      cbn [rev]. destruct (rev l1) as [|x t] eqn:Er; cbn [app]; exact Ha2.
    + exists [], (c :: r). repeat split; auto. intros c' [].
Qed.

(* ---- scan *)
Lemma scan_swap key a b r p n : c_key a <> c_key b ->
  scan key (a :: b :: r) p n = scan key (b :: a :: r) p n.
Proof.
  intros Hab. cbn [scan].
  destruct (N.eqb_spec (c_key a) key), (N.eqb_spec (c_key b) key),
           (N.ltb_spec (c_key a) key), (N.ltb_spec (c_key b) key); try reflexivity; try lia;
    destruct p as [[kp qp]|], n as [[kn qn]|]; cbv beta iota;
    repeat match goal with |- context [?x <? ?y] => destruct (N.ltb_spec x y) end; try reflexivity; lia.
Qed.

Lemma scan_perm key c1 c2 : Permutation c1 c2 -> NoDup (map c_key c1) ->
  forall p n, scan key c1 p n = scan key c2 p n.
Proof.
  induction 1 as [|x l l' HP IH|x y l|l l' l'' HP1 IH1 HP2 IH2]; intros Hn p n.
  - reflexivity.
  - cbn [map] in Hn. inversion Hn; subst. cbn [scan].
    destruct (c_key x =? key); [reflexivity|]. destruct (c_key x <? key); apply IH; assumption.
  - apply scan_swap. cbn [map] in Hn. inversion Hn as [|? ? Hx _]; subst. intros E. apply Hx. left. symmetry. exact E.
  - rewrite IH1 by exact Hn. apply IH2. eapply Permutation_NoDup; [|exact Hn]. apply Permutation_map. exact HP1.
Qed.

(* over an ascending run below the key the predecessor ends as its last cell *)
Lemma scan_below key l1 : forall r p n,
  (forall c, In c l1 -> c_key c < key) ->
  asc (match p with Some (k, _) => k + 1 | None => 0 end) l1 ->
  scan key (l1 ++ r) p n =
  scan key r (match rev l1 with c :: _ => Some (c_key c, slot c) | [] => p end) n.
Proof.
  induction l1 as [|c t IH]; intros r p n Hlt Ha; [reflexivity|]. cbn [app scan].
  assert (Hc : c_key c < key) by (apply Hlt; left; reflexivity).
  destruct (N.eqb_spec (c_key c) key) as [E|_]; [lia|]. destruct (N.ltb_spec (c_key c) key) as [_|L]; [|lia].
  cbn [asc] in Ha. destruct Ha as [Ha1 Ha2].
  rewrite IH.
  - cbn [rev]. destruct (rev t) as [|x t'] eqn:Er; cbn [app]; [|reflexivity].
    destruct p as [[k q]|]; [|reflexivity]. destruct (N.ltb_spec k (c_key c)); [reflexivity|lia].
  - intros c' Hc'. apply Hlt. right. exact Hc'.
  - destruct p as [[k q]|]; [destruct (N.ltb_spec k (c_key c)); [exact Ha2|lia]|exact Ha2].
Qed.

(* over an ascending run above the key the successor is its first cell *)
Lemma scan_above key l2 : forall p n lo, key < lo -> asc lo l2 ->
  match n with Some (k, _) => forall c, In c l2 -> k < c_key c | None => True end ->
  scan key l2 p n = Some (p, match n with Some _ => n | None =>
                                match l2 with c :: _ => Some (c_key c, c_start c) | [] => None end end).
Proof.
  induction l2 as [|c t IH]; intros p n lo Hlo Ha Hn; cbn [scan]; [destruct n; reflexivity|].
  cbn [asc] in Ha. destruct Ha as [Ha1 Ha2].
  destruct (N.eqb_spec (c_key c) key) as [E|_]; [lia|]. destruct (N.ltb_spec (c_key c) key) as [L|_]; [lia|].
  destruct n as [[k q]|].
  - assert (k < c_key c) by (apply Hn; left; reflexivity).
    destruct (N.ltb_spec (c_key c) k); [lia|].
    rewrite (IH p (Some (k, q)) (c_key c + 1)); [reflexivity|lia|exact Ha2|].
    intros c' Hc'. apply Hn. right. exact Hc'.
  - rewrite (IH p (Some (c_key c, c_start c)) (c_key c + 1)); [reflexivity|lia|exact Ha2|].
    intros c' Hc'. pose proof (asc_ge _ _ Ha2 _ Hc'). lia.
Qed.


(* ---- what push_raw's scan finds, whatever the physical order of the values *)
Lemma asc_app_l a : forall lo b, asc lo (a ++ b) -> asc lo a.
Proof.
  induction a as [|c r IH]; intros lo b H; cbn [asc app] in *; [exact I|].
  destruct H as [H1 H2]. split; [exact H1|]. eapply IH; eauto.
Qed.
Lemma asc_app_r a : forall lo c t, asc lo (a ++ c :: t) -> asc (c_key c + 1) t.
Proof.
  induction a as [|x r IH]; intros lo c t H; cbn [asc app] in *.
  - destruct H as [_ H2]. exact H2.
  - destruct H as [_ H2]. eapply IH; eauto.
Qed.

Theorem scan_neighbours key cells l1 l2 :
  Permutation (l1 ++ l2) cells -> asc 0 (l1 ++ l2) ->
  (forall c, In c l1 -> c_key c < key) ->
  match l2 with c :: _ => key < c_key c | [] => True end ->
  scan key cells None None =
    Some (match rev l1 with c :: _ => Some (c_key c, slot c) | [] => None end,
          match l2 with c :: _ => Some (c_key c, c_start c) | [] => None end).
Proof.
  intros Hp Ha Hlt Hh.
  assert (Hnk : NoDup (map c_key cells)).
  { eapply Permutation_NoDup; [apply Permutation_map; exact Hp|]. eapply asc_nodup; eauto. }
  rewrite (scan_perm key _ _ (Permutation_sym Hp) Hnk).
  rewrite (scan_below key l1 l2 None None Hlt (asc_app_l _ _ _ Ha)).
  destruct l2 as [|c t].
  - reflexivity.
  - rewrite (scan_above key (c :: t) _ None (key + 1)); [reflexivity|lia| |exact I].
    cbn [asc]. split; [lia|]. eapply asc_app_r; eauto.
Qed.

(* a key that is present is reported as a duplicate, wherever it sits *)
Theorem scan_duplicate key cells l : Permutation l cells -> asc 0 l ->
  (exists c, In c l /\ c_key c = key) -> scan key cells None None = None.
Proof.
  intros Hp Ha [c [Hin Hk]].
  assert (Hnk : NoDup (map c_key cells)).
  { eapply Permutation_NoDup; [apply Permutation_map; exact Hp|]. eapply asc_nodup; eauto. }
  rewrite (scan_perm key _ _ (Permutation_sym Hp) Hnk).
  destruct (asc_split key l 0 Ha) as [l1 [l2 [El [Hlt [Ha1 [Ha2 Hh]]]]]]. rewrite El.
  rewrite (scan_below key l1 l2 None None Hlt Ha1).
  destruct l2 as [|c2 t2].
  - rewrite El, app_nil_r in Hin. specialize (Hlt _ Hin). lia.
  - destruct (N.eq_dec (c_key c2) key) as [E|E]; [cbn [scan]; rewrite E, N.eqb_refl; reflexivity|].
    exfalso. rewrite El in Hin. apply in_app_or in Hin as [Hin|Hin]; [specialize (Hlt _ Hin); lia|].
    assert (c_key c2 <= c_key c).
    { destruct Hin as [<-|Hin]; [lia|]. cbn [asc] in Ha2. destruct Ha2 as [_ Ha2]. pose proof (asc_ge _ _ Ha2 _ Hin). lia. }
    lia.
Qed.

Example scan_neighbours_example :
  let a := mkCell 4 9 [1] PMAX in let b := mkCell 13 2 [] 30 in let c := mkCell 21 5 [7; 7] 4 in
  (* physical order 9, 2, 5; pushing key 6: predecessor is 5 (its slot at 27), successor 9 (start 4) *)
  scan 6 [a; b; c] None None = Some (Some (5, 27), Some (9, 4)) /\
  scan 6 [c; a; b] None None = Some (Some (5, 27), Some (9, 4)) /\
  scan 5 [a; b; c] None None = None /\ scan 1 [a; b; c] None None = Some (None, Some (2, 13)).
Proof. vm_compute. auto. Qed.
