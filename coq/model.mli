
val snd : ('a1 * 'a2) -> 'a2

type comparison =
| Eq
| Lt
| Gt

type positive =
| XI of positive
| XO of positive
| XH

type n =
| N0
| Npos of positive

module Pos :
 sig
  type mask =
  | IsNul
  | IsPos of positive
  | IsNeg
 end

module Coq_Pos :
 sig
  val succ : positive -> positive

  val add : positive -> positive -> positive

  val add_carry : positive -> positive -> positive

  val pred_double : positive -> positive

  type mask = Pos.mask =
  | IsNul
  | IsPos of positive
  | IsNeg

  val succ_double_mask : mask -> mask

  val double_mask : mask -> mask

  val double_pred_mask : positive -> mask

  val sub_mask : positive -> positive -> mask

  val sub_mask_carry : positive -> positive -> mask

  val compare_cont : comparison -> positive -> positive -> comparison

  val compare : positive -> positive -> comparison
 end

module N :
 sig
  val succ_double : n -> n

  val double : n -> n

  val add : n -> n -> n

  val sub : n -> n -> n

  val compare : n -> n -> comparison

  val leb : n -> n -> bool

  val ltb : n -> n -> bool

  val pos_div_eucl : positive -> n -> n * n

  val div_eucl : n -> n -> n * n

  val modulo : n -> n -> n
 end

type 'a outcome =
| Ok of 'a
| Err of n
| Panic of n
| OutOfFuel

val bind : 'a1 outcome -> ('a1 -> 'a2 outcome) -> 'a2 outcome

val half : n

val add_max : n

val add_guard_is_le : bool

val add_wraps : bool

val arm_eq : comparison option

val lt_sub_other_minus_self : bool

val arm_lt_lt : comparison option

val arm_lt_gt : comparison option

val arm_lt_eq : comparison option

val gt_sub_self_minus_other : bool

val arm_gt_lt : comparison option

val arm_gt_gt : comparison option

val arm_gt_eq : comparison option

val version_next_addend : n

val m32 : n

val u32_sub : n -> n -> n outcome

val serial_partial_cmp : n -> n -> comparison option outcome

val serial_add : n -> n -> n outcome

val serial_canonical_cmp : n -> n -> comparison

val version_next : n -> n outcome

val c17_cmp : n -> n -> comparison option outcome

val c17_add : n -> n -> n outcome

val c17_next : n -> n outcome

val c17_ccmp : n -> n -> comparison
