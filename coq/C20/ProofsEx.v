(* C20 -- non-vacuity: concrete histories on which the hypotheses of the
   property theorems hold and their conclusions are visible. *)
From Coq Require Import NArith ZArith List Bool.
From DV Require Import Base.Outcome C20.Gen C20.Model C20.ProofsBase C20.ProofsInv C20.ProofsMain.
Import ListNotations.
Local Open Scope N_scope.

Definition kq (rd ad dnssec_ok : bool) : key := key_of_request 1 1 1 rd false ad dnssec_ok.
Definition A (ttl id : N) := mkRR 1 1 ttl id false.
Definition RRSIG (ttl id : N) := mkRR 46 1 ttl id false.
Definition OPT := mkRR 41 1232 32768 9 false.
(* upstream answer to an RD+DO request: AA, RD, AD set; A 300 + RRSIG 100; NS 300 + RRSIG 300; OPT *)
Definition up1 : resp :=
  RMsg (mkMsg 77 0 true false true true (Some (1, 1)) 1 [A 300 1; RRSIG 100 2] [mkRR 2 1 300 3 false; RRSIG 300 4] [OPT] false).
Definition dummy : resp := RErr 0.

(* served_was_received / ttl_aged / no_dnssec_leak: the cascade strips, clears AD, RD, AA and ages *)
Example ex_cascade :
  c20_run config_default
    [EQuery (kq true false true) 0 1 0 0 up1;
     EQuery (kq false false false) 0 1 5999 0 dummy;      (* no RD/AD/DO, 5.999 s later *)
     EQuery (kq true true false) 0 1 7000 0 dummy;        (* RD+AD: AD kept, still stripped *)
     EQuery (kq true false true) 0 1 100000 0 dummy;      (* DO at exactly 100 s: RRSIG TTL 0 *)
     EQuery (kq true false true) 0 1 100001 0 dummy;      (* one ms later: stale, forwarded *)
     EQuery (kq false false false) 0 1 300000 0 dummy]    (* the stripped entry lives to 300 s *)
  = Ok [OForwarded;
        OServed (RMsg (mkMsg 77 0 false false false false (Some (1, 1)) 1 [A 295 1] [mkRR 2 1 295 3 false] [OPT] false));
        OServed (RMsg (mkMsg 77 0 false false true true (Some (1, 1)) 1 [A 293 1] [mkRR 2 1 293 3 false] [OPT] false));
        OServed (RMsg (mkMsg 77 0 false false true true (Some (1, 1)) 1 [A 200 1; RRSIG 0 2] [mkRR 2 1 200 3 false; RRSIG 200 4] [OPT] false));
        OForwarded;
        OServed (RMsg (mkMsg 77 0 false false false false (Some (1, 1)) 1 [A 0 1] [mkRR 2 1 0 3 false] [OPT] false))].
Proof. vm_compute. reflexivity. Qed.

Example ex_cascade_events_ok :
  Forall ev_ok [EQuery (kq true false true) 0 1 0 0 up1; EQuery (kq false false false) 0 1 5999 0 dummy].
Proof.
  repeat constructor; intros _ (m & E & Q); try discriminate. injection E as <-. discriminate.
Qed.

(* never_stale: NXDOMAIN with a day-long SOA is kept for max_nxdomain_validity (3600 s) *)
Definition nx : resp := RMsg (mkMsg 77 3 false false true false (Some (1, 1)) 1 [] [mkRR 6 1 86400 5 false] [] false).
Example ex_nxdomain_cap :
  c20_run config_default
    [EQuery (kq true false false) 0 1 0 0 nx; EQuery (kq true false false) 0 1 3600000 0 dummy;
     EQuery (kq true false false) 0 1 3600001 0 nx]
  = Ok [OForwarded;
        OServed (RMsg (mkMsg 77 3 false false true false (Some (1, 1)) 1 [] [mkRR 6 1 82800 5 false] [] false));
        OForwarded].
Proof. vm_compute. reflexivity. Qed.

(* transport failure: 30 s *)
Example ex_failure_cap :
  c20_run config_default
    [EQuery (kq true false false) 0 1 0 0 (RErr 2); EQuery (kq false false false) 0 1 30000 0 dummy;
     EQuery (kq true false false) 0 1 30001 0 (RErr 3)]
  = Ok [OForwarded; OServed (RErr 2); OForwarded].
Proof. vm_compute. reflexivity. Qed.

(* truncated answers and zero TTLs are not stored; a DNSSEC qtype is never taken from a DO entry *)
Example ex_not_stored :
  c20_run config_default
    [EQuery (kq true false false) 0 1 0 0 (RMsg (mkMsg 77 0 false true true false (Some (1, 1)) 1 [A 60 1] [] [] false));
     EQuery (kq true false false) 0 1 0 0 (RMsg (mkMsg 77 0 false false true false (Some (1, 1)) 1 [A 0 1] [] [] false));
     EQuery (kq true false false) 0 1 0 0 dummy;
     EQuery (key_of_request 1 1 46 true false false true) 0 1 0 0
        (RMsg (mkMsg 77 0 false false true false (Some (46, 1)) 1 [RRSIG 60 1] [] [] false));
     EQuery (key_of_request 1 1 46 true false false false) 0 1 1 0 dummy;
     EQuery (key_of_request 1 1 46 true false false true) 0 1 1 0 dummy]
  = Ok [OForwarded; OForwarded; OForwarded; OForwarded; OForwarded;
        OServed (RMsg (mkMsg 77 0 false false true false (Some (46, 1)) 1 [RRSIG 60 1] [] [] false))].
Proof. vm_compute. reflexivity. Qed.

(* parse errors: a record whose RDATA does not parse is not noticed when the
   answer is stored; a hit then yields MessageParseError while the entry is
   fresh; a message whose sections cannot be walked is not stored and the
   caller gets the error instead of the message *)
Definition badA : rr := mkRR 1 1 60 8 true.
Example ex_parse_errors :
  c20_run config_default
    [EQuery (kq true false false) 0 1 0 0 (RMsg (mkMsg 5 0 false false true false (Some (1, 1)) 1 [A 60 1; badA] [] [] false));
     EQuery (kq true false false) 0 1 1000 0 dummy;
     EQuery (kq true false false) 0 1 60001 0 (RMsg (mkMsg 6 0 false false true false (Some (1, 1)) 1 [A 60 1] [] [] true));
     EQuery (kq true false false) 0 1 60002 0 (RMsg (mkMsg 7 0 false true true false (Some (1, 1)) 1 [A 60 1] [] [] true))]
  = Ok [OForwarded; OServed (RErr parse_error); OFwdErr parse_error; OForwarded].
Proof. vm_compute. reflexivity. Qed.

(* requests in flight together: both miss, both answers are inserted, the later
   insert wins; a third request (spelling 3 of the name) is served the second
   answer with its own spelling in the question *)
Example ex_in_flight :
  c20_run config_default
    [EStart (kq true false false) 0 1 0; EStart (kq true false false) 0 1 0;
     EFinish (kq true false false) 400 (RMsg (mkMsg 1 0 false false true false (Some (1, 1)) 1 [A 60 1] [] [] false));
     EFinish (kq true false false) 1000 (RMsg (mkMsg 2 0 false false true false (Some (1, 1)) 1 [A 90 2] [] [] false));
     EStart (kq true false false) 0 3 2000]
  = Ok [OPending; OPending; OForwarded; OForwarded;
        OServed (RMsg (mkMsg 2 0 false false true false (Some (1, 1)) 3 [A 89 2] [] [] false))].
Proof. vm_compute. reflexivity. Qed.

(* eviction: any entry may vanish; the next request is simply forwarded *)
Example ex_evict :
  c20_run config_default
    [EQuery (kq true false false) 0 1 0 0 nx; EEvict 0; EQuery (kq true false false) 0 1 1 0 nx]
  = Ok [OForwarded; OEvicted; OForwarded].
Proof. vm_compute. reflexivity. Qed.

(* the honest-upstream hypothesis is satisfiable by a log that has DNSSEC data in it *)
Example ex_honest_log : upstream_respects_flags [(kq true false true, 0, up1)].
Proof.
  intros k0 t0 m0 [H|[]]. injection H as <- _ <-. split; intros H; [exfalso; apply H; reflexivity|discriminate].
Qed.

Example ex_cfg_ok : cfg_ok (config_of 0 100000 0 59 86401 7 true).
Proof. apply config_of_ok. Qed.

(* clamping as the setters do it *)
Example ex_clamp : config_of 0 100000 0 59 86401 7 true = mkConfig 60 300 1 60 86400 60 true.
Proof. vm_compute. reflexivity. Qed.
