(* C20 -- basic lemmas: keys, the store, TTL minima, validity bounds, ageing. *)
From Coq Require Import NArith ZArith List Bool Lia ZifyN ZifyBool ZifyNat.
From DV Require Import Base.Outcome C20.Gen C20.Model.
Import ListNotations.
Local Open Scope N_scope.
Ltac Zify.zify_post_hook ::= Z.div_mod_to_equations.

(* ---------- what T1 says about the code (a change breaks these) ------------- *)
Lemma gen_rd_fix : rd_fix_sets = false. Proof. reflexivity. Qed.
Lemma gen_ad_fix : ad_fix_sets = false. Proof. reflexivity. Qed.
Lemma gen_alt_rd : alt_rd = true. Proof. reflexivity. Qed.
Lemma gen_alt_ad : addo_of_code alt_ad = AdDo_Ad. Proof. reflexivity. Qed.
Lemma gen_alt_do : addo_of_code alt_do = AdDo_Do. Proof. reflexivity. Qed.
Lemma gen_skip_zero : insert_skips_zero = true. Proof. reflexivity. Qed.
Lemma gen_cap_failure : forall c, cfg_field c cap_failure = c_tf c. Proof. reflexivity. Qed.
Lemma gen_cap_base : forall c, cfg_field c cap_base = c_maxv c. Proof. reflexivity. Qed.
Lemma gen_cap_nodata : forall c, cfg_field c cap_nodata = c_nodata c. Proof. reflexivity. Qed.
Lemma gen_cap_deleg : forall c, cfg_field c cap_deleg = c_deleg c. Proof. reflexivity. Qed.
Lemma gen_cap_nx : forall c, cfg_field c cap_nx = c_nx c. Proof. reflexivity. Qed.
Lemma gen_cap_misc : forall c, cfg_field c cap_misc = c_misc c. Proof. reflexivity. Qed.
Lemma gen_cast_bits : secs_cast_bits = 32. Proof. reflexivity. Qed.
Lemma gen_soa_ns_not_dnssec : is_dnssec rtype_soa = false /\ is_dnssec rtype_ns = false /\ is_dnssec rtype_opt = false.
Proof. repeat split; reflexivity. Qed.
Lemma gen_maxv_fits : maxv_max < 2 ^ 32. Proof. reflexivity. Qed.
Lemma gen_tf_fits : tf_max < 2 ^ 32. Proof. reflexivity. Qed.

(* the structural anchors (a pattern that stops matching is a T1 failure; a
   changed count or mapping breaks this lemma) and the default capacity the
   harness relies on for "no eviction in T2" *)
Lemma gen_structure :
  strip_sections = 3 /\ ttl_min_sections = 3 /\ ttl_sub_checked = true /\
  strip_parses_all_records = true /\ decrement_parses_all_records = true /\
  lookup_error_fails_request = true /\ parse_error_is_message_parse_error = true /\
  100 <= entries_def /\ cache_truncated_def = false /\ class_in = 1 /\ rtype_opt = 41.
Proof. repeat split; try reflexivity. vm_compute; discriminate. Qed.

(* ---------- configurations ---------------------------------------------------- *)
Definition cfg_ok (c : config) : Prop :=
  maxv_min <= c_maxv c <= maxv_max /\ tf_min <= c_tf c <= tf_max /\
  misc_min <= c_misc c <= misc_max /\ nx_min <= c_nx c <= nx_max /\
  nodata_min <= c_nodata c <= nodata_max /\ deleg_min <= c_deleg c <= deleg_max.

Lemma limit_range lo hi v : lo <= hi -> lo <= limit lo hi v <= hi.
Proof. unfold limit. lia. Qed.

Lemma config_of_ok a b c d e f t : cfg_ok (config_of a b c d e f t).
Proof.
  unfold cfg_ok, config_of; cbn [c_maxv c_tf c_misc c_nx c_nodata c_deleg].
  repeat split; apply limit_range; vm_compute; discriminate.
Qed.

Lemma config_default_ok : cfg_ok config_default.
Proof. unfold cfg_ok; vm_compute; intuition discriminate. Qed.

(* ---------- keys and the store -------------------------------------------------- *)
Lemma addo_eqb_eq a b : addo_eqb a b = true <-> a = b.
Proof. destruct a, b; simpl; intuition congruence. Qed.

Lemma key_eqb_eq a b : key_eqb a b = true <-> a = b.
Proof.
  destruct a as [n1 c1 t1 a1 d1 r1], b as [n2 c2 t2 a2 d2 r2]; unfold key_eqb;
    cbn [k_name k_class k_type k_addo k_cd k_rd].
  rewrite !andb_true_iff, !N.eqb_eq, addo_eqb_eq, !Bool.eqb_true_iff.
  split.
  - intros [[[[[-> ->] ->] ->] ->] ->]; reflexivity.
  - intros H; injection H; intros; subst; auto 10.
Qed.

Lemma cget_In k c v : cget k c = Some v -> In (k, v) c.
Proof.
  induction c as [|[k' v'] t IH]; cbn [cget]; [discriminate|].
  destruct (key_eqb k' k) eqn:E.
  - intros [= ->]. apply key_eqb_eq in E; subst. now left.
  - intros H; right; auto.
Qed.

Lemma cinsert_In k v c e : In e (cinsert k v c) -> e = (k, v) \/ In e c.
Proof.
  unfold cinsert; intros [<-|H]; [now left|].
  apply filter_In in H; tauto.
Qed.

Lemma evict_In n c e : In e (evict_nth n c) -> In e c.
Proof.
  revert n; induction c as [|a t IH]; intros n; [destruct n; simpl; tauto|].
  destruct n; cbn [evict_nth]; [now right|].
  intros [<-|H]; [now left|right; eauto].
Qed.

(* ---------- TTL minima ------------------------------------------------------------- *)
Lemma ttl_min_le_acc l : forall acc, ttl_min acc l <= acc.
Proof.
  unfold ttl_min; induction l as [|r t IH]; intros acc; cbn [fold_left]; [lia|].
  specialize (IH (N.min acc (r_ttl r))); lia.
Qed.

Lemma ttl_min_le_in l : forall acc r, In r l -> ttl_min acc l <= r_ttl r.
Proof.
  unfold ttl_min; induction l as [|a t IH]; intros acc r; [intros []|].
  cbn [fold_left]; intros [->|H].
  - pose proof (ttl_min_le_acc t (N.min acc (r_ttl r))) as L; unfold ttl_min in L; lia.
  - apply IH; exact H.
Qed.

Lemma ttl_min_opt_le_acc l : forall acc, ttl_min_opt acc l <= acc.
Proof.
  unfold ttl_min_opt; induction l as [|r t IH]; intros acc; cbn [fold_left]; [lia|].
  destruct (negb (r_type r =? rtype_opt)).
  - specialize (IH (N.min acc (r_ttl r))); lia.
  - apply IH.
Qed.

Lemma ttl_min_opt_le_in l : forall acc r, In r l -> (r_type r =? rtype_opt) = false ->
  ttl_min_opt acc l <= r_ttl r.
Proof.
  unfold ttl_min_opt; induction l as [|a t IH]; intros acc r; [intros []|].
  cbn [fold_left]; intros [->|H] Hty.
  - rewrite Hty; cbn [negb].
    pose proof (ttl_min_opt_le_acc t (N.min acc (r_ttl r))) as L; unfold ttl_min_opt in L; lia.
  - apply IH; assumption.
Qed.

(* every non-OPT record of a message *)
Definition counted (m : msg) (r : rr) : Prop :=
  In r (m_an m) \/ In r (m_ns m) \/ (In r (m_ar m) /\ (r_type r =? rtype_opt) = false).

Lemma validity_msg_bound cfg m v :
  validity cfg (RMsg m) = Ok v ->
  (forall r, counted m r -> v <= r_ttl r) /\
  (v = 0 \/ exists cap, class_cap cfg m = Ok cap /\ v <= cap).
Proof.
  unfold validity.
  destruct (m_tc m && negb (c_trunc cfg)).
  - intros [= <-]. split; [intros; lia|now left].
  - destruct (m_broken m); [discriminate|].
    destruct (class_cap cfg m) as [cap| | |] eqn:C; cbn [bind]; try discriminate.
    intros [= <-].
    pose proof (ttl_min_opt_le_acc (m_ar m) (ttl_min (ttl_min cap (m_an m)) (m_ns m))) as L3.
    pose proof (ttl_min_le_acc (m_ns m) (ttl_min cap (m_an m))) as L2.
    pose proof (ttl_min_le_acc (m_an m) cap) as L1.
    split.
    + intros r [H|[H|[H Ho]]].
      * pose proof (ttl_min_le_in _ cap _ H); lia.
      * pose proof (ttl_min_le_in _ (ttl_min cap (m_an m)) _ H); lia.
      * pose proof (ttl_min_opt_le_in _ (ttl_min (ttl_min cap (m_an m)) (m_ns m)) _ H Ho); lia.
    + right; exists cap; split; [reflexivity|lia].
Qed.

Lemma class_cap_le_maxv cfg m cap : class_cap cfg m = Ok cap -> cap <= c_maxv cfg.
Proof.
  unfold class_cap; rewrite gen_cap_base.
  destruct (class_rcode m) as [|[p|p|]]; try (intros [= <-]; lia).
  - destruct (classify_no_error m) as [cl| | |]; cbn [bind]; try discriminate.
    intros [= <-]; destruct cl; lia.
  - destruct p; intros [= <-]; lia.
Qed.

Lemma validity_le_maxv cfg m v : validity cfg (RMsg m) = Ok v -> v <= c_maxv cfg.
Proof.
  intros H; destruct (validity_msg_bound _ _ _ H) as [_ [->|(cap & C & L)]]; [lia|].
  apply class_cap_le_maxv in C; lia.
Qed.

(* ---------- ageing -------------------------------------------------------------------- *)
Definition age (a : N) (r : rr) : rr := mkRR (r_type r) (r_class r) (r_ttl r - a) (r_id r) false.
Definition age_opt (a : N) (r : rr) : rr := if negb (r_type r =? rtype_opt) then age a r else r.

(* with the TTL bound, ageing a section either succeeds or hits an unparsable record *)
Lemma dec_list_cases a l : Forall (fun r => a <= r_ttl r) l ->
  (dec_list a l = Ok (map (age a) l) /\ existsb r_bad l = false) \/
  (dec_list a l = Err parse_error /\ existsb r_bad l = true).
Proof.
  induction 1 as [|r t Hr _ IH]; cbn [dec_list map existsb]; [left; auto|].
  unfold dec_rr. destruct (r_bad r) eqn:B; cbn [bind orb]; [right; auto|].
  destruct (N.ltb_spec (r_ttl r) a); [lia|]. cbn [bind].
  destruct IH as [[-> E]|[-> E]]; cbn [bind]; [left|right]; auto.
Qed.

Lemma dec_list_ok a l l' : dec_list a l = Ok l' ->
  l' = map (age a) l /\ Forall (fun r => a <= r_ttl r) l /\ existsb r_bad l = false.
Proof.
  revert l'; induction l as [|r t IH]; intros l'; cbn [dec_list].
  - intros [= <-]; repeat split; constructor.
  - unfold dec_rr at 1. destruct (r_bad r) eqn:B; cbn [bind]; [discriminate|].
    destruct (N.ltb_spec (r_ttl r) a) as [Hlt|Hge]; cbn [bind]; [discriminate|].
    destruct (dec_list a t) as [t'| | |]; cbn [bind]; try discriminate.
    intros [= <-]. destruct (IH _ eq_refl) as (-> & F & E).
    cbn [existsb]. rewrite B, E. repeat split; [constructor; [lia|exact F]].
Qed.

Definition opt_ok (a : N) (r : rr) : Prop := (r_type r =? rtype_opt) = false -> a <= r_ttl r.

Lemma dec_list_opt_cases a l : Forall (opt_ok a) l ->
  (dec_list_opt a l = Ok (map (age_opt a) l) /\ existsb r_bad l = false) \/
  (dec_list_opt a l = Err parse_error /\ existsb r_bad l = true).
Proof.
  induction 1 as [|r t Hr _ IH]; cbn [dec_list_opt map existsb]; [left; auto|].
  unfold age_opt at 1. unfold opt_ok in Hr.
  destruct (r_type r =? rtype_opt) eqn:E; cbn [negb].
  - destruct (r_bad r) eqn:B; cbn [bind orb]; [right; auto|].
    destruct IH as [[-> E']|[-> E']]; cbn [bind]; [left|right]; auto.
  - unfold dec_rr. destruct (r_bad r) eqn:B; cbn [bind orb]; [right; auto|].
    destruct (N.ltb_spec (r_ttl r) a); [specialize (Hr eq_refl); lia|]. cbn [bind].
    destruct IH as [[-> E']|[-> E']]; cbn [bind]; [left|right]; auto.
Qed.

Lemma dec_list_opt_ok a l l' : dec_list_opt a l = Ok l' ->
  l' = map (age_opt a) l /\ Forall (opt_ok a) l /\ existsb r_bad l = false.
Proof.
  revert l'; induction l as [|r t IH]; intros l'; cbn [dec_list_opt].
  - intros [= <-]; repeat split; constructor.
  - destruct (r_type r =? rtype_opt) eqn:E; cbn [negb].
    + destruct (r_bad r) eqn:B; cbn [bind]; [discriminate|].
      destruct (dec_list_opt a t) as [t'| | |]; cbn [bind]; try discriminate.
      intros [= <-]. destruct (IH _ eq_refl) as (-> & F & E').
      cbn [existsb map]. rewrite B, E'. repeat split.
      * f_equal; unfold age_opt; rewrite E; reflexivity.
      * constructor; [unfold opt_ok; intros; congruence|exact F].
    + unfold dec_rr at 1. destruct (r_bad r) eqn:B; cbn [bind]; [discriminate|].
      destruct (N.ltb_spec (r_ttl r) a) as [Hlt|Hge]; cbn [bind]; [discriminate|].
      destruct (dec_list_opt a t) as [t'| | |]; cbn [bind]; try discriminate.
      intros [= <-]. destruct (IH _ eq_refl) as (-> & F & E').
      cbn [existsb map]. rewrite B, E'. repeat split.
      * f_equal; unfold age_opt; rewrite E; reflexivity.
      * constructor; [unfold opt_ok; intros; lia|exact F].
Qed.

Definition aged_msg (a qc : N) (m : msg) : msg :=
  mkMsg (m_id m) (m_rcode m) (m_aa m) (m_tc m) (m_rd m) (m_ad m) (m_q m) (restore_case m qc)
        (map (age a) (m_an m)) (map (age a) (m_ns m)) (map (age_opt a) (m_ar m)) (m_broken m).
Definition aged (a qc : N) (r : resp) : resp :=
  match r with RMsg m => RMsg (aged_msg a qc m) | RErr e => RErr e end.

Definition resp_has_bad (r : resp) : bool := match r with RMsg m => has_bad m | RErr _ => false end.

Lemma decrement_ok r a qc r' : decrement_ttl r a qc = Ok r' ->
  r' = aged a qc r /\ resp_has_bad r = false /\
  (forall m, r = RMsg m -> forall x, counted m x -> a <= r_ttl x).
Proof.
  destruct r as [m|e]; cbn [decrement_ttl aged resp_has_bad].
  - destruct (dec_list a (m_an m)) as [an| | |] eqn:E1; cbn [bind]; try discriminate.
    destruct (dec_list a (m_ns m)) as [ns| | |] eqn:E2; cbn [bind]; try discriminate.
    destruct (dec_list_opt a (m_ar m)) as [ar| | |] eqn:E3; cbn [bind]; try discriminate.
    intros [= <-].
    apply dec_list_ok in E1, E2. apply dec_list_opt_ok in E3.
    destruct E1 as (-> & F1 & B1), E2 as (-> & F2 & B2), E3 as (-> & F3 & B3).
    split; [reflexivity|]. split; [unfold has_bad; rewrite B1, B2, B3; reflexivity|].
    intros m' [= <-] x [H|[H|[H Ho]]].
    + rewrite Forall_forall in F1; auto.
    + rewrite Forall_forall in F2; auto.
    + rewrite Forall_forall in F3; apply F3; auto.
  - intros [= <-]; repeat split; discriminate.
Qed.

Lemma decrement_cases r a qc :
  (forall m, r = RMsg m -> forall x, counted m x -> a <= r_ttl x) ->
  (decrement_ttl r a qc = Ok (aged a qc r) /\ resp_has_bad r = false) \/
  (decrement_ttl r a qc = Err parse_error /\ resp_has_bad r = true).
Proof.
  destruct r as [m|e]; cbn [decrement_ttl aged resp_has_bad]; [|left; auto].
  intros H. specialize (H m eq_refl). unfold has_bad.
  assert (F1 : Forall (fun r => a <= r_ttl r) (m_an m)) by (apply Forall_forall; intros x Hx; apply H; left; exact Hx).
  assert (F2 : Forall (fun r => a <= r_ttl r) (m_ns m)) by (apply Forall_forall; intros x Hx; apply H; right; left; exact Hx).
  assert (F3 : Forall (opt_ok a) (m_ar m)) by (apply Forall_forall; intros x Hx Ho; apply H; right; right; tauto).
  destruct (dec_list_cases a _ F1) as [[-> ->]|[-> ->]]; cbn [bind orb]; [|right; auto].
  destruct (dec_list_cases a _ F2) as [[-> ->]|[-> ->]]; cbn [bind orb]; [|right; auto].
  destruct (dec_list_opt_cases a _ F3) as [[-> ->]|[-> ->]]; cbn [bind orb]; [left|right]; auto.
Qed.

(* ---------- expiry -------------------------------------------------------------------------- *)
Lemma not_expired_le e v : expired e v = false -> e <= v * 1000.
Proof. unfold expired; destruct expired_is_gt; lia. Qed.

Lemma expired_gt e v : v * 1000 < e -> expired e v = true.
Proof. unfold expired; destruct expired_is_gt; lia. Qed.

Lemma cast_secs_small ms : ms / 1000 < 2 ^ 32 -> cast_secs ms = ms / 1000.
Proof. unfold cast_secs; rewrite gen_cast_bits; intros H; apply N.mod_small; exact H. Qed.

Lemma cast_secs_le ms : cast_secs ms <= ms / 1000.
Proof. unfold cast_secs. apply N.mod_le. rewrite gen_cast_bits. discriminate. Qed.
