(* C20 -- widening round: one upstream exchange explains a served answer in
   every respect at once; a fresh exact entry is always served (no needless
   upstream traffic, store untouched); every QUERY/IN request is served,
   or reaches upstream and is logged; ageing of one entry is monotone in time. *)
From Coq Require Import NArith ZArith List Bool Lia ZifyN ZifyBool ZifyNat.
From DV Require Import Base.Outcome C20.Gen C20.Model C20.ProofsBase C20.ProofsInv C20.ProofsMain.
Import ListNotations.
Local Open Scope N_scope.
Ltac Zify.zify_post_hook ::= Z.div_mod_to_equations.

(* ---------- 1. the three per-witness cores ---------------------------------------- *)
Lemma core_aged cfg x u0 val e qc r :
  cfg_ok cfg -> validity cfg (xform_resp x u0) = Ok val -> expired e val = false ->
  decrement_ttl (xform_resp x u0) (cast_secs e) qc = Ok r ->
  resp_aged (e / 1000) u0 r.
Proof.
  intros C V E D.
  apply decrement_ok in D. destruct D as (-> & _ & B).
  destruct u0 as [m0|e0]; cbn [xform_resp map_resp aged resp_aged]; [|exact Logic.I].
  destruct (elapsed_secs_bound cfg x m0 val _ C V E) as [Hs _]. rewrite Hs in *.
  specialize (B _ eq_refl). set (secs := e / 1000) in *.
  cbn [aged_msg m_an m_ns m_ar xform].
  assert (Hsub : forall l r0, In r0 (if x_strip x then filter keep_rr l else l) -> In r0 l).
  { intros l r0 H. destruct (x_strip x); [apply filter_In in H; tauto|exact H]. }
  repeat split.
  - intros r H. apply in_map_iff in H. destruct H as (r0 & <- & H). exists r0. split; [eauto|].
    assert (secs <= r_ttl r0) by (apply B; left; exact H).
    unfold rr_aged, age; cbn. repeat split; lia.
  - intros r H. apply in_map_iff in H. destruct H as (r0 & <- & H). exists r0. split; [eauto|].
    assert (secs <= r_ttl r0) by (apply B; right; left; exact H).
    unfold rr_aged, age; cbn. repeat split; lia.
  - intros r H. apply in_map_iff in H. destruct H as (r0 & <- & H). exists r0. split; [eauto|].
    unfold rr_aged, age_opt, age. destruct (r_type r0 =? rtype_opt) eqn:T; cbn [negb andb].
    + repeat split; reflexivity.
    + assert (secs <= r_ttl r0) by (apply B; right; right; split; [exact H|exact T]).
      cbn. repeat split; lia.
Qed.

Lemma core_fresh cfg x u0 val e qc r :
  cfg_ok cfg -> validity cfg (xform_resp x u0) = Ok val -> expired e val = false ->
  decrement_ttl (xform_resp x u0) (cast_secs e) qc = Ok r ->
  fresh_by_class cfg e u0 r.
Proof.
  intros C V E D.
  apply decrement_ok in D. destruct D as (-> & _ & B).
  destruct u0 as [m0|e0]; cbn [xform_resp map_resp aged fresh_by_class].
  - destruct (elapsed_secs_bound cfg x m0 val _ C V E) as [Hs Hle]. rewrite Hs in *.
    specialize (B _ eq_refl). apply not_expired_le in E.
    cbn [xform_resp map_resp] in V.
    rewrite classify_aged, opt_rcode_aged. cbn [aged_msg m_tc].
    destruct (validity_msg_bound _ _ _ V) as [Bt Bc].
    assert (Hcnt : forall y, counted (aged_msg (e / 1000) qc (xform x m0)) y -> within e (r_ttl y + e / 1000)).
    { intros y Hy. unfold within.
      assert (exists y0, counted (xform x m0) y0 /\ r_ttl y = r_ttl y0 - e / 1000) as (y0 & Hy0 & ->).
      { unfold counted in Hy; cbn [aged_msg m_an m_ns m_ar] in Hy.
        destruct Hy as [H|[H|[H Ho]]]; apply in_map_iff in H; destruct H as (y0 & <- & H).
        - exists y0; split; [left; exact H|reflexivity].
        - exists y0; split; [right; left; exact H|reflexivity].
        - unfold age_opt in *. destruct (r_type y0 =? rtype_opt) eqn:T; cbn [negb] in *.
          + rewrite T in Ho; discriminate.
          + exists y0; split; [right; right; split; assumption|reflexivity]. }
      specialize (Bt _ Hy0). specialize (B _ Hy0). lia. }
    destruct Bc as [->|(cap & Hc & Hle2)].
    + assert (e = 0) by lia. unfold within. repeat split; intros; lia.
    + destruct (class_cap_spec _ _ _ Hc) as (H1 & H2 & H3 & H4 & H5 & H6).
      unfold within. repeat split.
      * lia.
      * intros Hr; specialize (H2 Hr); lia.
      * intros Hr Hr'; specialize (H3 Hr Hr'); lia.
      * intros Hr Hcl; specialize (H4 Hr Hcl); lia.
      * intros Hr Hcl; specialize (H5 Hr Hcl); lia.
      * intros Hr Hcl; specialize (H6 Hr Hcl); lia.
      * intros Ht Hn. unfold validity in V. cbn [xform m_tc] in V, Ht. rewrite Ht, Hn in V.
        cbn [andb negb] in V. injection V as <-. lia.
      * apply Hcnt.
  - apply not_expired_le in E. cbn [xform_resp map_resp validity] in V. rewrite gen_cap_failure in V.
    injection V as <-. exact E.
Qed.

Lemma core_leak k0 k x u0 a qc r :
  compat k0 k x u0 -> decrement_ttl (xform_resp x u0) a qc = Ok r ->
  (k_addo k <> AdDo_Do -> k_addo k0 = AdDo_Do -> no_dnssec r) /\
  (k_addo k = AdDo_None -> k_addo k0 <> AdDo_None -> resp_ad r = false).
Proof.
  intros Hk D. apply decrement_ok in D. destruct D as (-> & _ & _).
  destruct Hk as (_ & _ & _ & _ & _ & _ & _ & _ & _ & _ & H11 & H12).
  split.
  - intros Hn Hd. specialize (H11 Hd Hn).
    destruct u0 as [m0|e0]; cbn; [|exact Logic.I]. rewrite H11.
    repeat split; apply no_dnssec_filter_age; intros; [apply age_type|apply age_type|apply age_opt_type].
  - intros Hn Hd. specialize (H12 Hn Hd). destruct u0 as [m0|e0]; cbn in *; [exact H12|reflexivity].
Qed.

(* ---------- 2. one exchange explains the served answer in every respect ---------------- *)
Lemma served_single_witness cfg evs st os ev k now qc st' r :
  request_of ev = Some (k, now, qc) ->
  cfg_ok cfg ->
  run cfg state_init evs = Ok (st, os) ->
  step cfg st ev = Ok (st', OServed r) ->
  exists k0 t0 u0,
    logged evs os (k0, t0, u0) /\ same_question k0 k /\ flags_compatible k0 k /\ derives u0 r /\
    resp_aged ((now - t0) / 1000) u0 r /\
    fresh_by_class cfg (now - t0) u0 r /\
    (k_addo k <> AdDo_Do -> k_addo k0 = AdDo_Do -> no_dnssec r) /\
    (k_addo k = AdDo_None -> k_addo k0 <> AdDo_None -> resp_ad r = false).
Proof.
  intros Hq C R S. pose proof (run_inv cfg evs _ _ _ (inv_init cfg) R) as I.
  destruct (served_master _ _ _ _ _ _ _ _ I Hq S) as [F|[LF _]].
  2:{ destruct (lookup_failed_only_before_fix cfg evs st os k gen_strip_miss R LF). }
  destruct F as (k0 & t0 & u0 & x & val & Hin & Hk & V & E & [D|[-> B]]);
    exists k0, t0, u0; (split; [eapply run_init_logged; eassumption|]);
    destruct (compat_question _ _ _ _ Hk) as [Q Fl]; (split; [exact Q|]); (split; [exact Fl|]).
  - split; [pose proof D as D'; apply decrement_ok in D'; destruct D' as (-> & _); apply derives_aged|].
    split; [eapply core_aged; eassumption|].
    split; [eapply core_fresh; eassumption|].
    eapply core_leak; eassumption.
  - destruct (bad_source _ _ B) as (m0 & -> & B0).
    split; [cbn; auto|]. split; [cbn; auto|].
    split.
    + cbn [fresh_by_class]. apply not_expired_le in E. cbn [xform_resp map_resp] in V.
      apply validity_le_maxv in V. unfold within. lia.
    + split; intros; [exact Logic.I|reflexivity].
Qed.

(* ---------- 3. a fresh exact entry is always served, the store is not touched ----------- *)
Lemma fresh_entry_served cfg st k qc now v :
  inv cfg st -> k_class k = class_in -> cget k (s_cache st) = Some v ->
  now - v_created v <= v_valid v * 1000 ->
  exists r,
    (forall delay u, step cfg st (EQuery k 0 qc now delay u) = Ok (st, OServed r)) /\
    step cfg st (EStart k 0 qc now) = Ok (st, OServed r) /\
    (r = aged (cast_secs (now - v_created v)) qc (v_resp v) \/
     (r = RErr parse_error /\ resp_has_bad (v_resp v) = true)).
Proof.
  intros I Hc G Hb.
  assert (E : expired (now - v_created v) (v_valid v) = false).
  { unfold expired. change expired_is_gt with true. cbn match. apply N.ltb_ge. exact Hb. }
  assert (Hd : forall m, v_resp v = RMsg m -> forall y, counted m y ->
               cast_secs (now - v_created v) <= r_ttl y).
  { intros m Hm x Hx. pose proof (prov_valid _ _ _ _ (I _ _ (cget_In _ _ _ G))) as V. rewrite Hm in V.
    destruct (validity_msg_bound _ _ _ V) as [Bt _]. specialize (Bt _ Hx).
    pose proof (cast_secs_le (now - v_created v)). lia. }
  assert (St : exists r, start cfg st k 0 qc now = Ok (st, SServed r) /\
     (r = aged (cast_secs (now - v_created v)) qc (v_resp v) \/
      (r = RErr parse_error /\ resp_has_bad (v_resp v) = true))).
  { unfold start. rewrite Hc, !N.eqb_refl. cbn [andb negb].
    unfold cache_lookup, cache_lookup_rd_do_ad, cache_lookup_do_ad, cache_lookup_ad. rewrite G.
    cbn [bind]. unfold get_response, elapsed_ms. rewrite E.
    destruct st as [c L]; cbn [s_cache s_log].
    destruct (decrement_cases _ _ qc Hd) as [[-> Bd]|[-> Bd]]; eexists; (split; [reflexivity|]); auto. }
  destruct St as (r & St & Hr). exists r. split; [|split; [|exact Hr]].
  - intros delay u. cbn [step]. rewrite St. reflexivity.
  - cbn [step]. rewrite St. reflexivity.
Qed.

(* ---------- 4. every request is served, bypasses, or reaches upstream and is logged ------ *)
Lemma query_trichotomy cfg st k op qc now delay u st' o :
  inv cfg st -> step cfg st (EQuery k op qc now delay u) = Ok (st', o) ->
  (exists r, o = OServed r /\ s_log st' = s_log st) \/
  (o = OBypass /\ st' = st) \/
  (forwarded o /\ op = 0 /\ k_class k = class_in /\ s_log st' = (k, now + delay, u) :: s_log st).
Proof.
  intros I. cbn [step].
  destruct (start cfg st k op qc now) as [[st1 sr]| | |] eqn:S; cbn [bind]; try discriminate.
  destruct (start_inv _ _ _ _ _ _ _ _ I S) as [I1 L1].
  destruct sr as [s| |].
  - intros [= <- <-]. left. eauto.
  - intros F. right; right. destruct (finish_inv _ _ _ _ _ _ _ I1 F) as (_ & Fw & L).
    split; [exact Fw|]. split; [exact (start_miss_query _ _ _ _ _ _ _ S)|].
    split; [|rewrite L, L1; reflexivity].
    revert S. unfold start.
    destruct (negb ((op =? 0) && (k_class k =? class_in))) eqn:B; [discriminate|].
    apply negb_false_iff, andb_true_iff in B. destruct B as [_ B]. apply N.eqb_eq in B. auto.
  - intros [= <- <-]. right; left. split; [reflexivity|].
    revert S. unfold start.
    destruct (negb ((op =? 0) && (k_class k =? class_in))); [intros [= <-]; reflexivity|].
    destruct (cache_lookup cfg k (s_cache st)) as [[c1 res]| | |]; cbn [bind]; try discriminate.
    destruct res as [v| |e]; try discriminate.
    destruct (get_response v now qc) as [[s|e| |]|]; discriminate.
Qed.

(* ---------- 5. ageing of one entry is monotone in time ------------------------------------ *)
(* two answers built from the same stored value at now1 <= now2: every TTL of
   the later one is the earlier one's minus the whole seconds in between *)
Lemma later_serving_not_younger cfg L k v now1 now2 qc1 qc2 m1 m2 :
  cfg_ok cfg -> prov cfg L k v -> now1 <= now2 ->
  get_response v now1 qc1 = Some (Ok (RMsg m1)) ->
  get_response v now2 qc2 = Some (Ok (RMsg m2)) ->
  let d := (now2 - v_created v) / 1000 - (now1 - v_created v) / 1000 in
  m_an m2 = map (age d) (m_an m1) /\ m_ns m2 = map (age d) (m_ns m1) /\
  m_ar m2 = map (age_opt d) (m_ar m1) /\
  (forall y, counted m1 y -> d <= r_ttl y).
Proof.
  intros C P Hle G1 G2 d.
  pose proof (prov_valid _ _ _ _ P) as V.
  unfold get_response, elapsed_ms in G1, G2.
  destruct (expired (now1 - v_created v) (v_valid v)) eqn:E1; [discriminate|].
  destruct (expired (now2 - v_created v) (v_valid v)) eqn:E2; [discriminate|].
  injection G1 as G1. injection G2 as G2.
  apply decrement_ok in G1, G2. destruct G1 as (A1 & _ & B1), G2 as (A2 & _ & B2).
  destruct (v_resp v) as [m|e] eqn:Hv; [|discriminate A1].
  cbn [aged] in A1, A2. injection A1 as ->. injection A2 as ->.
  specialize (B1 _ eq_refl). specialize (B2 _ eq_refl).
  apply not_expired_le in E1, E2.
  pose proof (validity_le_maxv _ _ _ V) as Hm. destruct C as [[_ C] _]. pose proof gen_maxv_fits as F.
  rewrite cast_secs_small in * by lia. rewrite cast_secs_small in * by lia.
  set (a1 := (now1 - v_created v) / 1000) in *. set (a2 := (now2 - v_created v) / 1000) in *.
  assert (Ha : a1 <= a2) by (subst a1 a2; lia).
  assert (Hage : forall y, a2 <= r_ttl y -> age d (age a1 y) = age a2 y).
  { intros y Hy. unfold age; cbn. f_equal. subst d. lia. }
  cbn [aged_msg m_an m_ns m_ar]. rewrite !map_map.
  repeat split.
  - apply map_ext_in. intros y Hy. symmetry. apply Hage. apply B2. left; exact Hy.
  - apply map_ext_in. intros y Hy. symmetry. apply Hage. apply B2. right; left; exact Hy.
  - apply map_ext_in. intros y Hy. symmetry.
    destruct (r_type y =? rtype_opt) eqn:T.
    + assert (H1 : age_opt a1 y = y) by (unfold age_opt; rewrite T; reflexivity).
      rewrite H1. unfold age_opt; rewrite T; reflexivity.
    + assert (H1 : age_opt a1 y = age a1 y) by (unfold age_opt; rewrite T; reflexivity).
      rewrite H1. unfold age_opt. cbn [age r_type]. rewrite T. cbn [negb].
      apply Hage. apply B2. right; right; auto.
  - intros y Hy. unfold counted in Hy. cbn [m_an m_ns m_ar] in Hy.
    destruct Hy as [H|[H|[H Ho]]]; apply in_map_iff in H; destruct H as (y0 & <- & H).
    + assert (a2 <= r_ttl y0) by (apply B2; left; exact H). cbn. subst d. lia.
    + assert (a2 <= r_ttl y0) by (apply B2; right; left; exact H). cbn. subst d. lia.
    + unfold age_opt in *. destruct (r_type y0 =? rtype_opt) eqn:T; cbn [negb] in *.
      * rewrite T in Ho. discriminate.
      * assert (a2 <= r_ttl y0) by (apply B2; right; right; auto). cbn. subst d. lia.
Qed.

(* ---------- non-vacuity ----------------------------------------------------------------------- *)
Definition wk : key := key_of_request 1 1 1 true false false false.
Definition wA (ttl id : N) := mkRR 1 1 ttl id false.
Definition wup : resp :=
  RMsg (mkMsg 7 0 true false true false (Some (1, 1)) 1 [wA 300 1; wA 120 2] [] [] false).

Example ex_single_witness :
  c20_run config_default [EQuery wk 0 1 0 0 wup; EQuery wk 0 2 61999 0 (RErr 1); EQuery wk 0 2 120000 0 (RErr 1);
                          EQuery wk 0 2 120001 0 (RErr 1)]
  = Ok [OForwarded;
        OServed (RMsg (mkMsg 7 0 false false true false (Some (1, 1)) 2 [wA 239 1; wA 59 2] [] [] false));
        OServed (RMsg (mkMsg 7 0 false false true false (Some (1, 1)) 2 [wA 180 1; wA 0 2] [] [] false));
        OForwarded].
Proof. vm_compute. reflexivity. Qed.

Example ex_trichotomy_forward :
  exists st', step config_default state_init (EQuery wk 0 1 5 7 wup) = Ok (st', OForwarded) /\
              s_log st' = [(wk, 12, wup)].
Proof. eexists; split; vm_compute; reflexivity. Qed.

Example ex_later_serving :
  let v := mkValue 0 120 wup in
  get_response v 61999 1 = Some (Ok (RMsg (mkMsg 7 0 true false true false (Some (1, 1)) 1 [wA 239 1; wA 59 2] [] [] false))) /\
  get_response v 120000 1 = Some (Ok (RMsg (mkMsg 7 0 true false true false (Some (1, 1)) 1 [wA 180 1; wA 0 2] [] [] false))).
Proof. split; vm_compute; reflexivity. Qed.
