(* C20 -- property theorems only.  Proofs live in C20/Proofs*.v. *)
From Coq Require Import NArith List.
From DV Require Import Base.Outcome C20.Gen C20.Model C20.ProofsBase C20.ProofsInv C20.ProofsMain C20.ProofsWide C20.ProofsStore.
From DV Require C20.ProofsEx.
Import ListNotations.
Local Open Scope N_scope.

Theorem C20_served_was_received : forall cfg evs st os ev k now qc st' r,
  request_of ev = Some (k, now, qc) ->
  run cfg state_init evs = Ok (st, os) ->
  step cfg st ev = Ok (st', OServed r) ->
  exists k0 t0 u0,
    logged evs os (k0, t0, u0) /\ same_question k0 k /\ flags_compatible k0 k /\ derives u0 r.
Proof. exact served_was_received. Qed.
Print Assumptions C20_served_was_received.

Theorem C20_ttl_aged_never_increased : forall cfg evs st os ev k now qc st' r,
  request_of ev = Some (k, now, qc) ->
  cfg_ok cfg ->
  run cfg state_init evs = Ok (st, os) ->
  step cfg st ev = Ok (st', OServed r) ->
  exists k0 t0 u0,
    logged evs os (k0, t0, u0) /\ same_question k0 k /\ resp_aged ((now - t0) / 1000) u0 r.
Proof. exact ttl_aged. Qed.
Print Assumptions C20_ttl_aged_never_increased.

Theorem C20_never_stale : forall cfg evs st os ev k now qc st' r,
  request_of ev = Some (k, now, qc) ->
  cfg_ok cfg ->
  run cfg state_init evs = Ok (st, os) ->
  ~ lookup_failed cfg st k ->
  step cfg st ev = Ok (st', OServed r) ->
  exists k0 t0 u0,
    logged evs os (k0, t0, u0) /\ same_question k0 k /\ derives u0 r /\
    fresh_by_class cfg (now - t0) u0 r.
Proof. exact never_stale. Qed.
Print Assumptions C20_never_stale.

Theorem C20_never_stale_unconditional : forall cfg evs st os ev k now qc st' r,
  request_of ev = Some (k, now, qc) ->
  cfg_ok cfg ->
  run cfg state_init evs = Ok (st, os) ->
  step cfg st ev = Ok (st', OServed r) ->
  exists k0 t0 u0,
    logged evs os (k0, t0, u0) /\ same_question k0 k /\ derives u0 r /\
    fresh_by_class cfg (now - t0) u0 r.
Proof. exact never_stale_unconditional. Qed.
Print Assumptions C20_never_stale_unconditional.

Theorem C20_never_stale_refuted : strip_failure_is_miss = false ->
  validity config_default witness_stale_bad = Ok 60 /\
  exists st os st',
    run config_default state_init witness_stale = Ok (st, os) /\
    lookup_failed config_default st (key_of_request 1 1 1 true false false false) /\
    step config_default st witness_stale_query = Ok (st', OServed (RErr parse_error)).
Proof. exact never_stale_refuted. Qed.
Print Assumptions C20_never_stale_refuted.

Theorem C20_lookup_failed_only_before_fix : forall cfg evs st os k,
  strip_failure_is_miss = true -> run cfg state_init evs = Ok (st, os) -> ~ lookup_failed cfg st k.
Proof. exact lookup_failed_only_before_fix. Qed.
Print Assumptions C20_lookup_failed_only_before_fix.

Theorem C20_expired_entry_not_served : forall v now qc,
  v_valid v * 1000 < now - v_created v -> get_response v now qc = None.
Proof. exact expired_entry_not_served. Qed.
Print Assumptions C20_expired_entry_not_served.

Theorem C20_class_stable_under_stripping : forall x m0 qt qc,
  m_q m0 = Some (qt, qc) -> (x_strip x = true -> is_dnssec qt = false) ->
  classify_no_error (xform x m0) = classify_no_error m0.
Proof. exact class_stable. Qed.
Print Assumptions C20_class_stable_under_stripping.

Theorem C20_decrement_no_underflow_no_panic : forall cfg evs,
  Forall ev_ok evs -> exists os, c20_run cfg evs = Ok os.
Proof. exact no_panic_all_histories. Qed.
Print Assumptions C20_decrement_no_underflow_no_panic.

Theorem C20_no_panic_unconditional : forall cfg evs, exists os, c20_run cfg evs = Ok os.
Proof. exact no_panic_unconditional. Qed.
Print Assumptions C20_no_panic_unconditional.

Theorem C20_no_panic_refuted : classify_expects_question = true ->
  ~ Forall ev_ok witness_no_question /\ c20_run config_default witness_no_question = Panic 1.
Proof. exact no_panic_refuted. Qed.
Print Assumptions C20_no_panic_refuted.

Theorem C20_no_dnssec_leak : forall cfg evs st os ev k now qc st' r,
  request_of ev = Some (k, now, qc) ->
  run cfg state_init evs = Ok (st, os) ->
  step cfg st ev = Ok (st', OServed r) ->
  exists k0 t0 u0,
    logged evs os (k0, t0, u0) /\ same_question k0 k /\ flags_compatible k0 k /\ derives u0 r /\
    (k_addo k <> AdDo_Do -> k_addo k0 = AdDo_Do -> no_dnssec r) /\
    (k_addo k = AdDo_None -> k_addo k0 <> AdDo_None -> resp_ad r = false).
Proof. exact no_dnssec_leak. Qed.
Print Assumptions C20_no_dnssec_leak.

Theorem C20_stripped_types_are_rrsig_nsec_nsec3 : forall l, no_dnssec_rrs l ->
  forall r, In r l -> r_type r <> 46 /\ r_type r <> 47 /\ r_type r <> 50.
Proof. exact no_dnssec_types. Qed.
Print Assumptions C20_stripped_types_are_rrsig_nsec_nsec3.

Theorem C20_no_leak_honest_upstream : forall cfg evs st os ev k now qc st' r,
  request_of ev = Some (k, now, qc) ->
  run cfg state_init evs = Ok (st, os) -> upstream_respects_flags (s_log st) ->
  step cfg st ev = Ok (st', OServed r) ->
  (k_addo k <> AdDo_Do -> no_dnssec r) /\ (k_addo k = AdDo_None -> resp_ad r = false).
Proof. exact no_leak_honest_upstream. Qed.
Print Assumptions C20_no_leak_honest_upstream.

Theorem C20_boundary_served : forall cfg st k qc now delay u v,
  inv cfg st -> k_class k = class_in -> cget k (s_cache st) = Some v ->
  now - v_created v = v_valid v * 1000 ->
  exists st' r, step cfg st (EQuery k 0 qc now delay u) = Ok (st', OServed r).
Proof. exact boundary_served. Qed.
Print Assumptions C20_boundary_served.

Theorem C20_only_query_in_is_cached : forall cfg st k op qc now delay u,
  op <> 0 \/ k_class k <> class_in ->
  step cfg st (EQuery k op qc now delay u) = Ok (st, OBypass) /\
  step cfg st (EStart k op qc now) = Ok (st, OBypass).
Proof. exact bypass_untouched. Qed.
Print Assumptions C20_only_query_in_is_cached.

Theorem C20_question_spelled_as_asked : forall cfg st ev k now qc st' m,
  request_of ev = Some (k, now, qc) ->
  inv cfg st -> step cfg st ev = Ok (st', OServed (RMsg m)) -> m_q m <> None -> m_qcase m = qc.
Proof. exact served_question_case. Qed.
Print Assumptions C20_question_spelled_as_asked.

Theorem C20_store_invariant : forall cfg evs st os,
  run cfg state_init evs = Ok (st, os) -> inv cfg st.
Proof. exact store_invariant. Qed.
Print Assumptions C20_store_invariant.

Theorem C20_api_configs_ok : forall a b c d e f t, cfg_ok (config_of a b c d e f t).
Proof. exact config_of_ok. Qed.
Print Assumptions C20_api_configs_ok.

Theorem C20_extended_rcode_is_misc_error : forall cfg m v, 16 <= opt_rcode m ->
  class_cap cfg m = Ok (N.min (c_maxv cfg) (c_misc cfg)) /\
  (validity cfg (RMsg m) = Ok v -> v <= c_misc cfg).
Proof. exact extended_rcode_both. Qed.
Print Assumptions C20_extended_rcode_is_misc_error.

Theorem C20_opt_record_makes_rcode_extended : forall m o,
  first_opt (m_ar m) = Some o -> r_bad o = false -> 2 ^ 24 <= r_ttl o -> 16 <= opt_rcode m.
Proof. exact opt_rcode_high. Qed.
Print Assumptions C20_opt_record_makes_rcode_extended.

Theorem C20_same_cd_compatible_do : forall cfg evs st os ev k now qc st' r,
  request_of ev = Some (k, now, qc) ->
  run cfg state_init evs = Ok (st, os) ->
  step cfg st ev = Ok (st', OServed r) ->
  exists k0 t0 u0, logged evs os (k0, t0, u0) /\ same_question k0 k /\ derives u0 r /\
    k_cd k0 = k_cd k /\ (k_addo k = AdDo_Do -> k_addo k0 = AdDo_Do).
Proof. exact same_cd_compatible_do. Qed.
Print Assumptions C20_same_cd_compatible_do.

Theorem C20_key_holds_every_request_component : forall name cls ty rd cd ad dnssec_ok,
  let k := key_of_request name cls ty rd cd ad dnssec_ok in
  k_name k = name /\ k_class k = cls /\ k_type k = ty /\ k_cd k = cd /\ k_rd k = rd /\
  k_addo k = (if dnssec_ok then AdDo_Do else if ad then AdDo_Ad else AdDo_None).
Proof. exact key_of_request_fields. Qed.
Print Assumptions C20_key_holds_every_request_component.

Theorem C20_base_message_opt_ignored : forall name cls ty rd cd ad b b' own,
  key_of_request_msg name cls ty rd cd ad b own = key_of_request_msg name cls ty rd cd ad b' own /\
  (own = None -> k_addo (key_of_request_msg name cls ty rd cd ad b own) <> AdDo_Do).
Proof. exact base_opt_ignored. Qed.
Print Assumptions C20_base_message_opt_ignored.

Theorem C20_interleaved_cascade_safe : forall cfg,
  (forall st k v, inv cfg st -> cget k (s_cache st) = Some v -> prov cfg (s_log st) k v) /\
  (forall L L' k v, incl L L' -> prov cfg L k v -> prov cfg L' k v) /\
  (forall L k v v', k_addo k = AdDo_None -> prov cfg L (key_set_addo k AdDo_Ad) v ->
     update_message cfg v m_ad (pure (msg_set_ad false)) = Ok v' -> prov cfg L k v') /\
  (forall L k v v', k_addo k <> AdDo_Do -> is_dnssec (k_type k) = false ->
     prov cfg L (key_set_addo k AdDo_Do) v ->
     update_message cfg v (fun _ => true) (remove_dnssec_o (addo_ad (k_addo k))) = Ok v' -> prov cfg L k v') /\
  (forall L k v v', k_rd k = false -> prov cfg L (key_set_rd k true) v ->
     update_message cfg v (fun _ => true) (pure (msg_set_rd false)) = Ok v' -> prov cfg L k v') /\
  (forall st k v c', inv cfg st -> prov cfg (s_log st) k v ->
     cache_insert cfg k v (s_cache st) = Ok c' -> inv cfg (mkState c' (s_log st))) /\
  (forall L k v now qc r, prov cfg L k v -> get_response v now qc = Some (Ok r) ->
     exists k0 t0 u0, In (k0, t0, u0) L /\ same_question k0 k /\ flags_compatible k0 k /\ derives u0 r /\
       v_created v = t0 /\ now - t0 <= v_valid v * 1000).
Proof. exact interleaved_cascade_safe. Qed.
Print Assumptions C20_interleaved_cascade_safe.

Theorem C20_served_single_witness : forall cfg evs st os ev k now qc st' r,
  request_of ev = Some (k, now, qc) ->
  cfg_ok cfg ->
  run cfg state_init evs = Ok (st, os) ->
  step cfg st ev = Ok (st', OServed r) ->
  exists k0 t0 u0,
    logged evs os (k0, t0, u0) /\ same_question k0 k /\ flags_compatible k0 k /\ derives u0 r /\
    resp_aged ((now - t0) / 1000) u0 r /\
    fresh_by_class cfg (now - t0) u0 r /\
    (k_addo k <> AdDo_Do -> k_addo k0 = AdDo_Do -> no_dnssec r) /\
    (k_addo k = AdDo_None -> k_addo k0 <> AdDo_None -> resp_ad r = false).
Proof. exact served_single_witness. Qed.
Print Assumptions C20_served_single_witness.

Theorem C20_fresh_entry_served : forall cfg st k qc now v,
  inv cfg st -> k_class k = class_in -> cget k (s_cache st) = Some v ->
  now - v_created v <= v_valid v * 1000 ->
  exists r,
    (forall delay u, step cfg st (EQuery k 0 qc now delay u) = Ok (st, OServed r)) /\
    step cfg st (EStart k 0 qc now) = Ok (st, OServed r) /\
    (r = aged (cast_secs (now - v_created v)) qc (v_resp v) \/
     (r = RErr parse_error /\ resp_has_bad (v_resp v) = true)).
Proof. exact fresh_entry_served. Qed.
Print Assumptions C20_fresh_entry_served.

Theorem C20_request_served_bypassed_or_logged : forall cfg st k op qc now delay u st' o,
  inv cfg st -> step cfg st (EQuery k op qc now delay u) = Ok (st', o) ->
  (exists r, o = OServed r /\ s_log st' = s_log st) \/
  (o = OBypass /\ st' = st) \/
  (forwarded o /\ op = 0 /\ k_class k = class_in /\ s_log st' = (k, now + delay, u) :: s_log st).
Proof. exact query_trichotomy. Qed.
Print Assumptions C20_request_served_bypassed_or_logged.

Theorem C20_later_serving_ages_further : forall cfg L k v now1 now2 qc1 qc2 m1 m2,
  cfg_ok cfg -> prov cfg L k v -> now1 <= now2 ->
  get_response v now1 qc1 = Some (Ok (RMsg m1)) ->
  get_response v now2 qc2 = Some (Ok (RMsg m2)) ->
  let d := (now2 - v_created v) / 1000 - (now1 - v_created v) / 1000 in
  m_an m2 = map (age d) (m_an m1) /\ m_ns m2 = map (age d) (m_ns m1) /\
  m_ar m2 = map (age_opt d) (m_ar m1) /\
  (forall y, counted m1 y -> d <= r_ttl y).
Proof. exact later_serving_not_younger. Qed.
Print Assumptions C20_later_serving_ages_further.

Theorem C20_zero_validity_never_stored : forall cfg evs st os k v,
  run cfg state_init evs = Ok (st, os) -> In (k, v) (s_cache st) ->
  v_valid v <> 0 /\ validity cfg (v_resp v) = Ok (v_valid v).
Proof. exact zero_validity_never_stored. Qed.
Print Assumptions C20_zero_validity_never_stored.

Theorem C20_stored_entries_cacheable : forall cfg evs st os k v m,
  run cfg state_init evs = Ok (st, os) -> In (k, v) (s_cache st) -> v_resp v = RMsg m ->
  (m_tc m = true -> c_trunc cfg = true) /\ m_broken m = false /\ m_aa m = false /\
  (opt_rcode m = 0 -> classify_no_error m <> Ok Weird) /\
  (forall y, counted m y -> 1 <= r_ttl y) /\
  v_valid v <= c_maxv cfg.
Proof. exact stored_entries_cacheable. Qed.
Print Assumptions C20_stored_entries_cacheable.

Theorem C20_served_not_authoritative : forall cfg st ev k now qc st' m,
  request_of ev = Some (k, now, qc) ->
  inv cfg st -> step cfg st ev = Ok (st', OServed (RMsg m)) -> m_aa m = false.
Proof. exact served_not_authoritative. Qed.
Print Assumptions C20_served_not_authoritative.

Theorem C20_no_entry_goes_upstream : forall cfg st k qc now,
  k_class k = class_in -> no_entry_for k (s_cache st) ->
  (forall delay u, step cfg st (EQuery k 0 qc now delay u) = finish cfg st k (now + delay) u) /\
  step cfg st (EStart k 0 qc now) = Ok (st, OPending) /\
  (forall delay u st' o, step cfg st (EQuery k 0 qc now delay u) = Ok (st', o) ->
     forwarded o /\ s_log st' = (k, now + delay, u) :: s_log st).
Proof. exact no_entry_goes_upstream. Qed.
Print Assumptions C20_no_entry_goes_upstream.

Theorem C20_stored_retention_bounded : forall cfg evs st os k v,
  run cfg state_init evs = Ok (st, os) -> In (k, v) (s_cache st) ->
  retention_bounded cfg v /\
  (forall now qc, v_valid v * 1000 < now - v_created v -> get_response v now qc = None).
Proof. exact stored_retention_bounded. Qed.
Print Assumptions C20_stored_retention_bounded.
