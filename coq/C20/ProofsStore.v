(* C20 -- widening round, second part: what the store can hold.  An entry with
   zero validity is never stored, over all histories (incl. the re-insertions
   of the lookup cascade, in-flight requests and evictions); hence a truncated
   answer (unless cache_truncated), a weird NOERROR answer, an unwalkable
   message and an answer with a zero TTL are never in the store, and every
   stored and every served message has AA clear. *)
From Coq Require Import NArith ZArith List Bool Lia ZifyN ZifyBool ZifyNat.
From DV Require Import Base.Outcome C20.Gen C20.Model C20.ProofsBase C20.ProofsInv C20.ProofsMain.
Import ListNotations.
Local Open Scope N_scope.
Ltac Zify.zify_post_hook ::= Z.div_mod_to_equations.

Definition pos (c : cache) : Prop := forall k v, In (k, v) c -> v_valid v <> 0.

Lemma validity_set_aa cfg m : validity cfg (RMsg (msg_set_aa false m)) = validity cfg (RMsg m).
Proof. destruct m; reflexivity. Qed.

Lemma cache_insert_pos cfg k v c c' :
  validity cfg (v_resp v) = Ok (v_valid v) -> pos c -> cache_insert cfg k v c = Ok c' -> pos c'.
Proof.
  intros Hv Hp. unfold cache_insert. change insert_skips_zero with true. cbn [andb].
  destruct (N.eqb_spec (v_valid v) 0) as [Z|Z]; [intros [= <-]; exact Hp|].
  assert (U : update_message cfg v m_aa (pure (msg_set_aa false)) = Ok v \/
              exists m, v_resp v = RMsg m /\
                update_message cfg v m_aa (pure (msg_set_aa false)) =
                Ok (mkValue (v_created v) (v_valid v) (RMsg (msg_set_aa false m)))).
  { unfold update_message, pure. destruct (v_resp v) as [m|e] eqn:R; [|now left].
    destruct (m_aa m); [|now left]. right. exists m. split; [reflexivity|].
    cbn [bind]. rewrite validity_set_aa, Hv. reflexivity. }
  destruct U as [->|(m & _ & ->)]; intros [= <-]; intros k1 v1 H1; apply cinsert_In in H1;
    (destruct H1 as [[= -> ->]|H1]; [|eapply Hp; exact H1]); [exact Z|cbn [v_valid]; exact Z].
Qed.

Lemma lookup_ad_pos cfg L k c r :
  invC cfg L c -> pos c -> cache_lookup_ad cfg k c = Ok r -> pos (fst r).
Proof.
  intros I Hp. unfold cache_lookup_ad.
  destruct (cget k c) as [v|] eqn:G; [intros [= <-]; exact Hp|].
  destruct (addo_ad (k_addo k)); [intros [= <-]; exact Hp|].
  rewrite gen_alt_ad, gen_ad_fix.
  destruct (cget (key_set_addo k AdDo_Ad) c) as [v|] eqn:G2; [|intros [= <-]; exact Hp].
  pose proof (I _ _ (cget_In _ _ _ G2)) as P.
  destruct (update_message cfg v m_ad (pure (msg_set_ad false))) as [v'|e| |] eqn:U; cbn [try_];
    try discriminate; [|intros [= <-]; exact Hp].
  destruct (cache_insert cfg k v' c) as [c'| | |] eqn:CI; cbn [bind]; try discriminate.
  intros [= <-]. cbn [fst].
  destruct (update_message_spec cfg v m_ad _ (msg_set_ad false) v' (prov_valid _ _ _ _ P)
              (pure_spec _) (fun m => set_ad_noop m) U) as (_ & _ & V').
  eapply cache_insert_pos; eassumption.
Qed.

Lemma lookup_do_ad_pos cfg L k c r :
  invC cfg L c -> pos c -> cache_lookup_do_ad cfg k c = Ok r -> pos (fst r).
Proof.
  intros I Hp. unfold cache_lookup_do_ad.
  destruct (cache_lookup_ad cfg k c) as [[c1 res]| | |] eqn:LA; cbn [bind]; try discriminate.
  destruct (lookup_ad_inv cfg L k c _ I LA) as [I1 _]; cbn [fst] in I1.
  pose proof (lookup_ad_pos cfg L k c _ I Hp LA) as Hp1; cbn [fst] in Hp1.
  destruct res as [v| |e]; [intros [= <-]; exact Hp1| |intros [= <-]; exact Hp1].
  destruct (addo_do (k_addo k)); [intros [= <-]; exact Hp1|].
  destruct (is_dnssec (k_type k)); [intros [= <-]; exact Hp1|].
  rewrite gen_alt_do.
  destruct (cget (key_set_addo k AdDo_Do) c1) as [v|] eqn:G2; [|intros [= <-]; exact Hp1].
  pose proof (I1 _ _ (cget_In _ _ _ G2)) as P.
  destruct (update_message cfg v (fun _ => true) (remove_dnssec_o (addo_ad (k_addo k)))) as [v'|e| |] eqn:U;
    try discriminate.
  - destruct (cache_insert cfg k v' c1) as [c2| | |] eqn:CI; cbn [bind]; try discriminate.
    intros [= <-]. cbn [fst].
    destruct (update_message_spec cfg v _ _ (remove_dnssec (addo_ad (k_addo k))) v' (prov_valid _ _ _ _ P)
               (strip_spec _) (fun m (H : true = false) => False_ind _ (diff_true_false H)) U) as (_ & _ & V').
    eapply cache_insert_pos; eassumption.
  - destruct strip_failure_is_miss; intros [= <-]; exact Hp1.
Qed.

Lemma lookup_pos cfg L k c r :
  invC cfg L c -> pos c -> cache_lookup cfg k c = Ok r -> pos (fst r).
Proof.
  intros I Hp. unfold cache_lookup, cache_lookup_rd_do_ad.
  destruct (cache_lookup_do_ad cfg k c) as [[c1 res]| | |] eqn:LA; cbn [bind]; try discriminate.
  destruct (lookup_do_ad_inv cfg L k c _ I LA) as [I1 _]; cbn [fst] in I1.
  pose proof (lookup_do_ad_pos cfg L k c _ I Hp LA) as Hp1; cbn [fst] in Hp1.
  destruct res as [v| |e]; [intros [= <-]; exact Hp1| |intros [= <-]; exact Hp1].
  destruct (k_rd k); [intros [= <-]; exact Hp1|].
  rewrite gen_alt_rd, gen_rd_fix.
  destruct (cache_lookup_do_ad cfg (key_set_rd k true) c1) as [[c2 res2]| | |] eqn:LB; cbn [bind]; try discriminate.
  destruct (lookup_do_ad_inv cfg L _ c1 _ I1 LB) as [I2 P2]; cbn [fst snd] in I2, P2.
  pose proof (lookup_do_ad_pos cfg L _ c1 _ I1 Hp1 LB) as Hp2; cbn [fst] in Hp2.
  destruct res2 as [v| |e]; [|intros [= <-]; exact Hp2|intros [= <-]; exact Hp2].
  destruct (update_message cfg v (fun _ => true) (pure (msg_set_rd false))) as [v'|e| |] eqn:U; cbn [try_];
    try discriminate; [|intros [= <-]; exact Hp2].
  destruct (cache_insert cfg k v' c2) as [c3| | |] eqn:CI; cbn [bind]; try discriminate.
  intros [= <-]. cbn [fst].
  destruct (update_message_spec cfg v _ _ (msg_set_rd false) v' (prov_valid _ _ _ _ P2)
             (pure_spec _) (fun m (H : true = false) => False_ind _ (diff_true_false H)) U) as (_ & _ & V').
  eapply cache_insert_pos; eassumption.
Qed.

Lemma start_pos cfg st k op qc now st' sr :
  inv cfg st -> pos (s_cache st) -> start cfg st k op qc now = Ok (st', sr) -> pos (s_cache st').
Proof.
  intros I Hp. unfold start.
  destruct (negb ((op =? 0) && (k_class k =? class_in))); [intros [= <- _]; exact Hp|].
  destruct (cache_lookup cfg k (s_cache st)) as [[c1 res]| | |] eqn:LK; cbn [bind]; try discriminate.
  pose proof (lookup_pos cfg _ k _ _ I Hp LK) as Hp1; cbn [fst] in Hp1.
  destruct res as [v| |e].
  - destruct (get_response v now qc) as [[s|e| |]|]; try discriminate; intros [= <- _]; exact Hp1.
  - intros [= <- _]; exact Hp1.
  - intros [= <- _]; exact Hp1.
Qed.

Lemma finish_pos cfg st k t u st' o :
  pos (s_cache st) -> finish cfg st k t u = Ok (st', o) -> pos (s_cache st').
Proof.
  intros Hp. unfold finish.
  destruct (validity cfg u) as [val|e| |] eqn:V; try discriminate.
  - destruct (cache_insert cfg k (mkValue t val u) (s_cache st)) as [c2| | |] eqn:CI; cbn [bind]; try discriminate.
    intros [= <- _]. cbn [s_cache]. eapply (cache_insert_pos cfg k (mkValue t val u)); [exact V|exact Hp|exact CI].
  - intros [= <- _]. exact Hp.
Qed.

Lemma step_pos cfg st ev st' o :
  inv cfg st -> pos (s_cache st) -> step cfg st ev = Ok (st', o) -> pos (s_cache st').
Proof.
  intros I Hp. destruct ev as [k op qc now delay u|k op qc now|k t u|n]; cbn [step].
  - destruct (start cfg st k op qc now) as [[st1 sr]| | |] eqn:S; cbn [bind]; try discriminate.
    pose proof (start_pos _ _ _ _ _ _ _ _ I Hp S) as Hp1.
    destruct sr; try (intros [= <- _]; exact Hp1).
    intros F. apply (finish_pos _ _ _ _ _ _ _ Hp1 F).
  - destruct (start cfg st k op qc now) as [[st1 sr]| | |] eqn:S; cbn [bind]; try discriminate.
    pose proof (start_pos _ _ _ _ _ _ _ _ I Hp S) as Hp1. intros [= <- _]; exact Hp1.
  - intros F. apply (finish_pos _ _ _ _ _ _ _ Hp F).
  - intros [= <- _]. cbn [s_cache]. intros k v H. eapply Hp. eapply evict_In; exact H.
Qed.

Lemma run_pos cfg evs : forall st st' os, inv cfg st -> pos (s_cache st) ->
  run cfg st evs = Ok (st', os) -> pos (s_cache st').
Proof.
  induction evs as [|e t IH]; intros st st' os I Hp; cbn [run].
  - intros [= <- _]; exact Hp.
  - destruct (step cfg st e) as [[st1 o]| | |] eqn:S; cbn [bind]; try discriminate.
    destruct (run cfg st1 t) as [[st2 os2]| | |] eqn:R; cbn [bind]; try discriminate.
    intros [= <- _]. eapply IH; [eapply step_inv; eassumption|eapply step_pos; eassumption|exact R].
Qed.

(* ---------- the theorems ------------------------------------------------------------------- *)
Lemma zero_validity_never_stored cfg evs st os k v :
  run cfg state_init evs = Ok (st, os) -> In (k, v) (s_cache st) ->
  v_valid v <> 0 /\ validity cfg (v_resp v) = Ok (v_valid v).
Proof.
  intros R H. split.
  - assert (P0 : pos (s_cache state_init)) by (intros k1 v1 []).
    exact (run_pos cfg evs _ _ _ (inv_init cfg) P0 R k v H).
  - pose proof (run_inv cfg evs _ _ _ (inv_init cfg) R) as I. exact (prov_valid _ _ _ _ (I _ _ H)).
Qed.

Lemma stored_entries_cacheable cfg evs st os k v m :
  run cfg state_init evs = Ok (st, os) -> In (k, v) (s_cache st) -> v_resp v = RMsg m ->
  (m_tc m = true -> c_trunc cfg = true) /\ m_broken m = false /\ m_aa m = false /\
  (opt_rcode m = 0 -> classify_no_error m <> Ok Weird) /\
  (forall y, counted m y -> 1 <= r_ttl y) /\
  v_valid v <= c_maxv cfg.
Proof.
  intros R H Hm. destruct (zero_validity_never_stored _ _ _ _ _ _ R H) as [Z V].
  pose proof (run_inv cfg evs _ _ _ (inv_init cfg) R) as I.
  destruct (I _ _ H) as (k0 & t0 & u0 & x & _ & _ & Hr & _ & _).
  rewrite Hm in V. pose proof V as V0. unfold validity in V0.
  destruct (m_tc m && negb (c_trunc cfg)) eqn:T; [injection V0 as V0; congruence|].
  destruct (m_broken m) eqn:B; [discriminate|].
  destruct (validity_msg_bound _ _ _ V) as [Bt Bc].
  split; [intros Ht; rewrite Ht in T; destruct (c_trunc cfg); [reflexivity|discriminate]|].
  split; [reflexivity|].
  split; [rewrite Hm in Hr; destruct u0 as [m0|e0]; [injection Hr as ->; reflexivity|discriminate]|].
  split.
  - intros Hrc Hw. destruct Bc as [Bc|(cap & Hc & Hle)]; [congruence|].
    destruct (class_cap_spec _ _ _ Hc) as (_ & _ & _ & _ & _ & H6). specialize (H6 Hrc Hw). lia.
  - split; [intros y Hy; specialize (Bt _ Hy); lia|]. eapply validity_le_maxv; exact V.
Qed.

Lemma served_not_authoritative cfg st ev k now qc st' m :
  request_of ev = Some (k, now, qc) ->
  inv cfg st -> step cfg st ev = Ok (st', OServed (RMsg m)) -> m_aa m = false.
Proof.
  intros Hq I S. destruct (served_master _ _ _ _ _ _ _ _ I Hq S) as [F|[_ (e & E & _)]]; [|discriminate E].
  destruct F as (k0 & t0 & u0 & x & val & _ & _ & _ & _ & [D|[E _]]); [|discriminate E].
  apply decrement_ok in D. destruct D as (E & _).
  destruct u0 as [m0|e0]; [|discriminate E]. injection E as ->. reflexivity.
Qed.

(* ---------- non-vacuity ------------------------------------------------------------------------ *)
Definition sk : key := key_of_request 1 1 1 true false false false.
Definition sA (ttl id : N) := mkRR 1 1 ttl id false.
Definition s_trunc : resp := RMsg (mkMsg 7 0 false true true false (Some (1, 1)) 1 [sA 300 1] [] [] false).
Definition s_zero : resp := RMsg (mkMsg 7 0 false false true false (Some (1, 1)) 1 [sA 0 1] [] [] false).
Definition s_weird : resp := RMsg (mkMsg 7 0 false false true false (Some (1, 1)) 1 [] [] [] false).
Definition s_good : resp := RMsg (mkMsg 7 0 true false true false (Some (1, 1)) 1 [sA 300 1] [] [] false).

Example ex_not_storable :
  (do r <- run config_default state_init
     [EQuery sk 0 1 0 0 s_trunc; EQuery sk 0 1 0 0 s_zero; EQuery sk 0 1 0 0 s_weird]; Ok (s_cache (fst r), snd r))
  = Ok ([], [OForwarded; OForwarded; OForwarded]).
Proof. vm_compute. reflexivity. Qed.

Example ex_stored_aa_clear :
  (do r <- run config_default state_init [EQuery sk 0 1 0 0 s_good]; Ok (s_cache (fst r)))
  = Ok [(sk, mkValue 0 300 (RMsg (mkMsg 7 0 false false true false (Some (1, 1)) 1 [sA 300 1] [] [] false)))].
Proof. vm_compute. reflexivity. Qed.

(* ---------- no entry for the question (whatever the flags): the request goes upstream ----------- *)
Definition no_entry_for (k : key) (c : cache) : Prop :=
  forall k1 v1, In (k1, v1) c -> ~ same_question k1 k.

Lemma cget_no_entry k k' c : no_entry_for k c -> same_question k' k -> cget k' c = None.
Proof.
  intros N Q. destruct (cget k' c) as [v|] eqn:G; [|reflexivity].
  destruct (N _ _ (cget_In _ _ _ G) Q).
Qed.

Lemma same_question_refl k : same_question k k.
Proof. unfold same_question; auto. Qed.
Lemma same_question_addo k a : same_question (key_set_addo k a) k.
Proof. unfold same_question; cbn; auto. Qed.
Lemma same_question_rd k b : same_question (key_set_rd k b) k.
Proof. unfold same_question; cbn; auto. Qed.

Lemma lookup_ad_none cfg k k' c : no_entry_for k c -> same_question k' k ->
  cache_lookup_ad cfg k' c = Ok (c, LNone).
Proof.
  intros N Q. unfold cache_lookup_ad. rewrite (cget_no_entry k k' c N Q).
  destruct (addo_ad (k_addo k')); [reflexivity|].
  rewrite (cget_no_entry k _ c N); [reflexivity|].
  destruct Q as (Q1 & Q2 & Q3); unfold same_question; cbn; auto.
Qed.

Lemma lookup_do_ad_none cfg k k' c : no_entry_for k c -> same_question k' k ->
  cache_lookup_do_ad cfg k' c = Ok (c, LNone).
Proof.
  intros N Q. unfold cache_lookup_do_ad. rewrite (lookup_ad_none cfg k k' c N Q). cbn [bind].
  destruct (addo_do (k_addo k')); [reflexivity|].
  destruct (is_dnssec (k_type k')); [reflexivity|].
  rewrite (cget_no_entry k _ c N); [reflexivity|].
  destruct Q as (Q1 & Q2 & Q3); unfold same_question; cbn; auto.
Qed.

Lemma lookup_none cfg k c : no_entry_for k c -> cache_lookup cfg k c = Ok (c, LNone).
Proof.
  intros N. unfold cache_lookup, cache_lookup_rd_do_ad.
  rewrite (lookup_do_ad_none cfg k k c N (same_question_refl k)). cbn [bind].
  destruct (k_rd k); [reflexivity|].
  rewrite (lookup_do_ad_none cfg k _ c N (same_question_rd k alt_rd)). reflexivity.
Qed.

Lemma no_entry_goes_upstream cfg st k qc now :
  k_class k = class_in -> no_entry_for k (s_cache st) ->
  (forall delay u, step cfg st (EQuery k 0 qc now delay u) = finish cfg st k (now + delay) u) /\
  step cfg st (EStart k 0 qc now) = Ok (st, OPending) /\
  (forall delay u st' o, step cfg st (EQuery k 0 qc now delay u) = Ok (st', o) ->
     forwarded o /\ s_log st' = (k, now + delay, u) :: s_log st).
Proof.
  intros Hc N.
  assert (S : start cfg st k 0 qc now = Ok (st, SMiss)).
  { unfold start. rewrite Hc, !N.eqb_refl. cbn [andb negb].
    rewrite (lookup_none cfg k _ N). cbn [bind]. destruct st; reflexivity. }
  assert (Q : forall delay u, step cfg st (EQuery k 0 qc now delay u) = finish cfg st k (now + delay) u).
  { intros delay u. cbn [step]. rewrite S. reflexivity. }
  split; [exact Q|]. split; [cbn [step]; rewrite S; reflexivity|].
  intros delay u st' o. rewrite Q. unfold finish.
  destruct (validity cfg u) as [val|e| |]; try discriminate.
  - destruct (cache_insert cfg k (mkValue (now + delay) val u) (s_cache st)) as [c2| | |]; cbn [bind]; try discriminate.
    intros [= <- <-]. split; [left; reflexivity|reflexivity].
  - intros [= <- <-]. split; [right; eauto|reflexivity].
Qed.

Example ex_no_entry_first_query :
  no_entry_for sk (s_cache state_init) /\
  exists st', step config_default state_init (EQuery sk 0 1 0 0 s_good) = Ok (st', OForwarded).
Proof. split; [intros k1 v1 []|eexists; vm_compute; reflexivity]. Qed.

(* an entry for another question (here: another name) does not answer *)
Example ex_no_entry_other_name :
  (do r <- run config_default state_init
     [EQuery sk 0 1 0 0 s_good; EQuery (key_of_request 2 1 1 true false false false) 0 1 1 0 s_good]; Ok (snd r))
  = Ok [OForwarded; OForwarded].
Proof. vm_compute. reflexivity. Qed.

(* ---------- retention: the validity of every stored entry is within the bound of its class ------- *)
Definition retention_bounded (cfg : config) (v : value) : Prop :=
  match v_resp v with
  | RErr _ => v_valid v = c_tf cfg
  | RMsg m =>
      v_valid v <= c_maxv cfg /\
      (opt_rcode m = 3 -> v_valid v <= c_nx cfg) /\
      (opt_rcode m <> 0 -> opt_rcode m <> 3 -> v_valid v <= c_misc cfg) /\
      (opt_rcode m = 0 -> classify_no_error m = Ok NoData -> v_valid v <= c_nodata cfg) /\
      (opt_rcode m = 0 -> classify_no_error m = Ok Delegation -> v_valid v <= c_deleg cfg) /\
      (forall y, counted m y -> v_valid v <= r_ttl y)
  end.

Lemma stored_retention_bounded cfg evs st os k v :
  run cfg state_init evs = Ok (st, os) -> In (k, v) (s_cache st) ->
  retention_bounded cfg v /\
  (forall now qc, v_valid v * 1000 < now - v_created v -> get_response v now qc = None).
Proof.
  intros R H. split; [|intros now qc; apply expired_entry_not_served].
  destruct (zero_validity_never_stored _ _ _ _ _ _ R H) as [Z V].
  unfold retention_bounded. destruct (v_resp v) as [m|e].
  - destruct (validity_msg_bound _ _ _ V) as [Bt [Bc|(cap & Hc & Hle)]]; [congruence|].
    destruct (class_cap_spec _ _ _ Hc) as (H1 & H2 & H3 & H4 & H5 & _).
    repeat split.
    + lia.
    + intros Hr; specialize (H2 Hr); lia.
    + intros Hr Hr'; specialize (H3 Hr Hr'); lia.
    + intros Hr Hcl; specialize (H4 Hr Hcl); lia.
    + intros Hr Hcl; specialize (H5 Hr Hcl); lia.
    + exact Bt.
  - cbn [validity] in V. rewrite gen_cap_failure in V. injection V as V. congruence.
Qed.

Definition s_nx : resp := RMsg (mkMsg 7 3 false false true false (Some (1, 1)) 1 [] [mkRR 6 1 86400 5 false] [] false).
Example ex_retention :
  (do r <- run config_default state_init [EQuery sk 0 1 0 0 s_nx; EEvict 5;
        EQuery (key_of_request 2 1 1 true false false false) 0 1 0 0 (RErr 3)];
   Ok (map (fun e => v_valid (snd e)) (s_cache (fst r))))
  = Ok [30; 3600].
Proof. vm_compute. reflexivity. Qed.
