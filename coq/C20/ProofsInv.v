(* C20 -- provenance invariant of the store: every entry is a transformation
   (clear AA / RD / AD, strip DNSSEC) of a logged upstream answer for a
   compatible key, created when that answer arrived, with its validity
   recomputed from its own content. *)
From Coq Require Import NArith ZArith List Bool Lia ZifyN ZifyBool ZifyNat.
From DV Require Import Base.Outcome C20.Gen C20.Model C20.ProofsBase.
Import ListNotations.
Local Open Scope N_scope.

(* ---------- transformations --------------------------------------------------- *)
Record xf := mkXf { x_rd : bool; x_ad : bool; x_strip : bool }.

Definition xform (x : xf) (m : msg) : msg :=
  mkMsg (m_rcode m) false (m_tc m)
        (if x_rd x then false else m_rd m) (if x_ad x then false else m_ad m) (m_q m)
        (if x_strip x then filter keep_rr (m_an m) else m_an m)
        (if x_strip x then filter keep_rr (m_ns m) else m_ns m)
        (if x_strip x then filter keep_rr (m_ar m) else m_ar m).

Definition map_resp (f : msg -> msg) (r : resp) : resp :=
  match r with RMsg m => RMsg (f m) | RErr e => RErr e end.
Definition xform_resp (x : xf) : resp -> resp := map_resp (xform x).
Definition xid : xf := mkXf false false false.
Definition resp_ad (r : resp) : bool := match r with RMsg m => m_ad m | RErr _ => false end.

Lemma filter_idem {A} (f : A -> bool) l : filter f (filter f l) = filter f l.
Proof.
  induction l as [|a t IH]; [reflexivity|]. cbn [filter].
  destruct (f a) eqn:E; cbn [filter]; [rewrite E, IH; reflexivity|exact IH].
Qed.

Lemma xform_set_aa x m : msg_set_aa false (xform x m) = xform x m.
Proof. reflexivity. Qed.
Lemma xform_set_rd x m : msg_set_rd false (xform x m) = xform (mkXf true (x_ad x) (x_strip x)) m.
Proof. unfold msg_set_rd, xform; cbn. reflexivity. Qed.
Lemma xform_set_ad x m : msg_set_ad false (xform x m) = xform (mkXf (x_rd x) true (x_strip x)) m.
Proof. unfold msg_set_ad, xform; cbn. reflexivity. Qed.
Lemma xform_strip x m (ad : bool) :
  remove_dnssec ad (xform x m) = xform (mkXf (x_rd x) (if ad then x_ad x else true) true) m.
Proof.
  unfold remove_dnssec, xform; cbn.
  destruct (x_strip x); rewrite ?filter_idem; destruct ad, (x_ad x); reflexivity.
Qed.
Lemma xform_xid_raw m : m_aa m = false -> xform xid m = m.
Proof. destruct m; cbn; intros ->; reflexivity. Qed.
Lemma set_aa_is_xid m : msg_set_aa false m = xform xid m.
Proof. reflexivity. Qed.
Lemma set_ad_noop m : m_ad m = false -> msg_set_ad false m = m.
Proof. destruct m; cbn; intros ->; reflexivity. Qed.
Lemma set_aa_noop m : m_aa m = false -> msg_set_aa false m = m.
Proof. destruct m; cbn; intros ->; reflexivity. Qed.

(* ---------- validity never fails on a transformed message if it did not on the
   original: success depends only on (tc, rcode, question) ------------------------ *)
Definition shape (m : msg) := (m_tc m, m_rcode m, m_q m).

Lemma classify_ok_shape m m' : m_q m = m_q m' ->
  (exists c, classify_no_error m = Ok c) -> exists c, classify_no_error m' = Ok c.
Proof.
  unfold classify_no_error; intros <-.
  destruct (m_q m) as [[qt qc]|].
  - intros _. destruct (existsb _ (m_an m')); eauto.
  - destruct classify_expects_question; [intros [c H]; discriminate|eauto].
Qed.

Lemma validity_ok_shape cfg m m' : shape m = shape m' ->
  (exists v, validity cfg (RMsg m) = Ok v) -> exists v, validity cfg (RMsg m') = Ok v.
Proof.
  unfold shape; intros [= Htc Hrc Hq]. unfold validity; rewrite <- Htc.
  destruct (m_tc m && negb (c_trunc cfg)); [eauto|].
  unfold class_cap; rewrite <- Hrc.
  destruct (m_rcode m) as [|p].
  - intros [v H].
    destruct (classify_no_error m) as [c| | |] eqn:C; cbn [bind] in H; try discriminate.
    destruct (classify_ok_shape m m' Hq (ex_intro _ c C)) as [c' ->]. cbn [bind]. eauto.
  - intros _. destruct p as [[]|[]|]; cbn [bind]; eauto.
Qed.

Lemma shape_xform x m : shape (xform x m) = shape m.
Proof. reflexivity. Qed.

(* ---------- compatibility of keys, provenance ------------------------------------- *)
Definition compat (k0 k : key) (x : xf) (u0 : resp) : Prop :=
  k_name k0 = k_name k /\ k_class k0 = k_class k /\ k_type k0 = k_type k /\ k_cd k0 = k_cd k /\
  (k_rd k = true -> k_rd k0 = true) /\
  (k_addo k = AdDo_Do -> k_addo k0 = AdDo_Do) /\
  (k_addo k = AdDo_Ad -> k_addo k0 <> AdDo_None) /\
  (x_rd x = true -> k_rd k = false) /\
  (x_strip x = true -> k_addo k <> AdDo_Do /\ is_dnssec (k_type k) = false) /\
  (x_ad x = true -> k_addo k = AdDo_None) /\
  (k_addo k0 = AdDo_Do -> k_addo k <> AdDo_Do -> x_strip x = true) /\
  (k_addo k = AdDo_None -> k_addo k0 <> AdDo_None -> resp_ad (xform_resp x u0) = false).

Definition ulog := list (key * N * resp).

Definition prov (cfg : config) (L : ulog) (k : key) (v : value) : Prop :=
  exists k0 t0 u0 x,
    In (k0, t0, u0) L /\ v_created v = t0 /\ v_resp v = xform_resp x u0 /\
    compat k0 k x u0 /\ validity cfg (v_resp v) = Ok (v_valid v).

Definition invC (cfg : config) (L : ulog) (c : cache) : Prop :=
  forall k v, In (k, v) c -> prov cfg L k v.

Lemma prov_mono cfg L e k v : prov cfg L k v -> prov cfg (e :: L) k v.
Proof. intros (k0 & t0 & u0 & x & H & R); exists k0, t0, u0, x; split; [now right|exact R]. Qed.

Lemma compat_refl k u : compat k k xid u.
Proof. unfold compat, xid; cbn; repeat split; try congruence; try discriminate. Qed.

(* ---------- update_message / cache_insert ----------------------------------------------- *)
Lemma update_message_spec cfg v tst f v' :
  validity cfg (v_resp v) = Ok (v_valid v) ->
  (forall m, tst m = false -> f m = m) ->
  update_message cfg v tst f = Ok v' ->
  v_created v' = v_created v /\ v_resp v' = map_resp f (v_resp v) /\
  validity cfg (v_resp v') = Ok (v_valid v').
Proof.
  intros Hv Hid. unfold update_message.
  destruct (v_resp v) as [m|e] eqn:R.
  - destruct (tst m) eqn:T.
    + destruct (validity cfg (RMsg (f m))) as [val| | |] eqn:V; cbn [bind]; try discriminate.
      intros [= <-]; cbn [v_created v_valid v_resp map_resp]. auto.
    + intros [= <-]. rewrite R; cbn [map_resp]. rewrite (Hid _ T). auto.
  - intros [= <-]. rewrite R; cbn [map_resp]. auto.
Qed.

Lemma update_message_total cfg v tst f :
  (exists val, validity cfg (v_resp v) = Ok val) ->
  (forall m, shape (f m) = shape m) ->
  exists v', update_message cfg v tst f = Ok v'.
Proof.
  intros Hv Hs. unfold update_message.
  destruct (v_resp v) as [m|e]; [|eauto].
  destruct (tst m); [|eauto].
  destruct (validity_ok_shape cfg m (f m) (eq_sym (Hs m)) Hv) as [val ->]. cbn [bind]. eauto.
Qed.

Lemma cache_insert_spec cfg k v c c' :
  validity cfg (v_resp v) = Ok (v_valid v) ->
  cache_insert cfg k v c = Ok c' ->
  c' = c \/ exists v', c' = cinsert k v' c /\ v_created v' = v_created v /\
                       v_resp v' = map_resp (msg_set_aa false) (v_resp v) /\
                       validity cfg (v_resp v') = Ok (v_valid v').
Proof.
  intros Hv. unfold cache_insert.
  destruct (insert_skips_zero && (v_valid v =? 0)); [intros [= <-]; now left|].
  destruct (update_message cfg v m_aa (msg_set_aa false)) as [v'| | |] eqn:U; cbn [bind]; try discriminate.
  intros [= <-]. right. exists v'. split; [reflexivity|].
  apply (update_message_spec cfg v m_aa (msg_set_aa false) v' Hv); [|exact U].
  intros m; apply set_aa_noop.
Qed.

Lemma cache_insert_total cfg k v c :
  (exists val, validity cfg (v_resp v) = Ok val) -> exists c', cache_insert cfg k v c = Ok c'.
Proof.
  intros Hv. unfold cache_insert.
  destruct (insert_skips_zero && (v_valid v =? 0)); [eauto|].
  destruct (update_message_total cfg v m_aa (msg_set_aa false) Hv) as [v' ->]; [reflexivity|].
  cbn [bind]. eauto.
Qed.

Lemma map_set_aa_xform x u : map_resp (msg_set_aa false) (xform_resp x u) = xform_resp x u.
Proof. destruct u; reflexivity. Qed.

(* inserting a value that already has provenance keeps the invariant *)
Lemma cache_insert_inv cfg L k v c c' :
  invC cfg L c -> prov cfg L k v -> cache_insert cfg k v c = Ok c' -> invC cfg L c'.
Proof.
  intros I P H.
  destruct P as (k0 & t0 & u0 & x & Hin & Hc & Hr & Hk & Hv).
  destruct (cache_insert_spec _ _ _ _ _ Hv H) as [->|(v' & -> & C' & R' & V')]; [exact I|].
  intros k1 v1 H1. apply cinsert_In in H1. destruct H1 as [[= -> ->]|H1]; [|auto].
  exists k0, t0, u0, x. rewrite Hr, map_set_aa_xform in R'.
  split; [exact Hin|]. split; [congruence|]. split; [exact R'|]. split; [exact Hk|exact V'].
Qed.

(* inserting the fresh upstream answer *)
Lemma cache_insert_fresh cfg L k t val u c c' :
  invC cfg L c -> validity cfg u = Ok val ->
  cache_insert cfg k (mkValue t val u) c = Ok c' -> invC cfg ((k, t, u) :: L) c'.
Proof.
  intros I Hv H.
  destruct (cache_insert_spec cfg k (mkValue t val u) c c' Hv H) as [->|(v' & -> & C' & R' & V')].
  - intros k1 v1 H1; apply prov_mono; auto.
  - intros k1 v1 H1. apply cinsert_In in H1. destruct H1 as [[= -> ->]|H1]; [|apply prov_mono; auto].
    exists k, t, u, xid. cbn in C', R'.
    split; [now left|]. split; [exact C'|]. split; [|split; [apply compat_refl|exact V']].
    rewrite R'. destruct u; reflexivity.
Qed.

(* ---------- the three steps of the cascade preserve provenance --------------------------- *)
Lemma prov_ad_step cfg L k v v' :
  prov cfg L (key_set_addo k AdDo_Ad) v -> k_addo k = AdDo_None ->
  v_created v' = v_created v -> v_resp v' = map_resp (msg_set_ad false) (v_resp v) ->
  validity cfg (v_resp v') = Ok (v_valid v') -> prov cfg L k v'.
Proof.
  intros (k0 & t0 & u0 & x & Hin & Hc & Hr & Hk & Hv) Ha C' R' V'.
  exists k0, t0, u0, (mkXf (x_rd x) true (x_strip x)).
  split; [exact Hin|]. split; [congruence|]. split.
  - rewrite R', Hr. destruct u0; cbn; [rewrite xform_set_ad|]; reflexivity.
  - split; [|exact V'].
    unfold compat in *; cbn [key_set_addo k_name k_class k_type k_addo k_cd k_rd x_rd x_ad x_strip] in *.
    destruct Hk as (H1 & H2 & H3 & H4 & H5 & H6 & H7 & H8 & H9 & H10 & H11 & H12).
    rewrite Ha. repeat split; try assumption; try congruence; try discriminate.
    + destruct (H9 H); assumption.
    + intros Hd _. apply H11; [exact Hd|discriminate].
    + intros _ _. destruct u0; reflexivity.
Qed.

Lemma prov_do_step cfg L k v v' :
  prov cfg L (key_set_addo k AdDo_Do) v -> k_addo k <> AdDo_Do -> is_dnssec (k_type k) = false ->
  v_created v' = v_created v ->
  v_resp v' = map_resp (remove_dnssec (addo_ad (k_addo k))) (v_resp v) ->
  validity cfg (v_resp v') = Ok (v_valid v') -> prov cfg L k v'.
Proof.
  intros (k0 & t0 & u0 & x & Hin & Hc & Hr & Hk & Hv) Ha Hd C' R' V'.
  exists k0, t0, u0, (mkXf (x_rd x) (if addo_ad (k_addo k) then x_ad x else true) true).
  split; [exact Hin|]. split; [congruence|]. split.
  - rewrite R', Hr. destruct u0; cbn; [rewrite xform_strip|]; reflexivity.
  - split; [|exact V'].
    unfold compat in *; cbn [key_set_addo k_name k_class k_type k_addo k_cd k_rd x_rd x_ad x_strip] in *.
    destruct Hk as (H1 & H2 & H3 & H4 & H5 & H6 & H7 & H8 & H9 & H10 & H11 & H12).
    specialize (H6 eq_refl).
    repeat split; try assumption; try congruence.
    + destruct (k_addo k); cbn; intros H; try congruence. apply H10 in H. discriminate.
    + intros Hn _. rewrite Hn; cbn. destruct u0; reflexivity.
Qed.

Lemma prov_rd_step cfg L k v v' :
  prov cfg L (key_set_rd k true) v -> k_rd k = false ->
  v_created v' = v_created v -> v_resp v' = map_resp (msg_set_rd false) (v_resp v) ->
  validity cfg (v_resp v') = Ok (v_valid v') -> prov cfg L k v'.
Proof.
  intros (k0 & t0 & u0 & x & Hin & Hc & Hr & Hk & Hv) Ha C' R' V'.
  exists k0, t0, u0, (mkXf true (x_ad x) (x_strip x)).
  split; [exact Hin|]. split; [congruence|]. split.
  - rewrite R', Hr. destruct u0; cbn; [rewrite xform_set_rd|]; reflexivity.
  - split; [|exact V'].
    unfold compat in *; cbn [key_set_rd k_name k_class k_type k_addo k_cd k_rd x_rd x_ad x_strip] in *.
    destruct Hk as (H1 & H2 & H3 & H4 & H5 & H6 & H7 & H8 & H9 & H10 & H11 & H12).
    repeat split; try assumption; try congruence.
    + destruct (H9 H); assumption.
    + destruct (H9 H); assumption.
    + intros Hn Hn0. specialize (H12 Hn Hn0). destruct u0; cbn in *; [exact H12|reflexivity].
Qed.

(* ---------- the cascade ------------------------------------------------------------------------- *)
Definition lookup_post cfg L k (r : cache * option value) : Prop :=
  invC cfg L (fst r) /\ forall v, snd r = Some v -> prov cfg L k v.

Lemma prov_valid cfg L k v : prov cfg L k v -> validity cfg (v_resp v) = Ok (v_valid v).
Proof. intros (k0 & t0 & u0 & x & _ & _ & _ & _ & H); exact H. Qed.

Lemma lookup_ad_inv cfg L k c r :
  invC cfg L c -> cache_lookup_ad cfg k c = Ok r -> lookup_post cfg L k r.
Proof.
  intros I. unfold cache_lookup_ad.
  destruct (cget k c) as [v|] eqn:G.
  - intros [= <-]. split; [exact I|]. intros v0 [= <-]. apply I, cget_In, G.
  - destruct (addo_ad (k_addo k)) eqn:A; [intros [= <-]; split; [exact I|discriminate]|].
    rewrite gen_alt_ad, gen_ad_fix.
    destruct (cget (key_set_addo k AdDo_Ad) c) as [v|] eqn:G2; [|intros [= <-]; split; [exact I|discriminate]].
    pose proof (I _ _ (cget_In _ _ _ G2)) as P.
    destruct (update_message cfg v m_ad (msg_set_ad false)) as [v'| | |] eqn:U; cbn [bind]; try discriminate.
    destruct (cache_insert cfg k v' c) as [c'| | |] eqn:CI; cbn [bind]; try discriminate.
    intros [= <-].
    destruct (update_message_spec cfg v m_ad (msg_set_ad false) v' (prov_valid _ _ _ _ P)
                (fun m => set_ad_noop m) U) as (C' & R' & V').
    assert (P' : prov cfg L k v').
    { apply (prov_ad_step cfg L k v v'); try assumption. destruct (k_addo k); try discriminate; reflexivity. }
    split; cbn [fst snd]; [eapply cache_insert_inv; eassumption|intros v0 [= <-]; exact P'].
Qed.

Lemma lookup_do_ad_inv cfg L k c r :
  invC cfg L c -> cache_lookup_do_ad cfg k c = Ok r -> lookup_post cfg L k r.
Proof.
  intros I. unfold cache_lookup_do_ad.
  destruct (cache_lookup_ad cfg k c) as [[c1 ov]| | |] eqn:LA; cbn [bind]; try discriminate.
  destruct (lookup_ad_inv cfg L k c _ I LA) as [I1 P1]; cbn [fst snd] in I1, P1.
  destruct ov as [v|]; [intros [= <-]; split; assumption|].
  destruct (addo_do (k_addo k)) eqn:D; [intros [= <-]; split; [exact I1|discriminate]|].
  destruct (is_dnssec (k_type k)) eqn:Q; [intros [= <-]; split; [exact I1|discriminate]|].
  rewrite gen_alt_do.
  destruct (cget (key_set_addo k AdDo_Do) c1) as [v|] eqn:G2; [|intros [= <-]; split; [exact I1|discriminate]].
  pose proof (I1 _ _ (cget_In _ _ _ G2)) as P.
  destruct (update_message cfg v (fun _ => true) (remove_dnssec (addo_ad (k_addo k)))) as [v'| | |] eqn:U;
    cbn [bind]; try discriminate.
  destruct (cache_insert cfg k v' c1) as [c2| | |] eqn:CI; cbn [bind]; try discriminate.
  intros [= <-].
  destruct (update_message_spec cfg v _ _ v' (prov_valid _ _ _ _ P) (fun m (H : true = false) =>
             False_ind _ (diff_true_false H)) U) as (C' & R' & V').
  assert (P' : prov cfg L k v').
  { apply (prov_do_step cfg L k v v'); try assumption. destruct (k_addo k); try discriminate; congruence. }
  split; cbn [fst snd]; [eapply cache_insert_inv; eassumption|intros v0 [= <-]; exact P'].
Qed.

Lemma key_set_rd_same k : k_rd k = true -> key_set_rd k true = k.
Proof. destruct k; cbn; intros ->; reflexivity. Qed.

Lemma lookup_rd_do_ad_inv cfg L k c r :
  invC cfg L c -> cache_lookup_rd_do_ad cfg k c = Ok r -> lookup_post cfg L k r.
Proof.
  intros I. unfold cache_lookup_rd_do_ad.
  destruct (cache_lookup_do_ad cfg k c) as [[c1 ov]| | |] eqn:LA; cbn [bind]; try discriminate.
  destruct (lookup_do_ad_inv cfg L k c _ I LA) as [I1 P1]; cbn [fst snd] in I1, P1.
  destruct ov as [v|]; [intros [= <-]; split; assumption|].
  destruct (k_rd k) eqn:D; [intros [= <-]; split; [exact I1|discriminate]|].
  rewrite gen_alt_rd, gen_rd_fix.
  destruct (cache_lookup_do_ad cfg (key_set_rd k true) c1) as [[c2 ov2]| | |] eqn:LB; cbn [bind]; try discriminate.
  destruct (lookup_do_ad_inv cfg L _ c1 _ I1 LB) as [I2 P2]; cbn [fst snd] in I2, P2.
  destruct ov2 as [v|]; [|intros [= <-]; split; [exact I2|discriminate]].
  pose proof (P2 _ eq_refl) as P.
  destruct (update_message cfg v (fun _ => true) (msg_set_rd false)) as [v'| | |] eqn:U; cbn [bind]; try discriminate.
  destruct (cache_insert cfg k v' c2) as [c3| | |] eqn:CI; cbn [bind]; try discriminate.
  intros [= <-].
  destruct (update_message_spec cfg v _ _ v' (prov_valid _ _ _ _ P) (fun m (H : true = false) =>
             False_ind _ (diff_true_false H)) U) as (C' & R' & V').
  assert (P' : prov cfg L k v') by (apply (prov_rd_step cfg L k v v'); assumption).
  split; cbn [fst snd]; [eapply cache_insert_inv; eassumption|intros v0 [= <-]; exact P'].
Qed.

(* ---------- totality of the cascade (no panic) ---------------------------------------------------- *)
Lemma prov_valid_ex cfg L k v : prov cfg L k v -> exists val, validity cfg (v_resp v) = Ok val.
Proof. intros P; eexists; eapply prov_valid; exact P. Qed.

Lemma lookup_ad_total cfg L k c : invC cfg L c -> exists r, cache_lookup_ad cfg k c = Ok r.
Proof.
  intros I. unfold cache_lookup_ad.
  destruct (cget k c); [eauto|]. destruct (addo_ad (k_addo k)); [eauto|].
  rewrite gen_alt_ad.
  destruct (cget (key_set_addo k AdDo_Ad) c) as [v|] eqn:G; [|eauto].
  pose proof (I _ _ (cget_In _ _ _ G)) as P.
  destruct (update_message_total cfg v m_ad (msg_set_ad ad_fix_sets) (prov_valid_ex _ _ _ _ P)) as [v' U];
    [reflexivity|].
  rewrite U; cbn [bind].
  assert (Hv' : exists val, validity cfg (v_resp v') = Ok val).
  { rewrite gen_ad_fix in U.
    destruct (update_message_spec cfg v _ _ v' (prov_valid _ _ _ _ P) (fun m => set_ad_noop m) U) as (_ & _ & V').
    eauto. }
  destruct (cache_insert_total cfg k v' c Hv') as [c' ->]. cbn [bind]. eauto.
Qed.

Lemma lookup_do_ad_total cfg L k c : invC cfg L c -> exists r, cache_lookup_do_ad cfg k c = Ok r.
Proof.
  intros I. unfold cache_lookup_do_ad.
  destruct (lookup_ad_total cfg L k c I) as [[c1 ov] LA]. rewrite LA; cbn [bind].
  destruct (lookup_ad_inv cfg L k c _ I LA) as [I1 _]; cbn [fst] in I1.
  destruct ov; [eauto|]. destruct (addo_do (k_addo k)); [eauto|]. destruct (is_dnssec (k_type k)); [eauto|].
  rewrite gen_alt_do.
  destruct (cget (key_set_addo k AdDo_Do) c1) as [v|] eqn:G; [|eauto].
  pose proof (I1 _ _ (cget_In _ _ _ G)) as P.
  destruct (update_message_total cfg v (fun _ => true) (remove_dnssec (addo_ad (k_addo k)))
              (prov_valid_ex _ _ _ _ P)) as [v' U]; [reflexivity|].
  rewrite U; cbn [bind].
  assert (Hv' : exists val, validity cfg (v_resp v') = Ok val).
  { destruct (update_message_spec cfg v _ _ v' (prov_valid _ _ _ _ P) (fun m (H : true = false) =>
               False_ind _ (diff_true_false H)) U) as (_ & _ & V'). eauto. }
  destruct (cache_insert_total cfg k v' c1 Hv') as [c' ->]. cbn [bind]. eauto.
Qed.

Lemma lookup_total cfg L k c : invC cfg L c -> exists r, cache_lookup cfg k c = Ok r.
Proof.
  intros I. unfold cache_lookup, cache_lookup_rd_do_ad.
  destruct (lookup_do_ad_total cfg L k c I) as [[c1 ov] LA]. rewrite LA; cbn [bind].
  destruct (lookup_do_ad_inv cfg L k c _ I LA) as [I1 _]; cbn [fst] in I1.
  destruct ov; [eauto|]. destruct (k_rd k); [eauto|].
  destruct (lookup_do_ad_total cfg L (key_set_rd k alt_rd) c1 I1) as [[c2 ov2] LB]. rewrite LB; cbn [bind].
  destruct (lookup_do_ad_inv cfg L _ c1 _ I1 LB) as [I2 P2]; cbn [fst snd] in I2, P2.
  destruct ov2 as [v|]; [|eauto].
  pose proof (P2 _ eq_refl) as P.
  destruct (update_message_total cfg v (fun _ => true) (msg_set_rd rd_fix_sets)
              (prov_valid_ex _ _ _ _ P)) as [v' U]; [reflexivity|].
  rewrite U; cbn [bind].
  assert (Hv' : exists val, validity cfg (v_resp v') = Ok val).
  { destruct (update_message_spec cfg v _ _ v' (prov_valid _ _ _ _ P) (fun m (H : true = false) =>
               False_ind _ (diff_true_false H)) U) as (_ & _ & V'). eauto. }
  destruct (cache_insert_total cfg k v' c2 Hv') as [c' ->]. cbn [bind]. eauto.
Qed.

(* ---------- states and histories -------------------------------------------------------------------- *)
Definition inv (cfg : config) (st : state) : Prop := invC cfg (s_log st) (s_cache st).

Lemma inv_init cfg : inv cfg state_init.
Proof. intros k v []. Qed.

Lemma step_inv cfg st ev st' o : inv cfg st -> step cfg st ev = Ok (st', o) -> inv cfg st'.
Proof.
  intros I. destruct ev as [k op now delay u|n]; cbn [step].
  - destruct (negb ((op =? 0) && (k_class k =? class_in))); [intros [= <- _]; exact I|].
    destruct (cache_lookup cfg k (s_cache st)) as [[c1 ov]| | |] eqn:LK; cbn [bind]; try discriminate.
    destruct (lookup_rd_do_ad_inv cfg _ k _ _ I LK) as [I1 _]; cbn [fst] in I1.
    destruct (match ov with Some v => get_response v now | None => None end) as [served|].
    + destruct served as [s| | |]; cbn [bind]; try discriminate. intros [= <- _]. exact I1.
    + destruct (validity cfg u) as [val| | |] eqn:V; cbn [bind]; try discriminate.
      destruct (cache_insert cfg k (mkValue (now + delay) val u) c1) as [c2| | |] eqn:CI; cbn [bind]; try discriminate.
      intros [= <- _]. unfold inv; cbn [s_cache s_log].
      eapply cache_insert_fresh; eassumption.
  - intros [= <- _]. unfold inv; cbn [s_cache s_log]. intros k v H. apply I. eapply evict_In; exact H.
Qed.

Lemma run_inv cfg evs : forall st st' os, inv cfg st -> run cfg st evs = Ok (st', os) -> inv cfg st'.
Proof.
  induction evs as [|e t IH]; intros st st' os I; cbn [run].
  - intros [= <- _]; exact I.
  - destruct (step cfg st e) as [[st1 o]| | |] eqn:S; cbn [bind]; try discriminate.
    destruct (run cfg st1 t) as [[st2 os2]| | |] eqn:R; cbn [bind]; try discriminate.
    intros [= <- _]. eapply IH; [eapply step_inv; eassumption|exact R].
Qed.

(* the ghost log is the history: each entry is a forwarded QUERY/IN request of it *)
Definition logged (evs : list event) (os : list obs) (e : key * N * resp) : Prop :=
  exists i now delay,
    nth_error evs i = Some (EQuery (fst (fst e)) 0 now delay (snd e)) /\
    snd (fst e) = now + delay /\ nth_error os i = Some OForwarded.

Lemma step_log cfg st ev st' o e :
  step cfg st ev = Ok (st', o) -> In e (s_log st') ->
  In e (s_log st) \/ (o = OForwarded /\ exists now delay,
     ev = EQuery (fst (fst e)) 0 now delay (snd e) /\ snd (fst e) = now + delay).
Proof.
  destruct ev as [k op now delay u|n]; cbn [step].
  - destruct (negb ((op =? 0) && (k_class k =? class_in))) eqn:B; [intros [= <- _]; now left|].
    destruct (cache_lookup cfg k (s_cache st)) as [[c1 ov]| | |]; cbn [bind]; try discriminate.
    destruct (match ov with Some v => get_response v now | None => None end) as [served|].
    + destruct served as [s| | |]; cbn [bind]; try discriminate. intros [= <- _]; now left.
    + destruct (validity cfg u) as [val| | |]; cbn [bind]; try discriminate.
      destruct (cache_insert cfg k _ c1) as [c2| | |]; cbn [bind]; try discriminate.
      intros [= <- <-]; cbn [s_log]. intros [<-|H]; [right|now left].
      split; [reflexivity|]. exists now, delay; cbn [fst snd]. split; [|reflexivity].
      apply negb_false_iff, andb_true_iff in B. destruct B as [B _]. apply N.eqb_eq in B. subst; reflexivity.
  - intros [= <- _]; now left.
Qed.

Lemma run_log cfg evs : forall st st' os e,
  run cfg st evs = Ok (st', os) -> In e (s_log st') -> In e (s_log st) \/ logged evs os e.
Proof.
  induction evs as [|ev t IH]; intros st st' os e; cbn [run].
  - intros [= <- _]; now left.
  - destruct (step cfg st ev) as [[st1 o]| | |] eqn:St; cbn [bind]; try discriminate.
    destruct (run cfg st1 t) as [[st2 os2]| | |] eqn:R; cbn [bind]; try discriminate.
    intros [= <- <-] H.
    destruct (IH _ _ _ _ R H) as [H1|(i & now & delay & E1 & E2 & E3)].
    + destruct (step_log _ _ _ _ _ _ St H1) as [H0|(-> & now & delay & -> & E2)]; [now left|].
      right. exists O, now, delay; cbn [nth_error]; auto.
    + right. exists (S i), now, delay; cbn [nth_error]; auto.
Qed.
