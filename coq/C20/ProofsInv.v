(* C20 -- provenance invariant of the store: every entry is a transformation
   (clear AA / RD / AD, strip DNSSEC) of a logged upstream answer for a
   compatible key, created when that answer arrived, with its validity
   recomputed from its own content. *)
From Coq Require Import NArith ZArith List Bool Lia ZifyN ZifyBool ZifyNat.
From DV Require Import Base.Outcome C20.Gen C20.Model C20.ProofsBase.
Import ListNotations.
Local Open Scope N_scope.

(* ---------- transformations --------------------------------------------------- *)
Record xf := mkXf { x_rd : bool; x_ad : bool; x_strip : bool }.

Definition xform (x : xf) (m : msg) : msg :=
  mkMsg (m_id m) (m_rcode m) false (m_tc m)
        (if x_rd x then false else m_rd m) (if x_ad x then false else m_ad m) (m_q m) (m_qcase m)
        (if x_strip x then filter keep_rr (m_an m) else m_an m)
        (if x_strip x then filter keep_rr (m_ns m) else m_ns m)
        (if x_strip x then filter keep_rr (m_ar m) else m_ar m) (m_broken m).

Definition map_resp (f : msg -> msg) (r : resp) : resp :=
  match r with RMsg m => RMsg (f m) | RErr e => RErr e end.
Definition xform_resp (x : xf) : resp -> resp := map_resp (xform x).
Definition xid : xf := mkXf false false false.
Definition resp_ad (r : resp) : bool := match r with RMsg m => m_ad m | RErr _ => false end.

Lemma filter_idem {A} (f : A -> bool) l : filter f (filter f l) = filter f l.
Proof.
  induction l as [|a t IH]; [reflexivity|]. cbn [filter].
  destruct (f a) eqn:E; cbn [filter]; [rewrite E, IH; reflexivity|exact IH].
Qed.

Lemma xform_set_aa x m : msg_set_aa false (xform x m) = xform x m.
Proof. reflexivity. Qed.
Lemma xform_set_rd x m : msg_set_rd false (xform x m) = xform (mkXf true (x_ad x) (x_strip x)) m.
Proof. unfold msg_set_rd, xform; cbn. reflexivity. Qed.
Lemma xform_set_ad x m : msg_set_ad false (xform x m) = xform (mkXf (x_rd x) true (x_strip x)) m.
Proof. unfold msg_set_ad, xform; cbn. reflexivity. Qed.
Lemma xform_strip x m (ad : bool) :
  remove_dnssec ad (xform x m) = xform (mkXf (x_rd x) (if ad then x_ad x else true) true) m.
Proof.
  unfold remove_dnssec, xform; cbn.
  destruct (x_strip x); rewrite ?filter_idem; destruct ad, (x_ad x); reflexivity.
Qed.
Lemma xform_xid_raw m : m_aa m = false -> xform xid m = m.
Proof. destruct m; cbn; intros ->; reflexivity. Qed.
Lemma set_aa_is_xid m : msg_set_aa false m = xform xid m.
Proof. reflexivity. Qed.
Lemma set_ad_noop m : m_ad m = false -> msg_set_ad false m = m.
Proof. destruct m; cbn; intros ->; reflexivity. Qed.
Lemma set_aa_noop m : m_aa m = false -> msg_set_aa false m = m.
Proof. destruct m; cbn; intros ->; reflexivity. Qed.

(* ---------- validity never fails on a transformed message if it did not on the
   original: success depends only on (tc, rcode, question) ------------------------ *)
Definition shape (m : msg) := (m_tc m, class_rcode m, m_q m, m_broken m).

(* stripping keeps the OPT record, hence the extended rcode *)
Lemma first_opt_filter l : first_opt (filter keep_rr l) = first_opt l.
Proof.
  unfold first_opt. induction l as [|r t IH]; [reflexivity|]. cbn [filter find].
  destruct (r_type r =? rtype_opt) eqn:E.
  - assert (K : keep_rr r = true).
    { apply N.eqb_eq in E. unfold keep_rr. rewrite E.
      destruct gen_soa_ns_not_dnssec as (_ & _ & ->). reflexivity. }
    rewrite K. cbn [find]. rewrite E. reflexivity.
  - destruct (keep_rr r); cbn [find]; [rewrite E|]; exact IH.
Qed.

Lemma class_rcode_ar m m' : m_rcode m' = m_rcode m -> first_opt (m_ar m') = first_opt (m_ar m) ->
  class_rcode m' = class_rcode m.
Proof. unfold class_rcode, opt_rcode. intros -> ->. reflexivity. Qed.

Lemma shape_strip ad m : shape (remove_dnssec ad m) = shape m.
Proof.
  unfold shape. rewrite (class_rcode_ar m (remove_dnssec ad m)); [reflexivity|reflexivity|].
  cbn [remove_dnssec m_ar]. apply first_opt_filter.
Qed.

Lemma classify_ok_shape m m' : m_q m = m_q m' ->
  (exists c, classify_no_error m = Ok c) -> exists c, classify_no_error m' = Ok c.
Proof.
  unfold classify_no_error; intros <-.
  destruct (m_q m) as [[qt qc]|].
  - intros _. destruct (existsb _ (m_an m')); eauto.
  - destruct classify_expects_question; [intros [c H]; discriminate|eauto].
Qed.

Lemma validity_ok_shape cfg m m' : shape m = shape m' ->
  (exists v, validity cfg (RMsg m) = Ok v) -> exists v, validity cfg (RMsg m') = Ok v.
Proof.
  unfold shape; intros [= Htc Hrc Hq Hb]. unfold validity; rewrite <- Htc, <- Hb.
  destruct (m_tc m && negb (c_trunc cfg)); [eauto|].
  destruct (m_broken m); [intros [v H]; discriminate|].
  unfold class_cap; rewrite <- Hrc.
  destruct (class_rcode m) as [|p].
  - intros [v H].
    destruct (classify_no_error m) as [c| | |] eqn:C; cbn [bind] in H; try discriminate.
    destruct (classify_ok_shape m m' Hq (ex_intro _ c C)) as [c' ->]. cbn [bind]. eauto.
  - intros _. destruct p as [[]|[]|]; cbn [bind]; eauto.
Qed.

Lemma shape_xform x m : shape (xform x m) = shape m.
Proof.
  unfold shape. rewrite (class_rcode_ar m (xform x m)); [reflexivity|reflexivity|].
  cbn [xform m_ar]. destruct (x_strip x); [apply first_opt_filter|reflexivity].
Qed.

(* ---------- compatibility of keys, provenance ------------------------------------- *)
Definition compat (k0 k : key) (x : xf) (u0 : resp) : Prop :=
  k_name k0 = k_name k /\ k_class k0 = k_class k /\ k_type k0 = k_type k /\ k_cd k0 = k_cd k /\
  (k_rd k = true -> k_rd k0 = true) /\
  (k_addo k = AdDo_Do -> k_addo k0 = AdDo_Do) /\
  (k_addo k = AdDo_Ad -> k_addo k0 <> AdDo_None) /\
  (x_rd x = true -> k_rd k = false) /\
  (x_strip x = true -> k_addo k <> AdDo_Do /\ is_dnssec (k_type k) = false) /\
  (x_ad x = true -> k_addo k = AdDo_None) /\
  (k_addo k0 = AdDo_Do -> k_addo k <> AdDo_Do -> x_strip x = true) /\
  (k_addo k = AdDo_None -> k_addo k0 <> AdDo_None -> resp_ad (xform_resp x u0) = false).

Definition same_question (k0 k : key) : Prop :=
  k_name k0 = k_name k /\ k_class k0 = k_class k /\ k_type k0 = k_type k.

(* the upstream request carried at least the flags of the served one:
   CD equal; RD=1 only from RD=1; DO only from DO; AD only from AD or DO *)
Definition flags_compatible (k0 k : key) : Prop :=
  k_cd k0 = k_cd k /\ (k_rd k = true -> k_rd k0 = true) /\
  (k_addo k = AdDo_Do -> k_addo k0 = AdDo_Do) /\ (k_addo k = AdDo_Ad -> k_addo k0 <> AdDo_None).

Lemma compat_question k0 k x u : compat k0 k x u -> same_question k0 k /\ flags_compatible k0 k.
Proof. unfold compat, same_question, flags_compatible; tauto. Qed.

Definition ulog := list (key * N * resp).

Definition prov (cfg : config) (L : ulog) (k : key) (v : value) : Prop :=
  exists k0 t0 u0 x,
    In (k0, t0, u0) L /\ v_created v = t0 /\ v_resp v = xform_resp x u0 /\
    compat k0 k x u0 /\ validity cfg (v_resp v) = Ok (v_valid v).

Definition invC (cfg : config) (L : ulog) (c : cache) : Prop :=
  forall k v, In (k, v) c -> prov cfg L k v.

Lemma prov_mono cfg L e k v : prov cfg L k v -> prov cfg (e :: L) k v.
Proof. intros (k0 & t0 & u0 & x & H & R); exists k0, t0, u0, x; split; [now right|exact R]. Qed.

Lemma compat_refl k u : compat k k xid u.
Proof. unfold compat, xid; cbn; repeat split; try congruence; try discriminate. Qed.

(* ---------- update_message / cache_insert ----------------------------------------------- *)
Lemma update_message_spec cfg v tst f g v' :
  validity cfg (v_resp v) = Ok (v_valid v) ->
  (forall m m', f m = Ok m' -> m' = g m) ->
  (forall m, tst m = false -> g m = m) ->
  update_message cfg v tst f = Ok v' ->
  v_created v' = v_created v /\ v_resp v' = map_resp g (v_resp v) /\
  validity cfg (v_resp v') = Ok (v_valid v').
Proof.
  intros Hv Hf Hid. unfold update_message.
  destruct (v_resp v) as [m|e] eqn:R.
  - destruct (tst m) eqn:T.
    + destruct (f m) as [m'| | |] eqn:F; cbn [bind]; try discriminate.
      rewrite (Hf _ _ F).
      destruct (validity cfg (RMsg (g m))) as [val| | |] eqn:V; cbn [bind]; try discriminate.
      intros [= <-]; cbn [v_created v_valid v_resp map_resp]. auto.
    + intros [= <-]. rewrite R; cbn [map_resp]. rewrite (Hid _ T). auto.
  - intros [= <-]. rewrite R; cbn [map_resp]. auto.
Qed.

Lemma pure_spec g m m' : pure g m = Ok m' -> m' = g m.
Proof. unfold pure; intros [= <-]; reflexivity. Qed.

Lemma strip_spec ad m m' : remove_dnssec_o ad m = Ok m' -> m' = remove_dnssec ad m.
Proof. unfold remove_dnssec_o; destruct (has_bad m); [discriminate|intros [= <-]; reflexivity]. Qed.

(* a header edit cannot fail on a stored value *)
Lemma update_message_pure_total cfg v tst g :
  (exists val, validity cfg (v_resp v) = Ok val) ->
  (forall m, shape (g m) = shape m) ->
  exists v', update_message cfg v tst (pure g) = Ok v'.
Proof.
  intros Hv Hs. unfold update_message, pure.
  destruct (v_resp v) as [m|e]; [|eauto].
  destruct (tst m); [|eauto]. cbn [bind].
  destruct (validity_ok_shape cfg m (g m) (eq_sym (Hs m)) Hv) as [val ->]. cbn [bind]. eauto.
Qed.

(* stripping can fail, and then only because of an unparsable record *)
Lemma update_message_strip_cases cfg v ad :
  (exists val, validity cfg (v_resp v) = Ok val) ->
  (exists v', update_message cfg v (fun _ => true) (remove_dnssec_o ad) = Ok v') \/
  (update_message cfg v (fun _ => true) (remove_dnssec_o ad) = Err parse_error /\
   resp_has_bad (v_resp v) = true).
Proof.
  intros Hv. unfold update_message, remove_dnssec_o.
  destruct (v_resp v) as [m|e]; [|left; eauto]. cbn [resp_has_bad].
  destruct (has_bad m); cbn [bind]; [right; auto|]. left.
  destruct (validity_ok_shape cfg m (remove_dnssec ad m) (eq_sym (shape_strip ad m)) Hv) as [val ->]. cbn [bind]. eauto.
Qed.

Lemma cache_insert_spec cfg k v c c' :
  validity cfg (v_resp v) = Ok (v_valid v) ->
  cache_insert cfg k v c = Ok c' ->
  c' = c \/ exists v', c' = cinsert k v' c /\ v_created v' = v_created v /\
                       v_resp v' = map_resp (msg_set_aa false) (v_resp v) /\
                       validity cfg (v_resp v') = Ok (v_valid v').
Proof.
  intros Hv. unfold cache_insert.
  destruct (insert_skips_zero && (v_valid v =? 0)); [intros [= <-]; now left|].
  destruct (update_message_pure_total cfg v m_aa (msg_set_aa false)) as [v' U]; [eauto|reflexivity|].
  rewrite U. intros [= <-]. right. exists v'. split; [reflexivity|].
  apply (update_message_spec cfg v m_aa (pure (msg_set_aa false)) (msg_set_aa false) v' Hv); [apply pure_spec| |exact U].
  intros m; apply set_aa_noop.
Qed.

Lemma cache_insert_total cfg k v c :
  (exists val, validity cfg (v_resp v) = Ok val) -> exists c', cache_insert cfg k v c = Ok c'.
Proof.
  intros Hv. unfold cache_insert.
  destruct (insert_skips_zero && (v_valid v =? 0)); [eauto|].
  destruct (update_message_pure_total cfg v m_aa (msg_set_aa false) Hv) as [v' ->]; [reflexivity|]. eauto.
Qed.

Lemma map_set_aa_xform x u : map_resp (msg_set_aa false) (xform_resp x u) = xform_resp x u.
Proof. destruct u; reflexivity. Qed.

(* inserting a value that already has provenance keeps the invariant *)
Lemma cache_insert_inv cfg L k v c c' :
  invC cfg L c -> prov cfg L k v -> cache_insert cfg k v c = Ok c' -> invC cfg L c'.
Proof.
  intros I P H.
  destruct P as (k0 & t0 & u0 & x & Hin & Hc & Hr & Hk & Hv).
  destruct (cache_insert_spec _ _ _ _ _ Hv H) as [->|(v' & -> & C' & R' & V')]; [exact I|].
  intros k1 v1 H1. apply cinsert_In in H1. destruct H1 as [[= -> ->]|H1]; [|auto].
  exists k0, t0, u0, x. rewrite Hr, map_set_aa_xform in R'.
  split; [exact Hin|]. split; [congruence|]. split; [exact R'|]. split; [exact Hk|exact V'].
Qed.

(* inserting the fresh upstream answer *)
Lemma cache_insert_fresh cfg L k t val u c c' :
  invC cfg L c -> validity cfg u = Ok val ->
  cache_insert cfg k (mkValue t val u) c = Ok c' -> invC cfg ((k, t, u) :: L) c'.
Proof.
  intros I Hv H.
  destruct (cache_insert_spec cfg k (mkValue t val u) c c' Hv H) as [->|(v' & -> & C' & R' & V')].
  - intros k1 v1 H1; apply prov_mono; auto.
  - intros k1 v1 H1. apply cinsert_In in H1. destruct H1 as [[= -> ->]|H1]; [|apply prov_mono; auto].
    exists k, t, u, xid. cbn in C', R'.
    split; [now left|]. split; [exact C'|]. split; [|split; [apply compat_refl|exact V']].
    rewrite R'. destruct u; reflexivity.
Qed.

(* ---------- the three steps of the cascade preserve provenance --------------------------- *)
Lemma prov_ad_step cfg L k v v' :
  prov cfg L (key_set_addo k AdDo_Ad) v -> k_addo k = AdDo_None ->
  v_created v' = v_created v -> v_resp v' = map_resp (msg_set_ad false) (v_resp v) ->
  validity cfg (v_resp v') = Ok (v_valid v') -> prov cfg L k v'.
Proof.
  intros (k0 & t0 & u0 & x & Hin & Hc & Hr & Hk & Hv) Ha C' R' V'.
  exists k0, t0, u0, (mkXf (x_rd x) true (x_strip x)).
  split; [exact Hin|]. split; [congruence|]. split.
  - rewrite R', Hr. destruct u0; cbn; [rewrite xform_set_ad|]; reflexivity.
  - split; [|exact V'].
    unfold compat in *; cbn [key_set_addo k_name k_class k_type k_addo k_cd k_rd x_rd x_ad x_strip] in *.
    destruct Hk as (H1 & H2 & H3 & H4 & H5 & H6 & H7 & H8 & H9 & H10 & H11 & H12).
    rewrite Ha. repeat split; try assumption; try congruence; try discriminate.
    + destruct (H9 H); assumption.
    + intros Hd _. apply H11; [exact Hd|discriminate].
    + intros _ _. destruct u0; reflexivity.
Qed.

Lemma prov_do_step cfg L k v v' :
  prov cfg L (key_set_addo k AdDo_Do) v -> k_addo k <> AdDo_Do -> is_dnssec (k_type k) = false ->
  v_created v' = v_created v ->
  v_resp v' = map_resp (remove_dnssec (addo_ad (k_addo k))) (v_resp v) ->
  validity cfg (v_resp v') = Ok (v_valid v') -> prov cfg L k v'.
Proof.
  intros (k0 & t0 & u0 & x & Hin & Hc & Hr & Hk & Hv) Ha Hd C' R' V'.
  exists k0, t0, u0, (mkXf (x_rd x) (if addo_ad (k_addo k) then x_ad x else true) true).
  split; [exact Hin|]. split; [congruence|]. split.
  - rewrite R', Hr. destruct u0; cbn; [rewrite xform_strip|]; reflexivity.
  - split; [|exact V'].
    unfold compat in *; cbn [key_set_addo k_name k_class k_type k_addo k_cd k_rd x_rd x_ad x_strip] in *.
    destruct Hk as (H1 & H2 & H3 & H4 & H5 & H6 & H7 & H8 & H9 & H10 & H11 & H12).
    specialize (H6 eq_refl).
    repeat split; try assumption; try congruence.
    + destruct (k_addo k); cbn; intros H; try congruence. apply H10 in H. discriminate.
    + intros Hn _. rewrite Hn; cbn. destruct u0; reflexivity.
Qed.

Lemma prov_rd_step cfg L k v v' :
  prov cfg L (key_set_rd k true) v -> k_rd k = false ->
  v_created v' = v_created v -> v_resp v' = map_resp (msg_set_rd false) (v_resp v) ->
  validity cfg (v_resp v') = Ok (v_valid v') -> prov cfg L k v'.
Proof.
  intros (k0 & t0 & u0 & x & Hin & Hc & Hr & Hk & Hv) Ha C' R' V'.
  exists k0, t0, u0, (mkXf true (x_ad x) (x_strip x)).
  split; [exact Hin|]. split; [congruence|]. split.
  - rewrite R', Hr. destruct u0; cbn; [rewrite xform_set_rd|]; reflexivity.
  - split; [|exact V'].
    unfold compat in *; cbn [key_set_rd k_name k_class k_type k_addo k_cd k_rd x_rd x_ad x_strip] in *.
    destruct Hk as (H1 & H2 & H3 & H4 & H5 & H6 & H7 & H8 & H9 & H10 & H11 & H12).
    repeat split; try assumption; try congruence.
    + destruct (H9 H); assumption.
    + destruct (H9 H); assumption.
    + intros Hn Hn0. specialize (H12 Hn Hn0). destruct u0; cbn in *; [exact H12|reflexivity].
Qed.

(* ---------- the cascade ------------------------------------------------------------------------- *)
Lemma existsb_filter_bad l : existsb r_bad (filter keep_rr l) = true -> existsb r_bad l = true.
Proof.
  intros H. apply existsb_exists in H. destruct H as (r & Hin & Hb).
  apply existsb_exists. exists r. apply filter_In in Hin. tauto.
Qed.

Lemma has_bad_xform x m : has_bad (xform x m) = true -> has_bad m = true.
Proof.
  unfold has_bad; cbn [xform m_an m_ns m_ar]. rewrite !orb_true_iff.
  destruct (x_strip x); [|tauto].
  intros [[H|H]|H]; apply existsb_filter_bad in H; tauto.
Qed.

(* a failed lookup: only without the fix, only a parse error, only because a
   logged upstream message for the same question and at least these flags
   holds a record that does not parse; nothing is said about its age *)
Definition fail_post (L : ulog) (k : key) (e : N) : Prop :=
  strip_failure_is_miss = false /\ e = parse_error /\
  exists k0 t0 m0, In (k0, t0, RMsg m0) L /\ same_question k0 k /\ flags_compatible k0 k /\
                   has_bad m0 = true.

Definition lookup_post cfg L k (r : cache * lres) : Prop :=
  invC cfg L (fst r) /\
  match snd r with
  | LSome v => prov cfg L k v
  | LNone => True
  | LFail e => fail_post L k e
  end.

Lemma prov_valid cfg L k v : prov cfg L k v -> validity cfg (v_resp v) = Ok (v_valid v).
Proof. intros (k0 & t0 & u0 & x & _ & _ & _ & _ & H); exact H. Qed.
Lemma prov_valid_ex cfg L k v : prov cfg L k v -> exists val, validity cfg (v_resp v) = Ok val.
Proof. intros P; eexists; eapply prov_valid; exact P. Qed.

Lemma lookup_ad_inv cfg L k c r :
  invC cfg L c -> cache_lookup_ad cfg k c = Ok r -> lookup_post cfg L k r.
Proof.
  intros I. unfold cache_lookup_ad.
  destruct (cget k c) as [v|] eqn:G.
  - intros [= <-]. split; [exact I|]. cbn. apply I, cget_In, G.
  - destruct (addo_ad (k_addo k)) eqn:A; [intros [= <-]; split; [exact I|exact Logic.I]|].
    rewrite gen_alt_ad, gen_ad_fix.
    destruct (cget (key_set_addo k AdDo_Ad) c) as [v|] eqn:G2; [|intros [= <-]; split; [exact I|exact Logic.I]].
    pose proof (I _ _ (cget_In _ _ _ G2)) as P.
    destruct (update_message_pure_total cfg v m_ad (msg_set_ad false) (prov_valid_ex _ _ _ _ P)) as [v' U];
      [reflexivity|].
    rewrite U; cbn [try_].
    destruct (cache_insert cfg k v' c) as [c'| | |] eqn:CI; cbn [bind]; try discriminate.
    intros [= <-].
    destruct (update_message_spec cfg v m_ad _ (msg_set_ad false) v' (prov_valid _ _ _ _ P)
                (pure_spec _) (fun m => set_ad_noop m) U) as (C' & R' & V').
    assert (P' : prov cfg L k v').
    { apply (prov_ad_step cfg L k v v'); try assumption. destruct (k_addo k); try discriminate; reflexivity. }
    split; cbn [fst snd]; [eapply cache_insert_inv; eassumption|exact P'].
Qed.

Lemma lookup_do_ad_inv cfg L k c r :
  invC cfg L c -> cache_lookup_do_ad cfg k c = Ok r -> lookup_post cfg L k r.
Proof.
  intros I. unfold cache_lookup_do_ad.
  destruct (cache_lookup_ad cfg k c) as [[c1 res]| | |] eqn:LA; cbn [bind]; try discriminate.
  destruct (lookup_ad_inv cfg L k c _ I LA) as [I1 P1]; cbn [fst snd] in I1, P1.
  destruct res as [v| |e]; [intros [= <-]; split; assumption| |intros [= <-]; split; assumption].
  destruct (addo_do (k_addo k)) eqn:D; [intros [= <-]; split; [exact I1|exact Logic.I]|].
  destruct (is_dnssec (k_type k)) eqn:Q; [intros [= <-]; split; [exact I1|exact Logic.I]|].
  rewrite gen_alt_do.
  destruct (cget (key_set_addo k AdDo_Do) c1) as [v|] eqn:G2; [|intros [= <-]; split; [exact I1|exact Logic.I]].
  pose proof (I1 _ _ (cget_In _ _ _ G2)) as P.
  assert (Hk : k_addo k <> AdDo_Do) by (destruct (k_addo k); try discriminate; congruence).
  destruct (update_message_strip_cases cfg v (addo_ad (k_addo k)) (prov_valid_ex _ _ _ _ P))
    as [[v' U]|[U B]]; rewrite U.
  - destruct (cache_insert cfg k v' c1) as [c2| | |] eqn:CI; cbn [bind]; try discriminate.
    intros [= <-].
    destruct (update_message_spec cfg v _ _ (remove_dnssec (addo_ad (k_addo k))) v' (prov_valid _ _ _ _ P)
               (strip_spec _) (fun m (H : true = false) => False_ind _ (diff_true_false H)) U) as (C' & R' & V').
    assert (P' : prov cfg L k v') by (apply (prov_do_step cfg L k v v'); assumption).
    split; cbn [fst snd]; [eapply cache_insert_inv; eassumption|exact P'].
  - destruct strip_failure_is_miss eqn:Fl; intros [= <-]; (split; cbn [fst snd]; [exact I1|]); [exact Logic.I|].
    split; [exact Fl|]. split; [reflexivity|].
    destruct P as (k0 & t0 & u0 & x & Hin & _ & Hr & Hc & _).
    rewrite Hr in B. destruct u0 as [m0|e0]; cbn in B; [|discriminate].
    exists k0, t0, m0. split; [exact Hin|].
    destruct (compat_question _ _ _ _ Hc) as [(Q1 & Q2 & Q3) (F1 & F2 & F3 & F4)].
    cbn [key_set_addo k_name k_class k_type k_cd k_rd k_addo] in *.
    specialize (F3 eq_refl).
    split; [repeat split; assumption|]. split; [|apply (has_bad_xform x); exact B].
    repeat split; try assumption; [congruence|intros _; rewrite F3; discriminate].
Qed.

Lemma fail_post_rd L k e : k_rd k = false -> fail_post L (key_set_rd k true) e -> fail_post L k e.
Proof.
  intros Hr (F & E & k0 & t0 & m0 & Hin & (Q1 & Q2 & Q3) & (F1 & F2 & F3 & F4) & B).
  cbn [key_set_rd k_name k_class k_type k_cd k_rd k_addo] in *.
  split; [exact F|]. split; [exact E|]. exists k0, t0, m0.
  repeat split; try assumption. congruence.
Qed.

Lemma lookup_rd_do_ad_inv cfg L k c r :
  invC cfg L c -> cache_lookup_rd_do_ad cfg k c = Ok r -> lookup_post cfg L k r.
Proof.
  intros I. unfold cache_lookup_rd_do_ad.
  destruct (cache_lookup_do_ad cfg k c) as [[c1 res]| | |] eqn:LA; cbn [bind]; try discriminate.
  destruct (lookup_do_ad_inv cfg L k c _ I LA) as [I1 P1]; cbn [fst snd] in I1, P1.
  destruct res as [v| |e]; [intros [= <-]; split; assumption| |intros [= <-]; split; assumption].
  destruct (k_rd k) eqn:D; [intros [= <-]; split; [exact I1|exact Logic.I]|].
  rewrite gen_alt_rd, gen_rd_fix.
  destruct (cache_lookup_do_ad cfg (key_set_rd k true) c1) as [[c2 res2]| | |] eqn:LB; cbn [bind]; try discriminate.
  destruct (lookup_do_ad_inv cfg L _ c1 _ I1 LB) as [I2 P2]; cbn [fst snd] in I2, P2.
  destruct res2 as [v| |e]; [|intros [= <-]; split; [exact I2|exact Logic.I]
                            |intros [= <-]; split; [exact I2|apply fail_post_rd; assumption]].
  destruct (update_message_pure_total cfg v (fun _ => true) (msg_set_rd false) (prov_valid_ex _ _ _ _ P2)) as [v' U];
    [reflexivity|].
  rewrite U; cbn [try_].
  destruct (cache_insert cfg k v' c2) as [c3| | |] eqn:CI; cbn [bind]; try discriminate.
  intros [= <-].
  destruct (update_message_spec cfg v _ _ (msg_set_rd false) v' (prov_valid _ _ _ _ P2)
             (pure_spec _) (fun m (H : true = false) => False_ind _ (diff_true_false H)) U) as (C' & R' & V').
  assert (P' : prov cfg L k v') by (apply (prov_rd_step cfg L k v v'); assumption).
  split; cbn [fst snd]; [eapply cache_insert_inv; eassumption|exact P'].
Qed.

(* after the fix a lookup never fails *)
Lemma lookup_never_fails cfg L k c c' e :
  strip_failure_is_miss = true -> invC cfg L c -> cache_lookup cfg k c <> Ok (c', LFail e).
Proof.
  intros F I H. destruct (lookup_rd_do_ad_inv cfg L k c _ I H) as [_ (F' & _)]. congruence.
Qed.

(* ---------- totality of the cascade (no panic) ---------------------------------------------------- *)
Lemma lookup_ad_total cfg L k c : invC cfg L c -> exists r, cache_lookup_ad cfg k c = Ok r.
Proof.
  intros I. unfold cache_lookup_ad.
  destruct (cget k c); [eauto|]. destruct (addo_ad (k_addo k)); [eauto|].
  rewrite gen_alt_ad, gen_ad_fix.
  destruct (cget (key_set_addo k AdDo_Ad) c) as [v|] eqn:G; [|eauto].
  pose proof (I _ _ (cget_In _ _ _ G)) as P.
  destruct (update_message_pure_total cfg v m_ad (msg_set_ad false) (prov_valid_ex _ _ _ _ P)) as [v' U];
    [reflexivity|].
  rewrite U; cbn [try_].
  assert (Hv' : exists val, validity cfg (v_resp v') = Ok val).
  { destruct (update_message_spec cfg v _ _ (msg_set_ad false) v' (prov_valid _ _ _ _ P) (pure_spec _)
                (fun m => set_ad_noop m) U) as (_ & _ & V'). eauto. }
  destruct (cache_insert_total cfg k v' c Hv') as [c' ->]. cbn [bind]. eauto.
Qed.

Lemma lookup_do_ad_total cfg L k c : invC cfg L c -> exists r, cache_lookup_do_ad cfg k c = Ok r.
Proof.
  intros I. unfold cache_lookup_do_ad.
  destruct (lookup_ad_total cfg L k c I) as [[c1 res] LA]. rewrite LA; cbn [bind].
  destruct (lookup_ad_inv cfg L k c _ I LA) as [I1 _]; cbn [fst] in I1.
  destruct res; [eauto| |eauto]. destruct (addo_do (k_addo k)); [eauto|]. destruct (is_dnssec (k_type k)); [eauto|].
  rewrite gen_alt_do.
  destruct (cget (key_set_addo k AdDo_Do) c1) as [v|] eqn:G; [|eauto].
  pose proof (I1 _ _ (cget_In _ _ _ G)) as P.
  destruct (update_message_strip_cases cfg v (addo_ad (k_addo k)) (prov_valid_ex _ _ _ _ P))
    as [[v' U]|[U B]]; rewrite U; [|destruct strip_failure_is_miss; eauto].
  assert (Hv' : exists val, validity cfg (v_resp v') = Ok val).
  { destruct (update_message_spec cfg v _ _ (remove_dnssec (addo_ad (k_addo k))) v' (prov_valid _ _ _ _ P)
               (strip_spec _) (fun m (H : true = false) => False_ind _ (diff_true_false H)) U) as (_ & _ & V'). eauto. }
  destruct (cache_insert_total cfg k v' c1 Hv') as [c' ->]. cbn [bind]. eauto.
Qed.

Lemma lookup_total cfg L k c : invC cfg L c -> exists r, cache_lookup cfg k c = Ok r.
Proof.
  intros I. unfold cache_lookup, cache_lookup_rd_do_ad.
  destruct (lookup_do_ad_total cfg L k c I) as [[c1 res] LA]. rewrite LA; cbn [bind].
  destruct (lookup_do_ad_inv cfg L k c _ I LA) as [I1 _]; cbn [fst] in I1.
  destruct res; [eauto| |eauto]. destruct (k_rd k); [eauto|].
  destruct (lookup_do_ad_total cfg L (key_set_rd k alt_rd) c1 I1) as [[c2 res2] LB]. rewrite LB; cbn [bind].
  destruct (lookup_do_ad_inv cfg L _ c1 _ I1 LB) as [I2 P2]; cbn [fst snd] in I2, P2.
  destruct res2 as [v| |e]; [|eauto|eauto].
  rewrite gen_rd_fix.
  destruct (update_message_pure_total cfg v (fun _ => true) (msg_set_rd false) (prov_valid_ex _ _ _ _ P2)) as [v' U];
    [reflexivity|].
  rewrite U; cbn [try_].
  assert (Hv' : exists val, validity cfg (v_resp v') = Ok val).
  { destruct (update_message_spec cfg v _ _ (msg_set_rd false) v' (prov_valid _ _ _ _ P2) (pure_spec _)
               (fun m (H : true = false) => False_ind _ (diff_true_false H)) U) as (_ & _ & V'). eauto. }
  destruct (cache_insert_total cfg k v' c2 Hv') as [c' ->]. cbn [bind]. eauto.
Qed.

(* ---------- states and histories -------------------------------------------------------------------- *)
Definition inv (cfg : config) (st : state) : Prop := invC cfg (s_log st) (s_cache st).

Lemma inv_init cfg : inv cfg state_init.
Proof. intros k v []. Qed.

Lemma start_inv cfg st k op qc now st' sr :
  inv cfg st -> start cfg st k op qc now = Ok (st', sr) -> inv cfg st' /\ s_log st' = s_log st.
Proof.
  intros I. unfold start.
  destruct (negb ((op =? 0) && (k_class k =? class_in))); [intros [= <- _]; auto|].
  destruct (cache_lookup cfg k (s_cache st)) as [[c1 res]| | |] eqn:LK; cbn [bind]; try discriminate.
  destruct (lookup_rd_do_ad_inv cfg _ k _ _ I LK) as [I1 _]; cbn [fst] in I1.
  destruct res as [v| |e].
  - destruct (get_response v now qc) as [[s|e| |]|]; try discriminate; intros [= <- _]; (split; [exact I1|reflexivity]).
  - intros [= <- _]; split; [exact I1|reflexivity].
  - intros [= <- _]; split; [exact I1|reflexivity].
Qed.

Definition forwarded (o : obs) : Prop := o = OForwarded \/ exists e, o = OFwdErr e.

Lemma finish_inv cfg st k t u st' o :
  inv cfg st -> finish cfg st k t u = Ok (st', o) ->
  inv cfg st' /\ forwarded o /\ s_log st' = (k, t, u) :: s_log st.
Proof.
  intros I. unfold finish.
  destruct (validity cfg u) as [val|e| |] eqn:V; try discriminate.
  - destruct (cache_insert cfg k (mkValue t val u) (s_cache st)) as [c2| | |] eqn:CI; cbn [bind]; try discriminate.
    intros [= <- <-]. split; [|split; [left; reflexivity|reflexivity]].
    unfold inv; cbn [s_cache s_log]. eapply cache_insert_fresh; eassumption.
  - intros [= <- <-]. split; [|split; [right; eauto|reflexivity]].
    unfold inv; cbn [s_cache s_log]. intros k1 v1 H1. apply prov_mono. auto.
Qed.

Lemma step_inv cfg st ev st' o : inv cfg st -> step cfg st ev = Ok (st', o) -> inv cfg st'.
Proof.
  intros I. destruct ev as [k op qc now delay u|k op qc now|k t u|n]; cbn [step].
  - destruct (start cfg st k op qc now) as [[st1 sr]| | |] eqn:S; cbn [bind]; try discriminate.
    destruct (start_inv _ _ _ _ _ _ _ _ I S) as [I1 _].
    destruct sr; try (intros [= <- _]; exact I1).
    intros F. apply (finish_inv _ _ _ _ _ _ _ I1 F).
  - destruct (start cfg st k op qc now) as [[st1 sr]| | |] eqn:S; cbn [bind]; try discriminate.
    destruct (start_inv _ _ _ _ _ _ _ _ I S) as [I1 _]. intros [= <- _]; exact I1.
  - intros F. apply (finish_inv _ _ _ _ _ _ _ I F).
  - intros [= <- _]. unfold inv; cbn [s_cache s_log]. intros k v H. apply I. eapply evict_In; exact H.
Qed.

Lemma run_inv cfg evs : forall st st' os, inv cfg st -> run cfg st evs = Ok (st', os) -> inv cfg st'.
Proof.
  induction evs as [|e t IH]; intros st st' os I; cbn [run].
  - intros [= <- _]; exact I.
  - destruct (step cfg st e) as [[st1 o]| | |] eqn:S; cbn [bind]; try discriminate.
    destruct (run cfg st1 t) as [[st2 os2]| | |] eqn:R; cbn [bind]; try discriminate.
    intros [= <- _]. eapply IH; [eapply step_inv; eassumption|exact R].
Qed.

(* the ghost log is the history: each entry is a forwarded QUERY/IN request of it *)
Definition logged (evs : list event) (os : list obs) (e : key * N * resp) : Prop :=
  exists i o, nth_error os i = Some o /\ forwarded o /\
    ((exists qc now delay,
        nth_error evs i = Some (EQuery (fst (fst e)) 0 qc now delay (snd e)) /\ snd (fst e) = now + delay) \/
     nth_error evs i = Some (EFinish (fst (fst e)) (snd (fst e)) (snd e))).

Lemma start_miss_query cfg st k op qc now st' :
  start cfg st k op qc now = Ok (st', SMiss) -> op = 0.
Proof.
  unfold start. destruct (negb ((op =? 0) && (k_class k =? class_in))) eqn:B; [discriminate|].
  apply negb_false_iff, andb_true_iff in B. destruct B as [B _]. apply N.eqb_eq in B. auto.
Qed.

Lemma step_log cfg st ev st' o e :
  inv cfg st -> step cfg st ev = Ok (st', o) -> In e (s_log st') ->
  In e (s_log st) \/ (forwarded o /\
    ((exists qc now delay, ev = EQuery (fst (fst e)) 0 qc now delay (snd e) /\ snd (fst e) = now + delay) \/
     ev = EFinish (fst (fst e)) (snd (fst e)) (snd e))).
Proof.
  intros I. destruct ev as [k op qc now delay u|k op qc now|k t u|n]; cbn [step].
  - destruct (start cfg st k op qc now) as [[st1 sr]| | |] eqn:S; cbn [bind]; try discriminate.
    destruct (start_inv _ _ _ _ _ _ _ _ I S) as [I1 L1].
    destruct sr; try (intros [= <- _]; rewrite L1; now left).
    intros F. destruct (finish_inv _ _ _ _ _ _ _ I1 F) as (_ & Fw & L). rewrite L, L1.
    intros [<-|H]; [right|now left]. split; [exact Fw|]. left.
    rewrite (start_miss_query _ _ _ _ _ _ _ S). exists qc, now, delay. cbn [fst snd]. auto.
  - destruct (start cfg st k op qc now) as [[st1 sr]| | |] eqn:S; cbn [bind]; try discriminate.
    destruct (start_inv _ _ _ _ _ _ _ _ I S) as [_ L1]. intros [= <- _]; rewrite L1; now left.
  - intros F. destruct (finish_inv _ _ _ _ _ _ _ I F) as (_ & Fw & L). rewrite L.
    intros [<-|H]; [right|now left]. split; [exact Fw|]. right. reflexivity.
  - intros [= <- _]; now left.
Qed.

Lemma run_log cfg evs : forall st st' os e, inv cfg st ->
  run cfg st evs = Ok (st', os) -> In e (s_log st') -> In e (s_log st) \/ logged evs os e.
Proof.
  induction evs as [|ev t IH]; intros st st' os e I; cbn [run].
  - intros [= <- _]; now left.
  - destruct (step cfg st ev) as [[st1 o]| | |] eqn:St; cbn [bind]; try discriminate.
    destruct (run cfg st1 t) as [[st2 os2]| | |] eqn:R; cbn [bind]; try discriminate.
    intros [= <- <-] H.
    destruct (IH _ _ _ _ (step_inv _ _ _ _ _ I St) R H) as [H1|(i & o' & E1 & E2 & E3)].
    + destruct (step_log _ _ _ _ _ _ I St H1) as [H0|(Fw & Hev)]; [now left|].
      right. exists O, o. cbn [nth_error]. split; [reflexivity|]. split; [exact Fw|].
      destruct Hev as [(qc & now & delay & -> & E)| -> ]; [left; eauto|right; reflexivity].
    + right. exists (S i), o'; cbn [nth_error]; auto.
Qed.
