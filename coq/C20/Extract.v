From Coq Require Import Extraction ExtrOcamlBasic NArith.
From DV Require Import Base.Outcome C20.Gen C20.Model.
Extraction Language OCaml.
Extraction "../build/ml/C20/model.ml" c20_run config_of config_default key_of_request key_of_request_msg.
