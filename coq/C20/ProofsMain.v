(* C20 -- the property theorems, over all histories. *)
From Coq Require Import NArith ZArith List Bool Lia ZifyN ZifyBool ZifyNat.
From DV Require Import Base.Outcome C20.Gen C20.Model C20.ProofsBase C20.ProofsInv.
Import ListNotations.
Local Open Scope N_scope.
Ltac Zify.zify_post_hook ::= Z.div_mod_to_equations.

(* ---------- what a served answer is ------------------------------------------------ *)
Definition lookup_failed (cfg : config) (st : state) (k : key) : Prop :=
  exists c e, cache_lookup cfg k (s_cache st) = Ok (c, LFail e).

(* Three ways to be answered without upstream: (1) a fresh entry, aged;
   (2) a fresh entry that cannot be rebuilt because a record does not parse:
   the parse error is returned in its place; (3) the cascade itself failed on
   such an entry (only while T1 says strip_failure_is_miss = false). *)
Definition served_fresh cfg st k now qc r : Prop :=
  exists k0 t0 u0 x val,
    In (k0, t0, u0) (s_log st) /\ compat k0 k x u0 /\
    validity cfg (xform_resp x u0) = Ok val /\
    expired (now - t0) val = false /\
    (decrement_ttl (xform_resp x u0) (cast_secs (now - t0)) qc = Ok r \/
     (r = RErr parse_error /\ resp_has_bad (xform_resp x u0) = true)).

Lemma start_served cfg st k op qc now st' r :
  inv cfg st -> start cfg st k op qc now = Ok (st', SServed r) ->
  op = 0 /\ k_class k = class_in /\
  (served_fresh cfg st k now qc r \/
   (lookup_failed cfg st k /\ exists e, r = RErr e /\ fail_post (s_log st) k e)).
Proof.
  intros I. unfold start.
  destruct (negb ((op =? 0) && (k_class k =? class_in))) eqn:B; [discriminate|].
  apply negb_false_iff, andb_true_iff in B. destruct B as [B1 B2].
  apply N.eqb_eq in B1, B2. intros S; split; [exact B1|]; split; [exact B2|]; revert S.
  destruct (cache_lookup cfg k (s_cache st)) as [[c1 res]| | |] eqn:LK; cbn [bind]; try discriminate.
  destruct (lookup_rd_do_ad_inv cfg _ k _ _ I LK) as [_ P]; cbn [snd] in P.
  destruct res as [v| |e]; [|discriminate|].
  - unfold get_response, elapsed_ms.
    destruct (expired (now - v_created v) (v_valid v)) eqn:E; [discriminate|].
    destruct P as (k0 & t0 & u0 & x & Hin & Hc & Hr & Hk & Hv). subst t0.
    assert (Hb : forall m, v_resp v = RMsg m -> forall y, counted m y ->
                 cast_secs (now - v_created v) <= r_ttl y).
    { intros m Hm y Hy. rewrite Hm in Hv. destruct (validity_msg_bound _ _ _ Hv) as [Bt _].
      specialize (Bt _ Hy). apply not_expired_le in E.
      pose proof (cast_secs_le (now - v_created v)). lia. }
    destruct (decrement_cases _ _ qc Hb) as [[D _]|[D Bd]]; rewrite D; intros [= _ <-]; left;
      exists k0, (v_created v), u0, x, (v_valid v); rewrite <- Hr;
      (split; [exact Hin|]); (split; [exact Hk|]); (split; [exact Hv|]); (split; [exact E|]).
    + left; exact D.
    + right; auto.
  - intros [= _ <-]. right. split; [exists c1, e; exact LK|]. exists e. auto.
Qed.

(* a request event: its key, the time its get_response runs, its spelling of the name *)
Definition request_of (ev : event) : option (key * N * N) :=
  match ev with
  | EQuery k _ qc now _ _ | EStart k _ qc now => Some (k, now, qc)
  | _ => None
  end.

Lemma finish_not_served cfg st k t u st' r : finish cfg st k t u <> Ok (st', OServed r).
Proof.
  unfold finish. destruct (validity cfg u); try discriminate.
  destruct (cache_insert cfg k _ (s_cache st)); cbn [bind]; discriminate.
Qed.

Lemma served_master cfg st ev k now qc st' r :
  inv cfg st -> request_of ev = Some (k, now, qc) -> step cfg st ev = Ok (st', OServed r) ->
  served_fresh cfg st k now qc r \/
  (lookup_failed cfg st k /\ exists e, r = RErr e /\ fail_post (s_log st) k e).
Proof.
  intros I Q. destruct ev as [k' op qc' now' delay u|k' op qc' now'| |]; try discriminate;
    injection Q as -> -> ->; cbn [step];
    destruct (start cfg st k op qc now) as [[st1 sr]| | |] eqn:S; cbn [bind]; try discriminate.
  - destruct sr as [s| |]; try discriminate.
    + intros [= <- <-]. apply (start_served _ _ _ _ _ _ _ _ I S).
    + intros F. destruct (finish_not_served _ _ _ _ _ _ _ F).
  - destruct sr as [s| |]; try discriminate.
    intros [= <- <-]. apply (start_served _ _ _ _ _ _ _ _ I S).
Qed.

Lemma store_invariant cfg evs st os : run cfg state_init evs = Ok (st, os) -> inv cfg st.
Proof. intros R. exact (run_inv cfg evs _ _ _ (inv_init cfg) R). Qed.

(* ---------- 1. served_was_received ---------------------------------------------------- *)
(* same_question, flags_compatible: ProofsInv.v *)
Definition rr_from (r0 r : rr) : Prop :=
  r_type r = r_type r0 /\ r_class r = r_class r0 /\ r_id r = r_id r0 /\ r_ttl r <= r_ttl r0.

Definition sec_from (l0 l : list rr) : Prop :=
  (forall r, In r l -> exists r0, In r0 l0 /\ rr_from r0 r) /\
  (forall r0, In r0 l0 -> keep_rr r0 = true -> exists r, In r l /\ rr_from r0 r).

Definition derives (u0 r : resp) : Prop :=
  match u0, r with
  | RErr e0, RErr e => e = e0
  | RMsg m0, RErr e => e = parse_error /\ has_bad m0 = true   (* the message could not be rebuilt *)
  | RMsg m0, RMsg m =>
      m_rcode m = m_rcode m0 /\ m_tc m = m_tc m0 /\ m_q m = m_q m0 /\
      (m_ad m = true -> m_ad m0 = true) /\ (m_rd m = true -> m_rd m0 = true) /\
      m_id m = m_id m0 /\
      sec_from (m_an m0) (m_an m) /\ sec_from (m_ns m0) (m_ns m) /\ sec_from (m_ar m0) (m_ar m)
  | _, _ => False
  end.

Lemma sec_from_age a (strip : bool) l0 :
  sec_from l0 (map (age a) (if strip then filter keep_rr l0 else l0)).
Proof.
  split.
  - intros r H. apply in_map_iff in H. destruct H as (r0 & <- & H).
    exists r0. split; [destruct strip; [apply filter_In in H; tauto|exact H]|].
    unfold rr_from, age; cbn. repeat split; lia.
  - intros r0 H K. exists (age a r0). split.
    + apply in_map. destruct strip; [apply filter_In; tauto|exact H].
    + unfold rr_from, age; cbn. repeat split; lia.
Qed.

Lemma sec_from_age_opt a (strip : bool) l0 :
  sec_from l0 (map (age_opt a) (if strip then filter keep_rr l0 else l0)).
Proof.
  assert (F : forall r0, rr_from r0 (age_opt a r0)).
  { intros r0. unfold rr_from, age_opt, age. destruct (negb (r_type r0 =? rtype_opt)); cbn; repeat split; lia. }
  split.
  - intros r H. apply in_map_iff in H. destruct H as (r0 & <- & H).
    exists r0. split; [destruct strip; [apply filter_In in H; tauto|exact H]|apply F].
  - intros r0 H K. exists (age_opt a r0). split; [|apply F].
    apply in_map. destruct strip; [apply filter_In; tauto|exact H].
Qed.

Lemma derives_aged x a qc u0 : derives u0 (aged a qc (xform_resp x u0)).
Proof.
  destruct u0 as [m0|e]; cbn; [|reflexivity].
  repeat split; try reflexivity.
  - destruct (x_ad x); [discriminate|auto].
  - destruct (x_rd x); [discriminate|auto].
  - apply (sec_from_age a (x_strip x)).
  - apply (sec_from_age a (x_strip x)).
  - apply (sec_from_age a (x_strip x)).
  - apply (sec_from_age a (x_strip x)).
  - apply (sec_from_age_opt a (x_strip x)).
  - apply (sec_from_age_opt a (x_strip x)).
Qed.

Lemma run_init_logged cfg evs st os e :
  run cfg state_init evs = Ok (st, os) -> In e (s_log st) -> logged evs os e.
Proof. intros R H. destruct (run_log cfg evs _ _ _ e (inv_init cfg) R H) as [[]|L]; exact L. Qed.

Lemma bad_source x u0 : resp_has_bad (xform_resp x u0) = true ->
  exists m0, u0 = RMsg m0 /\ has_bad m0 = true.
Proof.
  destruct u0 as [m0|e0]; cbn; [|discriminate]. intros H. exists m0. split; [reflexivity|].
  apply (has_bad_xform x); exact H.
Qed.

(* the common core: whatever is answered without upstream comes from a logged
   upstream exchange for the same question with compatible flags *)
Lemma served_source cfg st ev k now qc st' r :
  request_of ev = Some (k, now, qc) ->
  inv cfg st -> step cfg st ev = Ok (st', OServed r) ->
  exists k0 t0 u0,
    In (k0, t0, u0) (s_log st) /\ same_question k0 k /\ flags_compatible k0 k /\ derives u0 r.
Proof.
  intros Hq I S. destruct (served_master _ _ _ _ _ _ _ _ I Hq S) as [F|[_ (e & -> & F)]].
  - destruct F as (k0 & t0 & u0 & x & val & Hin & Hk & _ & _ & [D|[-> B]]);
      exists k0, t0, u0; (split; [exact Hin|]);
      destruct (compat_question _ _ _ _ Hk) as [Q Fl]; (split; [exact Q|]); (split; [exact Fl|]).
    + apply decrement_ok in D. destruct D as (-> & _). apply derives_aged.
    + destruct (bad_source _ _ B) as (m0 & -> & B0). cbn. auto.
  - destruct F as (_ & -> & k0 & t0 & m0 & Hin & Q & Fl & B).
    exists k0, t0, (RMsg m0). cbn. auto.
Qed.

Lemma served_was_received cfg evs st os ev k now qc st' r :
  request_of ev = Some (k, now, qc) ->
  run cfg state_init evs = Ok (st, os) ->
  step cfg st ev = Ok (st', OServed r) ->
  exists k0 t0 u0,
    logged evs os (k0, t0, u0) /\ same_question k0 k /\ flags_compatible k0 k /\ derives u0 r.
Proof.
  intros Hq R S. pose proof (run_inv cfg evs _ _ _ (inv_init cfg) R) as I.
  destruct (served_source _ _ _ _ _ _ _ _ Hq I S) as (k0 & t0 & u0 & Hin & Q & F & D).
  exists k0, t0, u0. split; [eapply run_init_logged; eassumption|auto].
Qed.

(* the served question carries the name as the current request spelled it *)
Lemma served_question_case cfg st ev k now qc st' m :
  request_of ev = Some (k, now, qc) ->
  inv cfg st -> step cfg st ev = Ok (st', OServed (RMsg m)) -> m_q m <> None -> m_qcase m = qc.
Proof.
  intros Hq I S Hn. destruct (served_master _ _ _ _ _ _ _ _ I Hq S) as [F|[_ (e & E & _)]]; [|discriminate E].
  destruct F as (k0 & t0 & u0 & x & val & _ & _ & _ & _ & [D|[E _]]); [|discriminate E].
  apply decrement_ok in D. destruct D as (E & _).
  destruct u0 as [m0|e0]; [|discriminate E]. injection E as ->.
  cbn [aged_msg m_q m_qcase xform] in *. unfold restore_case. cbn [xform m_q].
  destruct (m_q m0); [reflexivity|congruence].
Qed.

(* ---------- 2. ttl_aged_never_increased ------------------------------------------------- *)
(* every served TTL is exactly the upstream TTL minus the whole seconds spent in the cache *)
Definition rr_aged (secs : N) (opt_exempt : bool) (r0 r : rr) : Prop :=
  r_type r = r_type r0 /\ r_class r = r_class r0 /\ r_id r = r_id r0 /\
  (if opt_exempt && (r_type r0 =? rtype_opt) then r_ttl r = r_ttl r0
   else r_ttl r + secs = r_ttl r0).

Definition sec_aged (secs : N) (opt_exempt : bool) (l0 l : list rr) : Prop :=
  forall r, In r l -> exists r0, In r0 l0 /\ rr_aged secs opt_exempt r0 r.

Definition resp_aged (secs : N) (u0 r : resp) : Prop :=
  match u0, r with
  | RMsg m0, RMsg m =>
      sec_aged secs false (m_an m0) (m_an m) /\ sec_aged secs false (m_ns m0) (m_ns m) /\
      sec_aged secs true (m_ar m0) (m_ar m)
  | RErr _, RErr _ => True
  | RMsg m0, RErr e => e = parse_error /\ has_bad m0 = true
  | _, _ => False
  end.

Lemma elapsed_secs_bound cfg x m0 val e :
  cfg_ok cfg -> validity cfg (xform_resp x (RMsg m0)) = Ok val -> expired e val = false ->
  cast_secs e = e / 1000 /\ e / 1000 <= val.
Proof.
  intros C V E. apply not_expired_le in E. cbn [xform_resp map_resp] in V. apply validity_le_maxv in V.
  destruct C as [[_ C] _]. pose proof gen_maxv_fits as F.
  assert (e / 1000 <= val) by lia.
  split; [apply cast_secs_small; lia|assumption].
Qed.

Lemma ttl_aged cfg evs st os ev k now qc st' r :
  request_of ev = Some (k, now, qc) ->
  cfg_ok cfg ->
  run cfg state_init evs = Ok (st, os) ->
  step cfg st ev = Ok (st', OServed r) ->
  exists k0 t0 u0,
    logged evs os (k0, t0, u0) /\ same_question k0 k /\ resp_aged ((now - t0) / 1000) u0 r.
Proof.
  intros Hq C R S. pose proof (run_inv cfg evs _ _ _ (inv_init cfg) R) as I.
  destruct (served_master _ _ _ _ _ _ _ _ I Hq S) as [F|[_ (e & -> & F)]].
  2:{ destruct F as (_ & -> & k0 & t0 & m0 & Hin & Q & _ & B).
      exists k0, t0, (RMsg m0). split; [eapply run_init_logged; eassumption|]. cbn. auto. }
  destruct F as (k0 & t0 & u0 & x & val & Hin & Hk & V & E & [D|[-> B]]);
    exists k0, t0, u0; (split; [eapply run_init_logged; eassumption|]);
    (split; [apply (compat_question _ _ _ _ Hk)|]).
  2:{ destruct (bad_source _ _ B) as (m0 & -> & B0). cbn. auto. }
  apply decrement_ok in D. destruct D as (-> & _ & B).
  destruct u0 as [m0|e0]; cbn [xform_resp map_resp aged resp_aged]; [|exact Logic.I].
  destruct (elapsed_secs_bound cfg x m0 val _ C V E) as [Hs _]. rewrite Hs in *.
  specialize (B _ eq_refl). set (secs := (now - t0) / 1000) in *.
  cbn [aged_msg m_an m_ns m_ar xform].
  assert (Hsub : forall l r0, In r0 (if x_strip x then filter keep_rr l else l) -> In r0 l).
  { intros l r0 H. destruct (x_strip x); [apply filter_In in H; tauto|exact H]. }
  repeat split.
  - intros r H. apply in_map_iff in H. destruct H as (r0 & <- & H). exists r0. split; [eauto|].
    assert (secs <= r_ttl r0) by (apply B; left; exact H).
    unfold rr_aged, age; cbn. repeat split; lia.
  - intros r H. apply in_map_iff in H. destruct H as (r0 & <- & H). exists r0. split; [eauto|].
    assert (secs <= r_ttl r0) by (apply B; right; left; exact H).
    unfold rr_aged, age; cbn. repeat split; lia.
  - intros r H. apply in_map_iff in H. destruct H as (r0 & <- & H). exists r0. split; [eauto|].
    unfold rr_aged, age_opt, age. destruct (r_type r0 =? rtype_opt) eqn:T; cbn [negb andb].
    + repeat split; reflexivity.
    + assert (secs <= r_ttl r0) by (apply B; right; right; split; [exact H|exact T]).
      cbn. repeat split; lia.
Qed.

(* ---------- 3. never_stale ----------------------------------------------------------------- *)
Lemma expired_entry_not_served v now qc :
  v_valid v * 1000 < now - v_created v -> get_response v now qc = None.
Proof. intros H. unfold get_response, elapsed_ms. rewrite (expired_gt _ _ H). reflexivity. Qed.

Lemma scan_auth_map f qc l : (forall r, r_type (f r) = r_type r /\ r_class (f r) = r_class r) ->
  forall b, scan_auth qc b (map f l) = scan_auth qc b l.
Proof.
  intros Hf. induction l as [|r t IH]; intros b; cbn [map scan_auth]; [reflexivity|].
  destruct (Hf r) as [-> ->]. rewrite IH. reflexivity.
Qed.

Lemma existsb_map' {A B} (f : B -> bool) (g : A -> B) l :
  existsb f (map g l) = existsb (fun x => f (g x)) l.
Proof. induction l as [|a t IH]; cbn; [reflexivity|rewrite IH; reflexivity]. Qed.

Lemma classify_aged a qc m : classify_no_error (aged_msg a qc m) = classify_no_error m.
Proof.
  unfold classify_no_error; cbn [aged_msg m_q m_an m_ns].
  destruct (m_q m) as [[qt qc0]|]; [|reflexivity].
  rewrite existsb_map'. cbn [age r_type r_class].
  rewrite (scan_auth_map (age a)); [reflexivity|intros r; split; reflexivity].
Qed.

(* the class is decided by the extended rcode (T1: validity matches on msg.opt_rcode()) *)
Lemma gen_uses_opt_rcode : validity_uses_opt_rcode = true. Proof. reflexivity. Qed.
Lemma gen_opt_shift : opt_rcode_shift = 4. Proof. reflexivity. Qed.
Lemma class_rcode_is_opt m : class_rcode m = opt_rcode m.
Proof. unfold class_rcode. rewrite gen_uses_opt_rcode. reflexivity. Qed.

Lemma first_opt_age a l : first_opt (map (age_opt a) l) = first_opt l.
Proof.
  unfold first_opt. induction l as [|r t IH]; [reflexivity|]. cbn [map find].
  unfold age_opt at 1 2. destruct (r_type r =? rtype_opt) eqn:E; cbn [negb].
  - rewrite E. reflexivity.
  - cbn [age r_type]. rewrite E. exact IH.
Qed.

Lemma opt_rcode_aged a c m : opt_rcode (aged_msg a c m) = opt_rcode m.
Proof. unfold opt_rcode. cbn [aged_msg m_ar m_rcode]. rewrite first_opt_age. reflexivity. Qed.

(* the bound that applies to a served answer, read off the answer itself *)
Definition within (elapsed_ms bound_s : N) : Prop := elapsed_ms <= bound_s * 1000.

Definition fresh_by_class (cfg : config) (e : N) (u0 r : resp) : Prop :=
  match r with
  | RErr _ =>
      match u0 with
      | RErr _ => within e (c_tf cfg)      (* a cached transport failure *)
      | RMsg _ => within e (c_maxv cfg)    (* the parse error standing for a fresh entry *)
      end
  | RMsg m =>
      within e (c_maxv cfg) /\
      (opt_rcode m = 3 -> within e (c_nx cfg)) /\
      (opt_rcode m <> 0 -> opt_rcode m <> 3 -> within e (c_misc cfg)) /\
      (opt_rcode m = 0 -> classify_no_error m = Ok NoData -> within e (c_nodata cfg)) /\
      (opt_rcode m = 0 -> classify_no_error m = Ok Delegation -> within e (c_deleg cfg)) /\
      (opt_rcode m = 0 -> classify_no_error m = Ok Weird -> e = 0) /\
      (m_tc m = true -> c_trunc cfg = false -> e = 0) /\
      (* no record is served beyond its own TTL: its original TTL is what is
         left plus the whole seconds spent in the cache *)
      (forall x, counted m x -> within e (r_ttl x + e / 1000))
  end.

Lemma class_cap_spec cfg m cap : class_cap cfg m = Ok cap ->
  cap <= c_maxv cfg /\
  (opt_rcode m = 3 -> cap <= c_nx cfg) /\
  (opt_rcode m <> 0 -> opt_rcode m <> 3 -> cap <= c_misc cfg) /\
  (opt_rcode m = 0 -> classify_no_error m = Ok NoData -> cap <= c_nodata cfg) /\
  (opt_rcode m = 0 -> classify_no_error m = Ok Delegation -> cap <= c_deleg cfg) /\
  (opt_rcode m = 0 -> classify_no_error m = Ok Weird -> cap = 0).
Proof.
  intros H. split; [eapply class_cap_le_maxv; exact H|]. revert H.
  unfold class_cap. rewrite gen_cap_base, gen_cap_nodata, gen_cap_deleg, gen_cap_nx, gen_cap_misc, class_rcode_is_opt.
  destruct (opt_rcode m) as [|p] eqn:RC.
  - destruct (classify_no_error m) as [cl| | |]; cbn [bind]; try discriminate.
    intros [= <-]. repeat split; try discriminate; try congruence; intros _ [= ->]; lia.
  - destruct p as [[]|[]|]; intros [= <-]; repeat split; try discriminate; try congruence; intros; lia.
Qed.

(* The known class: the cascade failed while rewriting an entry.  Its age is
   never looked at, so such a parse error can be handed out long after the
   entry's validity has passed (never_stale_refuted). *)
Lemma never_stale cfg evs st os ev k now qc st' r :
  request_of ev = Some (k, now, qc) ->
  cfg_ok cfg ->
  run cfg state_init evs = Ok (st, os) ->
  ~ lookup_failed cfg st k ->
  step cfg st ev = Ok (st', OServed r) ->
  exists k0 t0 u0,
    logged evs os (k0, t0, u0) /\ same_question k0 k /\ derives u0 r /\
    fresh_by_class cfg (now - t0) u0 r.
Proof.
  intros Hq C R NF S. pose proof (run_inv cfg evs _ _ _ (inv_init cfg) R) as I.
  destruct (served_master _ _ _ _ _ _ _ _ I Hq S) as [F|[LF _]]; [|destruct (NF LF)].
  destruct F as (k0 & t0 & u0 & x & val & Hin & Hk & V & E & [D|[-> B]]);
    exists k0, t0, u0; (split; [eapply run_init_logged; eassumption|]);
    (split; [apply (compat_question _ _ _ _ Hk)|]).
  2:{ destruct (bad_source _ _ B) as (m0 & -> & B0). split; [cbn; auto|].
      cbn [fresh_by_class]. apply not_expired_le in E. cbn [xform_resp map_resp] in V.
      apply validity_le_maxv in V. unfold within. lia. }
  apply decrement_ok in D. destruct D as (-> & _ & B). split; [apply derives_aged|].
  destruct u0 as [m0|e0]; cbn [xform_resp map_resp aged fresh_by_class].
  - destruct (elapsed_secs_bound cfg x m0 val _ C V E) as [Hs Hle]. rewrite Hs in *.
    specialize (B _ eq_refl). apply not_expired_le in E. set (e := now - t0) in *.
    cbn [xform_resp map_resp] in V.
    rewrite classify_aged, opt_rcode_aged. cbn [aged_msg m_tc].
    destruct (validity_msg_bound _ _ _ V) as [Bt Bc].
    assert (Hcnt : forall y, counted (aged_msg (e / 1000) qc (xform x m0)) y -> within e (r_ttl y + e / 1000)).
    { intros y Hy. unfold within.
      assert (exists y0, counted (xform x m0) y0 /\ r_ttl y = r_ttl y0 - e / 1000) as (y0 & Hy0 & ->).
      { unfold counted in Hy; cbn [aged_msg m_an m_ns m_ar] in Hy.
        destruct Hy as [H|[H|[H Ho]]]; apply in_map_iff in H; destruct H as (y0 & <- & H).
        - exists y0; split; [left; exact H|reflexivity].
        - exists y0; split; [right; left; exact H|reflexivity].
        - unfold age_opt in *. destruct (r_type y0 =? rtype_opt) eqn:T; cbn [negb] in *.
          + rewrite T in Ho; discriminate.
          + exists y0; split; [right; right; split; assumption|reflexivity]. }
      specialize (Bt _ Hy0). specialize (B _ Hy0). lia. }
    destruct Bc as [->|(cap & Hc & Hle2)].
    + assert (e = 0) by lia. unfold within. repeat split; intros; lia.
    + destruct (class_cap_spec _ _ _ Hc) as (H1 & H2 & H3 & H4 & H5 & H6).

      unfold within. repeat split.
      * lia.
      * intros Hr; specialize (H2 Hr); lia.
      * intros Hr Hr'; specialize (H3 Hr Hr'); lia.
      * intros Hr Hcl; specialize (H4 Hr Hcl); lia.
      * intros Hr Hcl; specialize (H5 Hr Hcl); lia.
      * intros Hr Hcl; specialize (H6 Hr Hcl); lia.
      * intros Ht Hn. unfold validity in V. cbn [xform m_tc] in V, Ht. rewrite Ht, Hn in V.
        cbn [andb negb] in V. injection V as <-. lia.
      * apply Hcnt.
  - apply not_expired_le in E. cbn [xform_resp map_resp validity] in V. rewrite gen_cap_failure in V.
    injection V as <-. exact E.
Qed.

(* after the fix (T1: strip_failure_is_miss = true) the excluded class is empty *)
Lemma lookup_failed_only_before_fix cfg evs st os k :
  strip_failure_is_miss = true -> run cfg state_init evs = Ok (st, os) -> ~ lookup_failed cfg st k.
Proof.
  intros F R (c & e & H). pose proof (run_inv cfg evs _ _ _ (inv_init cfg) R) as I.
  exact (lookup_never_fails cfg _ k _ c e F I H).
Qed.

(* the fix is in (T1): no premise left *)
Lemma gen_strip_miss : strip_failure_is_miss = true. Proof. reflexivity. Qed.

Lemma never_stale_unconditional cfg evs st os ev k now qc st' r :
  request_of ev = Some (k, now, qc) ->
  cfg_ok cfg ->
  run cfg state_init evs = Ok (st, os) ->
  step cfg st ev = Ok (st', OServed r) ->
  exists k0 t0 u0,
    logged evs os (k0, t0, u0) /\ same_question k0 k /\ derives u0 r /\
    fresh_by_class cfg (now - t0) u0 r.
Proof.
  intros Hq C R S. apply (never_stale cfg evs st os ev k now qc st' r Hq C R); [|exact S].
  exact (lookup_failed_only_before_fix cfg evs st os k gen_strip_miss R).
Qed.

(* witness: an answer to a DO request with one unparsable record, valid for
   60 s; a request without DO a million seconds later gets MessageParseError
   from the cache, upstream is not asked *)
Definition witness_stale_bad : resp :=
  RMsg (mkMsg 7 0 false false true false (Some (1, 1)) 1 [mkRR 1 1 60 1 false; mkRR 1 1 60 2 true] [] [] false).
Definition witness_stale : list event :=
  [EQuery (key_of_request 1 1 1 true false false true) 0 1 0 0 witness_stale_bad].
Definition witness_stale_query : event :=
  EQuery (key_of_request 1 1 1 true false false false) 0 1 1000000000 0 (RErr 1).

Lemma never_stale_refuted : strip_failure_is_miss = false ->
  validity config_default witness_stale_bad = Ok 60 /\
  exists st os st',
    run config_default state_init witness_stale = Ok (st, os) /\
    lookup_failed config_default st (key_of_request 1 1 1 true false false false) /\
    step config_default st witness_stale_query = Ok (st', OServed (RErr parse_error)).
Proof.
  intros F.
  (* once the fix is in, T1 makes the premise false *)
  first
    [ solve [exfalso; vm_compute in F; discriminate F]
    | solve [split; [vm_compute; reflexivity|];
             do 3 eexists; split; [lazy; reflexivity|];
             split; [do 2 eexists; lazy; reflexivity|lazy; reflexivity]] ].
Qed.

(* classification does not change when DNSSEC records are stripped for a
   question whose type is not a DNSSEC type *)
Lemma scan_auth_filter qc l : forall b, scan_auth qc b (filter keep_rr l) = scan_auth qc b l.
Proof.
  induction l as [|r t IH]; intros b; cbn [filter scan_auth]; [reflexivity|].
  destruct (keep_rr r) eqn:K; cbn [scan_auth]; [rewrite IH; reflexivity|].
  unfold keep_rr in K. apply negb_false_iff in K.
  destruct gen_soa_ns_not_dnssec as (S1 & S2 & _).
  destruct (r_type r =? rtype_soa) eqn:E1; [apply N.eqb_eq in E1; congruence|].
  destruct (r_type r =? rtype_ns) eqn:E2; [apply N.eqb_eq in E2; congruence|].
  rewrite !andb_false_r. apply IH.
Qed.

Lemma class_stable x m0 qt qc :
  m_q m0 = Some (qt, qc) -> (x_strip x = true -> is_dnssec qt = false) ->
  classify_no_error (xform x m0) = classify_no_error m0.
Proof.
  intros Q H. unfold classify_no_error; cbn [xform m_q m_an m_ns]. rewrite Q.
  destruct (x_strip x); [|reflexivity]. specialize (H eq_refl).
  rewrite scan_auth_filter.
  replace (existsb (fun r => (r_type r =? qt) && (r_class r =? qc)) (filter keep_rr (m_an m0)))
    with (existsb (fun r => (r_type r =? qt) && (r_class r =? qc)) (m_an m0)); [reflexivity|].
  induction (m_an m0) as [|r t IH]; [reflexivity|]. cbn [filter existsb].
  destruct (keep_rr r) eqn:K; cbn [existsb]; [rewrite IH; reflexivity|].
  unfold keep_rr in K. apply negb_false_iff in K.
  destruct (r_type r =? qt) eqn:E; [apply N.eqb_eq in E; congruence|]. cbn [andb orb]. exact IH.
Qed.

(* ---------- 4. decrement_no_underflow / no panic ----------------------------------------------- *)
(* the known class: an upstream "response" without a question section *)
Definition no_question (u : resp) : Prop := exists m, u = RMsg m /\ m_q m = None.

Definition ev_ok (ev : event) : Prop :=
  match ev with
  | EQuery _ _ _ _ _ u | EFinish _ _ u => classify_expects_question = true -> ~ no_question u
  | _ => True
  end.

Lemma validity_cases cfg u : (classify_expects_question = true -> ~ no_question u) ->
  (exists v, validity cfg u = Ok v) \/ validity cfg u = Err parse_error.
Proof.
  intros H. destruct u as [m|e]; [|cbn; eauto].
  unfold validity. destruct (m_tc m && negb (c_trunc cfg)); [eauto|].
  destruct (m_broken m); [right; reflexivity|]. left.
  unfold class_cap. destruct (class_rcode m) as [|p].
  - unfold classify_no_error. destruct (m_q m) as [[qt qc]|] eqn:Q.
    + destruct (existsb _ (m_an m)); cbn [bind]; eauto.
    + destruct classify_expects_question; [|cbn [bind]; eauto].
      exfalso. apply (H eq_refl). exists m; auto.
  - destruct p as [[]|[]|]; cbn [bind]; eauto.
Qed.

Lemma start_total cfg st k op qc now : inv cfg st -> exists r, start cfg st k op qc now = Ok r.
Proof.
  intros I. unfold start.
  destruct (negb ((op =? 0) && (k_class k =? class_in))); [eauto|].
  destruct (lookup_total cfg _ k _ I) as [[c1 res] LK]. rewrite LK; cbn [bind].
  destruct (lookup_rd_do_ad_inv cfg _ k _ _ I LK) as [I1 P]; cbn [fst snd] in I1, P.
  destruct res as [v| |e]; [|eauto|eauto].
  unfold get_response, elapsed_ms.
  destruct (expired (now - v_created v) (v_valid v)) eqn:E; [eauto|].
  assert (Hb : forall m, v_resp v = RMsg m -> forall y, counted m y ->
               cast_secs (now - v_created v) <= r_ttl y).
  { intros m Hm y Hy. pose proof (prov_valid _ _ _ _ P) as V. rewrite Hm in V.
    destruct (validity_msg_bound _ _ _ V) as [Bt _]. specialize (Bt _ Hy).
    apply not_expired_le in E. pose proof (cast_secs_le (now - v_created v)). lia. }
  destruct (decrement_cases _ _ qc Hb) as [[-> _]|[-> _]]; eauto.
Qed.

Lemma finish_total cfg st k t u :
  (classify_expects_question = true -> ~ no_question u) -> exists r, finish cfg st k t u = Ok r.
Proof.
  intros Hev. unfold finish.
  destruct (validity_cases cfg u Hev) as [[val V]|V]; rewrite V; [|eauto].
  destruct (cache_insert_total cfg k (mkValue t val u) (s_cache st)) as [c2 ->]; [cbn; eauto|].
  cbn [bind]. eauto.
Qed.

Lemma step_total cfg st ev : inv cfg st -> ev_ok ev -> exists r, step cfg st ev = Ok r.
Proof.
  intros I Hev. destruct ev as [k op qc now delay u|k op qc now|k t u|n]; cbn [step]; [| | |eauto].
  - destruct (start_total cfg st k op qc now I) as [[st1 sr] S]. rewrite S; cbn [bind].
    destruct sr; [eauto| |eauto]. apply finish_total. exact Hev.
  - destruct (start_total cfg st k op qc now I) as [[st1 sr] S]. rewrite S; cbn [bind]. eauto.
  - apply finish_total. exact Hev.
Qed.

Lemma run_total cfg evs : forall st, inv cfg st -> Forall ev_ok evs ->
  exists r, run cfg st evs = Ok r.
Proof.
  induction evs as [|e t IH]; intros st I F; cbn [run]; [eauto|].
  inversion F as [|? ? He Ft]; subst.
  destruct (step_total cfg st e I He) as [[st1 o] S]. rewrite S; cbn [bind].
  destruct (IH st1 (step_inv _ _ _ _ _ I S) Ft) as [[st2 os] R]. rewrite R; cbn [bind]. eauto.
Qed.

Lemma no_panic_all_histories cfg evs : Forall ev_ok evs -> exists os, c20_run cfg evs = Ok os.
Proof.
  intros F. unfold c20_run.
  destruct (run_total cfg evs state_init (inv_init cfg) F) as [[st os] R]. rewrite R. cbn. eauto.
Qed.

(* the expect() is gone from classify_no_error (T1), so there is no premise left *)
Lemma gen_no_expect : classify_expects_question = false. Proof. reflexivity. Qed.

Lemma no_panic_unconditional cfg evs : exists os, c20_run cfg evs = Ok os.
Proof.
  apply no_panic_all_histories. apply Forall_forall. intros ev _.
  destruct ev; cbn; try exact Logic.I; rewrite gen_no_expect; discriminate.
Qed.

Definition witness_no_question : list event :=
  [EQuery (mkKey 1 1 1 AdDo_None false true) 0 1 0 0
     (RMsg (mkMsg 7 0 false false true false None 1 [mkRR 1 1 60 7 false] [] [] false))].

Lemma no_panic_refuted : classify_expects_question = true ->
  ~ Forall ev_ok witness_no_question /\ c20_run config_default witness_no_question = Panic 1.
Proof.
  intros H.
  first
    [ solve [exfalso; vm_compute in H; discriminate H]
    | solve [split;
             [intros F; inversion F as [|? ? He _]; subst; apply (He H); eexists; split; reflexivity
             |vm_compute; reflexivity]] ].
Qed.

(* ---------- 5. no_dnssec_leak --------------------------------------------------------------------- *)
Definition no_dnssec_rrs (l : list rr) : Prop := forall r, In r l -> is_dnssec (r_type r) = false.
Definition no_dnssec (r : resp) : Prop :=
  match r with
  | RMsg m => no_dnssec_rrs (m_an m) /\ no_dnssec_rrs (m_ns m) /\ no_dnssec_rrs (m_ar m)
  | RErr _ => True
  end.

Lemma no_dnssec_filter_age f l :
  (forall r, r_type (f r) = r_type r) -> no_dnssec_rrs (map f (filter keep_rr l)).
Proof.
  intros Hf r H. apply in_map_iff in H. destruct H as (r0 & <- & H).
  apply filter_In in H. destruct H as [_ K]. rewrite Hf. unfold keep_rr in K.
  apply negb_true_iff in K. exact K.
Qed.

Lemma age_type a r : r_type (age a r) = r_type r. Proof. reflexivity. Qed.
Lemma age_opt_type a r : r_type (age_opt a r) = r_type r.
Proof. unfold age_opt; destruct (negb _); reflexivity. Qed.

Lemma no_dnssec_map f l : (forall r, r_type (f r) = r_type r) ->
  no_dnssec_rrs l -> no_dnssec_rrs (map f l).
Proof.
  intros Hf N r H. apply in_map_iff in H. destruct H as (r0 & <- & H). rewrite Hf. auto.
Qed.

Lemma no_dnssec_sub l : no_dnssec_rrs l -> no_dnssec_rrs (filter keep_rr l).
Proof. intros N r H. apply filter_In in H. apply N; tauto. Qed.

(* the stripped types are RRSIG, NSEC and NSEC3 *)
Lemma no_dnssec_types l : no_dnssec_rrs l ->
  forall r, In r l -> r_type r <> 46 /\ r_type r <> 47 /\ r_type r <> 50.
Proof.
  intros N r H. specialize (N r H).
  repeat split; intros E; rewrite E in N; vm_compute in N; discriminate N.
Qed.

(* (a) whatever upstream does: an answer obtained for a DO request is stripped
   before it reaches a request without DO, and AD is cleared for a request
   with neither AD nor DO unless the very same kind of request obtained it *)
Lemma no_dnssec_leak cfg evs st os ev k now qc st' r :
  request_of ev = Some (k, now, qc) ->
  run cfg state_init evs = Ok (st, os) ->
  step cfg st ev = Ok (st', OServed r) ->
  exists k0 t0 u0,
    logged evs os (k0, t0, u0) /\ same_question k0 k /\ flags_compatible k0 k /\ derives u0 r /\
    (k_addo k <> AdDo_Do -> k_addo k0 = AdDo_Do -> no_dnssec r) /\
    (k_addo k = AdDo_None -> k_addo k0 <> AdDo_None -> resp_ad r = false).
Proof.
  intros Hq R S. pose proof (run_inv cfg evs _ _ _ (inv_init cfg) R) as I.
  destruct (served_master _ _ _ _ _ _ _ _ I Hq S) as [F|[_ (e & -> & F)]].
  2:{ destruct F as (_ & -> & k0 & t0 & m0 & Hin & Q & Fl & B).
      exists k0, t0, (RMsg m0). split; [eapply run_init_logged; eassumption|]. cbn. auto 10. }
  destruct F as (k0 & t0 & u0 & x & val & Hin & Hk & _ & _ & [D|[-> B]]);
    exists k0, t0, u0; (split; [eapply run_init_logged; eassumption|]);
    destruct (compat_question _ _ _ _ Hk) as [Q Fl]; (split; [exact Q|]); (split; [exact Fl|]).
  2:{ destruct (bad_source _ _ B) as (m0 & -> & B0). cbn. auto 10. }
  apply decrement_ok in D. destruct D as (-> & _ & _). split; [apply derives_aged|].
  destruct Hk as (_ & _ & _ & _ & _ & _ & _ & _ & _ & _ & H11 & H12).
  split.
  - intros Hn Hd. specialize (H11 Hd Hn).
    destruct u0 as [m0|e0]; cbn; [|exact Logic.I]. rewrite H11.
    repeat split; apply no_dnssec_filter_age; intros; [apply age_type|apply age_type|apply age_opt_type].
  - intros Hn Hd. specialize (H12 Hn Hd). destruct u0 as [m0|e0]; cbn in *; [exact H12|reflexivity].
Qed.

(* (b) with an upstream that itself respects DO / AD, no served answer leaks *)
Definition upstream_respects_flags (L : ulog) : Prop :=
  forall k0 t0 m0, In (k0, t0, RMsg m0) L ->
    (k_addo k0 <> AdDo_Do -> no_dnssec (RMsg m0)) /\ (k_addo k0 = AdDo_None -> m_ad m0 = false).

Lemma no_leak_honest_upstream cfg evs st os ev k now qc st' r :
  request_of ev = Some (k, now, qc) ->
  run cfg state_init evs = Ok (st, os) -> upstream_respects_flags (s_log st) ->
  step cfg st ev = Ok (st', OServed r) ->
  (k_addo k <> AdDo_Do -> no_dnssec r) /\ (k_addo k = AdDo_None -> resp_ad r = false).
Proof.
  intros Hq R W S. pose proof (run_inv cfg evs _ _ _ (inv_init cfg) R) as I.
  destruct (served_master _ _ _ _ _ _ _ _ I Hq S) as [F|[_ (e & -> & _)]];
    [|split; intros; [exact Logic.I|reflexivity]].
  destruct F as (k0 & t0 & u0 & x & val & Hin & Hk & _ & _ & [D|[-> _]]);
    [|split; intros; [exact Logic.I|reflexivity]].
  apply decrement_ok in D. destruct D as (-> & _ & _).
  destruct Hk as (_ & _ & _ & _ & _ & H6 & H7 & _ & _ & _ & H11 & H12).
  destruct u0 as [m0|e0]; [|split; intros; [exact Logic.I|reflexivity]].
  destruct (W _ _ _ Hin) as [W1 W2].
  split.
  - intros Hn. cbn.
    destruct (x_strip x) eqn:X.
    + repeat split; apply no_dnssec_filter_age; intros; [apply age_type|apply age_type|apply age_opt_type].
    + assert (Hk0 : k_addo k0 <> AdDo_Do) by (intros Hd; specialize (H11 Hd Hn); congruence).
      destruct (W1 Hk0) as (N1 & N2 & N3).
      repeat split; apply no_dnssec_map; auto using age_type, age_opt_type.
  - intros Hn. cbn.
    destruct (k_addo k0) eqn:K0.
    + apply H12; [exact Hn|discriminate].
    + apply H12; [exact Hn|discriminate].
    + rewrite (W2 eq_refl). destruct (x_ad x); reflexivity.
Qed.

(* only QUERY / IN requests touch the cache *)
Lemma bypass_untouched cfg st k op qc now delay u :
  op <> 0 \/ k_class k <> class_in ->
  step cfg st (EQuery k op qc now delay u) = Ok (st, OBypass) /\
  step cfg st (EStart k op qc now) = Ok (st, OBypass).
Proof.
  intros H. cbn [step]. unfold start.
  destruct ((op =? 0) && (k_class k =? class_in)) eqn:E; [|split; reflexivity].
  apply andb_true_iff in E. destruct E as [E1 E2]. apply N.eqb_eq in E1, E2. tauto.
Qed.

Example ex_bypass :
  c20_run config_default
    [EQuery (key_of_request 1 3 1 true false false false) 0 1 0 0 (RErr 1);
     EQuery (key_of_request 1 1 1 true false false false) 4 1 0 0 (RErr 1);
     EQuery (key_of_request 1 1 1 true false false false) 0 1 0 0 (RErr 1);
     EQuery (key_of_request 1 1 1 true false false false) 0 1 1 0 (RErr 1)]
  = Ok [OBypass; OBypass; OForwarded; OServed (RErr 1)].
Proof. vm_compute. reflexivity. Qed.

(* ---------- 6. liveness at the boundary: `>` not `>=` ---------------------------------------------- *)
Lemma boundary_served cfg st k qc now delay u v :
  inv cfg st -> k_class k = class_in -> cget k (s_cache st) = Some v ->
  now - v_created v = v_valid v * 1000 ->
  exists st' r, step cfg st (EQuery k 0 qc now delay u) = Ok (st', OServed r).
Proof.
  intros I Hc G Hb. cbn [step]. unfold start. rewrite Hc, !N.eqb_refl. cbn [andb negb].
  unfold cache_lookup, cache_lookup_rd_do_ad, cache_lookup_do_ad, cache_lookup_ad. rewrite G.
  cbn [bind]. unfold get_response, elapsed_ms. rewrite Hb.
  assert (E : expired (v_valid v * 1000) (v_valid v) = false).
  { unfold expired. change expired_is_gt with true. cbn. lia. }
  rewrite E.
  assert (Hd : forall m, v_resp v = RMsg m -> forall y, counted m y ->
               cast_secs (v_valid v * 1000) <= r_ttl y).
  { intros m Hm x Hx. pose proof (prov_valid _ _ _ _ (I _ _ (cget_In _ _ _ G))) as V. rewrite Hm in V.
    destruct (validity_msg_bound _ _ _ V) as [Bt _]. specialize (Bt _ Hx).
    pose proof (cast_secs_le (v_valid v * 1000)). lia. }
  destruct (decrement_cases _ _ qc Hd) as [[-> _]|[-> _]]; cbn [bind]; eauto.
Qed.

(* ---------- 7. extended rcodes, CD, request serialisation ----------------------------------------------- *)
(* BADVERS (16), BADMODE (19), 0x123, ...: whatever the low nibble says, an
   extended rcode is a "misc error" and is kept for at most misc_error_duration *)
Lemma extended_rcode_is_misc cfg m : 16 <= opt_rcode m ->
  class_cap cfg m = Ok (N.min (c_maxv cfg) (c_misc cfg)).
Proof.
  intros H. unfold class_cap. rewrite gen_cap_base, gen_cap_misc, class_rcode_is_opt.
  destruct (opt_rcode m) as [|p]; [lia|].
  destruct p as [[p|p|]|[p|p|]|]; try reflexivity; lia.
Qed.

Lemma extended_rcode_validity cfg m v : 16 <= opt_rcode m ->
  validity cfg (RMsg m) = Ok v -> v <= c_misc cfg.
Proof.
  intros H V. destruct (validity_msg_bound _ _ _ V) as [_ [->|(cap & C & L)]]; [lia|].
  rewrite (extended_rcode_is_misc cfg m H) in C. injection C as <-. lia.
Qed.

Lemma extended_rcode_both cfg m v : 16 <= opt_rcode m ->
  class_cap cfg m = Ok (N.min (c_maxv cfg) (c_misc cfg)) /\
  (validity cfg (RMsg m) = Ok v -> v <= c_misc cfg).
Proof. intros H. split; [exact (extended_rcode_is_misc cfg m H)|exact (extended_rcode_validity cfg m v H)]. Qed.

(* the high bits sit in the OPT record: a NOERROR / NXDOMAIN header with an
   OPT ext-rcode octet e > 0 is an extended rcode *)
Lemma opt_rcode_high m o : first_opt (m_ar m) = Some o -> r_bad o = false -> 2 ^ 24 <= r_ttl o ->
  16 <= opt_rcode m.
Proof.
  intros F B H. unfold opt_rcode. rewrite F, B, gen_opt_shift.
  assert (1 <= r_ttl o / 2 ^ 24) by (apply N.div_le_lower_bound; lia). lia.
Qed.

Example ex_badvers :
  c20_run config_default
    [EQuery (mkKey 1 1 1 AdDo_None false true) 0 1 0 0
       (RMsg (mkMsg 9 0 false false true false (Some (1, 1)) 1 [mkRR 1 1 600 1 false] []
                    [mkRR 41 1232 16777216 2 false] false));
     EQuery (mkKey 1 1 1 AdDo_None false true) 0 1 30000 0 (RErr 1);
     EQuery (mkKey 1 1 1 AdDo_None false true) 0 1 30001 0 (RErr 1)]
  = Ok [OForwarded;
        OServed (RMsg (mkMsg 9 0 false false true false (Some (1, 1)) 1 [mkRR 1 1 570 1 false] []
                    [mkRR 41 1232 16777216 2 false] false));
        OForwarded].
Proof. vm_compute. reflexivity. Qed.

(* CD partitions the cache, DO is only satisfied from DO *)
Lemma same_cd_compatible_do cfg evs st os ev k now qc st' r :
  request_of ev = Some (k, now, qc) ->
  run cfg state_init evs = Ok (st, os) ->
  step cfg st ev = Ok (st', OServed r) ->
  exists k0 t0 u0, logged evs os (k0, t0, u0) /\ same_question k0 k /\ derives u0 r /\
    k_cd k0 = k_cd k /\ (k_addo k = AdDo_Do -> k_addo k0 = AdDo_Do).
Proof.
  intros Hq R S. destruct (served_was_received cfg evs st os ev k now qc st' r Hq R S)
    as (k0 & t0 & u0 & L & Q & (F1 & _ & F3 & _) & D).
  exists k0, t0, u0. auto.
Qed.

(* Key::new: every component of the request is in the key *)
Lemma key_of_request_fields name cls ty rd cd ad dnssec_ok :
  let k := key_of_request name cls ty rd cd ad dnssec_ok in
  k_name k = name /\ k_class k = cls /\ k_type k = ty /\ k_cd k = cd /\ k_rd k = rd /\
  k_addo k = (if dnssec_ok then AdDo_Do else if ad then AdDo_Ad else AdDo_None).
Proof. destruct rd, cd, ad, dnssec_ok; cbn; auto 10. Qed.

(* RequestMessage: one serialisation, the base message's OPT record never
   reaches the key or the wire *)
Lemma gen_request_paths : request_one_serialisation = true /\ request_base_opt_dropped = true.
Proof. split; reflexivity. Qed.

Lemma base_opt_ignored name cls ty rd cd ad b b' own :
  key_of_request_msg name cls ty rd cd ad b own = key_of_request_msg name cls ty rd cd ad b' own /\
  (own = None -> k_addo (key_of_request_msg name cls ty rd cd ad b own) <> AdDo_Do).
Proof.
  split; [reflexivity|]. intros ->. unfold key_of_request_msg, request_do, key_of_request. cbn.
  destruct ad; discriminate.
Qed.

(* ---------- 8. interleavings inside one lookup cascade ------------------------------------------------------ *)
(* Between two awaits on the store other requests may read, insert and evict.
   Safety does not depend on the cascade being atomic: (1) whatever is read
   from the store has provenance; (2) provenance survives growth of the log;
   (3) each of the three rewrites turns provenance for the alternate key into
   provenance for the query key, whatever the store looks like by then;
   (4) inserting a value with provenance, at any later time, keeps the store
   invariant; (5) a response prepared from any value with provenance is
   explained by a logged upstream answer and is fresh for that value. *)
Lemma prov_incl cfg L L' k v : incl L L' -> prov cfg L k v -> prov cfg L' k v.
Proof.
  intros H (k0 & t0 & u0 & x & Hin & R). exists k0, t0, u0, x. split; [apply H; exact Hin|exact R].
Qed.

Lemma value_served cfg L k v now qc r :
  prov cfg L k v -> get_response v now qc = Some (Ok r) ->
  exists k0 t0 u0,
    In (k0, t0, u0) L /\ same_question k0 k /\ flags_compatible k0 k /\ derives u0 r /\
    v_created v = t0 /\ now - t0 <= v_valid v * 1000.
Proof.
  intros (k0 & t0 & u0 & x & Hin & Hc & Hr & Hk & Hv). unfold get_response, elapsed_ms.
  destruct (expired (now - v_created v) (v_valid v)) eqn:E; [discriminate|].
  intros [= D]. apply decrement_ok in D. destruct D as (-> & _).
  exists k0, t0, u0. destruct (compat_question _ _ _ _ Hk) as [Q F].
  rewrite Hr. subst t0. apply not_expired_le in E.
  repeat (split; [assumption|]). split; [apply derives_aged|]. split; [reflexivity|exact E].
Qed.

Lemma interleaved_cascade_safe cfg :
  (forall st k v, inv cfg st -> cget k (s_cache st) = Some v -> prov cfg (s_log st) k v) /\
  (forall L L' k v, incl L L' -> prov cfg L k v -> prov cfg L' k v) /\
  (forall L k v v', k_addo k = AdDo_None -> prov cfg L (key_set_addo k AdDo_Ad) v ->
     update_message cfg v m_ad (pure (msg_set_ad false)) = Ok v' -> prov cfg L k v') /\
  (forall L k v v', k_addo k <> AdDo_Do -> is_dnssec (k_type k) = false ->
     prov cfg L (key_set_addo k AdDo_Do) v ->
     update_message cfg v (fun _ => true) (remove_dnssec_o (addo_ad (k_addo k))) = Ok v' -> prov cfg L k v') /\
  (forall L k v v', k_rd k = false -> prov cfg L (key_set_rd k true) v ->
     update_message cfg v (fun _ => true) (pure (msg_set_rd false)) = Ok v' -> prov cfg L k v') /\
  (forall st k v c', inv cfg st -> prov cfg (s_log st) k v ->
     cache_insert cfg k v (s_cache st) = Ok c' -> inv cfg (mkState c' (s_log st))) /\
  (forall L k v now qc r, prov cfg L k v -> get_response v now qc = Some (Ok r) ->
     exists k0 t0 u0, In (k0, t0, u0) L /\ same_question k0 k /\ flags_compatible k0 k /\ derives u0 r /\
       v_created v = t0 /\ now - t0 <= v_valid v * 1000).
Proof.
  split; [intros st k v I G; apply I, cget_In, G|].
  split; [intros L L' k v; apply prov_incl|].
  split.
  { intros L k v v' Ha P U.
    destruct (update_message_spec cfg v m_ad _ (msg_set_ad false) v' (prov_valid _ _ _ _ P)
                (pure_spec _) (fun m => set_ad_noop m) U) as (C' & R' & V').
    apply (prov_ad_step cfg L k v v'); assumption. }
  split.
  { intros L k v v' Ha Hd P U.
    destruct (update_message_spec cfg v _ _ (remove_dnssec (addo_ad (k_addo k))) v' (prov_valid _ _ _ _ P)
               (strip_spec _) (fun m (H : true = false) => False_ind _ (diff_true_false H)) U) as (C' & R' & V').
    apply (prov_do_step cfg L k v v'); assumption. }
  split.
  { intros L k v v' Ha P U.
    destruct (update_message_spec cfg v _ _ (msg_set_rd false) v' (prov_valid _ _ _ _ P)
               (pure_spec _) (fun m (H : true = false) => False_ind _ (diff_true_false H)) U) as (C' & R' & V').
    apply (prov_rd_step cfg L k v v'); assumption. }
  split.
  { intros st k v c' I P CI. unfold inv; cbn [s_cache s_log]. eapply cache_insert_inv; eassumption. }
  intros L k v now qc r. apply value_served.
Qed.
