(* C20 -- executable model of the client cache, src/net/client/cache.rs.

   Time is explicit and counted in milliseconds (tokio::time::Instant under a
   paused clock); validities and TTLs are whole seconds as in the code.  The
   store (moka) is an association list, eviction is an event of the history
   that may remove any entry at any time.  A message is abstracted to what the
   cache reads or edits: rcode, the AA/TC/RD/AD bits, the question's
   (qtype, qclass) if there is one, and the three record sections as lists of
   (type, class, ttl, id) where id stands for owner name + rdata.

   Panic sites: 1 = classify_no_error `.expect("section expected")` on a
   response without question (only while T1 still finds the expect);
   2 = `Ttl - Ttl` underflow in decrement_ttl.
   Parse errors of upstream messages (every `?` on a parse in cache.rs) are
   modelled by two flags: [m_broken] = walking the sections fails (a record
   header does not parse / the counts promise more than there is): `validity`
   fails; [r_bad] = the record's header parses but its RDATA does not parse as
   its type: `validity` does not notice, `decrement_ttl` and `remove_dnssec`
   (which convert every record with into_record::<AllRecordData>) fail.  Both
   give Error::MessageParseError = [parse_error].
   Not modelled: moka's own eviction policy, concurrency. *)
From Coq Require Import NArith List Bool.
From DV Require Import Base.Outcome C20.Gen.
Import ListNotations.
Local Open Scope N_scope.

(* ---------- Config -------------------------------------------------------- *)

Record config := mkConfig {
  c_maxv : N; c_tf : N; c_misc : N; c_nx : N; c_nodata : N; c_deleg : N;
  c_trunc : bool }.

(* DefMinMax::limit = max(min, min(max, value)) *)
Definition limit (lo hi v : N) : N := N.max lo (N.min hi v).

Definition config_default : config :=
  mkConfig maxv_def tf_def misc_def nx_def nodata_def deleg_def cache_truncated_def.

(* a configuration as the public API can build it: Config::new() followed by
   every setter (calling a setter with the default is the identity) *)
Definition config_of (maxv tf misc nx nodata deleg : N) (trunc : bool) : config :=
  mkConfig (limit maxv_min maxv_max maxv) (limit tf_min tf_max tf)
           (limit misc_min misc_max misc) (limit nx_min nx_max nx)
           (limit nodata_min nodata_max nodata) (limit deleg_min deleg_max deleg) trunc.

(* field index as extracted by T1 (order of tools/gen/C20.py FIELDS) *)
Definition cfg_field (c : config) (i : N) : N :=
  match i with
  | 0 => c_maxv c | 1 => c_tf c | 2 => c_misc c | 3 => c_nx c | 4 => c_nodata c
  | _ => c_deleg c
  end.

(* ---------- Key ----------------------------------------------------------- *)

Inductive addo := AdDo_Do | AdDo_Ad | AdDo_None.

Definition addo_new (ad dnssec_ok : bool) : addo :=
  if dnssec_ok then AdDo_Do else if ad then AdDo_Ad else AdDo_None.
Definition addo_ad (a : addo) : bool := match a with AdDo_None => false | _ => true end.
Definition addo_do (a : addo) : bool := match a with AdDo_Do => true | _ => false end.
Definition addo_of_code (n : N) : addo :=
  match n with 0 => AdDo_Do | 1 => AdDo_Ad | _ => AdDo_None end.
Definition addo_eqb (a b : addo) : bool :=
  match a, b with
  | AdDo_Do, AdDo_Do | AdDo_Ad, AdDo_Ad | AdDo_None, AdDo_None => true
  | _, _ => false
  end.

Record key := mkKey {
  k_name : N; k_class : N; k_type : N; k_addo : addo; k_cd : bool; k_rd : bool }.

Definition key_eqb (a b : key) : bool :=
  (k_name a =? k_name b) && (k_class a =? k_class b) && (k_type a =? k_type b)
  && addo_eqb (k_addo a) (k_addo b) && Bool.eqb (k_cd a) (k_cd b) && Bool.eqb (k_rd a) (k_rd b).

Definition key_set_addo (k : key) (a : addo) : key :=
  mkKey (k_name k) (k_class k) (k_type k) a (k_cd k) (k_rd k).
Definition key_set_rd (k : key) (b : bool) : key :=
  mkKey (k_name k) (k_class k) (k_type k) (k_addo k) (k_cd k) b.

(* RequestMessage (request.rs): to_message - what the cache keys on - and
   append_message - what stream transports send - are one serialisation
   (append_message_impl, T1 request_one_serialisation); it drops an OPT record
   of the base message and appends the RequestMessage's own, if a setter
   created one (T1 request_base_opt_dropped).  [base_opt] / [own_opt]: DO bit
   of the OPT record of the base message / of the RequestMessage, if any. *)
Definition request_do (base_opt own_opt : option bool) : bool :=
  match own_opt with Some d => d | None => false end.

(* get_response_impl: `if dnssec_ok && !ad { ad = true }` then Key::new *)
Definition key_of_request (name cls ty : N) (rd cd ad dnssec_ok : bool) : key :=
  let ad' := if dnssec_ok && negb ad then true else ad in
  mkKey name cls ty (addo_new ad' dnssec_ok) cd rd.

Definition key_of_request_msg (name cls ty : N) (rd cd ad : bool) (base_opt own_opt : option bool) : key :=
  key_of_request name cls ty rd cd ad (request_do base_opt own_opt).

(* ---------- Messages ------------------------------------------------------ *)

Record rr := mkRR { r_type : N; r_class : N; r_ttl : N; r_id : N; r_bad : bool }.

Record msg := mkMsg {
  m_id : N;                        (* header ID: copied, never rewritten *)
  m_rcode : N; m_aa : bool; m_tc : bool; m_rd : bool; m_ad : bool;
  m_q : option (N * N);            (* (qtype, qclass) of the first question *)
  m_qcase : N;                     (* spelling (upper/lower case variant) of the question name *)
  m_an : list rr; m_ns : list rr; m_ar : list rr;
  m_broken : bool }.

Inductive resp := RMsg (m : msg) | RErr (e : N).

(* Error::MessageParseError in the numbering of the harness *)
Definition parse_error : N := 20.

Definition msg_set_aa (b : bool) (m : msg) : msg :=
  mkMsg (m_id m) (m_rcode m) b (m_tc m) (m_rd m) (m_ad m) (m_q m) (m_qcase m) (m_an m) (m_ns m) (m_ar m) (m_broken m).
Definition msg_set_rd (b : bool) (m : msg) : msg :=
  mkMsg (m_id m) (m_rcode m) (m_aa m) (m_tc m) b (m_ad m) (m_q m) (m_qcase m) (m_an m) (m_ns m) (m_ar m) (m_broken m).
Definition msg_set_ad (b : bool) (m : msg) : msg :=
  mkMsg (m_id m) (m_rcode m) (m_aa m) (m_tc m) (m_rd m) b (m_q m) (m_qcase m) (m_an m) (m_ns m) (m_ar m) (m_broken m).

Definition is_dnssec (t : N) : bool := existsb (N.eqb t) dnssec_types.
Definition keep_rr (r : rr) : bool := negb (is_dnssec (r_type r)).

(* remove_dnssec(msg, ad) *)
Definition remove_dnssec (ad : bool) (m : msg) : msg :=
  mkMsg (m_id m) (m_rcode m) (m_aa m) (m_tc m) (m_rd m) (if negb ad then false else m_ad m) (m_q m) (m_qcase m)
        (filter keep_rr (m_an m)) (filter keep_rr (m_ns m)) (filter keep_rr (m_ar m)) (m_broken m).

(* every record is converted with into_record::<AllRecordData> before the
   is_dnssec test, so one unparsable RDATA (even of a record that would be
   dropped) fails the whole rewrite *)
Definition has_bad (m : msg) : bool :=
  existsb r_bad (m_an m) || existsb r_bad (m_ns m) || existsb r_bad (m_ar m).
Definition remove_dnssec_o (ad : bool) (m : msg) : outcome msg :=
  if has_bad m then Err parse_error else Ok (remove_dnssec ad m).

(* ---------- validity ------------------------------------------------------ *)

Inductive noerr := Answer | NoData | Delegation | Weird.

Fixpoint scan_auth (qc : N) (found_ns : bool) (l : list rr) : noerr :=
  match l with
  | [] => if found_ns then Delegation else Weird
  | r :: t =>
      if (r_class r =? qc) && (r_type r =? rtype_soa) then NoData
      else scan_auth qc (if (r_class r =? qc) && (r_type r =? rtype_ns) then true else found_ns) t
  end.

Definition classify_no_error (m : msg) : outcome noerr :=
  match m_q m with
  | None => if classify_expects_question then Panic 1 else Ok Weird
  | Some (qt, qc) =>
      if existsb (fun r => (r_type r =? qt) && (r_class r =? qc)) (m_an m) then Ok Answer
      else Ok (scan_auth qc false (m_ns m))
  end.

Definition ttl_min (acc : N) (l : list rr) : N :=
  fold_left (fun a r => N.min a (r_ttl r)) l acc.
Definition ttl_min_opt (acc : N) (l : list rr) : N :=
  fold_left (fun a r => if negb (r_type r =? rtype_opt) then N.min a (r_ttl r) else a) l acc.

(* Message::opt_rcode: the first OPT record of the additional section (if its
   RDATA parses) contributes the upper eight bits of the rcode, which it keeps
   in the top octet of its TTL field *)
Definition first_opt (l : list rr) : option rr := find (fun r => r_type r =? rtype_opt) l.
Definition opt_rcode (m : msg) : N :=
  match first_opt (m_ar m) with
  | Some r => if r_bad r then m_rcode m else (r_ttl r / 2 ^ 24) * 2 ^ opt_rcode_shift + m_rcode m
  | None => m_rcode m
  end.
(* which rcode `validity` looks at (T1) *)
Definition class_rcode (m : msg) : N := if validity_uses_opt_rcode then opt_rcode m else m_rcode m.

(* the per-class cap, before the TTLs are taken into account *)
Definition class_cap (c : config) (m : msg) : outcome N :=
  let base := cfg_field c cap_base in
  match class_rcode m with
  | 0 =>
      do cl <- classify_no_error m;
      Ok (match cl with
          | Answer => base
          | NoData => N.min base (cfg_field c cap_nodata)
          | Delegation => N.min base (cfg_field c cap_deleg)
          | Weird => 0
          end)
  | 3 => Ok (N.min base (cfg_field c cap_nx))
  | _ => Ok (N.min base (cfg_field c cap_misc))
  end.

Definition validity (c : config) (r : resp) : outcome N :=
  match r with
  | RErr _ => Ok (cfg_field c cap_failure)
  | RMsg m =>
      if m_tc m && negb (c_trunc c) then Ok 0
      else if m_broken m then Err parse_error
      else
        do cap <- class_cap c m;
        Ok (ttl_min_opt (ttl_min (ttl_min cap (m_an m)) (m_ns m)) (m_ar m))
  end.

(* ---------- Value --------------------------------------------------------- *)

Record value := mkValue { v_created : N (* ms *); v_valid : N (* s *); v_resp : resp }.

Definition dec_rr (amount : N) (r : rr) : outcome rr :=
  if r_bad r then Err parse_error
  else if r_ttl r <? amount then Panic 2
  else Ok (mkRR (r_type r) (r_class r) (r_ttl r - amount) (r_id r) false).

Fixpoint dec_list (amount : N) (l : list rr) : outcome (list rr) :=
  match l with
  | [] => Ok []
  | r :: t => do r' <- dec_rr amount r; do t' <- dec_list amount t; Ok (r' :: t')
  end.

Fixpoint dec_list_opt (amount : N) (l : list rr) : outcome (list rr) :=
  match l with
  | [] => Ok []
  | r :: t =>
      do r' <- (if negb (r_type r =? rtype_opt) then dec_rr amount r
                else if r_bad r then Err parse_error else Ok r);
      do t' <- dec_list_opt amount t; Ok (r' :: t')
  end.

(* the question is pushed with the name as the current request spelled it
   (orig_qname); a message without question gets none *)
Definition restore_case (m : msg) (qcase : N) : N :=
  match m_q m with Some _ => qcase | None => m_qcase m end.

Definition decrement_ttl (r : resp) (amount : N) (qcase : N) : outcome resp :=
  match r with
  | RErr e => Ok (RErr e)
  | RMsg m =>
      do an <- dec_list amount (m_an m);
      do ns <- dec_list amount (m_ns m);
      do ar <- dec_list_opt amount (m_ar m);
      Ok (RMsg (mkMsg (m_id m) (m_rcode m) (m_aa m) (m_tc m) (m_rd m) (m_ad m) (m_q m) (restore_case m qcase)
                      an ns ar (m_broken m)))
  end.

(* `elapsed > self.valid_for` (operator from T1); elapsed in ms, valid in s *)
Definition expired (elapsed_ms valid_s : N) : bool :=
  if expired_is_gt then valid_s * 1000 <? elapsed_ms else valid_s * 1000 <=? elapsed_ms.

(* Instant::elapsed saturates at zero; `elapsed.as_secs() as u32` *)
Definition elapsed_ms (v : value) (now : N) : N := now - v_created v.
Definition cast_secs (ms : N) : N := (ms / 1000) mod (2 ^ secs_cast_bits).

Definition get_response (v : value) (now : N) (qcase : N) : option (outcome resp) :=
  let e := elapsed_ms v now in
  if expired e (v_valid v) then None
  else Some (decrement_ttl (v_resp v) (cast_secs e) qcase).

(* update_message / update_header / new_from_value_and_response *)
Definition update_message (c : config) (v : value) (tst : msg -> bool) (f : msg -> outcome msg)
  : outcome value :=
  match v_resp v with
  | RErr _ => Ok v
  | RMsg m =>
      if tst m then
        do m' <- f m;
        do val <- validity c (RMsg m');
        Ok (mkValue (v_created v) val (RMsg m'))
      else Ok v
  end.
Definition pure (g : msg -> msg) (m : msg) : outcome msg := Ok (g m).

(* ---------- the store ----------------------------------------------------- *)

Definition cache := list (key * value).

Fixpoint cget (k : key) (c : cache) : option value :=
  match c with
  | [] => None
  | (k', v) :: t => if key_eqb k' k then Some v else cget k t
  end.

Definition cinsert (k : key) (v : value) (c : cache) : cache :=
  (k, v) :: filter (fun e => negb (key_eqb (fst e) k)) c.

Fixpoint evict_nth (n : nat) (c : cache) : cache :=
  match c, n with
  | [], _ => []
  | _ :: t, O => t
  | e :: t, S n' => e :: evict_nth n' t
  end.

(* cache_insert: zero validity is not stored; prepare_for_insert clears AA;
   if that fails the error itself is stored as a failure value *)
Definition cache_insert (cfg : config) (k : key) (v : value) (c : cache) : outcome cache :=
  if insert_skips_zero && (v_valid v =? 0) then Ok c
  else
    match update_message cfg v m_aa (pure (msg_set_aa false)) with
    | Ok v' => Ok (cinsert k v' c)
    | Err e => Ok (cinsert k (mkValue (v_created v) (cfg_field cfg cap_failure) (RErr e)) c)
    | Panic s => Panic s
    | OutOfFuel => OutOfFuel
    end.

(* ---------- the lookup cascade ---------------------------------------------- *)

(* Result<Option<Arc<Value>>, Error> *)
Inductive lres := LSome (v : value) | LNone | LFail (e : N).

(* `?` inside the cascade: an error ends the lookup (the store keeps what was
   inserted so far) *)
Definition try_ {A} (c : cache) (x : outcome A) (k : A -> outcome (cache * lres)) : outcome (cache * lres) :=
  match x with
  | Ok a => k a
  | Err e => Ok (c, LFail e)
  | Panic s => Panic s
  | OutOfFuel => OutOfFuel
  end.

Definition cache_lookup_ad (cfg : config) (k : key) (c : cache) : outcome (cache * lres) :=
  match cget k c with
  | Some v => Ok (c, LSome v)
  | None =>
      if addo_ad (k_addo k) then Ok (c, LNone)
      else
        match cget (key_set_addo k (addo_of_code alt_ad)) c with
        | Some v =>
            try_ c (update_message cfg v m_ad (pure (msg_set_ad ad_fix_sets))) (fun v' =>
            do c' <- cache_insert cfg k v' c;
            Ok (c', LSome v'))
        | None => Ok (c, LNone)
        end
  end.

Definition cache_lookup_do_ad (cfg : config) (k : key) (c : cache) : outcome (cache * lres) :=
  do r <- cache_lookup_ad cfg k c;
  let (c1, res) := r in
  match res with
  | LSome _ | LFail _ => Ok (c1, res)
  | LNone =>
      if addo_do (k_addo k) then Ok (c1, LNone)
      else if is_dnssec (k_type k) then Ok (c1, LNone)
      else
        match cget (key_set_addo k (addo_of_code alt_do)) c1 with
        | Some v =>
            (* T1 strip_failure_is_miss: `update_message(..)?` fails the request,
               `let Ok(value) = .. else { return Ok(None) }` makes it a miss *)
            match update_message cfg v (fun _ => true) (remove_dnssec_o (addo_ad (k_addo k))) with
            | Ok v' => do c2 <- cache_insert cfg k v' c1; Ok (c2, LSome v')
            | Err e => if strip_failure_is_miss then Ok (c1, LNone) else Ok (c1, LFail e)
            | Panic s => Panic s
            | OutOfFuel => OutOfFuel
            end
        | None => Ok (c1, LNone)
        end
  end.

Definition cache_lookup_rd_do_ad (cfg : config) (k : key) (c : cache) : outcome (cache * lres) :=
  do r <- cache_lookup_do_ad cfg k c;
  let (c1, res) := r in
  match res with
  | LSome _ | LFail _ => Ok (c1, res)
  | LNone =>
      if k_rd k then Ok (c1, LNone)
      else
        do r2 <- cache_lookup_do_ad cfg (key_set_rd k alt_rd) c1;
        let (c2, res2) := r2 in
        match res2 with
        | LSome v =>
            try_ c2 (update_message cfg v (fun _ => true) (pure (msg_set_rd rd_fix_sets))) (fun v' =>
            do c3 <- cache_insert cfg k v' c2;
            Ok (c3, LSome v'))
        | LNone => Ok (c2, LNone)
        | LFail e => Ok (c2, LFail e)
        end
  end.

Definition cache_lookup := cache_lookup_rd_do_ad.

(* ---------- histories ------------------------------------------------------- *)

(* A request is two atomic pieces of work separated by the wait for upstream:
   [start] (key, lookup cascade, get_response) and, if that missed, [finish]
   (Value::new on the answer, cache_insert, pass the answer through).  EQuery
   is a request that nothing else interleaves with; EStart / EFinish let any
   number of requests be in flight at once, in any interleaving.  EFinish is
   not tied to a particular EStart: "an upstream answer for key k arrives at t"
   may happen at any point (an over-approximation of what can happen). *)
Inductive event :=
| EQuery (k : key) (opcode : N) (qcase : N) (now : N) (delay : N) (u : resp)
    (* a request whose get_response runs at [now]; if it is forwarded, upstream
       answers [u] after [delay] ms *)
| EStart (k : key) (opcode : N) (qcase : N) (now : N)
| EFinish (k : key) (t : N) (u : resp)
| EEvict (n : nat).   (* the store drops its n-th entry *)

Inductive obs :=
| OServed (r : resp)   (* answered without contacting upstream (a response, or an
                          error raised while preparing it) *)
| OForwarded           (* upstream's answer passed through and cached *)
| OFwdErr (e : N)      (* upstream answered, but Value::new failed on the answer: the
                          caller gets the error, nothing is cached *)
| OBypass              (* not a QUERY/IN request: passed through, no caching *)
| OPending             (* EStart that missed: the request is now waiting for upstream *)
| OEvicted.

(* the upstream log is ghost state: (key of the forwarded request, time the
   answer arrived, the answer) *)
Record state := mkState { s_cache : cache; s_log : list (key * N * resp) }.

Definition state_init : state := mkState [] [].

Inductive sres := SServed (r : resp) | SMiss | SBypass.

Definition start (cfg : config) (st : state) (k : key) (opcode qcase now : N) : outcome (state * sres) :=
  if negb ((opcode =? 0) && (k_class k =? class_in)) then Ok (st, SBypass)
  else
    do r <- cache_lookup cfg k (s_cache st);
    let (c1, res) := r in
    let st1 := mkState c1 (s_log st) in
    match res with
    | LFail e => Ok (st1, SServed (RErr e))   (* `cache_lookup(..).await?` *)
    | LNone => Ok (st1, SMiss)
    | LSome v =>
        match get_response v now qcase with
        | Some (Ok s) => Ok (st1, SServed s)
        | Some (Err e) => Ok (st1, SServed (RErr e))
        | Some (Panic p) => Panic p
        | Some OutOfFuel => OutOfFuel
        | None => Ok (st1, SMiss)
        end
    end.

Definition finish (cfg : config) (st : state) (k : key) (t : N) (u : resp) : outcome (state * obs) :=
  match validity cfg u with
  | Ok val =>
      do c2 <- cache_insert cfg k (mkValue t val u) (s_cache st);
      Ok (mkState c2 ((k, t, u) :: s_log st), OForwarded)
  | Err e => Ok (mkState (s_cache st) ((k, t, u) :: s_log st), OFwdErr e)   (* `Value::new(..)?` *)
  | Panic p => Panic p
  | OutOfFuel => OutOfFuel
  end.

Definition step (cfg : config) (st : state) (ev : event) : outcome (state * obs) :=
  match ev with
  | EEvict n => Ok (mkState (evict_nth n (s_cache st)) (s_log st), OEvicted)
  | EQuery k opcode qcase now delay u =>
      do r <- start cfg st k opcode qcase now;
      let (st1, sr) := r in
      match sr with
      | SServed s => Ok (st1, OServed s)
      | SBypass => Ok (st1, OBypass)
      | SMiss => finish cfg st1 k (now + delay) u
      end
  | EStart k opcode qcase now =>
      do r <- start cfg st k opcode qcase now;
      let (st1, sr) := r in
      Ok (st1, match sr with SServed s => OServed s | SBypass => OBypass | SMiss => OPending end)
  | EFinish k t u => finish cfg st k t u
  end.

Fixpoint run (cfg : config) (st : state) (evs : list event) : outcome (state * list obs) :=
  match evs with
  | [] => Ok (st, [])
  | e :: t =>
      do r <- step cfg st e;
      let (st1, o) := r in
      do r2 <- run cfg st1 t;
      let (st2, os) := r2 in
      Ok (st2, o :: os)
  end.

(* entry point for the extracted driver *)
Definition c20_run (cfg : config) (evs : list event) : outcome (list obs) :=
  do r <- run cfg state_init evs; Ok (snd r).
